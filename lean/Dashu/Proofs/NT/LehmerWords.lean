import Dashu.Model.NT.LehmerWords
import Dashu.Gen.RootTables
import Dashu.Proofs.Int.Word
import Mathlib.Tactic.Ring
import Mathlib.Tactic.Linarith
namespace Dashu.Model.NT
open Dashu.Model

/-- one accumulation `a·x + b·y + carry` stays below `2^(2W)` and its high word below `2^W`, for word operands and
    cofactors with `a + b < 2^W` (the code asserts `a, b ≤ SignedWord::MAX`) -/
theorem ext_acc_bound {W a b x y cx : Nat} (hab : a + b < 2 ^ W) (hx : x < 2 ^ W) (hy : y < 2 ^ W) (hc : cx < 2 ^ W) :
    a * x + b * y + cx < 2 ^ (2 * W) ∧ (a * x + b * y + cx) / 2 ^ W < 2 ^ W := by
  have hB : 2 ^ (2 * W) = 2 ^ W * 2 ^ W := by rw [two_mul, Nat.pow_add]
  have h1 : a * x ≤ a * (2 ^ W - 1) := Nat.mul_le_mul_left _ (by omega)
  have h2 : b * y ≤ b * (2 ^ W - 1) := Nat.mul_le_mul_left _ (by omega)
  have h3 : a * (2 ^ W - 1) + b * (2 ^ W - 1) = (a + b) * (2 ^ W - 1) := by ring
  have h4 : (a + b) * (2 ^ W - 1) ≤ (2 ^ W - 1) * (2 ^ W - 1) := Nat.mul_le_mul_right _ (by omega)
  have hp : 0 < 2 ^ W := Nat.two_pow_pos W
  have h5 : (2 ^ W - 1) * (2 ^ W - 1) + (2 ^ W - 1) = (2 ^ W - 1) * 2 ^ W := by
    have : (2 ^ W - 1) * 2 ^ W = (2 ^ W - 1) * ((2 ^ W - 1) + 1) := by congr 1; omega
    rw [this]; ring
  have h6 : (2 ^ W - 1) * 2 ^ W < 2 ^ W * 2 ^ W := Nat.mul_lt_mul_of_pos_right (by omega) hp
  have hlt : a * x + b * y + cx < 2 ^ W * 2 ^ W := by omega
  refine ⟨by rw [hB]; exact hlt, ?_⟩
  exact Nat.div_lt_of_lt_mul hlt

/-- **`lehmer_ext_step` word loop**: on word operands, with `a + b < 2^W`, `c + d < 2^W` and incoming carries that are
    words, no double-word accumulation overflows (the loop returns), the buffers keep their lengths and stay words,
    the words beyond `len` are untouched, the carries are words, and
    `x'[..len] + 2^(W·len)·x_carry = a·x[..len] + b·y[..len] + cx` (likewise for `y'` with `c`, `d`). -/
theorem lehmerExtStepWords_spec (W a b c d : Nat) (hab : a + b < 2 ^ W) (hcd : c + d < 2 ^ W) :
    ∀ (len : Nat) (x y : List Nat) (cx cy : Nat), IsWords W x → IsWords W y → cx < 2 ^ W → cy < 2 ^ W →
      len ≤ x.length → len ≤ y.length →
      ∃ x' y' cx' cy', lehmerExtStepWords W a b c d len x y cx cy = some (x', y', cx', cy') ∧
        x'.length = x.length ∧ y'.length = y.length ∧ IsWords W x' ∧ IsWords W y' ∧ cx' < 2 ^ W ∧ cy' < 2 ^ W ∧
        x'.drop len = x.drop len ∧ y'.drop len = y.drop len ∧
        val W (x'.take len) + 2 ^ (W * len) * cx' = a * val W (x.take len) + b * val W (y.take len) + cx ∧
        val W (y'.take len) + 2 ^ (W * len) * cy' = c * val W (x.take len) + d * val W (y.take len) + cy := by
  intro len
  induction len with
  | zero =>
    intro x y cx cy hx hy hcx hcy _ _
    refine ⟨x, y, cx, cy, ?_, rfl, rfl, hx, hy, hcx, hcy, rfl, rfl, ?_, ?_⟩
    · cases x <;> cases y <;> rfl
    · simp
    · simp
  | succ n ih =>
    intro x y cx cy hx hy hcx hcy hlx hly
    match x, y, hx, hy, hlx, hly with
    | x0 :: xs, y0 :: ys, hx, hy, hlx, hly =>
      have hx0 := hx.head
      have hy0 := hy.head
      obtain ⟨hsx, hsxc⟩ := ext_acc_bound hab hx0 hy0 hcx
      obtain ⟨hsy, hsyc⟩ := ext_acc_bound hcd hx0 hy0 hcy
      obtain ⟨xs', ys', cx', cy', hrec, hlx', hly', hwx', hwy', hcx', hcy', hdx, hdy, hvx, hvy⟩ :=
        ih xs ys _ _ hx.tail hy.tail hsxc hsyc (by simpa using hlx) (by simpa using hly)
      have hp : 0 < 2 ^ W := Nat.two_pow_pos W
      refine ⟨(a * x0 + b * y0 + cx) % 2 ^ W :: xs', (c * x0 + d * y0 + cy) % 2 ^ W :: ys', cx', cy', ?_, ?_, ?_, ?_, ?_,
        hcx', hcy', ?_, ?_, ?_, ?_⟩
      · simp only [lehmerExtStepWords, hsx, hsy, and_self, if_true, hrec]
      · simp [hlx']
      · simp [hly']
      · exact IsWords.cons (Nat.mod_lt _ hp) hwx'
      · exact IsWords.cons (Nat.mod_lt _ hp) hwy'
      · simpa using hdx
      · simpa using hdy
      · simp only [List.take_succ_cons, val]
        have e := Nat.mod_add_div (a * x0 + b * y0 + cx) (2 ^ W)
        have hpow : 2 ^ (W * (n + 1)) = 2 ^ W * 2 ^ (W * n) := pow_mul_succ W n
        rw [hpow]
        have : (a * x0 + b * y0 + cx) % 2 ^ W + 2 ^ W * val W (xs'.take n) + 2 ^ W * 2 ^ (W * n) * cx'
            = (a * x0 + b * y0 + cx) % 2 ^ W + 2 ^ W * (val W (xs'.take n) + 2 ^ (W * n) * cx') := by ring
        rw [this, hvx]
        have e2 : (a * x0 + b * y0 + cx) % 2 ^ W + 2 ^ W * (a * val W (xs.take n) + b * val W (ys.take n) + (a * x0 + b * y0 + cx) / 2 ^ W)
            = ((a * x0 + b * y0 + cx) % 2 ^ W + 2 ^ W * ((a * x0 + b * y0 + cx) / 2 ^ W)) + 2 ^ W * (a * val W (xs.take n) + b * val W (ys.take n)) := by ring
        rw [e2, e]; ring
      · simp only [List.take_succ_cons, val]
        have e := Nat.mod_add_div (c * x0 + d * y0 + cy) (2 ^ W)
        have hpow : 2 ^ (W * (n + 1)) = 2 ^ W * 2 ^ (W * n) := pow_mul_succ W n
        rw [hpow]
        have : (c * x0 + d * y0 + cy) % 2 ^ W + 2 ^ W * val W (ys'.take n) + 2 ^ W * 2 ^ (W * n) * cy'
            = (c * x0 + d * y0 + cy) % 2 ^ W + 2 ^ W * (val W (ys'.take n) + 2 ^ (W * n) * cy') := by ring
        rw [this, hvy]
        have e2 : (c * x0 + d * y0 + cy) % 2 ^ W + 2 ^ W * (c * val W (xs.take n) + d * val W (ys.take n) + (c * x0 + d * y0 + cy) / 2 ^ W)
            = ((c * x0 + d * y0 + cy) % 2 ^ W + 2 ^ W * ((c * x0 + d * y0 + cy) / 2 ^ W)) + 2 ^ W * (c * val W (xs.take n) + d * val W (ys.take n)) := by ring
        rw [e2, e]; ring

/-! ### Tie A: the two accumulations are the source's

`Gen.lehmer_ext_step_acc_x / _acc_y` are regenerated from the `split_dword(…)` arguments of `lehmer_ext_step`
(vlib/extract_roottabs.py; the rest of the function — asserts, zip/take(len) loop, carry hand-over, stores, returned
pair — is pinned token for token and fails closed). -/

/-- `lehmerExtStepWords` over the regenerated accumulation expressions -/
def lehmerExtStepWordsG (W a b c d : Nat) : Nat → List Nat → List Nat → Nat → Nat → Option (List Nat × List Nat × Nat × Nat)
  | len + 1, x :: xs, y :: ys, cx, cy =>
    let sx := Gen.lehmer_ext_step_acc_x a b c d x y cx cy
    let sy := Gen.lehmer_ext_step_acc_y a b c d x y cx cy
    if sx < 2 ^ (2 * W) ∧ sy < 2 ^ (2 * W) then
      match lehmerExtStepWordsG W a b c d len xs ys (sx / 2 ^ W) (sy / 2 ^ W) with
      | some (xs', ys', cx', cy') => some (sx % 2 ^ W :: xs', sy % 2 ^ W :: ys', cx', cy')
      | none => none
    else none
  | _, xs, ys, cx, cy => some (xs, ys, cx, cy)

theorem lehmerExtStepWords_regenerated (W a b c d : Nat) :
    ∀ (len : Nat) (x y : List Nat) (cx cy : Nat),
      lehmerExtStepWords W a b c d len x y cx cy = lehmerExtStepWordsG W a b c d len x y cx cy := by
  intro len
  induction len with
  | zero => intro x y cx cy; cases x <;> cases y <;> rfl
  | succ n ih =>
    intro x y cx cy
    cases x with
    | nil => cases y <;> rfl
    | cons x0 xs =>
      cases y with
      | nil => rfl
      | cons y0 ys =>
        simp only [lehmerExtStepWords, lehmerExtStepWordsG, Gen.lehmer_ext_step_acc_x, Gen.lehmer_ext_step_acc_y, ih]
        by_cases hc : a * x0 + b * y0 + cx < 2 ^ (2 * W) ∧ c * x0 + d * y0 + cy < 2 ^ (2 * W)
        · simp only [hc, and_self, if_true]
          generalize lehmerExtStepWordsG W a b c d n xs ys ((a * x0 + b * y0 + cx) / 2 ^ W) ((c * x0 + d * y0 + cy) / 2 ^ W) = r
          rcases r with _ | ⟨_, _, _, _⟩ <;> rfl
        · simp only [hc, if_false]

end Dashu.Model.NT
