import Dashu.Model.NT.Log
import Dashu.Proofs.NT.Basic
import Dashu.Proofs.NT.Gcd
import Mathlib.Tactic.Ring
import Mathlib.Tactic.Linarith
/-
  C12: integer logarithm — the correction loops end at the floor logarithm for every admissible
  first guess; `remove` returns the exact multiplicity.
-/
namespace Dashu.Model.NT
open Dashu.Model

/-- `(e, p)` is the floor logarithm of `x` in base `b` together with `b^e` -/
def IsLog (x b : Nat) (res : Nat × Nat) : Prop := res.2 = b ^ res.1 ∧ res.2 ≤ x ∧ x < res.2 * b

/-- the up-loop of `log_dword` / `log_large` from any power `base^est ≤ target` -/
theorem logUpLoop_spec {target base ovf : Nat} (hb : 2 ≤ base) (hovf : ovf = 0 ∨ target < ovf) :
    ∀ (fuel est estPow : Nat), estPow = base ^ est → estPow ≤ target → target < estPow * 2 ^ fuel →
      IsLog target base (logUpLoop target base ovf fuel est estPow) := by
  intro fuel
  induction fuel with
  | zero => intro est estPow _ h2 h3; simp at h3; omega
  | succ n ih =>
    intro est estPow h1 h2 h3
    have hpos : 0 < estPow := by rw [h1]; exact pow_pos (by omega) _
    have hnext : estPow * base = base ^ (est + 1) := by rw [h1, Nat.pow_succ]
    have h2x : estPow * 2 ≤ estPow * base := Nat.mul_le_mul_left _ hb
    unfold logUpLoop
    simp only []
    split
    · rename_i hov
      refine ⟨h1, h2, ?_⟩
      show target < estPow * base
      rcases hovf with h | h
      · exact absurd h hov.1
      · omega
    · split
      · rename_i hlt
        apply ih _ _ hnext (Nat.le_of_lt hlt)
        calc target < estPow * 2 ^ (n + 1) := h3
          _ = estPow * 2 * 2 ^ n := by rw [Nat.pow_succ]; ring
          _ ≤ estPow * base * 2 ^ n := Nat.mul_le_mul_right _ h2x
      · split
        · rename_i heq
          refine ⟨hnext, Nat.le_of_eq heq, ?_⟩
          simp only []
          have : 0 < estPow * base := by omega
          calc target = estPow * base := heq.symm
            _ < estPow * base * 2 := by omega
            _ ≤ estPow * base * base := Nat.mul_le_mul_left _ hb
        · refine ⟨h1, h2, ?_⟩
          simp only []; omega

theorem lt_mul_two_pow_bitLen {t p : Nat} (hp : 0 < p) : t < p * 2 ^ (bitLen t + 1) := by
  have := lt_two_pow_bitLen t
  have h2 : 2 ^ bitLen t ≤ 2 ^ (bitLen t + 1) := Nat.pow_le_pow_right (by decide) (by omega)
  calc t < 2 ^ (bitLen t + 1) := by omega
    _ ≤ p * 2 ^ (bitLen t + 1) := Nat.le_mul_of_pos_left _ hp

/-- `log_dword`: zero target panics; otherwise, for **any** first guess with `base^est ≤ target`
    (what the code asserts) the result is the floor logarithm; a guess violating it trips the assertion -/
theorem logDword_spec (W : Nat) {target base : Nat} (hb : 2 ≤ base) (ht : target < 2 ^ (2 * W)) (est : Nat) :
    (target = 0 → logDword W target base est = .error .logInvalid) ∧
    (0 < target → base ^ est ≤ target →
        ∃ res, logDword W target base est = .ok res ∧ IsLog target base res) := by
  constructor
  · intro h; simp [logDword, h]
  · intro hpos hest
    unfold logDword
    rw [if_neg (by omega)]
    split
    · rename_i h1; exact ⟨_, rfl, by simp [IsLog, h1]; omega⟩
    · split
      · rename_i h1 h2; exact ⟨_, rfl, by simp [IsLog]; omega⟩
      · split
        · rename_i h1 h2 h3
          refine ⟨_, rfl, ?_⟩
          simp only [IsLog, Nat.pow_one, true_and]
          subst h3
          exact ⟨Nat.le_refl _, by nlinarith⟩
        · simp only []
          rw [if_neg (by omega)]
          exact ⟨_, rfl, logUpLoop_spec hb (Or.inr ht) _ _ _ rfl hest
            (lt_mul_two_pow_bitLen (pow_pos (by omega) _))⟩

/-- `log_large`: for any first guess whose `max(est, 1)`-th power is `≤ target` -/
theorem logLarge_spec {target base : Nat} (hb : 2 ≤ base) (est : Nat) (hest : base ^ max est 1 ≤ target) :
    ∃ res, logLarge target base est = .ok res ∧ IsLog target base res := by
  unfold logLarge
  simp only []
  rw [if_neg (by omega)]
  exact ⟨_, rfl, logUpLoop_spec hb (Or.inl rfl) _ _ _ rfl hest
    (lt_mul_two_pow_bitLen (pow_pos (by omega) _))⟩

/-- second loop of `log_word_base`: from a power that is `≤ target`, or one factor too large -/
theorem logWordFix_spec {target base : Nat} (hb : 2 ≤ base) :
    ∀ (n est estPow : Nat), estPow = base ^ est →
      (target < estPow → 0 < est ∧ base ^ (est - 1) ≤ target) →
      target < estPow * 2 ^ n →
      IsLog target base (logWordFix target base (n + 1) est estPow) := by
  intro n
  induction n with
  | zero =>
    intro est estPow h1 h2 h3
    simp only [Nat.pow_zero, Nat.mul_one] at h3
    obtain ⟨hpos, hle⟩ := h2 h3
    have hsplit : estPow = base ^ (est - 1) * base := by
      rw [h1, ← Nat.pow_succ]; congr 1; omega
    unfold logWordFix
    rw [if_neg (by omega), if_neg (by omega)]
    refine ⟨?_, ?_, ?_⟩
    · simp only []; rw [hsplit, Nat.mul_div_cancel _ (by omega)]
    · simp only []; rw [hsplit, Nat.mul_div_cancel _ (by omega)]; exact hle
    · simp only []; rw [hsplit, Nat.mul_div_cancel _ (by omega), ← hsplit]; exact h3
  | succ n ih =>
    intro est estPow h1 h2 h3
    have hnext : estPow * base = base ^ (est + 1) := by rw [h1, Nat.pow_succ]
    have hpos : 0 < estPow := by rw [h1]; exact pow_pos (by omega) _
    unfold logWordFix
    split
    · rename_i hlt
      apply ih _ _ hnext
      · intro _; exact ⟨by omega, by simpa [← h1] using Nat.le_of_lt hlt⟩
      · calc target < estPow * 2 ^ (n + 1) := h3
          _ = estPow * 2 * 2 ^ n := by rw [Nat.pow_succ]; ring
          _ ≤ estPow * base * 2 ^ n := Nat.mul_le_mul_right _ (Nat.mul_le_mul_left _ hb)
    · split
      · rename_i h4 heq
        refine ⟨h1, Nat.le_of_eq heq, ?_⟩
        simp only []
        calc target = estPow := heq.symm
          _ < estPow * 2 := by omega
          _ ≤ estPow * base := Nat.mul_le_mul_left _ hb
      · rename_i h4 h5
        have hgt : target < estPow := by omega
        obtain ⟨hp, hle⟩ := h2 hgt
        have hsplit : estPow = base ^ (est - 1) * base := by
          rw [h1, ← Nat.pow_succ]; congr 1; omega
        refine ⟨?_, ?_, ?_⟩
        · simp only []; rw [hsplit, Nat.mul_div_cancel _ (by omega)]
        · simp only []; rw [hsplit, Nat.mul_div_cancel _ (by omega)]; exact hle
        · simp only []; rw [hsplit, Nat.mul_div_cancel _ (by omega), ← hsplit]; exact hgt

/-- `max_exp_in_word`: returns `(e, base^e)` with `e ≥ 1` -/
theorem maxExpInWord_spec (W base : Nat) :
    (maxExpInWord W base).2 = base ^ (maxExpInWord W base).1 ∧ 0 < (maxExpInWord W base).1 := by
  unfold maxExpInWord
  have : ∀ (fuel e p : Nat), p = base ^ e → 0 < e →
      (maxExpInWord.go W base fuel e p).2 = base ^ (maxExpInWord.go W base fuel e p).1 ∧
      0 < (maxExpInWord.go W base fuel e p).1 := by
    intro fuel
    induction fuel with
    | zero => intro e p h1 h2; exact ⟨h1, h2⟩
    | succ n ih =>
      intro e p h1 h2
      unfold maxExpInWord.go
      split
      · exact ih _ _ (by rw [h1, Nat.pow_succ]) (by omega)
      · exact ⟨h1, h2⟩
  exact this W 1 base (by simp) (by decide)

/-- first loop of `log_word_base`: stepping by whole word-powers never passes the target -/
theorem logWordStep_spec {W target base wbase wexp : Nat} (hW : 0 < W) (hb : 2 ≤ base)
    (hw : wbase = base ^ wexp) (hwlt : wbase < 2 ^ W) :
    ∀ (fuel est estPow : Nat), estPow = base ^ est → estPow ≤ target → 0 < estPow →
      (logWordStep W target wbase wexp fuel est estPow).2 = base ^ (logWordStep W target wbase wexp fuel est estPow).1 ∧
      (logWordStep W target wbase wexp fuel est estPow).2 ≤ target ∧
      0 < (logWordStep W target wbase wexp fuel est estPow).2 := by
  have hwpos : 0 < wbase := by rw [hw]; exact pow_pos (by omega) _
  intro fuel
  induction fuel with
  | zero => intro est estPow h1 h2 h3; exact ⟨h1, h2, h3⟩
  | succ n ih =>
    intro est estPow h1 h2 h3
    unfold logWordStep
    split
    · rename_i hlen
      simp only []
      generalize hstopdef : (if wordLen W estPow = wordLen W target - 1 then
          decide ((estPow / 2 ^ (W * (wordLen W estPow - 1)) + 1) * wbase >
            target / 2 ^ (W * (wordLen W target - 2))) else false) = stop
      cases stop with
      | true => exact ⟨h1, h2, h3⟩
      | false =>
        simp only [Bool.false_eq_true, if_false]
        have hnext : estPow * wbase = base ^ (est + wexp) := by rw [h1, hw, Nat.pow_add]
        have htpos : target ≠ 0 := by omega
        have hle : estPow * wbase ≤ target := by
          have he := lt_two_pow_wordLen hW estPow
          have ht := two_pow_le_of_wordLen hW htpos
          by_cases hadj : wordLen W estPow = wordLen W target - 1
          · -- one word shorter: the overestimate test passed
            rw [if_pos hadj] at hstopdef
            have hs : ¬ ((estPow / 2 ^ (W * (wordLen W estPow - 1)) + 1) * wbase >
                target / 2 ^ (W * (wordLen W target - 2))) := by simpa using hstopdef
            have e : wordLen W estPow - 1 = wordLen W target - 2 := by omega
            rw [e] at hs
            have hs : (estPow / 2 ^ (W * (wordLen W target - 2)) + 1) * wbase ≤
                target / 2 ^ (W * (wordLen W target - 2)) := by omega
            have hP : 0 < 2 ^ (W * (wordLen W target - 2)) := Nat.two_pow_pos _
            generalize 2 ^ (W * (wordLen W target - 2)) = P at hs hP
            have h5 : estPow < (estPow / P + 1) * P := by
              have := Nat.div_add_mod estPow P
              have := Nat.mod_lt estPow hP
              rw [Nat.add_mul, Nat.one_mul, Nat.mul_comm]; omega
            have h6 : target / P * P ≤ target := Nat.div_mul_le_self _ _
            calc estPow * wbase ≤ (estPow / P + 1) * P * wbase := Nat.mul_le_mul_right _ (Nat.le_of_lt h5)
              _ = (estPow / P + 1) * wbase * P := by ring
              _ ≤ target / P * P := Nat.mul_le_mul_right _ hs
              _ ≤ target := h6
          · -- at least two words shorter
            have hlen2 : wordLen W estPow + 1 ≤ wordLen W target - 1 := by omega
            have h5 : estPow * wbase < 2 ^ (W * wordLen W estPow) * 2 ^ W :=
              Nat.mul_lt_mul'' he hwlt
            have h6 : 2 ^ (W * wordLen W estPow) * 2 ^ W = 2 ^ (W * (wordLen W estPow + 1)) := by
              rw [← Nat.pow_add, Nat.mul_succ]
            have h7 : 2 ^ (W * (wordLen W estPow + 1)) ≤ 2 ^ (W * (wordLen W target - 1)) :=
              Nat.pow_le_pow_right (by decide) (Nat.mul_le_mul_left W hlen2)
            omega
        exact ih _ _ hnext hle (Nat.mul_pos h3 hwpos)
    · exact ⟨h1, h2, h3⟩

theorem maxExpInWord_lt (W base : Nat) (hb : base < 2 ^ W) : (maxExpInWord W base).2 < 2 ^ W := by
  unfold maxExpInWord
  have : ∀ (fuel e p : Nat), p < 2 ^ W → (maxExpInWord.go W base fuel e p).2 < 2 ^ W := by
    intro fuel
    induction fuel with
    | zero => intro e p h; exact h
    | succ n ih =>
      intro e p h
      unfold maxExpInWord.go
      split
      · rename_i hlt; exact ih _ _ hlt
      · exact h
  exact this W 1 base hb

/-- `log_word_base`: for any first guess with `base^est ≤ target` -/
theorem logWordBase_spec {W target base : Nat} (hW : 0 < W) (hb : 2 ≤ base) (hbw : base < 2 ^ W)
    (est : Nat) (hest : base ^ est ≤ target) :
    ∃ res, logWordBase W target base est = .ok res ∧ IsLog target base res := by
  unfold logWordBase
  obtain ⟨hw1, _⟩ := maxExpInWord_spec W base
  have hw2 := maxExpInWord_lt W base hbw
  generalize maxExpInWord W base = we at hw1 hw2
  obtain ⟨wexp, wbase⟩ := we
  simp only [] at hw1 hw2 ⊢
  rw [if_neg (by omega)]
  obtain ⟨h1, h2, h3⟩ := logWordStep_spec (target := target) hW hb hw1 hw2 (wordLen W target + 1) est
    (base ^ est) rfl hest (pow_pos (by omega) _)
  generalize logWordStep W target wbase wexp (wordLen W target + 1) est (base ^ est) = st at h1 h2 h3
  obtain ⟨e', p'⟩ := st
  simp only [] at h1 h2 h3 ⊢
  exact ⟨_, rfl, logWordFix_spec hb (bitLen target + 1) e' p' h1 (fun h => by omega)
    (lt_mul_two_pow_bitLen h3)⟩

/-- `TypedReprRef::log` as the property requires it (`fixed = true`): panics exactly for a zero
    target or a base below 2, otherwise — for every estimator whose guess the code's assertion
    accepts — returns the floor logarithm and the corresponding power -/
theorem logRepr_spec (W : Nat) (hW : 0 < W) (estF : Nat → Nat → Nat) (x base : Nat)
    (hest : base ≤ x → base ^ max (estF x base) 1 ≤ x) :
    ((x = 0 ∨ base < 2) → logRepr W true estF x base = .error .logInvalid) ∧
    (0 < x → 2 ≤ base → ∃ res, logRepr W true estF x base = .ok res ∧ IsLog x base res) := by
  constructor
  · intro h
    unfold logRepr
    by_cases hb : base < 2
    · have : base < 2 ^ (2 * W) := Nat.lt_of_lt_of_le hb (by
        calc 2 = 2 ^ 1 := rfl
          _ ≤ 2 ^ (2 * W) := Nat.pow_le_pow_right (by decide) (by omega))
      simp [hb, this]
    · have hx : x = 0 := by omega
      simp [hx]; omega
  · intro hx hb
    have hxb : 2 ^ (bitLen x - 1) ≤ x := two_pow_bitLen_le (by omega)
    have hxu := lt_two_pow_bitLen x
    have hbl := bitLen_pos (show x ≠ 0 by omega)
    have hestle : base ≤ x → base ^ estF x base ≤ x := by
      intro h
      exact Nat.le_trans (Nat.pow_le_pow_right (by omega) (Nat.le_max_left _ _)) (hest h)
    unfold logRepr
    rw [if_neg (by omega)]
    split
    · rename_i hsmall
      rw [if_neg (by omega)]
      split
      · -- base 2
        rename_i h2
        subst h2
        rw [if_neg (by omega)]
        refine ⟨_, rfl, rfl, hxb, ?_⟩
        show x < 2 ^ (bitLen x - 1) * 2
        rw [← Nat.pow_succ]
        have : (bitLen x - 1).succ = bitLen x := by omega
        rw [this]; exact hxu
      · split
        · -- a power of two
          rename_i h2 hpow
          rw [if_neg (by omega)]
          simp only []
          have hj : 0 < bitLen base - 1 := by
            by_contra h0
            have : bitLen base - 1 = 0 := by omega
            rw [this] at hpow; omega
          generalize bitLen base - 1 = j at hpow hj
          refine ⟨_, rfl, ?_, ?_, ?_⟩
          · show 2 ^ ((bitLen x - 1) / j * j) = base ^ ((bitLen x - 1) / j)
            rw [hpow, ← Nat.pow_mul, Nat.mul_comm]
          · show 2 ^ ((bitLen x - 1) / j * j) ≤ x
            exact Nat.le_trans (Nat.pow_le_pow_right (by decide) (Nat.div_mul_le_self _ _)) hxb
          · show x < 2 ^ ((bitLen x - 1) / j * j) * base
            rw [hpow, ← Nat.pow_add]
            have hdm := Nat.div_add_mod (bitLen x - 1) j
            have hml := Nat.mod_lt (bitLen x - 1) hj
            have : bitLen x ≤ (bitLen x - 1) / j * j + j := by
              rw [Nat.mul_comm]; omega
            exact Nat.lt_of_lt_of_le hxu (Nat.pow_le_pow_right (by decide) this)
        · rename_i h2 hpow
          split
          · rename_i hxs
            -- log_dword: shortcuts first
            by_cases hle : base ≤ x
            · exact (logDword_spec W hb hxs _).2 hx (hestle hle)
            · -- target < base: the estimate is not consulted
              unfold logDword
              rw [if_neg (by omega)]
              split
              · rename_i h1; exact ⟨_, rfl, by simp [IsLog, h1]; omega⟩
              · rw [if_pos (by omega)]
                exact ⟨_, rfl, by simp [IsLog]; omega⟩
          · rename_i hxl
            have hbx : base ≤ x := by omega
            split
            · rename_i hbw
              exact logWordBase_spec hW hb hbw _ (hestle hbx)
            · exact logLarge_spec hb _ (hest hbx)
    · rename_i hlarge
      split
      · exact ⟨_, rfl, by simp [IsLog]; omega⟩
      · split
        · exact ⟨_, rfl, by simp [IsLog]; omega⟩
        · split
          · rename_i h1 h2 h3
            subst h3
            refine ⟨_, rfl, ?_⟩
            simp only [IsLog, Nat.pow_one, true_and]
            exact ⟨Nat.le_refl _, by nlinarith⟩
          · exact logLarge_spec hb _ (hest (by omega))

/-- the driver's estimator (`est = 1`) is admissible: the unconditional corollary -/
theorem logRepr_estOne (W : Nat) (hW : 0 < W) (x base : Nat) (hx : 0 < x) (hb : 2 ≤ base) :
    ∃ res, logRepr W true (fun _ _ => 1) x base = .ok res ∧ IsLog x base res :=
  (logRepr_spec W hW (fun _ _ => 1) x base (by intro h; simpa using h)).2 hx hb

-- ---------------------------------------------------------------- remove

/-- second stage of `remove`: walking down the tower `f^(2^L), …, f^2` (highest first) divides out
    every remaining power whose exponent bit is set; afterwards `f^2 ∤ q` -/
theorem removeDown_spec {f : Nat} (hf : 2 ≤ f) :
    ∀ (pows : List Nat) (q exp x : Nat), 0 < q →
      (∀ i, i < pows.length → pows.getD i 0 = f ^ (2 ^ (pows.length - i))) →
      x = q * f ^ exp → ¬ (f ^ (2 ^ (pows.length + 1)) ∣ q) →
      let res := removeDown pows q exp
      x = res.1 * f ^ res.2 ∧ 0 < res.1 ∧ ¬ (f ^ 2 ∣ res.1) := by
  intro pows
  induction pows with
  | nil =>
    intro q exp x hq _ hx hnd
    exact ⟨hx, hq, by simpa [removeDown] using hnd⟩
  | cons last rest ih =>
    intro q exp x hq hp hx hnd
    have hlast : last = f ^ (2 ^ (rest.length + 1)) := by
      have := hp 0 (by simp)
      simpa using this
    have hrest : ∀ i, i < rest.length → rest.getD i 0 = f ^ (2 ^ (rest.length - i)) := by
      intro i hi
      have := hp (i + 1) (by simp; omega)
      simpa using this
    have hfpos : 0 < last := by rw [hlast]; exact pow_pos (by omega) _
    unfold removeDown
    split
    · rename_i hdiv
      have hq' : q = q / last * last := by
        have := Nat.div_add_mod q last
        rw [hdiv] at this; rw [Nat.mul_comm]; omega
      apply ih (q / last) _ x
      · apply Nat.pos_of_ne_zero; intro h0; rw [h0] at hq'; omega
      · exact hrest
      · rw [hx, Nat.pow_add, ← hlast]
        calc q * f ^ exp = q / last * last * f ^ exp := by rw [← hq']
          _ = q / last * (f ^ exp * last) := by ring
      · intro hd
        apply hnd
        have : f ^ (2 ^ (rest.length + 1 + 1)) = last * last := by
          rw [hlast, ← Nat.pow_add]; congr 1; rw [Nat.pow_succ]; omega
        simp only [List.length_cons]
        rw [this, hq']
        exact Nat.mul_dvd_mul (by rw [hlast] at hd ⊢; exact hd) (Nat.dvd_refl _)
    · rename_i hdiv
      apply ih q exp x hq hrest hx
      intro hd
      apply hdiv
      rw [hlast]
      exact Nat.mod_eq_zero_of_dvd hd

/-- first stage of `remove`: the squaring tower grows while the quotient stays divisible -/
theorem removeUp_spec {f x : Nat} (hf : 2 ≤ f) :
    ∀ (fuel q exp : Nat) (pows : List Nat), 0 < q → q < 2 ^ fuel → pows ≠ [] →
      (∀ i, i < pows.length → pows.getD i 0 = f ^ (2 ^ (pows.length - i))) →
      x = q * f ^ exp →
      let res := removeUp fuel q exp pows
      x = res.1 * f ^ res.2.1 ∧ 0 < res.1 ∧
      (∀ i, i < res.2.2.length → res.2.2.getD i 0 = f ^ (2 ^ (res.2.2.length - i))) ∧
      ¬ (f ^ (2 ^ (res.2.2.length + 1)) ∣ res.1) := by
  intro fuel
  induction fuel with
  | zero => intro q _ _ hq h; simp at h; omega
  | succ n ih =>
    intro q exp pows hq hlt hne hp hx
    unfold removeUp
    cases pows with
    | nil => exact absurd rfl hne
    | cons last rest =>
      simp only []
      have hlast : last = f ^ (2 ^ (rest.length + 1)) := by
        have := hp 0 (by simp)
        simpa using this
      have h4 : 4 ≤ last := by
        rw [hlast]
        calc 4 = 2 ^ 2 := rfl
          _ ≤ f ^ 2 := Nat.pow_le_pow_left hf 2
          _ ≤ f ^ (2 ^ (rest.length + 1)) := Nat.pow_le_pow_right (by omega) (by
              calc 2 = 2 ^ 1 := rfl
                _ ≤ 2 ^ (rest.length + 1) := Nat.pow_le_pow_right (by decide) (by omega))
      split
      · rename_i hnd
        refine ⟨hx, hq, hp, ?_⟩
        intro hd
        apply hnd
        have : f ^ 2 ^ ((last :: rest).length + 1) = last * last := by
          rw [hlast, ← Nat.pow_add]; congr 1; simp [Nat.pow_succ]; omega
        rw [this] at hd
        exact Nat.mod_eq_zero_of_dvd (Nat.dvd_trans (Nat.dvd_mul_right _ _) hd)
      · rename_i hdiv
        have hdiv : q % last = 0 := by omega
        have hq' : q = q / last * last := by
          have := Nat.div_add_mod q last
          rw [hdiv] at this; rw [Nat.mul_comm]; omega
        have hqpos : 0 < q / last := by
          apply Nat.pos_of_ne_zero; intro h0; rw [h0] at hq'; omega
        apply ih (q / last) _ (last * last :: last :: rest) hqpos
        · have : q / last ≤ q / 2 := Nat.div_le_div_left (by omega) (by decide)
          rw [Nat.pow_succ] at hlt; omega
        · simp
        · intro i hi
          cases i with
          | zero =>
            simp only [List.getD_cons_zero, List.length_cons, Nat.sub_zero]
            rw [hlast, ← Nat.pow_add]; congr 1; have := Nat.pow_succ 2 (rest.length + 1); omega
          | succ i =>
            have := hp i (by simp at hi ⊢; omega)
            simp only [List.getD_cons_succ, List.length_cons] at this ⊢
            rw [this]; congr 2; omega
        · rw [hx, Nat.pow_add]
          have : f ^ 2 ^ (last :: rest).length = last := by rw [hlast]; simp
          rw [this]
          calc q * f ^ exp = q / last * last * f ^ exp := by rw [← hq']
            _ = q / last * (f ^ exp * last) := by ring

/-- `UBig::remove`: `None` exactly for `x = 0` or `factor < 2`; otherwise the exact multiplicity
    `e` and the cofactor `q` with `x = q·f^e`, `f ∤ q` -/
theorem removeRepr_spec (x f : Nat) :
    ((x = 0 ∨ f < 2) → removeRepr x f = none) ∧
    (0 < x → 2 ≤ f → ∃ e q, removeRepr x f = some (e, q) ∧ x = q * f ^ e ∧ ¬ (f ∣ q)) := by
  constructor
  · intro h
    unfold removeRepr
    rw [if_pos (by omega)]
  · intro hx hf
    unfold removeRepr
    rw [if_neg (by omega)]
    split
    · -- power-of-two factor
      rename_i hpow
      simp only []
      have hj : 0 < bitLen f - 1 := by
        by_contra h0
        have : bitLen f - 1 = 0 := by omega
        rw [this] at hpow; omega
      generalize bitLen f - 1 = j at hpow hj
      have hdvd := two_pow_tz_dvd hx
      have hodd := tzLoop_odd x x hx (Nat.le_refl _)
      change (x / 2 ^ trailingZeros x) % 2 = 1 at hodd
      generalize trailingZeros x = t at hdvd hodd
      obtain ⟨o, ho⟩ := hdvd
      have hp : 0 < 2 ^ t := Nat.two_pow_pos _
      have ho' : x / 2 ^ t = o := by rw [ho, Nat.mul_div_cancel_left _ hp]
      rw [ho'] at hodd
      have hdm := Nat.div_add_mod t j
      have hml := Nat.mod_lt t hj
      have hsplit : 2 ^ t = 2 ^ (t / j * j) * 2 ^ (t % j) := by
        rw [← Nat.pow_add]; congr 1; rw [Nat.mul_comm]; omega
      have hq : x / 2 ^ (t / j * j) = o * 2 ^ (t % j) := by
        rw [ho, hsplit]
        have : 2 ^ (t / j * j) * 2 ^ (t % j) * o = 2 ^ (t / j * j) * (o * 2 ^ (t % j)) := by ring
        rw [this, Nat.mul_div_cancel_left _ (Nat.two_pow_pos _)]
      refine ⟨_, _, rfl, ?_, ?_⟩
      · rw [hq, hpow, ← Nat.pow_mul, Nat.mul_comm j, ho, hsplit]; ring
      · rw [hq, hpow]
        intro ⟨c, hc⟩
        have e2 : 2 ^ j = 2 ^ (t % j) * 2 ^ (j - t % j) := by
          rw [← Nat.pow_add]; congr 1; omega
        rw [e2] at hc
        have : o = 2 ^ (j - t % j) * c := by
          apply Nat.eq_of_mul_eq_mul_left (Nat.two_pow_pos (t % j))
          rw [Nat.mul_comm _ o, hc]; ring
        have h2 : 2 ∣ 2 ^ (j - t % j) := by
          have : j - t % j = (j - t % j - 1) + 1 := by omega
          rw [this, Nat.pow_succ]; exact Nat.dvd_mul_left _ _
        have : 2 ∣ o := by rw [this]; exact Nat.dvd_trans h2 (Nat.dvd_mul_right _ _)
        omega
    · rename_i hpow
      split
      · rename_i hnd
        refine ⟨0, x, rfl, by simp, ?_⟩
        intro hd; exact hnd (Nat.mod_eq_zero_of_dvd hd)
      · rename_i hdiv
        have hdiv : x % f = 0 := by omega
        have hq' : x = x / f * f := by
          have := Nat.div_add_mod x f
          rw [hdiv] at this; rw [Nat.mul_comm]; omega
        have hqpos : 0 < x / f := by
          apply Nat.pos_of_ne_zero; intro h0; rw [h0] at hq'; omega
        have hup := removeUp_spec (x := x) hf (bitLen x) (x / f) 1 [f * f] hqpos
          (Nat.lt_of_le_of_lt (Nat.div_le_self _ _) (lt_two_pow_bitLen x)) (by simp)
          (by intro i hi; simp at hi; subst hi; simp [Nat.pow_two])
          (by simpa using hq')
        generalize removeUp (bitLen x) (x / f) 1 [f * f] = r1 at hup
        obtain ⟨q1, e1, p1⟩ := r1
        simp only [] at hup ⊢
        obtain ⟨h1, h2, h3, h4⟩ := hup
        have hdown := removeDown_spec hf p1 q1 e1 x h2 h3 h1 h4
        generalize removeDown p1 q1 e1 = r2 at hdown
        obtain ⟨q2, e2⟩ := r2
        simp only [] at hdown ⊢
        obtain ⟨g1, g2, g3⟩ := hdown
        split
        · rename_i hd
          have hq2 : q2 = q2 / f * f := by
            have := Nat.div_add_mod q2 f
            rw [hd] at this; rw [Nat.mul_comm]; omega
          refine ⟨_, _, rfl, ?_, ?_⟩
          · rw [g1, Nat.pow_succ]
            calc q2 * f ^ e2 = q2 / f * f * f ^ e2 := by rw [← hq2]
              _ = q2 / f * (f ^ e2 * f) := by ring
          · intro ⟨c, hc⟩
            apply g3
            refine ⟨c, ?_⟩
            rw [hq2, hc, Nat.pow_two]; ring
        · rename_i hd
          exact ⟨_, _, rfl, g1, fun h => hd (Nat.mod_eq_zero_of_dvd h)⟩

end Dashu.Model.NT
