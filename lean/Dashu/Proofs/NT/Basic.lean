import Dashu.Model.NT.Modular
import Mathlib.Tactic.Ring
import Mathlib.Tactic.Linarith
/-
  Helper lemmas for the `nt` group: `bitLen`, `wordLen`, well-formedness of `Ring.new`.
-/
namespace Dashu.Model.NT
open Dashu.Model

theorem bitLen_zero : bitLen 0 = 0 := by simp [bitLen]

theorem lt_two_pow_bitLen (n : Nat) : n < 2 ^ bitLen n := by
  unfold bitLen
  split
  · subst_vars; exact Nat.two_pow_pos 0
  · exact Nat.lt_log2_self

theorem two_pow_bitLen_le {n : Nat} (h : n ≠ 0) : 2 ^ (bitLen n - 1) ≤ n := by
  unfold bitLen
  rw [if_neg h]
  simpa using Nat.log2_self_le h

theorem bitLen_pos {n : Nat} (h : n ≠ 0) : 0 < bitLen n := by
  unfold bitLen; rw [if_neg h]; omega

theorem bitLen_le_of_lt {n k : Nat} (h : n < 2 ^ k) : bitLen n ≤ k := by
  unfold bitLen
  split
  · omega
  · rename_i hn
    have := (Nat.log2_lt hn).2 h
    omega

theorem lt_bitLen_of_le {n k : Nat} (h : 2 ^ k ≤ n) : k < bitLen n := by
  have h1 := lt_two_pow_bitLen n
  have : 2 ^ k < 2 ^ bitLen n := Nat.lt_of_le_of_lt h h1
  exact (Nat.pow_lt_pow_iff_right (by decide)).1 this

/-- `n` fits into `wordLen W n` words -/
theorem lt_two_pow_wordLen {W : Nat} (hW : 0 < W) (n : Nat) : n < 2 ^ (W * wordLen W n) := by
  have h1 := lt_two_pow_bitLen n
  have h2 : bitLen n ≤ W * wordLen W n := by
    unfold wordLen
    have := Nat.div_add_mod (bitLen n + W - 1) W
    have := Nat.mod_lt (bitLen n + W - 1) hW
    generalize (bitLen n + W - 1) / W = q at *
    generalize (bitLen n + W - 1) % W = t at *
    omega
  exact Nat.lt_of_lt_of_le h1 (Nat.pow_le_pow_right (by decide) h2)

/-- … and not into fewer -/
theorem wordLen_le_of_lt {W n j : Nat} (hW : 0 < W) (h : n < 2 ^ (W * j)) : wordLen W n ≤ j := by
  have h1 := bitLen_le_of_lt h
  unfold wordLen
  apply Nat.le_of_lt_succ
  apply (Nat.div_lt_iff_lt_mul hW).2
  rw [Nat.succ_mul, Nat.mul_comm j W]
  omega

theorem two_pow_le_of_wordLen {W n : Nat} (hW : 0 < W) (hn : n ≠ 0) :
    2 ^ (W * (wordLen W n - 1)) ≤ n := by
  apply Nat.le_of_not_lt
  intro h
  have := wordLen_le_of_lt hW h
  have hb := bitLen_pos hn
  have : 0 < wordLen W n := by
    unfold wordLen
    apply Nat.div_pos <;> omega
  omega

/-- what every constructed ring satisfies: the normalised divisor has exactly `n` words and its top
    bit set; `n` matches the variant -/
structure Ring.WF (W : Nat) (r : Ring) : Prop where
  hW : 0 < W
  mpos : 0 < r.m
  Mlt : r.M < 2 ^ (W * r.n)
  Mge : 2 ^ (W * r.n) ≤ 2 * r.M
  kind_n : (r.kind = .single → r.n = 1) ∧ (r.kind = .double → r.n = 2) ∧ (r.kind = .large → 3 ≤ r.n)
  m_large : r.kind = .large → 2 ^ (2 * W) ≤ r.m

theorem Ring.M_pos {W : Nat} {r : Ring} (h : r.WF W) : 0 < r.M :=
  Nat.mul_pos h.mpos (Nat.two_pow_pos _)

private theorem norm_aux {m L : Nat} (hm : m ≠ 0) (hL : bitLen m ≤ L) :
    m * 2 ^ (L - bitLen m) < 2 ^ L ∧ 2 ^ L ≤ 2 * (m * 2 ^ (L - bitLen m)) := by
  have h1 := lt_two_pow_bitLen m
  have h2 := two_pow_bitLen_le hm
  have hb := bitLen_pos hm
  have e : 2 ^ L = 2 ^ bitLen m * 2 ^ (L - bitLen m) := by
    rw [← Nat.pow_add]; congr 1; omega
  have e2 : 2 ^ bitLen m = 2 * 2 ^ (bitLen m - 1) := by
    rw [← Nat.pow_succ']; congr 1; omega
  have hp : 0 < 2 ^ (L - bitLen m) := Nat.two_pow_pos _
  constructor
  · rw [e]; exact Nat.mul_lt_mul_of_pos_right h1 hp
  · rw [e, e2, Nat.mul_assoc]
    exact Nat.mul_le_mul_left 2 (Nat.mul_le_mul_right _ h2)

theorem Ring.new_wf {W id m : Nat} {r : Ring} (hW : 0 < W) (h : Ring.new W id m = .ok r) : r.WF W := by
  unfold Ring.new at h
  split at h
  · cases h
  rename_i hm
  split at h
  · rename_i hlt
    cases h
    have := norm_aux hm (bitLen_le_of_lt hlt)
    exact ⟨hW, Nat.pos_of_ne_zero hm, by simpa [Ring.M] using this.1, by simpa [Ring.M] using this.2,
      ⟨fun _ => rfl, fun h => (by cases h), fun h => (by cases h)⟩, fun h => (by cases h)⟩
  split at h
  · rename_i hlt
    cases h
    have := norm_aux hm (bitLen_le_of_lt hlt)
    have e : W * 2 = 2 * W := Nat.mul_comm _ _
    exact ⟨hW, Nat.pos_of_ne_zero hm, by simpa [Ring.M, e] using this.1, by simpa [Ring.M, e] using this.2,
      ⟨fun h => (by cases h), fun _ => rfl, fun h => (by cases h)⟩, fun h => (by cases h)⟩
  · rename_i h1 h2
    cases h
    have hwl : bitLen m ≤ W * wordLen W m := by
      have := lt_two_pow_wordLen hW m
      have := lt_bitLen_of_le (two_pow_bitLen_le hm)
      have h3 : 2 ^ (bitLen m - 1) < 2 ^ (W * wordLen W m) :=
        Nat.lt_of_le_of_lt (two_pow_bitLen_le hm) (lt_two_pow_wordLen hW m)
      have := (Nat.pow_lt_pow_iff_right (by decide)).1 h3
      omega
    have := norm_aux hm hwl
    have h3 : 3 ≤ wordLen W m := by
      apply Nat.le_of_not_lt
      intro hlt
      have hle : wordLen W m ≤ 2 := by omega
      have := lt_two_pow_wordLen hW m
      have : 2 ^ (W * wordLen W m) ≤ 2 ^ (2 * W) :=
        Nat.pow_le_pow_right (by decide) (by rw [Nat.mul_comm 2 W]; exact Nat.mul_le_mul_left W hle)
      omega
    exact ⟨hW, Nat.pos_of_ne_zero hm, by simpa [Ring.M] using this.1, by simpa [Ring.M] using this.2,
      ⟨fun h => (by cases h), fun h => (by cases h), fun _ => h3⟩, fun _ => Nat.le_of_not_lt h2⟩

end Dashu.Model.NT
