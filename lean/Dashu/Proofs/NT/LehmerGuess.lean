import Dashu.Proofs.NT.Lehmer
/-
  C12 (wip): the cofactors committed by `lehmer_guess` never make a step negative.
-/
namespace Dashu.Model.NT
open Dashu.Model

/-- invariant of `lehmer_guess` in terms of the *initial* leading words `X0, Y0`: determinant 1, and
    the current leading words are the committed combinations, each at least its own "error budget"
    (`xbar ≥ b`, `ybar ≥ c`) -/
def GuessInv (X0 Y0 xbar ybar a b c d : Nat) : Prop :=
  (a : Int) * d - b * c = 1 ∧
  (xbar : Int) = a * X0 - b * Y0 ∧ (ybar : Int) = d * Y0 - c * X0 ∧ b ≤ xbar ∧ c ≤ ybar

theorem lehmerGuess_inv (lim X0 Y0 : Nat) :
    ∀ (fuel xbar ybar a b c d : Nat), GuessInv X0 Y0 xbar ybar a b c d →
      let r := lehmerGuess lim fuel xbar ybar a b c d
      ∃ xb yb, GuessInv X0 Y0 xb yb r.1 r.2.1 r.2.2.1 r.2.2.2 := by
  intro fuel
  induction fuel with
  | zero => intro xbar ybar a b c d h; exact ⟨xbar, ybar, by simpa [lehmerGuess] using h⟩
  | succ n ih =>
    intro xbar ybar a b c d h
    obtain ⟨hdet, hx, hy, hbx, hcy⟩ := h
    unfold lehmerGuess
    simp only []
    have keep : ∃ xb yb, GuessInv X0 Y0 xb yb a b c d := ⟨xbar, ybar, hdet, hx, hy, hbx, hcy⟩
    -- the first half round commits (a + q c, b + q d) and xbar − q·ybar when the tests pass
    by_cases h0 : ybar = 0
    · rw [if_pos h0]; exact keep
    rw [if_neg h0]
    by_cases h1 : xbar / ybar > lim
    · rw [if_pos h1]; exact keep
    rw [if_neg h1]
    by_cases h2 : a + xbar / ybar * c > lim ∨ b + xbar / ybar * d > lim
    · rw [if_pos h2]; exact keep
    rw [if_neg h2]
    by_cases h3 : xbar - xbar / ybar * ybar < b + xbar / ybar * d ∨
        xbar - xbar / ybar * ybar + (a + xbar / ybar * c) > ybar - c
    · rw [if_pos h3]; exact keep
    rw [if_neg h3]
    have hqle : xbar / ybar * ybar ≤ xbar := Nat.div_mul_le_self _ _
    generalize hq : xbar / ybar = q at *
    have h3a : b + q * d ≤ xbar - q * ybar := by omega
    have first : GuessInv X0 Y0 (xbar - q * ybar) ybar (a + q * c) (b + q * d) c d := by
      refine ⟨?_, ?_, hy, h3a, hcy⟩
      · push_cast; linarith
      · rw [Nat.cast_sub hqle]; push_cast; rw [hx, hy]; ring
    by_cases h4 : xbar - q * ybar = b + q * d
    · rw [if_pos h4]; exact ⟨_, _, first⟩
    rw [if_neg h4]
    by_cases h5 : ybar / (xbar - q * ybar) > lim
    · rw [if_pos h5]; exact ⟨_, _, first⟩
    rw [if_neg h5]
    generalize hx1 : xbar - q * ybar = x1 at *
    generalize ha1 : a + q * c = a1 at *
    generalize hb1 : b + q * d = b1 at *
    by_cases h6 : d + ybar / x1 * b1 > lim ∨ c + ybar / x1 * a1 > lim
    · rw [if_pos h6]; exact ⟨_, _, first⟩
    rw [if_neg h6]
    by_cases h7 : ybar - ybar / x1 * x1 < c + ybar / x1 * a1 ∨
        ybar - ybar / x1 * x1 + (d + ybar / x1 * b1) > x1 - c
    · rw [if_pos h7]; exact ⟨_, _, first⟩
    rw [if_neg h7]
    have hq2le : ybar / x1 * x1 ≤ ybar := Nat.div_mul_le_self _ _
    generalize hq2 : ybar / x1 = q2 at *
    obtain ⟨fdet, fx, fy, fbx, fcy⟩ := first
    have second : GuessInv X0 Y0 x1 (ybar - q2 * x1) a1 b1 (c + q2 * a1) (d + q2 * b1) := by
      refine ⟨?_, fx, ?_, fbx, by omega⟩
      · push_cast; linarith
      · rw [Nat.cast_sub hq2le]; push_cast; rw [fx, fy]; ring
    by_cases h8 : ybar - q2 * x1 = c + q2 * a1
    · rw [if_pos h8]; exact ⟨_, _, second⟩
    rw [if_neg h8]
    exact ih _ _ _ _ _ _ second

/-- **no step goes negative**: if the leading words handed to `lehmer_guess` are the operands
    truncated at a common bit position `k` (what `highest_(d)word_normalized` produce), then the
    committed cofactors give `a·x − b·y ≥ 0` and `d·y − c·x ≥ 0` for the full operands -/
theorem lehmerGuess_step_nonneg (lim fuel x y k : Nat) :
    let r := lehmerGuess lim fuel (x / 2 ^ k) (y / 2 ^ k) 1 0 0 1
    0 ≤ (r.1 : Int) * x - (r.2.1 : Int) * y ∧ 0 ≤ (r.2.2.2 : Int) * y - (r.2.2.1 : Int) * x := by
  show 0 ≤ ((lehmerGuess lim fuel (x / 2 ^ k) (y / 2 ^ k) 1 0 0 1).1 : Int) * x -
        ((lehmerGuess lim fuel (x / 2 ^ k) (y / 2 ^ k) 1 0 0 1).2.1 : Int) * y ∧
      0 ≤ ((lehmerGuess lim fuel (x / 2 ^ k) (y / 2 ^ k) 1 0 0 1).2.2.2 : Int) * y -
        ((lehmerGuess lim fuel (x / 2 ^ k) (y / 2 ^ k) 1 0 0 1).2.2.1 : Int) * x
  have hinit : GuessInv (x / 2 ^ k) (y / 2 ^ k) (x / 2 ^ k) (y / 2 ^ k) 1 0 0 1 :=
    ⟨by norm_num, by push_cast; ring, by push_cast; ring, Nat.zero_le _, Nat.zero_le _⟩
  obtain ⟨xb, yb, _, hx, hy, hbx, hcy⟩ := lehmerGuess_inv lim (x / 2 ^ k) (y / 2 ^ k) fuel _ _ 1 0 0 1 hinit
  generalize lehmerGuess lim fuel (x / 2 ^ k) (y / 2 ^ k) 1 0 0 1 = res at hx hy hbx hcy ⊢
  obtain ⟨a, b, c, d⟩ := res
  simp only [] at hx hy hbx hcy ⊢
  have hp : (0 : Int) < 2 ^ k := by positivity
  -- X0·2^k ≤ x < (X0+1)·2^k and the same for y
  have hxd := Nat.div_add_mod x (2 ^ k)
  have hyd := Nat.div_add_mod y (2 ^ k)
  have hxm := Nat.mod_lt x (Nat.two_pow_pos k)
  have hym := Nat.mod_lt y (Nat.two_pow_pos k)
  generalize x / 2 ^ k = X0 at *
  generalize y / 2 ^ k = Y0 at *
  generalize hP : 2 ^ k = P at *
  have hxI : (x : Int) = P * X0 + (x % P : Nat) := by exact_mod_cast hxd.symm
  have hyI : (y : Int) = P * Y0 + (y % P : Nat) := by exact_mod_cast hyd.symm
  have hxmI : ((x % P : Nat) : Int) < P := by exact_mod_cast hxm
  have hymI : ((y % P : Nat) : Int) < P := by exact_mod_cast hym
  have hx0 : (0 : Int) ≤ (x % P : Nat) := Int.natCast_nonneg _
  have hy0 : (0 : Int) ≤ (y % P : Nat) := Int.natCast_nonneg _
  have hPpos : (0 : Int) < P := by exact_mod_cast (hP ▸ Nat.two_pow_pos k)
  have hbxI : (b : Int) ≤ xb := by exact_mod_cast hbx
  have hcyI : (c : Int) ≤ yb := by exact_mod_cast hcy
  have ha0 : (0 : Int) ≤ a := Int.natCast_nonneg _
  have hb0 : (0 : Int) ≤ b := Int.natCast_nonneg _
  have hc0 : (0 : Int) ≤ c := Int.natCast_nonneg _
  have hd0 : (0 : Int) ≤ d := Int.natCast_nonneg _
  constructor
  · -- a x − b y ≥ P (a X0 − b Y0) − b (y mod P) > P (xb − b) ≥ 0
    have : (a : Int) * x - b * y = P * xb + (a * (x % P : Nat) - b * (y % P : Nat)) := by
      rw [hxI, hyI, hx]; ring
    rw [this]
    have h1 : (b : Int) * (y % P : Nat) ≤ b * P := mul_le_mul_of_nonneg_left (le_of_lt hymI) hb0
    have h2 : (0 : Int) ≤ a * (x % P : Nat) := mul_nonneg ha0 hx0
    have h3 : (P : Int) * b ≤ P * xb := mul_le_mul_of_nonneg_left hbxI (le_of_lt hPpos)
    nlinarith
  · have : (d : Int) * y - c * x = P * yb + (d * (y % P : Nat) - c * (x % P : Nat)) := by
      rw [hxI, hyI, hy]; ring
    rw [this]
    have h1 : (c : Int) * (x % P : Nat) ≤ c * P := mul_le_mul_of_nonneg_left (le_of_lt hxmI) hc0
    have h2 : (0 : Int) ≤ d * (y % P : Nat) := mul_nonneg hd0 hy0
    have h3 : (P : Int) * c ≤ P * yb := mul_le_mul_of_nonneg_left hcyI (le_of_lt hPpos)
    nlinarith

end Dashu.Model.NT
