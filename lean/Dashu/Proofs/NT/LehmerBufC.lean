import Dashu.Proofs.NT.LehmerBufB
/-
  C12: `lehmer::gcd_ext_in_place` — the exit of the main loop with `y = 0`.
  A committed Lehmer step (`b ≠ 0`) leaves BOTH combined values strictly positive, so `y = 0` can only
  arise from a Euclidean step, after which `t0` is the previous `t1 ≤ lhs / x`.  Together with
  `lehmerExt_b_fits` this bounds the returned `|b|` at every exit.
-/
namespace Dashu.Model.NT
open Dashu.Model

/-- strict version of `guessInv_nonneg` once a quotient has been committed -/
theorem guessInv_pos {x y k xb yb a b c d : Nat} (h : GuessInv (x / 2 ^ k) (y / 2 ^ k) xb yb a b c d)
    (hb : b ≠ 0) (hy : 0 < y) :
    0 < (a : Int) * x - (b : Int) * y ∧ 0 < (d : Int) * y - (c : Int) * x := by
  obtain ⟨hdet, hx, hy', hbx, hcy⟩ := h
  have hxd := Nat.div_add_mod x (2 ^ k)
  have hyd := Nat.div_add_mod y (2 ^ k)
  have hxm := Nat.mod_lt x (Nat.two_pow_pos k)
  have hym := Nat.mod_lt y (Nat.two_pow_pos k)
  have hPpos' := Nat.two_pow_pos k
  generalize x / 2 ^ k = X0 at *
  generalize y / 2 ^ k = Y0 at *
  generalize 2 ^ k = P at *
  have hxI : (x : Int) = P * X0 + (x % P : Nat) := by exact_mod_cast hxd.symm
  have hyI : (y : Int) = P * Y0 + (y % P : Nat) := by exact_mod_cast hyd.symm
  have hxmI : ((x % P : Nat) : Int) + 1 ≤ P := by exact_mod_cast hxm
  have hymI : ((y % P : Nat) : Int) + 1 ≤ P := by exact_mod_cast hym
  have hx0 : (0 : Int) ≤ (x % P : Nat) := Int.natCast_nonneg _
  have hy0 : (0 : Int) ≤ (y % P : Nat) := Int.natCast_nonneg _
  have hPpos : (0 : Int) < P := by exact_mod_cast hPpos'
  have hbxI : (b : Int) ≤ xb := by exact_mod_cast hbx
  have hcyI : (c : Int) ≤ yb := by exact_mod_cast hcy
  have ha0 : (0 : Int) ≤ a := Int.natCast_nonneg _
  have hb1 : (1 : Int) ≤ b := by exact_mod_cast Nat.pos_of_ne_zero hb
  have hc0 : (0 : Int) ≤ c := Int.natCast_nonneg _
  have hd0 : (0 : Int) ≤ d := Int.natCast_nonneg _
  constructor
  · have : (a : Int) * x - b * y = P * xb + (a * (x % P : Nat) - b * (y % P : Nat)) := by
      rw [hxI, hyI, hx]; ring
    rw [this]
    have h1 : (b : Int) * ((y % P : Nat) + 1) ≤ b * P := mul_le_mul_of_nonneg_left hymI (by omega)
    have h2 : (0 : Int) ≤ a * (x % P : Nat) := mul_nonneg ha0 hx0
    have h3 : (P : Int) * b ≤ P * xb := mul_le_mul_of_nonneg_left hbxI (le_of_lt hPpos)
    nlinarith
  · by_cases hc : c = 0
    · subst hc
      have hd1 : (a : Int) * d = 1 := by simpa using hdet
      have hd : d = 1 := by
        have : a * d = 1 := by exact_mod_cast hd1
        exact Nat.dvd_one.1 (Dvd.intro_left a this)
      subst hd
      simp only [Nat.cast_one, one_mul, Nat.cast_zero, zero_mul, sub_zero]
      exact_mod_cast hy
    · have hc1 : (1 : Int) ≤ c := by exact_mod_cast Nat.pos_of_ne_zero hc
      have : (d : Int) * y - c * x = P * yb + (d * (y % P : Nat) - c * (x % P : Nat)) := by
        rw [hxI, hyI, hy']; ring
      rw [this]
      have h1 : (c : Int) * ((x % P : Nat) + 1) ≤ c * P := mul_le_mul_of_nonneg_left hxmI hc0
      have h2 : (0 : Int) ≤ d * (y % P : Nat) := mul_nonneg hd0 hy0
      have h3 : (P : Int) * c ≤ P * yb := mul_le_mul_of_nonneg_left hcyI (le_of_lt hPpos)
      nlinarith

theorem lehmerExtLoop_t0_zero (W : Nat) (hW : 0 < W) (L : Nat) :
    ∀ (fuel x y t0 t1 : Nat) (sw : Bool) (res : Nat × Nat × Nat × Nat × Bool),
      lehmerExtLoop W fuel x y t0 t1 sw = .ok res → y ≤ x → t1 * x + t0 * y = L → (y = 0 → t0 ≤ L) →
      (res.2.1 = 0 → res.2.2.1 ≤ L) := by
  intro fuel
  induction fuel with
  | zero => intro x y t0 t1 sw res h; simp [lehmerExtLoop] at h
  | succ n ih =>
    intro x y t0 t1 sw res h hxy hinv hz
    unfold lehmerExtLoop at h
    split at h
    · rename_i hlen
      have hy0 : 0 < y := by
        apply Nat.pos_of_ne_zero; intro h0; subst h0
        rw [wordLen_zero hW] at hlen; omega
      obtain ⟨lim, gf, k, hcof⟩ := lehmerCofactors_aligned' hW hxy hlen
      have hinit : GuessProg x y k (x / 2 ^ k) (y / 2 ^ k) 1 0 0 1 := by
        refine ⟨⟨by norm_num, by simp, by simp, Nat.zero_le _, Nat.zero_le _⟩, by simp, by simp, ?_⟩
        intro _; exact ⟨rfl, rfl, rfl, rfl, rfl⟩
      obtain ⟨xb, yb, hprog⟩ := lehmerGuess_prog lim x y k hxy gf _ _ 1 0 0 1 hinit
      have hdet := lehmerCofactors_det W x y
      rw [← hcof] at hprog
      generalize lehmerCofactors W x y = cof at h hprog hdet
      obtain ⟨a, b, c, d⟩ := cof
      simp only [] at h hprog hdet
      split at h
      · -- Euclidean step
        apply ih _ _ _ _ _ _ h (Nat.le_of_lt (Nat.mod_lt x hy0))
        · have := Nat.div_add_mod x y
          have e : (t0 + x / y * t1) * y + t1 * (x % y) = t0 * y + t1 * (y * (x / y) + x % y) := by ring
          rw [e, this]; omega
        · intro _
          have : t1 * 1 ≤ t1 * x := Nat.mul_le_mul_left _ (by omega)
          omega
      · rename_i hb
        split at h
        · exact absurd h (by simp)
        · obtain ⟨hxpos, hypos⟩ := guessInv_pos hprog.1 hb hy0
          have key : ((c * t0 + d * t1 : Nat) : Int) * ((a : Int) * x - (b : Int) * y)
              + ((a * t0 + b * t1 : Nat) : Int) * ((d : Int) * y - (c : Int) * x) = (L : Int) := by
            have hL : ((t1 * x + t0 * y : Nat) : Int) = (L : Int) := by rw [hinv]
            push_cast at hL ⊢
            linear_combination ((t1 : Int) * x + (t0 : Int) * y) * hdet + hL
          have ex : ((((a : Int) * x - (b : Int) * y).toNat : Nat) : Int) = (a : Int) * x - (b : Int) * y :=
            Int.toNat_of_nonneg (le_of_lt hxpos)
          have ey : ((((d : Int) * y - (c : Int) * x).toNat : Nat) : Int) = (d : Int) * y - (c : Int) * x :=
            Int.toNat_of_nonneg (le_of_lt hypos)
          have hxn : 0 < ((a : Int) * x - (b : Int) * y).toNat := by omega
          have hyn : 0 < ((d : Int) * y - (c : Int) * x).toNat := by omega
          split at h
          · rename_i hsw
            apply ih _ _ _ _ _ _ h hsw
            · have : (((a * t0 + b * t1) * ((d : Int) * y - (c : Int) * x).toNat
                  + (c * t0 + d * t1) * ((a : Int) * x - (b : Int) * y).toNat : Nat) : Int) = (L : Int) := by
                push_cast [ex, ey] at key ⊢
                linear_combination key
              exact_mod_cast this
            · intro h0; omega
          · rename_i hsw
            apply ih _ _ _ _ _ _ h (by omega)
            · have : (((c * t0 + d * t1) * ((a : Int) * x - (b : Int) * y).toNat
                  + (a * t0 + b * t1) * ((d : Int) * y - (c : Int) * x).toNat : Nat) : Int) = (L : Int) := by
                push_cast [ex, ey] at key ⊢
                linear_combination key
              exact_mod_cast this
            · intro h0; omega
    · injection h with h
      subst h
      exact hz

/-- **buffer-length claim of `lehmer::gcd_ext_in_place`: the returned coefficient `|b|` is at most `lhs`**
    (it fits `lhs_len` words) at every exit of the main loop -/
theorem lehmerExt_b_le (W : Nat) (hW : 0 < W) (lhs rhs : Nat) (hle : rhs ≤ lhs)
    {g bb : Nat} {neg : Bool} (h : lehmerExt W lhs rhs = .ok (g, bb, neg)) :
    bb ≤ lhs ∧ bb < 2 ^ (W * wordLen W lhs) := by
  have hl := lt_two_pow_wordLen hW lhs
  suffices hbb : bb ≤ lhs from ⟨hbb, by omega⟩
  have h' := h
  unfold lehmerExt at h'
  split at h'
  · exact absurd h' (by simp)
  · rename_i x y t0 t1 sw hloop
    by_cases hy : y = 0
    · subst hy
      simp only [if_true] at h'
      injection h' with e
      simp only [Prod.mk.injEq] at e
      obtain ⟨_, rfl, _⟩ := e
      exact lehmerExtLoop_t0_zero W hW lhs _ _ _ _ _ _ _ hloop hle (by simp) (by intro _; omega) rfl
    · have hb := lehmerExt_b_fits W hW lhs rhs hle hloop (Nat.pos_of_ne_zero hy) h
      omega

end Dashu.Model.NT
