import Dashu.Proofs.NT.Modular
import Mathlib.Data.Nat.ModEq
/-
  C13: the mirrored extended Euclid `invm` returns `some t` exactly when `gcd(x, m) = 1`, and then
  `t·x ≡ 1 (mod m)` with `t < m`.
-/
namespace Dashu.Model.NT
open Dashu.Model

theorem subm_lt {a b m : Nat} (hm : 0 < m) : subm a b m < m := by
  unfold subm
  split
  · exact Nat.mod_lt _ hm
  · simp only []
    split
    · exact hm
    · have := Nat.mod_lt (b - a) hm; omega

/-- `subm a b m ≡ a - b`, stated additively -/
theorem subm_modEq {a b m : Nat} (hm : 0 < m) : subm a b m + b ≡ a [MOD m] := by
  unfold subm Nat.ModEq
  split
  · rename_i h
    rw [Nat.mod_add_mod]; congr 1; omega
  · rename_i h
    simp only []
    have hd := Nat.div_add_mod (b - a) m
    have hx := Nat.mod_lt (b - a) hm
    generalize hq : (b - a) / m = q at hd
    generalize hxx : (b - a) % m = x at hd hx
    split
    · rename_i h0
      have : b = a + m * q := by omega
      rw [this, Nat.zero_add, Nat.add_mul_mod_self_left]
    · rename_i h0
      have : m - x + b = a + m * (q + 1) := by rw [Nat.mul_add]; omega
      rw [this, Nat.add_mul_mod_self_left]

theorem invmLoop_spec {m x : Nat} (hm : 0 < m) :
    ∀ (fuel lastR r lastT t : Nat), r < fuel →
      lastT * x ≡ lastR [MOD m] → t * x ≡ r [MOD m] → lastT < m → t < m →
      (invmLoop m fuel lastR r lastT t).1 = Nat.gcd lastR r ∧
      (invmLoop m fuel lastR r lastT t).2 * x ≡ Nat.gcd lastR r [MOD m] ∧
      (invmLoop m fuel lastR r lastT t).2 < m := by
  intro fuel
  induction fuel with
  | zero => intro lastR r lastT t h; omega
  | succ n ih =>
    intro lastR r lastT t hfuel h1 h2 hl ht
    unfold invmLoop
    split
    · rename_i hr
      subst hr
      simp only [Nat.gcd_zero_right]
      exact ⟨trivial, h1, hl⟩
    · rename_i hr
      simp only []
      have hrem : lastR % r < r := Nat.mod_lt _ (Nat.pos_of_ne_zero hr)
      have hg : Nat.gcd r (lastR % r) = Nat.gcd lastR r := by
        rw [Nat.gcd_comm lastR r, Nat.gcd_rec r lastR, Nat.gcd_comm]
      have hnew : subm lastT (lastR / r * t % m) m * x ≡ lastR % r [MOD m] := by
        -- (newT + q·t) ≡ lastT, so newT·x + q·r ≡ lastR = q·r + rem
        have e1 : subm lastT (lastR / r * t % m) m + lastR / r * t % m ≡ lastT [MOD m] := subm_modEq hm
        have e2 : lastR / r * t % m ≡ lastR / r * t [MOD m] := Nat.mod_modEq _ _
        have e3 : subm lastT (lastR / r * t % m) m + lastR / r * t ≡ lastT [MOD m] :=
          (Nat.ModEq.add_left _ e2.symm).trans e1
        have e4 : (subm lastT (lastR / r * t % m) m + lastR / r * t) * x ≡ lastR [MOD m] :=
          (e3.mul_right x).trans h1
        have e5 : lastR / r * t * x ≡ lastR / r * r [MOD m] := by
          rw [Nat.mul_assoc]; exact h2.mul_left _
        have e6 : subm lastT (lastR / r * t % m) m * x + lastR / r * r ≡ lastR % r + lastR / r * r [MOD m] := by
          have : lastR % r + lastR / r * r = lastR := by
            rw [Nat.mul_comm]; exact Nat.mod_add_div lastR r
          rw [this]
          rw [Nat.add_mul] at e4
          exact (Nat.ModEq.add_left _ e5.symm).trans e4
        exact Nat.ModEq.add_right_cancel' _ e6
      have := ih r (lastR % r) t (subm lastT (lastR / r * t % m) m) (by omega) h2 hnew ht (subm_lt hm)
      rw [hg] at this
      exact this

/-- the remainder-sequence argument: fuel `m + 1` suffices -/
theorem invm_spec {x m : Nat} (hm : 0 < m) :
    (∀ t, invm x m = some t → t * x ≡ 1 [MOD m] ∧ t < m) ∧
    ((invm x m).isSome ↔ Nat.gcd x m = 1) := by
  -- the reduced operand
  have hx' : ∃ x', x' < m ∧ x' ≡ x [MOD m] ∧ (if x ≥ m then x % m else x) = x' := by
    by_cases h : x ≥ m
    · exact ⟨x % m, Nat.mod_lt _ hm, Nat.mod_modEq _ _, by simp [h]⟩
    · exact ⟨x, by omega, Nat.ModEq.refl _, by simp [h]⟩
  obtain ⟨x', hlt, hcong, hdef⟩ := hx'
  have hgcd : Nat.gcd m x' = Nat.gcd x m := by
    rw [Nat.gcd_comm x m]
    have : x' = x % m := by
      have := hcong; unfold Nat.ModEq at this; rw [Nat.mod_eq_of_lt hlt] at this; exact this
    rw [this, Nat.gcd_comm m (x % m), ← Nat.gcd_rec]
  by_cases hm1 : m = 1
  · -- the ring with one element
    subst hm1
    have hx0 : x' = 0 := by omega
    have hinv : invm x 1 = some 0 := by
      unfold invm
      simp only [hdef, hx0]
      rfl
    refine ⟨?_, ?_⟩
    · intro t ht; rw [hinv] at ht; cases ht
      exact ⟨Nat.modEq_one, by decide⟩
    · rw [hinv]; simp
  · have hm2 : 1 < m := by omega
    have hs := invmLoop_spec (x := x') hm (m + 1) m x' 0 1 (by omega)
      (by simpa using (Nat.modEq_zero_iff_dvd.2 (Nat.dvd_refl m)).symm) (by simp [Nat.ModEq]) hm hm2
    rw [hgcd] at hs
    obtain ⟨h1, h2, h3⟩ := hs
    have hunf : invm x m = if (invmLoop m (m + 1) m x' 0 1).1 > 1 then none
        else some (invmLoop m (m + 1) m x' 0 1).2 := by
      unfold invm; simp only [hdef]
    have hgpos : 0 < Nat.gcd x m := Nat.gcd_pos_of_pos_right _ hm
    refine ⟨?_, ?_⟩
    · intro t ht
      rw [hunf] at ht
      split at ht
      · cases ht
      · rename_i hg
        cases ht
        have hg1 : Nat.gcd x m = 1 := by omega
        rw [hg1] at h2
        exact ⟨(h2.symm.trans (Nat.ModEq.mul_left _ hcong.symm).symm).symm.trans (Nat.ModEq.refl _) |>.symm |>.symm, h3⟩
    · rw [hunf, h1]
      split
      · rename_i hg; simp; omega
      · rename_i hg; simp; omega

end Dashu.Model.NT
