import Dashu.Proofs.NT.PrimRootU128
import Dashu.Proofs.NT.PrimRootU32
/-
  C12 (Round 5): `<u128 as NormalizedRootRem>::normalized_cbrt_rem` (the B = 2^22 cube-root step over the `u64`
  routine, then the `while r < 0` descent) is SOUND on every `u128` value: whatever it returns without overflow is
  the floor cube root and the remainder; hence `u128::cbrt_rem` is sound.
-/
namespace Dashu.Model.NT
open Dashu.Model

theorem pow3 (t : Nat) : t ^ 3 = t * t * t := by ring

/-- the floor cube root of `a / 8` is half the floor cube root of `a` (the `c >>= 1` of the 127-bit branch) -/
theorem isRoot3_half {a c : Nat} (h : IsRoot a 3 c) : IsRoot (a / 8) 3 (c / 2) := by
  obtain ⟨h1, h2⟩ := h
  have hdm := Nat.div_add_mod c 2
  have hm := Nat.mod_lt c (show 0 < 2 by decide)
  constructor
  · have : (c / 2 * 2) ^ 3 ≤ c ^ 3 := Nat.pow_le_pow_left (by omega) 3
    rw [Nat.mul_pow] at this
    have h8 : (2 : Nat) ^ 3 = 8 := by norm_num
    rw [h8] at this
    rw [Nat.le_div_iff_mul_le (by decide)]
    exact Nat.le_trans this h1
  · have : (c + 1) ^ 3 ≤ ((c / 2 + 1) * 2) ^ 3 := Nat.pow_le_pow_left (by omega) 3
    rw [Nat.mul_pow] at this
    have h8 : (2 : Nat) ^ 3 = 8 := by norm_num
    rw [h8] at this
    rw [Nat.div_lt_iff_lt_mul (by decide)]
    exact Nat.lt_of_lt_of_le h2 this

/-- the `while r < 0 { r += 3 * (c - 1) * c + 1; c -= 1 }` descent: from any over-estimate `c ≥ s` with the exact signed
    remainder it can only stop at the floor root -/
theorem cbrtDownLoop_sound {n s : Nat} (hs : IsRoot n 3 s) : ∀ (fuel c : Nat) (r : Int) (cf : Nat) (rf : Int),
    ((c : Int) ^ 3 + r = n) → s ≤ c → cbrtDownLoop fuel c r = some (cf, rf) →
    cf = s ∧ (cf : Int) ^ 3 + rf = n ∧ 0 ≤ rf := by
  have stop : ∀ (c : Nat) (r : Int), ((c : Int) ^ 3 + r = n) → s ≤ c → ¬ r < 0 → c = s := by
    intro c r hinv hsc hr
    have hle : c ^ 3 ≤ n := by
      have : ((c ^ 3 : Nat) : Int) ≤ n := by push_cast; omega
      exact_mod_cast this
    by_contra hne
    have : s + 1 ≤ c := by omega
    have := Nat.pow_le_pow_left this 3
    have := hs.2
    omega
  have down : ∀ (c : Nat) (r : Int), ((c : Int) ^ 3 + r = n) → r < 0 → s < c := by
    intro c r hinv hr
    by_contra hle
    have h1 : c ^ 3 ≤ s ^ 3 := Nat.pow_le_pow_left (by omega) 3
    have h2 := hs.1
    have : ((c ^ 3 : Nat) : Int) ≤ n := by exact_mod_cast Nat.le_trans h1 h2
    push_cast at this
    omega
  intro fuel
  induction fuel with
  | zero =>
    intro c r cf rf hinv hsc h
    unfold cbrtDownLoop at h
    split at h
    · exact absurd h (by simp)
    · rename_i hr
      simp only [Option.some.injEq, Prod.mk.injEq] at h
      obtain ⟨h1, h2⟩ := h
      subst h1; subst h2
      exact ⟨stop c r hinv hsc hr, hinv, by omega⟩
  | succ fuel ih =>
    intro c r cf rf hinv hsc h
    unfold cbrtDownLoop at h
    split at h
    · rename_i hr
      split at h
      · exact absurd h (by simp)
      · rename_i hc0
        have hlt := down c r hinv hr
        refine ih (c - 1) _ cf rf ?_ (by omega) h
        have e : ((c - 1 : Nat) : Int) = (c : Int) - 1 := by omega
        rw [e, ← hinv]; ring
    · rename_i hr
      simp only [Option.some.injEq, Prod.mk.injEq] at h
      obtain ⟨h1, h2⟩ := h
      subst h1; subst h2
      exact ⟨stop c r hinv hsc hr, hinv, by omega⟩

/-- the high part: both branches hand over `(c1, r1)` with `c1³ + r1 = n / 2^66` and `c1` the floor cube root of it -/
theorem normCbrtU128_high {n : Nat} (hhi : n < 2 ^ 128) {c1 r1 : Nat}
    (h : (if n < 2 ^ 127 then do
            let a : Nat := n / 2 ^ 63 % 2 ^ 64
            let (c, _) ← normCbrtU64 a
            let c : Nat := c / 2
            let c3 ← ck 64 (c * c)
            let c3 ← ck 64 (c3 * c)
            let r ← ck 64 (((a / 2 ^ 3 : Nat) : Int) - c3)
            pure (c, r)
          else normCbrtU64 (n / 2 ^ 66 % 2 ^ 64)) = some (c1, r1)) :
    IsRoot (n / 2 ^ 66) 3 c1 ∧ c1 ^ 3 + r1 = n / 2 ^ 66 := by
  split at h
  · rename_i hlt
    simp only [Option.bind_eq_bind, Option.bind_eq_some_iff, Option.pure_def, Option.some.injEq, Prod.mk.injEq] at h
    obtain ⟨⟨c, r⟩, h64, c2, hc2, c3, hc3, r', hr', hc1, hr1⟩ := h
    simp only [] at hc2 hc3 hr' hc1 hr1
    subst hc1; subst hr1
    obtain ⟨hroot, _⟩ := normCbrtU64_sound _ _ h64
    simp only [] at hroot
    have ha : n / 2 ^ 63 % 2 ^ 64 = n / 2 ^ 63 := by
      simp only [Nat.reducePow] at hlt ⊢; omega
    rw [ha] at hroot hr'
    have ha8 : n / 2 ^ 63 / 2 ^ 3 = n / 2 ^ 66 := by rw [Nat.div_div_eq_div_mul, ← Nat.pow_add]
    rw [ha8] at hr'
    have hh := isRoot3_half hroot
    have e8 : (8 : Nat) = 2 ^ 3 := by norm_num
    rw [e8, ha8] at hh
    obtain ⟨hc2v, _⟩ := ck_some hc2
    obtain ⟨hc3v, _⟩ := ck_some hc3
    obtain ⟨hrv, _⟩ := ck_some hr'
    have hc2' : c2 = c / 2 * (c / 2) := by exact_mod_cast hc2v
    have hc3' : c3 = c2 * (c / 2) := by exact_mod_cast hc3v
    refine ⟨hh, ?_⟩
    rw [pow3, ← hc2', ← hc3']
    omega
  · rename_i hge
    have ha : n / 2 ^ 66 % 2 ^ 64 = n / 2 ^ 66 := by
      simp only [Nat.reducePow] at hhi ⊢; omega
    rw [ha] at h
    exact normCbrtU64_sound _ _ h

/-- the arithmetic core of the cube-root step: with `A = c1³ + r1`, `r1·B + b2 = 3c1²·q + u`, `u < 3c1²`, the candidate
    `c = c1·B + q` has the exact signed remainder `u·B² + low − (3·c1·B + q)·q²`, and it is never below the root
    (`n < (c + 1)³`) -/
theorem cbrt_step {A b2 low c1 r1 q u B n : Nat} (hn : n = A * B ^ 3 + b2 * B ^ 2 + low) (hA : c1 ^ 3 + r1 = A)
    (hlow : low < B ^ 2) (hdiv : r1 * B + b2 = 3 * c1 ^ 2 * q + u) (hu : u < 3 * c1 ^ 2) :
    ((n : Int) - ((c1 * B + q : Nat) : Int) ^ 3 = ((u * B ^ 2 + low : Nat) : Int) - (((3 * c1 * B + q) * q ^ 2 : Nat) : Int)) ∧
    n < (c1 * B + q + 1) ^ 3 := by
  constructor
  · have hdiv' : (r1 : Int) * B + b2 = 3 * (c1 : Int) ^ 2 * q + u := by exact_mod_cast hdiv
    subst hn; subst hA
    push_cast
    linear_combination (B : Int) ^ 2 * hdiv'
  · have e : (c1 * B + q + 1) ^ 3 = c1 ^ 3 * B ^ 3 + 3 * c1 ^ 2 * (q + 1) * B ^ 2 + (3 * c1 * B * (q + 1) ^ 2 + (q + 1) ^ 3) := by ring
    have h1 : r1 * B + b2 + 1 ≤ 3 * c1 ^ 2 * (q + 1) := by
      have : 3 * c1 ^ 2 * (q + 1) = 3 * c1 ^ 2 * q + 3 * c1 ^ 2 := by ring
      omega
    have h2 := Nat.mul_le_mul_right (B ^ 2) h1
    have e2 : (c1 ^ 3 + r1) * B ^ 3 + b2 * B ^ 2 + B ^ 2 = c1 ^ 3 * B ^ 3 + (r1 * B + b2 + 1) * B ^ 2 := by ring
    rw [e, hn, ← hA]
    omega

/-- **`<u128 as NormalizedRootRem>::normalized_cbrt_rem` is sound** on every `u128` value -/
theorem normCbrtU128_sound {n : Nat} (hhi : n < 2 ^ 128) {res : Nat × Nat}
    (h : normCbrtU128 n = some res) : IsRoot n 3 res.1 ∧ res.1 ^ 3 + res.2 = n := by
  unfold normCbrtU128 at h
  simp only [Option.bind_eq_bind, Option.bind_eq_some_iff] at h
  obtain ⟨⟨c1, r1⟩, hcr, h⟩ := h
  obtain ⟨hroot1, hrem1⟩ := normCbrtU128_high hhi hcr
  simp only [] at h
  obtain ⟨d, hd, _, hg, c, hc, qq, hqq, f, hf, t2, ht2, _, _, ⟨cf, rf⟩, hloop, hres⟩ := h
  clear hcr
  have hd0 : d ≠ 0 := by simpa using guardO_some hg
  obtain ⟨hdv, _⟩ := ck_some hd
  have hd' : d = 3 * (c1 * c1) := by exact_mod_cast hdv
  -- sizes of the high root and its remainder
  have hAlt : n / 2 ^ 66 < 2 ^ 62 := by
    rw [Nat.div_lt_iff_lt_mul (Nat.two_pow_pos _), ← Nat.pow_add]; exact hhi
  have hc1lt : c1 < 2 ^ 21 := by
    by_contra hge
    have h1 : (2 ^ 21) ^ 3 ≤ c1 ^ 3 := Nat.pow_le_pow_left (by omega) 3
    have h2 := hroot1.1
    rw [← Nat.pow_mul] at h1
    have : (2 : Nat) ^ 62 ≤ 2 ^ (21 * 3) := Nat.pow_le_pow_right (by decide) (by decide)
    omega
  have hc1pos : 0 < c1 := by
    rcases Nat.eq_zero_or_pos c1 with h0 | h0
    · subst h0; simp at hd'; exact absurd hd' hd0
    · exact h0
  have hcc1 : c1 ≤ c1 * c1 := Nat.le_mul_self c1
  have hcc2 : c1 * c1 ≤ 2097151 * 2097151 := Nat.mul_le_mul (by simp only [Nat.reducePow] at hc1lt; omega) (by simp only [Nat.reducePow] at hc1lt; omega)
  have hr1le : r1 ≤ 3 * (c1 * c1) + 3 * c1 := by
    have h2 := hroot1.2
    have e : (c1 + 1) ^ 3 = c1 ^ 3 + (3 * (c1 * c1) + 3 * c1 + 1) := by ring
    omega
  simp only [Nat.reducePow] at hc1lt hc hqq hf hloop hhi
  have or22 : ∀ x y : Nat, y < 4194304 → (4194304 * x ||| y) = 4194304 * x + y :=
    fun x y hy => (Nat.two_pow_add_eq_or_of_lt (i := 22) hy x).symm
  have or44 : ∀ x y : Nat, y < 17592186044416 → (17592186044416 * x ||| y) = 17592186044416 * x + y :=
    fun x y hy => (Nat.two_pow_add_eq_or_of_lt (i := 44) hy x).symm
  have hb2lt : n / 17592186044416 % 4194304 < 4194304 := Nat.mod_lt _ (by decide)
  have hlowlt : n % 17592186044416 < 17592186044416 := Nat.mod_lt _ (by decide)
  have e1 : r1 * 4194304 % 340282366920938463463374607431768211456 = 4194304 * r1 := by omega
  rw [e1, or22 _ _ hb2lt] at hc hqq hf hloop
  -- the quotient is below 3·B
  have hr0lt : 4194304 * r1 + n / 17592186044416 % 4194304 < 3 * 4194304 * d := by
    rw [hd']; omega
  have hdpos : 0 < d := Nat.pos_of_ne_zero hd0
  have hqlt : (4194304 * r1 + n / 17592186044416 % 4194304) / d < 3 * 4194304 :=
    (Nat.div_lt_iff_lt_mul hdpos).2 hr0lt
  have hdm := Nat.div_add_mod (4194304 * r1 + n / 17592186044416 % 4194304) d
  have hult := Nat.mod_lt (4194304 * r1 + n / 17592186044416 % 4194304) hdpos
  generalize (4194304 * r1 + n / 17592186044416 % 4194304) / d = q at *
  generalize (4194304 * r1 + n / 17592186044416 % 4194304) % d = u at *
  obtain ⟨hcv, _⟩ := ck_some hc
  obtain ⟨hqqv, _⟩ := ck_some hqq
  obtain ⟨hfv, _⟩ := ck_some hf
  obtain ⟨ht2v, _⟩ := ck_some ht2
  have hc' : c = c1 * 4194304 + q := by omega
  have hqq' : qq = q * q := by exact_mod_cast hqqv
  have hf' : f = 3 * c1 * 4194304 + q := by omega
  have ht2' : t2 = f * qq := by exact_mod_cast ht2v
  have hub : u < 19342813113834066795298816 := by omega
  have e2 : u * 17592186044416 % 340282366920938463463374607431768211456 = 17592186044416 * u := by
    have h1 : u * 17592186044416 < 19342813113834066795298816 * 17592186044416 :=
      Nat.mul_lt_mul_of_pos_right hub (by decide)
    rw [Nat.mod_eq_of_lt (Nat.lt_of_lt_of_le h1 (by norm_num)), Nat.mul_comm]
  rw [e2, or44 _ _ hlowlt] at hloop
  -- the arithmetic core
  have hnsplit : n = n / 2 ^ 66 * 4194304 ^ 3 + n / 17592186044416 % 4194304 * 4194304 ^ 2 + n % 17592186044416 := by
    simp only [Nat.reducePow]; omega
  have hdiv : r1 * 4194304 + n / 17592186044416 % 4194304 = 3 * c1 ^ 2 * q + u := by
    rw [Nat.pow_two, ← hd']; omega
  have hu' : u < 3 * c1 ^ 2 := by rw [Nat.pow_two, ← hd']; exact hult
  obtain ⟨hid, hup⟩ := cbrt_step hnsplit hrem1 (by simpa using hlowlt) hdiv hu'
  -- the descent ends at the floor root
  have hs := iroot_spec n 3 (by decide)
  have hsc : iroot n 3 ≤ c := by
    by_contra hlt
    have h1 : (c + 1) ^ 3 ≤ iroot n 3 ^ 3 := Nat.pow_le_pow_left (by omega) 3
    have h2 := hs.1
    rw [hc'] at h1; omega
  have hinv : (c : Int) ^ 3 + ((17592186044416 * u + n % 17592186044416 : Nat) - (t2 : Int)) = n := by
    have e3 : ((17592186044416 * u + n % 17592186044416 : Nat) : Int) = ((u * 4194304 ^ 2 + n % 17592186044416 : Nat) : Int) := by
      have e5 : (4194304 : Nat) ^ 2 = 17592186044416 := by norm_num
      rw [e5, Nat.mul_comm]
    have e4 : (t2 : Int) = (((3 * c1 * 4194304 + q) * q ^ 2 : Nat) : Int) := by
      rw [ht2', hf', hqq', Nat.pow_two]
    rw [e3, e4, ← hid, hc']; ring
  obtain ⟨hcf, hcfinv, hrf0⟩ := cbrtDownLoop_sound hs 8 c _ cf rf hinv hsc hloop
  simp only [Option.pure_def, Option.some.injEq] at hres
  subst hres
  simp only []
  subst hcf
  refine ⟨hs, ?_⟩
  have : ((iroot n 3 ^ 3 + rf.toNat : Nat) : Int) = n := by
    push_cast; rw [Int.toNat_of_nonneg hrf0]; exact hcfinv
  exact_mod_cast this


/-- `cbrt_rem` of `u16 … u128` is sound over any normalised kernel that is sound on the values of the type -/
theorem cbrtRemNorm_sound_lt {bits : Nat} {norm : Nat → Option (Nat × Nat)}
    (hn : ∀ y, y < 2 ^ bits → ∀ r, norm y = some r → IsRoot y 3 r.1 ∧ r.1 ^ 3 + r.2 = y)
    {x : Nat} (hx : x < 2 ^ bits) {r : Nat × Nat} (h : cbrtRemNorm bits norm x = some r) :
    IsRoot x 3 r.1 ∧ r.1 ^ 3 + r.2 = x := by
  unfold cbrtRemNorm at h
  split at h
  · rename_i h0
    injection h with h; subst h; subst h0
    exact ⟨⟨by simp, by simp⟩, rfl⟩
  · simp only [Option.bind_eq_bind, Option.bind_eq_some_iff] at h
    obtain ⟨⟨root, rem⟩, hnorm, h⟩ := h
    have hsh : lzOf bits x - lzOf bits x % 3 ≤ lzOf bits x := by omega
    rw [Nat.mod_eq_of_lt (shifted_lt hx hsh)] at hnorm
    obtain ⟨hroot, hrem⟩ := hn _ (shifted_lt hx hsh) _ hnorm
    simp only [] at hroot hrem h
    obtain ⟨hsh3, hh⟩ : ∃ t, lzOf bits x - lzOf bits x % 3 = t * 3 := ⟨lzOf bits x / 3, by omega⟩
    rw [hh] at hroot hrem h
    have e5 : hsh3 * 3 / 3 = hsh3 := by omega
    rw [e5] at h
    split at h
    · simp only [Option.bind_eq_some_iff, Option.pure_def, Option.some.injEq] at h
      obtain ⟨r2, hr2, r3, hr3, rem', hrem', hr⟩ := h
      subst hr
      obtain ⟨hr2v, _⟩ := ck_some hr2
      obtain ⟨hr3v, _⟩ := ck_some hr3
      obtain ⟨hremv, _⟩ := ck_some hrem'
      simp only []
      have e4 : (2 : Nat) ^ (hsh3 * 3) = (2 ^ hsh3) ^ 3 := by rw [← Nat.pow_mul]
      rw [e4] at hroot
      have hd := root_denormalise (by decide) hroot
      refine ⟨hd, ?_⟩
      have hr2' : r2 = root / 2 ^ hsh3 * (root / 2 ^ hsh3) := by exact_mod_cast hr2v
      have hr3' : r3 = r2 * (root / 2 ^ hsh3) := by exact_mod_cast hr3v
      have : (rem' : Int) = (x : Int) - (r3 : Nat) := hremv
      have e6 : (root / 2 ^ hsh3) ^ 3 = r3 := by rw [hr3', hr2']; ring
      rw [e6]; omega
    · rename_i hs0
      simp only [Option.pure_def, Option.some.injEq] at h
      subst h
      have : hsh3 * 3 = 0 := by omega
      rw [this] at hroot hrem
      simpa using And.intro hroot hrem

/-- **`u128::cbrt_rem` is sound** on every value of the type -/
theorem cbrtRemU128_sound {x : Nat} (hx : x < 2 ^ 128) {r : Nat × Nat} (h : cbrtRemPrimBits 128 x = some r) :
    IsRoot x 3 r.1 ∧ r.1 ^ 3 + r.2 = x :=
  cbrtRemNorm_sound_lt (bits := 128) (fun _ hy _ hr => normCbrtU128_sound hy hr) hx h

end Dashu.Model.NT
