import Dashu.Model.NT.ModInvm
import Dashu.Proofs.NT.ModInv
import Dashu.Proofs.NT.ModInvLarge
import Mathlib.Tactic.Ring
import Mathlib.Tactic.Linarith
import Mathlib.Tactic.Zify
import Mathlib.Tactic.LinearCombination
/-
  C13: num-modular's `invm` on the primitive types (`Model/NT/ModInvm.lean`: checked `+ - *`, wrapping
  `wrapping_*`, `udouble::widening_mul`, `udouble::div_rem_2by1`, `Rem<u128> for udouble`, `u128::mulm`,
  the `u8..u64` `mulm` through the next wider type, `subm`, `negm`, the Euclid loop) never overflows and
  equals the `Nat`-level `invm` of `Model/NT/Modular.lean`.  All statements for every half width `H ≥ 1`
  (`umax` = `2H` bits; the real `u128` is `H = 64`) and every primitive width `T`.
-/
namespace Dashu.Model.NT.NMPrim
open Dashu.Model Dashu.Model.NT

theorem cadd_ok {bits a b : Nat} (h : a + b < 2 ^ bits) : cadd bits a b = .ok (a + b) := by simp [cadd, h]
theorem cmul_ok {bits a b : Nat} (h : a * b < 2 ^ bits) : cmul bits a b = .ok (a * b) := by simp [cmul, h]
theorem csub_ok {a b : Nat} (h : b ≤ a) : csub a b = .ok (a - b) := by simp [csub, h]
theorem cdiv_ok {a b : Nat} (h : 0 < b) : cdiv a b = .ok (a / b) := by simp [cdiv]; omega
theorem crem_ok {a b : Nat} (h : 0 < b) : crem a b = .ok (a % b) := by simp [crem]; omega

theorem two_pow_two_mul (H : Nat) : 2 ^ (2 * H) = 2 ^ H * 2 ^ H := by rw [Nat.two_mul, Nat.pow_add]

/-- `(x·y + c) < B²` for half-width digits -/
theorem digit_mul_add_lt {B x y c : Nat} (hx : x < B) (hy : y < B) (hc : c < B) : x * y + c < B * B := by
  obtain ⟨b, rfl⟩ : ∃ b, B = b + 1 := ⟨B - 1, by omega⟩
  have := Nat.mul_le_mul (Nat.lt_succ_iff.mp hx) (Nat.lt_succ_iff.mp hy)
  nlinarith

/-- `a <<< H | b` is a sum when `b` has `H` bits -/
theorem or_shift_eq_add {H z0 z1 : Nat} (h0 : z0 < 2 ^ H) : z0 ||| z1 * 2 ^ H = z0 + z1 * 2 ^ H := by
  rw [Nat.or_comm, ← Nat.shiftLeft_eq, ← Nat.shiftLeft_add_eq_or_of_lt h0, Nat.add_comm]

/-- **`udouble::widening_mul`**: no intermediate overflows, the result is the exact double-width product -/
theorem wideningMul_spec (H lhs rhs : Nat) (hl : lhs < 2 ^ (2 * H)) (hr : rhs < 2 ^ (2 * H)) :
    wideningMul H lhs rhs = .ok ⟨lhs * rhs / 2 ^ (2 * H), lhs * rhs % 2 ^ (2 * H)⟩ := by
  simp only [wideningMul, split]
  have hBB := two_pow_two_mul H
  have hB : 0 < 2 ^ H := Nat.two_pow_pos H
  generalize hBdef : 2 ^ H = B at *
  have hl' : lhs < B * B := by omega
  have hr' : rhs < B * B := by omega
  have hx1 : lhs / B < B := (Nat.div_lt_iff_lt_mul hB).2 hl'
  have hy1 : rhs / B < B := (Nat.div_lt_iff_lt_mul hB).2 hr'
  have hx0 : lhs % B < B := Nat.mod_lt _ hB
  have hy0 : rhs % B < B := Nat.mod_lt _ hB
  have el := Nat.div_add_mod lhs B
  have er := Nat.div_add_mod rhs B
  generalize lhs / B = x1 at *
  generalize lhs % B = x0 at *
  generalize rhs / B = y1 at *
  generalize rhs % B = y0 at *
  have hx1y1 : x1 * y1 < B * B := by have := digit_mul_add_lt hx1 hy1 hB; omega
  have hx0y0 : x0 * y0 < B * B := by have := digit_mul_add_lt hx0 hy0 hB; omega
  rw [cmul_ok (by omega : x1 * y1 < 2 ^ (2 * H)), cmul_ok (by omega : x0 * y0 < 2 ^ (2 * H))]
  simp only [bind, Except.bind]
  -- first carry step
  have e0 := Nat.div_add_mod (x0 * y0) B
  have hz0 : (x0 * y0) % B < B := Nat.mod_lt _ hB
  have hc0 : (x0 * y0) / B < B := (Nat.div_lt_iff_lt_mul hB).2 hx0y0
  generalize (x0 * y0) / B = c0 at *
  generalize (x0 * y0) % B = z0 at *
  have hp1 : x1 * y0 + c0 < B * B := digit_mul_add_lt hx1 hy0 hc0
  rw [cmul_ok (by omega : x1 * y0 < 2 ^ (2 * H))]
  simp only [bind, Except.bind]
  rw [cadd_ok (by omega : x1 * y0 + c0 < 2 ^ (2 * H))]
  simp only [bind, Except.bind]
  have e1 := Nat.div_add_mod (x1 * y0 + c0) B
  have hz1 : (x1 * y0 + c0) % B < B := Nat.mod_lt _ hB
  have hc1 : (x1 * y0 + c0) / B < B := (Nat.div_lt_iff_lt_mul hB).2 hp1
  generalize (x1 * y0 + c0) / B = c1 at *
  generalize (x1 * y0 + c0) % B = z1 at *
  have hp2 : x0 * y1 + z1 < B * B := digit_mul_add_lt hx0 hy1 hz1
  have e2 := Nat.div_add_mod (x0 * y1 + z1) B
  have hz1' : (x0 * y1 + z1) % B < B := Nat.mod_lt _ hB
  have hc1' : (x0 * y1 + z1) / B < B := (Nat.div_lt_iff_lt_mul hB).2 hp2
  have key : ∀ c1' z1', B * c1' + z1' = x0 * y1 + z1 →
      (x1 * y1 + c1 + c1') * (B * B) + (z0 + z1' * B) = lhs * rhs := by
    intro c1' z1' e2
    rw [← el, ← er]
    zify at e0 e1 e2 ⊢
    linear_combination e0 + (B : ℤ) * e1 + (B : ℤ) * e2
  have hprod : lhs * rhs < (B * B) * (B * B) := Nat.mul_lt_mul'' hl' hr'
  have hz2 : x1 * y1 + c1 < B * B := digit_mul_add_lt hx1 hy1 hc1
  rw [cadd_ok (by omega : x1 * y1 + c1 < 2 ^ (2 * H))]
  simp only [bind, Except.bind]
  rw [cmul_ok (by omega : x0 * y1 < 2 ^ (2 * H))]
  simp only [bind, Except.bind]
  rw [cadd_ok (by omega : x0 * y1 + z1 < 2 ^ (2 * H))]
  simp only [bind, Except.bind]
  have k := key _ _ e2
  generalize (x0 * y1 + z1) / B = c1' at *
  generalize (x0 * y1 + z1) % B = z1' at *
  have hhi : x1 * y1 + c1 + c1' < B * B := by
    by_contra hc
    have : (B * B) * (B * B) ≤ (x1 * y1 + c1 + c1') * (B * B) :=
      Nat.mul_le_mul_right _ (by omega)
    exact absurd (Nat.lt_of_le_of_lt (Nat.le_trans this (Nat.le.intro k)) hprod) (Nat.lt_irrefl _)
  rw [cadd_ok (by omega : x1 * y1 + c1 + c1' < 2 ^ (2 * H))]
  simp only [bind, Except.bind, pure, Except.pure]
  have hlo : z0 + z1' * B < B * B := by
    have : z1' * B ≤ (B - 1) * B := Nat.mul_le_mul_right _ (by omega)
    have e : (B - 1) * B + B = B * B := by
      obtain ⟨b, rfl⟩ : ∃ b, B = b + 1 := ⟨B - 1, by omega⟩
      simp; ring
    omega
  have hdiv : lhs * rhs / (B * B) = x1 * y1 + c1 + c1' := by
    rw [← k, Nat.add_comm, Nat.add_mul_div_right _ _ (Nat.mul_pos hB hB), Nat.div_eq_of_lt hlo, Nat.zero_add]
  have hmod : lhs * rhs % (B * B) = z0 + z1' * B := by
    rw [← k, Nat.add_comm, Nat.add_mul_mod_self_right, Nat.mod_eq_of_lt hlo]
  rw [hBB, hdiv, hmod, Nat.mod_eq_of_lt (by omega : z1' * B < B * B)]
  congr 2
  rw [← hBdef] at hz0 ⊢
  exact or_shift_eq_add hz0

/-- the `wrapping_mul(B).wrapping_add(nx).wrapping_sub(q.wrapping_mul(d))` remainder is the true
    difference whenever that difference is a `bits`-bit number -/
theorem wrap_sub {M a b c : Nat} (hM : 0 < M) (hle : c ≤ a + b) (hlt : a + b - c < M) :
    ((a % M + b) % M + M - c % M % M) % M = a + b - c := by
  rw [Nat.mod_mod, Nat.mod_add_mod]
  have hY : c % M < M := Nat.mod_lt _ hM
  have hme : ((a + b) % M + M - c % M) ≡ (a + b - c) [MOD M] := by
    apply Nat.ModEq.add_right_cancel' (c % M)
    rw [Nat.sub_add_cancel (by omega)]
    unfold Nat.ModEq
    rw [Nat.add_mod_right, Nat.mod_mod, Nat.add_mod_mod, Nat.sub_add_cancel hle]
  have := hme
  unfold Nat.ModEq at this
  rw [this, Nat.mod_eq_of_lt hlt]

theorem adjCond_ok {H d0 nx q rhat : Nat} (hd0 : d0 < 2 ^ H) (hnx : nx < 2 ^ H) (hrh : rhat < 2 ^ H) :
    adjCond H d0 nx q rhat =
      .ok (decide (q ≥ 2 ^ H ∨ q * d0 > 2 ^ H * rhat + nx)) := by
  unfold adjCond
  have hBB := two_pow_two_mul H
  have hB : 0 < 2 ^ H := Nat.two_pow_pos H
  generalize 2 ^ H = B at *
  by_cases hq : q ≥ B
  · simp [hq]; rfl
  · rw [if_neg hq]
    have h1 : q * d0 < B * B := by have := digit_mul_add_lt (Nat.lt_of_not_ge hq) hd0 hB; omega
    have h2 : B * rhat + nx < B * B := by
      have : B * rhat ≤ B * (B - 1) := Nat.mul_le_mul_left _ (by omega)
      have e : B * (B - 1) + B = B * B := by
        obtain ⟨b, rfl⟩ : ∃ b, B = b + 1 := ⟨B - 1, by omega⟩
        simp; ring
      omega
    rw [cmul_ok (by omega : q * d0 < 2 ^ (2 * H))]
    simp only [bind, Except.bind]
    rw [cmul_ok (by omega : B * rhat < 2 ^ (2 * H))]
    simp only [bind, Except.bind]
    rw [cadd_ok (by omega : B * rhat + nx < 2 ^ (2 * H))]
    simp only [bind, Except.bind, pure, Except.pure]
    simp [hq]

/-- **the correction loop of one quotient digit**: started from any estimate `q ≥ ⌊N/d⌋`, `q ≤ B + 1`,
    with `q·d1 + rhat = n_hi`, it never overflows and ends at the true digit `⌊N/d⌋`,
    `N = n_hi·B + nx`, `d = d1·B + d0` -/
theorem adjLoop_spec {H d1 d0 nx nhi : Nat} (hd0 : d0 < 2 ^ H) (hd1 : d1 < 2 ^ H) (hnx : nx < 2 ^ H)
    (hlt : nhi < d1 * 2 ^ H + d0) :
    ∀ (q rhat : Nat), q * d1 + rhat = nhi → rhat < 2 ^ H →
      (nhi * 2 ^ H + nx) / (d1 * 2 ^ H + d0) ≤ q → q ≤ 2 ^ H + 1 →
      ∃ rh, adjLoop H d1 d0 nx q rhat = .ok ((nhi * 2 ^ H + nx) / (d1 * 2 ^ H + d0), rh) := by
  have hBB := two_pow_two_mul H
  have hB : 0 < 2 ^ H := Nat.two_pow_pos H
  have hcond := fun q rhat (h : rhat < 2 ^ H) => adjCond_ok (H := H) (d0 := d0) (nx := nx) (q := q) hd0 hnx h
  have hcadd := fun a b (h : a + b < 2 ^ (2 * H)) => cadd_ok (bits := 2 * H) h
  generalize hBdef : 2 ^ H = B at *
  have hdpos : 0 < d1 * B + d0 := by omega
  -- the true digit is below B
  have hqs : (nhi * B + nx) / (d1 * B + d0) < B := by
    apply (Nat.div_lt_iff_lt_mul hdpos).2
    have : (nhi + 1) * B ≤ (d1 * B + d0) * B := Nat.mul_le_mul_right _ (by omega)
    have e : (nhi + 1) * B = nhi * B + B := by ring
    rw [Nat.mul_comm B]; omega
  generalize hQ : (nhi * B + nx) / (d1 * B + d0) = Q at *
  -- the loop test is `q·d > N`
  have htest : ∀ q rhat, q * d1 + rhat = nhi →
      (q * d0 > B * rhat + nx ↔ q * (d1 * B + d0) > nhi * B + nx) := by
    intro q rhat e
    have : q * (d1 * B + d0) = (q * d1) * B + q * d0 := by ring
    have e2 : nhi * B = (q * d1) * B + B * rhat := by rw [← e]; ring
    rw [this, e2]; omega
  have hgt : ∀ q, q * (d1 * B + d0) > nhi * B + nx → Q < q := by
    intro q h
    rw [← hQ]
    apply (Nat.div_lt_iff_lt_mul hdpos).2
    exact h
  have hle : ∀ q, q * (d1 * B + d0) ≤ nhi * B + nx → q ≤ Q := by
    intro q h
    rw [← hQ]
    exact (Nat.le_div_iff_mul_le hdpos).2 h
  intro q
  induction q with
  | zero =>
    intro rhat e hr hQq _
    refine ⟨rhat, ?_⟩
    have : Q = 0 := by omega
    subst this
    unfold adjLoop
    rw [hcond 0 rhat hr]
    simp only [bind, Except.bind]
    have : ¬ (0 ≥ B ∨ 0 * d0 > B * rhat + nx) := by omega
    simp only [this, decide_false, Bool.false_eq_true, if_false]
    rfl
  | succ q ih =>
    intro rhat e hr hQq hqB
    unfold adjLoop
    rw [hcond (q + 1) rhat hr]
    simp only [bind, Except.bind, hBdef]
    by_cases hc : (q + 1 ≥ B ∨ (q + 1) * d0 > B * rhat + nx)
    · have hQlt : Q < q + 1 := by
        rcases hc with h | h
        · omega
        · exact hgt _ ((htest _ _ e).1 h)
      simp only [hc, decide_true, if_true]
      have h2B : rhat + d1 < B * B := by
        have : 2 ≤ B → B + B ≤ B * B := fun h => by nlinarith
        by_cases hB2 : 2 ≤ B
        · have := this hB2; omega
        · have h1 : B = 1 := by omega
          subst h1; omega
      rw [hcadd rhat d1 (by omega)]
      simp only [bind, Except.bind]
      have e' : q * d1 + (rhat + d1) = nhi := by rw [← e]; ring
      by_cases hbrk : rhat + d1 ≥ B
      · rw [if_pos hbrk]
        refine ⟨rhat + d1, ?_⟩
        have hqQ : q ≤ Q := by
          apply hle
          have e3 : nhi * B = (q * d1) * B + (rhat + d1) * B := by rw [← e']; ring
          have e4 : q * (d1 * B + d0) = (q * d1) * B + q * d0 := by ring
          have h5 : B * B ≤ (rhat + d1) * B := Nat.mul_le_mul_right _ hbrk
          have h6 : q * d0 ≤ B * (B - 1) := Nat.mul_le_mul (by omega) (by omega)
          have e7 : B * (B - 1) + B = B * B := by
            obtain ⟨b, rfl⟩ : ∃ b, B = b + 1 := ⟨B - 1, by omega⟩
            simp; ring
          omega
        have : q = Q := by omega
        subst this
        rfl
      · rw [if_neg hbrk]
        exact ih (rhat + d1) e' (by omega) (by omega) (by omega)
    · simp only [hc, decide_false, Bool.false_eq_true, if_false]
      refine ⟨rhat, ?_⟩
      have hq1 : q + 1 ≤ Q := by
        apply hle
        have h1 : ¬ ((q + 1) * d0 > B * rhat + nx) := fun h => hc (Or.inr h)
        have := (htest _ _ e).not.1 h1
        omega
      have : q + 1 = Q := by omega
      subst this
      rfl

/-- **one quotient digit of `div_rem_2by1`** (`div_rem(n_hi, d1)`, correction loop, wrapping remainder):
    for a normalised two-digit divisor `d` and `n_hi < d` the digit and the remainder are exact -/
theorem divDigit_spec {H d nhi nx : Nat} (hH : 1 ≤ H) (hd : d < 2 ^ (2 * H)) (hnorm : 2 ^ (2 * H) ≤ 2 * d)
    (hn : nhi < d) (hnx : nx < 2 ^ H) :
    divDigit H d nhi nx = .ok ((nhi * 2 ^ H + nx) / d, (nhi * 2 ^ H + nx) % d) := by
  have hBB := two_pow_two_mul H
  have hB : 0 < 2 ^ H := Nat.two_pow_pos H
  have hBeven : 2 ^ H = 2 * 2 ^ (H - 1) := by
    rw [← Nat.pow_succ']; congr 1; omega
  have hadj := @adjLoop_spec H (d / 2 ^ H) (d % 2 ^ H) nx nhi
  have hws := @wrap_sub (2 ^ (2 * H)) (nhi * 2 ^ H) nx
  unfold divDigit split
  simp only [wsub, wadd, wmul]
  generalize hBdef : 2 ^ H = B at *
  generalize 2 ^ (H - 1) = b at *
  have hdd := Nat.div_add_mod d B
  have hd0 : d % B < B := Nat.mod_lt _ hB
  have hd1 : d / B < B := (Nat.div_lt_iff_lt_mul hB).2 (by omega)
  have hd1b : b ≤ d / B := by
    apply (Nat.le_div_iff_mul_le hB).2
    have : (2 * b) * (2 * b) = 2 * (b * (2 * b)) := by ring
    rw [hBeven]; rw [hBeven] at hBB; omega
  generalize d / B = d1 at *
  generalize d % B = d0 at *
  have hd1pos : 0 < d1 := by
    have : 0 < b := by omega
    omega
  have hdeq : d = d1 * B + d0 := by rw [← hdd]; ring
  rw [cdiv_ok hd1pos, crem_ok hd1pos]
  simp only [bind, Except.bind]
  -- the initial estimate
  have hq0 := Nat.div_add_mod nhi d1
  have hr0 : nhi % d1 < d1 := Nat.mod_lt _ hd1pos
  have hqlt : nhi < d1 * (nhi / d1 + 1) := Nat.lt_mul_div_succ nhi hd1pos
  have hdpos : 0 < d := by omega
  have hQle : (nhi * B + nx) / d ≤ nhi / d1 := by
    apply Nat.le_of_lt_succ
    apply (Nat.div_lt_iff_lt_mul hdpos).2
    show nhi * B + nx < (nhi / d1 + 1) * d
    calc nhi * B + nx < nhi * B + B := by omega
      _ = (nhi + 1) * B := by ring
      _ ≤ (d1 * (nhi / d1 + 1)) * B := Nat.mul_le_mul_right _ hqlt
      _ = (nhi / d1 + 1) * (d1 * B) := by ring
      _ ≤ (nhi / d1 + 1) * d := Nat.mul_le_mul_left _ (by omega)
  have hqB : nhi / d1 ≤ B + 1 := by
    apply Nat.le_of_lt_succ
    apply (Nat.div_lt_iff_lt_mul hd1pos).2
    show nhi < (B + 1 + 1) * d1
    have e : (B + 1 + 1) * d1 = d1 * B + 2 * d1 := by ring
    rw [e]; omega
  obtain ⟨rh, hrun⟩ := hadj hd0 hd1 hnx (by omega) (nhi / d1) (nhi % d1)
    (by rw [Nat.mul_comm]; exact hq0) (by omega) (by rw [← hdeq]; exact hQle) hqB
  rw [← hdeq] at hrun
  rw [hrun]
  simp only [pure, Except.pure]
  congr 2
  have hle := Nat.div_mul_le_self (nhi * B + nx) d
  have hmod := Nat.mod_lt (nhi * B + nx) hdpos
  have hdef : (nhi * B + nx) % d = nhi * B + nx - (nhi * B + nx) / d * d := by
    have := Nat.div_add_mod (nhi * B + nx) d
    rw [Nat.mul_comm] at this; omega
  rw [hdef]
  exact hws (Nat.two_pow_pos _) hle (by omega)

/-- normalising shift: `m << (L - bit_len m)` has its top bit at position `L - 1` -/
theorem norm_shift {m L : Nat} (hm : m ≠ 0) (hL : bitLen m ≤ L) :
    m * 2 ^ (L - bitLen m) < 2 ^ L ∧ 2 ^ L ≤ 2 * (m * 2 ^ (L - bitLen m)) := by
  have h1 := lt_two_pow_bitLen m
  have h2 := two_pow_bitLen_le hm
  have hb := bitLen_pos hm
  have e : 2 ^ L = 2 ^ bitLen m * 2 ^ (L - bitLen m) := by
    rw [← Nat.pow_add]; congr 1; omega
  have e2 : 2 ^ bitLen m = 2 * 2 ^ (bitLen m - 1) := by
    rw [← Nat.pow_succ']; congr 1; omega
  have hp : 0 < 2 ^ (L - bitLen m) := Nat.two_pow_pos _
  constructor
  · rw [e]; exact Nat.mul_lt_mul_of_pos_right h1 hp
  · rw [e, e2, Nat.mul_assoc]
    exact Nat.mul_le_mul_left 2 (Nat.mul_le_mul_right _ h2)

/-- **`udouble::shl_u32`** by `s < umax::BITS` when nothing is shifted out -/
theorem shlU32_spec {U s : Nat} {x : UDouble} (hs : s < U) (hlo : x.lo < 2 ^ U) (hhi : x.hi * 2 ^ s < 2 ^ U) :
    (shlU32 U x s).hi * 2 ^ U + (shlU32 U x s).lo = (x.hi * 2 ^ U + x.lo) * 2 ^ s ∧
    (shlU32 U x s).lo < 2 ^ U := by
  unfold shlU32
  by_cases h0 : s = 0
  · subst h0; simp [hlo]
  · rw [if_neg h0, if_neg (by omega)]
    simp only []
    have eU : 2 ^ U = 2 ^ (U - s) * 2 ^ s := by rw [← Nat.pow_add]; congr 1; omega
    have hP : 0 < 2 ^ (U - s) := Nat.two_pow_pos _
    have hS : 0 < 2 ^ s := Nat.two_pow_pos _
    have hq : x.lo / 2 ^ (U - s) < 2 ^ s := (Nat.div_lt_iff_lt_mul hP).2 (by rw [Nat.mul_comm, ← eU]; exact hlo)
    have hor : x.hi * 2 ^ s ||| x.lo / 2 ^ (U - s) = x.hi * 2 ^ s + x.lo / 2 ^ (U - s) := by
      rw [← Nat.shiftLeft_eq, ← Nat.shiftLeft_add_eq_or_of_lt hq]
    rw [Nat.mod_eq_of_lt hhi, hor]
    have hlo2 : x.lo * 2 ^ s % 2 ^ U = (x.lo % 2 ^ (U - s)) * 2 ^ s := by
      rw [eU, Nat.mul_mod_mul_right]
    rw [hlo2]
    have hdm := Nat.div_add_mod x.lo (2 ^ (U - s))
    refine ⟨?_, ?_⟩
    · rw [eU]
      generalize 2 ^ (U - s) = P at *
      generalize 2 ^ s = S at *
      generalize x.lo / P = a at *
      generalize x.lo % P = b at *
      rw [← hdm]; ring
    · rw [eU]
      exact Nat.mul_lt_mul_of_pos_right (Nat.mod_lt _ hP) hS

/-- **`udouble::div_rem_2by1`** (`udiv_qrnnd`): for `0 < other`, `self.hi < other` the two wrapping
    digit steps never overflow and return the exact quotient and remainder of the double-width value -/
theorem divRem2by1_spec {H other : Nat} {x : UDouble} (hH : 1 ≤ H) (ho : 0 < other) (hoU : other < 2 ^ (2 * H))
    (hhi : x.hi < other) (hlo : x.lo < 2 ^ (2 * H)) :
    divRem2by1 H x other =
      .ok ((x.hi * 2 ^ (2 * H) + x.lo) / other, (x.hi * 2 ^ (2 * H) + x.lo) % other) := by
  have hone : other ≠ 0 := by omega
  have hbl := bitLen_le_of_lt hoU
  have hbp := bitLen_pos hone
  obtain ⟨hdlt, hdge⟩ := norm_shift hone hbl
  have hs : 2 * H - bitLen other < 2 * H := by omega
  unfold divRem2by1
  simp only [split]
  generalize hsdef : 2 * H - bitLen other = s at *
  have hS : 0 < 2 ^ s := Nat.two_pow_pos _
  have hhis : x.hi * 2 ^ s < 2 ^ (2 * H) :=
    Nat.lt_trans (Nat.mul_lt_mul_of_pos_right hhi hS) hdlt
  obtain ⟨hn, hnlo⟩ := shlU32_spec (x := x) hs hlo hhis
  rw [Nat.mod_eq_of_lt hdlt]
  generalize shlU32 (2 * H) x s = n at *
  have hBB := two_pow_two_mul H
  have hB : 0 < 2 ^ H := Nat.two_pow_pos H
  have hdig := fun nhi nx (h1 : nhi < other * 2 ^ s) (h2 : nx < 2 ^ H) =>
    @divDigit_spec H (other * 2 ^ s) nhi nx hH hdlt hdge h1 h2
  have hcm := fun a b (h : a * b < 2 ^ (2 * H)) => cmul_ok (bits := 2 * H) h
  have hca := fun a b (h : a + b < 2 ^ (2 * H)) => cadd_ok (bits := 2 * H) h
  generalize hX : x.hi * 2 ^ (2 * H) + x.lo = X at *
  have hXlt : X < other * 2 ^ (2 * H) := by
    have : (x.hi + 1) * 2 ^ (2 * H) ≤ other * 2 ^ (2 * H) := Nat.mul_le_mul_right _ hhi
    have e : (x.hi + 1) * 2 ^ (2 * H) = x.hi * 2 ^ (2 * H) + 2 ^ (2 * H) := by ring
    omega
  generalize hdd : other * 2 ^ s = d at *
  generalize 2 ^ H = B at *
  generalize 2 ^ (2 * H) = UU at *
  subst hBB
  have hdpos : 0 < d := by omega
  have hnhi : n.hi < d := by
    have h1 : n.hi * (B * B) ≤ X * 2 ^ s := by omega
    have h2 : X * 2 ^ s < (other * (B * B)) * 2 ^ s := Nat.mul_lt_mul_of_pos_right hXlt hS
    have e : (other * (B * B)) * 2 ^ s = d * (B * B) := by rw [← hdd]; ring
    rw [e] at h2
    exact Nat.lt_of_mul_lt_mul_right (Nat.lt_of_le_of_lt h1 h2)
  have hn1 : n.lo / B < B := (Nat.div_lt_iff_lt_mul hB).2 hnlo
  have hn0 : n.lo % B < B := Nat.mod_lt _ hB
  have hnl := Nat.div_add_mod n.lo B
  rw [hdig n.hi (n.lo / B) hnhi hn1]
  simp only [bind, Except.bind]
  have hr21 : (n.hi * B + n.lo / B) % d < d := Nat.mod_lt _ hdpos
  rw [hdig _ (n.lo % B) hr21 hn0]
  simp only [bind, Except.bind]
  -- the digits are below B
  have hdigit_lt : ∀ nhi nx, nhi < d → nx < B → (nhi * B + nx) / d < B := by
    intro nhi nx h1 h2
    apply (Nat.div_lt_iff_lt_mul hdpos).2
    have : (nhi + 1) * B ≤ d * B := Nat.mul_le_mul_right _ h1
    have e : (nhi + 1) * B = nhi * B + B := by ring
    rw [Nat.mul_comm B]; omega
  have hq1 := hdigit_lt _ _ hnhi hn1
  have hq0 := hdigit_lt _ _ hr21 hn0
  have e1 := Nat.div_add_mod (n.hi * B + n.lo / B) d
  have e0 := Nat.div_add_mod ((n.hi * B + n.lo / B) % d * B + n.lo % B) d
  have hrr : ((n.hi * B + n.lo / B) % d * B + n.lo % B) % d < d := Nat.mod_lt _ hdpos
  generalize (n.hi * B + n.lo / B) / d = q1 at *
  generalize (n.hi * B + n.lo / B) % d = r21 at *
  generalize (r21 * B + n.lo % B) / d = q0 at *
  generalize (r21 * B + n.lo % B) % d = r at *
  have hq1B : q1 * B + q0 < B * B := by
    have : q1 * B ≤ (B - 1) * B := Nat.mul_le_mul_right _ (by omega)
    have e : (B - 1) * B + B = B * B := by
      obtain ⟨b, rfl⟩ : ∃ b, B = b + 1 := ⟨B - 1, by omega⟩
      simp; ring
    omega
  rw [hcm q1 B (by omega)]
  simp only [bind, Except.bind]
  rw [hca (q1 * B) q0 hq1B]
  simp only [bind, Except.bind, pure, Except.pure]
  -- X·2^s = (q1·B + q0)·d + r
  have key : r + d * (q1 * B + q0) = X * 2 ^ s := by
    rw [← hn]
    generalize n.lo / B = n1 at *
    generalize n.lo % B = n0 at *
    rw [← hnl]
    zify at e1 e0 ⊢
    linear_combination e0 + (B : ℤ) * e1
  obtain ⟨kd, km⟩ := (Nat.div_mod_unique hdpos).2 ⟨key, hrr⟩
  rw [← hdd] at kd km
  rw [Nat.mul_div_mul_right _ _ hS] at kd
  rw [Nat.mul_mod_mul_right] at km
  rw [← kd, ← km, Nat.mul_div_cancel _ hS]

/-- **`impl Rem<u128> for udouble`** -/
theorem udoubleRem_spec {H rhs : Nat} {x : UDouble} (hH : 1 ≤ H) (hr : 0 < rhs) (hrU : rhs < 2 ^ (2 * H))
    (hlo : x.lo < 2 ^ (2 * H)) :
    udoubleRem H x rhs = .ok ((x.hi * 2 ^ (2 * H) + x.lo) % rhs) := by
  unfold udoubleRem
  by_cases h : x.hi < rhs
  · rw [if_pos h, divRem2by1_spec hH hr hrU h hlo]; rfl
  · rw [if_neg h, crem_ok hr]
    simp only [bind, Except.bind]
    rw [divRem2by1_spec (x := ⟨x.hi % rhs, x.lo⟩) hH hr hrU (Nat.mod_lt _ hr) hlo]
    simp only [pure, Except.pure]
    congr 1
    rw [Nat.add_mod, Nat.mul_mod, Nat.mod_mod, ← Nat.mul_mod, ← Nat.add_mod]

/-- **`u128::mulm`** (`checked_mul`, else `widening_mul` and `udouble % m`) `= a·b mod m` -/
theorem mulmMax_spec {H a b m : Nat} (hH : 1 ≤ H) (ha : a < 2 ^ (2 * H)) (hb : b < 2 ^ (2 * H))
    (hm : 0 < m) (hmU : m < 2 ^ (2 * H)) : mulmMax H a b m = .ok (a * b % m) := by
  unfold mulmMax
  by_cases h : a * b < 2 ^ (2 * H)
  · rw [if_pos h, crem_ok hm]
  · rw [if_neg h, wideningMul_spec H a b ha hb]
    simp only [bind, Except.bind]
    rw [udoubleRem_spec hH hm hmU (Nat.mod_lt _ (Nat.two_pow_pos _))]
    simp only []
    rw [Nat.mul_comm (a * b / 2 ^ (2 * H)), Nat.div_add_mod]

/-- **`mulm` of `u8 … u64`** (through the next wider primitive, truncating cast back) `= a·b mod m` -/
theorem mulmWide_spec {T a b m : Nat} (ha : a < 2 ^ T) (hb : b < 2 ^ T) (hm : 0 < m) (hmT : m < 2 ^ T) :
    mulmWide T a b m = .ok (a * b % m) := by
  unfold mulmWide
  have : a * b < 2 ^ (2 * T) := by
    rw [two_pow_two_mul]; exact Nat.mul_lt_mul'' ha hb
  rw [cmul_ok this]
  simp only [bind, Except.bind]
  rw [crem_ok hm]
  simp only [bind, Except.bind, pure, Except.pure]
  rw [Nat.mod_eq_of_lt (Nat.lt_trans (Nat.mod_lt _ hm) hmT)]

theorem mulmOf_spec {T a b m : Nat} (ha : a < 2 ^ T) (hb : b < 2 ^ T) (hm : 0 < m) (hmT : m < 2 ^ T) :
    mulmOf T a b m = .ok (a * b % m) := by
  unfold mulmOf
  by_cases h : T = 128
  · subst h
    rw [if_pos rfl]
    exact mulmMax_spec (H := 64) (by decide) ha hb hm hmT
  · rw [if_neg h]; exact mulmWide_spec ha hb hm hmT

/-- **`subm` / `negm`** on the primitive type `= subm` of the `Nat`-level model -/
theorem submP_spec {a b m : Nat} (hm : 0 < m) : submP a b m = .ok (subm a b m) := by
  unfold submP subm negmP
  by_cases h : a ≥ b
  · rw [if_pos h, if_pos h, csub_ok h]
    simp only [bind, Except.bind]
    rw [crem_ok hm]
  · rw [if_neg h, if_neg h, csub_ok (by omega)]
    simp only [bind, Except.bind]
    rw [crem_ok hm]
    simp only [bind, Except.bind]
    rw [crem_ok hm, Nat.mod_mod]
    simp only [bind, Except.bind]
    by_cases h0 : (b - a) % m = 0
    · simp [h0]; rfl
    · simp only [h0, if_false]
      rw [csub_ok (Nat.le_of_lt (Nat.mod_lt _ hm))]

/-- the Euclid loop of `invm` on the primitive type = the `Nat`-level loop, provided `mulm` is exact on
    operands of the type -/
theorem invmLoopP_spec {T m : Nat} {mulm : Nat → Nat → Nat → Except PanicKind Nat} (hm : 0 < m) (hmT : m < 2 ^ T)
    (hmul : ∀ a b, a < 2 ^ T → b < 2 ^ T → mulm a b m = .ok (a * b % m)) :
    ∀ (fuel lastR r lastT t : Nat), lastR < 2 ^ T → r < 2 ^ T → t < 2 ^ T →
      invmLoopP mulm m fuel lastR r lastT t = .ok (invmLoop m fuel lastR r lastT t) := by
  intro fuel
  induction fuel with
  | zero => intro lastR r lastT t _ _ _; rfl
  | succ fuel ih =>
    intro lastR r lastT t hR hrT ht
    unfold invmLoopP invmLoop
    by_cases h0 : r = 0
    · rw [if_pos h0, if_pos h0]
    · rw [if_neg h0, if_neg h0]
      have hr : 0 < r := Nat.pos_of_ne_zero h0
      rw [cdiv_ok hr, crem_ok hr]
      simp only [bind, Except.bind]
      rw [hmul _ _ (Nat.lt_of_le_of_lt (Nat.div_le_self _ _) hR) ht]
      simp only [bind, Except.bind]
      rw [submP_spec hm]
      simp only [bind, Except.bind]
      exact ih r (lastR % r) t _ hrT (Nat.lt_trans (Nat.mod_lt _ hr) hrT) (Nat.lt_trans (subm_lt hm) hmT)

/-- **`invm` on a primitive type = the `Nat`-level `invm`** (no overflow, no zero divisor) -/
theorem invmP_spec {T x m : Nat} {mulm : Nat → Nat → Nat → Except PanicKind Nat} (hm : 0 < m) (hmT : m < 2 ^ T)
    (hx : x < 2 ^ T)
    (hmul : ∀ a b, a < 2 ^ T → b < 2 ^ T → mulm a b m = .ok (a * b % m)) :
    invmP mulm x m = .ok (invm x m) := by
  unfold invmP invm
  have h1T : 1 < 2 ^ T := by omega
  by_cases h : x ≥ m
  · rw [if_pos h, if_pos h, crem_ok hm]
    simp only [bind, Except.bind]
    rw [invmLoopP_spec hm hmT hmul _ _ _ _ _ hmT (Nat.lt_trans (Nat.mod_lt _ hm) hmT) h1T]
    rfl
  · rw [if_neg h, if_neg h]
    simp only [bind, Except.bind, pure, Except.pure]
    rw [invmLoopP_spec hm hmT hmul _ _ _ _ _ hmT hx h1T]

end Dashu.Model.NT.NMPrim

namespace Dashu.Model.NT
open Dashu.Model NMPrim

/-- **`PreMulInv2by1::inv` / `PreMulInv3by2::inv` on the primitive types = the `%`-level `inv`** of
    single- and double-word rings, on valid (pre-shifted, reduced) operands -/
theorem invSDP_eq {W : Nat} {r : Ring} (hwf : r.WF W) (hk : r.kind ≠ .large) {u : Nat} (hu : u < r.m) :
    invSDP W r (u * 2 ^ r.k) = .ok (invRaw r (u * 2 ^ r.k)) := by
  have hP : 0 < 2 ^ r.k := Nat.two_pow_pos _
  have hMm : r.M / 2 ^ r.k = r.m := by unfold Ring.M; exact Nat.mul_div_cancel _ hP
  have hT : r.M < 2 ^ (if r.kind = .single then W else 2 * W) := by
    have := hwf.Mlt
    cases hkk : r.kind with
    | single => rw [hwf.kind_n.1 hkk] at this; simpa using this
    | double => rw [hwf.kind_n.2.1 hkk] at this; simpa [Nat.mul_comm] using this
    | large => exact absurd hkk hk
  have hmT : r.m < 2 ^ (if r.kind = .single then W else 2 * W) := by
    have : r.m ≤ r.M := by unfold Ring.M; exact Nat.le_mul_of_pos_right _ hP
    omega
  unfold invSDP
  simp only []
  rw [hMm, Nat.mul_div_cancel _ hP]
  rw [invmP_spec hwf.mpos hmT (Nat.lt_trans hu hmT) (fun a b ha hb => mulmOf_spec ha hb hwf.mpos hmT)]
  simp only [bind, Except.bind, pure, Except.pure]
  have hinv : invRaw r (u * 2 ^ r.k) = (invm u r.m).map (· * 2 ^ r.k) := by
    unfold invRaw
    rw [Nat.mul_div_cancel _ hP]
    cases hkk : r.kind with
    | large => exact absurd hkk hk
    | single => rfl
    | double => rfl
  rw [hinv]
  congr 1
  cases hi : invm u r.m with
  | none => rfl
  | some v =>
    simp only [Option.map]
    congr 1
    have hv := ((invm_spec (x := u) hwf.mpos).1 v hi).2
    apply Nat.mod_eq_of_lt
    have : v * 2 ^ r.k < r.m * 2 ^ r.k := Nat.mul_lt_mul_of_pos_right hv hP
    unfold Ring.M at hT
    omega

/-- `Reduced::inv` with num-modular's `invm` at the machine level = `Reduced::inv` of round 4 (`invRawK`) -/
theorem invRawKP_eq {W : Nat} {r : Ring} (hwf : r.WF W) {u : Nat} (hu : u < r.m) :
    invRawKP W r (u * 2 ^ r.k) = invRawK W r (u * 2 ^ r.k) := by
  unfold invRawKP invRawK
  cases hk : r.kind with
  | large => rfl
  | single => simp only []; exact invSDP_eq hwf (by rw [hk]; decide) hu
  | double => simp only []; exact invSDP_eq hwf (by rw [hk]; decide) hu

end Dashu.Model.NT
