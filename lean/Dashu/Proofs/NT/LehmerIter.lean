import Dashu.Proofs.NT.LehmerBuf
import Dashu.Proofs.NT.LehmerExt
/-
  C12 (Round 6): `lehmer::gcd_ext_in_place` — the buffer-length claim restated for EVERY iteration of the main loop.
  `lehmerExtStep` is the body of one iteration of `lehmerExtLoop` (Model/NT/Lehmer.lean); the loop is the iteration of
  that step while `y` has more than one word (`lehmerExtLoop_succ`, `lehmerExtLoop_iter`).  At the head of every
  iteration ever reached from `(lhs, rhs, 0, 1)`, `rhs ≤ lhs`:  `t1·x + t0·y = lhs`, `y ≤ x`, and — as the loop only
  continues while `y` has more than one word, so `x ≥ y > 0` — both coefficients are `≤ lhs`: they fit `lhs_len` words.
-/
namespace Dashu.Model.NT
open Dashu.Model

/-- the state of the main loop of `gcd_ext_in_place`: `(x, y, t0, t1, swapped)` -/
abbrev ExtState := Nat × Nat × Nat × Nat × Bool

/-- the body of one iteration of the `while` loop of `lehmer::gcd_ext_in_place` (entered when `y` has more than
    one word): Euclidean fallback or `lehmer_step` + `lehmer_ext_step`, then the swap -/
def lehmerExtStep (W : Nat) (s : ExtState) : Except PanicKind ExtState :=
  match s with
  | (x, y, t0, t1, sw) =>
    let (a, b, c, d) := lehmerCofactors W x y
    if b = 0 then .ok (y, x % y, t1, t0 + x / y * t1, !sw)
    else
      let x' : Int := (a : Int) * x - (b : Int) * y
      let y' : Int := (d : Int) * y - (c : Int) * x
      if x' < 0 ∨ y' < 0 then .error (.undocumented "lehmer.rs lehmer_step: negative result (debug_assert on the carry)")
      else
        let t0' := a * t0 + b * t1
        let t1' := c * t0 + d * t1
        if x'.toNat ≤ y'.toNat then .ok (y'.toNat, x'.toNat, t1', t0', !sw)
        else .ok (x'.toNat, y'.toNat, t0', t1', sw)

/-- the loop is: while `y` has more than one word, do the step -/
theorem lehmerExtLoop_succ (W fuel x y t0 t1 : Nat) (sw : Bool) :
    lehmerExtLoop W (fuel + 1) x y t0 t1 sw =
      if wordLen W y > 1 then
        (match lehmerExtStep W (x, y, t0, t1, sw) with
         | .error k => .error k
         | .ok s => lehmerExtLoop W fuel s.1 s.2.1 s.2.2.1 s.2.2.2.1 s.2.2.2.2)
      else .ok (x, y, t0, t1, sw) := by
  rw [lehmerExtLoop]
  simp only [lehmerExtStep]
  rcases hc : lehmerCofactors W x y with ⟨a, b, c, d⟩
  simp only []
  by_cases hy : wordLen W y > 1
  · simp only [hy, if_true]
    by_cases hb : b = 0
    · simp only [hb, if_true]
    · simp only [hb, if_false]
      by_cases hn : (a : Int) * x - (b : Int) * y < 0 ∨ (d : Int) * y - (c : Int) * x < 0
      · simp only [hn, if_true]
      · simp only [hn, if_false]
        by_cases hle : ((a : Int) * x - (b : Int) * y).toNat ≤ ((d : Int) * y - (c : Int) * x).toNat
        · simp only [hle, if_true]
        · simp only [hle, if_false]
  · simp only [hy, if_false]

/-- the state at the head of the `k`-th iteration (`none`: the loop has ended or panicked before) -/
def lehmerExtIter (W : Nat) : Nat → ExtState → Option ExtState
  | 0, s => some s
  | k + 1, s =>
    if wordLen W s.2.1 > 1 then
      (match lehmerExtStep W s with
       | .error _ => none
       | .ok s' => lehmerExtIter W k s')
    else none

/-- what the loop returns is the state at the head of some iteration, the first one at which `y` has at most one word -/
theorem lehmerExtLoop_iter (W : Nat) :
    ∀ (fuel : Nat) (s res : ExtState), lehmerExtLoop W fuel s.1 s.2.1 s.2.2.1 s.2.2.2.1 s.2.2.2.2 = .ok res →
      ∃ k, k < fuel ∧ lehmerExtIter W k s = some res ∧ wordLen W res.2.1 ≤ 1 := by
  intro fuel
  induction fuel with
  | zero => intro s res h; simp [lehmerExtLoop] at h
  | succ n ih =>
    intro s res h
    obtain ⟨x, y, t0, t1, sw⟩ := s
    rw [lehmerExtLoop_succ] at h
    split at h
    · rename_i hy
      generalize hst : lehmerExtStep W (x, y, t0, t1, sw) = st at h
      match st, h with
      | .ok s', h =>
        obtain ⟨k, hk, hit, hw⟩ := ih s' res h
        refine ⟨k + 1, Nat.succ_lt_succ hk, ?_, hw⟩
        simp only [lehmerExtIter, hy, if_true, hst]
        exact hit
    · rename_i hy
      injection h with h
      subst h
      exact ⟨0, by omega, rfl, by simpa using hy⟩

/-- the invariant at the head of an iteration -/
def IterInv (L : Nat) (s : ExtState) : Prop := s.2.2.2.1 * s.1 + s.2.2.1 * s.2.1 = L ∧ s.2.1 ≤ s.1

/-- one step keeps `t1·x + t0·y = L` (for WHATEVER quotients the guess committed) and orders the pair -/
theorem lehmerExtStep_inv (W L : Nat) (s s' : ExtState) (hs : lehmerExtStep W s = .ok s') (hy : 0 < s.2.1)
    (hinv : IterInv L s) : IterInv L s' := by
  obtain ⟨x, y, t0, t1, sw⟩ := s
  obtain ⟨hinv, hord⟩ := hinv
  simp only [] at hinv hord hy
  unfold lehmerExtStep at hs
  simp only [] at hs
  have hdet := lehmerCofactors_det W x y
  generalize lehmerCofactors W x y = cof at hs hdet
  obtain ⟨a, b, c, d⟩ := cof
  simp only [] at hs hdet
  split at hs
  · injection hs with hs
    subst hs
    refine ⟨?_, ?_⟩
    · show (t0 + x / y * t1) * y + t1 * (x % y) = L
      have := Nat.div_add_mod x y
      have e : (t0 + x / y * t1) * y + t1 * (x % y) = t0 * y + t1 * (y * (x / y) + x % y) := by ring
      rw [e, this]; omega
    · exact Nat.le_of_lt (Nat.mod_lt x hy)
  · split at hs
    · exact absurd hs (by simp)
    · rename_i hneg
      have hx' : 0 ≤ (a : Int) * x - (b : Int) * y := by omega
      have hy' : 0 ≤ (d : Int) * y - (c : Int) * x := by omega
      have key : ((c * t0 + d * t1 : Nat) : Int) * ((a : Int) * x - (b : Int) * y)
          + ((a * t0 + b * t1 : Nat) : Int) * ((d : Int) * y - (c : Int) * x) = (L : Int) := by
        have hL : ((t1 * x + t0 * y : Nat) : Int) = (L : Int) := by rw [hinv]
        push_cast at hL ⊢
        linear_combination ((t1 : Int) * x + (t0 : Int) * y) * hdet + hL
      have ex : ((((a : Int) * x - (b : Int) * y).toNat : Nat) : Int) = (a : Int) * x - (b : Int) * y := Int.toNat_of_nonneg hx'
      have ey : ((((d : Int) * y - (c : Int) * x).toNat : Nat) : Int) = (d : Int) * y - (c : Int) * x := Int.toNat_of_nonneg hy'
      split at hs
      · rename_i hle
        injection hs with hs
        subst hs
        refine ⟨?_, hle⟩
        have : (((a * t0 + b * t1) * ((d : Int) * y - (c : Int) * x).toNat
            + (c * t0 + d * t1) * ((a : Int) * x - (b : Int) * y).toNat : Nat) : Int) = (L : Int) := by
          push_cast [ex, ey] at key ⊢
          linear_combination key
        exact_mod_cast this
      · rename_i hle
        injection hs with hs
        subst hs
        refine ⟨?_, by simp only []; omega⟩
        have : (((c * t0 + d * t1) * ((a : Int) * x - (b : Int) * y).toNat
            + (a * t0 + b * t1) * ((d : Int) * y - (c : Int) * x).toNat : Nat) : Int) = (L : Int) := by
          push_cast [ex, ey] at key ⊢
          linear_combination key
        exact_mod_cast this

/-- the invariant holds at the head of every iteration reached -/
theorem lehmerExtIter_inv (W L : Nat) (hW : 0 < W) :
    ∀ (k : Nat) (s s' : ExtState), lehmerExtIter W k s = some s' → IterInv L s → IterInv L s' := by
  intro k
  induction k with
  | zero => intro s s' h hinv; simp only [lehmerExtIter] at h; injection h with h; subst h; exact hinv
  | succ n ih =>
    intro s s' h hinv
    simp only [lehmerExtIter] at h
    split at h
    · rename_i hy
      have hy0 : 0 < s.2.1 := by
        rcases Nat.eq_zero_or_pos s.2.1 with h0 | h0
        · rw [h0, wordLen_zero hW] at hy; omega
        · exact h0
      generalize hst : lehmerExtStep W s = st at h
      match st, h with
      | .ok s1, h => exact ih s1 s' h (lehmerExtStep_inv W L s s1 hst hy0 hinv)
    · exact absurd h (by simp)

/-- **every iteration**: at the head of the `k`-th iteration of the main loop of `gcd_ext_in_place(lhs, rhs)`,
    `rhs ≤ lhs`, `t1·x + t0·y = lhs` and `y ≤ x`; whenever the loop goes on from there (`y` has more than one word),
    `t0` and `t1` are below `2^(W·lhs_len)` — so are the operands `t0`, `t1` of every `lehmer_ext_step` /
    `add_signed_mul` call and its results (the coefficients at the head of the next iteration) -/
theorem lehmerExt_every_iteration_fits (W : Nat) (hW : 0 < W) (lhs rhs : Nat) (hlr : rhs ≤ lhs) (k : Nat)
    (x y t0 t1 : Nat) (sw : Bool) (h : lehmerExtIter W k (lhs, rhs, 0, 1, false) = some (x, y, t0, t1, sw)) :
    t1 * x + t0 * y = lhs ∧ y ≤ x ∧
    (0 < y → t0 < 2 ^ (W * wordLen W lhs) ∧ t1 < 2 ^ (W * wordLen W lhs)) := by
  have hinv := lehmerExtIter_inv W lhs hW k _ _ h ⟨by simp, hlr⟩
  obtain ⟨hinv, hord⟩ := hinv
  simp only [] at hinv hord
  have hl := lt_two_pow_wordLen hW lhs
  refine ⟨hinv, hord, fun hy => ?_⟩
  have hx : 0 < x := by omega
  have h1 : t1 * 1 ≤ t1 * x := Nat.mul_le_mul_left _ hx
  have h0 : t0 * 1 ≤ t0 * y := Nat.mul_le_mul_left _ hy
  constructor <;> omega

end Dashu.Model.NT
