import Dashu.Proofs.NT.Gcd
/-
  C12: composition theorems for `gcd` / `gcd_ext` (dispatch over inline / heap operands, signs).
-/
namespace Dashu.Model.NT
open Dashu.Model

/-- `(g, s, t)` is a Bezout triple for `(a, b)` -/
def IsBezout (a b : Nat) (res : Nat × Int × Int) : Prop :=
  res.1 = Nat.gcd a b ∧ (a : Int) * res.2.1 + (b : Int) * res.2.2 = res.1

theorem IsXgcd.bezout {a b : Nat} {res : Nat × Int × Int} (h : IsXgcd a b res) : IsBezout a b res :=
  ⟨h.1, h.2.1.symm⟩

/-- `gcd_ext_word` / `gcd_ext_dword`: gcd, the coefficient `a` of the long operand and the recovered
    coefficient `b = ±|b|` of the short one satisfy Bezout's identity -/
theorem gcdExtSmall_spec (W : Nat) (buffer rhs : Nat) (hrpos : 0 < rhs) :
    ∃ g a bMag bNeg, gcdExtSmall W buffer rhs = .ok (g, a, bMag, bNeg) ∧
      IsBezout buffer rhs (g, a, if bNeg then -(bMag : Int) else (bMag : Int)) := by
  unfold gcdExtSmall
  simp only []
  have hdm := Nat.div_add_mod buffer rhs
  by_cases h0 : buffer % rhs = 0
  · rw [if_pos h0]
    refine ⟨_, _, _, _, rfl, ?_⟩
    simp only [IsBezout, Bool.false_eq_true, if_false]
    refine ⟨?_, by push_cast; ring⟩
    rw [Nat.gcd_comm, Nat.gcd_rec, h0, Nat.gcd_zero_left]
  · rw [if_neg h0]
    have hprim : ∃ res, (if rhs < 2 ^ W then xgcdPrim rhs (buffer % rhs) else xgcdPrimWide W rhs (buffer % rhs))
        = .ok res ∧ IsXgcd rhs (buffer % rhs) res := by
      split
      · exact (xgcdPrim_spec rhs (buffer % rhs)).2 (by omega)
      · exact (xgcdPrimWide_spec W rhs (buffer % rhs)).2 (by omega)
    obtain ⟨res, hres, hx⟩ := hprim
    obtain ⟨r, s, t⟩ := res
    rw [hres]
    simp only []
    refine ⟨_, _, _, _, rfl, ?_⟩
    obtain ⟨h1, h2, h3⟩ := hx
    simp only [] at h1 h2 h3
    have hst : ¬ (s = 0 ∧ t = 0) := by
      rintro ⟨hs, ht⟩
      rw [hs, ht] at h2
      have : r = 0 := by simpa using h2
      rw [this] at h1
      have := Nat.gcd_pos_of_pos_left (buffer % rhs) hrpos
      omega
    have hb' := recover_b (q := buffer / rhs) h3 hst
    simp only [IsBezout]
    refine ⟨?_, ?_⟩
    · rw [h1, Nat.gcd_comm buffer rhs, Nat.gcd_rec rhs buffer, Nat.gcd_comm]
    · rw [hb', h2]
      have : (buffer : Int) = rhs * (buffer / rhs : Nat) + (buffer % rhs : Nat) := by
        exact_mod_cast hdm.symm
      rw [this]; ring

/-- `gcd_ext_large_dword` -/
theorem gcdExtLargeDword_spec (W : Nat) (buffer rhs : Nat) (_hb : 0 < buffer) :
    ∃ res, gcdExtLargeDword W buffer rhs = .ok res ∧ IsBezout buffer rhs res := by
  unfold gcdExtLargeDword
  split
  · rename_i h; subst h
    exact ⟨_, rfl, by simp [IsBezout]⟩
  · rename_i hr
    obtain ⟨g, a, bMag, bNeg, h1, h2⟩ := gcdExtSmall_spec W buffer rhs (Nat.pos_of_ne_zero hr)
    rw [h1]
    exact ⟨_, rfl, h2⟩

/-- `gcd_ext_large` with any kernel meeting the contract of `gcd_ext_in_place` -/
theorem gcdExtLarge_spec (kernel : Nat → Nat → Nat × Nat × Bool)
    (hk : ∀ l r, 0 < r → r < l → LehmerExtContract l r (kernel l r)) (lhs rhs : Nat)
    (hl : 0 < lhs) (hr : 0 < rhs) : IsBezout lhs rhs (gcdExtLarge kernel lhs rhs) := by
  unfold gcdExtLarge
  split
  · rename_i h; subst h; simp [IsBezout]
  · split
    · rename_i hne hgt
      exact gcdExtPost_bezout hl _ (hk lhs rhs hr hgt)
    · rename_i hne hgt
      have hlt : lhs < rhs := by omega
      have := gcdExtPost_bezout hr _ (hk rhs lhs hl hlt)
      generalize gcdExtPost rhs lhs (kernel rhs lhs) = res at this
      obtain ⟨g, a, b⟩ := res
      simp only [IsBezout] at this ⊢
      exact ⟨by rw [this.1, Nat.gcd_comm], by linarith [this.2]⟩

/-- `impl ExtendedGcd for TypedReprRef`: for every pair of magnitudes, every size class -/
theorem gcdExtRepr_spec (W : Nat) (kernel : Nat → Nat → Nat × Nat × Bool)
    (hk : ∀ l r, 0 < r → r < l → LehmerExtContract l r (kernel l r)) (a b : Nat) :
    (a = 0 ∧ b = 0 → gcdExtRepr W kernel a b = .error .gcdZeroZero) ∧
    (¬ (a = 0 ∧ b = 0) → ∃ res, gcdExtRepr W kernel a b = .ok res ∧ IsBezout a b res) := by
  have hp : 0 < 2 ^ (2 * W) := Nat.two_pow_pos _
  constructor
  · rintro ⟨rfl, rfl⟩
    simp [gcdExtRepr, hp, (xgcdPrimWide_spec W 0 0).1 ⟨rfl, rfl⟩]
  · intro h
    unfold gcdExtRepr
    simp only []
    by_cases ha : a < 2 ^ (2 * W) <;> by_cases hb : b < 2 ^ (2 * W) <;> simp only [ha, hb, decide_true, decide_false]
    · obtain ⟨res, h1, h2⟩ := (xgcdPrimWide_spec W a b).2 h
      exact ⟨res, h1, h2.bezout⟩
    · obtain ⟨res, h1, h2⟩ := gcdExtLargeDword_spec W b a (by omega)
      obtain ⟨g, s, t⟩ := res
      rw [h1]
      refine ⟨_, rfl, ?_⟩
      simp only [IsBezout] at h2 ⊢
      exact ⟨by rw [h2.1, Nat.gcd_comm], by linarith [h2.2]⟩
    · exact gcdExtLargeDword_spec W a b (by omega)
    · exact ⟨_, rfl, gcdExtLarge_spec kernel hk a b (by omega) (by omega)⟩

/-- `impl_ibig_gcd_ext` (and the mixed UBig/IBig forms): `s·a + t·b = g` for signed operands -/
theorem gcdExtInt_spec (W : Nat) (kernel : Nat → Nat → Nat × Nat × Bool)
    (hk : ∀ l r, 0 < r → r < l → LehmerExtContract l r (kernel l r)) (a b : Int) :
    (a = 0 ∧ b = 0 → gcdExtInt W kernel a b = .error .gcdZeroZero) ∧
    (¬ (a = 0 ∧ b = 0) → ∃ g s t, gcdExtInt W kernel a b = .ok (g, s, t) ∧
        g = Int.gcd a b ∧ s * a + t * b = g) := by
  obtain ⟨h0, h1⟩ := gcdExtRepr_spec W kernel hk a.natAbs b.natAbs
  constructor
  · rintro ⟨rfl, rfl⟩
    have := h0 ⟨rfl, rfl⟩
    simp only [Int.natAbs_zero] at this
    simp [gcdExtInt, this]
  · intro h
    obtain ⟨res, hres, hg, hbz⟩ := h1 (by omega)
    obtain ⟨g, s, t⟩ := res
    unfold gcdExtInt
    rw [hres]
    refine ⟨g, _, _, rfl, ?_, ?_⟩
    · simpa [Int.gcd] using hg
    · simp only [] at hbz
      have ea : (a.natAbs : Int) = a.sign * a := by
        rw [Int.sign_mul_self_eq_natAbs]
      have eb : (b.natAbs : Int) = b.sign * b := by
        rw [Int.sign_mul_self_eq_natAbs]
      rw [ea, eb] at hbz
      linarith [hbz]

/-- `impl Gcd for TypedReprRef`, given the contract of the primitive binary gcd (`hprim`) -/
theorem gcdRepr_spec (W : Nat)
    (hprim : ∀ x y, gcdPrim x y = if x = 0 ∧ y = 0 then .error .gcdZeroZero else .ok (Nat.gcd x y))
    (a b : Nat) :
    gcdRepr W a b = if a = 0 ∧ b = 0 then .error .gcdZeroZero else .ok (Nat.gcd a b) := by
  have hp : 0 < 2 ^ (2 * W) := Nat.two_pow_pos _
  have hld : ∀ buf r, 2 ^ (2 * W) ≤ buf → gcdLargeDword buf r = .ok (Nat.gcd buf r) := by
    intro buf r hbuf
    unfold gcdLargeDword
    split
    · rename_i h; subst h; simp
    · rename_i h
      simp only []
      split
      · rename_i h0
        rw [Nat.gcd_comm, Nat.gcd_rec, h0, Nat.gcd_zero_left]
      · rename_i h0
        rw [hprim, if_neg (by omega), Nat.gcd_comm buf r, Nat.gcd_rec r buf]
  unfold gcdRepr
  simp only []
  by_cases ha : a < 2 ^ (2 * W) <;> by_cases hb : b < 2 ^ (2 * W) <;> simp only [ha, hb, decide_true, decide_false]
  · exact hprim a b
  · rw [hld b a (by omega), if_neg (by omega), Nat.gcd_comm]
  · rw [hld a b (by omega), if_neg (by omega)]
  · rw [if_neg (by omega)]
    unfold gcdLarge lehmerGcdFrontier
    split
    · rename_i h; subst h; simp
    · split
      · rfl
      · rw [Nat.gcd_comm]

-- ---------------------------------------------------------------- Lehmer cofactor matrix

/-- one double round of `lehmer_guess` keeps the determinant `a·d − b·c = 1`, whatever the
    quotients are (the break conditions only decide *whether* to commit an update) -/
theorem lehmerGuess_det (lim : Nat) :
    ∀ (fuel xbar ybar a b c d : Nat), (a : Int) * d - b * c = 1 →
      let r := lehmerGuess lim fuel xbar ybar a b c d
      (r.1 : Int) * r.2.2.2 - r.2.1 * r.2.2.1 = 1 := by
  intro fuel
  induction fuel with
  | zero => intro _ _ a b c d h; simpa [lehmerGuess] using h
  | succ n ih =>
    intro xbar ybar a b c d h
    unfold lehmerGuess
    simp only []
    -- every early exit returns a quadruple whose determinant is 1
    have h1 : ∀ q : Nat, ((a + q * c : Nat) : Int) * d - ((b + q * d : Nat) : Int) * c = 1 := by
      intro q; push_cast; linarith [h]
    have h2 : ∀ q q' : Nat, ((a + q * c : Nat) : Int) * ((d + q' * (b + q * d) : Nat) : Int)
        - ((b + q * d : Nat) : Int) * ((c + q' * (a + q * c) : Nat) : Int) = 1 := by
      intro q q'; push_cast; nlinarith [h]
    split_ifs <;> first | exact h | exact h1 _ | exact h2 _ _ | (apply ih; exact h2 _ _)

/-- determinant 1 ⇒ `lehmer_step` preserves the gcd (as `Int.gcd`, signs irrelevant) -/
theorem lehmerStep_gcd (x y : Int) (a b c d : Nat) (hdet : (a : Int) * d - b * c = 1) :
    Int.gcd (lehmerStep x y a b c d).1 (lehmerStep x y a b c d).2 = Int.gcd x y := by
  unfold lehmerStep
  simp only []
  have hx : x = (d : Int) * ((a : Int) * x - b * y) + b * ((d : Int) * y - c * x) := by
    have : ((a : Int) * d - b * c) * x = x := by rw [hdet]; ring
    linarith [this]
  have hy : y = (c : Int) * ((a : Int) * x - b * y) + a * ((d : Int) * y - c * x) := by
    have : ((a : Int) * d - b * c) * y = y := by rw [hdet]; ring
    linarith [this]
  generalize hX : (a : Int) * x - b * y = X' at hx hy
  generalize hY : (d : Int) * y - c * x = Y' at hx hy
  apply Nat.dvd_antisymm
  · -- every common divisor of the new pair divides x = d·x' + b·y' and y = c·x' + a·y'
    apply Int.natCast_dvd_natCast.1
    apply Int.dvd_coe_gcd
    · have h1 : (Int.gcd X' Y' : Int) ∣ (d : Int) * X' + b * Y' :=
        Int.dvd_add (Dvd.dvd.mul_left (Int.gcd_dvd_left _ _) _) (Dvd.dvd.mul_left (Int.gcd_dvd_right _ _) _)
      rwa [← hx] at h1
    · have h1 : (Int.gcd X' Y' : Int) ∣ (c : Int) * X' + a * Y' :=
        Int.dvd_add (Dvd.dvd.mul_left (Int.gcd_dvd_left _ _) _) (Dvd.dvd.mul_left (Int.gcd_dvd_right _ _) _)
      rwa [← hy] at h1
  · apply Int.natCast_dvd_natCast.1
    apply Int.dvd_coe_gcd
    · rw [← hX]
      exact Int.dvd_sub (Dvd.dvd.mul_left (Int.gcd_dvd_left _ _) _) (Dvd.dvd.mul_left (Int.gcd_dvd_right _ _) _)
    · rw [← hY]
      exact Int.dvd_sub (Dvd.dvd.mul_left (Int.gcd_dvd_right _ _) _) (Dvd.dvd.mul_left (Int.gcd_dvd_left _ _) _)

end Dashu.Model.NT
