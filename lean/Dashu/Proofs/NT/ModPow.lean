import Dashu.Proofs.NT.Modular
import Dashu.Proofs.Int.Repr
/-
  C13: square-and-multiply exponentiation of single/double-word rings (`pow_word`, `pow_helper`,
  `single::pow`, `double::pow`) computes `b^e mod m` for every (multi-word) exponent.
-/
namespace Dashu.Model.NT
open Dashu.Model

theorem testBit_eq (e i : Nat) : e.testBit i = decide (e / 2 ^ i % 2 = 1) :=
  Nat.testBit_eq_decide_div_mod_eq

theorem pow_congr {a a' m : Nat} (h : a % m = a' % m) (k : Nat) : a ^ k % m = a' ^ k % m := by
  rw [Nat.pow_mod, h, ← Nat.pow_mod]

theorem mul_congr_left {a a' m : Nat} (h : a % m = a' % m) {b : Nat} : a * b % m = a' * b % m := by
  rw [Nat.mul_mod, h, ← Nat.mul_mod]

/-- `pow_helper`: `res^(2^bits) * rhs^(exp mod 2^bits)` -/
theorem powHelper_eq {W : Nat} {r : Ring} (hwf : r.WF W) {b : Nat} (hb : b < r.m) (exp : Nat) :
    ∀ (bits c : Nat), c < r.m →
      powHelper W r (b * 2 ^ r.k) exp bits (c * 2 ^ r.k)
        = ((c ^ (2 ^ bits) * b ^ (exp % 2 ^ bits)) % r.m) * 2 ^ r.k := by
  intro bits
  induction bits with
  | zero =>
    intro c hc
    simp [powHelper, Nat.mod_one, Nat.mod_eq_of_lt hc]
  | succ n ih =>
    intro c hc
    have hm := hwf.mpos
    unfold powHelper
    simp only []
    rw [sqrRaw_eq hwf hc]
    have hc2 : (c * c) % r.m < r.m := Nat.mod_lt _ hm
    have hsplit : exp % 2 ^ (n + 1) = exp % 2 ^ n + 2 ^ n * (exp / 2 ^ n % 2) := Nat.mod_pow_succ
    by_cases hbit : exp.testBit n = true
    · rw [if_pos hbit, mulRaw_eq hwf hc2 hb, ih _ (Nat.mod_lt _ hm)]
      congr 1
      have h1 : exp / 2 ^ n % 2 = 1 := by
        rw [testBit_eq] at hbit; exact of_decide_eq_true hbit
      rw [hsplit, h1, Nat.mul_one]
      have hX : (c * c % r.m * b) % r.m % r.m = (c * c * b) % r.m := by
        rw [Nat.mod_mod, Nat.mul_mod, Nat.mod_mod, ← Nat.mul_mod]
      rw [mul_congr_left (pow_congr hX (2 ^ n))]
      congr 1
      rw [Nat.pow_succ, Nat.pow_mul, Nat.pow_add, Nat.mul_pow, ← Nat.pow_two]
      ring
    · rw [if_neg hbit, ih _ hc2]
      congr 1
      have h1 : exp / 2 ^ n % 2 = 0 := by
        rw [testBit_eq] at hbit
        have : ¬ (exp / 2 ^ n % 2 = 1) := by simpa using hbit
        omega
      rw [hsplit, h1, Nat.mul_zero, Nat.add_zero]
      have hX : (c * c % r.m) % r.m = (c * c) % r.m := Nat.mod_mod _ _
      rw [mul_congr_left (pow_congr hX (2 ^ n))]
      congr 1
      rw [Nat.pow_succ, Nat.pow_mul, ← Nat.pow_two, Nat.add_zero, ← Nat.pow_mul, ← Nat.pow_mul,
        Nat.mul_comm 2]

theorem oneRaw_eq {W : Nat} {r : Ring} (hwf : r.WF W) : oneRaw r = (1 % r.m) * 2 ^ r.k := by
  unfold oneRaw
  have := hwf.mpos
  split
  · rename_i h; rw [h]; simp
  · rename_i h; rw [Nat.mod_eq_of_lt (by omega)]; simp

theorem top_bit_split {e : Nat} (he : e ≠ 0) : e = 2 ^ (bitLen e - 1) + e % 2 ^ (bitLen e - 1) := by
  have h1 := two_pow_bitLen_le he
  have h2 := lt_two_pow_bitLen e
  have hb := bitLen_pos he
  have e2 : 2 ^ bitLen e = 2 * 2 ^ (bitLen e - 1) := by
    rw [← Nat.pow_succ']; congr 1; omega
  have : e % 2 ^ (bitLen e - 1) = e - 2 ^ (bitLen e - 1) := by
    rw [Nat.mod_eq_sub_mod h1, Nat.mod_eq_of_lt (by omega)]
  omega

/-- `pow_word` -/
theorem powWord_eq {W : Nat} {r : Ring} (hwf : r.WF W) {b : Nat} (hb : b < r.m) (e : Nat) :
    powWord W r (b * 2 ^ r.k) e = ((b ^ e) % r.m) * 2 ^ r.k := by
  unfold powWord
  split
  · simpa using oneRaw_eq hwf
  · simp [Nat.mod_eq_of_lt hb]
  · rw [sqrRaw_eq hwf hb]; congr 2; ring
  · rename_i h0 h1 h2
    have he : e ≠ 0 := h0
    rw [powHelper_eq hwf hb e _ b hb, ← Nat.pow_add, ← top_bit_split he]

/-- big-endian accumulation of words -/
def accBE (W : Nat) (E w : Nat) : Nat := E * 2 ^ W + w

theorem foldl_powHelper_eq {W : Nat} {r : Ring} (hwf : r.WF W) {b : Nat} (hb : b < r.m) :
    ∀ (ws : List Nat) (E : Nat), (∀ w ∈ ws, w < 2 ^ W) →
      ws.foldl (fun res w => powHelper W r (b * 2 ^ r.k) w W res) (((b ^ E) % r.m) * 2 ^ r.k)
        = ((b ^ (ws.foldl (accBE W) E)) % r.m) * 2 ^ r.k := by
  intro ws
  induction ws with
  | nil => intro E _; rfl
  | cons w ws ih =>
    intro E hws
    have hw : w < 2 ^ W := hws w (by simp)
    rw [List.foldl_cons, List.foldl_cons, powHelper_eq hwf hb w W _ (Nat.mod_lt _ hwf.mpos),
      Nat.mod_eq_of_lt hw]
    have : ((b ^ E % r.m) ^ 2 ^ W * b ^ w) % r.m = (b ^ (accBE W E w)) % r.m := by
      rw [Nat.mul_mod, ← Nat.pow_mod, ← Nat.mul_mod, accBE, Nat.pow_add, Nat.pow_mul]
    rw [this]
    exact ih _ (fun x hx => hws x (by simp [hx]))

theorem foldl_accBE_reverse (W : Nat) (l : List Nat) : l.reverse.foldl (accBE W) 0 = val W l := by
  induction l with
  | nil => rfl
  | cons w ws ih =>
    rw [List.reverse_cons, List.foldl_append, ih]
    simp [accBE, val]
    ring

/-- `single::pow` / `double::pow`: for every exponent -/
theorem powSD_eq {W : Nat} {r : Ring} (hwf : r.WF W) {b : Nat} (hb : b < r.m) (e : Nat) :
    powSD W r (b * 2 ^ r.k) e = ((b ^ e) % r.m) * 2 ^ r.k := by
  have hW : 1 ≤ W := hwf.hW
  obtain ⟨hval, hwords, _⟩ := natWords_spec W hW e
  unfold powSD
  have hfold := foldl_accBE_reverse W (natWords W e)
  rw [hval] at hfold
  cases hrev : (natWords W e).reverse with
  | nil =>
    simp only []
    rw [hrev] at hfold
    have : e = 0 := by simpa using hfold.symm
    subst this
    exact powWord_eq hwf hb 0
  | cons top rest =>
    simp only []
    rw [hrev, List.foldl_cons] at hfold
    have hmem : ∀ w ∈ rest, w < 2 ^ W := by
      intro w hw
      apply hwords w
      have : w ∈ (natWords W e).reverse := by rw [hrev]; simp [hw]
      simpa using this
    rw [powWord_eq hwf hb top, foldl_powHelper_eq hwf hb rest top hmem]
    have : accBE W 0 top = top := by simp [accBE]
    rw [this] at hfold
    rw [hfold]

end Dashu.Model.NT
