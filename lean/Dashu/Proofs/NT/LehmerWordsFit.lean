import Dashu.Proofs.NT.LehmerWords
import Dashu.Proofs.NT.LehmerIter
import Dashu.Proofs.NT.LehmerBufC
/-
  C12 (Round 6): the word loop of `lehmer_ext_step` inside `gcd_ext_in_place`: the committed cofactors are at most
  `SignedWord::MAX` (so no double-word accumulation overflows), and — by the every-iteration invariant
  `t1·x + t0·y = lhs` with both combined values strictly positive after a committed Lehmer step — a non-zero carry
  word can only come out when the loop ran over fewer than `lhs_len` words: the write `t[tmax_len] = carry` and the
  new length `tmax_len + 1` stay within the `lhs_len` words of the value bound.
-/
namespace Dashu.Model.NT
open Dashu.Model

/-- (same argument as `lehmerGuess_lt` of Proofs/NT/ModInvLarge.lean, kept here so that C12 does not import C13's file) -/
theorem lehmerGuess_entries_lt (lim L : Nat) (hL : lim < L) :
    ∀ (fuel xbar ybar a b c d : Nat), a < L → b < L → c < L → d < L →
      (lehmerGuess lim fuel xbar ybar a b c d).1 < L ∧ (lehmerGuess lim fuel xbar ybar a b c d).2.1 < L ∧
      (lehmerGuess lim fuel xbar ybar a b c d).2.2.1 < L ∧ (lehmerGuess lim fuel xbar ybar a b c d).2.2.2 < L := by
  intro fuel
  induction fuel with
  | zero => intro xbar ybar a b c d ha hb hc hd; exact ⟨ha, hb, hc, hd⟩
  | succ n ih =>
    intro xbar ybar a b c d ha hb hc hd
    unfold lehmerGuess
    simp only []
    by_cases h0 : ybar = 0
    · rw [if_pos h0]; exact ⟨ha, hb, hc, hd⟩
    rw [if_neg h0]
    by_cases h1 : xbar / ybar > lim
    · rw [if_pos h1]; exact ⟨ha, hb, hc, hd⟩
    rw [if_neg h1]
    by_cases h2 : a + xbar / ybar * c > lim ∨ b + xbar / ybar * d > lim
    · rw [if_pos h2]; exact ⟨ha, hb, hc, hd⟩
    rw [if_neg h2]
    by_cases h3 : xbar - xbar / ybar * ybar < b + xbar / ybar * d ∨
        xbar - xbar / ybar * ybar + (a + xbar / ybar * c) > ybar - c
    · rw [if_pos h3]; exact ⟨ha, hb, hc, hd⟩
    rw [if_neg h3]
    have ha1 : a + xbar / ybar * c < L := by omega
    have hb1 : b + xbar / ybar * d < L := by omega
    generalize a + xbar / ybar * c = a1 at *
    generalize b + xbar / ybar * d = b1 at *
    generalize xbar - xbar / ybar * ybar = x1 at *
    by_cases h4 : x1 = b1
    · rw [if_pos h4]; exact ⟨ha1, hb1, hc, hd⟩
    rw [if_neg h4]
    by_cases h5 : ybar / x1 > lim
    · rw [if_pos h5]; exact ⟨ha1, hb1, hc, hd⟩
    rw [if_neg h5]
    by_cases h6 : d + ybar / x1 * b1 > lim ∨ c + ybar / x1 * a1 > lim
    · rw [if_pos h6]; exact ⟨ha1, hb1, hc, hd⟩
    rw [if_neg h6]
    by_cases h7 : ybar - ybar / x1 * x1 < c + ybar / x1 * a1 ∨
        ybar - ybar / x1 * x1 + (d + ybar / x1 * b1) > x1 - c
    · rw [if_pos h7]; exact ⟨ha1, hb1, hc, hd⟩
    rw [if_neg h7]
    have hc1 : c + ybar / x1 * a1 < L := by omega
    have hd1 : d + ybar / x1 * b1 < L := by omega
    by_cases h8 : ybar - ybar / x1 * x1 = c + ybar / x1 * a1
    · rw [if_pos h8]; exact ⟨ha1, hb1, hc1, hd1⟩
    rw [if_neg h8]
    exact ih _ _ _ _ _ _ ha1 hb1 hc1 hd1

/-- every entry of the matrix `lehmer_guess(_dword)` commits is at most `SignedWord::MAX = 2^(W−1) − 1` — the
    `debug_assert!`s at the head of `lehmer_ext_step` (`W ≥ 2`: for a one-bit word `SignedWord::MAX = 0`) -/
theorem lehmerCofactors_le_signed_max (W x y : Nat) (hW : 2 ≤ W) :
    (lehmerCofactors W x y).1 < 2 ^ (W - 1) ∧ (lehmerCofactors W x y).2.1 < 2 ^ (W - 1) ∧
    (lehmerCofactors W x y).2.2.1 < 2 ^ (W - 1) ∧ (lehmerCofactors W x y).2.2.2 < 2 ^ (W - 1) := by
  have hp : 0 < 2 ^ (W - 1) := Nat.two_pow_pos _
  have hlim : 2 ^ (W - 1) - 1 < 2 ^ (W - 1) := by omega
  have h1 : 1 < 2 ^ (W - 1) := by
    calc 1 < 2 ^ 1 := by decide
      _ ≤ 2 ^ (W - 1) := Nat.pow_le_pow_right (by decide) (by omega)
  unfold lehmerCofactors
  simp only []
  split
  · exact lehmerGuess_entries_lt _ _ hlim _ _ _ 1 0 0 1 h1 hp hp h1
  · exact lehmerGuess_entries_lt _ _ hlim _ _ _ 1 0 0 1 h1 hp hp h1

theorem two_pow_pred_double (W : Nat) (hW : 2 ≤ W) : 2 ^ (W - 1) + 2 ^ (W - 1) = 2 ^ W := by
  have : W = (W - 1) + 1 := by omega
  conv => rhs; rw [this, Nat.pow_succ]
  omega

/-- after a committed Lehmer step (`b ≠ 0`) from a state with `t1·x + t0·y = L`, `y ≤ x`, `y` of more than one word,
    both new coefficients are at most `L` (both combined values are strictly positive) -/
theorem lehmerExt_step_coeffs_le (W : Nat) (hW : 0 < W) (L x y t0 t1 : Nat) (hxy : y ≤ x) (hlen : 1 < wordLen W y)
    (hinv : t1 * x + t0 * y = L) (hb : (lehmerCofactors W x y).2.1 ≠ 0) :
    (lehmerCofactors W x y).1 * t0 + (lehmerCofactors W x y).2.1 * t1 ≤ L ∧
    (lehmerCofactors W x y).2.2.1 * t0 + (lehmerCofactors W x y).2.2.2 * t1 ≤ L := by
  have hy0 : 0 < y := by
    apply Nat.pos_of_ne_zero; intro h0; subst h0
    rw [wordLen_zero hW] at hlen; omega
  obtain ⟨lim, gf, k, hcof⟩ := lehmerCofactors_aligned' hW hxy hlen
  have hinit : GuessProg x y k (x / 2 ^ k) (y / 2 ^ k) 1 0 0 1 := by
    refine ⟨⟨by norm_num, by simp, by simp, Nat.zero_le _, Nat.zero_le _⟩, by simp, by simp, ?_⟩
    intro _; exact ⟨rfl, rfl, rfl, rfl, rfl⟩
  obtain ⟨xb, yb, hprog⟩ := lehmerGuess_prog lim x y k hxy gf _ _ 1 0 0 1 hinit
  have hdet := lehmerCofactors_det W x y
  rw [← hcof] at hprog
  generalize lehmerCofactors W x y = cof at hb hprog hdet ⊢
  obtain ⟨a, b, c, d⟩ := cof
  simp only [] at hb hprog hdet ⊢
  obtain ⟨hxpos, hypos⟩ := guessInv_pos hprog.1 hb hy0
  have key : ((c * t0 + d * t1 : Nat) : Int) * ((a : Int) * x - (b : Int) * y)
      + ((a * t0 + b * t1 : Nat) : Int) * ((d : Int) * y - (c : Int) * x) = (L : Int) := by
    have hL : ((t1 * x + t0 * y : Nat) : Int) = (L : Int) := by rw [hinv]
    push_cast at hL ⊢
    linear_combination ((t1 : Int) * x + (t0 : Int) * y) * hdet + hL
  have h0 : (0 : Int) ≤ ((c * t0 + d * t1 : Nat) : Int) := Int.natCast_nonneg _
  have h1 : (0 : Int) ≤ ((a * t0 + b * t1 : Nat) : Int) := Int.natCast_nonneg _
  have hA : ((a * t0 + b * t1 : Nat) : Int) ≤ L := by nlinarith
  have hC : ((c * t0 + d * t1 : Nat) : Int) ≤ L := by nlinarith
  exact ⟨by exact_mod_cast hA, by exact_mod_cast hC⟩

/-- **`lehmer_ext_step` inside `gcd_ext_in_place`, at the word level, at every iteration.**  At the head of any
    iteration reached from `(lhs, rhs, 0, 1)`, `rhs ≤ lhs`, where the Lehmer guess commits (`b ≠ 0`): for ANY word
    buffers `t0w`, `t1w` whose first `len` words hold `t0`, `t1` (the code passes `len = max(t0_len, t1_len)`), the
    word loop returns (no double-word accumulation overflows — the cofactors are at most `SignedWord::MAX`), keeps
    the buffer lengths, computes `a·t0 + b·t1` and `c·t0 + d·t1` into `len` words plus a carry word each, and a
    non-zero carry word implies `len < lhs_len`: the store `t[len] = carry` and the new length `len + 1` stay within
    the `lhs_len` words that bound both values. -/
theorem lehmerExt_step_words_fit (W : Nat) (hW : 2 ≤ W) (lhs rhs : Nat) (hlr : rhs ≤ lhs) (k : Nat)
    (x y t0 t1 : Nat) (sw : Bool) (h : lehmerExtIter W k (lhs, rhs, 0, 1, false) = some (x, y, t0, t1, sw))
    (hlen : 1 < wordLen W y) (hb : (lehmerCofactors W x y).2.1 ≠ 0)
    (t0w t1w : List Nat) (len : Nat) (hw0 : IsWords W t0w) (hw1 : IsWords W t1w)
    (hl0 : len ≤ t0w.length) (hl1 : len ≤ t1w.length)
    (hv0 : val W (t0w.take len) = t0) (hv1 : val W (t1w.take len) = t1) :
    ∃ x' y' cx cy,
      lehmerExtStepWords W (lehmerCofactors W x y).1 (lehmerCofactors W x y).2.1 (lehmerCofactors W x y).2.2.1
        (lehmerCofactors W x y).2.2.2 len t0w t1w 0 0 = some (x', y', cx, cy) ∧
      x'.length = t0w.length ∧ y'.length = t1w.length ∧ IsWords W x' ∧ IsWords W y' ∧
      x'.drop len = t0w.drop len ∧ y'.drop len = t1w.drop len ∧
      val W (x'.take len) + 2 ^ (W * len) * cx = (lehmerCofactors W x y).1 * t0 + (lehmerCofactors W x y).2.1 * t1 ∧
      val W (y'.take len) + 2 ^ (W * len) * cy = (lehmerCofactors W x y).2.2.1 * t0 + (lehmerCofactors W x y).2.2.2 * t1 ∧
      (0 < cx → len < wordLen W lhs) ∧ (0 < cy → len < wordLen W lhs) := by
  have hW0 : 0 < W := by omega
  obtain ⟨hinv, hord, _⟩ := lehmerExt_every_iteration_fits W hW0 lhs rhs hlr k x y t0 t1 sw h
  obtain ⟨hA, hC⟩ := lehmerExt_step_coeffs_le W hW0 lhs x y t0 t1 hord hlen hinv hb
  obtain ⟨ha, hb', hc, hd⟩ := lehmerCofactors_le_signed_max W x y hW
  have hdbl := two_pow_pred_double W hW
  have hp : 0 < 2 ^ W := Nat.two_pow_pos W
  obtain ⟨x', y', cx, cy, hrun, hlx, hly, hwx, hwy, _, _, hdx, hdy, hvx, hvy⟩ :=
    lehmerExtStepWords_spec W (lehmerCofactors W x y).1 (lehmerCofactors W x y).2.1 (lehmerCofactors W x y).2.2.1
      (lehmerCofactors W x y).2.2.2 (by omega) (by omega) len t0w t1w 0 0 hw0 hw1 hp hp hl0 hl1
  rw [hv0, hv1, Nat.add_zero] at hvx hvy
  have hl := lt_two_pow_wordLen hW0 lhs
  have fit : ∀ (v c : Nat), v + 2 ^ (W * len) * c ≤ lhs → 0 < c → len < wordLen W lhs := by
    intro v c hle hc0
    by_contra hn
    have hge : 2 ^ (W * wordLen W lhs) ≤ 2 ^ (W * len) := Nat.pow_le_pow_right (by decide) (Nat.mul_le_mul_left _ (by omega))
    have : 2 ^ (W * len) * 1 ≤ 2 ^ (W * len) * c := Nat.mul_le_mul_left _ hc0
    omega
  exact ⟨x', y', cx, cy, hrun, hlx, hly, hwx, hwy, hdx, hdy, hvx, hvy,
    fit _ _ (by rw [hvx]; exact hA), fit _ _ (by rw [hvy]; exact hC)⟩

end Dashu.Model.NT
