import Dashu.Proofs.NT.Log
import Mathlib.Data.Nat.GCD.Basic
/-
  C12: the binary gcd of the primitives (`base/src/ring/gcd.rs`: `unchecked_gcd`, `impl Gcd for $U`)
  computes `Nat.gcd`.
-/
namespace Dashu.Model.NT
open Dashu.Model

theorem coprime_two_pow_of_odd {n : Nat} (h : n % 2 = 1) (d : Nat) : Nat.Coprime (2 ^ d) n := by
  apply Nat.Coprime.pow_left
  unfold Nat.Coprime
  rw [Nat.gcd_rec, h]; rfl

/-- the odd part `n / 2^tz(n)` of a positive number -/
theorem odd_part {n : Nat} (hn : 0 < n) :
    ∃ o, n = o * 2 ^ trailingZeros n ∧ o % 2 = 1 ∧ n / 2 ^ trailingZeros n = o ∧ 0 < o ∧ o ≤ n := by
  obtain ⟨o, ho⟩ := two_pow_tz_dvd hn
  have hodd := tzLoop_odd n n hn (Nat.le_refl _)
  change (n / 2 ^ trailingZeros n) % 2 = 1 at hodd
  generalize trailingZeros n = t at ho hodd ⊢
  have hp : 0 < 2 ^ t := Nat.two_pow_pos _
  have hdiv : n / 2 ^ t = o := by rw [ho, Nat.mul_div_cancel_left _ hp]
  rw [hdiv] at hodd
  refine ⟨o, by rw [ho, Nat.mul_comm], hodd, hdiv, by omega, ?_⟩
  rw [ho]; exact Nat.le_mul_of_pos_left _ hp

/-- stripping the factors of two of one operand does not change the gcd with an odd number -/
theorem gcd_strip_left {x b : Nat} (hx : 0 < x) (hb : b % 2 = 1) :
    Nat.gcd (x / 2 ^ trailingZeros x) b = Nat.gcd x b := by
  obtain ⟨o, h1, _, h3, _, _⟩ := odd_part hx
  rw [h3]
  conv => rhs; rw [h1]
  exact (Nat.Coprime.gcd_mul_right_cancel o (coprime_two_pow_of_odd hb _)).symm

theorem gcd_strip_right {a x : Nat} (hx : 0 < x) (ha : a % 2 = 1) :
    Nat.gcd a (x / 2 ^ trailingZeros x) = Nat.gcd a x := by
  rw [Nat.gcd_comm, gcd_strip_left hx ha, Nat.gcd_comm]

/-- `unchecked_gcd`: the subtract-and-shift loop on odd operands -/
theorem binGcdLoop_spec : ∀ (fuel a b : Nat), a % 2 = 1 → b % 2 = 1 → a + b ≤ fuel →
    binGcdLoop fuel a b = Nat.gcd a b := by
  intro fuel
  induction fuel with
  | zero => intro a b ha hb h; omega
  | succ n ih =>
    intro a b ha hb hfuel
    unfold binGcdLoop
    split
    · rename_i h; subst h; simp
    · rename_i hne
      split
      · rename_i hgt
        simp only []
        have hpos : 0 < a - b := by omega
        obtain ⟨o, _, hodd, hdiv, hopos, hole⟩ := odd_part hpos
        rw [ih _ b (by rw [hdiv]; exact hodd) hb (by rw [hdiv]; omega), gcd_strip_left hpos hb,
          Nat.gcd_sub_self_left (by omega)]
      · rename_i hle
        simp only []
        have hpos : 0 < b - a := by omega
        obtain ⟨o, _, hodd, hdiv, hopos, hole⟩ := odd_part hpos
        rw [ih a _ ha (by rw [hdiv]; exact hodd) (by rw [hdiv]; omega), gcd_strip_right hpos ha,
          Nat.gcd_sub_self_right (by omega)]

/-- common powers of two factor out of the gcd of the odd parts -/
theorem gcd_odd_parts {a b : Nat} (ha : 0 < a) (hb : 0 < b) :
    Nat.gcd a b = Nat.gcd (a / 2 ^ trailingZeros a) (b / 2 ^ trailingZeros b) *
      2 ^ min (trailingZeros a) (trailingZeros b) := by
  obtain ⟨oa, ha1, ha2, ha3, _, _⟩ := odd_part ha
  obtain ⟨ob, hb1, hb2, hb3, _, _⟩ := odd_part hb
  rw [ha3, hb3]
  generalize trailingZeros a = ta at ha1
  generalize trailingZeros b = tb at hb1
  rw [ha1, hb1]
  rcases Nat.le_total ta tb with h | h
  · rw [Nat.min_eq_left h]
    have : ob * 2 ^ tb = (ob * 2 ^ (tb - ta)) * 2 ^ ta := by
      rw [Nat.mul_assoc, ← Nat.pow_add]; congr 2; omega
    rw [this, Nat.gcd_mul_right]
    congr 1
    exact Nat.Coprime.gcd_mul_right_cancel_right ob (coprime_two_pow_of_odd ha2 _)
  · rw [Nat.min_eq_right h]
    have : oa * 2 ^ ta = (oa * 2 ^ (ta - tb)) * 2 ^ tb := by
      rw [Nat.mul_assoc, ← Nat.pow_add]; congr 2; omega
    rw [this, Nat.gcd_mul_right]
    congr 1
    exact Nat.Coprime.gcd_mul_right_cancel oa (coprime_two_pow_of_odd hb2 _)

/-- `impl Gcd for $U` (u8 … u128): panics exactly for `(0, 0)`, otherwise `Nat.gcd` — including the
    one-division shortcut when the operands differ by more than 3 (resp. 4) bits -/
theorem gcdPrim_spec (a b : Nat) :
    gcdPrim a b = if a = 0 ∧ b = 0 then .error .gcdZeroZero else .ok (Nat.gcd a b) := by
  unfold gcdPrim
  by_cases h0 : a = 0 ∨ b = 0
  · rw [if_pos h0]
    by_cases h00 : a = 0 ∧ b = 0
    · rw [if_pos h00, if_pos h00]
    · rw [if_neg h00, if_neg h00]
      rcases h0 with h | h
      · subst h; simp
      · subst h; simp
  · have hne : ¬ (a = 0 ∧ b = 0) := by omega
    rw [if_neg h0, if_neg hne]
    have ha : 0 < a := by omega
    have hb : 0 < b := by omega
    simp only []
    rw [gcd_odd_parts ha hb, tz_or ha hb]
    obtain ⟨oa, _, ha2, ha3, hapos, _⟩ := odd_part ha
    obtain ⟨ob, _, hb2, hb3, hbpos, _⟩ := odd_part hb
    rw [ha3, hb3]
    generalize min (trailingZeros a) (trailingZeros b) = sh
    by_cases hc1 : bitLen ob > bitLen oa + 3
    · -- b much longer: one division first
      rw [if_pos hc1]
      by_cases hr : ob % oa = 0
      · rw [if_pos hr]
        congr 2
        rw [Nat.gcd_rec, hr, Nat.gcd_zero_left]
      · rw [if_neg hr]
        have hrpos : 0 < ob % oa := Nat.pos_of_ne_zero hr
        obtain ⟨o, _, hodd, hdiv, _, hole⟩ := odd_part hrpos
        have hlt : ob % oa < oa := Nat.mod_lt _ hapos
        have hle : ob % oa ≤ ob := Nat.mod_le _ _
        congr 2
        rw [binGcdLoop_spec _ _ _ ha2 (by rw [hdiv]; exact hodd) (by rw [hdiv]; omega),
          gcd_strip_right hrpos ha2, Nat.gcd_comm oa (ob % oa), ← Nat.gcd_rec]
    · rw [if_neg hc1]
      by_cases hc2 : bitLen oa > bitLen ob + 4
      · rw [if_pos hc2]
        by_cases hr : oa % ob = 0
        · rw [if_pos hr]
          congr 2
          rw [Nat.gcd_comm, Nat.gcd_rec, hr, Nat.gcd_zero_left]
        · rw [if_neg hr]
          have hrpos : 0 < oa % ob := Nat.pos_of_ne_zero hr
          obtain ⟨o, _, hodd, hdiv, _, hole⟩ := odd_part hrpos
          have hlt : oa % ob < ob := Nat.mod_lt _ hbpos
          have hle : oa % ob ≤ oa := Nat.mod_le _ _
          congr 2
          rw [binGcdLoop_spec _ _ _ (by rw [hdiv]; exact hodd) hb2 (by rw [hdiv]; omega),
            gcd_strip_left hrpos hb2, Nat.gcd_comm oa ob, Nat.gcd_rec ob oa]
      · rw [if_neg hc2]
        congr 2
        exact binGcdLoop_spec _ _ _ ha2 hb2 (Nat.le_refl _)

end Dashu.Model.NT
