import Dashu.Proofs.NT.PrimRoot
/-
  C12 (Round 5): TOTALITY (no arithmetic overflow, every `-` stays non-negative, every estimate is an
  under-estimate) of the `u32` table/Newton roots of `base/src/ring/root.rs`, on every value of the type.

  * `normalized_cbrt_rem`: the estimate stage reads only the top 16 bits of the operand
    (`estCbrtU32_top`), so one kernel evaluation per value `h` of the top 16 bits decides all 2^16 operands
    that share it (`cbrtU32OkH`).
  * `normalized_sqrt_rem`: the low 16 bits enter only through `b = wmul32_hi(self, r³) >> 11` (at most two
    values per `h`) and through `e = self − s²`; `sqrtU32OkB h t b` checks, for the interval `[NA, NB]` of
    operands with top bits `h` and this `b`, that no step overflows and that both possible values of
    `(e >> 16)` lead to an under-estimate (`estSqrtU32_total_of_okB`).
  * the `sqrt_rem` / `cbrt_rem` wrappers answer whenever the normalised kernel is sound and answers on
    normalised values (`sqrtRemNorm_total`, `cbrtRemNorm_total`), for every width.
-/
namespace Dashu.Model.NT
open Dashu.Model

theorem ck_eq {bits : Nat} {v : Int} {m : Nat} (hv : v = (m : Int)) (hm : m < 2 ^ bits) : ck bits v = some m := by
  unfold ck
  subst hv
  have : (0 : Int) ≤ (m : Int) ∧ (m : Int) < 2 ^ bits := ⟨by omega, by exact_mod_cast hm⟩
  rw [if_pos this]; simp

/-- `fix_sqrt_error!` answers from every under-estimate whose `2s + 1` fits the type -/
theorem fixSqrtError_total {bits n s : Nat} (h2 : s * s ≤ n) (hn : n < 2 ^ bits) (he : 2 * s + 1 < 2 ^ bits) :
    ∃ r, fixSqrtError bits n s = some r := by
  unfold fixSqrtError
  rw [ck_eq (m := s * s) (by push_cast; ring) (by omega)]
  simp only [Option.bind_eq_bind, Option.bind_some]
  rw [ck_eq (m := n - s * s) (by omega) (by omega)]
  simp only [Option.bind_some]
  rw [ck_eq (m := 2 * s + 1) (by push_cast; ring) he]
  exact ⟨_, rfl⟩

/-- `fix_cbrt_error!` answers from every under-estimate whose `3(c² + c) + 1` fits the type -/
theorem fixCbrtError_total {bits n c : Nat} (h3 : c * c * c ≤ n) (hn : n < 2 ^ bits) (he : 3 * (c * c + c) + 1 < 2 ^ bits) :
    ∃ r, fixCbrtError bits n c = some r := by
  unfold fixCbrtError
  rw [ck_eq (m := c * c) (by push_cast; ring) (by omega)]
  simp only [Option.bind_eq_bind, Option.bind_some]
  rw [ck_eq (m := c * c * c) (by push_cast; ring) (by omega)]
  simp only [Option.bind_some]
  rw [ck_eq (m := n - c * c * c) (by omega) (by omega)]
  simp only [Option.bind_some]
  rw [ck_eq (m := 3 * (c * c + c) + 1) (by push_cast; ring) he]
  exact ⟨_, rfl⟩


-- ---------------------------------------------------------------- u32 cbrt: the estimate depends on the top 16 bits only

/-- what is evaluated for every value `h` of the top 16 bits of a normalised `u32`: the estimate stage of
    `normalized_cbrt_rem` answers (no `ck` fails) with an under-estimate -/
def cbrtU32OkH (h : Nat) : Bool :=
  (estCbrtU32 (h * 65536)).any (fun c => decide (c * c * c ≤ h * 65536) && decide (c < 2048))

theorem estCbrtU32_top (h lo : Nat) (hh : h < 65536) (hlo : lo < 65536) :
    estCbrtU32 (h * 65536 + lo) = estCbrtU32 (h * 65536) := by
  unfold estCbrtU32
  simp only [Nat.reducePow]
  by_cases hc0 : h ≥ 16384
  · obtain ⟨hc, hc'⟩ : h * 65536 ≥ 1073741824 ∧ h * 65536 + lo ≥ 1073741824 := ⟨by omega, by omega⟩
    simp only [if_pos hc, if_pos hc', Nat.reducePow, Nat.reduceMul, Nat.reduceAdd]
    have e1 : (h * 65536 + lo) / 524288 = h * 65536 / 524288 := by omega
    have e2 : (h * 65536 + lo) / 65536 = h * 65536 / 65536 := by omega
    rw [e1, e2]
  · obtain ⟨hc, hc'⟩ : ¬ (h * 65536 ≥ 1073741824) ∧ ¬ (h * 65536 + lo ≥ 1073741824) := ⟨by omega, by omega⟩
    simp only [if_neg hc, if_neg hc', Nat.reducePow, Nat.reduceMul, Nat.reduceAdd]
    have e2 : (h * 65536 + lo) / 65536 = h * 65536 / 65536 := by omega
    rw [e2]


theorem cbrt_elim_fits {c : Nat} (hc : c < 2048) : 3 * (c * c + c) + 1 < 2 ^ 32 := by
  have hc2 : c * c ≤ 2047 * 2047 := Nat.mul_le_mul (by omega) (by omega)
  simp only [Nat.reducePow]; omega

/-- `<u32 as NormalizedRootRem>::normalized_cbrt_rem` answers on `n` whenever the check of its top 16 bits passed -/
theorem normCbrtU32_total_of_ok {n : Nat} (hn : n < 2 ^ 32) (hok : cbrtU32OkH (n / 65536) = true) :
    ∃ r, normCbrtU32 n = some r := by
  have hdm := Nat.div_add_mod n 65536
  have hlo := Nat.mod_lt n (show 0 < 65536 by decide)
  have hh : n / 65536 < 65536 := Nat.div_lt_of_lt_mul (by simpa using hn)
  unfold cbrtU32OkH at hok
  rw [Option.any_eq_true] at hok
  obtain ⟨c, hc, hok⟩ := hok
  simp only [Bool.and_eq_true, decide_eq_true_eq] at hok
  have hest : estCbrtU32 n = some c := by
    have e := estCbrtU32_top (n / 65536) (n % 65536) hh hlo
    rw [hc] at e
    have hn' : n / 65536 * 65536 + n % 65536 = n := by omega
    rw [hn'] at e; exact e
  obtain ⟨r, hr⟩ := fixCbrtError_total (bits := 32) (Nat.le_trans hok.1 (Nat.div_mul_le_self n 65536)) hn (cbrt_elim_fits hok.2)
  refine ⟨r, ?_⟩
  show (estCbrtU32 n).bind (fixCbrtError 32 n) = some r
  rw [hest, Option.bind_some]; exact hr

-- ---------------------------------------------------------------- the wrappers answer when the normalised kernel does

/-- a value shifted left until at most `k` leading zeros remain is at least `2^(bits − k − 1)` -/
theorem shifted_norm_ge {bits x shift k : Nat} (hx0 : x ≠ 0) (hk : bits ≤ bitLen x + shift + k) :
    2 ^ (bits - (k + 1)) ≤ x * 2 ^ shift := by
  have h1 := two_pow_bitLen_le hx0
  have hp := bitLen_pos hx0
  have h2 : 2 ^ (bitLen x - 1) * 2 ^ shift ≤ x * 2 ^ shift := Nat.mul_le_mul_right _ h1
  rw [← Nat.pow_add] at h2
  exact Nat.le_trans (Nat.pow_le_pow_right (by decide) (by omega)) h2

theorem sq_le_of_isRoot {x s : Nat} (h : IsRoot x 2 s) : s * s ≤ x := by
  have := h.1; rwa [Nat.pow_two] at this

theorem cube_le_of_isRoot {x s : Nat} (h : IsRoot x 3 s) : s * s * s ≤ x := by
  have := h.1
  have e : s ^ 3 = s * s * s := by ring
  rwa [e] at this

theorem sq_le_cube (s : Nat) : s * s ≤ s * s * s := by
  rcases Nat.eq_zero_or_pos s with h | h
  · subst h; simp
  · exact Nat.le_mul_of_pos_right _ h

/-- **`sqrt_rem` of `u16 … u128` answers** whenever the normalised kernel is sound and answers on every normalised value -/
theorem sqrtRemNorm_total {bits : Nat} (hbe : bits % 2 = 0) {norm : Nat → Option (Nat × Nat)} (hs : RootSound 2 norm)
    (ht : ∀ y, 2 ^ (bits - 2) ≤ y → y < 2 ^ bits → ∃ r, norm y = some r) {x : Nat} (hx : x < 2 ^ bits) :
    ∃ r, sqrtRemNorm bits norm x = some r := by
  unfold sqrtRemNorm
  by_cases h0 : x = 0
  · rw [if_pos h0]; exact ⟨_, rfl⟩
  · rw [if_neg h0]
    have hbl : bitLen x ≤ bits := bitLen_le_of_lt hx
    have hsh : lzOf bits x / 2 * 2 ≤ lzOf bits x := by omega
    have hlt := shifted_lt hx hsh
    have hge : 2 ^ (bits - 2) ≤ x * 2 ^ (lzOf bits x / 2 * 2) :=
      shifted_norm_ge (k := 1) h0 (by unfold lzOf; omega)
    obtain ⟨⟨root, rem⟩, hnorm⟩ := ht _ hge hlt
    obtain ⟨hroot, _⟩ := hs _ _ hnorm
    simp only [] at hroot
    simp only [Option.bind_eq_bind, Nat.mod_eq_of_lt hlt, hnorm, Option.bind_some]
    generalize lzOf bits x / 2 = t at *
    by_cases hs0 : t * 2 ≠ 0
    · rw [if_pos hs0]
      have e5 : t * 2 / 2 = t := by omega
      have e4 : (2 : Nat) ^ (t * 2) = (2 ^ t) ^ 2 := by rw [Nat.mul_comm, Nat.pow_mul, ← Nat.pow_mul, Nat.mul_comm, Nat.pow_mul]
      rw [e4] at hroot
      have hd := sq_le_of_isRoot (root_denormalise (by decide) hroot)
      rw [e5]
      generalize root / 2 ^ t = q at *
      rw [ck_eq (m := q * q) (by push_cast; ring) (by omega)]
      simp only [Option.bind_some]
      rw [ck_eq (m := x - q * q) (by omega) (by omega)]
      exact ⟨_, rfl⟩
    · rw [if_neg hs0]; exact ⟨_, rfl⟩

/-- **`cbrt_rem` of `u16 … u128` answers** whenever the normalised kernel is sound and answers on every normalised value -/
theorem cbrtRemNorm_total {bits : Nat} {norm : Nat → Option (Nat × Nat)} (hs : RootSound 3 norm)
    (ht : ∀ y, 2 ^ (bits - 3) ≤ y → y < 2 ^ bits → ∃ r, norm y = some r) {x : Nat} (hx : x < 2 ^ bits) :
    ∃ r, cbrtRemNorm bits norm x = some r := by
  unfold cbrtRemNorm
  by_cases h0 : x = 0
  · rw [if_pos h0]; exact ⟨_, rfl⟩
  · rw [if_neg h0]
    have hbl : bitLen x ≤ bits := bitLen_le_of_lt hx
    have hsh : lzOf bits x - lzOf bits x % 3 ≤ lzOf bits x := by omega
    have hlt := shifted_lt hx hsh
    have hge : 2 ^ (bits - 3) ≤ x * 2 ^ (lzOf bits x - lzOf bits x % 3) :=
      shifted_norm_ge (k := 2) h0 (by unfold lzOf; omega)
    obtain ⟨⟨root, rem⟩, hnorm⟩ := ht _ hge hlt
    obtain ⟨hroot, _⟩ := hs _ _ hnorm
    simp only [] at hroot
    simp only [Option.bind_eq_bind, Nat.mod_eq_of_lt hlt, hnorm, Option.bind_some]
    obtain ⟨t, hh⟩ : ∃ t, lzOf bits x - lzOf bits x % 3 = t * 3 := ⟨lzOf bits x / 3, by omega⟩
    rw [hh] at hroot ⊢
    by_cases hs0 : t * 3 ≠ 0
    · rw [if_pos hs0]
      have e5 : t * 3 / 3 = t := by omega
      have e4 : (2 : Nat) ^ (t * 3) = (2 ^ t) ^ 3 := by rw [← Nat.pow_mul]
      rw [e4] at hroot
      have hd := cube_le_of_isRoot (root_denormalise (by decide) hroot)
      rw [e5]
      generalize root / 2 ^ t = q at *
      have hq2 := sq_le_cube q
      rw [ck_eq (m := q * q) (by push_cast; ring) (by omega)]
      simp only [Option.bind_some]
      rw [ck_eq (m := q * q * q) (by push_cast; ring) (by omega)]
      simp only [Option.bind_some]
      rw [ck_eq (m := x - q * q * q) (by omega) (by omega)]
      exact ⟨_, rfl⟩
    · rw [if_neg hs0]; exact ⟨_, rfl⟩

/-- `Option.bind_some`, stated so that `simp` rewrites with it by a proper proof step instead of a definitional
    unfolding the kernel would have to re-check on the whole routine -/
theorem obind_some {α β : Type} (a : α) (f : α → Option β) : (some a).bind f = f a := by
  have h : (some a).bind f = f a := rfl
  exact h

/-- the check evaluated for the top 16 bits `h`, the table entry `t` and a candidate `b` for
    `wmul32_hi(self, r*r*r) >> 11` (which takes at most two values while the low 16 bits vary) -/
def sqrtU32OkB (h t b : Nat) : Bool :=
  let r := 0x100 ||| t
  let r3 := r * r * r
  let NA := max (h * 65536) ((b * 8796093022208 + r3 - 1) / r3)
  let NB := min (h * 65536 + 65535) (((b + 1) * 8796093022208 - 1) / r3)
  let a := 3 * r * 32
  let rr := (a - b) * 2 % 65536
  let sat := min (rr * h / 65536 * 2) 65535
  let s0 := sat - 4
  let E0 := NA - s0 * s0
  let k0 := E0 / 65536
  let l1 := 65536 - E0 % 65536
  let d0 := k0 * rr / 65536
  let d1 := (k0 + 1) * rr / 65536
  decide (r < 512) && decide (0 < r) && decide (b ≤ a) && decide (4 ≤ sat) && decide (s0 * s0 ≤ NA)
    && decide (s0 + d0 < 65536) && decide ((s0 + d0) * (s0 + d0) ≤ NA)
    && (decide (NB < NA + l1) || (decide (s0 + d1 < 65536) && decide ((s0 + d1) * (s0 + d1) ≤ NA + l1)))

theorem estSqrtU32_total_of_okB {n h t : Nat} (hn1 : h * 65536 ≤ n) (hn2 : n < h * 65536 + 65536) (hh : h < 65536)
    (htab : tabAt RSQRT_TAB (h / 512) 32 = some t)
    (hok : sqrtU32OkB h t (n * ((0x100 ||| t) * (0x100 ||| t) * (0x100 ||| t)) / 8796093022208) = true) :
    ∃ s, estSqrtU32 n = some s ∧ s * s ≤ n ∧ s < 65536 := by
  unfold sqrtU32OkB at hok
  simp only [Bool.and_eq_true, Bool.or_eq_true, decide_eq_true_eq] at hok
  obtain ⟨⟨⟨⟨⟨⟨⟨hr, hr0⟩, hba⟩, hsat⟩, hs0⟩, hd0⟩, hd0sq⟩, hk1⟩ := hok
  have e16 : n / 65536 % 65536 = h := by omega
  unfold estSqrtU32
  simp only [Nat.reducePow, Nat.reduceSub, e16, htab, Option.bind_eq_bind, obind_some, wmulHi]
  generalize 256 ||| t = r at *
  have hr2 : r * r ≤ 511 * 511 := Nat.mul_le_mul (by omega) (by omega)
  have hr3 : r * r * r ≤ 511 * 511 * 511 := Nat.mul_le_mul hr2 (by omega)
  have hr3p : 0 < r * r * r := Nat.mul_pos (Nat.mul_pos hr0 hr0) hr0
  rw [ck_eq (m := 3 * r) (by omega) (by omega)]
  simp only [obind_some]
  rw [ck_eq (m := r * r) (by push_cast; ring) (by omega)]
  simp only [obind_some]
  rw [ck_eq (m := r * r * r) (by push_cast; ring) (by omega)]
  simp only [obind_some]
  have eb : n * (r * r * r) / 4294967296 / 2048 = n * (r * r * r) / 8796093022208 := by
    rw [Nat.div_div_eq_div_mul]
  rw [eb]
  have hb1 : n * (r * r * r) / 8796093022208 * 8796093022208 ≤ n * (r * r * r) := Nat.div_mul_le_self _ _
  have hb2 : n * (r * r * r) < 8796093022208 * (n * (r * r * r) / 8796093022208 + 1) :=
    Nat.lt_mul_div_succ _ (by decide)
  generalize n * (r * r * r) / 8796093022208 = b at *
  generalize r * r * r = R3 at *
  have hxA : (b * 8796093022208 + R3 - 1) / R3 ≤ n := by
    rw [Nat.div_le_iff_le_mul_add_pred hr3p]
    have : R3 * n = n * R3 := Nat.mul_comm _ _
    omega
  have hyB : n ≤ ((b + 1) * 8796093022208 - 1) / R3 := by
    rw [Nat.le_div_iff_mul_le hr3p]
    have : 8796093022208 * (b + 1) = (b + 1) * 8796093022208 := Nat.mul_comm _ _
    omega
  generalize (b * 8796093022208 + R3 - 1) / R3 = xA at *
  generalize ((b + 1) * 8796093022208 - 1) / R3 = yB at *
  clear hb1 hb2 hr2 hr3 eb
  rw [ck_eq (m := 3 * r * 32 - b) (by omega) (by omega)]
  simp only [obind_some]
  generalize (3 * r * 32 - b) * 2 % 65536 = rr at *
  generalize min (rr * h / 65536 * 2) 65535 = sat at *
  rw [ck_eq (m := sat - 4) (by omega) (by omega)]
  simp only [obind_some]
  have hs0lt : sat - 4 < 65536 := by omega
  generalize sat - 4 = s0 at *
  have hS : s0 * s0 ≤ 65535 * 65535 := Nat.mul_le_mul (by omega) (by omega)
  rw [ck_eq (m := s0 * s0) (by push_cast; ring) (by omega)]
  simp only [obind_some]
  generalize s0 * s0 = S at *
  rw [ck_eq (m := n - S) (by omega) (by omega)]
  simp only [obind_some]
  have ek : (n - S) / 65536 % 65536 = (n - S) / 65536 := by omega
  rw [ek]
  have hk : (n - S) / 65536 = (max (h * 65536) xA - S) / 65536 ∨
      ((n - S) / 65536 = (max (h * 65536) xA - S) / 65536 + 1 ∧
        max (h * 65536) xA + (65536 - (max (h * 65536) xA - S) % 65536) ≤ n) := by omega
  have hNA : max (h * 65536) xA ≤ n := by omega
  have hNB : n ≤ min (h * 65536 + 65535) yB := by omega
  rcases hk with hk | ⟨hk, hl1⟩
  · rw [hk]
    refine ⟨_, ck_eq (by push_cast; rfl) (by omega), Nat.le_trans hd0sq hNA, hd0⟩
  · rw [hk]
    rcases hk1 with hk1 | ⟨hd1, hd1sq⟩
    · omega
    · refine ⟨_, ck_eq (by push_cast; rfl) (by omega), Nat.le_trans hd1sq hl1, hd1⟩



/-- the check for one value `h` of the top 16 bits: every candidate `b` between its value at the lowest and at the
    highest operand of the block passes `sqrtU32OkB` -/
def sqrtU32OkH (h : Nat) : Bool :=
  (tabAt RSQRT_TAB (h / 512) 32).any (fun t =>
    allFrom (sqrtU32OkB h t)
      ((h * 65536 + 65535) * ((0x100 ||| t) * (0x100 ||| t) * (0x100 ||| t)) / 8796093022208
        - h * 65536 * ((0x100 ||| t) * (0x100 ||| t) * (0x100 ||| t)) / 8796093022208 + 1)
      (h * 65536 * ((0x100 ||| t) * (0x100 ||| t) * (0x100 ||| t)) / 8796093022208))

theorem sqrt_elim_fits {s : Nat} (hs : s < 65536) : 2 * s + 1 < 2 ^ 32 := by
  simp only [Nat.reducePow]; omega

/-- `<u32 as NormalizedRootRem>::normalized_sqrt_rem` answers on `n` whenever the check of its top 16 bits passed -/
theorem normSqrtU32_total_of_ok {n : Nat} (hn : n < 2 ^ 32) (hok : sqrtU32OkH (n / 65536) = true) :
    ∃ r, normSqrtU32 n = some r := by
  have hh : n / 65536 < 65536 := Nat.div_lt_of_lt_mul (by simpa using hn)
  have hn1 : n / 65536 * 65536 ≤ n := Nat.div_mul_le_self n 65536
  have hn2 : n < n / 65536 * 65536 + 65536 := by
    have := Nat.lt_mul_div_succ n (show 0 < 65536 by decide)
    omega
  unfold sqrtU32OkH at hok
  rw [Option.any_eq_true] at hok
  obtain ⟨t, htab, hall⟩ := hok
  generalize n / 65536 = h at *
  generalize hR : (0x100 ||| t) * (0x100 ||| t) * (0x100 ||| t) = R3 at *
  have hlo : h * 65536 * R3 / 8796093022208 ≤ n * R3 / 8796093022208 :=
    Nat.div_le_div_right (Nat.mul_le_mul_right _ hn1)
  have hhi : n * R3 / 8796093022208 ≤ (h * 65536 + 65535) * R3 / 8796093022208 :=
    Nat.div_le_div_right (Nat.mul_le_mul_right _ (by omega))
  have hb := allFrom_spec _ _ _ hall (n * R3 / 8796093022208) hlo (by omega)
  rw [← hR] at hb
  obtain ⟨s, hs, hsq, hslt⟩ := estSqrtU32_total_of_okB hn1 hn2 hh htab hb
  obtain ⟨r, hr⟩ := fixSqrtError_total (bits := 32) hsq hn (sqrt_elim_fits hslt)
  refine ⟨r, ?_⟩
  show (estSqrtU32 n).bind (fixSqrtError 32 n) = some r
  rw [hs, obind_some]; exact hr

-- ---------------------------------------------------------------- what the chunk theorems establish

/-- the `u32` square root never overflows, given the per-`h` checks on all normalised top halves -/
theorem sqrtRemU32_total_of (hall : ∀ h, 16384 ≤ h → h < 65536 → sqrtU32OkH h = true) {x : Nat} (hx : x < 2 ^ 32) :
    ∃ r, sqrtRemPrimBits 32 x = some r :=
  sqrtRemNorm_total (bits := 32) (by decide) normSqrtU32_sound (fun y hy1 hy2 => by
    refine normSqrtU32_total_of_ok hy2 (hall _ ?_ (Nat.div_lt_of_lt_mul (by simpa using hy2)))
    rw [Nat.le_div_iff_mul_le (by decide)]
    simpa using hy1) hx

/-- the `u32` cube root never overflows, given the per-`h` checks on all normalised top halves -/
theorem cbrtRemU32_total_of (hall : ∀ h, 8192 ≤ h → h < 65536 → cbrtU32OkH h = true) {x : Nat} (hx : x < 2 ^ 32) :
    ∃ r, cbrtRemPrimBits 32 x = some r :=
  cbrtRemNorm_total (bits := 32) normCbrtU32_sound (fun y hy1 hy2 => by
    refine normCbrtU32_total_of_ok hy2 (hall _ ?_ (Nat.div_lt_of_lt_mul (by simpa using hy2)))
    rw [Nat.le_div_iff_mul_le (by decide)]
    simpa using hy1) hx

end Dashu.Model.NT
