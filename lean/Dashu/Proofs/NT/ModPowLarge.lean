import Dashu.Proofs.NT.ModPow
import Dashu.Proofs.NT.Log
/-
  C13: the windowed exponentiation of multi-word rings (`large::pow`, `pow_nontrivial`,
  `choose_pow_window_len`) computes `b^e mod m` for every exponent.
-/
namespace Dashu.Model.NT
open Dashu.Model

-- ---------------------------------------------------------------- repeated squaring, the table

theorem getD_append_left' (l l' : List Nat) (i : Nat) (h : i < l.length) : (l ++ l').getD i 0 = l.getD i 0 := by
  rw [List.getD_eq_getElem?_getD, List.getD_eq_getElem?_getD, List.getElem?_append_left h]

theorem getD_append_right' (l l' : List Nat) (i : Nat) (h : l.length ≤ i) :
    (l ++ l').getD i 0 = l'.getD (i - l.length) 0 := by
  rw [List.getD_eq_getElem?_getD, List.getD_eq_getElem?_getD, List.getElem?_append_right h]

theorem sqrIter_eq {W : Nat} {r : Ring} (hwf : r.WF W) :
    ∀ (c u : Nat), u < r.m →
      (List.range c).foldl (fun v _ => mulNormalized W r v v) (u * 2 ^ r.k)
        = ((u ^ (2 ^ c)) % r.m) * 2 ^ r.k := by
  intro c
  induction c with
  | zero => intro u hu; simp [Nat.mod_eq_of_lt hu]
  | succ n ih =>
    intro u hu
    rw [List.range_succ, List.foldl_append, ih u hu]
    simp only [List.foldl_cons, List.foldl_nil]
    have hlt := Nat.mod_lt (u ^ 2 ^ n) hwf.mpos
    rw [mulNormalized_eq hwf hlt hlt]
    congr 1
    rw [← Nat.mul_mod, ← Nat.pow_two, ← Nat.pow_mul, ← Nat.pow_succ]

theorem oddPowTable_spec {W : Nat} {r : Ring} (hwf : r.WF W) {b : Nat} (hb : b < r.m) :
    ∀ cnt, (oddPowTable W r (b * 2 ^ r.k) (((b * b) % r.m) * 2 ^ r.k) cnt).length = cnt ∧
      ∀ i, i < cnt → (oddPowTable W r (b * 2 ^ r.k) (((b * b) % r.m) * 2 ^ r.k) cnt).getD i 0
        = ((b ^ (2 * i + 1)) % r.m) * 2 ^ r.k := by
  intro cnt
  induction cnt with
  | zero => exact ⟨rfl, fun i hi => by omega⟩
  | succ n ih =>
    obtain ⟨hlen, hent⟩ := ih
    unfold oddPowTable
    simp only []
    generalize ht : oddPowTable W r (b * 2 ^ r.k) (b * b % r.m * 2 ^ r.k) n = t at hlen hent
    refine ⟨by simp [hlen], ?_⟩
    intro i hi
    by_cases hin : i < n
    · rw [getD_append_left' _ _ _ (by omega)]
      exact hent i hin
    · have hi' : i = n := by omega
      subst hi'
      rw [getD_append_right' _ _ _ (by omega), hlen, Nat.sub_self]
      simp only [List.getD_cons_zero]
      cases i with
      | zero =>
        have : t = [] := List.eq_nil_of_length_eq_zero hlen
        subst this
        simp [Nat.mod_eq_of_lt hb]
      | succ j =>
        have hlast : t.getLast? = some (t.getD j 0) := by
          rw [List.getLast?_eq_getElem?, hlen]
          simp only [Nat.add_sub_cancel]
          have hj : j < t.length := by omega
          rw [List.getD_eq_getElem?_getD, List.getElem?_eq_getElem hj]
          rfl
        rw [hlast]
        simp only []
        rw [hent j (by omega), mulNormalized_eq hwf (Nat.mod_lt _ hwf.mpos) (Nat.mod_lt _ hwf.mpos)]
        congr 1
        rw [← Nat.mul_mod]
        congr 1
        have : 2 * (j + 1) + 1 = (2 * j + 1) + 2 := by omega
        rw [this, Nat.pow_add]; ring

-- ---------------------------------------------------------------- window extraction (pure arithmetic)

/-- the window the loop takes at a set bit: `k = numBits` bits ending at `bit`, odd, and the
    exponent prefix grows by exactly these bits -/
theorem window_extract {e wl bit : Nat} (hwl : 0 < wl) (hbit : (e / 2 ^ bit) % 2 = 1) :
    let window := (e * 2 ^ wl / 2 ^ (bit + 1)) % 2 ^ wl
    let k := wl - trailingZeros window
    let w' := window / 2 ^ (wl - k)
    0 < k ∧ k ≤ wl ∧ k ≤ bit + 1 ∧ w' % 2 = 1 ∧ w' < 2 ^ k ∧
      e / 2 ^ (bit + 1 - k) = (e / 2 ^ (bit + 1)) * 2 ^ k + w' := by
  intro window k w'
  have hp : ∀ n, 0 < 2 ^ n := fun n => Nat.two_pow_pos n
  -- (a) the top bit of the window is the bit being consumed
  have htop : window / 2 ^ (wl - 1) = 1 := by
    have e1 : 2 ^ wl = 2 ^ (wl - 1) * 2 := by rw [← Nat.pow_succ]; congr 1; omega
    show (e * 2 ^ wl / 2 ^ (bit + 1)) % 2 ^ wl / 2 ^ (wl - 1) = 1
    rw [e1, Nat.mod_mul_right_div_self, Nat.div_div_eq_div_mul, ← Nat.pow_add, ← e1]
    have : bit + 1 + (wl - 1) = bit + wl := by omega
    rw [this, Nat.pow_add, Nat.mul_div_mul_right _ _ (hp wl)]
    exact hbit
  have hwpos : 0 < window := by
    by_contra h0
    have : window = 0 := by omega
    rw [this] at htop; simp at htop
  have hwlt : window < 2 ^ wl := Nat.mod_lt _ (hp wl)
  -- (b) trailing zeros
  have hdvd : 2 ^ trailingZeros window ∣ window := two_pow_tz_dvd hwpos
  have hodd := tzLoop_odd window window hwpos (Nat.le_refl _)
  change (window / 2 ^ trailingZeros window) % 2 = 1 at hodd
  have htzlt : trailingZeros window < wl := by
    have : 2 ^ trailingZeros window ≤ window := Nat.le_of_dvd hwpos hdvd
    exact (Nat.pow_lt_pow_iff_right (by decide)).1 (Nat.lt_of_le_of_lt this hwlt)
  have hk : wl - k = trailingZeros window := by show wl - (wl - trailingZeros window) = _; omega
  have hkpos : 0 < k := by show 0 < wl - trailingZeros window; omega
  have hkle : k ≤ wl := Nat.sub_le _ _
  -- (d) the window never reaches below bit 0
  have hkbit : k ≤ bit + 1 := by
    by_cases hge : wl ≤ bit + 1
    · omega
    · have hc : 2 ^ (wl - (bit + 1)) ∣ window := by
        have e2 : 2 ^ wl = 2 ^ (bit + 1) * 2 ^ (wl - (bit + 1)) := by
          rw [← Nat.pow_add]; congr 1; omega
        show 2 ^ (wl - (bit + 1)) ∣ (e * 2 ^ wl / 2 ^ (bit + 1)) % 2 ^ wl
        have e3 : e * 2 ^ wl / 2 ^ (bit + 1) = e * 2 ^ (wl - (bit + 1)) := by
          rw [e2, ← Nat.mul_assoc, Nat.mul_comm e, Nat.mul_assoc, Nat.mul_div_cancel_left _ (hp _)]
        rw [e3, e2, Nat.mul_mod_mul_right]
        exact Nat.dvd_mul_left _ _
      have := tz_maximal hwpos hc
      show wl - trailingZeros window ≤ bit + 1
      omega
  -- (c) the shifted window is odd and has k bits
  have hw'odd : w' % 2 = 1 := by show (window / 2 ^ (wl - k)) % 2 = 1; rw [hk]; exact hodd
  have hw'lt : w' < 2 ^ k := by
    show window / 2 ^ (wl - k) < 2 ^ k
    rw [hk, Nat.div_lt_iff_lt_mul (hp _), ← Nat.pow_add]
    have : k + trailingZeros window = wl := by show wl - trailingZeros window + _ = wl; omega
    rw [this]; exact hwlt
  -- (e) the shifted window is the k bits of e ending at `bit`
  have hw'eq : w' = (e / 2 ^ (bit + 1 - k)) % 2 ^ k := by
    show (e * 2 ^ wl / 2 ^ (bit + 1)) % 2 ^ wl / 2 ^ (wl - k) = _
    have e4 : 2 ^ wl = 2 ^ (wl - k) * 2 ^ k := by rw [← Nat.pow_add]; congr 1; omega
    have e5 : e * 2 ^ wl / 2 ^ (bit + 1) / 2 ^ (wl - k) = e / 2 ^ (bit + 1 - k) := by
      rw [Nat.div_div_eq_div_mul, ← Nat.pow_add]
      have : bit + 1 + (wl - k) = (bit + 1 - k) + wl := by omega
      rw [this, Nat.pow_add, Nat.mul_div_mul_right _ _ (hp wl)]
    generalize e * 2 ^ wl / 2 ^ (bit + 1) = X at e5 ⊢
    rw [e4, Nat.mod_mul_right_div_self, e5]
  refine ⟨hkpos, hkle, hkbit, hw'odd, hw'lt, ?_⟩
  -- (f)
  rw [hw'eq]
  have := Nat.div_add_mod (e / 2 ^ (bit + 1 - k)) (2 ^ k)
  rw [Nat.div_div_eq_div_mul, ← Nat.pow_add] at this
  have e5 : bit + 1 - k + k = bit + 1 := by omega
  rw [e5] at this
  rw [Nat.mul_comm]; omega

-- ---------------------------------------------------------------- the window loop

theorem powWindowLoop_eq {W : Nat} {r : Ring} (hwf : r.WF W) {b : Nat} (hb : b < r.m)
    (e wl : Nat) (hwl : 0 < wl) (table : List Nat)
    (htab : ∀ i, i < 2 ^ (wl - 1) → table.getD i 0 = ((b ^ (2 * i + 1)) % r.m) * 2 ^ r.k) :
    ∀ (fuel bit E : Nat), bit < fuel → E = 2 * (e / 2 ^ (bit + 1)) →
      powWindowLoop W r e wl table fuel bit (((b ^ E) % r.m) * 2 ^ r.k) = ((b ^ e) % r.m) * 2 ^ r.k := by
  have hm := hwf.mpos
  intro fuel
  induction fuel with
  | zero => intro bit E h; omega
  | succ n ih =>
    intro bit E hfuel hE
    unfold powWindowLoop
    -- the state after the window step: (bit', b^(e / 2^bit'))
    have hstep : ∃ bit' , bit' ≤ bit ∧
        (if e.testBit bit = true then
          (bit - (wl - trailingZeros ((e * 2 ^ wl / 2 ^ (bit + 1)) % 2 ^ wl) - 1),
           mulNormalized W r
            ((List.range (wl - trailingZeros ((e * 2 ^ wl / 2 ^ (bit + 1)) % 2 ^ wl) - 1)).foldl
              (fun v _ => mulNormalized W r v v) (((b ^ E) % r.m) * 2 ^ r.k))
            (table.getD ((e * 2 ^ wl / 2 ^ (bit + 1)) % 2 ^ wl /
              2 ^ (wl - (wl - trailingZeros ((e * 2 ^ wl / 2 ^ (bit + 1)) % 2 ^ wl))) / 2) 0))
         else (bit, ((b ^ E) % r.m) * 2 ^ r.k))
        = (bit', ((b ^ (e / 2 ^ bit')) % r.m) * 2 ^ r.k) := by
      have hsplit := Nat.div_add_mod (e / 2 ^ bit) 2
      rw [Nat.div_div_eq_div_mul, ← Nat.pow_succ] at hsplit
      by_cases htb : e.testBit bit = true
      · rw [if_pos htb]
        have hbit : (e / 2 ^ bit) % 2 = 1 := by
          rw [testBit_eq] at htb; exact of_decide_eq_true htb
        obtain ⟨hk0, hk1, hk2, hodd, hlt, hval⟩ := window_extract (e := e) (wl := wl) (bit := bit) hwl hbit
        generalize hkdef : wl - trailingZeros ((e * 2 ^ wl / 2 ^ (bit + 1)) % 2 ^ wl) = k at *
        generalize hwdef : (e * 2 ^ wl / 2 ^ (bit + 1)) % 2 ^ wl / 2 ^ (wl - k) = w' at *
        refine ⟨bit + 1 - k, by omega, ?_⟩
        have hb1 : bit - (k - 1) = bit + 1 - k := by omega
        rw [hb1, sqrIter_eq hwf (k - 1) _ (Nat.mod_lt _ hm)]
        have hidx : w' / 2 < 2 ^ (wl - 1) := by
          have h1 : w' < 2 ^ wl := Nat.lt_of_lt_of_le hlt (Nat.pow_le_pow_right (by decide) hk1)
          have e1 : 2 ^ wl = 2 ^ (wl - 1) * 2 := by rw [← Nat.pow_succ]; congr 1; omega
          rw [Nat.div_lt_iff_lt_mul (by decide), ← e1]; exact h1
        rw [htab _ hidx, mulNormalized_eq hwf (Nat.mod_lt _ hm) (Nat.mod_lt _ hm)]
        congr 2
        -- exponents: (b^E)^(2^(k-1)) * b^(2(w'/2)+1) = b^(e / 2^(bit+1-k))
        have hw2 : 2 * (w' / 2) + 1 = w' := by have := Nat.div_add_mod w' 2; omega
        rw [hw2]
        have hmm : ((b ^ E % r.m) ^ 2 ^ (k - 1) % r.m * (b ^ w' % r.m)) % r.m
            = ((b ^ E) ^ 2 ^ (k - 1) * b ^ w') % r.m := by
          rw [← Nat.pow_mod, ← Nat.mul_mod]
        rw [hmm, ← Nat.pow_mul, ← Nat.pow_add, hval, hE]
        congr 3
        have : 2 * 2 ^ (k - 1) = 2 ^ k := by rw [← Nat.pow_succ']; congr 1; omega
        calc 2 * (e / 2 ^ (bit + 1)) * 2 ^ (k - 1) = e / 2 ^ (bit + 1) * (2 * 2 ^ (k - 1)) := by ring
          _ = e / 2 ^ (bit + 1) * 2 ^ k := by rw [this]
      · rw [if_neg htb]
        refine ⟨bit, Nat.le_refl _, ?_⟩
        have hbit : (e / 2 ^ bit) % 2 = 0 := by
          rw [testBit_eq] at htb
          have : ¬ (e / 2 ^ bit % 2 = 1) := by simpa using htb
          omega
        have h1 : e / 2 ^ (bit + 1) = e / 2 ^ bit / 2 := by
          rw [Nat.div_div_eq_div_mul, ← Nat.pow_succ]
        have : E = e / 2 ^ bit := by rw [hE, h1]; omega
        rw [this]
    obtain ⟨bit', hle, hst⟩ := hstep
    simp only [] at hst ⊢
    rw [hst]
    simp only []
    split
    · rename_i h0
      rw [h0]; simp
    · rename_i h0
      rw [mulNormalized_eq hwf (Nat.mod_lt _ hm) (Nat.mod_lt _ hm)]
      have : (b ^ (e / 2 ^ bit') % r.m * (b ^ (e / 2 ^ bit') % r.m)) % r.m
          = (b ^ (2 * (e / 2 ^ bit'))) % r.m := by
        rw [← Nat.mul_mod, ← Nat.pow_add]; congr 2; omega
      rw [this]
      apply ih (bit' - 1) _ (by omega)
      have : bit' - 1 + 1 = bit' := by omega
      rw [this]

theorem chooseWindowLen_pos (W n : Nat) : 0 < chooseWindowLen W n := by
  unfold chooseWindowLen
  simp only []
  have : ∀ (cost : Nat → Nat) fuel ws, 0 < ws → 0 < chooseWindowLen.go W cost fuel ws := by
    intro cost fuel
    induction fuel with
    | zero => intro ws h; simpa [chooseWindowLen.go] using h
    | succ k ih =>
      intro ws h
      unfold chooseWindowLen.go
      split
      · split
        · exact h
        · exact ih _ (by omega)
      · exact h
  exact this _ W 1 (by decide)

/-- `large::pow` for every exponent -/
theorem powL_eq {W : Nat} {r : Ring} (hwf : r.WF W) {b : Nat} (hb : b < r.m) (e : Nat) :
    powL W r (b * 2 ^ r.k) e = ((b ^ e) % r.m) * 2 ^ r.k := by
  unfold powL
  split
  · rename_i h; subst h; simpa using oneRaw_eq hwf
  · split
    · rename_i h0 h1; subst h1; simp [Nat.mod_eq_of_lt hb]
    · rename_i h0 h1
      simp only []
      have he2 : 2 ≤ e := by omega
      have hwl := chooseWindowLen_pos W (bitLen e)
      generalize chooseWindowLen W (bitLen e) = wl at hwl
      rw [mulNormalized_eq hwf hb hb]
      obtain ⟨_, htab⟩ := oddPowTable_spec hwf hb (2 ^ (wl - 1))
      have hbl : 2 ≤ bitLen e := by
        have := lt_bitLen_of_le (show 2 ^ 1 ≤ e by simpa using he2)
        omega
      have htop := top_bit_split (show e ≠ 0 by omega)
      have hlt := lt_two_pow_bitLen e
      have hE : 2 = 2 * (e / 2 ^ (bitLen e - 2 + 1)) := by
        have : bitLen e - 2 + 1 = bitLen e - 1 := by omega
        rw [this]
        have h1 : e / 2 ^ (bitLen e - 1) = 1 := by
          have hp := Nat.two_pow_pos (bitLen e - 1)
          have e2 : 2 ^ bitLen e = 2 ^ (bitLen e - 1) * 2 := by rw [← Nat.pow_succ]; congr 1; omega
          apply Nat.le_antisymm
          · apply Nat.le_of_lt_succ
            rw [Nat.div_lt_iff_lt_mul hp]; omega
          · rw [Nat.le_div_iff_mul_le hp]; have := two_pow_bitLen_le (show e ≠ 0 by omega); omega
        rw [h1]
      have := powWindowLoop_eq hwf hb e wl hwl _ htab (bitLen e) (bitLen e - 2) 2 (by omega) hE
      have h2 : (b ^ 2) % r.m = (b * b) % r.m := by rw [Nat.pow_two]
      rw [h2] at this
      exact this

end Dashu.Model.NT
