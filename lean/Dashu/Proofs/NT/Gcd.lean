import Dashu.Model.NT.Gcd
import Dashu.Proofs.NT.Basic
import Mathlib.Data.Int.GCD
import Mathlib.Tactic.Ring
import Mathlib.Tactic.Linarith
/-
  C12 helper lemmas: the Euclid loop with cofactors, coefficient recovery of `gcd_ext_word/_dword`,
  the Bezout post-processing of `gcd_ext_large`, the Lehmer cofactor matrix.
-/
namespace Dashu.Model.NT
open Dashu.Model

/-- invariants of `unchecked_gcd_ext`'s loop: both remainders are the stated combinations of the
    inputs, the gcd is preserved, and the cofactors alternate in sign -/
theorem xgcdLoop_spec (A B : Nat) :
    ∀ (fuel lastR r : Nat) (lastS s lastT t : Int), r < fuel → 0 < r →
      (lastR : Int) = A * lastS + B * lastT → (r : Int) = A * s + B * t →
      Nat.gcd lastR r = Nat.gcd A B →
      ((0 ≤ lastS ∧ s ≤ 0 ∧ lastT ≤ 0 ∧ 0 ≤ t) ∨ (lastS ≤ 0 ∧ 0 ≤ s ∧ 0 ≤ lastT ∧ t ≤ 0)) →
      let res := xgcdLoop fuel lastR r lastS s lastT t
      res.1 = Nat.gcd A B ∧ (res.1 : Int) = A * res.2.1 + B * res.2.2 ∧
      ((res.2.1 ≤ 0 ∧ 0 ≤ res.2.2) ∨ (0 ≤ res.2.1 ∧ res.2.2 ≤ 0)) := by
  intro fuel
  induction fuel with
  | zero => intro lastR r _ _ _ _ h; omega
  | succ n ih =>
    intro lastR r lastS s lastT t hfuel hr h1 h2 hg hsign
    unfold xgcdLoop
    simp only []
    have hdm := Nat.div_add_mod lastR r
    have hmod : lastR - lastR / r * r = lastR % r := by
      have := Nat.mod_add_div lastR r
      rw [Nat.mul_comm] at this; omega
    rw [hmod]
    split
    · rename_i h0
      refine ⟨?_, h2, ?_⟩
      · rw [← hg, Nat.gcd_comm, Nat.gcd_rec, h0, Nat.gcd_zero_left]
      · rcases hsign with ⟨_, hs, _, ht⟩ | ⟨_, hs, _, ht⟩
        · left; exact ⟨hs, ht⟩
        · right; exact ⟨hs, ht⟩
    · rename_i h0
      have hlt : lastR % r < r := Nat.mod_lt _ hr
      have hq : (0 : Int) ≤ ((lastR / r : Nat) : Int) := Int.natCast_nonneg _
      apply ih r (lastR % r) s (lastS - ↑(lastR / r) * s) t (lastT - ↑(lastR / r) * t) (by omega)
        (Nat.pos_of_ne_zero h0) h2
      · have : ((lastR % r : Nat) : Int) = lastR - (lastR / r : Nat) * r := by
          have := congrArg (fun x : Nat => (x : Int)) hdm
          push_cast at this ⊢
          linarith
        rw [this, h1, h2]; ring
      · rw [← hg, Nat.gcd_comm lastR r, Nat.gcd_rec r lastR, Nat.gcd_comm]
      · rcases hsign with ⟨h1', h2', h3', h4'⟩ | ⟨h1', h2', h3', h4'⟩
        · right
          refine ⟨h2', ?_, h4', ?_⟩
          · have := mul_nonpos_of_nonneg_of_nonpos hq h2'; linarith
          · have := mul_nonneg hq h4'; linarith
        · left
          refine ⟨h2', ?_, h4', ?_⟩
          · have := mul_nonneg hq h2'; linarith
          · have := mul_nonpos_of_nonneg_of_nonpos hq h4'; linarith

/-- the loop started as the code starts it (`a ≥ b ≥ 1`) -/
theorem xgcdLoop_init {a b : Nat} (hb : 0 < b) :
    let res := xgcdLoop (b + 1) a b 1 0 0 1
    res.1 = Nat.gcd a b ∧ (res.1 : Int) = a * res.2.1 + b * res.2.2 ∧
    ((res.2.1 ≤ 0 ∧ 0 ≤ res.2.2) ∨ (0 ≤ res.2.1 ∧ res.2.2 ≤ 0)) :=
  xgcdLoop_spec a b (b + 1) a b 1 0 0 1 (by omega) hb (by ring) (by ring) rfl
    (Or.inl ⟨by decide, by decide, by decide, by decide⟩)

/-- a result triple of an extended gcd: value, Bezout identity, opposite signs -/
def IsXgcd (a b : Nat) (res : Nat × Int × Int) : Prop :=
  res.1 = Nat.gcd a b ∧ (res.1 : Int) = a * res.2.1 + b * res.2.2 ∧
  ((res.2.1 ≤ 0 ∧ 0 ≤ res.2.2) ∨ (0 ≤ res.2.1 ∧ res.2.2 ≤ 0))


-- ---------------------------------------------------------------- trailing zeros

theorem tzLoop_dvd : ∀ (fuel n : Nat), 0 < n → n ≤ fuel → 2 ^ tzLoop fuel n ∣ n := by
  intro fuel
  induction fuel with
  | zero => intro n h1 h2; omega
  | succ k ih =>
    intro n hn hle
    unfold tzLoop
    split
    · simp
    · rename_i h
      have hodd : n % 2 = 0 := by omega
      have hpos : 0 < n / 2 := by omega
      have := ih (n / 2) hpos (by omega)
      rw [Nat.pow_succ]
      obtain ⟨c, hc⟩ := this
      refine ⟨c, ?_⟩
      have h2 := Nat.div_add_mod n 2
      rw [hodd] at h2
      calc n = 2 * (n / 2) := by omega
        _ = 2 * (2 ^ tzLoop k (n / 2) * c) := by rw [← hc]
        _ = 2 ^ tzLoop k (n / 2) * 2 * c := by ring

theorem two_pow_tz_dvd {n : Nat} (hn : 0 < n) : 2 ^ trailingZeros n ∣ n :=
  tzLoop_dvd n n hn (Nat.le_refl _)

theorem tzLoop_odd : ∀ (fuel n : Nat), 0 < n → n ≤ fuel → (n / 2 ^ tzLoop fuel n) % 2 = 1 := by
  intro fuel
  induction fuel with
  | zero => intro n h1 h2; omega
  | succ k ih =>
    intro n hn hle
    unfold tzLoop
    split
    · rename_i h; simp; omega
    · rename_i h
      have hpos : 0 < n / 2 := by omega
      have := ih (n / 2) hpos (by omega)
      rw [Nat.pow_succ, Nat.mul_comm, ← Nat.div_div_eq_div_mul]
      exact this


theorem tz_maximal {w c : Nat} (hw : 0 < w) (hc : 2 ^ c ∣ w) : c ≤ trailingZeros w := by
  by_contra hlt
  have hodd := tzLoop_odd w w hw (Nat.le_refl _)
  change (w / 2 ^ trailingZeros w) % 2 = 1 at hodd
  generalize trailingZeros w = t at hlt hodd
  have hlt : t < c := by omega
  obtain ⟨d, hd⟩ := hc
  have hsplit : 2 ^ c = 2 ^ t * (2 * 2 ^ (c - t - 1)) := by
    rw [← Nat.pow_succ', ← Nat.pow_add]; congr 1; omega
  rw [hd, hsplit, Nat.mul_assoc, Nat.mul_div_cancel_left _ (Nat.two_pow_pos _), Nat.mul_assoc,
    Nat.mul_mod_right] at hodd
  omega


/-- characterisation of `trailing_zeros`: the exponent `t` with `2^t ∣ n` and `n / 2^t` odd -/
theorem tz_unique {n t : Nat} (hn : 0 < n) (hd : 2 ^ t ∣ n) (hodd : (n / 2 ^ t) % 2 = 1) :
    trailingZeros n = t := by
  have h1 := tz_maximal hn hd
  apply Nat.le_antisymm _ h1
  by_contra hlt
  have hlt : t < trailingZeros n := by omega
  obtain ⟨o, ho⟩ := two_pow_tz_dvd hn
  generalize trailingZeros n = z at hlt ho
  have hsplit : 2 ^ z = 2 ^ t * (2 * 2 ^ (z - t - 1)) := by
    rw [← Nat.pow_succ', ← Nat.pow_add]; congr 1; omega
  rw [ho, hsplit, Nat.mul_assoc, Nat.mul_div_cancel_left _ (Nat.two_pow_pos _), Nat.mul_assoc,
    Nat.mul_mod_right] at hodd
  omega

/-- `(a | b).trailing_zeros() = min(a.trailing_zeros(), b.trailing_zeros())` for non-zero operands -/
theorem tz_or {a b : Nat} (ha : 0 < a) (hb : 0 < b) :
    trailingZeros (a ||| b) = min (trailingZeros a) (trailingZeros b) := by
  have hda : 2 ^ trailingZeros a ∣ a := two_pow_tz_dvd ha
  have hdb : 2 ^ trailingZeros b ∣ b := two_pow_tz_dvd hb
  have hoa := tzLoop_odd a a ha (Nat.le_refl _)
  have hob := tzLoop_odd b b hb (Nat.le_refl _)
  change (a / 2 ^ trailingZeros a) % 2 = 1 at hoa
  change (b / 2 ^ trailingZeros b) % 2 = 1 at hob
  generalize trailingZeros a = ta at *
  generalize trailingZeros b = tb at *
  have hpos : 0 < a ||| b := by
    apply Nat.pos_of_ne_zero
    intro h
    have := Nat.or_eq_zero_iff.1 h
    omega
  have hmin_a : 2 ^ min ta tb ∣ a := Nat.dvd_trans (Nat.pow_dvd_pow 2 (Nat.min_le_left _ _)) hda
  have hmin_b : 2 ^ min ta tb ∣ b := Nat.dvd_trans (Nat.pow_dvd_pow 2 (Nat.min_le_right _ _)) hdb
  apply tz_unique hpos
  · apply Nat.dvd_of_mod_eq_zero
    rw [Nat.or_mod_two_pow, Nat.mod_eq_zero_of_dvd hmin_a, Nat.mod_eq_zero_of_dvd hmin_b]; rfl
  · rw [← Nat.shiftRight_eq_div_pow, Nat.shiftRight_or_distrib, Nat.shiftRight_eq_div_pow,
      Nat.shiftRight_eq_div_pow, Nat.or_mod_two_eq_one]
    rcases Nat.le_total ta tb with h | h
    · left; rw [Nat.min_eq_left h]; exact hoa
    · right; rw [Nat.min_eq_right h]; exact hob

theorem two_pow_min_tz_dvd {a b : Nat} (ha : 0 < a) (hb : 0 < b) :
    2 ^ min (trailingZeros a) (trailingZeros b) ∣ a ∧ 2 ^ min (trailingZeros a) (trailingZeros b) ∣ b :=
  ⟨Nat.dvd_trans (Nat.pow_dvd_pow 2 (Nat.min_le_left _ _)) (two_pow_tz_dvd ha),
   Nat.dvd_trans (Nat.pow_dvd_pow 2 (Nat.min_le_right _ _)) (two_pow_tz_dvd hb)⟩

-- ---------------------------------------------------------------- primitive gcd_ext

/-- scaling an extended gcd of the odd parts back by the common power of two -/
theorem IsXgcd.scale {a b sh : Nat} {g : Nat} {s t : Int} (h : IsXgcd a b (g, s, t)) :
    IsXgcd (a * 2 ^ sh) (b * 2 ^ sh) (g * 2 ^ sh, s, t) := by
  obtain ⟨h1, h2, h3⟩ := h
  simp only [] at h1 h2 h3
  refine ⟨?_, ?_, h3⟩
  · simp only []; rw [h1, Nat.gcd_mul_right]
  · simp only []; push_cast; rw [h2]; ring

/-- `impl ExtendedGcd for $U`: panics only for `(0, 0)`, otherwise an extended gcd whose cofactors
    have opposite signs (or one of them is zero) -/
theorem xgcdPrim_spec (a b : Nat) :
    (a = 0 ∧ b = 0 → xgcdPrim a b = .error .gcdZeroZero) ∧
    (¬ (a = 0 ∧ b = 0) → ∃ res, xgcdPrim a b = .ok res ∧ IsXgcd a b res) := by
  constructor
  · intro h; simp [xgcdPrim, h]
  · intro h
    unfold xgcdPrim
    rw [if_neg h]
    by_cases ha : a = 0
    · subst ha
      rw [if_pos rfl]
      exact ⟨_, rfl, by simp [IsXgcd]⟩
    · rw [if_neg ha]
      by_cases hb : b = 0
      · subst hb
        rw [if_pos rfl]
        exact ⟨_, rfl, by simp [IsXgcd]⟩
      · rw [if_neg hb]
        simp only []
        obtain ⟨⟨ca, hca⟩, ⟨cb, hcb⟩⟩ := two_pow_min_tz_dvd (Nat.pos_of_ne_zero ha) (Nat.pos_of_ne_zero hb)
        rw [tz_or (Nat.pos_of_ne_zero ha) (Nat.pos_of_ne_zero hb)]
        generalize min (trailingZeros a) (trailingZeros b) = sh at hca hcb
        have hp : 0 < 2 ^ sh := Nat.two_pow_pos _
        have ea : a / 2 ^ sh = ca := by rw [hca, Nat.mul_div_cancel_left _ hp]
        have eb : b / 2 ^ sh = cb := by rw [hcb, Nat.mul_div_cancel_left _ hp]
        rw [ea, eb]
        have hca' : a = ca * 2 ^ sh := by rw [hca, Nat.mul_comm]
        have hcb' : b = cb * 2 ^ sh := by rw [hcb, Nat.mul_comm]
        have hcapos : 0 < ca := by
          apply Nat.pos_of_ne_zero; intro h0; rw [h0] at hca'; simp at hca'; exact ha hca'
        have hcbpos : 0 < cb := by
          apply Nat.pos_of_ne_zero; intro h0; rw [h0] at hcb'; simp at hcb'; exact hb hcb'
        rw [hca', hcb']
        split
        · split
          · rename_i h1
            subst h1
            refine ⟨_, rfl, ?_⟩
            have : IsXgcd ca 1 (1, 0, 1) := by simp [IsXgcd]
            simpa using this.scale (sh := sh)
          · have := xgcdLoop_init (a := ca) hcbpos
            generalize xgcdLoop (cb + 1) ca cb 1 0 0 1 = res at this
            obtain ⟨g, s, t⟩ := res
            exact ⟨_, rfl, IsXgcd.scale this⟩
        · split
          · rename_i h1
            subst h1
            refine ⟨_, rfl, ?_⟩
            have : IsXgcd 1 cb (1, 1, 0) := by simp [IsXgcd]
            simpa using this.scale (sh := sh)
          · have := xgcdLoop_init (a := cb) hcapos
            generalize xgcdLoop (ca + 1) cb ca 1 0 0 1 = res at this
            obtain ⟨g, s, t⟩ := res
            obtain ⟨h1, h2, h3⟩ := this
            simp only [] at h1 h2 h3
            refine ⟨_, rfl, IsXgcd.scale ⟨?_, ?_, ?_⟩⟩
            · simp only []; rw [h1, Nat.gcd_comm]
            · simp only []; rw [h2]; ring
            · simp only []; rcases h3 with ⟨x, y⟩ | ⟨x, y⟩
              · right; exact ⟨y, x⟩
              · left; exact ⟨y, x⟩

/-- `gcd_ext_word` / `gcd_ext_dword`: with `(r, s, t)` an extended gcd of `(rhs, rem)` whose
    cofactors have opposite signs, `|b| = q·|t| + |s|` with the stated sign is `s − t·q`. -/
theorem recover_b {s t : Int} {q : Nat} (hsign : (s ≤ 0 ∧ 0 ≤ t) ∨ (0 ≤ s ∧ t ≤ 0)) (hst : ¬ (s = 0 ∧ t = 0)) :
    (if (if s.natAbs = 0 then !(decide (t < 0)) else decide (s < 0)) then
        -((q * t.natAbs + s.natAbs : Nat) : Int) else ((q * t.natAbs + s.natAbs : Nat) : Int))
      = s - t * q := by
  have hq : (0 : Int) ≤ (q : Int) := Int.natCast_nonneg _
  have cast : ((q * t.natAbs + s.natAbs : Nat) : Int) = q * |t| + |s| := by
    push_cast; rfl
  rw [cast]
  rcases hsign with ⟨hs, ht⟩ | ⟨hs, ht⟩
  · -- s ≤ 0 ≤ t : b = s − t·q ≤ 0
    have e1 : |s| = -s := abs_of_nonpos hs
    have e2 : |t| = t := abs_of_nonneg ht
    by_cases hs0 : s.natAbs = 0
    · have hs' : s = 0 := by omega
      have ht' : ¬ t < 0 := by omega
      simp only [hs0, if_true, ht', decide_false, Bool.not_false]
      rw [e2, e1, hs']; ring
    · have hs' : s < 0 := by omega
      simp only [hs0, if_false, hs', decide_true, if_true]
      rw [e1, e2]; ring
  · have e1 : |s| = s := abs_of_nonneg hs
    have e2 : |t| = -t := abs_of_nonpos ht
    by_cases hs0 : s.natAbs = 0
    · have hs' : s = 0 := by omega
      have ht' : t < 0 := by
        rcases lt_or_eq_of_le ht with h | h
        · exact h
        · exact absurd ⟨hs', h⟩ hst
      simp only [hs0, if_true, ht', decide_true, Bool.not_true]
      rw [e2, e1, hs']; simp; ring
    · have hs' : ¬ s < 0 := by omega
      simp only [hs0, if_false, hs', decide_false, Bool.false_eq_true]
      rw [e1, e2]; ring

/-- Bezout post-processing of `gcd_ext_large`: for any kernel result meeting the contract the
    quotient `(g − rhs·b)/lhs` is exact and `lhs·a + rhs·b = g`. -/
theorem gcdExtPost_bezout {lhs rhs : Nat} (hl : 0 < lhs) (k : Nat × Nat × Bool)
    (hk : LehmerExtContract lhs rhs k) :
    let res := gcdExtPost lhs rhs k
    res.1 = Nat.gcd lhs rhs ∧ (lhs : Int) * res.2.1 + (rhs : Int) * res.2.2 = res.1 := by
  obtain ⟨g, bMag, bNeg⟩ := k
  obtain ⟨hg, hc⟩ := hk
  simp only [] at hg hc
  unfold gcdExtPost
  simp only []
  refine ⟨hg, ?_⟩
  cases bNeg with
  | true =>
    simp only [if_true] at hc ⊢
    obtain ⟨c, hc⟩ := hc
    rw [hc, Nat.mul_div_cancel_left _ hl]
    have : ((rhs * bMag + g : Nat) : Int) = ((lhs * c : Nat) : Int) := by rw [hc]
    push_cast at this ⊢
    linarith
  | false =>
    simp only [Bool.false_eq_true, if_false] at hc ⊢
    obtain ⟨hle, c, hc⟩ := hc
    rw [hc, Nat.mul_div_cancel_left _ hl]
    have h2 : rhs * bMag = lhs * c + g := by omega
    have : ((rhs * bMag : Nat) : Int) = ((lhs * c + g : Nat) : Int) := by rw [h2]
    push_cast at this ⊢
    linarith

/-- the frontier kernel (plain Euclid) meets the contract of `gcd_ext_in_place` -/
theorem lehmerExtFrontier_contract {lhs rhs : Nat} (hr : 0 < rhs) (hlt : rhs < lhs) :
    LehmerExtContract lhs rhs (lehmerExtFrontier lhs rhs) := by
  obtain ⟨h1, h2, h3⟩ := xgcdLoop_init (a := lhs) hr
  unfold lehmerExtFrontier LehmerExtContract
  generalize xgcdLoop (rhs + 1) lhs rhs 1 0 0 1 = res at h1 h2 h3
  obtain ⟨g, s, t⟩ := res
  simp only [] at h1 h2 h3 ⊢
  refine ⟨h1, ?_⟩
  have hgpos : 0 < g := by rw [h1]; exact Nat.gcd_pos_of_pos_right _ hr
  have hgle : g ≤ rhs := by rw [h1]; exact Nat.le_of_dvd hr (Nat.gcd_dvd_right _ _)
  by_cases ht : t < 0
  · simp only [ht, decide_true, if_true]
    have hs : 0 ≤ s := by rcases h3 with ⟨_, h⟩ | ⟨h, _⟩ <;> omega
    have e : |t| = -t := abs_of_neg ht
    refine ⟨s.toNat, ?_⟩
    have : ((rhs * t.natAbs + g : Nat) : Int) = ((lhs * s.toNat : Nat) : Int) := by
      push_cast; rw [e, Int.toNat_of_nonneg hs]; linarith
    exact_mod_cast this
  · simp only [ht, decide_false, Bool.false_eq_true, if_false]
    have ht0 : 0 ≤ t := by omega
    have e : |t| = t := abs_of_nonneg ht0
    have hs : s ≤ 0 := by
      rcases h3 with ⟨h, _⟩ | ⟨hs0, ht'⟩
      · exact h
      · -- t = 0: g = lhs·s with 0 < g ≤ rhs < lhs is impossible unless s ≤ 0
        have ht'' : t = 0 := by omega
        by_contra hpos
        have hpos : 1 ≤ s := by omega
        rw [ht''] at h2
        have : (lhs : Int) ≤ lhs * s := le_mul_of_one_le_right (Int.natCast_nonneg _) hpos
        have h5 : (g : Int) ≤ rhs := by exact_mod_cast hgle
        have h6 : (rhs : Int) < lhs := by exact_mod_cast hlt
        linarith
    have hge : (g : Int) ≤ rhs * t := by
      have : (lhs : Int) * s ≤ 0 := mul_nonpos_of_nonneg_of_nonpos (Int.natCast_nonneg _) hs
      linarith
    have hsub : g ≤ rhs * t.natAbs := by
      have : ((g : Nat) : Int) ≤ ((rhs * t.natAbs : Nat) : Int) := by push_cast; rw [e]; exact hge
      exact_mod_cast this
    refine ⟨hsub, (-s).toNat, ?_⟩
    have hs' : 0 ≤ -s := by omega
    have : ((rhs * t.natAbs - g : Nat) : Int) = ((lhs * (-s).toNat : Nat) : Int) := by
      rw [Nat.cast_sub hsub]; push_cast; rw [e, Int.toNat_of_nonneg hs']; linarith
    exact_mod_cast this

-- ---------------------------------------------------------------- the two-width Euclid of u128

theorem xgcdLoopWide_spec (H A B : Nat) :
    ∀ (fuel lastR r : Nat) (lastS s lastT t : Int), r < fuel → 0 < r →
      (lastR : Int) = A * lastS + B * lastT → (r : Int) = A * s + B * t →
      Nat.gcd lastR r = Nat.gcd A B →
      ((0 ≤ lastS ∧ s ≤ 0 ∧ lastT ≤ 0 ∧ 0 ≤ t) ∨ (lastS ≤ 0 ∧ 0 ≤ s ∧ 0 ≤ lastT ∧ t ≤ 0)) →
      let res := xgcdLoopWide H fuel lastR r lastS s lastT t
      res.1 = Nat.gcd A B ∧ (res.1 : Int) = A * res.2.1 + B * res.2.2 ∧
      ((res.2.1 ≤ 0 ∧ 0 ≤ res.2.2) ∨ (0 ≤ res.2.1 ∧ res.2.2 ≤ 0)) := by
  intro fuel
  induction fuel with
  | zero => intro lastR r _ _ _ _ h; omega
  | succ n ih =>
    intro lastR r lastS s lastT t hfuel hr h1 h2 hg hsign
    unfold xgcdLoopWide
    simp only []
    have hdm := Nat.div_add_mod lastR r
    have hmod : lastR - lastR / r * r = lastR % r := by
      have := Nat.mod_add_div lastR r
      rw [Nat.mul_comm] at this; omega
    rw [hmod]
    have hq : (0 : Int) ≤ ((lastR / r : Nat) : Int) := Int.natCast_nonneg _
    have hlt : lastR % r < r := Nat.mod_lt _ hr
    have hdone : lastR % r = 0 → (r = Nat.gcd A B ∧ (r : Int) = A * s + B * t ∧
        ((s ≤ 0 ∧ 0 ≤ t) ∨ (0 ≤ s ∧ t ≤ 0))) := by
      intro h0
      refine ⟨?_, h2, ?_⟩
      · rw [← hg, Nat.gcd_comm, Nat.gcd_rec, h0, Nat.gcd_zero_left]
      · rcases hsign with ⟨_, hs, _, ht⟩ | ⟨_, hs, _, ht⟩
        · left; exact ⟨hs, ht⟩
        · right; exact ⟨hs, ht⟩
    have hrem : ((lastR % r : Nat) : Int) = A * (lastS - ↑(lastR / r) * s) + B * (lastT - ↑(lastR / r) * t) := by
      have : ((lastR % r : Nat) : Int) = lastR - (lastR / r : Nat) * r := by
        have := congrArg (fun x : Nat => (x : Int)) hdm
        push_cast at this ⊢
        linarith
      rw [this, h1, h2]; ring
    have hg' : Nat.gcd r (lastR % r) = Nat.gcd A B := by
      rw [← hg, Nat.gcd_comm lastR r, Nat.gcd_rec r lastR, Nat.gcd_comm]
    have hsign' : ((0 ≤ s ∧ (lastS - ↑(lastR / r) * s) ≤ 0 ∧ t ≤ 0 ∧ 0 ≤ (lastT - ↑(lastR / r) * t)) ∨
        (s ≤ 0 ∧ 0 ≤ (lastS - ↑(lastR / r) * s) ∧ 0 ≤ t ∧ (lastT - ↑(lastR / r) * t) ≤ 0)) := by
      rcases hsign with ⟨h1', h2', h3', h4'⟩ | ⟨h1', h2', h3', h4'⟩
      · right
        refine ⟨h2', ?_, h4', ?_⟩
        · have := mul_nonpos_of_nonneg_of_nonpos hq h2'; linarith
        · have := mul_nonneg hq h4'; linarith
      · left
        refine ⟨h2', ?_, h4', ?_⟩
        · have := mul_nonneg hq h2'; linarith
        · have := mul_nonpos_of_nonneg_of_nonpos hq h4'; linarith
    split
    · -- still wider than the half width: a plain Euclid step
      split
      · rename_i h0; exact hdone h0
      · rename_i h0
        exact ih r (lastR % r) s _ t _ (by omega) (Nat.pos_of_ne_zero h0) h2 hrem hg' hsign'
    · split
      · rename_i h0; exact hdone h0
      · rename_i h0
        -- forward to the half-width loop on (r, new_r) and recombine
        have hin := xgcdLoop_init (a := r) (b := lastR % r) (Nat.pos_of_ne_zero h0)
        generalize xgcdLoop (lastR % r + 1) r (lastR % r) 1 0 0 1 = inner at hin
        obtain ⟨g, cx, cy⟩ := inner
        obtain ⟨i1, i2, i3⟩ := hin
        simp only [] at i1 i2 i3 ⊢
        refine ⟨by rw [i1, hg'], ?_, ?_⟩
        · rw [i2, h2, hrem]; ring
        · rcases hsign' with ⟨s1, s2, t1, t2⟩ | ⟨s1, s2, t1, t2⟩ <;> rcases i3 with ⟨c1, c2⟩ | ⟨c1, c2⟩
          · left
            constructor
            · have := mul_nonpos_of_nonpos_of_nonneg c1 s1
              have := mul_nonpos_of_nonneg_of_nonpos c2 s2; linarith
            · have := mul_nonneg_of_nonpos_of_nonpos c1 t1
              have := mul_nonneg c2 t2; linarith
          · right
            constructor
            · have := mul_nonneg c1 s1
              have := mul_nonneg_of_nonpos_of_nonpos c2 s2; linarith
            · have := mul_nonpos_of_nonneg_of_nonpos c1 t1
              have := mul_nonpos_of_nonpos_of_nonneg c2 t2; linarith
          · right
            constructor
            · have := mul_nonneg_of_nonpos_of_nonpos c1 s1
              have := mul_nonneg c2 s2; linarith
            · have := mul_nonpos_of_nonpos_of_nonneg c1 t1
              have := mul_nonpos_of_nonneg_of_nonpos c2 t2; linarith
          · left
            constructor
            · have := mul_nonpos_of_nonneg_of_nonpos c1 s1
              have := mul_nonpos_of_nonpos_of_nonneg c2 s2; linarith
            · have := mul_nonneg c1 t1
              have := mul_nonneg_of_nonpos_of_nonpos c2 t2; linarith

theorem xgcdLoopWide_init (H : Nat) {a b : Nat} (hb : 0 < b) :
    let res := xgcdLoopWide H (b + 1) a b 1 0 0 1
    res.1 = Nat.gcd a b ∧ (res.1 : Int) = a * res.2.1 + b * res.2.2 ∧
    ((res.2.1 ≤ 0 ∧ 0 ≤ res.2.2) ∨ (0 ≤ res.2.1 ∧ res.2.2 ≤ 0)) :=
  xgcdLoopWide_spec H a b (b + 1) a b 1 0 0 1 (by omega) hb (by ring) (by ring) rfl
    (Or.inl ⟨by decide, by decide, by decide, by decide⟩)

/-- `impl ExtendedGcd for u128` -/
theorem xgcdPrimWide_spec (H a b : Nat) :
    (a = 0 ∧ b = 0 → xgcdPrimWide H a b = .error .gcdZeroZero) ∧
    (¬ (a = 0 ∧ b = 0) → ∃ res, xgcdPrimWide H a b = .ok res ∧ IsXgcd a b res) := by
  constructor
  · intro h; simp [xgcdPrimWide, h]
  · intro h
    unfold xgcdPrimWide
    rw [if_neg h]
    by_cases ha : a = 0
    · subst ha
      rw [if_pos rfl]
      exact ⟨_, rfl, by simp [IsXgcd]⟩
    · rw [if_neg ha]
      by_cases hb : b = 0
      · subst hb
        rw [if_pos rfl]
        exact ⟨_, rfl, by simp [IsXgcd]⟩
      · rw [if_neg hb]
        simp only []
        obtain ⟨⟨ca, hca⟩, ⟨cb, hcb⟩⟩ := two_pow_min_tz_dvd (Nat.pos_of_ne_zero ha) (Nat.pos_of_ne_zero hb)
        rw [tz_or (Nat.pos_of_ne_zero ha) (Nat.pos_of_ne_zero hb)]
        generalize min (trailingZeros a) (trailingZeros b) = sh at hca hcb
        have hp : 0 < 2 ^ sh := Nat.two_pow_pos _
        have ea : a / 2 ^ sh = ca := by rw [hca, Nat.mul_div_cancel_left _ hp]
        have eb : b / 2 ^ sh = cb := by rw [hcb, Nat.mul_div_cancel_left _ hp]
        rw [ea, eb]
        have hca' : a = ca * 2 ^ sh := by rw [hca, Nat.mul_comm]
        have hcb' : b = cb * 2 ^ sh := by rw [hcb, Nat.mul_comm]
        have hcapos : 0 < ca := by
          apply Nat.pos_of_ne_zero; intro h0; rw [h0] at hca'; simp at hca'; exact ha hca'
        have hcbpos : 0 < cb := by
          apply Nat.pos_of_ne_zero; intro h0; rw [h0] at hcb'; simp at hcb'; exact hb hcb'
        rw [hca', hcb']
        split
        · split
          · rename_i h1
            subst h1
            refine ⟨_, rfl, ?_⟩
            have : IsXgcd ca 1 (1, 0, 1) := by simp [IsXgcd]
            simpa using this.scale (sh := sh)
          · have := xgcdLoopWide_init H (a := ca) hcbpos
            generalize xgcdLoopWide H (cb + 1) ca cb 1 0 0 1 = res at this
            obtain ⟨g, s, t⟩ := res
            exact ⟨_, rfl, IsXgcd.scale this⟩
        · split
          · rename_i h1
            subst h1
            refine ⟨_, rfl, ?_⟩
            have : IsXgcd 1 cb (1, 1, 0) := by simp [IsXgcd]
            simpa using this.scale (sh := sh)
          · have := xgcdLoopWide_init H (a := cb) hcapos
            generalize xgcdLoopWide H (ca + 1) cb ca 1 0 0 1 = res at this
            obtain ⟨g, s, t⟩ := res
            obtain ⟨h1, h2, h3⟩ := this
            simp only [] at h1 h2 h3
            refine ⟨_, rfl, IsXgcd.scale ⟨?_, ?_, ?_⟩⟩
            · simp only []; rw [h1, Nat.gcd_comm]
            · simp only []; rw [h2]; ring
            · simp only []; rcases h3 with ⟨x, y⟩ | ⟨x, y⟩
              · right; exact ⟨y, x⟩
              · left; exact ⟨y, x⟩

end Dashu.Model.NT
