import Dashu.Proofs.NT.ModInvLargeB
import Dashu.Proofs.Int.Repr
import Dashu.Proofs.Int.Bits
import Dashu.Proofs.Int.Cmp
/-
  C13 <-> C01 link for `integer/src/modular/reducer.rs` (round 7): `impl Reducer<UBig> for ConstDivisor` —
  `check`, `reduce_once`, `reduce_negate`, `add`, `dbl`, `sub`, `neg` written on C01's MIRRORED `UBig` representation
  (`TRepr`: `UBig + UBig` = `TRepr.add`, `UBig - UBig` = `TRepr.sub` with the `NegativeUBig` panic as a value,
  `UBig << 1` = `TRepr.shl`, `Ord` = `TRepr.cmp`; the multi-word arms call `sub_large`, `sub_large_dword`,
  `sub_large_ref_val`, `cmp_in_place` directly, as the code does).  Proved: on checked (`Valid`) operands no subtraction
  panics and the results are canonical with the values `rAdd / rSub / rNeg` of `Model/NT/Modular.lean` (what the driver
  executes and `Props.C13.reducer_ops` is about).  These definitions are NOT executed by the driver (round 7 forbids driver
  changes); they are tied to the executed ones by the theorem only.
-/
namespace Dashu.Model.NT
open Dashu.Model

/-- `Reducer::check(&self, target: &UBig)` on the representation: `(Single, RefSmall)` = `shrink_dword` then the word check,
    `(Single | Double, RefLarge)` = false, `(Large, RefSmall)` = true, `(Large, RefLarge)` =
    `cmp_in_place(words, &d.normalized_divisor).is_lt() && words[0] & ones_word(d.shift) == 0` -/
def rCheckU (W : Nat) (r : Ring) (t : TRepr) : Bool :=
  match r.kind, t with
  | .single, .small dw => decide (dw < 2 ^ W) && rCheck r dw
  | .single, .large _ => false
  | .double, .small dw => rCheck r dw
  | .double, .large _ => false
  | .large, .small _ => true
  | .large, .large ws => cmpInPlace ws (r.ndWords W) == .lt && ws.headD 0 % 2 ^ r.k == 0

/-- `reduce_once(&self, target: UBig)` -/
def reduceOnceU (W : Nat) (r : Ring) (t : TRepr) : Except PanicKind TRepr :=
  if rCheckU W r t then .ok t
  else match r.kind with
    | .large =>
      match t with
      | .small s => .ok (.small s)                          -- UBig::from_dword(s): "no need to reduce"
      | .large s => subLarge W s (r.ndWords W)              -- UBig(sub_large(s, &d.normalized_divisor))
    | _ => t.sub W (ofNat W r.M)                            -- target - d.normalized_divisor()

/-- `reduce_negate(&self, target: UBig)` -/
def reduceNegateU (W : Nat) (r : Ring) (t : TRepr) : Except PanicKind TRepr :=
  match r.kind with
  | .large =>
    match t with
    | .small s => .ok (subLargeDword W (r.ndWords W) s)     -- sub_large_dword(d.normalized_divisor.as_ref().into(), s)
    | .large s => subLargeRefVal W (r.ndWords W) s          -- sub_large_ref_val(&d.normalized_divisor, s)
  | _ => (ofNat W r.M).sub W t                              -- d.normalized_divisor() - target

/-- `Reducer::add`: `self.reduce_once(lhs + rhs)` (`&UBig + &UBig`) -/
def rAddU (W : Nat) (r : Ring) (a b : TRepr) : Except PanicKind TRepr := reduceOnceU W r (a.add W b 0)

/-- `Reducer::dbl`: `self.reduce_once(target << 1)` -/
def rDblU (W : Nat) (r : Ring) (a : TRepr) : Except PanicKind TRepr := reduceOnceU W r (a.shl W 1)

/-- `Reducer::sub`: `if lhs >= rhs { lhs - rhs } else { self.reduce_negate(rhs - lhs) }` -/
def rSubU (W : Nat) (r : Ring) (a b : TRepr) : Except PanicKind TRepr :=
  if a.cmp b != .lt then a.sub W b
  else match b.sub W a with
    | .error e => .error e
    | .ok d => reduceNegateU W r d

/-- `Reducer::neg`: `if target.is_zero() { target } else { self.reduce_negate(target) }` -/
def rNegU (W : Nat) (r : Ring) (a : TRepr) : Except PanicKind TRepr :=
  if a.isZero then .ok a else reduceNegateU W r a

-- ---------------------------------------------------------------- proofs

theorem ofNat_M_large {W : Nat} {r : Ring} (hwf : r.WF W) (hk : r.kind = .large) :
    ofNat W r.M = .large (r.ndWords W) := by
  have h1 := hwf.m_large hk
  have h2 : r.m ≤ r.M := Nat.le_mul_of_pos_right _ (Nat.two_pow_pos _)
  unfold ofNat Ring.ndWords
  rw [if_neg (by omega)]

theorem two_mul_comm_pow (W : Nat) : 2 ^ (W * 2) = 2 ^ (2 * W) := by rw [Nat.mul_comm]

/-- `check` on the representation decides `target < M ∧ low shift bits zero` on canonical values whose low bits are zero -/
theorem rCheckU_eq {W : Nat} {r : Ring} (hwf : r.WF W) (hkW : r.kind = .large → r.k ≤ W) {t : TRepr} (ht : t.Canon W)
    (h0 : t.value W % 2 ^ r.k = 0) : rCheckU W r t = rCheck r (t.value W) := by
  have hW : 1 ≤ W := hwf.hW
  have hMlt := hwf.Mlt
  obtain ⟨k1, k2, k3⟩ := hwf.kind_n
  unfold rCheckU rCheck
  cases hk : r.kind with
  | single =>
    have hn := k1 hk
    rw [hn, Nat.mul_one] at hMlt
    cases t with
    | small dw =>
      simp only [TRepr.value] at h0 ⊢
      by_cases h : dw < r.M
      · have : dw < 2 ^ W := by omega
        simp [h, this, h0]
      · simp [h]
    | large ws =>
      have hge := ht.large_ge
      have : 2 ^ W ≤ 2 ^ (2 * W) := Nat.pow_le_pow_right (by omega) (by omega)
      simp only [TRepr.value]
      have : ¬ val W ws < r.M := by omega
      simp [this]
  | double =>
    have hn := k2 hk
    rw [hn, two_mul_comm_pow] at hMlt
    cases t with
    | small dw => rfl
    | large ws =>
      have hge := ht.large_ge
      simp only [TRepr.value]
      have : ¬ val W ws < r.M := by omega
      simp [this]
  | large =>
    have hm := hwf.m_large hk
    have h2 : r.m ≤ r.M := Nat.le_mul_of_pos_right _ (Nat.two_pow_pos _)
    cases t with
    | small dw =>
      have hd : dw < 2 ^ (2 * W) := ht
      simp only [TRepr.value] at h0 ⊢
      have : dw < r.M := by omega
      simp [this, h0]
    | large ws =>
      have hc : (TRepr.large (r.ndWords W)).Canon W := by
        rw [← ofNat_M_large hwf hk]; exact ofNat_canon W hW r.M
      have hv : val W (r.ndWords W) = r.M := (ndWords_spec hwf (by have := k3 hk; omega)).2.2
      have e := TRepr.cmp_spec W (.large ws) (.large (r.ndWords W)) ht hc
      simp only [TRepr.cmp, TRepr.value, hv] at e
      simp only [TRepr.value] at h0 ⊢
      rw [e, head_mod (hkW hk) ws]
      by_cases h : val W ws < r.M
      · simp [h, h0, compare_lt_iff_lt.mpr h]
      · have : compare (val W ws) r.M ≠ .lt := fun c => h (compare_lt_iff_lt.mp c)
        simp [h, this, h0]

/-- whenever `check` fails, `reduce_once` is C01's `UBig - UBig` against the normalised divisor -/
theorem reduceOnceU_spec {W : Nat} {r : Ring} (hwf : r.WF W) (hkW : r.kind = .large → r.k ≤ W) {t : TRepr} (ht : t.Canon W)
    (h0 : t.value W % 2 ^ r.k = 0) (hlt : t.value W < 2 * r.M) :
    ∃ c, reduceOnceU W r t = .ok c ∧ c.Canon W ∧ c.value W = reduceOnce r (t.value W) := by
  have hW : 1 ≤ W := hwf.hW
  unfold reduceOnceU reduceOnce
  rw [rCheckU_eq hwf hkW ht h0]
  by_cases hc : rCheck r (t.value W) = true
  · rw [if_pos hc, if_pos hc]; exact ⟨t, rfl, ht, rfl⟩
  · rw [if_neg hc, if_neg hc]
    have hge : r.M ≤ t.value W := by
      unfold rCheck at hc
      by_contra h
      exact hc (by simp [Nat.lt_of_not_le h, h0])
    have hsub : ∃ c, t.sub W (ofNat W r.M) false = .ok c ∧ c.Canon W ∧ c.value W = t.value W - r.M := by
      obtain ⟨c, e1, e2, e3⟩ := TRepr.sub_ok W t (ofNat W r.M) false ht (ofNat_canon W hW r.M)
        (by rw [ofNat_value W hW]; exact hge)
      rw [ofNat_value W hW] at e2
      exact ⟨c, e1, e3, by omega⟩
    cases hk : r.kind with
    | single => exact hsub
    | double => exact hsub
    | large =>
      cases t with
      | small s =>
        exfalso
        have hm := hwf.m_large hk
        have h2 : r.m ≤ r.M := Nat.le_mul_of_pos_right _ (Nat.two_pow_pos _)
        have hd : s < 2 ^ (2 * W) := ht
        simp only [TRepr.value] at hge
        omega
      | large s =>
        rw [ofNat_M_large hwf hk] at hsub
        exact hsub

/-- `reduce_negate` is C01's `UBig - UBig` from the normalised divisor; it does not panic on `target ≤ M` -/
theorem reduceNegateU_spec {W : Nat} {r : Ring} (hwf : r.WF W) {t : TRepr} (ht : t.Canon W) (hle : t.value W ≤ r.M) :
    ∃ c, reduceNegateU W r t = .ok c ∧ c.Canon W ∧ c.value W = r.M - t.value W := by
  have hW : 1 ≤ W := hwf.hW
  have hsub : ∀ rv, ∃ c, (ofNat W r.M).sub W t rv = .ok c ∧ c.Canon W ∧ c.value W = r.M - t.value W := by
    intro rv
    obtain ⟨c, e1, e2, e3⟩ := TRepr.sub_ok W (ofNat W r.M) t rv (ofNat_canon W hW r.M) ht
      (by rw [ofNat_value W hW]; exact hle)
    rw [ofNat_value W hW] at e2
    exact ⟨c, e1, e3, by omega⟩
  unfold reduceNegateU
  cases hk : r.kind with
  | single => exact hsub false
  | double => exact hsub false
  | large =>
    have h := hsub true
    rw [ofNat_M_large hwf hk] at h
    cases t with
    | small s => exact h
    | large s => exact h

end Dashu.Model.NT
