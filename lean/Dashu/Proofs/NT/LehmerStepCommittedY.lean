import Dashu.Proofs.NT.LehmerStepCommitted
/-
  C12 (round 7): the second combined value of `lehmer_guess` never exceeds `y` — `d·y − c·x ≤ y` at every state of the
  guess loop (it starts at `y` and every second half round subtracts `q2·(a1·x − b1·y) ≥ 0`).  This derives the last
  value hypothesis of `lehmer_step_full_longer` / `_eqlen` (`d·Y − c·X < 2^(W·y.len())`, the function's own
  `debug_assert_eq!(y_carry, c * x_top)`) from the guess.
-/
namespace Dashu.Model.NT
open Dashu.Model

/-- `GuessInv` plus: the `y` combination of the FULL operands is at most `y` -/
def GuessYle (x y k xbar ybar a b c d : Nat) : Prop :=
  GuessInv (x / 2 ^ k) (y / 2 ^ k) xbar ybar a b c d ∧ (d : Int) * y - (c : Int) * x ≤ y

theorem lehmerGuess_yle (lim x y k : Nat) :
    ∀ (fuel xbar ybar a b c d : Nat), GuessYle x y k xbar ybar a b c d →
      let r := lehmerGuess lim fuel xbar ybar a b c d
      ∃ xb yb, GuessYle x y k xb yb r.1 r.2.1 r.2.2.1 r.2.2.2 := by
  intro fuel
  induction fuel with
  | zero => intro xbar ybar a b c d h; exact ⟨xbar, ybar, by simpa [lehmerGuess] using h⟩
  | succ n ih =>
    intro xbar ybar a b c d h
    have keep : ∃ xb yb, GuessYle x y k xb yb a b c d := ⟨xbar, ybar, h⟩
    obtain ⟨hinv, hyle⟩ := h
    obtain ⟨hdet, hx, hy, hbx, hcy⟩ := hinv
    unfold lehmerGuess
    simp only []
    by_cases h0 : ybar = 0
    · rw [if_pos h0]; exact keep
    rw [if_neg h0]
    by_cases h1 : xbar / ybar > lim
    · rw [if_pos h1]; exact keep
    rw [if_neg h1]
    by_cases h2 : a + xbar / ybar * c > lim ∨ b + xbar / ybar * d > lim
    · rw [if_pos h2]; exact keep
    rw [if_neg h2]
    by_cases h3 : xbar - xbar / ybar * ybar < b + xbar / ybar * d ∨
        xbar - xbar / ybar * ybar + (a + xbar / ybar * c) > ybar - c
    · rw [if_pos h3]; exact keep
    rw [if_neg h3]
    have hqle : xbar / ybar * ybar ≤ xbar := Nat.div_mul_le_self _ _
    generalize hq : xbar / ybar = q at *
    have h3a : b + q * d ≤ xbar - q * ybar := by omega
    have firstInv : GuessInv (x / 2 ^ k) (y / 2 ^ k) (xbar - q * ybar) ybar (a + q * c) (b + q * d) c d := by
      refine ⟨?_, ?_, hy, h3a, hcy⟩
      · simp only [Nat.cast_add, Nat.cast_mul]; linarith
      · rw [Nat.cast_sub hqle]; simp only [Nat.cast_add, Nat.cast_mul]; rw [hx, hy]; ring
    have first : GuessYle x y k (xbar - q * ybar) ybar (a + q * c) (b + q * d) c d := ⟨firstInv, hyle⟩
    by_cases h4 : xbar - q * ybar = b + q * d
    · rw [if_pos h4]; exact ⟨_, _, first⟩
    rw [if_neg h4]
    by_cases h5 : ybar / (xbar - q * ybar) > lim
    · rw [if_pos h5]; exact ⟨_, _, first⟩
    rw [if_neg h5]
    have fnn := guessInv_nonneg firstInv
    generalize hx1 : xbar - q * ybar = x1 at *
    generalize ha1 : a + q * c = a1 at *
    generalize hb1 : b + q * d = b1 at *
    by_cases h6 : d + ybar / x1 * b1 > lim ∨ c + ybar / x1 * a1 > lim
    · rw [if_pos h6]; exact ⟨_, _, first⟩
    rw [if_neg h6]
    by_cases h7 : ybar - ybar / x1 * x1 < c + ybar / x1 * a1 ∨
        ybar - ybar / x1 * x1 + (d + ybar / x1 * b1) > x1 - c
    · rw [if_pos h7]; exact ⟨_, _, first⟩
    rw [if_neg h7]
    have hq2le : ybar / x1 * x1 ≤ ybar := Nat.div_mul_le_self _ _
    generalize hq2 : ybar / x1 = q2 at *
    obtain ⟨fdet, fx, fy, fbx, fcy⟩ := firstInv
    have hq20 : (0 : Int) ≤ (q2 : Int) := Int.natCast_nonneg _
    have secondInv : GuessInv (x / 2 ^ k) (y / 2 ^ k) x1 (ybar - q2 * x1) a1 b1 (c + q2 * a1) (d + q2 * b1) := by
      refine ⟨?_, fx, ?_, fbx, by omega⟩
      · simp only [Nat.cast_add, Nat.cast_mul]; linarith
      · rw [Nat.cast_sub hq2le]; simp only [Nat.cast_add, Nat.cast_mul]; rw [fx, fy]; ring
    have hy2 : ((d + q2 * b1 : Nat) : Int) * y - ((c + q2 * a1 : Nat) : Int) * x
        = ((d : Int) * y - c * x) - q2 * ((a1 : Int) * x - b1 * y) := by
      simp only [Nat.cast_add, Nat.cast_mul]; ring
    have hqx : (0 : Int) ≤ q2 * ((a1 : Int) * x - b1 * y) := mul_nonneg hq20 fnn.1
    have second : GuessYle x y k x1 (ybar - q2 * x1) a1 b1 (c + q2 * a1) (d + q2 * b1) :=
      ⟨secondInv, by rw [hy2]; linarith⟩
    by_cases h8 : ybar - q2 * x1 = c + q2 * a1
    · rw [if_pos h8]; exact ⟨_, _, second⟩
    rw [if_neg h8]
    exact ih _ _ _ _ _ _ second

/-- the cofactors `gcd_in_place` / `gcd_ext_in_place` use: `d·y − c·x ≤ y` (committed or not) -/
theorem lehmer_committed_y_le (W : Nat) (hW : 0 < W) (x y : Nat) (hxy : y ≤ x) (hlen : 1 < wordLen W y) :
    ((lehmerCofactors W x y).2.2.2 : Int) * y - ((lehmerCofactors W x y).2.2.1 : Int) * x ≤ y := by
  obtain ⟨lim, gf, k, hcof⟩ := lehmerCofactors_aligned' hW hxy hlen
  have hinit : GuessYle x y k (x / 2 ^ k) (y / 2 ^ k) 1 0 0 1 :=
    ⟨⟨by norm_num, by simp, by simp, Nat.zero_le _, Nat.zero_le _⟩, by simp⟩
  obtain ⟨xb, yb, hp⟩ := lehmerGuess_yle lim x y k gf _ _ 1 0 0 1 hinit
  rw [← hcof] at hp
  exact hp.2

end Dashu.Model.NT
