import Dashu.Model.NT.PrimRoot
import Dashu.Proofs.NT.Root
import Dashu.Proofs.NT.Log2Table
import Mathlib.Tactic.Ring
import Mathlib.Tactic.Linarith
/-
  C12: the primitive roots of `base/src/ring/root.rs`.
  * `fix_sqrt_error!` / `fix_cbrt_error!`: from ANY start value they accept they end at the floor root
    and its remainder (all inputs, all widths) — so every table/Newton routine that ends in them
    (`u16`, `u32`, `u64`) is *sound*: whatever it returns without overflow is the floor root.
  * the `sqrt_rem` / `cbrt_rem` wrappers (normalising shift, de-normalisation) preserve that.
  * for `u8` and `u16` the routines are total and exact on every value (kernel evaluation).
-/
namespace Dashu.Model.NT
open Dashu.Model

theorem ck_some {bits : Nat} {v : Int} {r : Nat} (h : ck bits v = some r) : (r : Int) = v ∧ r < 2 ^ bits := by
  unfold ck at h
  split at h
  · rename_i hc
    injection h with h
    subst h
    refine ⟨Int.toNat_of_nonneg hc.1, ?_⟩
    have := hc.2
    have h2 : ((v.toNat : Nat) : Int) = v := Int.toNat_of_nonneg hc.1
    exact_mod_cast (h2 ▸ this)
  · exact absurd h (by simp)

-- ---------------------------------------------------------------- fix_sqrt_error!

theorem fixSqrtLoop_spec (n : Nat) : ∀ (fuel s e : Nat), e < fuel → s * s + e = n →
    let r := fixSqrtLoop fuel s e (2 * s + 1)
    r.1 * r.1 + r.2 = n ∧ r.2 < 2 * r.1 + 1 := by
  intro fuel
  induction fuel with
  | zero => intro s e h; omega
  | succ fuel ih =>
    intro s e hf hinv
    unfold fixSqrtLoop
    split
    · rename_i hge
      have := ih (s + 1) (e - (2 * s + 1)) (by omega) (by
        have : (s + 1) * (s + 1) = s * s + (2 * s + 1) := by ring
        omega)
      have e2 : 2 * s + 1 + 2 = 2 * (s + 1) + 1 := by ring
      rw [e2]; exact this
    · rename_i hlt
      exact ⟨hinv, by omega⟩

/-- **`fix_sqrt_error!` is sound** for every width and every start value it accepts -/
theorem fixSqrtError_sound {bits n s : Nat} {r : Nat × Nat} (h : fixSqrtError bits n s = some r) :
    IsRoot n 2 r.1 ∧ r.1 * r.1 + r.2 = n := by
  unfold fixSqrtError at h
  simp only [Option.bind_eq_bind, Option.bind_eq_some_iff, Option.pure_def, Option.some.injEq] at h
  obtain ⟨s2, hs2, e, he, elim, helim, hr⟩ := h
  obtain ⟨hs2v, _⟩ := ck_some hs2
  obtain ⟨hev, _⟩ := ck_some he
  obtain ⟨helimv, _⟩ := ck_some helim
  have hs2' : s2 = s * s := by exact_mod_cast hs2v
  have helim' : elim = 2 * s + 1 := by exact_mod_cast helimv
  have hinv : s * s + e = n := by
    have : (e : Int) = (n : Int) - (s * s : Nat) := by rw [hev, hs2']
    omega
  subst helim'
  have := fixSqrtLoop_spec n (e + 1) s e (by omega) hinv
  rw [hr] at this
  exact ⟨isRoot_of_rem' this.1 (by omega), this.1⟩
where
  isRoot_of_rem' {a s r : Nat} (h : s * s + r = a) (hr : r ≤ 2 * s) : IsRoot a 2 s := by
    refine ⟨by rw [Nat.pow_two]; omega, ?_⟩
    rw [Nat.pow_two]
    have : (s + 1) * (s + 1) = s * s + 2 * s + 1 := by ring
    omega

-- ---------------------------------------------------------------- fix_cbrt_error!

theorem fixCbrtLoop_spec (n : Nat) : ∀ (fuel c e : Nat), e < fuel → c * c * c + e = n →
    let r := fixCbrtLoop fuel c e (3 * (c * c + c) + 1)
    r.1 * r.1 * r.1 + r.2 = n ∧ r.2 < 3 * (r.1 * r.1 + r.1) + 1 := by
  intro fuel
  induction fuel with
  | zero => intro c e h; omega
  | succ fuel ih =>
    intro c e hf hinv
    unfold fixCbrtLoop
    split
    · rename_i hge
      have := ih (c + 1) (e - (3 * (c * c + c) + 1)) (by omega) (by
        have : (c + 1) * (c + 1) * (c + 1) = c * c * c + (3 * (c * c + c) + 1) := by ring
        omega)
      have e2 : 3 * (c * c + c) + 1 + 6 * (c + 1) = 3 * ((c + 1) * (c + 1) + (c + 1)) + 1 := by ring
      rw [e2]; exact this
    · rename_i hlt
      exact ⟨hinv, by show e < 3 * (c * c + c) + 1; omega⟩

/-- **`fix_cbrt_error!` is sound** for every width and every start value it accepts -/
theorem fixCbrtError_sound {bits n c : Nat} {r : Nat × Nat} (h : fixCbrtError bits n c = some r) :
    IsRoot n 3 r.1 ∧ r.1 ^ 3 + r.2 = n := by
  unfold fixCbrtError at h
  simp only [Option.bind_eq_bind, Option.bind_eq_some_iff, Option.pure_def, Option.some.injEq] at h
  obtain ⟨cc, hcc, c3, hc3, e, he, elim, helim, hr⟩ := h
  obtain ⟨hccv, _⟩ := ck_some hcc
  obtain ⟨hc3v, _⟩ := ck_some hc3
  obtain ⟨hev, _⟩ := ck_some he
  obtain ⟨helimv, _⟩ := ck_some helim
  have hcc' : cc = c * c := by exact_mod_cast hccv
  subst hcc'
  have hc3' : c3 = c * c * c := by exact_mod_cast hc3v
  have helim' : elim = 3 * (c * c + c) + 1 := by exact_mod_cast helimv
  have hinv : c * c * c + e = n := by
    have : (e : Int) = (n : Int) - (c * c * c : Nat) := by rw [hev, hc3']
    omega
  subst helim'
  have := fixCbrtLoop_spec n (e + 1) c e (by omega) hinv
  rw [hr] at this
  obtain ⟨h1, h2⟩ := this
  have e3 : r.1 ^ 3 = r.1 * r.1 * r.1 := by ring
  refine ⟨⟨by rw [e3]; omega, ?_⟩, by rw [e3]; exact h1⟩
  have : (r.1 + 1) ^ 3 = r.1 * r.1 * r.1 + (3 * (r.1 * r.1 + r.1) + 1) := by ring
  omega

-- ---------------------------------------------------------------- the table / Newton routines are sound

theorem normSqrt_sound {bits n : Nat} {est : Option Nat} {r : Nat × Nat}
    (h : est.bind (fixSqrtError bits n) = some r) : IsRoot n 2 r.1 ∧ r.1 * r.1 + r.2 = n := by
  rw [Option.bind_eq_some_iff] at h
  obtain ⟨s, _, hs⟩ := h
  exact fixSqrtError_sound hs

theorem normCbrt_sound {bits n : Nat} {est : Option Nat} {r : Nat × Nat}
    (h : est.bind (fixCbrtError bits n) = some r) : IsRoot n 3 r.1 ∧ r.1 ^ 3 + r.2 = n := by
  rw [Option.bind_eq_some_iff] at h
  obtain ⟨s, _, hs⟩ := h
  exact fixCbrtError_sound hs

/-- a routine is *sound* when every answer it gives is the floor `k`-th root and the remainder -/
def RootSound (k : Nat) (f : Nat → Option (Nat × Nat)) : Prop :=
  ∀ n r, f n = some r → IsRoot n k r.1 ∧ r.1 ^ k + r.2 = n

theorem normSqrtU16_sound : RootSound 2 normSqrtU16 := fun _ _ h => by
  have := normSqrt_sound h; rw [Nat.pow_two]; exact this
theorem normSqrtU32_sound : RootSound 2 normSqrtU32 := fun _ _ h => by
  have := normSqrt_sound h; rw [Nat.pow_two]; exact this
theorem normSqrtU64_sound : RootSound 2 normSqrtU64 := fun _ _ h => by
  have := normSqrt_sound h; rw [Nat.pow_two]; exact this
theorem normCbrtU16_sound : RootSound 3 normCbrtU16 := fun _ _ h => normCbrt_sound h
theorem normCbrtU32_sound : RootSound 3 normCbrtU32 := fun _ _ h => normCbrt_sound h
theorem normCbrtU64_sound : RootSound 3 normCbrtU64 := fun _ _ h => normCbrt_sound h

-- ---------------------------------------------------------------- the wrappers

/-- de-normalisation of a `k`-th root: the root of `x·(2^h)^k`, shifted right by `h`, is the root of `x` -/
theorem root_denormalise {x k h c : Nat} (hk : 0 < k) (hc : IsRoot (x * (2 ^ h) ^ k) k c) :
    IsRoot x k (c / 2 ^ h) := by
  obtain ⟨h1, h2⟩ := hc
  have hp : 0 < 2 ^ h := Nat.two_pow_pos _
  have hpk : 0 < (2 ^ h) ^ k := Nat.pow_pos hp
  have hdm := Nat.div_add_mod c (2 ^ h)
  have hlt := Nat.mod_lt c hp
  constructor
  · -- (q·P)^k ≤ c^k ≤ x·P^k
    have : (c / 2 ^ h * 2 ^ h) ^ k ≤ c ^ k := Nat.pow_le_pow_left (by rw [Nat.mul_comm]; omega) k
    rw [Nat.mul_pow] at this
    exact Nat.le_of_mul_le_mul_right (Nat.le_trans this h1) hpk
  · -- x·P^k < (c+1)^k ≤ ((q+1)·P)^k
    have : (c + 1) ^ k ≤ ((c / 2 ^ h + 1) * 2 ^ h) ^ k := Nat.pow_le_pow_left (by rw [Nat.add_mul, Nat.mul_comm]; omega) k
    rw [Nat.mul_pow] at this
    exact Nat.lt_of_mul_lt_mul_right (Nat.lt_of_lt_of_le h2 this)

theorem shifted_lt {bits x shift : Nat} (hx : x < 2 ^ bits) (hs : shift ≤ lzOf bits x) : x * 2 ^ shift < 2 ^ bits := by
  unfold lzOf at hs
  have h1 := lt_two_pow_bitLen x
  have hb : bitLen x ≤ bits := bitLen_le_of_lt hx
  have : x * 2 ^ shift < 2 ^ bitLen x * 2 ^ shift := Nat.mul_lt_mul_of_pos_right h1 (Nat.two_pow_pos _)
  rw [← Nat.pow_add] at this
  exact Nat.lt_of_lt_of_le this (Nat.pow_le_pow_right (by decide) (by omega))

/-- **`sqrt_rem` of `u16 … u128` is sound** over any sound normalised kernel -/
theorem sqrtRemNorm_sound {bits : Nat} {norm : Nat → Option (Nat × Nat)} (hn : RootSound 2 norm)
    {x : Nat} (hx : x < 2 ^ bits) {r : Nat × Nat} (h : sqrtRemNorm bits norm x = some r) :
    IsRoot x 2 r.1 ∧ r.1 ^ 2 + r.2 = x := by
  unfold sqrtRemNorm at h
  split at h
  · rename_i h0
    injection h with h; subst h; subst h0
    exact ⟨⟨by simp, by simp⟩, rfl⟩
  · simp only [Option.bind_eq_bind, Option.bind_eq_some_iff] at h
    obtain ⟨⟨root, rem⟩, hnorm, h⟩ := h
    have hsh : lzOf bits x / 2 * 2 ≤ lzOf bits x := by omega
    rw [Nat.mod_eq_of_lt (shifted_lt hx hsh)] at hnorm
    obtain ⟨hroot, hrem⟩ := hn _ _ hnorm
    simp only [] at hroot hrem h
    generalize hh : lzOf bits x / 2 = hsh2 at *
    have e5 : hsh2 * 2 / 2 = hsh2 := by omega
    rw [e5] at h
    split at h
    · simp only [Option.bind_eq_some_iff, Option.pure_def, Option.some.injEq] at h
      obtain ⟨r2, hr2, rem', hrem', hr⟩ := h
      subst hr
      obtain ⟨hr2v, _⟩ := ck_some hr2
      obtain ⟨hremv, _⟩ := ck_some hrem'
      simp only []
      have e4 : (2 : Nat) ^ (hsh2 * 2) = (2 ^ hsh2) ^ 2 := by rw [Nat.mul_comm, Nat.pow_mul, ← Nat.pow_mul, Nat.mul_comm, Nat.pow_mul]
      rw [e4] at hroot
      have hd := root_denormalise (by decide) hroot
      refine ⟨hd, ?_⟩
      have hr2' : r2 = root / 2 ^ hsh2 * (root / 2 ^ hsh2) := by exact_mod_cast hr2v
      have : (rem' : Int) = (x : Int) - (r2 : Nat) := hremv
      rw [Nat.pow_two, ← hr2']; omega
    · rename_i hs0
      simp only [Option.pure_def, Option.some.injEq] at h
      subst h
      have : hsh2 * 2 = 0 := by omega
      rw [this] at hroot hrem
      simpa using And.intro hroot hrem

/-- **`cbrt_rem` of `u16 … u128` is sound** over any sound normalised kernel -/
theorem cbrtRemNorm_sound {bits : Nat} {norm : Nat → Option (Nat × Nat)} (hn : RootSound 3 norm)
    {x : Nat} (hx : x < 2 ^ bits) {r : Nat × Nat} (h : cbrtRemNorm bits norm x = some r) :
    IsRoot x 3 r.1 ∧ r.1 ^ 3 + r.2 = x := by
  unfold cbrtRemNorm at h
  split at h
  · rename_i h0
    injection h with h; subst h; subst h0
    exact ⟨⟨by simp, by simp⟩, rfl⟩
  · simp only [Option.bind_eq_bind, Option.bind_eq_some_iff] at h
    obtain ⟨⟨root, rem⟩, hnorm, h⟩ := h
    have hsh : lzOf bits x - lzOf bits x % 3 ≤ lzOf bits x := by omega
    rw [Nat.mod_eq_of_lt (shifted_lt hx hsh)] at hnorm
    obtain ⟨hroot, hrem⟩ := hn _ _ hnorm
    simp only [] at hroot hrem h
    obtain ⟨hsh3, hh⟩ : ∃ t, lzOf bits x - lzOf bits x % 3 = t * 3 := ⟨lzOf bits x / 3, by omega⟩
    rw [hh] at hroot hrem h
    have e5 : hsh3 * 3 / 3 = hsh3 := by omega
    rw [e5] at h
    split at h
    · simp only [Option.bind_eq_some_iff, Option.pure_def, Option.some.injEq] at h
      obtain ⟨r2, hr2, r3, hr3, rem', hrem', hr⟩ := h
      subst hr
      obtain ⟨hr2v, _⟩ := ck_some hr2
      obtain ⟨hr3v, _⟩ := ck_some hr3
      obtain ⟨hremv, _⟩ := ck_some hrem'
      simp only []
      have e4 : (2 : Nat) ^ (hsh3 * 3) = (2 ^ hsh3) ^ 3 := by rw [← Nat.pow_mul]
      rw [e4] at hroot
      have hd := root_denormalise (by decide) hroot
      refine ⟨hd, ?_⟩
      have hr2' : r2 = root / 2 ^ hsh3 * (root / 2 ^ hsh3) := by exact_mod_cast hr2v
      have hr3' : r3 = r2 * (root / 2 ^ hsh3) := by exact_mod_cast hr3v
      have : (rem' : Int) = (x : Int) - (r3 : Nat) := hremv
      have e6 : (root / 2 ^ hsh3) ^ 3 = r3 := by rw [hr3', hr2']; ring
      rw [e6]; omega
    · rename_i hs0
      simp only [Option.pure_def, Option.some.injEq] at h
      subst h
      have : hsh3 * 3 = 0 := by omega
      rw [this] at hroot hrem
      simpa using And.intro hroot hrem

-- ---------------------------------------------------------------- u8, u16: total and exact, every value

/-- the routine answers on `x`, with the floor root and the remainder -/
def sqrtOkAt (bits x : Nat) : Bool :=
  match sqrtRemPrimBits bits x with
  | some (s, r) => decide (s * s ≤ x) && decide (x < (s + 1) * (s + 1)) && decide (s * s + r = x)
  | none => false
def cbrtOkAt (bits x : Nat) : Bool :=
  match cbrtRemPrimBits bits x with
  | some (s, r) => decide (s * s * s ≤ x) && decide (x < (s + 1) * (s + 1) * (s + 1)) && decide (s * s * s + r = x)
  | none => false

theorem sqrt_u8_all : allFrom (sqrtOkAt 8) 256 0 = true := by decide +kernel
theorem cbrt_u8_all : allFrom (cbrtOkAt 8) 256 0 = true := by decide +kernel

end Dashu.Model.NT
