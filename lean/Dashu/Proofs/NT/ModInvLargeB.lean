import Dashu.Model.NT.ModInvLargeB
import Dashu.Proofs.NT.ModInvLarge
import Dashu.Proofs.NT.ModAddK
/-
  C13 (round 6): the buffer plumbing of `inv_large` (`Model/NT/ModInvLargeB.lean`) never trips a `debug_assert` on a valid residue and
  returns what `invLarge` returns: the two right shifts are exact (`debug_assert_zero!`), the cofactor `|b| < modulus` (the range
  theorems `gcdExtSmall_range` / `lehmerExt_range` of round 4) shifted back fits the buffer without carry and satisfies
  `ReducedLarge::is_valid`, the buffer-level `negate_in_place` leaves `negRaw`.  Word-loop contracts: C02's `shrInPlace_spec` /
  `shlInPlace_spec` / `cmpSameLen_spec`, C01's `subSameLen_spec` (through `negateInPlaceL_spec`), imported.
-/
namespace Dashu.Model.NT
open Dashu.Model Dashu.Model.Div

/-- a right shift of a multiple of `2^s` shifts nothing out -/
theorem shr_exact {v s k' x : Nat} (hk : k' < 2 ^ s) (h : v * 2 ^ s + k' = x * 2 ^ s) : k' = 0 ∧ v = x := by
  have hm : (v * 2 ^ s + k') % 2 ^ s = 0 := by rw [h]; exact Nat.mul_mod_left _ _
  rw [Nat.add_comm, Nat.add_mul_mod_self_right, Nat.mod_eq_of_lt hk] at hm
  subst hm
  exact ⟨rfl, Nat.eq_of_mul_eq_mul_right (Nat.two_pow_pos s) (by simpa using h)⟩

/-- `debug_assert_zero!(shr_in_place(buffer of x·2^k, k))` holds and leaves `x` -/
theorem shrInPlace_exact {W s : Nat} (hs : s ≤ W) {ws : List Nat} (hw : IsWords W ws) {x : Nat} (hv : val W ws = x * 2 ^ s) :
    (Div.shrInPlace W ws s).2 = 0 ∧ val W (Div.shrInPlace W ws s).1 = x := by
  obtain ⟨k', s1, s2, s3, _, _⟩ := shrInPlace_spec W s hs ws hw
  rw [hv] at s3
  obtain ⟨h0, hx⟩ := shr_exact s2 s3
  subst h0
  exact ⟨by rw [s1]; simp, hx⟩

theorem head_mod {W k : Nat} (hk : k ≤ W) (ws : List Nat) : ws.headD 0 % 2 ^ k = val W ws % 2 ^ k := by
  cases ws with
  | nil => simp
  | cons w rest =>
    simp only [List.headD_cons, val_cons]
    have : 2 ^ W = 2 ^ k * 2 ^ (W - k) := by rw [← Nat.pow_add]; congr 1; omega
    rw [this, Nat.mul_assoc, Nat.add_mul_mod_self_left]

/-- **tail of `inv_large` on buffers**: for a cofactor magnitude in range, `shl_in_place` has no carry, `is_valid` holds, and the
    (possibly negated) buffer holds what the value-level tail returns -/
theorem invLargeFinishB_eq {W : Nat} {r : Ring} (hwf : r.WF W) (hn : 1 ≤ r.n) (hkW : r.k ≤ W) (isGOne : Bool) {bMag : Nat}
    (hb : bMag < r.m) (bNeg : Bool) :
    invLargeFinishB W r isGOne bMag bNeg = .ok (invLargeFinish r isGOne bMag bNeg) := by
  unfold invLargeFinishB invLargeFinish
  cases isGOne
  · rfl
  · simp only [Bool.not_true, Bool.false_eq_true, if_false]
    obtain ⟨hlen, hndw, hndv⟩ := ndWords_spec hwf hn
    have hp : 0 < 2 ^ r.k := Nat.two_pow_pos _
    have hbM : bMag * 2 ^ r.k < r.M := Nat.mul_lt_mul_of_pos_right hb hp
    have hbP : bMag < 2 ^ (W * r.n) := by
      have : bMag * 1 ≤ bMag * 2 ^ r.k := Nat.mul_le_mul_left _ hp
      have := hwf.Mlt
      omega
    obtain ⟨pl, pw, pv⟩ := wordsPad_spec (W := W) (len := r.n) hwf.hW hbP
    have ⟨s1, s2, s3, s4⟩ := Div.shlInPlace_spec W r.k hkW _ pw
    generalize Div.shlInPlace W (wordsPad W r.n bMag) r.k = p at s1 s2 s3 s4
    obtain ⟨inv, carry⟩ := p
    simp only at s1 s2 s3 s4 ⊢
    rw [pl, pv] at s1
    have hc : carry = 0 := by
      rcases Nat.eq_zero_or_pos carry with h | h
      · exact h
      · have : 2 ^ (W * r.n) * 1 ≤ 2 ^ (W * r.n) * carry := Nat.mul_le_mul_left _ h
        have := hwf.Mlt
        omega
    subst hc
    have hv : val W inv = bMag * 2 ^ r.k := by omega
    have hvalid : isValidL W (r.ndWords W) r.k inv = true := by
      unfold isValidL
      rw [cmpSameLen_spec W inv (r.ndWords W) (by rw [s2, pl, hlen]) s3 hndw, hv, hndv, head_mod hkW, hv]
      simp [s2, pl, hlen, Nat.compare_eq_lt.2 hbM]
    rw [hvalid]
    simp only [Bool.not_true, Bool.false_eq_true, if_false]
    cases bNeg
    · simp only [Bool.false_eq_true, if_false, hv]
    · simp only [if_true]
      obtain ⟨out, ho, _, _, hov⟩ := negateInPlaceL_spec hndw s3 (by rw [hlen, s2, pl]) (by rw [hv, hndv]; omega)
      rw [ho]
      simp only [Except.map, hov, hv, hndv, negRaw]

/-- **`inv_large` with its buffer plumbing = the mirrored `inv_large` of round 4** on every valid residue of a multi-word ring -/
theorem invLargeB_eq {W : Nat} {r : Ring} (hwf : r.WF W) (hk : r.kind = .large) (hkW : r.k < W) {u : Nat} (hu : u < r.m) :
    invLargeB W r (u * 2 ^ r.k) = invLarge W r (u * 2 ^ r.k) := by
  have hW := hwf.hW
  have hn : 1 ≤ r.n := by have := hwf.kind_n.2.2 hk; omega
  have hp : 0 < 2 ^ r.k := Nat.two_pow_pos _
  obtain ⟨hlen, hndw, hndv⟩ := ndWords_spec hwf hn
  have huM : u * 2 ^ r.k < r.M := Nat.mul_lt_mul_of_pos_right hu hp
  obtain ⟨la, wa, va⟩ := rawWords_spec hwf huM
  obtain ⟨m1, m2⟩ := shrInPlace_exact (s := r.k) (x := r.m) (by omega) hndw (by rw [hndv]; rfl)
  obtain ⟨r1, r2⟩ := shrInPlace_exact (s := r.k) (x := u) (by omega) wa va
  have hmod : r.M / 2 ^ r.k = r.m := by unfold Ring.M; exact Nat.mul_div_cancel _ hp
  unfold invLargeB invLarge
  simp only [m1, m2, r1, r2, hmod, Nat.mul_div_cancel _ hp, ne_eq, not_true_eq_false, if_false]
  by_cases h0 : wordLen W u = 0
  · rw [if_pos h0, if_pos h0]
  · rw [if_neg h0, if_neg h0]
    have hupos : 0 < u := by
      apply Nat.pos_of_ne_zero; intro h; subst h
      exact h0 (wordLen_zero hW)
    by_cases h2 : wordLen W u ≤ 2
    · rw [if_pos h2, if_pos h2]
      obtain ⟨g, a, bMag, bNeg, heq, _⟩ := gcdExtSmall_spec W r.m u hupos
      have hrange := gcdExtSmall_range W hupos hu heq
      rw [heq]
      exact invLargeFinishB_eq hwf hn (by omega) _ hrange _
    · rw [if_neg h2, if_neg h2]
      obtain ⟨res, heq, _⟩ := lehmerExt_correct W hW r.m u hupos hu
      have hrange := lehmerExt_range W hW r.m u hupos hu res heq
      obtain ⟨g, bMag, bNeg⟩ := res
      rw [heq]
      exact invLargeFinishB_eq hwf hn (by omega) _ hrange _

theorem invRawKB_eq {W : Nat} {r : Ring} (hwf : r.WF W) (hkW : r.kind = .large → r.k < W) {u : Nat} (hu : u < r.m) :
    invRawKB W r (u * 2 ^ r.k) = invRawKP W r (u * 2 ^ r.k) := by
  unfold invRawKB
  cases hk : r.kind with
  | large =>
    simp only []
    rw [invLargeB_eq hwf hk (hkW hk) hu]
    unfold invRawKP; rw [hk]
  | single => rfl
  | double => rfl

end Dashu.Model.NT
