import Dashu.Proofs.NT.LehmerStepFull
import Dashu.Proofs.NT.LehmerBufC
import Dashu.Proofs.NT.LehmerWordsFit
namespace Dashu.Model.NT
open Dashu.Model

/-- what a committed Lehmer guess (`b ≠ 0`) guarantees about the two combined values, for `y ≤ x`, `y` of more than
    one word: both strictly positive, their sum at most `x` (so `a·x − b·y ≤ x`), and `a ≥ 1` -/
theorem lehmer_committed_values (W : Nat) (hW : 0 < W) (x y : Nat) (hxy : y ≤ x) (hlen : 1 < wordLen W y)
    (hb : (lehmerCofactors W x y).2.1 ≠ 0) :
    0 < ((lehmerCofactors W x y).1 : Int) * x - ((lehmerCofactors W x y).2.1 : Int) * y ∧
    0 < ((lehmerCofactors W x y).2.2.2 : Int) * y - ((lehmerCofactors W x y).2.2.1 : Int) * x ∧
    (((lehmerCofactors W x y).1 : Int) * x - ((lehmerCofactors W x y).2.1 : Int) * y) +
      (((lehmerCofactors W x y).2.2.2 : Int) * y - ((lehmerCofactors W x y).2.2.1 : Int) * x) ≤ x ∧
    1 ≤ (lehmerCofactors W x y).1 := by
  have hy0 : 0 < y := by
    apply Nat.pos_of_ne_zero; intro h0; subst h0
    rw [wordLen_zero hW] at hlen; omega
  obtain ⟨lim, gf, k, hcof⟩ := lehmerCofactors_aligned' hW hxy hlen
  have hinit : GuessProg x y k (x / 2 ^ k) (y / 2 ^ k) 1 0 0 1 := by
    refine ⟨⟨by norm_num, by simp, by simp, Nat.zero_le _, Nat.zero_le _⟩, by simp, by simp, ?_⟩
    intro _; exact ⟨rfl, rfl, rfl, rfl, rfl⟩
  obtain ⟨xb, yb, hprog⟩ := lehmerGuess_prog lim x y k hxy gf _ _ 1 0 0 1 hinit
  have hdet := lehmerCofactors_det W x y
  rw [← hcof] at hprog
  generalize lehmerCofactors W x y = cof at hb hprog hdet ⊢
  obtain ⟨a, b, c, d⟩ := cof
  simp only [] at hb hprog hdet ⊢
  obtain ⟨hxpos, hypos⟩ := guessInv_pos hprog.1 hb hy0
  refine ⟨hxpos, hypos, hprog.2.2.1 hb, ?_⟩
  rcases Nat.eq_zero_or_pos a with h0 | h0
  · subst h0
    have : (0 : Int) ≤ (b : Int) * c := by positivity
    simp at hdet
    omega
  · exact h0

end Dashu.Model.NT
