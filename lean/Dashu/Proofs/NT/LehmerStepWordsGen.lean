import Dashu.Model.NT.LehmerStepWords
import Dashu.Gen.RootTables
/-
  C12 (Round 6, Tie A): the two signed accumulations of the mirrored `lehmer_step` zip loop are the source's:
  `Gen.lehmer_step_acc_x / _acc_y` are regenerated from the `split_signed_dword(…)` arguments (vlib/extract_roottabs.py;
  every other token of the function, incl. the `x_top` fix-up, is pinned and fails closed).
-/
namespace Dashu.Model.NT
open Dashu.Model

/-- `lehmerStepWords` over the regenerated accumulation expressions -/
def lehmerStepWordsG (W a b c d : Nat) : List Nat → List Nat → Int → Int → Option (List Nat × List Nat × Int × Int)
  | x :: xs, y :: ys, cx, cy =>
    let vx : Int := Gen.lehmer_step_acc_x a b c d x y cx cy
    let vy : Int := Gen.lehmer_step_acc_y a b c d x y cx cy
    if -(2 ^ (2 * W - 1) : Int) ≤ vx ∧ vx < 2 ^ (2 * W - 1) ∧ -(2 ^ (2 * W - 1) : Int) ≤ vy ∧ vy < 2 ^ (2 * W - 1) then
      match lehmerStepWordsG W a b c d xs ys (vx / 2 ^ W) (vy / 2 ^ W) with
      | some (xs', ys', cx', cy') => some ((vx % 2 ^ W).toNat :: xs', (vy % 2 ^ W).toNat :: ys', cx', cy')
      | none => none
    else none
  | xs, ys, cx, cy => some (xs, ys, cx, cy)

theorem lehmerStepWords_regenerated (W a b c d : Nat) :
    ∀ (y x : List Nat) (cx cy : Int),
      lehmerStepWords W a b c d x y cx cy = lehmerStepWordsG W a b c d x y cx cy := by
  intro y
  induction y with
  | nil => intro x cx cy; cases x <;> rfl
  | cons y0 ys ih =>
    intro x cx cy
    cases x with
    | nil => rfl
    | cons x0 xs =>
      simp only [lehmerStepWords, lehmerStepWordsG, Gen.lehmer_step_acc_x, Gen.lehmer_step_acc_y, ih]
      by_cases hc : -(2 ^ (2 * W - 1) : Int) ≤ (a : Int) * x0 - (b : Int) * y0 + cx ∧ (a : Int) * x0 - (b : Int) * y0 + cx < 2 ^ (2 * W - 1) ∧
          -(2 ^ (2 * W - 1) : Int) ≤ (d : Int) * y0 - (c : Int) * x0 + cy ∧ (d : Int) * y0 - (c : Int) * x0 + cy < 2 ^ (2 * W - 1)
      · simp only [hc, and_self, if_true]
        generalize lehmerStepWordsG W a b c d xs ys (((a : Int) * x0 - (b : Int) * y0 + cx) / 2 ^ W) (((d : Int) * y0 - (c : Int) * x0 + cy) / 2 ^ W) = r
        rcases r with _ | ⟨_, _, _, _⟩ <;> rfl
      · simp only [hc, if_false]

end Dashu.Model.NT
