import Dashu.Proofs.NT.LehmerAlign
/-
  C12: `highest_dword_normalized(x, y)` returns both operands truncated at one common bit position.
-/
namespace Dashu.Model.NT
open Dashu.Model

/-- `(hi·2^(2W) + lo) >> (W − sh)` written as the code does it (`hi << (sh + W) | lo >> (W − sh)`) -/
theorem triple_shift {W sh hi lo : Nat} (hsh : sh ≤ W) :
    hi * 2 ^ (sh + W) + lo / 2 ^ (W - sh) = (hi * 2 ^ (2 * W) + lo) / 2 ^ (W - sh) := by
  have e : 2 ^ (2 * W) = 2 ^ (sh + W) * 2 ^ (W - sh) := by rw [← Nat.pow_add]; congr 1; omega
  rw [e, ← Nat.mul_assoc, Nat.add_comm (hi * 2 ^ (sh + W) * 2 ^ (W - sh)),
    Nat.add_mul_div_right _ _ (Nat.two_pow_pos _), Nat.add_comm]

theorem highestDwordNormalized_eq {W x y : Nat} (hW : 0 < W) (hxy : y ≤ x) (hlen : 3 ≤ wordLen W x) :
    ∃ k, highestDwordNormalized W x y = (x / 2 ^ k, y / 2 ^ k) := by
  have hx0 : x ≠ 0 := by
    intro h; subst h; simp [wordLen, bitLen] at hlen
    have : (W - 1) / W = 0 := Nat.div_eq_of_lt (by omega)
    omega
  have hxlt := lt_two_pow_wordLen hW x
  have hxge := two_pow_le_of_wordLen hW hx0
  have hylen : wordLen W y ≤ wordLen W x := wordLen_le_of_lt hW (Nat.lt_of_le_of_lt hxy hxlt)
  generalize hlx : wordLen W x = lx at *
  obtain ⟨l3, rfl⟩ : ∃ l3, lx = l3 + 3 := ⟨lx - 3, by omega⟩
  have hp : 0 < 2 ^ (W * l3) := Nat.two_pow_pos _
  have hp2 : 0 < 2 ^ (2 * W) := Nat.two_pow_pos _
  -- the leading three words of x and of y (at the same position)
  have e2 : 2 ^ (W * (l3 + 3 - 1)) = 2 ^ (2 * W) * 2 ^ (W * l3) := by
    rw [← Nat.pow_add]; congr 1; rw [show l3 + 3 - 1 = l3 + 2 by omega, Nat.mul_add]; omega
  have e3 : 2 ^ (W * (l3 + 3)) = 2 ^ (3 * W) * 2 ^ (W * l3) := by
    rw [← Nat.pow_add]; congr 1; rw [Nat.mul_add]; omega
  have hT_ge : 2 ^ (2 * W) ≤ x / 2 ^ (W * l3) := by
    rw [Nat.le_div_iff_mul_le hp, ← e2]; exact hxge
  have hT_lt : x / 2 ^ (W * l3) < 2 ^ (3 * W) := by
    rw [Nat.div_lt_iff_lt_mul hp, ← e3]; exact hxlt
  have hx0eq : x / 2 ^ (W * (l3 + 3 - 1)) = x / 2 ^ (W * l3) / 2 ^ (2 * W) := by
    rw [Nat.div_div_eq_div_mul, e2, Nat.mul_comm]
  -- y's triple, whatever the length gap
  have hyT : yHighTriple W (l3 + 3) y
      = (y / 2 ^ (W * l3) / 2 ^ (2 * W), y / 2 ^ (W * l3) % 2 ^ (2 * W)) := by
    have hylt := lt_two_pow_wordLen hW y
    unfold yHighTriple
    simp only []
    have small : ∀ j, wordLen W y ≤ j → y / 2 ^ (W * j) = 0 := by
      intro j hj
      apply Nat.div_eq_of_lt
      exact Nat.lt_of_lt_of_le hylt (Nat.pow_le_pow_right (by decide) (Nat.mul_le_mul_left W hj))
    have hdd : y / 2 ^ (W * l3) / 2 ^ (2 * W) = y / 2 ^ (W * (l3 + 2)) := by
      rw [Nat.div_div_eq_div_mul, ← Nat.pow_add]; congr 2; rw [Nat.mul_add]; omega
    rcases Nat.lt_or_ge (wordLen W y) l3 with hlt | hge
    · have : l3 + 3 - wordLen W y = (l3 - wordLen W y) + 3 := by omega
      rw [this]
      simp only []
      rw [small l3 (by omega)]; simp
    · rcases Nat.lt_or_ge (wordLen W y) (l3 + 1) with h1 | h1
      · have hy : wordLen W y = l3 := by omega
        rw [hy, show l3 + 3 - l3 = 0 + 3 by omega]
        simp only []
        rw [small l3 (by omega)]; simp
      · rcases Nat.lt_or_ge (wordLen W y) (l3 + 2) with h2 | h2
        · have hy : wordLen W y = l3 + 1 := by omega
          rw [hy, show l3 + 3 - (l3 + 1) = 2 by omega]
          simp only [show l3 + 1 - 1 = l3 by omega]
          rw [hdd, small (l3 + 2) (by omega)]
          have : y / 2 ^ (W * l3) < 2 ^ (2 * W) := by
            rw [Nat.div_lt_iff_lt_mul hp, ← Nat.pow_add]
            exact Nat.lt_of_lt_of_le hylt (Nat.pow_le_pow_right (by decide) (by rw [hy, Nat.mul_add]; omega))
          rw [Nat.mod_eq_of_lt this]
        · rcases Nat.lt_or_ge (wordLen W y) (l3 + 3) with h3 | h3
          · have hy : wordLen W y = l3 + 2 := by omega
            rw [hy, show l3 + 3 - (l3 + 2) = 1 by omega]
            simp only [show l3 + 2 - 2 = l3 by omega]
            rw [hdd, small (l3 + 2) (by omega)]
            have : y / 2 ^ (W * l3) < 2 ^ (2 * W) := by
              rw [Nat.div_lt_iff_lt_mul hp, ← Nat.pow_add]
              exact Nat.lt_of_lt_of_le hylt (Nat.pow_le_pow_right (by decide) (by rw [hy, Nat.mul_add]; omega))
            rw [Nat.mod_eq_of_lt this]
          · have hy : wordLen W y = l3 + 3 := by omega
            rw [hy, show l3 + 3 - (l3 + 3) = 0 by omega]
            simp only [show l3 + 3 - 1 = l3 + 2 by omega, show l3 + 3 - 3 = l3 by omega]
            rw [hdd]
  unfold highestDwordNormalized
  simp only [hlx]
  rw [hyT, hx0eq, show l3 + 3 - 3 = l3 by omega]
  simp only []
  generalize hTx : x / 2 ^ (W * l3) = Tx at *
  generalize hTy : y / 2 ^ (W * l3) = Ty
  have hTle : Ty ≤ Tx := by rw [← hTx, ← hTy]; exact Nat.div_le_div_right hxy
  -- leading zeros of the top word
  have hx0ge : 1 ≤ Tx / 2 ^ (2 * W) := by rw [Nat.le_div_iff_mul_le hp2]; omega
  have hx0lt : Tx / 2 ^ (2 * W) < 2 ^ W := by
    rw [Nat.div_lt_iff_lt_mul hp2, ← Nat.pow_add]
    have : W + 2 * W = 3 * W := by omega
    rw [this]; exact hT_lt
  have hbl1 : 0 < bitLen (Tx / 2 ^ (2 * W)) := bitLen_pos (by omega)
  have hbl2 : bitLen (Tx / 2 ^ (2 * W)) ≤ W := bitLen_le_of_lt hx0lt
  generalize hsh : W - bitLen (Tx / 2 ^ (2 * W)) = sh
  have hshW : sh < W := by omega
  -- Tx < 2^(2W + bitLen x0), so Tx >> (W − sh) < 2^(2W)
  have hTxs : Tx / 2 ^ (W - sh) < 2 ^ (2 * W) := by
    rw [Nat.div_lt_iff_lt_mul (Nat.two_pow_pos _), ← Nat.pow_add]
    have h1 := lt_two_pow_bitLen (Tx / 2 ^ (2 * W))
    have h2 : Tx < 2 ^ bitLen (Tx / 2 ^ (2 * W)) * 2 ^ (2 * W) := by
      rw [Nat.div_lt_iff_lt_mul hp2] at h1; exact h1
    rw [← Nat.pow_add] at h2
    have : bitLen (Tx / 2 ^ (2 * W)) + 2 * W = 2 * W + (W - sh) := by omega
    rw [this] at h2; exact h2
  have hTys : Ty / 2 ^ (W - sh) < 2 ^ (2 * W) :=
    Nat.lt_of_le_of_lt (Nat.div_le_div_right hTle) hTxs
  have dx := Nat.div_add_mod Tx (2 ^ (2 * W))
  have dy := Nat.div_add_mod Ty (2 ^ (2 * W))
  refine ⟨W * l3 + (W - sh), ?_⟩
  rw [triple_shift (Nat.le_of_lt hshW), triple_shift (Nat.le_of_lt hshW),
    Nat.mul_comm (Tx / 2 ^ (2 * W)), Nat.mul_comm (Ty / 2 ^ (2 * W)), dx, dy,
    Nat.mod_eq_of_lt hTxs, Nat.mod_eq_of_lt hTys, ← hTx, ← hTy,
    Nat.div_div_eq_div_mul, Nat.div_div_eq_div_mul, ← Nat.pow_add]

end Dashu.Model.NT
