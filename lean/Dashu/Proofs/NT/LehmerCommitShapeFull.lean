import Dashu.Proofs.NT.LehmerCommitShape
import Dashu.Proofs.NT.LehmerStepCommittedFull
/-
  C12 (round 8): `lehmer_step` in full on TRIMMED slices with a committed guess — the shape hypothesis
  (`x.len() - y.len() ∈ {0, 1}`, the function's first `debug_assert!`) is derived, not assumed.
-/
namespace Dashu.Model.NT
open Dashu.Model

/-- a trimmed word list (non-zero top word) has exactly `len` significant words -/
theorem wordLen_val_trimmed (W : Nat) (hW : 0 < W) (l : List Nat) (t : Nat) (hl : IsWords W l) (ht : t < 2 ^ W)
    (ht0 : t ≠ 0) : wordLen W (val W (l ++ [t])) = l.length + 1 := by
  have hw : IsWords W (l ++ [t]) := by
    apply IsWords.append hl
    intro w hw'; simp at hw'; subst hw'; exact ht
  have hlt := val_lt W (l ++ [t]) hw
  rw [List.length_append, List.length_singleton] at hlt
  have hle : wordLen W (val W (l ++ [t])) ≤ l.length + 1 := wordLen_le_of_lt hW hlt
  have hge : 2 ^ (W * l.length) ≤ val W (l ++ [t]) := by
    rw [val_append]; simp only [val, Nat.mul_zero, Nat.add_zero]
    have : 2 ^ (W * l.length) * 1 ≤ 2 ^ (W * l.length) * t := Nat.mul_le_mul_left _ (by omega)
    omega
  have hlt2 := lt_two_pow_wordLen hW (val W (l ++ [t]))
  have h3 : 2 ^ (W * l.length) < 2 ^ (W * wordLen W (val W (l ++ [t]))) := Nat.lt_of_le_of_lt hge hlt2
  have h4 : W * l.length < W * wordLen W (val W (l ++ [t])) := (Nat.pow_lt_pow_iff_right (by decide)).mp h3
  have h5 : l.length < wordLen W (val W (l ++ [t])) := Nat.lt_of_mul_lt_mul_left h4
  omega

/-- **`lehmer_step` on trimmed slices with a committed guess: the shape is one of the two the function asserts, and the
    function returns the two combined values.** -/
theorem lehmerStepFull_committed_trimmed (W : Nat) (hW : 2 ≤ W) (xl : List Nat) (xt : Nat) (yl : List Nat) (yt : Nat)
    (hx : IsWords W xl) (hxt : xt < 2 ^ W) (hxt0 : xt ≠ 0) (hy : IsWords W yl) (hyt : yt < 2 ^ W) (hyt0 : yt ≠ 0)
    (hxy : val W (yl ++ [yt]) ≤ val W (xl ++ [xt])) (hlen : 1 ≤ yl.length)
    (cf : Nat × Nat × Nat × Nat) (hcf : cf = lehmerCofactors W (val W (xl ++ [xt])) (val W (yl ++ [yt])))
    (hb : cf.2.1 ≠ 0) :
    (xl.length = yl.length ∨ xl.length = yl.length + 1) ∧
    ∃ x' y', lehmerStepFull W cf.1 cf.2.1 cf.2.2.1 cf.2.2.2 (xl ++ [xt]) (yl ++ [yt]) = some (x', y') ∧
      x'.length = xl.length + 1 ∧ y'.length = yl.length + 1 ∧ IsWords W x' ∧ IsWords W y' ∧
      (val W x' : Int) = (cf.1 : Int) * val W (xl ++ [xt]) - (cf.2.1 : Int) * val W (yl ++ [yt]) ∧
      (val W y' : Int) = (cf.2.2.2 : Int) * val W (yl ++ [yt]) - (cf.2.2.1 : Int) * val W (xl ++ [xt]) ∧
      0 < val W x' ∧ 0 < val W y' ∧ val W x' + val W y' ≤ val W (xl ++ [xt]) ∧ val W y' ≤ val W (yl ++ [yt]) := by
  subst hcf
  have hW0 : 0 < W := by omega
  have hwx := wordLen_val_trimmed W hW0 xl xt hx hxt hxt0
  have hwy := wordLen_val_trimmed W hW0 yl yt hy hyt hyt0
  have hshape := lehmerCofactors_commit_shape W _ _ hW0 hxy hb
  rw [hwx, hwy] at hshape
  have hyw : IsWords W (yl ++ [yt]) := by
    apply IsWords.append hy
    intro w hw'; simp at hw'; subst hw'; exact hyt
  have hxw : IsWords W (xl ++ [xt]) := by
    apply IsWords.append hx
    intro w hw'; simp at hw'; subst hw'; exact hxt
  have hlen' : 1 < wordLen W (val W (yl ++ [yt])) := by rw [hwy]; omega
  have hcases : xl.length = yl.length ∨ xl.length = yl.length + 1 := by omega
  refine ⟨hcases, ?_⟩
  rcases hcases with he | he
  · obtain ⟨x', y', h⟩ := lehmerStepFull_committed_eqlen W hW (xl ++ [xt]) (yl ++ [yt]) hxw hyw
      (by simp [he]) hxy hlen' hb
    refine ⟨x', y', ?_⟩
    simpa using h
  · obtain ⟨x', y', h⟩ := lehmerStepFull_committed_longer W hW xl xt (yl ++ [yt]) hx hxt hyw
      (by simp [he]) hxy hlen' hb
    refine ⟨x', y', ?_⟩
    simpa using h

end Dashu.Model.NT
