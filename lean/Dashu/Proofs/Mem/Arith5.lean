import Dashu.Model.Mem.Arith5
import Mathlib.Tactic.SplitIfs
/-
  C17 (round 6) — the Euclidean fix-up of `IBig::rem_euclid` / `div_rem_euclid` (`mag1 - r.into_typed()`, div_ops.rs
  `impl_ibig_rem_euclid`, `impl_ibig_divrem_euclid`) never reaches the underflow panic of `UBig - UBig`
  (`panic_negative_ubig`): the truncated remainder is not longer and not larger than the divisor.
-/
namespace Dashu.Proofs.Mem
open Dashu.Model Dashu.Model.Mem

theorem toWords_length (W : Nat) : ∀ (n v : Nat), (toWords W n v).length = n
  | 0, _ => rfl
  | n + 1, v => by simp [toWords, toWords_length W n]

/-- `n` little-endian words hold `v mod B^n`: never more than `v` -/
theorem wval_toWords_le (W : Nat) : ∀ (n v : Nat), wval W (toWords W n v) ≤ v
  | 0, _ => by simp [toWords, wval]
  | n + 1, v => by
    have ih := wval_toWords_le W n (v / 2 ^ W)
    have h1 : 2 ^ W * wval W (toWords W n (v / 2 ^ W)) ≤ 2 ^ W * (v / 2 ^ W) := Nat.mul_le_mul_left _ ih
    have h2 := Nat.mod_add_div v (2 ^ W)
    simp only [toWords, wval]
    omega

theorem wordLen_mono (W : Nat) {x y : Nat} (h : x ≤ y) : wordLen W x ≤ wordLen W y := by
  unfold wordLen
  by_cases hx : x = 0 ∨ W = 0
  · simp [hx]
  · have hx0 : x ≠ 0 := fun e => hx (Or.inl e)
    have hW : W ≠ 0 := fun e => hx (Or.inr e)
    have hy0 : y ≠ 0 := by omega
    have hy : ¬ (y = 0 ∨ W = 0) := by simp [hy0, hW]
    simp only [hx, hy, if_false]
    have hl : Nat.log2 x ≤ Nat.log2 y := by
      apply Nat.le_of_not_lt
      intro hlt
      have := (Nat.log2_lt hy0).1 hlt
      have := Nat.log2_self_le hx0
      omega
    have := Nat.div_le_div_right (c := W) hl
    omega

/-- `mag1 - r` of the Euclidean fix-up: for a divisor `b` stored with the length of its value and a remainder `rm ≤ |b|`
    (the fix-up runs with `0 < rm < |b|`) the `UBig - UBig` skeleton has no panic arm, in the by-value (`vv`) and the
    borrowed-divisor (`rv`) form -/
theorem euclid_fix_sub_no_panic (W : Nat) (bVal : Bool) (b : List Nat) (rm : Nat)
    (hb : b.length = wordLen W (wval W b)) (hrm : rm ≤ wval W b) :
    (fragSub W (if bVal then .vv else .rv) b (trimmed W rm)).panic = none := by
  have hlen : (trimmed W rm).length ≤ b.length := by
    unfold trimmed
    rw [toWords_length, hb]
    exact wordLen_mono W hrm
  have hval : wval W (trimmed W rm) ≤ wval W b := Nat.le_trans (wval_toWords_le W _ _) hrm
  generalize trimmed W rm = r at hlen hval
  unfold fragSub isSmall
  cases bVal <;> simp only [if_true, if_false, Bool.false_eq_true] <;>
    (split_ifs <;> first | rfl | (exfalso; simp at *; omega))

end Dashu.Proofs.Mem
