import Dashu.Proofs.Mem.DivPanic
import Dashu.Model.Mem.Arith3
/-
  C17 (round 8) — the add / sub storage skeletons (`UBig + UBig`, `UBig - UBig`, `IBig ± IBig`; add_ops.rs) and their panic arm:
  `+` has none, `IBig ± IBig` has none, and `UBig - UBig` has exactly the documented `panic_negative_ubig`, reached — for operands
  stored with the length of their value (what `Repr::from_buffer` guarantees) — iff the value of the left operand is smaller.
-/
namespace Dashu.Proofs.Mem
open Dashu.Model Dashu.Model.Mem


theorem fragAdd_no_panic (W : Nat) (f : Form) (a b : List Nat) : (fragAdd W f a b).panic = none := by
  unfold fragAdd fAddDword
  simp only []
  split_ifs <;> first | rfl | (cases f <;> simp)

/-- the branch conditions under which the `UBig - UBig` skeleton takes its `panic_negative_ubig` arm, for ANY operand words -/
def subUnderflowArm (W : Nat) (a b : List Nat) : Prop :=
  if isSmall a && isSmall b then wval W a < wval W b
  else if isSmall a then True
  else if isSmall b then False
  else a.length < b.length ∨ wval W a < wval W b

theorem fragSub_panic_any (W : Nat) (f : Form) (a b : List Nat) :
    ((fragSub W f a b).panic = none ∨ (fragSub W f a b).panic = some .negativeUBig) ∧
    ((fragSub W f a b).panic = some .negativeUBig ↔ subUnderflowArm W a b) := by
  unfold fragSub subUnderflowArm
  simp only []
  refine ⟨?_, ?_⟩
  · split_ifs <;> first | (simp_all; done) | (cases f <;> simp)
  · split_ifs <;> first | (simp_all; done) | (cases f <;> simp_all)


theorem lt_of_wordLen_lt (W : Nat) {x y : Nat} (h : wordLen W x < wordLen W y) : x < y := by
  apply Nat.lt_of_not_le
  intro hle
  have := wordLen_mono W hle
  omega

/-- operands stored with the length of their value: the underflow arm is taken iff `a < b` as values -/
theorem subUnderflowArm_iff (W : Nat) (a b : List Nat)
    (ha : a.length = wordLen W (wval W a)) (hb : b.length = wordLen W (wval W b)) :
    subUnderflowArm W a b ↔ wval W a < wval W b := by
  have key : a.length < b.length → wval W a < wval W b := fun h => lt_of_wordLen_lt W (by rw [← ha, ← hb]; exact h)
  have key' : b.length < a.length → wval W b < wval W a := fun h => lt_of_wordLen_lt W (by rw [← ha, ← hb]; exact h)
  unfold subUnderflowArm isSmall
  split_ifs with h1 h2 h3
  · exact Iff.rfl
  · simp only [Bool.and_eq_true, decide_eq_true_eq] at h1 h2
    exact ⟨fun _ => key (by omega), fun _ => trivial⟩
  · simp only [decide_eq_true_eq] at h2 h3
    exact ⟨False.elim, fun h => by have := key' (by omega); omega⟩
  · exact ⟨fun h => h.elim key id, Or.inr⟩

theorem fragSub_panic_canonical (W : Nat) (f : Form) (a b : List Nat)
    (ha : a.length = wordLen W (wval W a)) (hb : b.length = wordLen W (wval W b)) :
    (fragSub W f a b).panic = if wval W a < wval W b then some .negativeUBig else none := by
  have h := fragSub_panic_any W f a b
  have hc := subUnderflowArm_iff W a b ha hb
  split_ifs with hv
  · exact h.2.2 (hc.2 hv)
  · rcases h.1 with h0 | h1
    · exact h0
    · exact absurd (hc.1 (h.2.1 h1)) hv

theorem fragSubSigned_no_panic (W : Nat) (aVal bVal : Bool) (a b : List Nat) : (fragSubSigned W aVal bVal a b).panic = none := by
  unfold fragSubSigned
  simp only []
  split_ifs <;> first | rfl | (cases aVal <;> cases bVal <;> simp)

theorem swap01_panic (fr : Frag) : fr.swap01.panic = fr.panic := rfl

/-- `IBig + IBig`, `IBig - IBig` (op = 0, 1): no panic arm, whatever the signs, forms and words -/
theorem fragSigned_addsub_no_panic (W sqrSimple op : Nat) (hop : op = 0 ∨ op = 1) (f : Form) (na : Bool) (a : List Nat) (nb : Bool)
    (b : List Nat) : (fragSigned W sqrSimple op f na a nb b).panic = none := by
  have hne : op ≠ 2 := by omega
  unfold fragSigned
  simp only [hne, if_false]
  split_ifs <;> simp only [noIntoTyped_panic, swap01_panic, fragAdd_no_panic, fragSubSigned_no_panic]


/-- `UBig & | ^ UBig`: no panic arm -/
theorem fragBit_no_panic (W : Nat) (op : BitOp) (f : Form) (a b : List Nat) : (fragBit W op f a b).panic = none := by
  unfold fragBit
  simp only []
  split_ifs <;> first | rfl | (cases op <;> cases f <;> simp)

/-- `UBig.and_not`: no panic arm -/
theorem fragAndNot_no_panic (W : Nat) (f : Form) (a b : List Nat) : (fragAndNot W f a b).panic = none := by
  unfold fragAndNot
  simp only []
  split_ifs <;> rfl

/-- `UBig >> n`: no panic arm, for every shift count -/
theorem fragShr_no_panic (W : Nat) (byVal : Bool) (a : List Nat) (rhs : Nat) : (fragShr W byVal a rhs).panic = none := by
  unfold fragShr
  simp only []
  split_ifs <;> rfl

/-- `UBig << n`: the only panic is the documented allocation panic, and only when the requested buffer exceeds `MAX_CAPACITY` -/
theorem fragShl_panic (W mx : Nat) (byVal : Bool) (a : List Nat) (rhs : Nat) :
    ((fragShl W mx byVal a rhs).panic = none ∨ (fragShl W mx byVal a rhs).panic = some .allocTooMuch) ∧
    (rhs / W + a.length + 3 ≤ mx → (fragShl W mx byVal a rhs).panic = none) := by
  unfold fragShl
  simp only []
  refine ⟨?_, ?_⟩
  · split_ifs <;> simp
  · intro h; split_ifs <;> first | rfl | (exfalso; omega)

end Dashu.Proofs.Mem
