import Dashu.Model.Mem.Memory
/-
  C17 — `memory.rs` bump allocator: a slice found by `try_find_memory_for_slice` is aligned, lies
  inside the chunk, and the remainder starts at its end; a chain of nested requests yields pairwise
  disjoint slices inside the original chunk.
-/
namespace Dashu.Model.Mem.Bump

theorem padded_aligned (start a : Nat) (hpos : 0 < a) : (start + (a - start % a) % a) % a = 0 := by
  have hx : start % a < a := Nat.mod_lt _ hpos
  have hdm := Nat.div_add_mod start a
  by_cases h0 : start % a = 0
  · rw [h0, Nat.sub_zero, Nat.mod_self, Nat.add_zero]; exact h0
  · have hp : (a - start % a) % a = a - start % a := Nat.mod_eq_of_lt (by omega)
    rw [hp]
    have : start + (a - start % a) = a * (start / a) + a := by omega
    rw [this, Nat.add_mod_right, Nat.mul_mod_right]

/-- memory.rs:165 `try_find_memory_for_slice` / memory.rs:155 `from_raw_parts_mut(ptr, n)`:
    the slice is aligned, inside the chunk, exactly `n * size_of::<T>()` bytes, and nothing overflowed -/
theorem tryFind_spec {usz : Nat} {m : Chunk} {r : Req} {s e : Nat} (ha : 0 < r.align)
    (h : tryFind usz m r = some (s, e)) :
    m.start ≤ s ∧ s % r.align = 0 ∧ e = s + r.n * r.size ∧ e ≤ m.stop ∧ e ≤ usz := by
  unfold tryFind at h
  simp only at h
  split at h
  · cases h
  · split at h
    · cases h
    · split at h
      · cases h
      · split at h
        · injection h with h; injection h with h1 h2
          subst h1 h2
          refine ⟨Nat.le_add_right _ _, padded_aligned _ _ ha, rfl, ?_, ?_⟩ <;> omega
        · cases h

/-- every element write `ptr.add(i).write(v)`, `i < n` (memory.rs:86, 104, 129, 135) lies inside the slice -/
theorem allocateSlice_writes {usz : Nat} {m : Chunk} {r : Req} {sl : Nat × Nat} {wr : List Nat} {rest : Chunk}
    (ha : 0 < r.align) (h : allocateSlice usz m r = some (sl, wr, rest)) :
    ∀ off ∈ wr, sl.1 ≤ off ∧ off + r.size ≤ sl.2 := by
  unfold allocateSlice at h
  split at h
  · cases h
  · rename_i s e hf
    injection h with h; injection h with h1 h2; injection h2 with h2 h3
    subst h1 h2 h3
    obtain ⟨_, _, he, _, _⟩ := tryFind_spec ha hf
    intro off hoff
    simp only [List.mem_map, List.mem_range] at hoff
    obtain ⟨i, hi, rfl⟩ := hoff
    refine ⟨Nat.le_add_right _ _, ?_⟩
    show s + i * r.size + r.size ≤ e
    have : (i + 1) * r.size ≤ r.n * r.size := Nat.mul_le_mul_right _ hi
    rw [Nat.succ_mul] at this
    omega

theorem allocateSlice_spec {usz : Nat} {m : Chunk} {r : Req} {sl : Nat × Nat} {wr : List Nat} {rest : Chunk}
    (ha : 0 < r.align) (h : allocateSlice usz m r = some (sl, wr, rest)) :
    m.start ≤ sl.1 ∧ sl.1 ≤ sl.2 ∧ sl.2 = rest.start ∧ rest.start ≤ m.stop ∧ rest.stop = m.stop ∧
    sl.1 % r.align = 0 := by
  unfold allocateSlice at h
  split at h
  · cases h
  · rename_i s e hf
    injection h with h; injection h with h1 h2; injection h2 with h2 h3
    subst h1 h3
    obtain ⟨h1, h2', he, h4, _⟩ := tryFind_spec ha hf
    exact ⟨h1, by omega, rfl, h4, rfl, h2'⟩

/-- a chain of nested `allocate_slice_*` calls: all slices lie inside the original chunk, each one
    ends before the next begins (pairwise disjoint), and the final remainder is behind all of them -/
theorem allocateMany_disjoint {usz : Nat} (rs : List Req) (hal : ∀ r ∈ rs, 0 < r.align) :
    ∀ {m : Chunk} {sls : List (Nat × Nat)} {fin : Chunk}, m.start ≤ m.stop →
      allocateMany usz m rs = some (sls, fin) →
      fin.stop = m.stop ∧ m.start ≤ fin.start ∧ fin.start ≤ fin.stop ∧
      (∀ sl ∈ sls, m.start ≤ sl.1 ∧ sl.1 ≤ sl.2 ∧ sl.2 ≤ fin.start) ∧
      sls.Pairwise (fun a b => a.2 ≤ b.1) := by
  induction rs with
  | nil =>
    intro m sls fin hm h
    simp only [allocateMany] at h
    injection h with h; injection h with h1 h2
    subst h1 h2
    exact ⟨rfl, Nat.le_refl _, hm, (by intro sl hs; cases hs), List.Pairwise.nil⟩
  | cons r rs ih =>
    intro m sls fin hm h
    simp only [allocateMany] at h
    split at h
    · cases h
    · rename_i sl wr rest hs
      split at h
      · cases h
      · rename_i sls' fin' hr
        injection h with h; injection h with h1 h2
        subst h1 h2
        obtain ⟨a1, a2, a3, a4, a5, _⟩ := allocateSlice_spec (hal r List.mem_cons_self) hs
        obtain ⟨b1, b2, b3, b4, b5⟩ := ih (fun r' hr' => hal r' (List.mem_cons_of_mem _ hr')) (by rw [a5]; exact a4) hr
        refine ⟨by rw [b1, a5], by omega, b3, ?_, ?_⟩
        · intro x hx
          rcases List.mem_cons.mp hx with rfl | hx
          · exact ⟨a1, a2, by omega⟩
          · obtain ⟨c1, c2, c3⟩ := b4 x hx
            exact ⟨by omega, c2, c3⟩
        · apply List.Pairwise.cons _ b5
          intro x hx
          obtain ⟨c1, _, _⟩ := b4 x hx
          omega

end Dashu.Model.Mem.Bump
