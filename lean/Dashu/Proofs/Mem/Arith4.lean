import Dashu.Model.Mem.Arith4
/-
  C17 (round 5) — the kernel-state functions used by the `sqrt` / `gcd` storage skeletons are C12's mirrored kernels:
    * `lehmerGcdLoopSw` (lehmer.rs `gcd_in_place` with its `swapped` flag) computes, in its value component, exactly C12's
      `lehmerGcdLoop` — so C12's theorems (`lehmer_gcd_correct`, completeness of the fuel) apply to the value the skeleton
      writes, and the flag is the only addition;
    * `sqrtLeftover` is the `a_hi` operand of the subtraction inside C12's `kSub` at the top level of `sqrtRemRec`.
-/
namespace Dashu.Proofs.Mem
open Dashu.Model Dashu.Model.Mem

/-- the value component of the flag-tracking loop is C12's loop, for every fuel, operands and initial flag -/
theorem lehmerGcdLoopSw_fst (W : Nat) : ∀ (fuel x y : Nat) (sw : Bool),
    (lehmerGcdLoopSw W fuel x y sw).map Prod.fst = NT.lehmerGcdLoop W fuel x y := by
  intro fuel
  induction fuel with
  | zero => intro x y sw; rfl
  | succ fuel ih =>
    intro x y sw
    unfold lehmerGcdLoopSw NT.lehmerGcdLoop
    by_cases h2 : NT.wordLen W y > 2
    · simp only [h2, if_true]
      rcases hc : NT.lehmerCofactors W x y with ⟨a, b, c, d⟩
      simp only
      by_cases hb : b = 0
      · simp only [hb, if_true]; exact ih _ _ _
      · simp only [hb, if_false]
        by_cases hneg : (a : Int) * x - (b : Int) * y < 0 ∨ (d : Int) * y - (c : Int) * x < 0
        · simp only [hneg, if_true]; rfl
        · simp only [hneg, if_false]
          by_cases hle : ((a : Int) * x - (b : Int) * y).toNat ≤ ((d : Int) * y - (c : Int) * x).toNat
          · simp only [hle, if_true]; exact ih _ _ _
          · simp only [hle, if_false]; exact ih _ _ _
    · simp only [h2, if_false]
      by_cases hy : y = 0
      · simp only [hy, if_true]; rfl
      · simp only [hy, if_false]
        cases NT.gcdPrim (x % y) y <;> rfl

/-- `gcd_in_place`'s value is C12's `lehmerGcd` -/
theorem lehmerGcdSw_fst (W lhs rhs : Nat) :
    (lehmerGcdSw W lhs rhs).map Prod.fst = NT.lehmerGcd W lhs rhs :=
  lehmerGcdLoopSw_fst W _ _ _ _

/-- `kSub` subtracts `a_hi` from `a_lo = [b0, u]`; the `a_hi` it uses is what `sqrtLeftover` reports for the same
    `(qlo, qtop)` -/
theorem kSub_uses_leftover (B Mn : Nat) (odd : Bool) (qlo : Nat) (qtop : Bool) (u : Nat) (c : Int) (b0 : Nat) :
    (NT.kSub B Mn odd qlo qtop u c b0).1 =
      (u * B + b0 + Mn -
        (if odd then (if qtop then 0 else qlo * qlo) + (if qtop then B * B else 0) else (if qtop then 0 else qlo * qlo))) % Mn := by
  unfold NT.kSub
  rfl

/-- for `n > 2` the leftover is computed from the SAME inner call and the same `kDiv` that C12's `sqrtRemRec` performs at
    its top level (fuel `n`, as `sqrtRemKernel` runs it) -/
theorem sqrtRemRec_top (W : Nat) (prim : Nat → Nat × Nat) (n a : Nat) (hn : 2 < n) :
    NT.sqrtRemRec W prim n n a =
      (let split := n / 2
       let h := n - split
       let B := 2 ^ (W * split)
       let (s1, r1, r1top) := NT.sqrtRemRec W prim (n - 1) h (a / (B * B))
       NT.kStep B (2 ^ (W * split - 1)) (2 ^ (W * h)) (2 ^ (W * n)) (decide (2 * split < n)) s1 r1 r1top (a / B % B) (a % B)) := by
  obtain ⟨m, rfl⟩ : ∃ m, n = m + 1 := ⟨n - 1, by omega⟩
  rw [NT.sqrtRemRec]
  simp only [Nat.add_sub_cancel, if_neg (show ¬ (m + 1 ≤ 2) by omega)]

theorem sqrtLeftover_top (W : Nat) (prim : Nat → Nat × Nat) (n a : Nat) (hn : 2 < n) :
    sqrtLeftover W prim n a =
      (let split := n / 2
       let h := n - split
       let B := 2 ^ (W * split)
       let (s1, r1, r1top) := NT.sqrtRemRec W prim (n - 1) h (a / (B * B))
       let (qlo, qtop, _, _) := NT.kDiv B (2 ^ (W * split - 1)) (2 ^ (W * h)) s1 r1 r1top (a / B % B)
       if decide (2 * split < n) then (if qtop then 0 else qlo * qlo) + (if qtop then B * B else 0)
       else (if qtop then 0 else qlo * qlo)) := by
  unfold sqrtLeftover
  rw [if_neg (by omega)]
  simp only [decide_eq_true_eq]

end Dashu.Proofs.Mem
