import Dashu.Model.Mem.Layout
import Dashu.Proofs.Mem.Memory
/-
  C17 (round 4) — memory.rs size/alignment arithmetic: every layout the wrappers can return is `Valid`; for a valid
  layout the `panic_allocate_too_much` arm of `MemoryAllocation::new` is dead and the `alloc` arm satisfies the
  `GlobalAlloc` contract (non-zero size, size rounded up to align ≤ isize::MAX); `add_layout(a, b)` is exactly large
  enough, and correctly aligned, for the two bump requests that consume it.
-/
namespace Dashu.Model.Mem.Lay

theorem pow_pos' (k : Nat) : 0 < 2 ^ k := Nat.pos_of_ne_zero (by exact Nat.pos_iff_ne_zero.mp (Nat.two_pow_pos k))

theorem zeroLayout_valid {U : Nat} (hU : 0 < U) : zeroLayout.Valid U := ⟨hU, Nat.zero_le _⟩

theorem fromSizeAlign_valid {U size alog : Nat} {l : Layout} (h : fromSizeAlign U size alog = some l) :
    l.Valid U ∧ l.size = size ∧ l.alog = alog := by
  unfold fromSizeAlign at h
  split at h
  · rename_i hc; cases h; exact ⟨hc, rfl, rfl⟩
  · cases h

/-- `array_layout::<T>(n)` returns a layout iff `n · size_of::<T>()` fits `max_size_for_align`; the layout is valid,
    of exactly `n · size_of::<T>()` bytes -/
theorem arrayLayout_isSome_iff (U esize alog n : Nat) :
    (arrayLayout U esize alog n).isSome = true ↔ esize * n ≤ maxSizeForAlign U alog := by
  unfold arrayLayout
  by_cases he : esize = 0
  · subst he; simp
  · have hpos : 0 < esize := Nat.pos_of_ne_zero he
    by_cases hn : n > maxSizeForAlign U alog / esize
    · simp only [ne_eq, he, not_false_eq_true, hn, and_self, ↓reduceIte, Option.isSome_none, Bool.false_eq_true, false_iff,
        Nat.not_le]
      have := (Nat.div_lt_iff_lt_mul hpos).mp hn
      rw [Nat.mul_comm]; exact this
    · simp only [ne_eq, he, not_false_eq_true, hn, and_false, ↓reduceIte, Option.isSome_some, true_iff]
      have hle : n ≤ maxSizeForAlign U alog / esize := Nat.le_of_not_gt hn
      have := (Nat.le_div_iff_mul_le hpos).mp hle
      rw [Nat.mul_comm]; exact this

theorem arrayLayout_valid {U esize alog n : Nat} {l : Layout} (hU : alog < U)
    (h : arrayLayout U esize alog n = some l) : l.Valid U ∧ l.size = esize * n ∧ l.alog = alog := by
  have hs := (arrayLayout_isSome_iff U esize alog n).mp (by rw [h]; rfl)
  unfold arrayLayout at h
  split at h
  · cases h
  · cases h; exact ⟨⟨hU, hs⟩, rfl, rfl⟩

/-- `padding_needed_for`: smaller than the alignment, and it aligns -/
theorem padding_spec (size alog : Nat) :
    paddingNeededFor size alog < 2 ^ alog ∧ (size + paddingNeededFor size alog) % 2 ^ alog = 0 := by
  unfold paddingNeededFor
  have hp := Nat.two_pow_pos alog
  generalize 2 ^ alog = a at hp
  refine ⟨Nat.mod_lt _ hp, ?_⟩
  have hr : size % a < a := Nat.mod_lt _ hp
  by_cases h0 : size % a = 0
  · rw [h0, Nat.sub_zero, Nat.mod_self, Nat.add_zero]; exact h0
  · have hlt : a - size % a < a := by omega
    rw [Nat.mod_eq_of_lt hlt]
    have hd := Nat.div_add_mod size a
    have : size + (a - size % a) = a * (size / a + 1) := by
      rw [Nat.mul_add, Nat.mul_one]; omega
    rw [this]; exact Nat.mul_mod_right _ _

theorem maxSizeForAlign_mono {U i j : Nat} (h : i ≤ j) : maxSizeForAlign U j ≤ maxSizeForAlign U i := by
  unfold maxSizeForAlign
  have := Nat.pow_le_pow_right (n := 2) (by decide) h
  omega

/-- `add_layout(a, b)`: the result is valid; `b` sits at `offset ≥ a.size`, aligned for `b`, less than one `b`-alignment
    after `a`; the total is `offset + b.size` -/
theorem addLayout_valid {U : Nat} {a b l : Layout} {off : Nat} (ha : a.Valid U) (hb : b.Valid U)
    (h : addLayout U a b = some (l, off)) :
    l.Valid U ∧ l.alog = max a.alog b.alog ∧ a.size ≤ off ∧ off < a.size + b.align ∧ off % b.align = 0 ∧
    l.size = off + b.size := by
  unfold addLayout at h
  simp only at h
  split at h
  · rename_i hc
    cases h
    have hp := padding_spec a.size b.alog
    refine ⟨⟨?_, hc⟩, rfl, Nat.le_add_right _ _, ?_, hp.2, rfl⟩
    · show max a.alog b.alog < U
      have := ha.1; have := hb.1; omega
    · unfold Layout.align; omega
  · cases h

theorem maxLayout_valid {U : Nat} {a b l : Layout} (h : maxLayout U a b = some l) :
    l.Valid U ∧ l.size = max a.size b.size ∧ l.alog = max a.alog b.alog := fromSizeAlign_valid h

/-- memory.rs:39 — for every valid layout the `layout.size() > isize::MAX` arm of `MemoryAllocation::new` is dead, and
    the allocator is called only with a non-zero size whose round-up to the (power-of-two) alignment does not exceed
    `isize::MAX`: the safety contract of `GlobalAlloc::alloc` (memory.rs:43 `unsafe { alloc(layout) }`) -/
theorem memoryAllocationNew_contract {U : Nat} {l : Layout} (h : l.Valid U) :
    memoryAllocationNew U l ≠ .tooMuch ∧
    (l.size = 0 → memoryAllocationNew U l = .dangling l.align ∧ memoryAllocationDrop l = none) ∧
    (l.size ≠ 0 → memoryAllocationNew U l = .alloc l.size l.align ∧
      memoryAllocationDrop l = some (l.size, l.align) ∧ l.size + (l.align - 1) ≤ isizeMax U) := by
  have hle : l.size ≤ isizeMax U := by
    have := h.2; unfold maxSizeForAlign at this; omega
  have hp := Nat.two_pow_pos l.alog
  have hal : 2 ^ l.alog - 1 ≤ isizeMax U := by
    -- `alog < U` ⇒ `2^alog ≤ 2^(U-1)`
    have h1 : l.alog ≤ U - 1 := by have := h.1; omega
    have := Nat.pow_le_pow_right (n := 2) (by decide) h1
    unfold isizeMax; omega
  unfold memoryAllocationNew memoryAllocationDrop
  refine ⟨?_, ?_, ?_⟩
  · by_cases h0 : l.size = 0
    · simp [h0]
    · have : ¬ l.size > isizeMax U := by omega
      simp [h0, this]
  · intro h0; simp [h0]
  · intro h0
    have : ¬ l.size > isizeMax U := by omega
    refine ⟨by simp [h0, this], by simp [h0], ?_⟩
    have := h.2; unfold maxSizeForAlign at this; unfold Layout.align; omega

theorem mod_zero_of_pow_le {s i j : Nat} (hij : i ≤ j) (h : s % 2 ^ j = 0) : s % 2 ^ i = 0 := by
  have hd : 2 ^ i ∣ 2 ^ j := Nat.pow_dvd_pow 2 hij
  exact Nat.mod_eq_zero_of_dvd (Nat.dvd_trans hd (Nat.dvd_of_mod_eq_zero h))

/-- `try_find_memory_for_slice` succeeds at `start + pad` whenever the padded request fits -/
theorem tryFind_ok {usz pad : Nat} {m : Bump.Chunk} {r : Bump.Req}
    (hp : (r.align - m.start % r.align) % r.align = pad) (h : m.start + pad + r.n * r.size ≤ m.stop)
    (hu : m.stop ≤ usz) :
    Bump.tryFind usz m r = some (m.start + pad, m.start + pad + r.n * r.size) := by
  unfold Bump.tryFind
  simp only [hp]
  have c1 : ¬ m.start + pad > usz := by omega
  have c2 : ¬ r.n * r.size > usz := by omega
  have c3 : ¬ m.start + pad + r.n * r.size > usz := by omega
  simp only [c1, c2, c3, h, ↓reduceIte]

/-- memory.rs `add_layout` is SUFFICIENT and correctly aligned for its two consumers: in a block of
    `add_layout(array_layout::<A>(na), array_layout::<B>(nb))` bytes that starts at an address aligned to the combined
    alignment (what the allocator returns), `allocate_slice::<A>(na)` followed by `allocate_slice::<B>(nb)` on the
    remainder both succeed, with no padding before the first slice, the second slice exactly at `offset`, and nothing
    left over — for all element sizes, alignments and counts (pow.rs: "store res before squaring" + squaring scratch) -/
theorem addLayout_serves_bump {U usz : Nat} {ea aa na eb ab nb : Nat} {la lb l : Layout} {off : Nat}
    (ha : arrayLayout U ea aa na = some la) (hb : arrayLayout U eb ab nb = some lb)
    (h : addLayout U la lb = some (l, off)) (s : Nat) (hs : s % l.align = 0) (hfit : s + l.size ≤ usz) :
    Bump.allocateMany usz ⟨s, s + l.size⟩ [reqOf ea aa na, reqOf eb ab nb] =
      some ([(s, s + la.size), (s + off, s + l.size)], ⟨s + l.size, s + l.size⟩) := by
  -- shapes of the layouts
  have hla : la = ⟨ea * na, aa⟩ := by
    unfold arrayLayout at ha; split at ha
    · cases ha
    · cases ha; rfl
  have hlb : lb = ⟨eb * nb, ab⟩ := by
    unfold arrayLayout at hb; split at hb
    · cases hb
    · cases hb; rfl
  subst hla hlb
  unfold addLayout at h
  simp only at h
  split at h
  · cases h
    simp only [Layout.align] at hs
    simp only at hfit
    have hsa : s % 2 ^ aa = 0 := mod_zero_of_pow_le (Nat.le_max_left _ _) hs
    have hsb : s % 2 ^ ab = 0 := mod_zero_of_pow_le (Nat.le_max_right _ _) hs
    have eA : na * ea = ea * na := Nat.mul_comm _ _
    have eB : nb * eb = eb * nb := Nat.mul_comm _ _
    have hpadlt := (padding_spec (ea * na) ab).1
    generalize hpd : paddingNeededFor (ea * na) ab = pad at hfit hpadlt ⊢
    -- first request: no padding
    have hA : Bump.tryFind usz ⟨s, s + (ea * na + pad + eb * nb)⟩ (reqOf ea aa na) = some (s + 0, s + 0 + na * ea) := by
      apply tryFind_ok
      · show (2 ^ aa - s % 2 ^ aa) % 2 ^ aa = 0
        rw [hsa, Nat.sub_zero, Nat.mod_self]
      · show s + 0 + na * ea ≤ s + (ea * na + pad + eb * nb)
        omega
      · exact hfit
    -- second request: padding = `padding_needed_for`
    have hB : Bump.tryFind usz ⟨s + 0 + na * ea, s + (ea * na + pad + eb * nb)⟩ (reqOf eb ab nb) =
        some (s + 0 + na * ea + pad, s + 0 + na * ea + pad + nb * eb) := by
      apply tryFind_ok
      · show (2 ^ ab - (s + 0 + na * ea) % 2 ^ ab) % 2 ^ ab = pad
        rw [Nat.add_zero, eA, Nat.add_mod, hsb, Nat.zero_add, Nat.mod_mod, ← hpd]
        rfl
      · show s + 0 + na * ea + pad + nb * eb ≤ s + (ea * na + pad + eb * nb)
        omega
      · exact hfit
    simp only [Bump.allocateMany, Bump.allocateSlice, hA, hB]
    simp only [Option.some.injEq, Prod.mk.injEq, List.cons.injEq, and_true, Bump.Chunk.mk.injEq]
    omega
  · cases h

/-- memory.rs `max_layout(a, b)` serves EITHER consumer: in a block of `max_layout(array_layout::<A>(na),
    array_layout::<B>(nb))` bytes at an address aligned to the combined alignment, `allocate_slice::<A>(na)` alone and
    `allocate_slice::<B>(nb)` alone each succeed at the block start (root.rs `memory_requirement_sqrt_rem`: one squaring OR
    one division at a time; div / gcd requirements are built the same way) -/
theorem maxLayout_serves_each {U usz : Nat} {ea aa na eb ab nb : Nat} {la lb l : Layout}
    (ha : arrayLayout U ea aa na = some la) (hb : arrayLayout U eb ab nb = some lb)
    (h : maxLayout U la lb = some l) (s : Nat) (hs : s % l.align = 0) (hfit : s + l.size ≤ usz) :
    Bump.tryFind usz ⟨s, s + l.size⟩ (reqOf ea aa na) = some (s, s + la.size) ∧
    Bump.tryFind usz ⟨s, s + l.size⟩ (reqOf eb ab nb) = some (s, s + lb.size) := by
  have hla : la = ⟨ea * na, aa⟩ := by
    unfold arrayLayout at ha; split at ha
    · cases ha
    · cases ha; rfl
  have hlb : lb = ⟨eb * nb, ab⟩ := by
    unfold arrayLayout at hb; split at hb
    · cases hb
    · cases hb; rfl
  subst hla hlb
  obtain ⟨_, hsz, hal⟩ := maxLayout_valid h
  simp only at hsz hal
  simp only [Layout.align, hal] at hs
  have hsa : s % 2 ^ aa = 0 := mod_zero_of_pow_le (Nat.le_max_left _ _) hs
  have hsb : s % 2 ^ ab = 0 := mod_zero_of_pow_le (Nat.le_max_right _ _) hs
  have eA : na * ea = ea * na := Nat.mul_comm _ _
  have eB : nb * eb = eb * nb := Nat.mul_comm _ _
  have hA : Bump.tryFind usz ⟨s, s + l.size⟩ (reqOf ea aa na) = some (s + 0, s + 0 + na * ea) := by
    apply tryFind_ok
    · show (2 ^ aa - s % 2 ^ aa) % 2 ^ aa = 0
      rw [hsa, Nat.sub_zero, Nat.mod_self]
    · show s + 0 + na * ea ≤ s + l.size
      rw [hsz]; omega
    · exact hfit
  have hB : Bump.tryFind usz ⟨s, s + l.size⟩ (reqOf eb ab nb) = some (s + 0, s + 0 + nb * eb) := by
    apply tryFind_ok
    · show (2 ^ ab - s % 2 ^ ab) % 2 ^ ab = 0
      rw [hsb, Nat.sub_zero, Nat.mod_self]
    · show s + 0 + nb * eb ≤ s + l.size
      rw [hsz]; omega
    · exact hfit
  rw [hA, hB, Nat.add_zero, eA, eB]
  exact ⟨rfl, rfl⟩

/-- word arrays: `add_layout(array_layout::<Word>(na), array_layout::<Word>(nb))` is `na + nb` words with the second
    part right behind the first — the word count used for the scratch block of the pow skeletons -/
theorem addLayout_words {U k na nb : Nat} {l : Layout} {off : Nat}
    (h : addLayout U ⟨2 ^ k * na, k⟩ ⟨2 ^ k * nb, k⟩ = some (l, off)) :
    l.size = 2 ^ k * (na + nb) ∧ off = 2 ^ k * na ∧ l.alog = k := by
  unfold addLayout at h
  simp only at h
  split at h
  · cases h
    have hp : paddingNeededFor (2 ^ k * na) k = 0 := by
      unfold paddingNeededFor
      rw [Nat.mul_mod_right, Nat.sub_zero, Nat.mod_self]
    refine ⟨?_, ?_, Nat.max_self k⟩
    · show 2 ^ k * na + paddingNeededFor (2 ^ k * na) k + 2 ^ k * nb = _
      rw [hp, Nat.add_zero, Nat.mul_add]
    · show 2 ^ k * na + paddingNeededFor (2 ^ k * na) k = _
      rw [hp, Nat.add_zero]
  · cases h

end Dashu.Model.Mem.Lay
