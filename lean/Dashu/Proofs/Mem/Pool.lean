import Dashu.Proofs.Mem.Static
import Dashu.Model.Mem.Pool
/-
  C17 — the pool invariant and its preservation by every operation, then by every history.
-/
namespace Dashu.Model.Mem

theorem Slot.own_rep (r : Rep) : (Slot.rep r).own = r.own := by cases r <;> rfl

def Slot.Wf (mx : Nat) : Slot → Prop
  | .empty => True
  | .buf b => b.Wf mx
  | .rep r => r.Canon mx
  | .stat ws _ => StaticWf ws

/-- the pool/ledger invariant:
    `wf`   every buffer has `len ≤ cap`, `0 < cap ≤ MAX_CAPACITY`; every `Repr` is canonical;
    `live` every allocation a register owns is live in the ledger with exactly the stored capacity;
    `inj`  no two registers own the same allocation;
    `cov`  every live allocation is owned by some register (nothing is leaked). -/
structure Inv (mx : Nat) (P : Pool) (L : Ledger) : Prop where
  wf : ∀ k, (P k).Wf mx
  live : ∀ k id c, (P k).own = some (id, c) → L id = some c
  inj : ∀ k k' id c c', (P k).own = some (id, c) → (P k').own = some (id, c') → k = k'
  cov : ∀ id c, L id = some c → ∃ k, (P k).own = some (id, c)

theorem Inv.empty (mx : Nat) : Inv mx Pool.empty Ledger.empty where
  wf := fun _ => trivial
  live := by intro k id c h; cases h
  inj := by intro k k' id c c' h; cases h
  cov := by intro id c h; cases h

variable {L : Ledger} {n mx : Nat} {P : Pool}

theorem Sat.illTyped {α : Type} {Q : α → Ledger → Nat → Prop} : Sat L n (illTyped : M α) Q := Sat.fault_panic

@[simp] theorem Pool.set_same (P : Pool) (k : Nat) (s : Slot) : (P.set k s) k = s := by simp [Pool.set]
theorem Pool.set_other (P : Pool) {k j : Nat} (s : Slot) (h : j ≠ k) : (P.set k s) j = P j := by
  simp [Pool.set, h]

/-- replacing the content of one register, with the ledger moving accordingly, keeps the invariant -/
theorem Inv.update {L' : Ledger} {k : Nat} {s' : Slot} (h : Inv mx P L) (hB : L.Below n)
    (hm : Moves L L' n (P k).own s'.own) (hw : s'.Wf mx) : Inv mx (P.set k s') L' where
  wf := by
    intro j
    by_cases hj : j = k
    · subst hj; rw [Pool.set_same]; exact hw
    · rw [Pool.set_other _ _ hj]; exact h.wf j
  live := by
    intro j id c ho
    by_cases hj : j = k
    · subst hj; rw [Pool.set_same] at ho; exact hm.new_live id c ho
    · rw [Pool.set_other _ _ hj] at ho
      apply hm.other hB (h.live j id c ho)
      intro c0 hc0
      exact hj (h.inj j k id c c0 ho hc0)
  inj := by
    intro j j' id c c' ho ho'
    by_cases hj : j = k <;> by_cases hj' : j' = k
    · rw [hj, hj']
    · subst hj
      rw [Pool.set_same] at ho; rw [Pool.set_other _ _ hj'] at ho'
      rcases hm.new_from id c ho with ⟨c0, h0⟩ | hle
      · exact h.inj j j' id c0 c' h0 ho'
      · have := live_lt hB (h.live j' id c' ho'); omega
    · subst hj'
      rw [Pool.set_same] at ho'; rw [Pool.set_other _ _ hj] at ho
      rcases hm.new_from id c' ho' with ⟨c0, h0⟩ | hle
      · exact h.inj j j' id c c0 ho h0
      · have := live_lt hB (h.live j id c ho); omega
    · rw [Pool.set_other _ _ hj] at ho; rw [Pool.set_other _ _ hj'] at ho'
      exact h.inj j j' id c c' ho ho'
  cov := by
    intro id c hl
    by_cases hnew : ∃ c'', s'.own = some (id, c'')
    · obtain ⟨c'', hc''⟩ := hnew
      have := hm.new_live id c'' hc''
      rw [hl] at this; injection this with this; subst this
      exact ⟨k, by rw [Pool.set_same]; exact hc''⟩
    · have hnw : ∀ c'', s'.own ≠ some (id, c'') := fun c'' hc => hnew ⟨c'', hc⟩
      by_cases hold : ∃ c0, (P k).own = some (id, c0)
      · obtain ⟨c0, hc0⟩ := hold
        have := hm.old_dead id c0 hc0 hnw
        rw [hl] at this; cases this
      · have hno : ∀ c0, (P k).own ≠ some (id, c0) := fun c0 hc => hold ⟨c0, hc⟩
        rcases hm.frame id hno hnw with heq | ⟨_, hd⟩
        · rw [heq] at hl
          obtain ⟨j, hj⟩ := h.cov id c hl
          have hjk : j ≠ k := by intro e; subst e; exact hno c hj
          exact ⟨j, by rw [Pool.set_other _ _ hjk]; exact hj⟩
        · rw [hl] at hd; cases hd

/-- what `step` promises -/
def StepPost (mx : Nat) (P : Pool) (k : Nat) : Pool → Ledger → Nat → Prop :=
  fun P' L' _ => Inv mx P' L' ∧ ∀ j, j ≠ k → P' j = P j

/-- what the body of a single-register operation must establish -/
def SlotPost (mx : Nat) (L : Ledger) (n : Nat) (old : Option (Nat × Nat)) : Slot → Ledger → Nat → Prop :=
  fun s L' _ => Moves L L' n old s.own ∧ s.Wf mx

theorem setSlot_sat {k : Nat} {m : M Slot} (hI : Inv mx P L)
    (hm : Sat L n m (SlotPost mx L n (P k).own)) :
    Sat L n (do let s ← m; pure (P.set k s)) (StepPost mx P k) := by
  apply Sat.of_below; intro hB
  apply Sat.bind
  apply Sat.conseq hm
  intro s L' n' _ ⟨hmv, hw⟩
  apply Sat.pure
  exact ⟨hI.update hB hmv hw, fun j hj => Pool.set_other _ _ hj⟩

theorem create_sat {k : Nat} {m : M Slot} (hI : Inv mx P L)
    (hm : Sat L n m (SlotPost mx L n none)) : Sat L n (create P k m) (StepPost mx P k) := by
  unfold create
  split
  · rename_i he
    apply setSlot_sat hI
    rw [he]; exact hm
  · exact Sat.illTyped

theorem onBuf_sat {k : Nat} {f : Buf → M Slot} (hI : Inv mx P L)
    (hf : ∀ b, P k = .buf b → L b.id = some b.cap → b.Wf mx → Sat L n (f b) (SlotPost mx L n b.own)) :
    Sat L n (onBuf P k f) (StepPost mx P k) := by
  unfold onBuf
  split
  · rename_i b he
    apply setSlot_sat hI
    have hl : L b.id = some b.cap := hI.live k b.id b.cap (by rw [he]; rfl)
    have hw : b.Wf mx := by have := hI.wf k; rw [he] at this; exact this
    rw [he]; exact hf b he hl hw
  · exact Sat.illTyped

theorem onRep_sat {k : Nat} {f : Rep → M Slot} (hI : Inv mx P L)
    (hf : ∀ r, P k = .rep r → r.Live L → r.Canon mx → Sat L n (f r) (SlotPost mx L n r.own)) :
    Sat L n (onRep P k f) (StepPost mx P k) := by
  unfold onRep
  split
  · rename_i r he
    apply setSlot_sat hI
    have hl : r.Live L := by
      intro id c ho; apply hI.live k id c; rw [he, Slot.own_rep]; exact ho
    have hw : r.Canon mx := by have := hI.wf k; rw [he] at this; exact this
    rw [he, Slot.own_rep]; exact hf r he hl hw
  · exact Sat.illTyped

theorem bufSlot_sat {m : M Buf} {old : Option (Nat × Nat)}
    (hm : Sat L n m (fun b L' _ => Moves L L' n old b.own ∧ b.Wf mx)) :
    Sat L n (bufSlot m) (SlotPost mx L n old) := by
  unfold bufSlot
  apply Sat.bind
  apply Sat.conseq hm
  intro b L' n' _ ⟨hmv, hw⟩
  exact Sat.pure ⟨hmv, hw⟩

theorem repSlot_sat {m : M Rep} {old : Option (Nat × Nat)}
    (hm : Sat L n m (fun r L' _ => Moves L L' n old r.own ∧ r.Canon mx)) :
    Sat L n (repSlot m) (SlotPost mx L n old) := by
  unfold repSlot
  apply Sat.bind
  apply Sat.conseq hm
  intro r L' n' _ ⟨hmv, hw⟩
  apply Sat.pure
  exact ⟨by rw [Slot.own_rep]; exact hmv, hw⟩

/-- weaken a `BPost`/`CPost` to what `bufSlot_sat` needs -/
theorem Sat.bpost {m : M Buf} {b : Buf} {R : Buf → Prop} (h : Sat L n m (BPost mx L n b R)) :
    Sat L n m (fun b' L' _ => Moves L L' n b.own b'.own ∧ b'.Wf mx) :=
  Sat.conseq h (fun _ _ _ _ hq => ⟨hq.1, hq.2.1⟩)

theorem Sat.cpost {m : M Buf} {R : Buf → Prop} (h : Sat L n m (CPost mx L n R)) :
    Sat L n m (fun b' L' _ => Moves L L' n none b'.own ∧ b'.Wf mx) :=
  Sat.conseq h (fun _ _ _ _ hq => ⟨hq.1, hq.2.1⟩)

/-- hypotheses on an operation under which the invariant is kept: `ensure_capacity_exact(c)` needs
    `c ≤ MAX_CAPACITY` (the code does not check it; see `ensureCapacityExact_breaks_max`) -/
def Op.Ok (mx : Nat) : Op → Prop
  | .ensureCapacityExact _ c => c ≤ mx
  | _ => True

/-- a borrowed view of another register is a readable source -/
theorem view_srcOk {j : Nat} {src : Option Nat} {ws : List Nat} (hI : Inv mx P L)
    (hv : (P j).view = some (src, ws)) : SrcOk L src ws.length := by
  intro s hs
  have hwf := hI.wf j
  cases hp : P j with
  | empty => rw [hp] at hv; cases hv
  | buf b =>
    rw [hp] at hv hwf; simp only [Slot.view] at hv
    injection hv with hv; injection hv with h1 h2
    subst h1 h2; injection hs with hs; subst hs
    exact ⟨b.cap, hI.live j b.id b.cap (by rw [hp]; rfl), hwf.1⟩
  | stat ws' neg =>
    rw [hp] at hv; simp only [Slot.view] at hv
    injection hv with hv; injection hv with h1 h2
    subst h1; cases hs
  | rep r =>
    cases r with
    | inline lo hi code neg =>
      rw [hp] at hv; simp only [Slot.view] at hv
      injection hv with hv; injection hv with h1 h2
      subst h1; cases hs
    | heap id cap ws' neg =>
      rw [hp] at hv hwf; simp only [Slot.view] at hv
      injection hv with hv; injection hv with h1 h2
      subst h1 h2; injection hs with hs; subst hs
      exact ⟨cap, hI.live j id cap (by rw [hp]; rfl), hwf.2.2.1⟩

/-- `drop(register k)`: the register is empty afterwards, its allocation (if any) freed exactly once -/
theorem drop_sat {W : Nat} (hI : Inv mx P L) (k : Nat) :
    Sat L n (step W mx P (.drop k)) (fun P' L' _ => Inv mx P' L' ∧ P' k = .empty ∧ ∀ j, j ≠ k → P' j = P j) := by
  simp only [step]
  apply Sat.of_below; intro hB
  split
  · rename_i he
    apply Sat.pure
    exact ⟨hI, he, fun _ _ => rfl⟩
  · rename_i b he
    have hl : L b.id = some b.cap := hI.live k b.id b.cap (by rw [he]; rfl)
    apply Sat.bind
    apply Sat.conseq (dropBuf_sat hl)
    intro _ L' n' _ hm
    apply Sat.pure
    exact ⟨hI.update hB (by rw [he]; exact hm) trivial, Pool.set_same _ _ _, fun j hj => Pool.set_other _ _ hj⟩
  · rename_i r he
    have hl : r.Live L := by
      intro id c ho; apply hI.live k id c; rw [he, Slot.own_rep]; exact ho
    apply Sat.bind
    apply Sat.conseq (repDrop_sat hl)
    intro _ L' n' _ hm
    apply Sat.pure
    exact ⟨hI.update hB (by rw [he, Slot.own_rep]; exact hm) trivial, Pool.set_same _ _ _,
      fun j hj => Pool.set_other _ _ hj⟩
  · rename_i ws neg he
    apply Sat.pure
    exact ⟨hI.update hB (by rw [he]; exact Moves.refl_none) trivial, Pool.set_same _ _ _,
      fun j hj => Pool.set_other _ _ hj⟩

/-- (a)+(b): one operation keeps the invariant, emits only safe events, never reaches UB -/
theorem step_sat {W : Nat} (hW : 0 < W) (hI : Inv mx P L) (op : Op) (hok : op.Ok mx) :
    Sat L n (step W mx P op) (StepPost mx P op.target) := by
  cases op with
  | allocate k c => exact create_sat hI (bufSlot_sat allocate_sat.cpost)
  | allocateExact k c => exact create_sat hI (bufSlot_sat allocateExact_sat.cpost)
  | fromWords k ws =>
    exact create_sat hI (bufSlot_sat (fromSlice_sat (by intro s hs; cases hs)).cpost)
  | fromWord k w => exact create_sat hI (Sat.pure ⟨Moves.refl_none, Rep.canon_fromWord (mx := mx) w⟩)
  | fromDword k lo hi =>
    apply create_sat hI
    apply Sat.pure
    refine ⟨?_, Rep.canon_fromDword (mx := mx) lo hi⟩
    unfold Rep.fromDword; exact Moves.refl_none
  | ones k c =>
    apply create_sat hI
    apply repSlot_sat
    exact Sat.conseq (ones_sat hW) (fun _ _ _ _ hq => ⟨hq.1, hq.2.1⟩)
  | bufClone k j =>
    simp only [step, Op.target]
    apply Sat.ite
    · intro _; exact Sat.illTyped
    · intro hkj
      split
      · rename_i src hp
        have hl : L src.id = some src.cap := hI.live j src.id src.cap (by rw [hp]; rfl)
        have hw : src.Wf mx := by have := hI.wf j; rw [hp] at this; exact this
        exact create_sat hI (bufSlot_sat (cloneBuf_sat hl hw).cpost)
      · exact Sat.illTyped
  | repClone k j =>
    simp only [step, Op.target]
    apply Sat.ite
    · intro _; exact Sat.illTyped
    · intro hkj
      split
      · rename_i src hp
        have hl : src.Live L := by
          intro id c ho; apply hI.live j id c; rw [hp, Slot.own_rep]; exact ho
        have hw : src.Canon mx := by have := hI.wf j; rw [hp] at this; exact this
        apply create_sat hI
        apply repSlot_sat
        exact Sat.conseq (repClone_sat hw hl) (fun _ _ _ _ hq => ⟨hq.1, hq.2.1⟩)
      · rename_i ws neg hp
        have hw : StaticWf ws := by have := hI.wf j; rw [hp] at this; exact this
        apply create_sat hI
        apply repSlot_sat
        exact Sat.conseq (cloneStatic_sat hw) (fun _ _ _ _ hq => ⟨hq.1, hq.2.1⟩)
      · exact Sat.illTyped
  | ensureCapacity k c =>
    exact onBuf_sat hI fun b _ hl hw => bufSlot_sat (ensureCapacity_sat hl hw).bpost
  | ensureCapacityExact k c =>
    exact onBuf_sat hI fun b _ hl hw => bufSlot_sat (ensureCapacityExact_sat hl hw hok).bpost
  | shrinkToFit k => exact onBuf_sat hI fun b _ hl hw => bufSlot_sat (shrinkToFit_sat hl hw).bpost
  | push k w => exact onBuf_sat hI fun b _ hl hw => bufSlot_sat (push_sat hl hw).bpost
  | pushResizing k w => exact onBuf_sat hI fun b _ hl hw => bufSlot_sat (pushResizing_sat hl hw).bpost
  | pushZeros k c => exact onBuf_sat hI fun b _ hl hw => bufSlot_sat (pushZeros_sat hl hw).bpost
  | pushZerosFront k c => exact onBuf_sat hI fun b _ hl hw => bufSlot_sat (pushZerosFront_sat hl hw).bpost
  | pushSlice k ws =>
    exact onBuf_sat hI fun b _ hl hw =>
      bufSlot_sat (pushSlice_sat hl hw (by intro s hs; cases hs)).bpost
  | pushSliceFrom k j =>
    simp only [step, Op.target]
    apply Sat.ite
    · intro _; exact Sat.illTyped
    · intro hkj
      split
      · rename_i src ws hv
        exact onBuf_sat hI fun b _ hl hw => bufSlot_sat (pushSlice_sat hl hw (view_srcOk hI hv)).bpost
      · exact Sat.illTyped
  | popZeros k => exact onBuf_sat hI fun b _ hl hw => bufSlot_sat (popZeros_sat hl hw).bpost
  | truncate k c => exact onBuf_sat hI fun b _ hl hw => bufSlot_sat (truncate_sat hl hw).bpost
  | eraseFront k c => exact onBuf_sat hI fun b _ hl hw => bufSlot_sat (eraseFront_sat hl hw).bpost
  | lowestDword k =>
    apply onBuf_sat hI
    intro b _ hl hw
    apply Sat.bind
    apply Sat.conseq (lowestDword_sat hl hw)
    intro _ L' n' _ hL'
    subst L'
    exact Sat.pure ⟨Moves.refl hl, hw⟩
  | lowestDwordMut k lo hi =>
    exact onBuf_sat hI fun b _ hl hw => bufSlot_sat (lowestDwordMut_sat hl hw).bpost
  | deref k =>
    apply onBuf_sat hI
    intro b _ hl hw
    apply Sat.bind
    apply Sat.conseq (deref_sat hl hw)
    intro _ L' n' _ ⟨hL', _⟩
    subst L'
    exact Sat.pure ⟨Moves.refl hl, hw⟩
  | cloneFromSlice k ws =>
    exact onBuf_sat hI fun b _ hl hw =>
      bufSlot_sat (cloneFromSlice_sat hl hw (by intro s hs; cases hs)).bpost
  | cloneFromSliceFrom k j =>
    simp only [step, Op.target]
    apply Sat.ite
    · intro _; exact Sat.illTyped
    · intro hkj
      split
      · rename_i src ws hv
        exact onBuf_sat hI fun b _ hl hw =>
          bufSlot_sat (cloneFromSlice_sat hl hw (view_srcOk hI hv)).bpost
      · exact Sat.illTyped
  | bufCloneFrom k j =>
    simp only [step, Op.target]
    apply Sat.ite
    · intro _; exact Sat.illTyped
    · intro hkj
      split
      · rename_i src hp
        have hls : L src.id = some src.cap := hI.live j src.id src.cap (by rw [hp]; rfl)
        have hws : src.Wf mx := by have := hI.wf j; rw [hp] at this; exact this
        apply onBuf_sat hI
        intro b hb hl hw
        have hne : src.id ≠ b.id := by
          intro e
          have := hI.inj j k src.id src.cap b.cap (by rw [hp]; rfl) (by rw [hb, e]; rfl)
          exact hkj this.symm
        exact bufSlot_sat (cloneFromBuf_sat hl hw hls hws hne).bpost
      · exact Sat.illTyped
  | intoBoxedSlice k =>
    apply onBuf_sat hI
    intro b _ hl hw
    apply Sat.bind
    apply Sat.conseq (intoBoxedSlice_sat hl)
    intro bx L1 n1 hn1 hq
    cases bx with
    | none =>
      apply Sat.bind
      unfold dropBox
      apply Sat.pure
      exact Sat.pure ⟨hq, trivial⟩
    | some bb =>
      obtain ⟨hm1, _⟩ := hq
      apply Sat.bind
      unfold dropBox
      apply Sat.conseq (dropBuf_sat (hm1.new_live _ _ rfl))
      intro _ L2 n2 hn2 hm2
      exact Sat.pure ⟨hm1.trans hm2 hn1, trivial⟩
  | fromBuffer k =>
    apply onBuf_sat hI
    intro b _ hl hw
    apply repSlot_sat
    exact Sat.conseq (fromBuffer_sat hl hw) (fun _ _ _ _ hq => ⟨hq.1, hq.2.1⟩)
  | intoBuffer k =>
    apply onRep_sat hI
    intro r _ hl hc
    apply bufSlot_sat
    exact Sat.conseq (intoBuffer_sat hc hl) (fun _ _ _ _ hq => ⟨hq.1, hq.2.1⟩)
  | intoTyped k =>
    apply onRep_sat hI
    intro r _ hl hc
    apply Sat.bind
    apply Sat.conseq (intoTyped_sat hc hl)
    intro t L' n' _ ⟨hL', hown, ht⟩
    subst L'
    cases t with
    | small lo hi =>
      apply Sat.pure
      refine ⟨?_, Rep.canon_fromDword (mx := mx) lo hi⟩
      simp only [Rep.Typed.own] at hown
      rw [← hown]
      unfold Rep.fromDword; exact Moves.refl_none
    | large b =>
      apply Sat.pure
      simp only [Rep.Typed.own] at hown
      refine ⟨?_, ht.1⟩
      show Moves L L n r.own b.own
      rw [← hown]
      exact Moves.refl (hl b.id b.cap hown.symm)
  | repCloneFrom k j =>
    simp only [step, Op.target]
    apply Sat.ite
    · intro _; exact Sat.illTyped
    · intro hkj
      split
      · rename_i src hp
        have hls : src.Live L := by
          intro id c ho; apply hI.live j id c; rw [hp, Slot.own_rep]; exact ho
        have hcs : src.Canon mx := by have := hI.wf j; rw [hp] at this; exact this
        apply onRep_sat hI
        intro r hr hl hc
        have hne : ∀ i c i' c', r.own = some (i, c) → src.own = some (i', c') → i ≠ i' := by
          intro i c i' c' h1 h2 e
          subst e
          have := hI.inj k j i c c' (by rw [hr, Slot.own_rep]; exact h1) (by rw [hp, Slot.own_rep]; exact h2)
          exact hkj this
        apply repSlot_sat
        exact Sat.conseq (repCloneFrom_sat hc hcs hl hls hne) (fun _ _ _ _ hq => ⟨hq.1, hq.2.1⟩)
      · rename_i ws neg hp
        have hw : StaticWf ws := by have := hI.wf j; rw [hp] at this; exact this
        apply onRep_sat hI
        intro r hr hl hc
        apply repSlot_sat
        exact Sat.conseq (cloneFromStatic_sat hc hl hw) (fun _ _ _ _ hq => ⟨hq.1, hq.2.1⟩)
      · exact Sat.illTyped
  | withSign k s =>
    apply onRep_sat hI
    intro r _ hl hc
    apply Sat.pure
    refine ⟨?_, Rep.canon_withSign hc s⟩
    rw [Slot.own_rep, Rep.own_withSign]
    cases ho : r.own with
    | none => exact Moves.refl_none
    | some p => exact Moves.refl (hl p.1 p.2 ho)
  | neg k =>
    apply onRep_sat hI
    intro r _ hl hc
    apply Sat.pure
    refine ⟨?_, Rep.canon_negate hc⟩
    rw [Slot.own_rep, Rep.own_negate]
    cases ho : r.own with
    | none => exact Moves.refl_none
    | some p => exact Moves.refl (hl p.1 p.2 ho)
  | asSlice k =>
    simp only [step, Op.target]
    split
    · exact Sat.pure ⟨hI, fun _ _ => rfl⟩
    · apply onRep_sat hI
      intro r _ hl hc
      apply Sat.bind
      apply Sat.conseq (asSlice_sat hc hl)
      intro _ L' n' _ ⟨hL', _⟩
      subst L'
      apply Sat.pure
      refine ⟨?_, hc⟩
      rw [Slot.own_rep]
      cases ho : r.own with
      | none => exact Moves.refl_none
      | some p => exact Moves.refl (hl p.1 p.2 ho)
  | fromStaticWords k ws neg =>
    apply create_sat hI
    apply Sat.bind
    apply Sat.conseq (fromStaticWords_sat (mx := mx) ws)
    intro o L' n' _ ⟨hL', _, ho⟩
    subst L'
    cases o with
    | value r =>
      obtain ⟨hc, hown, _, _⟩ := ho
      apply Sat.pure
      refine ⟨?_, Rep.canon_withSign hc neg⟩
      rw [Slot.own_rep, Rep.own_withSign, hown]; exact Moves.refl_none
    | stat ws' =>
      apply Sat.pure
      exact ⟨Moves.refl_none, ho.2⟩
  | bufFromView k j =>
    simp only [step, Op.target]
    apply Sat.ite
    · intro _; exact Sat.illTyped
    · intro hkj
      split
      · rename_i src ws hv
        exact create_sat hI (bufSlot_sat (fromSlice_sat (view_srcOk hI hv)).cpost)
      · exact Sat.illTyped
  | pushTailFrom k j lo =>
    simp only [step, Op.target]
    apply Sat.ite
    · intro _; exact Sat.illTyped
    · intro hkj
      split
      · rename_i src ws hv
        apply Sat.ite
        · intro hlo
          have hs : SrcOk L src (ws.drop lo).length := by
            intro s hs
            obtain ⟨c, hc, hle⟩ := view_srcOk hI hv s hs
            exact ⟨c, hc, by simp only [List.length_drop]; omega⟩
          exact onBuf_sat hI fun b _ hl hw => bufSlot_sat (pushSlice_sat hl hw hs).bpost
        · intro _
          exact onBuf_sat hI fun b _ hl hw => Sat.assertFail
      · exact Sat.illTyped
  | overwrite k ws =>
    apply onBuf_sat hI
    intro b _ hl hw
    apply Sat.ite
    · intro hlen
      apply Sat.bind
      apply Sat.emits (L1 := L) (replay_wr hl _ _ (by have := hw.1; omega)) (isAlloc_wr _ _ _)
      apply Sat.pure
      refine ⟨Moves.refl hl, ?_⟩
      show ws.length ≤ b.cap ∧ _
      have := hw.1; unfold Buf.len at this hlen
      exact ⟨by omega, hw.2.1, hw.2.2⟩
    · intro _; exact Sat.illTyped
  | intoSignTyped k =>
    apply onRep_sat hI
    intro r _ hl hc
    apply Sat.bind
    apply Sat.conseq (intoSignTyped_sat hc hl)
    intro o L' n' _ ⟨hL', _, hown, ht⟩
    subst L'
    cases hto : o.2 with
    | small lo hi =>
      rw [hto] at hown
      apply Sat.pure
      refine ⟨?_, Rep.canon_fromDword (mx := mx) lo hi⟩
      simp only [Rep.Typed.own] at hown
      rw [← hown]
      unfold Rep.fromDword; exact Moves.refl_none
    | large b =>
      rw [hto] at hown ht
      apply Sat.pure
      simp only [Rep.Typed.own] at hown
      refine ⟨?_, ht.1⟩
      show Moves L L n r.own b.own
      rw [← hown]
      exact Moves.refl (hl b.id b.cap hown.symm)
  | zeroize k =>
    simp only [step, Op.target]
    split
    · exact onBuf_sat hI fun b _ hl hw => bufSlot_sat (zeroizeBuf_sat hl hw).bpost
    · apply onRep_sat hI
      intro r _ hl hc
      apply repSlot_sat
      apply Sat.conseq (repZeroize_sat hc hl)
      intro r' L' n' _ ⟨hm, hr'⟩
      subst hr'
      exact ⟨hm, Rep.canon_fromWord 0⟩
    · exact Sat.illTyped
  | drop k =>
    exact Sat.conseq (drop_sat hI k) (fun _ _ _ _ hq => ⟨hq.1, hq.2.2⟩)

/-- all histories: induction over the operation list, no bound on its length -/
theorem run_sat {W : Nat} (hW : 0 < W) (ops : List Op) (hok : ∀ op ∈ ops, op.Ok mx) :
    ∀ {P : Pool} {L : Ledger} {n : Nat}, Inv mx P L →
      Sat L n (run W mx ops P) (fun P' L' _ => Inv mx P' L' ∧
        ∀ j, (∀ op ∈ ops, op.target ≠ j) → P' j = P j) := by
  induction ops with
  | nil => intro P L n hI; exact Sat.pure ⟨hI, fun _ _ => rfl⟩
  | cons op ops ih =>
    intro P L n hI
    unfold run
    apply Sat.bind
    apply Sat.conseq (step_sat hW hI op (hok op List.mem_cons_self))
    intro P1 L1 n1 _ ⟨hI1, hfr1⟩
    apply Sat.conseq (ih (fun o ho => hok o (List.mem_cons_of_mem _ ho)) hI1)
    intro P2 L2 n2 _ ⟨hI2, hfr2⟩
    refine ⟨hI2, ?_⟩
    intro j hj
    rw [hfr2 j (fun o ho => hj o (List.mem_cons_of_mem _ ho))]
    exact hfr1 j (fun e => hj op List.mem_cons_self e.symm)

/-- dropping a list of registers empties exactly those -/
theorem dropList_sat {W : Nat} (ks : List Nat) :
    ∀ {P : Pool} {L : Ledger} {n : Nat}, Inv mx P L →
      Sat L n (run W mx (ks.map Op.drop) P) (fun P' L' _ => Inv mx P' L' ∧
        (∀ j ∈ ks, P' j = .empty) ∧ ∀ j, j ∉ ks → P' j = P j) := by
  induction ks with
  | nil => intro P L n hI; exact Sat.pure ⟨hI, (by intro j hj; cases hj), fun _ _ => rfl⟩
  | cons k ks ih =>
    intro P L n hI
    simp only [List.map_cons]
    unfold run
    apply Sat.bind
    apply Sat.conseq (drop_sat hI k)
    intro P1 L1 n1 _ ⟨hI1, hk1, hfr1⟩
    apply Sat.conseq (ih hI1)
    intro P2 L2 n2 _ ⟨hI2, he2, hfr2⟩
    refine ⟨hI2, ?_, ?_⟩
    · intro j hj
      by_cases hjk : j ∈ ks
      · exact he2 j hjk
      · rw [hfr2 j hjk]
        rcases List.mem_cons.mp hj with h | h
        · rw [h]; exact hk1
        · exact absurd h hjk
    · intro j hj
      have hjk : j ∉ ks := fun h => hj (List.mem_cons_of_mem _ h)
      have hne : j ≠ k := fun h => hj (by rw [h]; exact List.mem_cons_self)
      rw [hfr2 j hjk]; exact hfr1 j hne

theorem run_append (W mx : Nat) (a b : List Op) (P : Pool) :
    run W mx (a ++ b) P = (run W mx a P >>= fun P' => run W mx b P') := by
  funext n
  induction a generalizing P n with
  | nil =>
    show run W mx b P n = M.bind (M.pure P) (fun P' => run W mx b P') n
    simp [M.bind, M.pure]
  | cons op ops ih =>
    show M.bind (step W mx P op) (fun P' => run W mx (ops ++ b) P') n =
      M.bind (M.bind (step W mx P op) (fun P' => run W mx ops P')) (fun P' => run W mx b P') n
    unfold M.bind
    cases hres : (step W mx P op n).res with
    | error e => simp [hres]
    | ok P1 =>
      simp only [hres]
      have := ih P1 (step W mx P op n).next
      have e2 : (run W mx ops P1 >>= fun P' => run W mx b P') (step W mx P op n).next =
          M.bind (run W mx ops P1) (fun P' => run W mx b P') (step W mx P op n).next := rfl
      rw [this, e2]
      unfold M.bind
      cases hres2 : (run W mx ops P1 (step W mx P op n).next).res with
      | error e => simp [hres2]
      | ok P2 => simp [hres2, List.append_assoc]

/-- `drop` has no panic branch -/
theorem drop_ok (W mx : Nat) (P : Pool) (k n : Nat) : ∃ P', (step W mx P (.drop k) n).res = .ok P' := by
  simp only [step]
  cases P k with
  | empty => exact ⟨P, rfl⟩
  | buf b => exact ⟨P.set k .empty, rfl⟩
  | rep r =>
    cases r with
    | inline lo hi code neg => exact ⟨P.set k .empty, rfl⟩
    | heap id cap ws neg => exact ⟨P.set k .empty, rfl⟩
  | stat ws neg => exact ⟨P.set k .empty, rfl⟩

theorem dropList_ok (W mx : Nat) (ks : List Nat) :
    ∀ (P : Pool) (n : Nat), ∃ P', (run W mx (ks.map Op.drop) P n).res = .ok P' := by
  induction ks with
  | nil => intro P n; exact ⟨P, rfl⟩
  | cons k ks ih =>
    intro P n
    obtain ⟨P1, h1⟩ := drop_ok W mx P k n
    obtain ⟨P2, h2⟩ := ih P1 (step W mx P (.drop k) n).next
    refine ⟨P2, ?_⟩
    show (M.bind (step W mx P (.drop k)) (fun P' => run W mx (ks.map Op.drop) P') n).res = _
    rw [M.bind_ok h1]; exact h2

/-- a completed history followed by dropping registers completes -/
theorem run_append_drop_ok (W mx : Nat) (ops : List Op) (ks : List Nat) (P : Pool) (n : Nat) {P1 : Pool}
    (h : (run W mx ops P n).res = .ok P1) :
    ∃ P', (run W mx (ops ++ ks.map Op.drop) P n).res = .ok P' := by
  obtain ⟨P2, h2⟩ := dropList_ok W mx ks P1 (run W mx ops P n).next
  refine ⟨P2, ?_⟩
  rw [run_append]
  show (M.bind (run W mx ops P) (fun P' => run W mx (ks.map Op.drop) P') n).res = _
  rw [M.bind_ok h]; exact h2

-- ------------------------------------------------------------------ static-backed registers are read-only

theorem illTyped_res {α : Type} (n : Nat) (a : α) : ((illTyped : M α) n).res ≠ .ok a := by
  intro h; cases h

theorem create_stat {P : Pool} {k : Nat} {ws : List Nat} {neg : Bool} (h : P k = .stat ws neg)
    (m : M Slot) (n : Nat) (P' : Pool) : (create P k m n).res ≠ .ok P' := by
  unfold create; rw [h]; exact illTyped_res n P'

theorem onBuf_stat {P : Pool} {k : Nat} {ws : List Nat} {neg : Bool} (h : P k = .stat ws neg)
    (f : Buf → M Slot) (n : Nat) (P' : Pool) : (onBuf P k f n).res ≠ .ok P' := by
  unfold onBuf; rw [h]; exact illTyped_res n P'

theorem onRep_stat {P : Pool} {k : Nat} {ws : List Nat} {neg : Bool} (h : P k = .stat ws neg)
    (f : Rep → M Slot) (n : Nat) (P' : Pool) : (onRep P k f n).res ≠ .ok P' := by
  unfold onRep; rw [h]; exact illTyped_res n P'

/-- a register holding a `&'static` value cannot be the target of any operation except reading its
    words (`as_sign_slice`) and forgetting the reference (`drop`): everything else is not expressible
    (the model has no arm for it) -/
theorem stat_target_readonly {W mx : Nat} {P P' : Pool} {k : Nat} {ws : List Nat} {neg : Bool}
    (h : P k = .stat ws neg) (op : Op) (ht : op.target = k) (n : Nat)
    (hr : (step W mx P op n).res = .ok P') : P' = P ∨ op = .drop k := by
  cases op <;> simp only [Op.target] at ht <;> subst ht <;> simp only [step] at hr
  all_goals first
    | exact absurd hr (create_stat h _ _ _)
    | exact absurd hr (onBuf_stat h _ _ _)
    | exact absurd hr (onRep_stat h _ _ _)
    | skip
  case drop => exact Or.inr rfl
  case zeroize =>
    rw [h] at hr
    exact absurd hr (illTyped_res _ _)
  case asSlice =>
    rw [h] at hr
    left
    have : (Except.ok P : Except Fault Pool) = .ok P' := hr
    injection this with this; exact this.symm
  case bufClone k j | bufCloneFrom k j =>
    exfalso
    split at hr
    · exact illTyped_res _ _ hr
    · cases hpj : P j <;> rw [hpj] at hr <;>
        first | exact illTyped_res _ _ hr | exact create_stat h _ _ _ hr | exact onBuf_stat h _ _ _ hr
  case repClone k j | repCloneFrom k j =>
    exfalso
    split at hr
    · exact illTyped_res _ _ hr
    · cases hpj : P j <;> rw [hpj] at hr <;>
        first | exact illTyped_res _ _ hr | exact create_stat h _ _ _ hr | exact onRep_stat h _ _ _ hr
  case pushSliceFrom k j | cloneFromSliceFrom k j | bufFromView k j =>
    exfalso
    split at hr
    · exact illTyped_res _ _ hr
    · cases hpj : (P j).view with
      | none => rw [hpj] at hr; exact illTyped_res _ _ hr
      | some p =>
        obtain ⟨src, ws'⟩ := p
        rw [hpj] at hr
        first | exact create_stat h _ _ _ hr | exact onBuf_stat h _ _ _ hr
  case pushTailFrom k j lo =>
    exfalso
    split at hr
    · exact illTyped_res _ _ hr
    · cases hpj : (P j).view with
      | none => rw [hpj] at hr; exact illTyped_res _ _ hr
      | some p =>
        obtain ⟨src, ws'⟩ := p
        rw [hpj] at hr
        simp only at hr
        split at hr <;> exact onBuf_stat h _ _ _ hr

end Dashu.Model.Mem
