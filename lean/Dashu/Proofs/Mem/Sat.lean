import Dashu.Model.Mem.Repr
/-
  C17 — program logic for the ledger monad.  `Sat L n m Q`: started with ledger `L` and fresh counter
  `n` (all ids ≥ n dead), the computation `m`
    * emits only events that are memory-safe when replayed from `L` (also when it ends in a panic),
    * never reaches a `Fault.ub` point,
    * and, if it returns a value, `Q value ledger' counter'` holds.
-/
namespace Dashu.Model.Mem

theorem replay_append (L : Ledger) (a b : List Event) :
    replay L (a ++ b) = (replay L a).bind (fun L' => replay L' b) := by
  induction a generalizing L with
  | nil => rfl
  | cons e es ih =>
    simp only [List.cons_append, replay]
    cases stepEv L e with
    | none => rfl
    | some L' => exact ih L'

def Sat {α : Type} (L : Ledger) (n : Nat) (m : M α) (Q : α → Ledger → Nat → Prop) : Prop :=
  L.Below n → ∃ L', replay L (m n).evs = some L' ∧ n ≤ (m n).next ∧ L'.Below (m n).next ∧
    (∀ s, (m n).res ≠ .error (.ub s)) ∧ ∀ a, (m n).res = .ok a → Q a L' (m n).next

variable {α β : Type} {L : Ledger} {n : Nat}

theorem Sat.pure {a : α} {Q : α → Ledger → Nat → Prop} (h : Q a L n) : Sat L n (pure a) Q := by
  intro hB
  exact ⟨L, rfl, Nat.le_refl _, hB, fun s hs => (by cases hs), fun a' ha => (by cases ha; exact h)⟩

theorem Sat.conseq {m : M α} {Q Q' : α → Ledger → Nat → Prop} (h : Sat L n m Q)
    (hq : ∀ a L' n', n ≤ n' → Q a L' n' → Q' a L' n') : Sat L n m Q' := by
  intro hB
  obtain ⟨L', hr, hn, hB', hub, hQ⟩ := h hB
  exact ⟨L', hr, hn, hB', hub, fun a ha => hq a L' _ hn (hQ a ha)⟩

theorem M.bind_error {m : M α} {f : α → M β} {e : Fault} (h : (m n).res = .error e) :
    M.bind m f n = ⟨.error e, (m n).next, (m n).evs⟩ := by
  unfold M.bind; simp only [h]

theorem M.bind_ok {m : M α} {f : α → M β} {a : α} (h : (m n).res = .ok a) :
    M.bind m f n = ⟨(f a (m n).next).res, (f a (m n).next).next, (m n).evs ++ (f a (m n).next).evs⟩ := by
  unfold M.bind; simp only [h]

theorem Sat.bind {m : M α} {f : α → M β} {Q : β → Ledger → Nat → Prop}
    (h : Sat L n m (fun a L1 n1 => Sat L1 n1 (f a) Q)) : Sat L n (m >>= f) Q := by
  intro hB
  obtain ⟨L1, hr, hn, hB1, hub, hq⟩ := h hB
  show ∃ L', replay L ((M.bind m f) n).evs = some L' ∧ n ≤ ((M.bind m f) n).next ∧
    L'.Below ((M.bind m f) n).next ∧ (∀ s, ((M.bind m f) n).res ≠ .error (.ub s)) ∧
    ∀ a, ((M.bind m f) n).res = .ok a → Q a L' ((M.bind m f) n).next
  cases hres : (m n).res with
  | error e =>
    rw [M.bind_error hres]
    refine ⟨L1, hr, hn, hB1, ?_, ?_⟩
    · intro s hs
      have he : e = .ub s := by injection hs
      subst he; exact hub s hres
    · intro a ha; cases ha
  | ok a =>
    obtain ⟨L2, hr2, hn2, hB2, hub2, hq2⟩ := hq a hres hB1
    rw [M.bind_ok hres]
    refine ⟨L2, ?_, Nat.le_trans hn hn2, hB2, hub2, hq2⟩
    show replay L ((m n).evs ++ _) = some L2
    rw [replay_append, hr]; exact hr2

/-- sequencing with a unit computation -/
theorem Sat.seq {m : M Unit} {k : M β} {Q : β → Ledger → Nat → Prop}
    (h : Sat L n m (fun _ L1 n1 => Sat L1 n1 k Q)) : Sat L n (do m; k) Q :=
  Sat.bind h

theorem Sat.fault_panic {k : PanicKind} {Q : α → Ledger → Nat → Prop} :
    Sat L n (fault (.panic k) : M α) Q := by
  intro hB
  exact ⟨L, rfl, Nat.le_refl _, hB, fun s hs => (by cases hs), fun a ha => (by cases ha)⟩

theorem Sat.assertFail {site : String} {Q : α → Ledger → Nat → Prop} :
    Sat L n (assertFail site : M α) Q := Sat.fault_panic


def Event.isAlloc : Event → Bool
  | .alloc .. => true
  | _ => false

theorem stepEv_dom {L L' : Ledger} {e : Event} (h : stepEv L e = some L') (he : e.isAlloc = false)
    (j : Nat) (hj : L j = none) : L' j = none := by
  cases e with
  | alloc id c => cases he
  | realloc id o nw =>
    simp only [stepEv] at h
    split at h
    · rename_i hc
      cases h
      simp only [Ledger.set]; split
      · rename_i hji; subst hji; rw [hj] at hc; cases hc.1
      · exact hj
    · cases h
  | free id c =>
    simp only [stepEv] at h
    split at h
    · cases h; simp only [Ledger.set]; split <;> simp [hj]
    · cases h
  | read id i =>
    simp only [stepEv] at h
    split at h
    · split at h
      · cases h; exact hj
      · cases h
    · cases h
  | write id i =>
    simp only [stepEv] at h
    split at h
    · split at h
      · cases h; exact hj
      · cases h
    · cases h

theorem replay_dom {es : List Event} {L L' : Ledger} (h : replay L es = some L')
    (he : ∀ e ∈ es, e.isAlloc = false) (j : Nat) (hj : L j = none) : L' j = none := by
  induction es generalizing L with
  | nil => cases h; exact hj
  | cons e es ih =>
    simp only [replay] at h
    cases hs : stepEv L e with
    | none => rw [hs] at h; cases h
    | some L1 =>
      rw [hs] at h
      exact ih h (fun e' he' => he e' (List.mem_cons_of_mem _ he'))
        (stepEv_dom hs (he e List.mem_cons_self) j hj)

/-- events other than allocations: safe iff they replay; the fresh counter is unchanged -/
theorem Sat.emits {es : List Event} {L1 : Ledger} {Q : Unit → Ledger → Nat → Prop}
    (hr : replay L es = some L1) (he : ∀ e ∈ es, e.isAlloc = false) (h : Q () L1 n) :
    Sat L n (emits es) Q := by
  intro hB
  exact ⟨L1, hr, Nat.le_refl _, fun j hj => replay_dom hr he j (hB j hj),
    fun s hs => (by cases hs), fun a ha => h⟩

theorem Sat.emit {e : Event} {L1 : Ledger} {Q : Unit → Ledger → Nat → Prop}
    (hr : stepEv L e = some L1) (he : e.isAlloc = false) (h : Q () L1 n) :
    Sat L n (emit e) Q := by
  apply Sat.emits (L1 := L1) _ _ h
  · simp [replay, hr]
  · intro e' he'; simp at he'; subst he'; exact he

theorem Sat.ite {c : Prop} [Decidable c] {a b : M α} {Q : α → Ledger → Nat → Prop}
    (ha : c → Sat L n a Q) (hb : ¬c → Sat L n b Q) : Sat L n (if c then a else b) Q := by
  split
  · exact ha ‹_›
  · exact hb ‹_›

-- ------------------------------------------------------------------ reads / writes of a range

theorem isAlloc_rd (id lo k : Nat) : ∀ e ∈ rd id lo k, e.isAlloc = false := by
  intro e he; simp only [rd, List.mem_map] at he; obtain ⟨i, _, rfl⟩ := he; rfl

theorem isAlloc_wr (id lo k : Nat) : ∀ e ∈ wr id lo k, e.isAlloc = false := by
  intro e he; simp only [wr, List.mem_map] at he; obtain ⟨i, _, rfl⟩ := he; rfl

theorem replay_rd {L : Ledger} {id c : Nat} (hL : L id = some c) (lo k : Nat) (h : lo + k ≤ c) :
    replay L (rd id lo k) = some L := by
  induction k generalizing lo with
  | zero => rfl
  | succ k ih =>
    simp only [rd, List.range'_succ, List.map_cons, replay, stepEv, hL]
    have : lo < c := by omega
    simp only [this, ↓reduceIte]
    exact ih (lo + 1) (by omega)

theorem replay_wr {L : Ledger} {id c : Nat} (hL : L id = some c) (lo k : Nat) (h : lo + k ≤ c) :
    replay L (wr id lo k) = some L := by
  induction k generalizing lo with
  | zero => rfl
  | succ k ih =>
    simp only [wr, List.range'_succ, List.map_cons, replay, stepEv, hL]
    have : lo < c := by omega
    simp only [this, ↓reduceIte]
    exact ih (lo + 1) (by omega)

theorem replay_append_same {L : Ledger} {a b : List Event} (ha : replay L a = some L)
    (hb : replay L b = some L) : replay L (a ++ b) = some L := by
  rw [replay_append, ha]; exact hb

end Dashu.Model.Mem
