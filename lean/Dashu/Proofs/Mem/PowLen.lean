import Dashu.Proofs.Mem.Arith
import Dashu.Proofs.Mem.Policy
import Dashu.Model.Mem.Arith2
/-
  C17 (round 4) — pow.rs `pow_word_base` / `pow_dword_base`: length bookkeeping of the square-and-multiply loop on the
  single result buffer (`// actually never resize`).
-/
namespace Dashu.Model.Mem

theorem div_pow_succ_bit (e p : Nat) :
    e / 2 ^ p = 2 * (e / 2 ^ (p + 1)) + (if e.testBit p then 1 else 0) := by
  have h1 : e / 2 ^ (p + 1) = e / 2 ^ p / 2 := by rw [Nat.pow_succ, Nat.div_div_eq_div_mul]
  rw [h1, Nat.testBit_eq_decide_div_mod_eq]
  generalize e / 2 ^ p = q
  by_cases h : q % 2 = 1
  · simp only [h, decide_true, ↓reduceIte]; omega
  · simp only [h, decide_false, Bool.false_eq_true, ↓reduceIte]; omega

/-- length bookkeeping of the square-and-multiply loop, word multiplier (`pow_word_base`): if the length on entry at bit
    `p` is at most twice the exponent prefix above bit `p`, the final length is at most the exponent `e` -/
theorem powLoop_word_len_le (W r m e : Nat) : ∀ (p val len : Nat), len ≤ 2 * (e / 2 ^ (p + 1)) →
    (powLoop W r m false e p val len).2.2 ≤ e := by
  intro p
  induction p with
  | zero =>
    intro val len h
    have hb := div_pow_succ_bit e 0
    simp only [Nat.pow_zero, Nat.div_one, Nat.zero_add] at hb h
    unfold powLoop
    by_cases ht : e.testBit 0 = true
    · simp only [ht, ↓reduceIte, Bool.false_eq_true] at hb ⊢
      split <;> omega
    · simp only [ht, Bool.false_eq_true, ↓reduceIte] at hb ⊢
      omega
  | succ p ih =>
    intro val len h
    have hb := div_pow_succ_bit e (p + 1)
    have hb0 := div_pow_succ_bit e p
    unfold powLoop
    by_cases ht : e.testBit (p + 1) = true
    · simp only [ht, ↓reduceIte, Bool.false_eq_true] at hb ⊢
      apply ih
      split <;> omega
    · simp only [ht, Bool.false_eq_true, ↓reduceIte] at hb ⊢
      apply ih
      omega

/-- pow.rs `pow_word_base`, the comment `// actually never resize`: starting from `wbase²` (2 words) at bit
    `bit_len(e) - 2`, the tracked length after the whole loop is ≤ `e` (lengths only grow, so every intermediate length is
    too, and every `push_zeros(len)` doubling stays ≤ `e`); hence the final `push_resizing(carry)` finds room in the
    capacity of `Buffer::allocate(e + 1)` -/
theorem powLoop_word_fits (W mx r m e : Nat) (he : 2 ≤ e) (hmx : e + 1 ≤ mx) (val : Nat) :
    (powLoop W r m false e (Nat.log2 e - 1) val 2).2.2 + 1 ≤ defaultCapacity mx (e + 1) := by
  have hne : e ≠ 0 := by omega
  have hl : 1 ≤ Nat.log2 e := (Nat.le_log2 hne).mpr (by simpa using he)
  have hp : Nat.log2 e - 1 + 1 = Nat.log2 e := by omega
  have h1 : 1 ≤ e / 2 ^ (Nat.log2 e - 1 + 1) := by
    rw [hp]; exact Nat.div_pos (Nat.log2_self_le hne) (Nat.two_pow_pos _)
  have := powLoop_word_len_le W r m e (Nat.log2 e - 1) val 2 (by omega)
  have hc := (policy_chain mx (e + 1) hmx).1
  omega

/-- the same bookkeeping for a double-word multiplier (`pow_dword_base`: the carry is pushed as one or two words) -/
theorem powLoop_dword_len_le (W r m e : Nat) : ∀ (p val len : Nat), len ≤ 4 * (e / 2 ^ (p + 1)) →
    (powLoop W r m true e p val len).2.2 ≤ 2 * e := by
  intro p
  induction p with
  | zero =>
    intro val len h
    have hb := div_pow_succ_bit e 0
    simp only [Nat.pow_zero, Nat.div_one, Nat.zero_add] at hb h
    unfold powLoop
    by_cases ht : e.testBit 0 = true
    · simp only [ht, ↓reduceIte] at hb ⊢
      split <;> (try split) <;> (try dsimp only) <;> omega
    · simp only [ht, Bool.false_eq_true, ↓reduceIte] at hb ⊢
      omega
  | succ p ih =>
    intro val len h
    have hb := div_pow_succ_bit e (p + 1)
    have hb0 := div_pow_succ_bit e p
    unfold powLoop
    by_cases ht : e.testBit (p + 1) = true
    · simp only [ht, ↓reduceIte] at hb ⊢
      apply ih
      split <;> (try split) <;> (try dsimp only) <;> omega
    · simp only [ht, Bool.false_eq_true, ↓reduceIte] at hb ⊢
      apply ih
      omega

/-- pow.rs `pow_dword_base`: from `base²` (4 words) the length stays ≤ `2·exp`, the `num_words` of its `Buffer::allocate` -/
theorem powLoop_dword_fits (W mx r m e : Nat) (he : 2 ≤ e) (hmx : 2 * e ≤ mx) (val : Nat) :
    (powLoop W r m true e (Nat.log2 e - 1) val 4).2.2 ≤ defaultCapacity mx (2 * e) := by
  have hne : e ≠ 0 := by omega
  have hl : 1 ≤ Nat.log2 e := (Nat.le_log2 hne).mpr (by simpa using he)
  have hp : Nat.log2 e - 1 + 1 = Nat.log2 e := by omega
  have h1 : 1 ≤ e / 2 ^ (Nat.log2 e - 1 + 1) := by
    rw [hp]; exact Nat.div_pos (Nat.log2_self_le hne) (Nat.two_pow_pos _)
  have := powLoop_dword_len_le W r m e (Nat.log2 e - 1) val 4 (by omega)
  have hc := (policy_chain mx (2 * e) hmx).1
  omega

end Dashu.Model.Mem
