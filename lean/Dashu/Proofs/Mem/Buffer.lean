import Dashu.Proofs.Mem.Moves
import Dashu.Proofs.Mem.Policy
/-
  C17 — one specification per `buffer.rs` item: under "the buffer's allocation is live with its
  capacity and len ≤ cap" every event it emits is memory-safe, and the resulting buffer is again live
  with its (new) capacity, nothing else in the ledger changed.
-/
namespace Dashu.Model.Mem

def Buf.Wf (mx : Nat) (b : Buf) : Prop := b.len ≤ b.cap ∧ 0 < b.cap ∧ b.cap ≤ mx
def Buf.own (b : Buf) : Option (Nat × Nat) := some (b.id, b.cap)

/-- post-condition shape of a `Buffer → Buffer` method -/
def BPost (mx : Nat) (L : Ledger) (n : Nat) (b : Buf) (R : Buf → Prop) : Buf → Ledger → Nat → Prop :=
  fun b' L' _ => Moves L L' n b.own b'.own ∧ b'.Wf mx ∧ R b'

/-- post-condition shape of a `Buffer` constructor -/
def CPost (mx : Nat) (L : Ledger) (n : Nat) (R : Buf → Prop) : Buf → Ledger → Nat → Prop :=
  fun b' L' _ => Moves L L' n none b'.own ∧ b'.Wf mx ∧ R b'

variable {L : Ledger} {n mx : Nat}

theorem Sat.of_below {α : Type} {m : M α} {Q : α → Ledger → Nat → Prop}
    (h : L.Below n → Sat L n m Q) : Sat L n m Q := fun hB => h hB hB

-- ------------------------------------------------------------------ checked policy functions

theorem defaultCapacityChecked_sat {k : Nat} :
    Sat L n (defaultCapacityChecked mx k) (fun c L' n' => L' = L ∧ n' = n ∧ c = defaultCapacity mx k ∧ k ≤ mx) := by
  unfold defaultCapacityChecked
  apply Sat.ite
  · intro h; exact Sat.pure ⟨rfl, rfl, rfl, h⟩
  · intro _; exact Sat.assertFail

theorem maxCompactCapacityChecked_sat {k : Nat} :
    Sat L n (maxCompactCapacityChecked mx k) (fun c L' n' => L' = L ∧ n' = n ∧ c = maxCompactCapacity mx k ∧ k ≤ mx) := by
  unfold maxCompactCapacityChecked
  apply Sat.ite
  · intro h; exact Sat.pure ⟨rfl, rfl, rfl, h⟩
  · intro _; exact Sat.assertFail

-- ------------------------------------------------------------------ allocation

/-- buffer.rs:97 — `alloc(layout)` is called with a non-zero size -/
theorem allocateRaw_sat {c : Nat} :
    Sat L n (allocateRaw mx c)
      (fun id L' n' => id = n ∧ n' = n + 1 ∧ L' = L.set n (some c) ∧ 0 < c ∧ c ≤ mx) := by
  unfold allocateRaw
  apply Sat.ite
  · intro ⟨h0, hm⟩ hB
    have hLn : L n = none := hB n (Nat.le_refl _)
    refine ⟨L.set n (some c), ?_, Nat.le_succ n, ?_, ?_, ?_⟩
    · show replay L [Event.alloc n c] = _
      simp [replay, stepEv, hLn, h0]
    · intro j hj
      show (L.set n (some c)) j = none
      simp only [Ledger.set]
      have : j ≠ n := by intro h; subst h; exact Nat.not_succ_le_self _ hj
      simp only [this, ↓reduceIte]
      exact hB j (Nat.le_of_succ_le hj)
    · intro s hs; cases hs
    · intro a ha; cases ha; exact ⟨rfl, rfl, rfl, h0, hm⟩
  · intro _; exact Sat.assertFail

theorem allocateExact_sat {c : Nat} :
    Sat L n (allocateExact mx c) (CPost mx L n (fun b => b.ws = [] ∧ b.cap = c)) := by
  unfold allocateExact
  apply Sat.ite
  · intro _; exact Sat.fault_panic
  · intro _
    apply Sat.bind
    apply Sat.conseq allocateRaw_sat
    intro id L' n' _ ⟨hid, _, hL', h0, hm⟩
    subst hid hL'
    apply Sat.pure
    exact ⟨Moves.alloc (Nat.le_refl _), ⟨Nat.zero_le _, h0, hm⟩, rfl, rfl⟩

theorem allocate_sat {k : Nat} :
    Sat L n (allocate mx k)
      (CPost mx L n (fun b => b.ws = [] ∧ b.cap = defaultCapacity mx k ∧ k ≤ mx)) := by
  unfold allocate
  apply Sat.ite
  · intro _; exact Sat.fault_panic
  intro _
  apply Sat.bind
  apply Sat.conseq defaultCapacityChecked_sat
  intro c L' n' _ ⟨hL, hn, hc, hk⟩
  subst hL hn hc
  apply Sat.conseq allocateExact_sat
  intro b L' n' _ ⟨hm, hw, hws, hcap⟩
  exact ⟨hm, hw, hws, hcap, hk⟩

-- ------------------------------------------------------------------ reallocation

/-- buffer.rs:148 — `realloc(ptr, old_layout, new_size)` names the live allocation with its current
    capacity and a non-zero new size -/
theorem reallocateRaw_sat {b : Buf} {c : Nat} (hL : L b.id = some b.cap) :
    Sat L n (reallocateRaw b c)
      (fun b' L' _ => Moves L L' n b.own b'.own ∧ b' = { b with cap := c } ∧ 0 < c ∧ b.len ≤ c) := by
  unfold reallocateRaw
  apply Sat.ite
  · intro ⟨h0, hl⟩
    apply Sat.bind
    apply Sat.emit (L1 := L.set b.id (some c)) (by simp [stepEv, hL, h0]) rfl
    apply Sat.pure
    exact ⟨Moves.set_cap, rfl, h0, hl⟩
  · intro _; exact Sat.assertFail

theorem reallocate_sat {b : Buf} {k : Nat} (hL : L b.id = some b.cap) :
    Sat L n (reallocate mx b k)
      (BPost mx L n b (fun b' => b' = { b with cap := defaultCapacity mx k } ∧ b.len ≤ k ∧ k ≤ mx)) := by
  unfold reallocate
  apply Sat.ite
  · intro hl
    apply Sat.ite
    · intro _; exact Sat.fault_panic
    intro _
    apply Sat.bind
    apply Sat.conseq defaultCapacityChecked_sat
    intro c L' n' _ ⟨hL', hn, hc, hk⟩
    subst hL' hn hc
    apply Sat.conseq (reallocateRaw_sat hL)
    intro b' L' n' _ ⟨hm, hb', h0, hl'⟩
    subst hb'
    have := policy_chain mx k hk
    exact ⟨hm, ⟨hl', h0, by show defaultCapacity mx k ≤ mx; omega⟩, rfl, hl, hk⟩
  · intro _; exact Sat.assertFail

theorem ensureCapacity_sat {b : Buf} {k : Nat} (hL : L b.id = some b.cap) (hw : b.Wf mx) :
    Sat L n (ensureCapacity mx b k)
      (BPost mx L n b (fun b' => b'.id = b.id ∧ b'.ws = b.ws ∧ b.cap ≤ b'.cap ∧ (2 < k → k ≤ b'.cap))) := by
  unfold ensureCapacity
  apply Sat.ite
  · intro ⟨hk, _⟩
    apply Sat.conseq (reallocate_sat hL)
    intro b' L' n' _ ⟨hm, hw', hb', _, hkm⟩
    subst hb'
    have := policy_chain mx k hkm
    refine ⟨hm, hw', rfl, rfl, ?_, ?_⟩
    · show b.cap ≤ defaultCapacity mx k; omega
    · intro _; show k ≤ defaultCapacity mx k; omega
  · intro hk
    apply Sat.pure
    refine ⟨Moves.refl hL, hw, rfl, rfl, Nat.le_refl _, ?_⟩
    intro h2; apply Nat.le_of_not_lt; intro hlt; exact hk ⟨hlt, h2⟩

/-- `ensure_capacity_exact(c)` keeps `cap ≤ MAX_CAPACITY` only if `c ≤ MAX_CAPACITY`: the code has no
    such check (`reallocate_raw`); its only caller passes the length of an existing buffer. -/
theorem ensureCapacityExact_sat {b : Buf} {c : Nat} (hL : L b.id = some b.cap) (hw : b.Wf mx)
    (hc : c ≤ mx) :
    Sat L n (ensureCapacityExact b c)
      (BPost mx L n b (fun b' => b'.id = b.id ∧ b'.ws = b.ws ∧ b.cap ≤ b'.cap)) := by
  unfold ensureCapacityExact
  apply Sat.ite
  · intro ⟨hk, _⟩
    apply Sat.conseq (reallocateRaw_sat hL)
    intro b' L' n' _ ⟨hm, hb', h0, hl⟩
    subst hb'
    exact ⟨hm, ⟨hl, h0, hc⟩, rfl, rfl, Nat.le_of_lt hk⟩
  · intro _
    exact Sat.pure ⟨Moves.refl hL, hw, rfl, rfl, Nat.le_refl _⟩

theorem shrinkToFit_sat {b : Buf} (hL : L b.id = some b.cap) (hw : b.Wf mx) :
    Sat L n (shrinkToFit mx b)
      (BPost mx L n b (fun b' => b'.id = b.id ∧ b'.ws = b.ws ∧ b'.cap ≤ maxCompactCapacity mx b.len)) := by
  unfold shrinkToFit
  apply Sat.bind
  apply Sat.conseq maxCompactCapacityChecked_sat
  intro m L' n' _ ⟨hL', hn, hm, hk⟩
  subst hL' hn hm
  apply Sat.ite
  · intro _
    apply Sat.conseq (reallocate_sat hL)
    intro b' L' n' _ ⟨hmv, hw', hb', _, _⟩
    subst hb'
    have := policy_chain mx b.len hk
    exact ⟨hmv, hw', rfl, rfl, this.2.1⟩
  · intro hle
    exact Sat.pure ⟨Moves.refl hL, hw, rfl, rfl, Nat.le_of_not_lt hle⟩

-- ------------------------------------------------------------------ in-place accesses

/-- a list of reads/writes of one live allocation, all below its capacity, replays to the same ledger -/
theorem replay_access {id c : Nat} (hL : L id = some c) {es : List Event}
    (h : ∀ e ∈ es, (∃ i, e = .read id i ∧ i < c) ∨ (∃ i, e = .write id i ∧ i < c)) :
    replay L es = some L := by
  induction es with
  | nil => rfl
  | cons e es ih =>
    have he := h e List.mem_cons_self
    have hs : stepEv L e = some L := by
      rcases he with ⟨i, rfl, hi⟩ | ⟨i, rfl, hi⟩ <;> simp [stepEv, hL, hi]
    simp only [replay, hs]
    exact ih (fun e' he' => h e' (List.mem_cons_of_mem _ he'))

theorem isAlloc_access {id c : Nat} {es : List Event}
    (h : ∀ e ∈ es, (∃ i, e = .read id i ∧ i < c) ∨ (∃ i, e = .write id i ∧ i < c)) :
    ∀ e ∈ es, e.isAlloc = false := by
  intro e he
  rcases h e he with ⟨i, rfl, _⟩ | ⟨i, rfl, _⟩ <;> rfl

/-- a method that only accesses memory and keeps id and capacity -/
theorem sat_inplace {b b' : Buf} {es : List Event} {R : Buf → Prop} (hL : L b.id = some b.cap)
    (hr : replay L es = some L) (he : ∀ e ∈ es, e.isAlloc = false)
    (hid : b'.id = b.id) (hcap : b'.cap = b.cap) (hw : b'.Wf mx) (hR : R b') :
    Sat L n (do emits es; pure b') (BPost mx L n b R) := by
  apply Sat.bind
  apply Sat.emits hr he
  apply Sat.pure
  refine ⟨?_, hw, hR⟩
  have : b'.own = b.own := by simp [Buf.own, hid, hcap]
  rw [this]; exact Moves.refl hL

/-- buffer.rs:209 — the write at `ptr.add(len)` is inside the allocation (`len < capacity` asserted) -/
theorem push_sat {b : Buf} {w : Nat} (hL : L b.id = some b.cap) (hw : b.Wf mx) :
    Sat L n (push b w) (BPost mx L n b (fun b' => b'.id = b.id ∧ b'.cap = b.cap ∧ b'.ws = b.ws ++ [w])) := by
  unfold push
  apply Sat.ite
  · intro hlt
    unfold emit
    apply sat_inplace hL
    · exact replay_access hL (by intro e he; simp at he; subst he; exact Or.inr ⟨_, rfl, hlt⟩)
    · intro e he; simp at he; subst he; rfl
    · rfl
    · rfl
    · refine ⟨?_, hw.2.1, hw.2.2⟩
      show (b.ws ++ [w]).length ≤ b.cap
      simp only [List.length_append, List.length_singleton]; exact hlt
    · exact ⟨rfl, rfl, rfl⟩
  · intro _; exact Sat.assertFail

theorem pushResizing_sat {b : Buf} {w : Nat} (hL : L b.id = some b.cap) (hw : b.Wf mx) :
    Sat L n (pushResizing mx b w) (BPost mx L n b (fun b' => b'.id = b.id)) := by
  unfold pushResizing
  apply Sat.ite
  · intro _
    apply Sat.bind
    apply Sat.conseq (ensureCapacity_sat hL hw)
    intro b1 L1 n1 hn1 ⟨hm1, hw1, hid1, _, _, _⟩
    apply Sat.conseq (push_sat (hm1.new_live _ _ rfl) hw1)
    intro b2 L2 n2 hn2 ⟨hm2, hw2, hid2, _, _⟩
    exact ⟨hm1.trans hm2 hn1, hw2, hid2.trans hid1⟩
  · intro _
    exact Sat.pure ⟨Moves.refl hL, hw, rfl⟩

theorem mem_wr {id lo k : Nat} {e : Event} (he : e ∈ wr id lo k) : ∃ i, e = .write id i ∧ lo ≤ i ∧ i < lo + k := by
  simp only [wr, List.mem_map, List.mem_range'_1] at he
  obtain ⟨i, ⟨h1, h2⟩, rfl⟩ := he
  exact ⟨i, rfl, h1, h2⟩

theorem mem_rd {id lo k : Nat} {e : Event} (he : e ∈ rd id lo k) : ∃ i, e = .read id i ∧ lo ≤ i ∧ i < lo + k := by
  simp only [rd, List.mem_map, List.mem_range'_1] at he
  obtain ⟨i, ⟨h1, h2⟩, rfl⟩ := he
  exact ⟨i, rfl, h1, h2⟩

/-- buffer.rs:235 — `n` writes from `ptr.add(len)`, `n ≤ capacity - len` asserted -/
theorem pushRepeat_sat {b : Buf} {elem k : Nat} (hL : L b.id = some b.cap) (hw : b.Wf mx) :
    Sat L n (pushRepeat b elem k)
      (BPost mx L n b (fun b' => b'.id = b.id ∧ b'.cap = b.cap ∧ b'.ws = b.ws ++ List.replicate k elem)) := by
  unfold pushRepeat
  apply Sat.ite
  · intro hk
    have hlen : b.len ≤ b.cap := hw.1
    apply sat_inplace hL
    · exact replay_wr hL _ _ (by omega)
    · exact isAlloc_wr _ _ _
    · rfl
    · rfl
    · refine ⟨?_, hw.2.1, hw.2.2⟩
      show (b.ws ++ List.replicate k elem).length ≤ b.cap
      simp only [List.length_append, List.length_replicate]
      have : b.ws.length = b.len := rfl
      omega
    · exact ⟨rfl, rfl, rfl⟩
  · intro _; exact Sat.assertFail

theorem pushZeros_sat {b : Buf} {k : Nat} (hL : L b.id = some b.cap) (hw : b.Wf mx) :
    Sat L n (pushZeros b k)
      (BPost mx L n b (fun b' => b'.id = b.id ∧ b'.cap = b.cap ∧ b'.ws = b.ws ++ List.replicate k 0)) :=
  pushRepeat_sat hL hw

/-- buffer.rs:266 — `ptr::copy(ptr, ptr.add(n), len)` and `n` writes from `ptr`; `n + len ≤ capacity` -/
theorem pushZerosFront_sat {b : Buf} {k : Nat} (hL : L b.id = some b.cap) (hw : b.Wf mx) :
    Sat L n (pushZerosFront b k)
      (BPost mx L n b (fun b' => b'.id = b.id ∧ b'.cap = b.cap ∧ b'.ws = List.replicate k 0 ++ b.ws)) := by
  unfold pushZerosFront
  apply Sat.ite
  · intro hk
    have hlen : b.len ≤ b.cap := hw.1
    apply Sat.bind
    apply Sat.emits (L1 := L)
    · exact replay_append_same (replay_rd hL _ _ (by omega)) (replay_wr hL _ _ (by omega))
    · intro e he
      rcases List.mem_append.mp he with h | h
      · exact isAlloc_rd _ _ _ e h
      · exact isAlloc_wr _ _ _ e h
    apply sat_inplace hL
    · exact replay_wr hL _ _ (by omega)
    · exact isAlloc_wr _ _ _
    · rfl
    · rfl
    · refine ⟨?_, hw.2.1, hw.2.2⟩
      show (List.replicate k 0 ++ b.ws).length ≤ b.cap
      simp only [List.length_append, List.length_replicate]
      have : b.ws.length = b.len := rfl
      omega
    · exact ⟨rfl, rfl, rfl⟩
  · intro _; exact Sat.assertFail

/-- the source of a borrowed slice: either outside the ledger, or a live allocation that holds at
    least `k` words -/
def SrcOk (L : Ledger) (src : Option Nat) (k : Nat) : Prop :=
  ∀ s, src = some s → ∃ c, L s = some c ∧ k ≤ c

theorem replay_src {src : Option Nat} {k : Nat} (h : SrcOk L src k) :
    replay L (srcReads src k) = some L := by
  cases src with
  | none => rfl
  | some s =>
    obtain ⟨c, hc, hk⟩ := h s rfl
    exact replay_rd hc 0 k (by omega)

theorem isAlloc_src {src : Option Nat} {k : Nat} :
    ∀ e ∈ srcReads src k, e.isAlloc = false := by
  cases src with
  | none => intro e he; cases he
  | some s => exact isAlloc_rd _ _ _

/-- buffer.rs:293 — `copy_nonoverlapping(src, ptr.add(len), src_len)`, `src_len ≤ capacity - len` -/
theorem pushSlice_sat {b : Buf} {src : Option Nat} {ws : List Nat} (hL : L b.id = some b.cap)
    (hw : b.Wf mx) (hs : SrcOk L src ws.length) :
    Sat L n (pushSlice b src ws)
      (BPost mx L n b (fun b' => b'.id = b.id ∧ b'.cap = b.cap ∧ b'.ws = b.ws ++ ws)) := by
  unfold pushSlice
  apply Sat.ite
  · intro hk
    have hlen : b.len ≤ b.cap := hw.1
    apply sat_inplace hL
    · exact replay_append_same (replay_src hs) (replay_wr hL _ _ (by omega))
    · intro e he
      rcases List.mem_append.mp he with h | h
      · exact isAlloc_src e h
      · exact isAlloc_wr _ _ _ e h
    · rfl
    · rfl
    · refine ⟨?_, hw.2.1, hw.2.2⟩
      show (b.ws ++ ws).length ≤ b.cap
      simp only [List.length_append]
      have : b.ws.length = b.len := rfl
      omega
    · exact ⟨rfl, rfl, rfl⟩
  · intro _; exact Sat.assertFail

-- pop_zeros

theorem popZerosRev_spec (id : Nat) (l : List Nat) :
    (∀ e ∈ (popZerosRev id l).2, ∃ i, e = .read id i ∧ i < l.length) ∧
    (∃ t, l = t ++ (popZerosRev id l).1 ∧ ∀ x ∈ t, x = 0) ∧
    (popZerosRev id l).1.head? ≠ some 0 := by
  induction l with
  | nil => simp [popZerosRev]
  | cons w rest ih =>
    unfold popZerosRev
    split
    · rename_i hw0
      obtain ⟨h1, ⟨t, ht, hz⟩, h3⟩ := ih
      refine ⟨?_, ⟨w :: t, ?_, ?_⟩, h3⟩
      · intro e he
        simp only [List.mem_cons] at he
        rcases he with rfl | he
        · exact ⟨_, rfl, by simp⟩
        · obtain ⟨i, hi, hlt⟩ := h1 e he
          exact ⟨i, hi, by simp; omega⟩
      · simp only [List.cons_append]; rw [← ht]
      · intro x hx
        simp only [List.mem_cons] at hx
        rcases hx with rfl | hx
        · exact hw0
        · exact hz x hx
    · rename_i hw0
      refine ⟨?_, ⟨[], rfl, by simp⟩, ?_⟩
      · intro e he
        simp only [List.mem_singleton] at he
        exact ⟨_, he, by simp⟩
      · simp only [List.head?_cons]; intro h; injection h with h; exact hw0 h

/-- buffer.rs:307 — the loop reads `ptr.add(len-1)`, `ptr.add(len-2)`, … and stops at index 0 -/
theorem popZeros_sat {b : Buf} (hL : L b.id = some b.cap) (hw : b.Wf mx) :
    Sat L n (popZeros b)
      (BPost mx L n b (fun b' => b'.id = b.id ∧ b'.cap = b.cap ∧ b'.ws.getLast? ≠ some 0 ∧
        ∃ t, b.ws = b'.ws ++ t ∧ ∀ x ∈ t, x = 0)) := by
  unfold popZeros
  obtain ⟨h1, ⟨t, ht, hz⟩, h3⟩ := popZerosRev_spec b.id b.ws.reverse
  have hlen : b.len ≤ b.cap := hw.1
  have hws : b.ws = (popZerosRev b.id b.ws.reverse).1.reverse ++ t.reverse := by
    have := congrArg List.reverse ht
    simpa using this
  have hacc : ∀ e ∈ (popZerosRev b.id b.ws.reverse).2,
      (∃ i, e = .read b.id i ∧ i < b.cap) ∨ (∃ i, e = .write b.id i ∧ i < b.cap) := by
    intro e he
    obtain ⟨i, hi, hlt⟩ := h1 e he
    simp only [List.length_reverse] at hlt
    exact Or.inl ⟨i, hi, Nat.lt_of_lt_of_le hlt hlen⟩
  apply sat_inplace hL
  · exact replay_access hL hacc
  · exact isAlloc_access hacc
  · rfl
  · rfl
  · refine ⟨?_, hw.2.1, hw.2.2⟩
    show (popZerosRev b.id b.ws.reverse).1.reverse.length ≤ b.cap
    have : b.len = (popZerosRev b.id b.ws.reverse).1.reverse.length + t.reverse.length := by
      show b.ws.length = _
      rw [← List.length_append, ← hws]
    omega
  · refine ⟨rfl, rfl, ?_, t.reverse, hws, ?_⟩
    · show (popZerosRev b.id b.ws.reverse).1.reverse.getLast? ≠ some 0
      rw [List.getLast?_reverse]; exact h3
    · intro x hx; exact hz x (List.mem_reverse.mp hx)

theorem truncate_sat {b : Buf} {k : Nat} (hL : L b.id = some b.cap) (hw : b.Wf mx) :
    Sat L n (truncate b k) (BPost mx L n b (fun b' => b'.id = b.id ∧ b'.cap = b.cap ∧ b'.ws = b.ws.take k)) := by
  unfold truncate
  apply Sat.ite
  · intro _
    apply Sat.pure
    refine ⟨Moves.refl hL, ⟨?_, hw.2.1, hw.2.2⟩, rfl, rfl, rfl⟩
    show (b.ws.take k).length ≤ b.cap
    have : b.ws.length ≤ b.cap := hw.1
    simp only [List.length_take]; omega
  · intro _; exact Sat.assertFail

/-- buffer.rs:341 — `ptr::copy(ptr.add(n), ptr, len - n)`, `n ≤ len` asserted -/
theorem eraseFront_sat {b : Buf} {k : Nat} (hL : L b.id = some b.cap) (hw : b.Wf mx) :
    Sat L n (eraseFront b k) (BPost mx L n b (fun b' => b'.id = b.id ∧ b'.cap = b.cap ∧ b'.ws = b.ws.drop k)) := by
  unfold eraseFront
  apply Sat.ite
  · intro hk
    have hlen : b.len ≤ b.cap := hw.1
    apply sat_inplace hL
    · exact replay_append_same (replay_rd hL _ _ (by omega)) (replay_wr hL _ _ (by omega))
    · intro e he
      rcases List.mem_append.mp he with h | h
      · exact isAlloc_rd _ _ _ e h
      · exact isAlloc_wr _ _ _ e h
    · rfl
    · rfl
    · refine ⟨?_, hw.2.1, hw.2.2⟩
      show (b.ws.drop k).length ≤ b.cap
      have : b.ws.length = b.len := rfl
      simp only [List.length_drop]; omega
    · exact ⟨rfl, rfl, rfl⟩
  · intro _; exact Sat.assertFail

/-- buffer.rs:358 — reads of words 0 and 1, `len ≥ 2` asserted -/
theorem lowestDword_sat {b : Buf} (hL : L b.id = some b.cap) (hw : b.Wf mx) :
    Sat L n (lowestDword b) (fun _ L' _ => L' = L) := by
  unfold lowestDword
  apply Sat.ite
  · intro h2
    have hlen : b.len ≤ b.cap := hw.1
    apply Sat.bind
    apply Sat.emits (L1 := L)
    · exact replay_access hL (by
        intro e he; simp at he
        rcases he with rfl | rfl
        · exact Or.inl ⟨0, rfl, by omega⟩
        · exact Or.inl ⟨1, rfl, by omega⟩)
    · intro e he; simp at he; rcases he with rfl | rfl <;> rfl
    exact Sat.pure rfl
  · intro _; exact Sat.assertFail

/-- buffer.rs:376 — `&mut *ptr`, `&mut *ptr.add(1)`, `len ≥ 2` asserted -/
theorem lowestDwordMut_sat {b : Buf} {lo hi : Nat} (hL : L b.id = some b.cap) (hw : b.Wf mx) :
    Sat L n (lowestDwordMut b lo hi) (BPost mx L n b (fun b' => b'.id = b.id ∧ b'.cap = b.cap)) := by
  unfold lowestDwordMut
  apply Sat.ite
  · intro h2
    have hlen : b.len ≤ b.cap := hw.1
    apply sat_inplace hL
    · exact replay_access hL (by
        intro e he; simp at he
        rcases he with rfl | rfl
        · exact Or.inr ⟨0, rfl, by omega⟩
        · exact Or.inr ⟨1, rfl, by omega⟩)
    · intro e he; simp at he; rcases he with rfl | rfl <;> rfl
    · rfl
    · rfl
    · refine ⟨?_, hw.2.1, hw.2.2⟩
      show (lo :: hi :: b.ws.drop 2).length ≤ b.cap
      have : b.ws.length = b.len := rfl
      simp only [List.length_cons, List.length_drop]; omega
    · exact ⟨rfl, rfl⟩
  · intro _; exact Sat.assertFail

/-- buffer.rs:482, 490 — `from_raw_parts(ptr, len)`: the slice `[0, len)` lies inside the allocation -/
theorem deref_sat {b : Buf} (hL : L b.id = some b.cap) (hw : b.Wf mx) :
    Sat L n (deref b) (fun ws L' _ => L' = L ∧ ws = b.ws) := by
  unfold deref
  apply Sat.bind
  apply Sat.emits (L1 := L) (replay_rd hL _ _ (by have := hw.1; omega)) (isAlloc_rd _ _ _)
  exact Sat.pure ⟨rfl, rfl⟩

/-- buffer.rs:470 (and the `unsafe fn deallocate_raw`, buffer.rs:111) — the pointer is live and was
    allocated with exactly `capacity` words -/
theorem dropBuf_sat {b : Buf} (hL : L b.id = some b.cap) :
    Sat L n (dropBuf b) (fun _ L' _ => Moves L L' n b.own none) := by
  unfold dropBuf deallocateRaw
  apply Sat.emit (L1 := L.set b.id none) (by simp [stepEv, hL]) rfl
  exact Moves.free

-- ------------------------------------------------------------------ constructors from data, clones

theorem SrcOk.moves {src : Option Nat} {k n1 : Nat} {L1 : Ledger} {old new : Option (Nat × Nat)}
    (hs : SrcOk L src k) (hB : L.Below n) (hm : Moves L L1 n1 old new) (hn : n ≤ n1)
    (hold : ∀ s, src = some s → ∀ c, old ≠ some (s, c)) : SrcOk L1 src k := by
  intro s hsrc
  obtain ⟨c, hc, hk⟩ := hs s hsrc
  exact ⟨c, (hm.mono hn).other hB hc (hold s hsrc), hk⟩

theorem live_lt {id c : Nat} (hB : L.Below n) (h : L id = some c) : id < n := by
  apply Nat.lt_of_not_le; intro hle; rw [hB id hle] at h; cases h

theorem fromSlice_sat {src : Option Nat} {ws : List Nat} (hs : SrcOk L src ws.length) :
    Sat L n (fromSlice mx src ws)
      (CPost mx L n (fun b => b.ws = ws ∧ b.cap = defaultCapacity mx ws.length ∧ ws.length ≤ mx)) := by
  apply Sat.of_below; intro hB
  unfold fromSlice
  apply Sat.bind
  apply Sat.conseq allocate_sat
  intro b1 L1 n1 hn1 ⟨hm1, hw1, hws1, hcap1, hk⟩
  have hs1 : SrcOk L1 src ws.length := hs.moves hB hm1 (Nat.le_refl _) (by intro s _ c hc; cases hc)
  apply Sat.conseq (pushSlice_sat (hm1.new_live _ _ rfl) hw1 hs1)
  intro b2 L2 n2 hn2 ⟨hm2, hw2, _, hcap2, hws2⟩
  refine ⟨hm1.trans hm2 hn1, hw2, ?_, ?_, hk⟩
  · rw [hws2, hws1]; rfl
  · rw [hcap2, hcap1]

/-- buffer.rs:391 — `copy_nonoverlapping(src, ptr, src.len())` when `capacity ≥ src.len()` -/
theorem cloneFromSlice_sat {b : Buf} {src : Option Nat} {ws : List Nat} (hL : L b.id = some b.cap)
    (hw : b.Wf mx) (hs : SrcOk L src ws.length) :
    Sat L n (cloneFromSlice mx b src ws) (BPost mx L n b (fun b' => b'.ws = ws)) := by
  apply Sat.of_below; intro hB
  unfold cloneFromSlice
  apply Sat.ite
  · intro hk
    apply sat_inplace hL
    · exact replay_append_same (replay_src hs) (replay_wr hL _ _ (by omega))
    · intro e he
      rcases List.mem_append.mp he with h | h
      · exact isAlloc_src e h
      · exact isAlloc_wr _ _ _ e h
    · rfl
    · rfl
    · exact ⟨hk, hw.2.1, hw.2.2⟩
    · rfl
  · intro _
    apply Sat.bind
    apply Sat.conseq (fromSlice_sat hs)
    intro nb L1 n1 hn1 ⟨hm1, hw1, hws1, _, _⟩
    apply Sat.of_below; intro hB1
    have hL1 : L1 b.id = some b.cap := (hm1.mono (Nat.le_refl _)).other hB hL (by intro c hc; cases hc)
    apply Sat.bind
    apply Sat.conseq (dropBuf_sat hL1)
    intro _ L2 n2 hn2 hm2
    apply Sat.pure
    have hne : b.id ≠ nb.id := by
      have h1 := live_lt hB hL
      rcases hm1.new_from nb.id nb.cap rfl with ⟨c0, h0⟩ | h
      · cases h0
      · omega
    exact ⟨Moves.create_then_free hm1 hm2 hB1 hn1 hne, hw1, hws1⟩

/-- buffer.rs:440 — `copy_nonoverlapping(self.ptr, new_ptr, self.len)` into a buffer allocated for
    `self.len` words -/
theorem cloneBuf_sat {b : Buf} (hL : L b.id = some b.cap) (hw : b.Wf mx) :
    Sat L n (cloneBuf mx b)
      (CPost mx L n (fun nb => nb.ws = b.ws ∧ nb.cap = defaultCapacity mx b.len ∧ b.len ≤ mx)) := by
  apply Sat.of_below; intro hB
  unfold cloneBuf
  apply Sat.bind
  apply Sat.conseq allocate_sat
  intro nb L1 n1 hn1 ⟨hm1, hw1, hws1, hcap1, hk⟩
  have hL1 : L1 b.id = some b.cap := (hm1.mono (Nat.le_refl _)).other hB hL (by intro c hc; cases hc)
  have hLn : L1 nb.id = some nb.cap := hm1.new_live _ _ rfl
  have hpol := policy_chain mx b.len hk
  apply Sat.bind
  apply Sat.emits (L1 := L1)
  · exact replay_append_same (replay_rd hL1 _ _ (by have := hw.1; omega))
      (replay_wr hLn _ _ (by rw [hcap1]; omega))
  · intro e he
    rcases List.mem_append.mp he with h | h
    · exact isAlloc_rd _ _ _ e h
    · exact isAlloc_wr _ _ _ e h
  apply Sat.pure
  refine ⟨hm1, ⟨?_, hw1.2.1, hw1.2.2⟩, rfl, hcap1, hk⟩
  show b.ws.length ≤ nb.cap
  rw [hcap1]; exact hpol.1

/-- buffer.rs:456 — `copy_nonoverlapping(src.ptr, self.ptr, src.len)` when
    `src.len ≤ capacity ≤ max_compact_capacity(src.len)`; otherwise `*self = src.clone()` -/
theorem cloneFromBuf_sat {b src : Buf} (hL : L b.id = some b.cap) (hw : b.Wf mx)
    (hLs : L src.id = some src.cap) (hws : src.Wf mx)
    (_hne : src.id ≠ b.id)   -- `copy_nonoverlapping`: distinct allocations do not overlap
    :
    Sat L n (cloneFromBuf mx b src)
      (BPost mx L n b (fun b' => b'.ws = src.ws ∧ b'.cap ≤ maxCompactCapacity mx src.len)) := by
  apply Sat.of_below; intro hB
  unfold cloneFromBuf
  apply Sat.bind
  apply Sat.conseq (Q := fun r L' n' => L' = L ∧ n' = n ∧
      (r = true → b.cap ≥ src.len ∧ b.cap ≤ maxCompactCapacity mx src.len))
  · apply Sat.ite
    · intro hge
      apply Sat.bind
      apply Sat.conseq maxCompactCapacityChecked_sat
      intro m L' n' _ ⟨hL', hn', hm, _⟩
      subst hL' hn' hm
      apply Sat.pure
      refine ⟨rfl, rfl, ?_⟩
      intro hd; exact ⟨hge, of_decide_eq_true hd⟩
    · intro _
      exact Sat.pure ⟨rfl, rfl, by intro h; cases h⟩
  intro reuse L' n' _ ⟨hL', hn', hr⟩
  subst hL' hn'
  apply Sat.ite
  · intro hre
    obtain ⟨hge, hle⟩ := hr hre
    apply sat_inplace hL
    · exact replay_append_same (replay_rd hLs _ _ (by have := hws.1; omega)) (replay_wr hL _ _ (by omega))
    · intro e he
      rcases List.mem_append.mp he with h | h
      · exact isAlloc_rd _ _ _ e h
      · exact isAlloc_wr _ _ _ e h
    · rfl
    · rfl
    · exact ⟨hge, hw.2.1, hw.2.2⟩
    · exact ⟨rfl, hle⟩
  · intro _
    apply Sat.bind
    apply Sat.conseq (cloneBuf_sat hLs hws)
    intro nb L1 n1 hn1 ⟨hm1, hw1, hws1, hcap1, hk⟩
    apply Sat.of_below; intro hB1
    have hL1 : L1 b.id = some b.cap := (hm1.mono (Nat.le_refl _)).other hB hL (by intro c hc; cases hc)
    apply Sat.bind
    apply Sat.conseq (dropBuf_sat hL1)
    intro _ L2 n2 hn2 hm2
    apply Sat.pure
    have hne' : b.id ≠ nb.id := by
      have h1 := live_lt hB hL
      rcases hm1.new_from nb.id nb.cap rfl with ⟨c0, h0⟩ | h
      · cases h0
      · omega
    refine ⟨Moves.create_then_free hm1 hm2 hB1 hn1 hne', hw1, hws1, ?_⟩
    rw [hcap1]; exact (policy_chain mx src.len hk).2.1

/-- buffer.rs:408 — `realloc(ptr, old_layout, len * size_of::<Word>())` with `len ≠ 0` -/
theorem intoBoxedSlice_sat {b : Buf} (hL : L b.id = some b.cap) :
    Sat L n (intoBoxedSlice b) (fun r L' _ =>
      match r with
      | none => Moves L L' n b.own none
      | some bx => Moves L L' n b.own bx.own ∧ bx.id = b.id) := by
  unfold intoBoxedSlice
  apply Sat.ite
  · intro _
    apply Sat.bind
    apply Sat.conseq (dropBuf_sat hL)
    intro _ L1 n1 _ hm
    exact Sat.pure hm
  · intro h0
    apply Sat.bind
    apply Sat.emit (L1 := L.set b.id (some b.len))
      (by simp [stepEv, hL]; exact h0) rfl
    apply Sat.pure
    exact ⟨Moves.set_cap, rfl⟩

end Dashu.Model.Mem
