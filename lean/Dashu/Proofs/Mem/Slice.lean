import Dashu.Proofs.Mem.Buffer
import Dashu.Model.Mem.Slice
/-
  C17 — bounds obligations of the `unsafe` blocks of shift.rs / primitive.rs.
-/
namespace Dashu.Model.Mem

/-- the slice lies inside a live allocation -/
def Slice.Ok (L : Ledger) (s : Slice) : Prop := ∃ c, L s.id = some c ∧ s.off + s.len ≤ c

variable {L : Ledger} {n : Nat}

/-- shift.rs:57 — safe for every NON-EMPTY slice (with or without debug assertions) -/
theorem shrInPlaceOneWord_sat {debug : Bool} {s : Slice} (h : s.Ok L) (hl : 1 ≤ s.len) :
    Sat L n (shrInPlaceOneWord debug s) (fun _ L' _ => L' = L) := by
  obtain ⟨c, hc, hb⟩ := h
  unfold shrInPlaceOneWord
  apply Sat.bind
  apply Sat.emit (L1 := L) (by simp [stepEv, hc]; omega) rfl
  apply Sat.ite
  · intro h0; omega
  · intro _
    apply Sat.bind
    apply Sat.emits (L1 := L)
    · exact replay_append_same (replay_rd hc _ _ (by omega)) (replay_wr hc _ _ (by omega))
    · intro e he
      rcases List.mem_append.mp he with h | h
      · exact isAlloc_rd _ _ _ e h
      · exact isAlloc_wr _ _ _ e h
    apply Sat.emit (L1 := L) (by simp [stepEv, hc]; omega) rfl
    rfl

/-- the hypothesis is needed: on an empty slice that ends its allocation the unconditional
    `ptr.read()` is out of bounds — the checker rejects the trace (even with debug assertions, the
    overflow panic comes after the read) -/
theorem shrInPlaceOneWord_empty_unsafe :
    replay (Ledger.empty.set 0 (some 3)) (shrInPlaceOneWord true ⟨0, 3, 0⟩ 1).evs = none := by
  decide

/-- primitive.rs:66 — with debug assertions: safe for every slice -/
theorem lowestDwordSlice_debug_sat {s : Slice} (h : s.Ok L) :
    Sat L n (lowestDwordSlice true s) (fun _ L' _ => L' = L) := by
  obtain ⟨c, hc, hb⟩ := h
  unfold lowestDwordSlice
  apply Sat.ite
  · intro _; exact Sat.assertFail
  · intro hl
    have hl2 : 2 ≤ s.len := by simpa using hl
    apply Sat.emits (L1 := L)
    · exact replay_access hc (by
        intro e he; simp at he
        rcases he with rfl | rfl
        · exact Or.inl ⟨_, rfl, by omega⟩
        · exact Or.inl ⟨_, rfl, by omega⟩)
    · intro e he; simp at he; rcases he with rfl | rfl <;> rfl
    rfl

/-- primitive.rs:66 — without debug assertions: safe iff the caller passes ≥ 2 words -/
theorem lowestDwordSlice_release_sat {s : Slice} (h : s.Ok L) (hl2 : 2 ≤ s.len) :
    Sat L n (lowestDwordSlice false s) (fun _ L' _ => L' = L) := by
  obtain ⟨c, hc, hb⟩ := h
  unfold lowestDwordSlice
  apply Sat.ite
  · intro hh; simp at hh
  · intro _
    apply Sat.emits (L1 := L)
    · exact replay_access hc (by
        intro e he; simp at he
        rcases he with rfl | rfl
        · exact Or.inl ⟨_, rfl, by omega⟩
        · exact Or.inl ⟨_, rfl, by omega⟩)
    · intro e he; simp at he; rcases he with rfl | rfl <;> rfl
    rfl

theorem lowestDwordSlice_release_short_unsafe :
    replay (Ledger.empty.set 0 (some 3)) (lowestDwordSlice false ⟨0, 2, 1⟩ 1).evs = none := by
  decide

/-- primitive.rs:82 — with debug assertions: safe for every slice -/
theorem highestDwordSlice_debug_sat {s : Slice} (h : s.Ok L) :
    Sat L n (highestDwordSlice true s) (fun _ L' _ => L' = L) := by
  obtain ⟨c, hc, hb⟩ := h
  unfold highestDwordSlice
  apply Sat.ite
  · intro _; exact Sat.assertFail
  · intro hl
    have hl2 : 2 ≤ s.len := by simpa using hl
    apply Sat.ite
    · intro h; omega
    · intro _
      apply Sat.emits (L1 := L)
      · exact replay_access hc (by
          intro e he; simp at he
          rcases he with rfl | rfl
          · exact Or.inl ⟨_, rfl, by omega⟩
          · exact Or.inl ⟨_, rfl, by omega⟩)
      · intro e he; simp at he; rcases he with rfl | rfl <;> rfl
      rfl

theorem highestDwordSlice_release_sat {s : Slice} (h : s.Ok L) (hl2 : 2 ≤ s.len) :
    Sat L n (highestDwordSlice false s) (fun _ L' _ => L' = L) := by
  obtain ⟨c, hc, hb⟩ := h
  unfold highestDwordSlice
  apply Sat.ite
  · intro hh; simp at hh
  · intro _
    apply Sat.ite
    · intro h; omega
    · intro _
      apply Sat.emits (L1 := L)
      · exact replay_access hc (by
          intro e he; simp at he
          rcases he with rfl | rfl
          · exact Or.inl ⟨_, rfl, by omega⟩
          · exact Or.inl ⟨_, rfl, by omega⟩)
      · intro e he; simp at he; rcases he with rfl | rfl <;> rfl
      rfl

/-- primitive.rs:96 — with debug assertions the `unreachable_unchecked` arm is never reached; without
    them it is unreachable iff the slice is non-empty -/
theorem splitHiWordSlice_debug_sat {s : Slice} (h : s.Ok L) :
    Sat L n (splitHiWordSlice true s) (fun _ L' _ => L' = L) := by
  obtain ⟨c, hc, hb⟩ := h
  unfold splitHiWordSlice
  apply Sat.ite
  · intro _; exact Sat.assertFail
  · intro hl
    have hl2 : 2 ≤ s.len := by simpa using hl
    apply Sat.ite
    · intro h; omega
    · intro _
      apply Sat.emit (L1 := L) (by simp [stepEv, hc]; omega) rfl
      rfl

theorem splitHiWordSlice_release_sat {s : Slice} (h : s.Ok L) (hl : 1 ≤ s.len) :
    Sat L n (splitHiWordSlice false s) (fun _ L' _ => L' = L) := by
  obtain ⟨c, hc, hb⟩ := h
  unfold splitHiWordSlice
  apply Sat.ite
  · intro hh; simp at hh
  · intro _
    apply Sat.ite
    · intro h; omega
    · intro _
      apply Sat.emit (L1 := L) (by simp [stepEv, hc]; omega) rfl
      rfl

/-- a buffer's `Deref` slice is an `Ok` slice; so is any sub-slice of it -/
theorem Slice.ok_of_buf {mx : Nat} {b : Buf} (hL : L b.id = some b.cap) (hw : b.Wf mx) (off len : Nat)
    (h : off + len ≤ b.len) : Slice.Ok L ⟨b.id, off, len⟩ :=
  ⟨b.cap, hL, by have := hw.1; show off + len ≤ b.cap; omega⟩

end Dashu.Model.Mem
