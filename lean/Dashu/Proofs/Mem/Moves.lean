import Dashu.Proofs.Mem.Sat
/-
  C17 — `Moves L L' n old new`: the ledger changed from `L` to `L'` exactly by replacing the owned
  allocation `old` (id, capacity) by `new`; every other id is untouched (ids ≥ n that were allocated
  and freed in between are dead again).
-/
namespace Dashu.Model.Mem

structure Moves (L L' : Ledger) (n : Nat) (old new : Option (Nat × Nat)) : Prop where
  new_live : ∀ i c, new = some (i, c) → L' i = some c
  new_from : ∀ i c, new = some (i, c) → (∃ c0, old = some (i, c0)) ∨ n ≤ i
  frame : ∀ j, (∀ c, old ≠ some (j, c)) → (∀ c, new ≠ some (j, c)) → L' j = L j ∨ (n ≤ j ∧ L' j = none)
  old_dead : ∀ i c, old = some (i, c) → (∀ c', new ≠ some (i, c')) → L' i = none

theorem Moves.refl {L : Ledger} {n i c : Nat} (h : L i = some c) : Moves L L n (some (i, c)) (some (i, c)) where
  new_live := by intro i' c' he; cases he; exact h
  new_from := by intro i' c' he; cases he; exact Or.inl ⟨c, rfl⟩
  frame := by intro j _ _; exact Or.inl rfl
  old_dead := by intro i' c' he hn; cases he; exact absurd rfl (hn c)

theorem Moves.refl_none {L : Ledger} {n : Nat} : Moves L L n none none where
  new_live := by intro i' c' he; cases he
  new_from := by intro i' c' he; cases he
  frame := by intro j _ _; exact Or.inl rfl
  old_dead := by intro i' c' he; cases he

/-- realloc in place -/
theorem Moves.set_cap {L : Ledger} {n i c c' : Nat} :
    Moves L (L.set i (some c')) n (some (i, c)) (some (i, c')) where
  new_live := by intro i' c'' he; cases he; simp [Ledger.set]
  new_from := by intro i' c'' he; cases he; exact Or.inl ⟨c, rfl⟩
  frame := by
    intro j ho _; left; simp only [Ledger.set]; split
    · rename_i h; subst h; exact absurd rfl (ho c)
    · rfl
  old_dead := by intro i' c'' he hn; cases he; exact absurd rfl (hn c')

/-- allocation of a fresh id -/
theorem Moves.alloc {L : Ledger} {n i c : Nat} (hi : n ≤ i) :
    Moves L (L.set i (some c)) n none (some (i, c)) where
  new_live := by intro i' c'' he; cases he; simp [Ledger.set]
  new_from := by intro i' c'' he; cases he; exact Or.inr hi
  frame := by
    intro j _ hn; left; simp only [Ledger.set]; split
    · rename_i h; subst h; exact absurd rfl (hn c)
    · rfl
  old_dead := by intro i' c' he; cases he

/-- free -/
theorem Moves.free {L : Ledger} {n i c : Nat} :
    Moves L (L.set i none) n (some (i, c)) none where
  new_live := by intro i' c'' he; cases he
  new_from := by intro i' c'' he; cases he
  frame := by
    intro j ho _; left; simp only [Ledger.set]; split
    · rename_i h; subst h; exact absurd rfl (ho c)
    · rfl
  old_dead := by intro i' c' he _; cases he; simp [Ledger.set]

theorem Moves.trans {L L1 L2 : Ledger} {n n1 : Nat} {old mid new : Option (Nat × Nat)}
    (h1 : Moves L L1 n old mid) (h2 : Moves L1 L2 n1 mid new) (hn : n ≤ n1) :
    Moves L L2 n old new where
  new_live := h2.new_live
  new_from := by
    intro i c he
    rcases h2.new_from i c he with ⟨c0, hm⟩ | hi
    · exact h1.new_from i c0 hm
    · exact Or.inr (Nat.le_trans hn hi)
  frame := by
    intro j ho hnw
    cases hm : mid with
    | none =>
      subst hm
      rcases h2.frame j (by intro c hc; cases hc) hnw with h | ⟨hj, h⟩
      · rw [h]; exact h1.frame j ho (by intro c hc; cases hc)
      · exact Or.inr ⟨Nat.le_trans hn hj, h⟩
    | some p =>
      obtain ⟨mi, mc⟩ := p
      subst hm
      by_cases hjm : j = mi
      · subst hjm
        have hd := h2.old_dead j mc rfl hnw
        rcases h1.new_from j mc rfl with ⟨c0, hc0⟩ | hj
        · exact absurd hc0 (ho c0)
        · exact Or.inr ⟨hj, hd⟩
      · have hnm : ∀ c, some (mi, mc) ≠ some (j, c) := by
          intro c hc; cases hc; exact hjm rfl
        rcases h2.frame j hnm hnw with h | ⟨hj, h⟩
        · rw [h]; exact h1.frame j ho hnm
        · exact Or.inr ⟨Nat.le_trans hn hj, h⟩
  old_dead := by
    intro i c he hnw
    cases hm : mid with
    | none =>
      subst hm
      have h1d := h1.old_dead i c he (by intro c' hc; cases hc)
      rcases h2.frame i (by intro c' hc; cases hc) hnw with h | ⟨_, h⟩
      · rw [h]; exact h1d
      · exact h
    | some p =>
      obtain ⟨mi, mc⟩ := p
      subst hm
      by_cases him : i = mi
      · subst him; exact h2.old_dead i mc rfl hnw
      · have hnm : ∀ c', some (mi, mc) ≠ some (i, c') := by
          intro c' hc; cases hc; exact him rfl
        have h1d := h1.old_dead i c he hnm
        rcases h2.frame i hnm hnw with h | ⟨_, h⟩
        · rw [h]; exact h1d
        · exact h

/-- weaken the counter -/
theorem Moves.mono {L L' : Ledger} {n n0 : Nat} {old new : Option (Nat × Nat)}
    (h : Moves L L' n old new) (hn : n0 ≤ n) : Moves L L' n0 old new where
  new_live := h.new_live
  new_from := by
    intro i c he; rcases h.new_from i c he with h' | h'
    · exact Or.inl h'
    · exact Or.inr (Nat.le_trans hn h')
  frame := by
    intro j ho hnw; rcases h.frame j ho hnw with h' | ⟨hj, h'⟩
    · exact Or.inl h'
    · exact Or.inr ⟨Nat.le_trans hn hj, h'⟩
  old_dead := h.old_dead

/-- an allocation that is neither the old nor the new one keeps its ledger entry, provided it was live -/
theorem Moves.other {L L' : Ledger} {n : Nat} {old new : Option (Nat × Nat)} (h : Moves L L' n old new)
    (hB : L.Below n) {j cj : Nat} (hj : L j = some cj) (ho : ∀ c, old ≠ some (j, c)) :
    L' j = some cj := by
  have hlt : j < n := by
    apply Nat.lt_of_not_le; intro hle; rw [hB j hle] at hj; cases hj
  have hnw : ∀ c, new ≠ some (j, c) := by
    intro c hc
    rcases h.new_from j c hc with ⟨c0, h0⟩ | hle
    · exact ho c0 h0
    · omega
  rcases h.frame j ho hnw with h' | ⟨hle, _⟩
  · rw [h']; exact hj
  · omega

/-- `*self = new_value`: the new allocation is made first, then the old one is freed -/
theorem Moves.create_then_free {L L1 L2 : Ledger} {n n1 i c o co : Nat}
    (h1 : Moves L L1 n none (some (i, c))) (h2 : Moves L1 L2 n1 (some (o, co)) none)
    (hB1 : L1.Below n1) (hn : n ≤ n1) (hne : o ≠ i) : Moves L L2 n (some (o, co)) (some (i, c)) where
  new_live := by
    intro i' c' he; cases he
    have hl := h1.new_live i c rfl
    rcases h2.frame i (by intro c0 hc; cases hc; exact hne rfl) (by intro c0 hc; cases hc) with h | ⟨hle, _⟩
    · rw [h]; exact hl
    · rw [hB1 i hle] at hl; cases hl
  new_from := by
    intro i' c' he; cases he
    rcases h1.new_from i c rfl with ⟨c0, h0⟩ | h
    · cases h0
    · exact Or.inr h
  frame := by
    intro j ho hnw
    rcases h2.frame j ho (by intro c0 hc; cases hc) with h | ⟨hle, h⟩
    · rw [h]; exact h1.frame j (by intro c0 hc; cases hc) hnw
    · exact Or.inr ⟨Nat.le_trans hn hle, h⟩
  old_dead := by
    intro i' c' he _; cases he
    exact h2.old_dead o co rfl (by intro c0 hc; cases hc)

end Dashu.Model.Mem
