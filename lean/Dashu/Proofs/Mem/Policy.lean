import Dashu.Model.Mem.Buffer
/-
  C17 (e) — the capacity policy, about the *generated* text of `Buffer::default_capacity` /
  `Buffer::max_compact_capacity` (lean/Dashu/Gen/Misc.lean, regenerated from /repo on every run).
-/
namespace Dashu.Model.Mem

theorem gmin_toNat (a b : Int) : (Dashu.GluePrelude.min a b).toNat = min a.toNat b.toNat := by
  unfold Dashu.GluePrelude.min
  by_cases h : a ≤ b <;> simp only [h, ↓reduceIte] <;> omega

/-- `n ≤ default_capacity n ≤ max_compact_capacity n ≤ MAX_CAPACITY` for `n ≤ MAX_CAPACITY`; proved from the
    regenerated text itself (no closed form is assumed: any literal divisors/offsets for which the chain is
    linear-arithmetic true keep this proof valid) -/
theorem policy_chain (mx n : Nat) (h : n ≤ mx) :
    n ≤ defaultCapacity mx n ∧ defaultCapacity mx n ≤ maxCompactCapacity mx n ∧
    maxCompactCapacity mx n ≤ mx := by
  unfold defaultCapacity maxCompactCapacity Dashu.Gen.default_capacity Dashu.Gen.max_compact_capacity
  rw [gmin_toNat, gmin_toNat]
  simp only [Dashu.GluePrelude.add_, Dashu.GluePrelude.div_]
  omega

/-- a buffer allocated for `n+1` words and filled with `n` or `n+1` is compact (`Repr::ones`) -/
theorem default_succ_le_maxCompact (mx n : Nat) :
    defaultCapacity mx (n + 1) ≤ maxCompactCapacity mx n := by
  unfold defaultCapacity maxCompactCapacity Dashu.Gen.default_capacity Dashu.Gen.max_compact_capacity
  rw [gmin_toNat, gmin_toNat]
  simp only [Dashu.GluePrelude.add_, Dashu.GluePrelude.div_]
  omega
end Dashu.Model.Mem
