import Dashu.Model.Mem.Buffer
/-
  C17 (e) — the capacity policy, about the *generated* text of `Buffer::default_capacity` /
  `Buffer::max_compact_capacity` (lean/Dashu/Gen/Misc.lean, regenerated from /repo on every run).
-/
namespace Dashu.Model.Mem

theorem defaultCapacity_eq (mx n : Nat) : defaultCapacity mx n = min (n + n / 8 + 2) mx := by
  unfold defaultCapacity Dashu.Gen.default_capacity
  simp only [Dashu.GluePrelude.min, Dashu.GluePrelude.add_, Dashu.GluePrelude.div_]
  by_cases h : ((n : Int) + (n : Int) / 8 + 2 ≤ (mx : Int)) <;> simp only [h, ↓reduceIte] <;> omega

theorem maxCompactCapacity_eq (mx n : Nat) : maxCompactCapacity mx n = min (n + n / 4 + 4) mx := by
  unfold maxCompactCapacity Dashu.Gen.max_compact_capacity
  simp only [Dashu.GluePrelude.min, Dashu.GluePrelude.add_, Dashu.GluePrelude.div_]
  by_cases h : ((n : Int) + (n : Int) / 4 + 4 ≤ (mx : Int)) <;> simp only [h, ↓reduceIte] <;> omega

/-- `n ≤ default_capacity n ≤ max_compact_capacity n ≤ MAX_CAPACITY` for `n ≤ MAX_CAPACITY` -/
theorem policy_chain (mx n : Nat) (h : n ≤ mx) :
    n ≤ defaultCapacity mx n ∧ defaultCapacity mx n ≤ maxCompactCapacity mx n ∧
    maxCompactCapacity mx n ≤ mx := by
  rw [defaultCapacity_eq, maxCompactCapacity_eq]; omega

/-- a buffer allocated for `n+1` words and filled with `n` or `n+1` is compact (`Repr::ones`) -/
theorem default_succ_le_maxCompact (mx n : Nat) :
    defaultCapacity mx (n + 1) ≤ maxCompactCapacity mx n := by
  rw [defaultCapacity_eq, maxCompactCapacity_eq]; omega

end Dashu.Model.Mem
