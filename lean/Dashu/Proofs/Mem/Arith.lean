import Dashu.Proofs.Mem.Pool
import Dashu.Model.Mem.Arith
/-
  C17 — the arithmetic skeletons are histories over `Op` whose every op satisfies `Op.Ok`.
-/
namespace Dashu.Model.Mem

theorem AOp.toOp_ok (mx : Nat) (a : AOp) : (a.toOp).Ok mx := by
  cases a <;> exact trivial

theorem AOp.map_ok (mx : Nat) (sk : List AOp) : ∀ op ∈ sk.map AOp.toOp, op.Ok mx := by
  intro op hop
  obtain ⟨a, _, rfl⟩ := List.mem_map.mp hop
  exact AOp.toOp_ok mx a

end Dashu.Model.Mem
