import Dashu.Proofs.Mem.Repr
/-
  C17 — static-backed values (`Repr::from_static_words`, what `ubig!`/`static_ubig!` expand to),
  `into_sign_typed`, and the `&UBig ↔ &IBig` transmutes.
-/
namespace Dashu.Model.Mem

variable {L : Ledger} {n mx : Nat}

/-- the invariant of a static-backed value: `|capacity| = len ≥ 3`, top word ≠ 0 -/
def StaticWf (ws : List Nat) : Prop := 3 ≤ ws.length ∧ ws.getLast? ≠ some 0

/-- repr.rs:290 — `from_static_words`: ≤ 2 words give an ordinary canonical inline value (the
    `[lo, hi]` case asserts `hi > 0`), ≥ 3 words a static-backed value with non-zero top word and
    `capacity = len ≠ 0` (the `new_unchecked` obligation); no ledger event -/
theorem fromStaticWords_sat (ws : List Nat) :
    Sat L n (Rep.fromStaticWords ws) (fun o L' n' => L' = L ∧ n' = n ∧
      match o with
      | .value r => r.Canon mx ∧ r.own = none ∧ r.isNeg = false ∧
          ∃ t, ws = r.words ++ t ∧ ∀ x ∈ t, x = 0
      | .stat ws' => ws' = ws ∧ StaticWf ws') := by
  unfold Rep.fromStaticWords
  split
  · exact Sat.pure ⟨rfl, rfl, Rep.canon_fromWord 0, rfl, rfl, [], rfl, by simp⟩
  · rename_i w
    apply Sat.pure
    refine ⟨rfl, rfl, Rep.canon_fromWord w, rfl, rfl, ?_⟩
    -- NB `from_static_words(&[0])` is the value 0 whose `as_words()` is `[]`, not `[0]`
    by_cases hw : w = 0
    · subst hw; exact ⟨[0], by simp [Rep.fromWord, Rep.words], by simp⟩
    · exact ⟨[], by simp [Rep.fromWord, Rep.words, hw], by simp⟩
  · rename_i lo hi
    apply Sat.ite
    · intro hhi
      apply Sat.pure
      have : hi ≠ 0 := by omega
      refine ⟨rfl, rfl, Rep.canon_fromDword lo hi, ?_, ?_, ?_⟩
      · unfold Rep.fromDword; rfl
      · unfold Rep.fromDword; rfl
      · exact ⟨[], by simp [Rep.fromDword, Rep.words, this], by simp⟩
    · intro _; exact Sat.assertFail
  · rename_i h0 h1 h2
    apply Sat.ite
    · intro _; exact Sat.assertFail
    · intro hl
      exact Sat.pure ⟨rfl, rfl, rfl, length_ge_three h0 h1 h2, hl⟩

/-- `from_static_words(&[0])` is accepted and is the value zero: the one-word case has no
    normalisation assert (harmless: the result is the canonical zero) -/
theorem fromStaticWords_zero_word :
    (Rep.fromStaticWords [0] 0).res.toOption = some (.value (Rep.fromWord 0)) := by decide

/-- `Clone::clone` of a static-backed value: reads only the static array (no ledger access), the
    copy owns a fresh allocation, is canonical and equal -/
theorem cloneStatic_sat {ws : List Nat} {neg : Bool} (hs : StaticWf ws) :
    Sat L n (Rep.cloneStatic mx ws neg) (fun r' L' _ =>
      Moves L L' n none r'.own ∧ r'.Canon mx ∧ r'.words = ws ∧ r'.isNeg = neg) := by
  obtain ⟨h3, hlast⟩ := hs
  unfold Rep.cloneStatic
  apply Sat.bind
  apply Sat.conseq allocate_sat
  intro b1 L1 n1 hn1 ⟨hm1, hw1, hws1, hcap1, hk⟩
  apply Sat.bind
  apply Sat.conseq (pushSlice_sat (hm1.new_live _ _ rfl) hw1 (by intro s hs; cases hs))
  intro b2 L2 n2 hn2 ⟨hm2, hw2, _, hcap2, hws2⟩
  have hpol := policy_chain mx ws.length hk
  have hc3 : 3 ≤ b2.cap := by rw [hcap2, hcap1]; omega
  apply Sat.bind
  apply Sat.conseq (ofBuf_sat hc3)
  intro r' L3 n3 hn3 ⟨hL3, _, hr⟩
  subst L3 r'
  apply Sat.pure
  have hws : b2.ws = ws := by rw [hws2, hws1]; rfl
  have hcn : (Rep.heap b2.id b2.cap b2.ws false).Canon mx := by
    show 3 ≤ b2.ws.length ∧ _
    rw [hws, hcap2, hcap1]
    exact ⟨h3, hlast, hpol.1, hpol.2.1, by omega⟩
  refine ⟨?_, Rep.canon_withSign hcn neg, ?_, ?_⟩
  · rw [Rep.own_withSign]; exact hm1.trans hm2 hn1
  · rw [Rep.words_withSign]; exact hws
  · rw [Rep.isNeg_withSign]; rfl

/-- `clone_from(&mut self, &STATIC)` for every size relation: equal to the static value, canonical,
    old buffer reused or freed exactly once -/
theorem cloneFromStatic_sat {self : Rep} {sws : List Nat} {sneg : Bool} (hcs : self.Canon mx)
    (hLs : self.Live L) (hs : StaticWf sws) :
    Sat L n (Rep.cloneFromStatic mx self sws sneg) (fun r' L' _ =>
      Moves L L' n self.own r'.own ∧ r'.Canon mx ∧ r'.words = sws ∧ r'.isNeg = sneg) := by
  obtain ⟨h3, hlast⟩ := hs
  apply Sat.of_below; intro hB
  unfold Rep.cloneFromStatic
  simp only
  apply Sat.ite
  · intro hlt; exact absurd hlt (by omega)
  · intro _
    apply Sat.bind
    apply Sat.conseq (Q := fun r L' n' => L' = L ∧ n' = n ∧
        (r = false → sws.length ≤ self.capacity ∧ self.capacity ≤ maxCompactCapacity mx sws.length))
    · apply Sat.ite
      · intro _; exact Sat.pure ⟨rfl, rfl, by intro h; cases h⟩
      · intro hge
        apply Sat.bind
        apply Sat.conseq maxCompactCapacityChecked_sat
        intro m L' n' _ ⟨hL', hn', hm, _⟩
        subst L' n' m
        apply Sat.pure
        refine ⟨rfl, rfl, ?_⟩
        intro hd
        exact ⟨Nat.le_of_not_lt hge, Nat.le_of_not_lt (of_decide_eq_false hd)⟩
    intro re L' n' _ ⟨hL', hn', hr⟩
    subst L' n'
    apply Sat.ite
    · intro _
      apply Sat.bind
      apply Sat.conseq (releaseOld_sat hLs)
      intro _ L1 n1 _ ⟨hm1, hn1⟩
      subst n1
      apply Sat.bind
      apply Sat.conseq defaultCapacityChecked_sat
      intro nc L1' n1' _ ⟨hL1', hn1', hnc, hk⟩
      subst L1' n1' nc
      have hpol := policy_chain mx sws.length hk
      apply Sat.bind
      apply Sat.conseq allocateRaw_sat
      intro nid L2 n2 _ ⟨hnid, _, hL2, _, hncm⟩
      subst nid L2
      have hln2 : (L1.set n (some (defaultCapacity mx sws.length))) n = some (defaultCapacity mx sws.length) := by
        simp [Ledger.set]
      apply Sat.bind
      apply Sat.emits (L1 := L1.set n (some (defaultCapacity mx sws.length)))
        (replay_wr hln2 _ _ (by omega)) (isAlloc_wr _ _ _)
      apply Sat.pure
      exact ⟨hm1.trans (Moves.alloc (Nat.le_refl _)) (Nat.le_refl _),
        ⟨h3, hlast, hpol.1, hpol.2.1, hncm⟩, rfl, rfl⟩
    · intro hre
      have hre' : re = false := by cases re <;> simp_all
      obtain ⟨hge, hle⟩ := hr hre'
      cases self with
      | inline lo' hi' code' neg' =>
        have := Rep.capacity_le_two_of_inline hcs
        simp only [Rep.capacity] at hge
        omega
      | heap id cap ws neg' =>
        simp only [Rep.capacity] at hge hle
        have hl := hLs id cap rfl
        unfold Rep.copyIntoExt
        apply Sat.bind
        apply Sat.emits (L1 := L) (replay_wr hl _ _ (by omega)) (isAlloc_wr _ _ _)
        apply Sat.pure
        exact ⟨Moves.refl hl, ⟨h3, hlast, hge, hle, hcs.2.2.2.2⟩, rfl, rfl⟩

theorem Rep.canon_setNeg_false {r : Rep} (h : r.Canon mx) : (r.setNeg false).Canon mx := by
  cases r with
  | inline lo hi code neg => exact ⟨h.1, by intro hh; cases hh⟩
  | heap id cap ws neg => exact h

theorem Rep.own_setNeg (r : Rep) (s : Bool) : (r.setNeg s).own = r.own := by cases r <;> rfl
theorem Rep.words_setNeg (r : Rep) (s : Bool) : (r.setNeg s).words = r.words := by cases r <;> rfl
theorem Rep.isNeg_setNeg (r : Rep) (s : Bool) : (r.setNeg s).isNeg = s := by cases r <;> rfl

/-- repr.rs:209 — `into_sign_typed`: never asserts (the capacity is made positive first), hands the
    allocation over unchanged -/
theorem intoSignTyped_sat {r : Rep} (hc : r.Canon mx) (hL : r.Live L) :
    Sat L n (Rep.intoSignTyped r) (fun o L' _ =>
      L' = L ∧ o.1 = r.isNeg ∧ o.2.own = r.own ∧
      match o.2 with
      | .small lo hi => r.words = (Rep.fromDword lo hi).words
      | .large b => b.Wf mx ∧ b.ws = r.words) := by
  unfold Rep.intoSignTyped
  apply Sat.bind
  have hL' : (r.setNeg false).Live L := by
    intro id c ho; rw [Rep.own_setNeg] at ho; exact hL id c ho
  apply Sat.conseq (intoTyped_sat (Rep.canon_setNeg_false hc) hL')
  intro t L' n' _ ⟨hLL, hown, ht⟩
  apply Sat.pure
  refine ⟨hLL, rfl, by rw [hown, Rep.own_setNeg], ?_⟩
  cases t with
  | small lo hi => simpa [Rep.words_setNeg] using ht
  | large b => simpa [Rep.words_setNeg] using ht

/-- `into_sign_typed` does not panic on canonical values (unlike `into_typed` on a negative one) -/
theorem intoSignTyped_no_panic {r : Rep} (n : Nat) : ∃ o, (Rep.intoSignTyped r n).res = .ok o := by
  cases r with
  | inline lo hi code neg => exact ⟨_, rfl⟩
  | heap id cap ws neg => exact ⟨_, rfl⟩

/-- convert.rs:563 / 695 — `&UBig → &IBig` and `&IBig → Option<&UBig>` are the identity on the
    representation; `as_ubig` yields a value only when the sign is positive, so a `&UBig` never
    points at a negative `Repr` -/
theorem as_ubig_positive {r r' : Rep} (h : Rep.asUbig r = some r') : r' = r ∧ r'.isNeg = false := by
  unfold Rep.asUbig at h
  split at h
  · cases h
  · rename_i hn; injection h with h; subst h; exact ⟨rfl, by simpa using hn⟩

-- ------------------------------------------------------------------ zeroize (feature `zeroize`)

/-- buffer.rs:438 / zeroize.rs:12 — the full-capacity slice is exactly the allocation; afterwards the
    buffer is empty with the same allocation -/
theorem zeroizeBuf_sat {b : Buf} (hL : L b.id = some b.cap) (hw : b.Wf mx) :
    Sat L n (zeroizeBuf b) (BPost mx L n b (fun b' => b'.id = b.id ∧ b'.cap = b.cap ∧ b'.ws = [])) := by
  unfold zeroizeBuf asFullSliceZero
  apply Sat.bind
  apply Sat.emits (L1 := L) (replay_wr hL _ _ (by omega)) (isAlloc_wr _ _ _)
  have hw' : Buf.Wf mx { b with ws := List.replicate b.len 0 } := by
    refine ⟨?_, hw.2.1, hw.2.2⟩
    show (List.replicate b.len 0).length ≤ b.cap
    simp only [List.length_replicate]; exact hw.1
  apply Sat.conseq (truncate_sat (b := { b with ws := List.replicate b.len 0 }) hL hw')
  intro b' L' n' _ ⟨hm, hwf, hid, hcap, hws⟩
  exact ⟨hm, hwf, hid, hcap, by rw [hws]; simp⟩

/-- repr.rs:253 / zeroize.rs:19 — the full slice of a heap value is exactly its allocation
    (`|capacity|` words); afterwards the value is the canonical zero and the buffer is freed once -/
theorem repZeroize_sat {r : Rep} (hc : r.Canon mx) (hL : r.Live L) :
    Sat L n (Rep.zeroize mx r) (fun r' L' _ =>
      Moves L L' n r.own none ∧ r' = Rep.fromWord 0) := by
  unfold Rep.zeroize
  apply Sat.bind
  apply Sat.conseq (Q := fun _ L1 n1 => L1 = L ∧ n1 = n)
  · cases r with
    | inline lo hi code neg => exact Sat.pure ⟨rfl, rfl⟩
    | heap id cap ws neg =>
      unfold Rep.fullSliceZero
      exact Sat.emits (L1 := L) (replay_wr (hL id cap rfl) _ _ (by omega)) (isAlloc_wr _ _ _) ⟨rfl, rfl⟩
  intro _ L1 n1 _ ⟨hL1, hn1⟩
  subst L1 n1
  show Sat L n (Rep.cloneFrom mx r (Rep.inline 0 0 1 false)) _
  unfold Rep.cloneFrom
  apply Sat.bind
  apply Sat.conseq (releaseOld_sat hL)
  intro _ L1 n1 _ ⟨hm, _⟩
  exact Sat.pure ⟨hm, rfl⟩

end Dashu.Model.Mem
