import Dashu.Proofs.Mem.Buffer
/-
  C17 — specifications of the storage part of `repr.rs`.  `Rep.Canon` is the representation invariant
  of the property text: inline ⇔ ≤ 2 words, heap ⇒ ≥ 3 words with a non-zero top word and a capacity
  within the compactness bound, zero never negative.
-/
namespace Dashu.Model.Mem

def Rep.own : Rep → Option (Nat × Nat)
  | .inline .. => none
  | .heap id cap _ _ => some (id, cap)

/-- the representation invariant (`mx` = `Buffer::MAX_CAPACITY`) -/
def Rep.Canon (mx : Nat) : Rep → Prop
  | .inline lo hi code neg =>
    ((code = 1 ∧ hi = 0) ∨ (code = 2 ∧ hi ≠ 0)) ∧ (neg = true → ¬(code = 1 ∧ lo = 0))
  | .heap _ cap ws _ =>
    3 ≤ ws.length ∧ ws.getLast? ≠ some 0 ∧ ws.length ≤ cap ∧
    cap ≤ maxCompactCapacity mx ws.length ∧ cap ≤ mx

/-- the allocation a `Repr` points to is live with the capacity stored in the `Repr` -/
def Rep.Live (L : Ledger) (r : Rep) : Prop := ∀ id cap, r.own = some (id, cap) → L id = some cap

variable {L : Ledger} {n mx : Nat}

theorem Rep.canon_fromWord (w : Nat) : (Rep.fromWord w).Canon mx := by
  simp [Rep.fromWord, Rep.Canon]

theorem Rep.canon_fromDword (lo hi : Nat) : (Rep.fromDword lo hi).Canon mx := by
  unfold Rep.fromDword Rep.Canon
  by_cases h : hi = 0 <;> simp [h]

/-- `with_sign` keeps canonical form (repr.rs:136: the negated capacity is never 0, zero stays positive) -/
theorem Rep.canon_withSign {r : Rep} (h : r.Canon mx) (s : Bool) : (r.withSign s).Canon mx := by
  unfold Rep.withSign
  split
  · rename_i hc
    cases r with
    | inline lo hi code neg =>
      simp only [Rep.isZero, Rep.isNeg, Rep.setNeg, Rep.Canon] at hc h ⊢
      refine ⟨h.1, ?_⟩
      intro _ hz
      simp [hz] at hc
    | heap id cap ws neg => exact h
  · exact h

theorem Rep.canon_negate {r : Rep} (h : r.Canon mx) : r.negate.Canon mx := by
  unfold Rep.negate
  split
  · rename_i hc
    cases r with
    | inline lo hi code neg =>
      simp only [Rep.isZero, Rep.isNeg, Rep.setNeg, Rep.Canon] at hc h ⊢
      refine ⟨h.1, ?_⟩
      intro _ hz
      simp [hz] at hc
    | heap id cap ws neg => exact h
  · exact h

theorem Rep.own_withSign (r : Rep) (s : Bool) : (r.withSign s).own = r.own := by
  unfold Rep.withSign; split
  · cases r <;> rfl
  · rfl

theorem Rep.own_negate (r : Rep) : r.negate.own = r.own := by
  unfold Rep.negate; split
  · cases r <;> rfl
  · rfl

theorem Rep.words_withSign (r : Rep) (s : Bool) : (r.withSign s).words = r.words := by
  unfold Rep.withSign; split
  · cases r <;> rfl
  · rfl

/-- `with_sign` sets the requested sign unless the value is zero -/
theorem Rep.isNeg_withSign (r : Rep) (s : Bool) :
    (r.withSign s).isNeg = if r.isZero then r.isNeg else s := by
  unfold Rep.withSign
  cases r with
  | inline lo hi code neg =>
    simp only [Rep.isZero, Rep.isNeg, Rep.setNeg]
    by_cases hz : code = 1 ∧ lo = 0
    · simp [hz]
    · cases s <;> cases neg <;> simp [hz]
  | heap id cap ws neg =>
    simp only [Rep.isZero, Rep.isNeg, Rep.setNeg]
    cases s <;> cases neg <;> simp

-- ------------------------------------------------------------------ transmute

/-- repr.rs:333 / 433 / 487 — `transmute::<Buffer, Repr>` is applied to a buffer of capacity ≥ 3 -/
theorem ofBuf_sat {site : String} {b : Buf} (h : 3 ≤ b.cap) :
    Sat L n (Rep.ofBuf site b) (fun r L' n' => L' = L ∧ n' = n ∧ r = .heap b.id b.cap b.ws false) := by
  unfold Rep.ofBuf
  simp only [h, ↓reduceIte]
  exact Sat.pure ⟨rfl, rfl, rfl⟩

theorem length_ge_three {ws : List Nat} (h0 : ws ≠ []) (h1 : ∀ a, ws ≠ [a]) (h2 : ∀ a c, ws ≠ [a, c]) :
    3 ≤ ws.length := by
  match ws with
  | [] => exact absurd rfl h0
  | [a] => exact absurd rfl (h1 a)
  | [a, c] => exact absurd rfl (h2 a c)
  | _ :: _ :: _ :: _ => simp

/-- repr.rs:333 — `Repr::from_buffer`: canonical output (incl. the compactness bound), same words up
    to the trimmed high zeros, buffer released in the inline cases -/
theorem fromBuffer_sat {b : Buf} (hL : L b.id = some b.cap) (hw : b.Wf mx) :
    Sat L n (Rep.fromBuffer mx b) (fun r L' _ =>
      Moves L L' n b.own r.own ∧ r.Canon mx ∧ r.isNeg = false ∧
      ∃ t, b.ws = r.words ++ t ∧ ∀ x ∈ t, x = 0) := by
  unfold Rep.fromBuffer
  apply Sat.bind
  apply Sat.conseq (popZeros_sat hL hw)
  intro b1 L1 n1 hn1 ⟨hm1, hw1, hid1, hcap1, hlast, t, ht, hz⟩
  have hL1 : L1 b1.id = some b1.cap := hm1.new_live _ _ rfl
  split
  · -- len 0
    rename_i hws
    apply Sat.bind
    apply Sat.conseq (dropBuf_sat hL1)
    intro _ L2 n2 hn2 hm2
    apply Sat.pure
    refine ⟨hm1.trans hm2 hn1, Rep.canon_fromWord 0, rfl, t, ?_, hz⟩
    rw [ht, hws]; rfl
  · -- len 1
    rename_i a hws
    have ha : a ≠ 0 := by
      intro h; apply hlast; rw [hws, h]; rfl
    apply Sat.bind
    apply Sat.emit (L1 := L1) (by simp [stepEv, hL1]; exact Nat.ne_of_gt hw1.2.1) rfl
    apply Sat.bind
    apply Sat.conseq (dropBuf_sat hL1)
    intro _ L2 n2 hn2 hm2
    apply Sat.pure
    refine ⟨hm1.trans hm2 hn1, Rep.canon_fromWord a, rfl, t, ?_, hz⟩
    rw [ht, hws]; simp [Rep.fromWord, Rep.words, ha]
  · -- len 2
    rename_i a c hws
    have hc : c ≠ 0 := by
      intro h; apply hlast; rw [hws, h]; rfl
    have hlen : 2 ≤ b1.cap := by
      have := hw1.1; unfold Buf.len at this; rw [hws] at this; exact this
    apply Sat.bind
    apply Sat.emits (L1 := L1)
    · exact replay_access hL1 (by
        intro e he; simp at he
        rcases he with rfl | rfl
        · exact Or.inl ⟨0, rfl, by omega⟩
        · exact Or.inl ⟨1, rfl, by omega⟩)
    · intro e he; simp at he; rcases he with rfl | rfl <;> rfl
    apply Sat.bind
    apply Sat.conseq (dropBuf_sat hL1)
    intro _ L2 n2 hn2 hm2
    apply Sat.pure
    refine ⟨hm1.trans hm2 hn1, Rep.canon_fromDword a c, rfl, t, ?_, hz⟩
    rw [ht, hws]; simp [Rep.fromDword, Rep.words, hc]
  · -- len ≥ 3
    rename_i h0 h1 h2
    have h3 : 3 ≤ b1.ws.length := length_ge_three h0 h1 h2
    apply Sat.bind
    apply Sat.conseq (shrinkToFit_sat hL1 hw1)
    intro b2 L2 n2 hn2 ⟨hm2, hw2, hid2, hws2, hcap2⟩
    have hc3 : 3 ≤ b2.cap := by
      have := hw2.1; unfold Buf.len at this; rw [hws2] at this; omega
    apply Sat.conseq (ofBuf_sat hc3)
    intro r L3 n3 hn3 ⟨hL3, _, hr⟩
    subst hL3 hr
    refine ⟨hm1.trans hm2 hn1, ?_, rfl, t, ?_, hz⟩
    · show 3 ≤ b2.ws.length ∧ _
      rw [hws2]
      refine ⟨h3, hlast, ?_, hcap2, hw2.2.2⟩
      have := hw2.1; unfold Buf.len at this; rw [hws2] at this; exact this
    · show b.ws = b2.ws ++ t
      rw [hws2]; exact ht

/-- repr.rs:356 — `Repr::into_buffer`; the heap arm is `transmute::<Repr, Buffer>` (identity on
    (ptr, len, capacity)), the inline arms allocate for 1 / 2 words and push -/
theorem intoBuffer_sat {r : Rep} (hc : r.Canon mx) (hL : r.Live L) :
    Sat L n (Rep.intoBuffer mx r) (fun b L' _ =>
      Moves L L' n r.own b.own ∧ b.Wf mx ∧ b.ws = r.words) := by
  unfold Rep.intoBuffer
  apply Sat.ite
  · intro _; exact Sat.assertFail
  · intro _
    cases r with
    | inline lo hi code neg =>
      simp only
      apply Sat.ite
      · intro hc1
        apply Sat.bind
        apply Sat.conseq allocate_sat
        intro b1 L1 n1 hn1 ⟨hm1, hw1, hws1, _, _⟩
        apply Sat.ite
        · intro hlo
          apply Sat.conseq (push_sat (hm1.new_live _ _ rfl) hw1)
          intro b2 L2 n2 hn2 ⟨hm2, hw2, _, _, hws2⟩
          refine ⟨hm1.trans hm2 hn1, hw2, ?_⟩
          rw [hws2, hws1]; simp [Rep.words, hc1, hlo]
        · intro hlo
          apply Sat.pure
          refine ⟨hm1, hw1, ?_⟩
          have : lo = 0 := Classical.not_not.mp hlo
          rw [hws1]; simp [Rep.words, hc1, this]
      · intro hc1
        apply Sat.ite
        · intro _; exact Sat.assertFail
        · intro _
          apply Sat.bind
          apply Sat.conseq allocate_sat
          intro b1 L1 n1 hn1 ⟨hm1, hw1, hws1, _, _⟩
          apply Sat.bind
          apply Sat.conseq (push_sat (hm1.new_live _ _ rfl) hw1)
          intro b2 L2 n2 hn2 ⟨hm2, hw2, _, _, hws2⟩
          apply Sat.conseq (push_sat (hm2.new_live _ _ rfl) hw2)
          intro b3 L3 n3 hn3 ⟨hm3, hw3, _, _, hws3⟩
          refine ⟨(hm1.trans hm2 hn1).trans hm3 (Nat.le_trans hn1 hn2), hw3, ?_⟩
          rw [hws3, hws2, hws1]; simp [Rep.words, hc1]
    | heap id cap ws neg =>
      simp only
      apply Sat.pure
      have hl := hL id cap rfl
      obtain ⟨h3, _, hlen, _, hmx⟩ := hc
      exact ⟨Moves.refl hl, ⟨hlen, Nat.lt_of_lt_of_le (Nat.lt_of_lt_of_le (by decide : 0 < 3) h3) hlen, hmx⟩, rfl⟩

/-- the storage a `TypedRepr` owns -/
def Rep.Typed.own : Rep.Typed → Option (Nat × Nat)
  | .small .. => none
  | .large b => b.own

/-- repr.rs:191 — `Repr::into_typed`; heap arm = `transmute::<Repr, Buffer>` -/
theorem intoTyped_sat {r : Rep} (hc : r.Canon mx) (hL : r.Live L) :
    Sat L n (Rep.intoTyped r) (fun t L' _ =>
      L' = L ∧ t.own = r.own ∧
      match t with
      | .small lo hi => r.words = (Rep.fromDword lo hi).words
      | .large b => b.Wf mx ∧ b.ws = r.words) := by
  unfold Rep.intoTyped
  apply Sat.ite
  · intro _; exact Sat.assertFail
  · intro _
    cases r with
    | inline lo hi code neg =>
      apply Sat.pure
      refine ⟨rfl, rfl, ?_⟩
      obtain ⟨h1, _⟩ := hc
      rcases h1 with ⟨hcd, hhi⟩ | ⟨hcd, hhi⟩
      · subst hcd hhi; simp [Rep.words, Rep.fromDword]
      · subst hcd; simp [Rep.words, Rep.fromDword, hhi]
    | heap id cap ws neg =>
      apply Sat.pure
      obtain ⟨h3, _, hlen, _, hmx⟩ := hc
      exact ⟨rfl, rfl, ⟨hlen, Nat.lt_of_lt_of_le (Nat.lt_of_lt_of_le (by decide : 0 < 3) h3) hlen, hmx⟩, rfl⟩

/-- repr.rs:164, 231 — `from_raw_parts(heap.0, heap.1)`: the slice `[0, len)` lies inside the allocation -/
theorem asSlice_sat {r : Rep} (hc : r.Canon mx) (hL : r.Live L) :
    Sat L n (Rep.asSlice r) (fun ws L' _ => L' = L ∧ ws = r.words) := by
  cases r with
  | inline lo hi code neg => exact Sat.pure ⟨rfl, rfl⟩
  | heap id cap ws neg =>
    unfold Rep.asSlice
    have hl := hL id cap rfl
    apply Sat.bind
    apply Sat.emits (L1 := L) (replay_rd hl _ _ (by have := hc.2.2.1; omega)) (isAlloc_rd _ _ _)
    exact Sat.pure ⟨rfl, rfl⟩

/-- repr.rs:547 — `Drop`: `deallocate_raw(heap.0, |capacity|)` names the live allocation with its capacity -/
theorem repDrop_sat {r : Rep} (hL : r.Live L) :
    Sat L n (Rep.drop r) (fun _ L' _ => Moves L L' n r.own none) := by
  cases r with
  | inline lo hi code neg => exact Sat.pure Moves.refl_none
  | heap id cap ws neg =>
    unfold Rep.drop deallocateRaw
    apply Sat.emit (L1 := L.set id none) (by simp [stepEv, hL id cap rfl]) rfl
    exact Moves.free

/-- repr.rs:468 — `Clone::clone`: the copy owns a fresh allocation, is canonical and equal -/
theorem repClone_sat {r : Rep} (hc : r.Canon mx) (hL : r.Live L) :
    Sat L n (Rep.clone mx r) (fun r' L' _ =>
      Moves L L' n none r'.own ∧ r'.Canon mx ∧ r'.words = r.words ∧ r'.isNeg = r.isNeg) := by
  apply Sat.of_below; intro hB
  cases r with
  | inline lo hi code neg =>
    unfold Rep.clone
    apply Sat.pure
    have hc' : (Rep.inline lo hi code false).Canon mx := ⟨hc.1, by intro h; cases h⟩
    refine ⟨?_, Rep.canon_withSign hc' neg, ?_, ?_⟩
    · rw [Rep.own_withSign]; exact Moves.refl_none
    · rw [Rep.words_withSign]; rfl
    · rw [Rep.isNeg_withSign]
      simp only [Rep.isZero, Rep.isNeg]
      by_cases hz : code = 1 ∧ lo = 0
      · cases neg with
        | false => simp
        | true => exact absurd hz (hc.2 rfl)
      · simp [hz]
  | heap id cap ws neg =>
    unfold Rep.clone
    have hl := hL id cap rfl
    obtain ⟨h3, hlast, hlen, _, hmx⟩ := hc
    apply Sat.bind
    apply Sat.conseq allocate_sat
    intro b1 L1 n1 hn1 ⟨hm1, hw1, hws1, hcap1, hk⟩
    have hl1 : L1 id = some cap := (hm1.mono (Nat.le_refl _)).other hB hl (by intro c hc; cases hc)
    have hs : SrcOk L1 (some id) ws.length := by
      intro s hs; cases hs; exact ⟨cap, hl1, hlen⟩
    apply Sat.bind
    apply Sat.conseq (pushSlice_sat (hm1.new_live _ _ rfl) hw1 hs)
    intro b2 L2 n2 hn2 ⟨hm2, hw2, _, hcap2, hws2⟩
    have hpol := policy_chain mx ws.length hk
    have hc3 : 3 ≤ b2.cap := by rw [hcap2, hcap1]; omega
    apply Sat.bind
    apply Sat.conseq (ofBuf_sat hc3)
    intro r' L3 n3 hn3 ⟨hL3, _, hr⟩
    subst hL3 hr
    apply Sat.pure
    have hws : b2.ws = ws := by rw [hws2, hws1]; rfl
    have hcn : (Rep.heap b2.id b2.cap b2.ws false).Canon mx := by
      show 3 ≤ b2.ws.length ∧ _
      rw [hws, hcap2, hcap1]
      exact ⟨h3, hlast, hpol.1, hpol.2.1, by omega⟩
    refine ⟨?_, Rep.canon_withSign hcn neg, ?_, ?_⟩
    · rw [Rep.own_withSign]; exact hm1.trans hm2 hn1
    · rw [Rep.words_withSign]; exact hws
    · rw [Rep.isNeg_withSign]; rfl

/-- repr.rs:504, 519 — the old buffer (if `|capacity| > 2`) is freed with its own capacity -/
theorem releaseOld_sat {self : Rep} (hLs : self.Live L) :
    Sat L n (Rep.releaseOld self) (fun _ L1 n1 => Moves L L1 n self.own none ∧ n1 = n) := by
  cases self with
  | inline lo' hi' code' neg' => exact Sat.pure ⟨Moves.refl_none, rfl⟩
  | heap id cap ws neg' =>
    unfold Rep.releaseOld deallocateRaw
    apply Sat.emit (L1 := L.set id none) (by simp [stepEv, hLs id cap rfl]) rfl
    exact ⟨Moves.free, rfl⟩

theorem Rep.capacity_le_two_of_inline {lo hi code : Nat} {neg : Bool}
    (h : (Rep.inline lo hi code neg).Canon mx) : code ≤ 2 := by
  rcases h.1 with ⟨h1, _⟩ | ⟨h1, _⟩ <;> omega

/-- repr.rs:498 — `Clone::clone_from` for every size relation: the result equals `src`, is canonical,
    owns an allocation different from `src`'s; an old heap buffer is either reused (when
    `src.len ≤ cap ≤ max_compact_capacity(src.len)`) or freed exactly once (repr.rs:504, 519) -/
theorem repCloneFrom_sat {self src : Rep} (hcs : self.Canon mx) (hcr : src.Canon mx)
    (hLs : self.Live L) (hLr : src.Live L)
    (hne : ∀ i c i' c', self.own = some (i, c) → src.own = some (i', c') → i ≠ i') :
    Sat L n (Rep.cloneFrom mx self src) (fun r' L' _ =>
      Moves L L' n self.own r'.own ∧ r'.Canon mx ∧ r'.words = src.words ∧ r'.isNeg = src.isNeg ∧
      ∀ i c, r'.own = some (i, c) → ∀ c', src.own ≠ some (i, c')) := by
  apply Sat.of_below; intro hB
  cases src with
  | inline lo hi code neg =>
    unfold Rep.cloneFrom
    apply Sat.bind
    apply Sat.conseq (releaseOld_sat hLs)
    intro _ L1 n1 _ ⟨hm1, _⟩
    apply Sat.pure
    exact ⟨hm1, hcr, rfl, rfl, by intro i c h; cases h⟩
  | heap sid scap sws sneg =>
    obtain ⟨h3, hlast, hlen, hcmp, hmx⟩ := hcr
    have hls : L sid = some scap := hLr sid scap rfl
    have hsid : sid < n := live_lt hB hls
    unfold Rep.cloneFrom
    simp only
    apply Sat.ite
    · intro hlt; exact absurd hlt (by omega)
    · intro _
      apply Sat.bind
      apply Sat.conseq (Q := fun r L' n' => L' = L ∧ n' = n ∧
          (r = false → sws.length ≤ self.capacity ∧ self.capacity ≤ maxCompactCapacity mx sws.length))
      · apply Sat.ite
        · intro _; exact Sat.pure ⟨rfl, rfl, by intro h; cases h⟩
        · intro hge
          apply Sat.bind
          apply Sat.conseq maxCompactCapacityChecked_sat
          intro m L' n' _ ⟨hL', hn', hm, _⟩
          subst L' n' m
          apply Sat.pure
          refine ⟨rfl, rfl, ?_⟩
          intro hd
          exact ⟨Nat.le_of_not_lt hge, Nat.le_of_not_lt (of_decide_eq_false hd)⟩
      intro re L' n' _ ⟨hL', hn', hr⟩
      subst L' n'
      apply Sat.ite
      · intro _
        -- reallocate: free the old buffer (if any), allocate `default_capacity(src_len)`, copy
        apply Sat.bind
        apply Sat.conseq (releaseOld_sat hLs)
        intro _ L1 n1 _ ⟨hm1, hn1⟩
        subst n1
        have hls1 : L1 sid = some scap := by
          apply hm1.other hB hls
          intro c hc
          cases self with
          | inline lo' hi' code' neg' => cases hc
          | heap id cap ws neg' =>
            simp only [Rep.own] at hc
            injection hc with hc; injection hc with h1 h2
            exact hne id cap sid scap rfl rfl h1
        apply Sat.bind
        apply Sat.conseq defaultCapacityChecked_sat
        intro nc L1' n1' _ ⟨hL1', hn1', hnc, hk⟩
        subst L1' n1' nc
        have hpol := policy_chain mx sws.length hk
        apply Sat.bind
        apply Sat.conseq allocateRaw_sat
        intro nid L2 n2 _ ⟨hnid, _, hL2, _, hncm⟩
        subst nid L2
        have hls2 : (L1.set n (some (defaultCapacity mx sws.length))) sid = some scap := by
          simp only [Ledger.set]
          have : sid ≠ n := Nat.ne_of_lt hsid
          simp only [this, ↓reduceIte]; exact hls1
        have hln2 : (L1.set n (some (defaultCapacity mx sws.length))) n = some (defaultCapacity mx sws.length) := by
          simp [Ledger.set]
        apply Sat.bind
        apply Sat.emits (L1 := L1.set n (some (defaultCapacity mx sws.length)))
        · exact replay_append_same (replay_rd hls2 _ _ (by omega)) (replay_wr hln2 _ _ (by omega))
        · intro e he
          rcases List.mem_append.mp he with h | h
          · exact isAlloc_rd _ _ _ e h
          · exact isAlloc_wr _ _ _ e h
        apply Sat.pure
        refine ⟨hm1.trans (Moves.alloc (Nat.le_refl _)) (Nat.le_refl _), ?_, rfl, rfl, ?_⟩
        · exact ⟨h3, hlast, hpol.1, hpol.2.1, hncm⟩
        · intro i c hi c' hc'
          simp only [Rep.own] at hi hc'
          injection hi with hi; injection hi with hi1 _
          injection hc' with hc'; injection hc' with hc1 _
          omega
      · intro hre
        have hre' : re = false := by cases re <;> simp_all
        obtain ⟨hge, hle⟩ := hr hre'
        cases self with
        | inline lo' hi' code' neg' =>
          have := Rep.capacity_le_two_of_inline hcs
          simp only [Rep.capacity] at hge
          omega
        | heap id cap ws neg' =>
          simp only [Rep.capacity] at hge hle
          have hl := hLs id cap rfl
          unfold Rep.copyInto
          apply Sat.bind
          apply Sat.emits (L1 := L)
          · exact replay_append_same (replay_rd hls _ _ (by omega)) (replay_wr hl _ _ (by omega))
          · intro e he
            rcases List.mem_append.mp he with h | h
            · exact isAlloc_rd _ _ _ e h
            · exact isAlloc_wr _ _ _ e h
          apply Sat.pure
          refine ⟨Moves.refl hl, ⟨h3, hlast, hge, hle, hcs.2.2.2.2⟩, rfl, rfl, ?_⟩
          intro i c hi c' hc'
          simp only [Rep.own] at hi hc'
          injection hi with hi; injection hi with hi1 _
          injection hc' with hc'; injection hc' with hc1 _
          exact hne id cap sid scap rfl rfl (by omega)

theorem onesWord_ne_zero {k : Nat} (hk : 0 < k) : Rep.onesWord k ≠ 0 := by
  unfold Rep.onesWord
  have : 1 < 2 ^ k := Nat.one_lt_two_pow (Nat.ne_of_gt hk)
  omega

/-- repr.rs:433 — `Repr::ones` (after fix 283f2ad): canonical for every `n`; the transmuted buffer has
    capacity ≥ 3, ≥ 3 words, non-zero top word, and is compact -/
theorem ones_sat {W k : Nat} (hW : 0 < W) :
    Sat L n (Rep.ones W mx k) (fun r L' _ => Moves L L' n none r.own ∧ r.Canon mx ∧ r.isNeg = false) := by
  unfold Rep.ones
  apply Sat.ite
  · intro _; exact Sat.pure ⟨Moves.refl_none, Rep.canon_fromWord _, rfl⟩
  · intro _
    apply Sat.ite
    · intro _
      apply Sat.pure
      refine ⟨?_, Rep.canon_fromDword _ _, ?_⟩
      · unfold Rep.fromDword; exact Moves.refl_none
      · unfold Rep.fromDword; rfl
    · intro hk
      have hk2 : 2 * W < k := Nat.lt_of_not_le hk
      have hq2 : 2 ≤ k / W := (Nat.le_div_iff_mul_le hW).mpr (Nat.le_of_lt hk2)
      unfold Rep.onesLarge
      apply Sat.bind
      apply Sat.conseq allocate_sat
      intro b1 L1 n1 hn1 ⟨hm1, hw1, hws1, hcap1, hkm⟩
      apply Sat.bind
      apply Sat.conseq (pushRepeat_sat (hm1.new_live _ _ rfl) hw1)
      intro b2 L2 n2 hn2 ⟨hm2, hw2, _, hcap2, hws2⟩
      have hm12 := hm1.trans hm2 hn1
      have hpol := policy_chain mx (k / W + 1) hkm
      apply Sat.bind
      apply Sat.conseq (Q := fun b3 L3 n3 => Moves L L3 n none b3.own ∧ b3.Wf mx ∧ b3.cap = b1.cap ∧
          ((0 < k % W ∧ b3.ws = List.replicate (k / W) (Rep.onesWord W) ++ [Rep.onesWord (k % W)]) ∨
           (k % W = 0 ∧ b3.ws = List.replicate (k / W) (Rep.onesWord W))))
      · apply Sat.ite
        · intro hhi
          apply Sat.conseq (push_sat (hm2.new_live _ _ rfl) hw2)
          intro b3 L3 n3 hn3 ⟨hm3, hw3, _, hcap3, hws3⟩
          refine ⟨hm12.trans hm3 (Nat.le_trans hn1 hn2), hw3, by rw [hcap3, hcap2], Or.inl ⟨hhi, ?_⟩⟩
          rw [hws3, hws2, hws1]; rfl
        · intro hhi
          apply Sat.pure
          refine ⟨hm12, hw2, hcap2, Or.inr ⟨by omega, ?_⟩⟩
          rw [hws2, hws1]; rfl
      intro b3 L3 n3 hn3 ⟨hm3, hw3, hcap3, hws3⟩
      have hc3 : 3 ≤ b3.cap := by rw [hcap3, hcap1]; omega
      apply Sat.conseq (ofBuf_sat hc3)
      intro r L4 n4 _ ⟨hL4, _, hr⟩
      subst hL4 hr
      refine ⟨hm3, ?_, rfl⟩
      have hlen3 : b3.ws.length ≤ b3.cap := hw3.1
      rcases hws3 with ⟨hhi, hws⟩ | ⟨hhi, hws⟩
      · show 3 ≤ b3.ws.length ∧ _
        rw [hws]
        have hl : (List.replicate (k / W) (Rep.onesWord W) ++ [Rep.onesWord (k % W)]).length = k / W + 1 := by
          simp
        rw [hws, hl] at hlen3
        refine ⟨by rw [hl]; omega, ?_, by rw [hl]; exact hlen3, ?_, hw3.2.2⟩
        · rw [List.getLast?_append]; simp
          exact onesWord_ne_zero hhi
        · rw [hl, hcap3, hcap1]; exact hpol.2.1
      · have hq3 : 3 ≤ k / W := by
          have hdm := Nat.div_add_mod k W
          rw [hhi, Nat.add_zero] at hdm
          have : W * 2 < W * (k / W) := by rw [hdm]; omega
          have := Nat.lt_of_mul_lt_mul_left this
          omega
        show 3 ≤ b3.ws.length ∧ _
        rw [hws]
        have hl : (List.replicate (k / W) (Rep.onesWord W)).length = k / W := by simp
        rw [hws, hl] at hlen3
        refine ⟨by rw [hl]; exact hq3, ?_, by rw [hl]; exact hlen3, ?_, hw3.2.2⟩
        · rw [List.getLast?_replicate]
          have : ¬ (k / W = 0) := by omega
          simp only [this, ↓reduceIte]
          intro h; injection h with h; exact onesWord_ne_zero hW h
        · rw [hl, hcap3, hcap1]; exact default_succ_le_maxCompact mx (k / W)

end Dashu.Model.Mem
