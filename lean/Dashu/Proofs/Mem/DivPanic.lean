import Dashu.Proofs.Mem.Arith5
/-
  C17 (round 7) — the division storage skeletons (`UBig / % div_rem`, div_ops.rs; `IBig`'s Euclidean family, round 6) have one
  panic only, `divideByZero`: never for a non-zero divisor value, always for an inline (≤ 2 words) zero divisor — whatever the
  ownership form, signs and operand words.  The Euclidean fix-up's subtraction contributes none (`euclid_fix_sub_no_panic`).
-/
namespace Dashu.Proofs.Mem
open Dashu.Model Dashu.Model.Mem

/-- "panics only with `divideByZero`, never for a non-zero divisor, always for an inline zero divisor" -/
def DivPanicSpec (W : Nat) (b : List Nat) (fr : Frag) : Prop :=
  (fr.panic = none ∨ fr.panic = some .divideByZero) ∧ (wval W b ≠ 0 → fr.panic = none) ∧
  (isSmall b = true → wval W b = 0 → fr.panic = some .divideByZero)

theorem fragDivRem_panic (W : Nat) (wantRem : Bool) (f : Form) (a b : List Nat) :
    DivPanicSpec W b (fragDivRem W wantRem f a b) := by
  unfold DivPanicSpec fragDivRem fDivRemLarge
  simp only []
  refine ⟨?_, ?_, ?_⟩
  · split_ifs <;> first | (simp_all; done) | (cases f <;> simp_all)
  · intro hz; split_ifs <;> first | (simp_all; done) | (cases f <;> simp_all)
  · intro hs hz; split_ifs <;> simp_all

theorem fragDivRemBoth_panic (W : Nat) (f : Form) (a b : List Nat) :
    DivPanicSpec W b (fragDivRemBoth W f a b) := by
  unfold DivPanicSpec fragDivRemBoth
  simp only []
  refine ⟨?_, ?_, ?_⟩
  · split_ifs <;> first | (simp_all; done) | (cases f <;> simp_all)
  · intro hz; split_ifs <;> first | (simp_all; done) | (cases f <;> simp_all)
  · intro hs hz; split_ifs <;> simp_all

theorem noIntoTyped_panic (fr : Frag) : fr.noIntoTyped.panic = fr.panic := rfl

theorem fragSignedRemEuclid_panic (W : Nat) (f : Form) (na : Bool) (a b : List Nat) :
    DivPanicSpec W b (fragSignedRemEuclid W f na a b) := by
  have h1 := fragDivRem_panic W true f a b
  have h2 := fragDivRem_panic W true (if (f == .vr || f == .vv) = true then .vr else .rr) a b
  have hp : (fragSignedRemEuclid W f na a b).panic =
      if na then (fragDivRem W true (if (f == .vr || f == .vv) = true then .vr else .rr) a b).panic
      else (fragDivRem W true f a b).panic := by
    unfold fragSignedRemEuclid
    simp only [noIntoTyped_panic]
    cases na
    · simp
    · simp only [Bool.not_true, Bool.false_eq_true, if_false, if_true]
      split
      · next k hk => simp
      · next hk => rw [hk]; split_ifs <;> rfl
  unfold DivPanicSpec at *
  rw [hp]
  cases na <;> simp only [Bool.false_eq_true, if_false, if_true] <;> assumption

theorem fragSignedDivEuclid_panic (W : Nat) (f : Form) (na : Bool) (a : List Nat) (nb : Bool) (b : List Nat) :
    DivPanicSpec W b (fragSignedDivEuclid W f na a nb b) := by
  have h1 := fragDivRemBoth_panic W f a b
  have hp : (fragSignedDivEuclid W f na a nb b).panic = (fragDivRemBoth W f a b).panic := by
    unfold fragSignedDivEuclid
    simp only [noIntoTyped_panic]
    split
    · next k hk => simp [hk]
    · next hk => rw [hk]
  unfold DivPanicSpec at *
  rw [hp]; exact h1

theorem fragSignedDivRemEuclid_panic (W : Nat) (f : Form) (na : Bool) (a : List Nat) (nb : Bool) (b : List Nat) :
    DivPanicSpec W b (fragSignedDivRemEuclid W f na a nb b) := by
  have h1 := fragDivRemBoth_panic W f a b
  have h2 := fragDivRemBoth_panic W (if (f == .vr || f == .vv) = true then .vr else .rr) a b
  have hp : (fragSignedDivRemEuclid W f na a nb b).panic =
      if na then (fragDivRemBoth W (if (f == .vr || f == .vv) = true then .vr else .rr) a b).panic
      else (fragDivRemBoth W f a b).panic := by
    unfold fragSignedDivRemEuclid
    simp only [noIntoTyped_panic]
    cases na
    · simp only [Bool.not_false, if_true, Bool.false_eq_true, if_false]
      split
      · next k hk => simp [hk]
      · next hk => rw [hk]
    · simp only [Bool.not_true, Bool.false_eq_true, if_false, if_true]
      split
      · next k hk => simp
      · next hk => rw [hk]; split_ifs <;> rfl
  unfold DivPanicSpec at *
  rw [hp]
  cases na <;> simp only [Bool.false_eq_true, if_false, if_true] <;> assumption

end Dashu.Proofs.Mem
