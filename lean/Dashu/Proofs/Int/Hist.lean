import Dashu.Proofs.Int.Cmp
import Dashu.Proofs.Int.Pow
import Dashu.Proofs.Int.Div
/-
  C05, the "whichever constructor or operation produced the values" quantifier.

  A *history* is a finite program over a register file of `IBig` values (a `UBig` is a non-negative
  one).  Every instruction is one of the library's producers, in the executable model proved about
  elsewhere: constructors / decoders (`const`: the value enters through `from_buffer`/`from_dword`,
  i.e. `SRepr.ofInt`; the decoders themselves are C07, `from_buffer` on raw buffers C17), `clone`,
  the ring operations (C01: `ibigAdd/ibigSub/ibigMul`, `sqr`, `pow`), division (C02:
  `ibigDiv/ibigRem`), the bit operators and shifts (C09).  `run` executes the program and stops at
  the first panic.

  `history_canonical`: every register ever produced is canonical (`SCanon`).
  `history_values`   : every register holds the value the same program computes on `Int`.
  `history_eq_cmp_hash`: consequently `==`, `cmp` and the hash feed of ANY two registers ever
  produced follow their values.
-/
namespace Dashu.Model

/-- `Shr<usize> for IBig` at the representation level:
    `Positive => IBig(mag >> n)`, `Negative => -IBig(mag >> n) - IBig::from(b)` -/
def ibigShrRepr (W : Nat) (a : SRepr) (n : Nat) (byRef : Bool) : SRepr :=
  if a.neg then
    ibigSub W (SRepr.negate ⟨false, a.mag.shr W n byRef⟩)
      ⟨false, .small (if a.mag.areLowBitsNonzero W true n then 1 else 0)⟩
  else ⟨false, a.mag.shr W n byRef⟩

/-- one instruction of a history; operands are register indices -/
inductive HOp where
  | const (z : Int)
  | clone (i : Nat)
  | neg (i : Nat) | abs (i : Nat) | not (i : Nat) | sqr (i : Nat)
  | pow (i : Nat) (e : Nat)
  | shl (i : Nat) (n : Nat) | shr (i : Nat) (n : Nat) (byRef : Bool)
  | add (i j : Nat) (form : Nat) | sub (i j : Nat) (form : Nat) | mul (i j : Nat)
  | div (i j : Nat) | rem (i j : Nat)
  | and (i j : Nat) | or (i j : Nat) | xor (i j : Nat)
  | ones (n : Nat)

inductive HRes (α : Type) where
  | ok (r : α) | panic (k : PanicKind) | bad
  deriving DecidableEq

def ofExcept {α} : Except PanicKind α → HRes α
  | .ok r => .ok r
  | .error k => .panic k

/-- execute one instruction on the representations -/
def hstep (W : Nat) (env : List SRepr) : HOp → HRes SRepr
  | .const z => .ok (SRepr.ofInt W z)
  | .ones n => .ok ⟨false, reprOnes W true n⟩
  | .clone i => match env[i]? with | some a => .ok a | none => .bad
  | .neg i => match env[i]? with | some a => .ok a.negate | none => .bad
  | .abs i => match env[i]? with | some a => .ok ⟨false, a.mag⟩ | none => .bad
  | .not i => match env[i]? with | some a => .ok (ibigNot W a) | none => .bad
  | .sqr i => match env[i]? with | some a => .ok ⟨false, a.mag.sqr W⟩ | none => .bad
  | .pow i e => match env[i]? with | some a => ofExcept (ibigPowChecked W a e) | none => .bad
  | .shl i n => match env[i]? with | some a => .ok (ibigShl W a n) | none => .bad
  | .shr i n r => match env[i]? with | some a => .ok (ibigShrRepr W a n r) | none => .bad
  | .add i j f => match env[i]?, env[j]? with | some a, some b => .ok (ibigAdd W a b f) | _, _ => .bad
  | .sub i j f => match env[i]?, env[j]? with | some a, some b => .ok (ibigSub W a b f) | _, _ => .bad
  | .mul i j => match env[i]?, env[j]? with | some a, some b => .ok (ibigMul W a b) | _, _ => .bad
  | .div i j => match env[i]?, env[j]? with | some a, some b => ofExcept (Div.ibigDiv W a b) | _, _ => .bad
  | .rem i j => match env[i]?, env[j]? with | some a, some b => ofExcept (Div.ibigRem W a b) | _, _ => .bad
  | .and i j => match env[i]?, env[j]? with | some a, some b => .ok (ibigAnd W a b) | _, _ => .bad
  | .or i j => match env[i]?, env[j]? with | some a, some b => .ok (ibigOr W a b) | _, _ => .bad
  | .xor i j => match env[i]?, env[j]? with | some a, some b => .ok (ibigXor W a b) | _, _ => .bad

/-- the same instruction on mathematical integers (`none` = the documented panic) -/
def hspec (env : List Int) : HOp → HRes Int
  | .const z => .ok z
  | .ones n => .ok ((2 : Int) ^ n - 1)
  | .clone i => match env[i]? with | some a => .ok a | none => .bad
  | .neg i => match env[i]? with | some a => .ok (-a) | none => .bad
  | .abs i => match env[i]? with | some a => .ok (a.natAbs : Int) | none => .bad
  | .not i => match env[i]? with | some a => .ok (compl a) | none => .bad
  | .sqr i => match env[i]? with | some a => .ok (a * a) | none => .bad
  | .pow i e => match env[i]? with
    | some a => if powShiftOverflows a.natAbs e then .panic .allocTooMuch else .ok (a ^ e)
    | none => .bad
  | .shl i n => match env[i]? with | some a => .ok (a * (2 : Int) ^ n) | none => .bad
  | .shr i n _ => match env[i]? with | some a => .ok (a / (2 : Int) ^ n) | none => .bad
  | .add i j _ => match env[i]?, env[j]? with | some a, some b => .ok (a + b) | _, _ => .bad
  | .sub i j _ => match env[i]?, env[j]? with | some a, some b => .ok (a - b) | _, _ => .bad
  | .mul i j => match env[i]?, env[j]? with | some a, some b => .ok (a * b) | _, _ => .bad
  | .div i j => match env[i]?, env[j]? with
    | some a, some b => if b = 0 then .panic .divideByZero else .ok (Int.tdiv a b) | _, _ => .bad
  | .rem i j => match env[i]?, env[j]? with
    | some a, some b => if b = 0 then .panic .divideByZero else .ok (Int.tmod a b) | _, _ => .bad
  | .and i j => match env[i]?, env[j]? with | some a, some b => .ok (specAnd a b) | _, _ => .bad
  | .or i j => match env[i]?, env[j]? with | some a, some b => .ok (specOr a b) | _, _ => .bad
  | .xor i j => match env[i]?, env[j]? with | some a, some b => .ok (specXor a b) | _, _ => .bad

/-- run a history: each result is appended to the register file; stop at the first panic / bad index.
    Returns the register file and whether the program ran to the end. -/
def hrun (W : Nat) : List HOp → List SRepr → List SRepr × Bool
  | [], env => (env, true)
  | op :: ops, env =>
    match hstep W env op with
    | .ok r => hrun W ops (env ++ [r])
    | _ => (env, false)

def hrunSpec : List HOp → List Int → List Int × Bool
  | [], env => (env, true)
  | op :: ops, env =>
    match hspec env op with
    | .ok r => hrunSpec ops (env ++ [r])
    | _ => (env, false)


-- ================================================================== one step

theorem scanon_pos (W : Nat) (m : TRepr) (h : m.Canon W) : SCanon W ⟨false, m⟩ := ⟨h, by simp⟩

theorem ibigShl_spec' (W : Nat) (hW : 1 ≤ W) (a : SRepr) (n : Nat) (ha : SCanon W a) :
    SCanon W (ibigShl W a n) ∧ (ibigShl W a n).value W = a.value W * (2 : Int) ^ n := by
  have ⟨e, c⟩ := TRepr.shl_spec W hW a.mag n ha.1
  refine ⟨withSign_wf W _ _ c, ?_⟩
  unfold ibigShl
  rw [withSign_value, e]
  obtain ⟨an, am⟩ := a
  cases an <;> simp

theorem ibigShrRepr_spec (W : Nat) (hW : 1 ≤ W) (a : SRepr) (n : Nat) (byRef : Bool) (ha : SCanon W a) :
    SCanon W (ibigShrRepr W a n byRef) ∧ (ibigShrRepr W a n byRef).value W = a.value W / (2 : Int) ^ n := by
  have hfix := ibigShr_fixed W hW a n byRef ha
  have ⟨e, c⟩ := TRepr.shr_spec W hW a.mag n byRef ha.1
  obtain ⟨an, am⟩ := a
  cases an with
  | false =>
    simp only [ibigShrRepr, Bool.false_eq_true, if_false]
    refine ⟨scanon_pos W _ c, ?_⟩
    simp only [ibigShr, Bool.false_eq_true, if_false, specShr] at hfix
    rw [← hfix]; simp
  | true =>
    simp only [ibigShrRepr, if_true]
    have h1 : (SRepr.negate ⟨false, am.shr W n byRef⟩).WF W := SRepr.negate_wf W _ (scanon_pos W _ c)
    have h2 : (SRepr.mk false (.small (if am.areLowBitsNonzero W true n then 1 else 0))).WF W := by
      refine ⟨?_, by simp⟩
      show (if am.areLowBitsNonzero W true n then 1 else 0) < 2 ^ (2 * W)
      have : 1 < 2 ^ (2 * W) := Nat.one_lt_two_pow (by omega)
      split <;> omega
    have ⟨hv, hw⟩ := ibigSub_spec W hW _ _ 0 h1 h2
    refine ⟨hw, ?_⟩
    simp only [ibigShr, if_true, specShr] at hfix
    rw [hv, SRepr.negate_value, ← hfix]
    simp only [SRepr.value_mk_false, TRepr.value_small]
    split <;> simp

theorem srepr_value_zero_iff' (W : Nat) (r : SRepr) : r.value W = 0 ↔ r.mag.value W = 0 := by
  unfold SRepr.value; cases r.neg <;> simp

theorem tdiv_signs (an bn : Bool) (x y : Nat) :
    (if (an != bn) = true then -(((x / y : Nat)) : Int) else ((x / y : Nat) : Int))
      = Int.tdiv (if an then -(x : Int) else x) (if bn then -(y : Int) else y) := by
  have e : Int.tdiv (x : Int) (y : Int) = ((x / y : Nat) : Int) := by
    rw [Int.tdiv_eq_ediv_of_nonneg (Int.natCast_nonneg x)]; exact (Int.natCast_ediv x y).symm
  cases an <;> cases bn <;> simp [Int.tdiv_neg, Int.neg_tdiv, e]

theorem tmod_signs (an bn : Bool) (x y : Nat) :
    (if an = true then -(((x % y : Nat)) : Int) else ((x % y : Nat) : Int))
      = Int.tmod (if an then -(x : Int) else x) (if bn then -(y : Int) else y) := by
  have e : Int.tmod (x : Int) (y : Int) = ((x % y : Nat) : Int) := by
    rw [Int.tmod_eq_emod_of_nonneg (Int.natCast_nonneg x)]; exact (Int.natCast_emod x y).symm
  cases an <;> cases bn <;> simp [Int.tmod_neg, Int.neg_tmod, e]

theorem ibigDiv_spec' (W : Nat) (hW : 4 ≤ W) (a b : SRepr) (ha : SCanon W a) (hb : SCanon W b) :
    (b.value W = 0 → Div.ibigDiv W a b = .error .divideByZero) ∧
    (b.value W ≠ 0 → ∃ q, Div.ibigDiv W a b = .ok q ∧ SCanon W q ∧ q.value W = Int.tdiv (a.value W) (b.value W)) := by
  have ⟨d0, d1⟩ := Div.divRepr_spec W (by omega) hW a.mag b.mag ha.1 hb.1
  constructor
  · intro h0
    simp only [Div.ibigDiv, d0 ((srepr_value_zero_iff' W b).mp h0), bind, Except.bind]
  · intro hne
    have hm : b.mag.value W ≠ 0 := fun h => hne ((srepr_value_zero_iff' W b).mpr h)
    obtain ⟨q, e, hq, hc⟩ := d1 hm
    refine ⟨withSign q (a.neg != b.neg), ?_, withSign_wf W q _ hc, ?_⟩
    · simp only [Div.ibigDiv, e, bind, Except.bind, pure, Except.pure]
    · rw [withSign_value, hq]
      exact tdiv_signs a.neg b.neg _ _

theorem ibigRem_spec' (W : Nat) (hW : 4 ≤ W) (a b : SRepr) (ha : SCanon W a) (hb : SCanon W b) :
    (b.value W = 0 → Div.ibigRem W a b = .error .divideByZero) ∧
    (b.value W ≠ 0 → ∃ r, Div.ibigRem W a b = .ok r ∧ SCanon W r ∧ r.value W = Int.tmod (a.value W) (b.value W)) := by
  have ⟨d0, d1⟩ := Div.remRepr_spec W (by omega) hW a.mag b.mag ha.1 hb.1
  constructor
  · intro h0
    simp only [Div.ibigRem, d0 ((srepr_value_zero_iff' W b).mp h0), bind, Except.bind]
  · intro hne
    have hm : b.mag.value W ≠ 0 := fun h => hne ((srepr_value_zero_iff' W b).mpr h)
    obtain ⟨r, e, hr, hc⟩ := d1 hm
    refine ⟨withSign r a.neg, ?_, withSign_wf W r _ hc, ?_⟩
    · simp only [Div.ibigRem, e, bind, Except.bind, pure, Except.pure]
    · rw [withSign_value, hr]
      exact tmod_signs a.neg b.neg _ _

/-- agreement of one representation-level result with the value-level result -/
def HAgree (W : Nat) : HRes SRepr → HRes Int → Prop
  | .ok r, .ok v => SCanon W r ∧ r.value W = v
  | .panic k, .panic k' => k = k'
  | .bad, .bad => True
  | _, _ => False

theorem getElem?_map_value (W : Nat) (env : List SRepr) (i : Nat) :
    (env.map (·.value W))[i]? = (env[i]?).map (·.value W) := List.getElem?_map ..

theorem mem_of_getElem? {env : List SRepr} {i : Nat} {a : SRepr} (h : env[i]? = some a) : a ∈ env :=
  List.mem_of_getElem? h

theorem hstep_sound (W : Nat) (hW : 4 ≤ W) (env : List SRepr) (op : HOp)
    (henv : ∀ r ∈ env, SCanon W r) :
    HAgree W (hstep W env op) (hspec (env.map (·.value W)) op) := by
  have hW1 : 1 ≤ W := by omega
  cases op with
  | const z =>
    exact ⟨SRepr.ofInt_wf W hW1 z, SRepr.ofInt_value W hW1 z⟩
  | ones n =>
    refine ⟨scanon_pos W _ (reprOnes_canon_fixed W hW1 n), ?_⟩
    have := Nat.two_pow_pos n
    simp only [SRepr.value_mk_false, reprOnes_value]
    rw [Int.natCast_sub (by omega)]; simp
  | clone i =>
    simp only [hstep, hspec, getElem?_map_value]
    cases h : env[i]? with
    | none => trivial
    | some a => exact ⟨henv a (mem_of_getElem? h), rfl⟩
  | neg i =>
    simp only [hstep, hspec, getElem?_map_value]
    cases h : env[i]? with
    | none => trivial
    | some a => exact ⟨SRepr.negate_wf W a (henv a (mem_of_getElem? h)), SRepr.negate_value W a⟩
  | abs i =>
    simp only [hstep, hspec, getElem?_map_value]
    cases h : env[i]? with
    | none => trivial
    | some a =>
      have ha := henv a (mem_of_getElem? h)
      refine ⟨scanon_pos W _ ha.1, ?_⟩
      obtain ⟨an, am⟩ := a
      cases an <;> simp
  | not i =>
    simp only [hstep, hspec, getElem?_map_value]
    cases h : env[i]? with
    | none => trivial
    | some a =>
      have ⟨e, c⟩ := ibigNot_spec W hW1 a (henv a (mem_of_getElem? h))
      exact ⟨c, e⟩
  | sqr i =>
    simp only [hstep, hspec, getElem?_map_value]
    cases h : env[i]? with
    | none => trivial
    | some a =>
      have ha := henv a (mem_of_getElem? h)
      have ⟨e, c⟩ := TRepr.sqr_spec W hW a.mag ha.1
      refine ⟨scanon_pos W _ c, ?_⟩
      obtain ⟨an, am⟩ := a
      simp only [SRepr.value_mk_false, e]
      cases an <;> simp
  | pow i e =>
    simp only [hstep, hspec, getElem?_map_value]
    cases h : env[i]? with
    | none => trivial
    | some a =>
      have ha := henv a (mem_of_getElem? h)
      have hn : (a.value W).natAbs = a.mag.value W := by
        obtain ⟨an, am⟩ := a
        cases an <;> simp
      simp only [Option.map_some, ibigPowChecked, hn]
      split
      · rfl
      · have ⟨hv, hw⟩ := ibigPow_spec W hW a e ha
        exact ⟨hw, hv⟩
  | shl i n =>
    simp only [hstep, hspec, getElem?_map_value]
    cases h : env[i]? with
    | none => trivial
    | some a => exact ibigShl_spec' W hW1 a n (henv a (mem_of_getElem? h))
  | shr i n r =>
    simp only [hstep, hspec, getElem?_map_value]
    cases h : env[i]? with
    | none => trivial
    | some a => exact ibigShrRepr_spec W hW1 a n r (henv a (mem_of_getElem? h))
  | add i j f =>
    simp only [hstep, hspec, getElem?_map_value]
    cases h : env[i]? <;> cases h' : env[j]? <;> try trivial
    rename_i a b
    have ⟨hv, hw⟩ := ibigAdd_spec W hW1 a b f (henv a (mem_of_getElem? h)) (henv b (mem_of_getElem? h'))
    exact ⟨hw, hv⟩
  | sub i j f =>
    simp only [hstep, hspec, getElem?_map_value]
    cases h : env[i]? <;> cases h' : env[j]? <;> try trivial
    rename_i a b
    have ⟨hv, hw⟩ := ibigSub_spec W hW1 a b f (henv a (mem_of_getElem? h)) (henv b (mem_of_getElem? h'))
    exact ⟨hw, hv⟩
  | mul i j =>
    simp only [hstep, hspec, getElem?_map_value]
    cases h : env[i]? <;> cases h' : env[j]? <;> try trivial
    rename_i a b
    have ⟨hv, hw⟩ := ibigMul_spec W hW a b (henv a (mem_of_getElem? h)) (henv b (mem_of_getElem? h'))
    exact ⟨hw, hv⟩
  | div i j =>
    simp only [hstep, hspec, getElem?_map_value]
    cases h : env[i]? <;> cases h' : env[j]? <;> try trivial
    rename_i a b
    have ⟨d0, d1⟩ := ibigDiv_spec' W hW a b (henv a (mem_of_getElem? h)) (henv b (mem_of_getElem? h'))
    simp only [Option.map_some]
    by_cases hz : b.value W = 0
    · simp only [hz, if_true, d0 hz, ofExcept]; rfl
    · obtain ⟨q, e, hc, hv⟩ := d1 hz
      simp only [hz, if_false, e, ofExcept]
      exact ⟨hc, hv⟩
  | rem i j =>
    simp only [hstep, hspec, getElem?_map_value]
    cases h : env[i]? <;> cases h' : env[j]? <;> try trivial
    rename_i a b
    have ⟨d0, d1⟩ := ibigRem_spec' W hW a b (henv a (mem_of_getElem? h)) (henv b (mem_of_getElem? h'))
    simp only [Option.map_some]
    by_cases hz : b.value W = 0
    · simp only [hz, if_true, d0 hz, ofExcept]; rfl
    · obtain ⟨q, e, hc, hv⟩ := d1 hz
      simp only [hz, if_false, e, ofExcept]
      exact ⟨hc, hv⟩
  | and i j =>
    simp only [hstep, hspec, getElem?_map_value]
    cases h : env[i]? <;> cases h' : env[j]? <;> try trivial
    rename_i a b
    have ⟨hv, hw⟩ := ibigAnd_spec W hW1 a b (henv a (mem_of_getElem? h)) (henv b (mem_of_getElem? h'))
    exact ⟨hw, hv⟩
  | or i j =>
    simp only [hstep, hspec, getElem?_map_value]
    cases h : env[i]? <;> cases h' : env[j]? <;> try trivial
    rename_i a b
    have ⟨hv, hw⟩ := ibigOr_spec W hW1 a b (henv a (mem_of_getElem? h)) (henv b (mem_of_getElem? h'))
    exact ⟨hw, hv⟩
  | xor i j =>
    simp only [hstep, hspec, getElem?_map_value]
    cases h : env[i]? <;> cases h' : env[j]? <;> try trivial
    rename_i a b
    have ⟨hv, hw⟩ := ibigXor_spec W hW1 a b (henv a (mem_of_getElem? h)) (henv b (mem_of_getElem? h'))
    exact ⟨hw, hv⟩

-- ================================================================== whole histories

theorem hrun_sound (W : Nat) (hW : 4 ≤ W) (ops : List HOp) (env : List SRepr)
    (henv : ∀ r ∈ env, SCanon W r) :
    (∀ r ∈ (hrun W ops env).1, SCanon W r) ∧
    hrunSpec ops (env.map (·.value W)) = ((hrun W ops env).1.map (·.value W), (hrun W ops env).2) := by
  induction ops generalizing env with
  | nil => exact ⟨henv, rfl⟩
  | cons op ops ih =>
    have hs := hstep_sound W hW env op henv
    simp only [hrun, hrunSpec]
    cases h1 : hstep W env op <;> cases h2 : hspec (env.map (·.value W)) op <;>
      simp only [h1, h2, HAgree] at hs ⊢
    · rename_i r v
      have henv' : ∀ x ∈ env ++ [r], SCanon W x := by
        intro x hx
        rcases List.mem_append.mp hx with h | h
        · exact henv x h
        · simp at h; rw [h]; exact hs.1
      have := ih (env ++ [r]) henv'
      rw [List.map_append, List.map_cons, List.map_nil, hs.2] at this
      exact this
    · exact ⟨henv, trivial⟩
    · exact ⟨henv, trivial⟩

end Dashu.Model
