import Dashu.Proofs.Int.Cmp
import Dashu.Proofs.Int.Pow
import Dashu.Proofs.Int.Div
import Dashu.Proofs.Int.BitsPrim
import Dashu.Model.Int.Hist
/-
  C05, the "whichever constructor or operation produced the values" quantifier.

  A *history* is a finite program over a register file of `IBig` values (a `UBig` is a non-negative
  one).  Every instruction is one of the library's producers, in the executable model proved about
  elsewhere: constructors / decoders (`const`: the value enters through `from_buffer`/`from_dword`,
  i.e. `SRepr.ofInt`; the decoders themselves are C07, `from_buffer` on raw buffers C17), `clone`,
  the ring operations (C01: `ibigAdd/ibigSub/ibigMul`, `sqr`, `pow`), division (C02:
  `ibigDiv/ibigRem`), the bit operators and shifts (C09).  `run` executes the program and stops at
  the first panic.

  `history_canonical`: every register ever produced is canonical (`SCanon`).
  `history_values`   : every register holds the value the same program computes on `Int`.
  `history_eq_cmp_hash`: consequently `==`, `cmp` and the hash feed of ANY two registers ever
  produced follow their values.
-/
namespace Dashu.Model

-- ================================================================== one step

theorem scanon_pos (W : Nat) (m : TRepr) (h : m.Canon W) : SCanon W ⟨false, m⟩ := ⟨h, by simp⟩

theorem ibigShl_spec' (W : Nat) (hW : 1 ≤ W) (a : SRepr) (n : Nat) (ha : SCanon W a) :
    SCanon W (ibigShl W a n) ∧ (ibigShl W a n).value W = a.value W * (2 : Int) ^ n := by
  have ⟨e, c⟩ := TRepr.shl_spec W hW a.mag n ha.1
  refine ⟨withSign_wf W _ _ c, ?_⟩
  unfold ibigShl
  rw [withSign_value, e]
  obtain ⟨an, am⟩ := a
  cases an <;> simp

theorem ibigShrRepr_spec (W : Nat) (hW : 1 ≤ W) (a : SRepr) (n : Nat) (byRef : Bool) (ha : SCanon W a) :
    SCanon W (ibigShrRepr W a n byRef) ∧ (ibigShrRepr W a n byRef).value W = a.value W / (2 : Int) ^ n := by
  have hfix := ibigShr_fixed W hW a n byRef ha
  have ⟨e, c⟩ := TRepr.shr_spec W hW a.mag n byRef ha.1
  obtain ⟨an, am⟩ := a
  cases an with
  | false =>
    simp only [ibigShrRepr, Bool.false_eq_true, if_false]
    refine ⟨scanon_pos W _ c, ?_⟩
    simp only [ibigShr, Bool.false_eq_true, if_false, specShr] at hfix
    rw [← hfix]; simp
  | true =>
    simp only [ibigShrRepr, if_true]
    have h1 : (SRepr.negate ⟨false, am.shr W n byRef⟩).WF W := SRepr.negate_wf W _ (scanon_pos W _ c)
    have h2 : (SRepr.mk false (.small (if am.areLowBitsNonzero W true n then 1 else 0))).WF W := by
      refine ⟨?_, by simp⟩
      show (if am.areLowBitsNonzero W true n then 1 else 0) < 2 ^ (2 * W)
      have : 1 < 2 ^ (2 * W) := Nat.one_lt_two_pow (by omega)
      split <;> omega
    have ⟨hv, hw⟩ := ibigSub_spec W hW _ _ 0 h1 h2
    refine ⟨hw, ?_⟩
    simp only [ibigShr, if_true, specShr] at hfix
    rw [hv, SRepr.negate_value, ← hfix]
    simp only [SRepr.value_mk_false, TRepr.value_small]
    split <;> simp

theorem srepr_value_zero_iff' (W : Nat) (r : SRepr) : r.value W = 0 ↔ r.mag.value W = 0 := by
  unfold SRepr.value; cases r.neg <;> simp

theorem tdiv_signs (an bn : Bool) (x y : Nat) :
    (if (an != bn) = true then -(((x / y : Nat)) : Int) else ((x / y : Nat) : Int))
      = Int.tdiv (if an then -(x : Int) else x) (if bn then -(y : Int) else y) := by
  have e : Int.tdiv (x : Int) (y : Int) = ((x / y : Nat) : Int) := by
    rw [Int.tdiv_eq_ediv_of_nonneg (Int.natCast_nonneg x)]; exact (Int.natCast_ediv x y).symm
  cases an <;> cases bn <;> simp [Int.tdiv_neg, Int.neg_tdiv, e]

theorem tmod_signs (an bn : Bool) (x y : Nat) :
    (if an = true then -(((x % y : Nat)) : Int) else ((x % y : Nat) : Int))
      = Int.tmod (if an then -(x : Int) else x) (if bn then -(y : Int) else y) := by
  have e : Int.tmod (x : Int) (y : Int) = ((x % y : Nat) : Int) := by
    rw [Int.tmod_eq_emod_of_nonneg (Int.natCast_nonneg x)]; exact (Int.natCast_emod x y).symm
  cases an <;> cases bn <;> simp [Int.tmod_neg, Int.neg_tmod, e]

theorem ibigDiv_spec' (W : Nat) (hW : 4 ≤ W) (a b : SRepr) (ha : SCanon W a) (hb : SCanon W b) :
    (b.value W = 0 → Div.ibigDiv W a b = .error .divideByZero) ∧
    (b.value W ≠ 0 → ∃ q, Div.ibigDiv W a b = .ok q ∧ SCanon W q ∧ q.value W = Int.tdiv (a.value W) (b.value W)) := by
  have ⟨d0, d1⟩ := Div.divRepr_spec W (by omega) hW a.mag b.mag ha.1 hb.1
  constructor
  · intro h0
    simp only [Div.ibigDiv, d0 ((srepr_value_zero_iff' W b).mp h0), bind, Except.bind]
  · intro hne
    have hm : b.mag.value W ≠ 0 := fun h => hne ((srepr_value_zero_iff' W b).mpr h)
    obtain ⟨q, e, hq, hc⟩ := d1 hm
    refine ⟨withSign q (a.neg != b.neg), ?_, withSign_wf W q _ hc, ?_⟩
    · simp only [Div.ibigDiv, e, bind, Except.bind, pure, Except.pure]
    · rw [withSign_value, hq]
      exact tdiv_signs a.neg b.neg _ _

theorem ibigRem_spec' (W : Nat) (hW : 4 ≤ W) (a b : SRepr) (ha : SCanon W a) (hb : SCanon W b) :
    (b.value W = 0 → Div.ibigRem W a b = .error .divideByZero) ∧
    (b.value W ≠ 0 → ∃ r, Div.ibigRem W a b = .ok r ∧ SCanon W r ∧ r.value W = Int.tmod (a.value W) (b.value W)) := by
  have ⟨d0, d1⟩ := Div.remRepr_spec W (by omega) hW a.mag b.mag ha.1 hb.1
  constructor
  · intro h0
    simp only [Div.ibigRem, d0 ((srepr_value_zero_iff' W b).mp h0), bind, Except.bind]
  · intro hne
    have hm : b.mag.value W ≠ 0 := fun h => hne ((srepr_value_zero_iff' W b).mpr h)
    obtain ⟨r, e, hr, hc⟩ := d1 hm
    refine ⟨withSign r a.neg, ?_, withSign_wf W r _ hc, ?_⟩
    · simp only [Div.ibigRem, e, bind, Except.bind, pure, Except.pure]
    · rw [withSign_value, hr]
      exact tmod_signs a.neg b.neg _ _

theorem isZero_iff_value {W : Nat} {r : TRepr} (hc : r.Canon W) : r.isZero = true ↔ r.value W = 0 := by
  constructor
  · intro h; rw [(TRepr.isZero_iff r).mp h]; rfl
  · intro h
    by_contra hz
    exact TRepr.value_ne_zero_of_not_isZero hc hz h

/-- Euclidean quotient from the truncated quotient/remainder of the magnitudes -/
theorem ediv_signs (an bn : Bool) (x y : Nat) (hy : y ≠ 0) :
    (if (an != bn) = true then -(((if !an || decide (x % y = 0) then x / y else x / y + 1 : Nat)) : Int)
      else ((if !an || decide (x % y = 0) then x / y else x / y + 1 : Nat) : Int))
      = (if an then -(x : Int) else x) / (if bn then -(y : Int) else y) := by
  have hdm := Nat.div_add_mod x y
  have hlt := Nat.mod_lt x (Nat.pos_of_ne_zero hy)
  generalize x / y = q at *
  generalize x % y = r at *
  have hyI : (0 : Int) < (y : Int) := by omega
  have hx : (x : Int) = (y : Int) * q + r := by exact_mod_cast hdm.symm
  symm
  cases an <;> cases bn <;> simp only [Bool.not_false, Bool.not_true, Bool.true_or, Bool.false_or, if_true,
    Bool.false_eq_true, if_false, bne_self_eq_false, Bool.bne_true, Bool.bne_false]
  · -- x / y
    exact ((Int.ediv_emod_unique (a := (x : Int)) (q := (q : Int)) (r := (r : Int)) hyI).mpr
      ⟨by rw [hx]; ring, by omega, by omega⟩).1
  · -- x / (-y) = -(x / y)
    rw [Int.ediv_neg]
    have := ((Int.ediv_emod_unique (a := (x : Int)) (q := (q : Int)) (r := (r : Int)) hyI).mpr
      ⟨by rw [hx]; ring, by omega, by omega⟩).1
    rw [this]
  · -- (-x) / y
    by_cases hr : r = 0
    · subst hr
      simp only [decide_true, if_true]
      have := ((Int.ediv_emod_unique (a := -(x : Int)) (q := -(q : Int)) (r := 0) hyI).mpr
        ⟨by rw [hx]; push_cast; ring, by omega, by omega⟩).1
      simp [this]
    · simp only [hr, decide_false, Bool.false_eq_true, if_false]
      have := ((Int.ediv_emod_unique (a := -(x : Int)) (q := -((q : Int) + 1)) (r := (y : Int) - r) hyI).mpr
        ⟨by rw [hx]; ring, by omega, by omega⟩).1
      rw [this]; push_cast; ring
  · -- (-x) / (-y)
    rw [Int.ediv_neg]
    by_cases hr : r = 0
    · subst hr
      simp only [decide_true, if_true]
      have := ((Int.ediv_emod_unique (a := -(x : Int)) (q := -(q : Int)) (r := 0) hyI).mpr
        ⟨by rw [hx]; push_cast; ring, by omega, by omega⟩).1
      simp [this]
    · simp only [hr, decide_false, Bool.false_eq_true, if_false]
      have := ((Int.ediv_emod_unique (a := -(x : Int)) (q := -((q : Int) + 1)) (r := (y : Int) - r) hyI).mpr
        ⟨by rw [hx]; ring, by omega, by omega⟩).1
      rw [this]; push_cast; ring

/-- `IBig::div_euclid`: canonical result, Euclidean quotient (`Int./`), `DivideByZero` for 0 -/
theorem ibigDivEuclid_spec' (W : Nat) (hW : 4 ≤ W) (a b : SRepr) (ha : SCanon W a) (hb : SCanon W b) :
    (b.value W = 0 → Div.ibigDivEuclid W a b = .error .divideByZero) ∧
    (b.value W ≠ 0 → ∃ q, Div.ibigDivEuclid W a b = .ok q ∧ SCanon W q ∧ q.value W = a.value W / b.value W) := by
  have hW1 : 1 ≤ W := by omega
  have ⟨d0, d1⟩ := Div.divRemRepr_spec W hW1 hW a.mag b.mag ha.1 hb.1
  constructor
  · intro h0
    simp only [Div.ibigDivEuclid, d0 ((srepr_value_zero_iff' W b).mp h0), bind, Except.bind]
  · intro hne
    have hm : b.mag.value W ≠ 0 := fun h => hne ((srepr_value_zero_iff' W b).mpr h)
    obtain ⟨q, r, e, hq, hr, hcq, hcr⟩ := d1 hm
    have ⟨ev, ec⟩ := Div.addOneRepr_spec W hW1 q hcq
    have hz : r.isZero = decide (a.mag.value W % b.mag.value W = 0) := by
      rw [← hr]
      by_cases h : r.value W = 0
      · simp [h, (isZero_iff_value hcr).mpr h]
      · have : ¬ r.isZero = true := fun h' => h ((isZero_iff_value hcr).mp h')
        simp [h, this]
    simp only [Div.ibigDivEuclid, e, bind, Except.bind, pure, Except.pure]
    refine ⟨_, rfl, ?_, ?_⟩
    · apply withSign_wf
      split
      · exact hcq
      · exact ec
    · rw [withSign_value]
      have key := ediv_signs a.neg b.neg (a.mag.value W) (b.mag.value W) hm
      have hval : (if (!a.neg || r.isZero) = true then q else Div.addOneRepr W q).value W
          = (if !a.neg || decide (a.mag.value W % b.mag.value W = 0) then a.mag.value W / b.mag.value W
              else a.mag.value W / b.mag.value W + 1) := by
        rw [hz]
        split <;> simp_all
      rw [hval]
      exact key


theorem emod_signs (an bn : Bool) (x y : Nat) (hy : y ≠ 0) :
    ((if !an || decide (x % y = 0) then x % y else y - x % y : Nat) : Int)
      = (if an then -(x : Int) else x) % (if bn then -(y : Int) else y) := by
  have hdm := Nat.div_add_mod x y
  have hlt := Nat.mod_lt x (Nat.pos_of_ne_zero hy)
  generalize x / y = q at *
  generalize x % y = r at *
  have hyI : (0 : Int) < (y : Int) := by omega
  have hx : (x : Int) = (y : Int) * q + r := by exact_mod_cast hdm.symm
  have hb : ∀ t : Int, t % (if bn then -(y : Int) else y) = t % (y : Int) := by
    intro t; cases bn <;> simp [Int.emod_neg]
  rw [hb]
  symm
  cases an <;> simp only [Bool.not_false, Bool.not_true, Bool.true_or, Bool.false_or, if_true,
    Bool.false_eq_true, if_false]
  · exact ((Int.ediv_emod_unique (a := (x : Int)) (q := (q : Int)) (r := (r : Int)) hyI).mpr
      ⟨by rw [hx]; ring, by omega, by omega⟩).2
  · by_cases hr : r = 0
    · subst hr
      simp only [decide_true, if_true]
      exact ((Int.ediv_emod_unique (a := -(x : Int)) (q := -(q : Int)) (r := 0) hyI).mpr
        ⟨by rw [hx]; push_cast; ring, by omega, by omega⟩).2
    · simp only [hr, decide_false, Bool.false_eq_true, if_false]
      have := ((Int.ediv_emod_unique (a := -(x : Int)) (q := -((q : Int) + 1)) (r := (y : Int) - r) hyI).mpr
        ⟨by rw [hx]; ring, by omega, by omega⟩).2
      rw [this]; omega

/-- `IBig::rem_euclid` (`-> UBig`): canonical, the non-negative remainder `Int.%` -/
theorem ibigRemEuclid_spec' (W : Nat) (hW : 4 ≤ W) (a b : SRepr) (refVal : Bool) (ha : SCanon W a) (hb : SCanon W b) :
    (b.value W = 0 → Div.ibigRemEuclid W a b refVal = .error .divideByZero) ∧
    (b.value W ≠ 0 → ∃ r, Div.ibigRemEuclid W a b refVal = .ok r ∧ r.Canon W ∧
      (r.value W : Int) = a.value W % b.value W) := by
  have hW1 : 1 ≤ W := by omega
  have ⟨d0, d1⟩ := Div.remRepr_spec W hW1 hW a.mag b.mag ha.1 hb.1
  obtain ⟨an, am⟩ := a
  obtain ⟨bn, bm⟩ := b
  constructor
  · intro h0
    have := d0 ((srepr_value_zero_iff' W _).mp h0)
    cases an <;> simp [Div.ibigRemEuclid, this, bind, Except.bind]
  · intro hne
    have hm : bm.value W ≠ 0 := fun h => hne ((srepr_value_zero_iff' W ⟨bn, bm⟩).mpr h)
    obtain ⟨r, e, hr, hc⟩ := d1 hm
    have key := emod_signs an bn (am.value W) (bm.value W) hm
    have hbv : SRepr.value W ⟨bn, bm⟩ = if bn = true then -(bm.value W : Int) else (bm.value W : Int) := rfl
    simp only at e hr
    cases an with
    | false =>
      refine ⟨r, by simp [Div.ibigRemEuclid, e], hc, ?_⟩
      simp only [SRepr.value_mk_false, Bool.false_eq_true, if_false] at key ⊢
      rw [hr, hbv]; simpa using key
    | true =>
      by_cases hz : r.value W = 0
      · have hiz : r.isZero = true := (isZero_iff_value hc).mpr hz
        refine ⟨r, by simp [Div.ibigRemEuclid, e, bind, Except.bind, hiz, pure, Except.pure], hc, ?_⟩
        rw [hr] at hz
        simp only [SRepr.value_mk_true, hz, decide_true, Bool.or_true, if_true] at key ⊢
        rw [hr, hz, hbv]; simpa using key
      · have hiz : ¬ r.isZero = true := fun h => hz ((isZero_iff_value hc).mp h)
        have hlt : r.value W ≤ bm.value W := by
          rw [hr]; exact Nat.le_of_lt (Nat.mod_lt _ (Nat.pos_of_ne_zero hm))
        obtain ⟨r', e', hv', hc'⟩ := TRepr.sub_ok W bm r refVal hb.1 hc hlt
        refine ⟨r', by simp [Div.ibigRemEuclid, e, bind, Except.bind, hiz, e'], hc', ?_⟩
        rw [hr] at hz hv'
        simp only [SRepr.value_mk_true, hz, decide_false, Bool.not_true, Bool.or_false, Bool.false_eq_true,
          if_false] at key ⊢
        rw [hbv]
        have hk : ((bm.value W - am.value W % bm.value W : Nat) : Int)
            = -(am.value W : Int) % (if bn = true then -(bm.value W : Int) else (bm.value W : Int)) := by
          simpa using key
        rw [← hk]
        have : r'.value W = bm.value W - am.value W % bm.value W := by omega
        rw [this]


/-- agreement of one representation-level result with the value-level result -/
def HAgree (W : Nat) : HRes SRepr → HRes Int → Prop
  | .ok r, .ok v => SCanon W r ∧ r.value W = v
  | .panic k, .panic k' => k = k'
  | .bad, .bad => True
  | _, _ => False

theorem getElem?_map_value (W : Nat) (env : List SRepr) (i : Nat) :
    (env.map (·.value W))[i]? = (env[i]?).map (·.value W) := List.getElem?_map ..

theorem mem_of_getElem? {env : List SRepr} {i : Nat} {a : SRepr} (h : env[i]? = some a) : a ∈ env :=
  List.mem_of_getElem? h

theorem nonneg_value {W : Nat} {a : SRepr} (ha : SCanon W a) (hn : a.neg = false) :
    ¬ a.value W < 0 ∧ (a.value W).toNat = a.mag.value W := by
  obtain ⟨an, am⟩ := a
  simp only at hn; subst hn
  simp

theorem neg_value_lt {W : Nat} {a : SRepr} (ha : SCanon W a) (hn : a.neg = true) : a.value W < 0 := by
  obtain ⟨an, am⟩ := a
  simp only at hn; subst hn
  have h : am.value W ≠ 0 := ha.2 rfl
  simp only [SRepr.value_mk_true]; omega

theorem hstep_sound (W : Nat) (hW : 4 ≤ W) (env : List SRepr) (op : HOp) (hok : op.Ok W)
    (henv : ∀ r ∈ env, SCanon W r) :
    HAgree W (hstep W env op) (hspec W (env.map (·.value W)) op) := by
  have hW1 : 1 ≤ W := by omega
  cases op with
  | const z =>
    exact ⟨SRepr.ofInt_wf W hW1 z, SRepr.ofInt_value W hW1 z⟩
  | ones n =>
    refine ⟨scanon_pos W _ (reprOnes_canon_fixed W hW1 n), ?_⟩
    have := Nat.two_pow_pos n
    simp only [SRepr.value_mk_false, reprOnes_value]
    rw [Int.natCast_sub (by omega)]; simp
  | fromWords neg ws =>
    refine ⟨withSign_wf W _ _ (fromBuffer_canon W ws hok), ?_⟩
    rw [withSign_value, fromBuffer_value]
  | fromUnsigned v =>
    exact ⟨⟨fromUnsigned_canon W v hW1, by simp⟩, by simp [fromUnsigned_value W v hW1]⟩
  | fromSigned bits v =>
    exact fromSigned_spec W bits hW1 hok.1 v hok.2
  | setBit i n =>
    simp only [hstep, hspec, getElem?_map_value]
    cases h : env[i]? with
    | none => trivial
    | some a =>
      have ha := henv a (mem_of_getElem? h)
      simp only [Option.map_some]
      cases hn : a.neg with
      | true => simp [neg_value_lt ha hn, HAgree]
      | false =>
        have ⟨h1, h2⟩ := nonneg_value ha hn
        have ⟨e, c⟩ := TRepr.setBit_spec W hW1 a.mag n ha.1
        simp only [Bool.false_eq_true, if_false, h1, HAgree]
        exact ⟨scanon_pos W _ c, by simp [e, h2]⟩
  | clearBit i n =>
    simp only [hstep, hspec, getElem?_map_value]
    cases h : env[i]? with
    | none => trivial
    | some a =>
      have ha := henv a (mem_of_getElem? h)
      simp only [Option.map_some]
      cases hn : a.neg with
      | true => simp [neg_value_lt ha hn, HAgree]
      | false =>
        have ⟨h1, h2⟩ := nonneg_value ha hn
        have ⟨e, c⟩ := TRepr.clearBit_spec W hW1 a.mag n ha.1
        simp only [Bool.false_eq_true, if_false, h1, HAgree]
        exact ⟨scanon_pos W _ c, by simp [e, h2]⟩
  | clearHigh i n =>
    simp only [hstep, hspec, getElem?_map_value]
    cases h : env[i]? with
    | none => trivial
    | some a =>
      have ha := henv a (mem_of_getElem? h)
      simp only [Option.map_some]
      cases hn : a.neg with
      | true => simp [neg_value_lt ha hn, HAgree]
      | false =>
        have ⟨h1, h2⟩ := nonneg_value ha hn
        have ⟨e, c⟩ := TRepr.clearHighBits_spec W hW1 a.mag n ha.1
        simp only [Bool.false_eq_true, if_false, h1, HAgree]
        exact ⟨scanon_pos W _ c, by simp [e, h2]⟩
  | splitLo i n =>
    simp only [hstep, hspec, getElem?_map_value]
    cases h : env[i]? with
    | none => trivial
    | some a =>
      have ha := henv a (mem_of_getElem? h)
      simp only [Option.map_some]
      cases hn : a.neg with
      | true => simp [neg_value_lt ha hn, HAgree]
      | false =>
        have ⟨h1, h2⟩ := nonneg_value ha hn
        have ⟨⟨e, c⟩, _⟩ := TRepr.splitBits_spec W hW1 a.mag n ha.1
        simp only [Bool.false_eq_true, if_false, h1, HAgree]
        exact ⟨scanon_pos W _ c, by simp [e, h2]⟩
  | splitHi i n =>
    simp only [hstep, hspec, getElem?_map_value]
    cases h : env[i]? with
    | none => trivial
    | some a =>
      have ha := henv a (mem_of_getElem? h)
      simp only [Option.map_some]
      cases hn : a.neg with
      | true => simp [neg_value_lt ha hn, HAgree]
      | false =>
        have ⟨h1, h2⟩ := nonneg_value ha hn
        have ⟨_, ⟨e, c⟩⟩ := TRepr.splitBits_spec W hW1 a.mag n ha.1
        simp only [Bool.false_eq_true, if_false, h1, HAgree]
        exact ⟨scanon_pos W _ c, by simp [e, h2]⟩
  | nextPow2 i =>
    simp only [hstep, hspec, getElem?_map_value]
    cases h : env[i]? with
    | none => trivial
    | some a =>
      have ha := henv a (mem_of_getElem? h)
      simp only [Option.map_some]
      cases hn : a.neg with
      | true => simp [neg_value_lt ha hn, HAgree]
      | false =>
        have ⟨h1, h2⟩ := nonneg_value ha hn
        have ⟨e, c⟩ := TRepr.nextPow2_spec W hW1 a.mag ha.1
        simp only [Bool.false_eq_true, if_false, h1, HAgree]
        exact ⟨scanon_pos W _ c, by simp [e, h2, specNextPow2_eq]⟩
  | clone i =>
    simp only [hstep, hspec, getElem?_map_value]
    cases h : env[i]? with
    | none => trivial
    | some a => exact ⟨henv a (mem_of_getElem? h), rfl⟩
  | neg i =>
    simp only [hstep, hspec, getElem?_map_value]
    cases h : env[i]? with
    | none => trivial
    | some a => exact ⟨SRepr.negate_wf W a (henv a (mem_of_getElem? h)), SRepr.negate_value W a⟩
  | abs i =>
    simp only [hstep, hspec, getElem?_map_value]
    cases h : env[i]? with
    | none => trivial
    | some a =>
      have ha := henv a (mem_of_getElem? h)
      refine ⟨scanon_pos W _ ha.1, ?_⟩
      obtain ⟨an, am⟩ := a
      cases an <;> simp
  | not i =>
    simp only [hstep, hspec, getElem?_map_value]
    cases h : env[i]? with
    | none => trivial
    | some a =>
      have ⟨e, c⟩ := ibigNot_spec W hW1 a (henv a (mem_of_getElem? h))
      exact ⟨c, e⟩
  | sqr i =>
    simp only [hstep, hspec, getElem?_map_value]
    cases h : env[i]? with
    | none => trivial
    | some a =>
      have ha := henv a (mem_of_getElem? h)
      have ⟨e, c⟩ := TRepr.sqr_spec W hW a.mag ha.1
      refine ⟨scanon_pos W _ c, ?_⟩
      obtain ⟨an, am⟩ := a
      simp only [SRepr.value_mk_false, e]
      cases an <;> simp
  | pow i e =>
    simp only [hstep, hspec, getElem?_map_value]
    cases h : env[i]? with
    | none => trivial
    | some a =>
      have ha := henv a (mem_of_getElem? h)
      have hn : (a.value W).natAbs = a.mag.value W := by
        obtain ⟨an, am⟩ := a
        cases an <;> simp
      simp only [Option.map_some, ibigPowChecked, hn]
      split
      · rfl
      · have ⟨hv, hw⟩ := ibigPow_spec W hW a e ha
        exact ⟨hw, hv⟩
  | shl i n =>
    simp only [hstep, hspec, getElem?_map_value]
    cases h : env[i]? with
    | none => trivial
    | some a => exact ibigShl_spec' W hW1 a n (henv a (mem_of_getElem? h))
  | shr i n r =>
    simp only [hstep, hspec, getElem?_map_value]
    cases h : env[i]? with
    | none => trivial
    | some a => exact ibigShrRepr_spec W hW1 a n r (henv a (mem_of_getElem? h))
  | add i j f =>
    simp only [hstep, hspec, getElem?_map_value]
    cases h : env[i]? <;> cases h' : env[j]? <;> try trivial
    rename_i a b
    have ⟨hv, hw⟩ := ibigAdd_spec W hW1 a b f (henv a (mem_of_getElem? h)) (henv b (mem_of_getElem? h'))
    exact ⟨hw, hv⟩
  | sub i j f =>
    simp only [hstep, hspec, getElem?_map_value]
    cases h : env[i]? <;> cases h' : env[j]? <;> try trivial
    rename_i a b
    have ⟨hv, hw⟩ := ibigSub_spec W hW1 a b f (henv a (mem_of_getElem? h)) (henv b (mem_of_getElem? h'))
    exact ⟨hw, hv⟩
  | mul i j =>
    simp only [hstep, hspec, getElem?_map_value]
    cases h : env[i]? <;> cases h' : env[j]? <;> try trivial
    rename_i a b
    have ⟨hv, hw⟩ := ibigMul_spec W hW a b (henv a (mem_of_getElem? h)) (henv b (mem_of_getElem? h'))
    exact ⟨hw, hv⟩
  | div i j =>
    simp only [hstep, hspec, getElem?_map_value]
    cases h : env[i]? <;> cases h' : env[j]? <;> try trivial
    rename_i a b
    have ⟨d0, d1⟩ := ibigDiv_spec' W hW a b (henv a (mem_of_getElem? h)) (henv b (mem_of_getElem? h'))
    simp only [Option.map_some]
    by_cases hz : b.value W = 0
    · simp only [hz, if_true, d0 hz, ofExcept]; rfl
    · obtain ⟨q, e, hc, hv⟩ := d1 hz
      simp only [hz, if_false, e, ofExcept]
      exact ⟨hc, hv⟩
  | rem i j =>
    simp only [hstep, hspec, getElem?_map_value]
    cases h : env[i]? <;> cases h' : env[j]? <;> try trivial
    rename_i a b
    have ⟨d0, d1⟩ := ibigRem_spec' W hW a b (henv a (mem_of_getElem? h)) (henv b (mem_of_getElem? h'))
    simp only [Option.map_some]
    by_cases hz : b.value W = 0
    · simp only [hz, if_true, d0 hz, ofExcept]; rfl
    · obtain ⟨q, e, hc, hv⟩ := d1 hz
      simp only [hz, if_false, e, ofExcept]
      exact ⟨hc, hv⟩
  | divEuclid i j =>
    simp only [hstep, hspec, getElem?_map_value]
    cases h : env[i]? <;> cases h' : env[j]? <;> try trivial
    rename_i a b
    have ⟨d0, d1⟩ := ibigDivEuclid_spec' W hW a b (henv a (mem_of_getElem? h)) (henv b (mem_of_getElem? h'))
    simp only [Option.map_some]
    by_cases hz : b.value W = 0
    · simp only [hz, if_true, d0 hz, ofExcept]; rfl
    · obtain ⟨q, e, hc, hv⟩ := d1 hz
      simp only [hz, if_false, e, ofExcept]
      exact ⟨hc, hv⟩
  | remEuclid i j rv =>
    simp only [hstep, hspec, getElem?_map_value]
    cases h : env[i]? <;> cases h' : env[j]? <;> try trivial
    rename_i a b
    have ⟨d0, d1⟩ := ibigRemEuclid_spec' W hW a b rv (henv a (mem_of_getElem? h)) (henv b (mem_of_getElem? h'))
    simp only [Option.map_some]
    by_cases hz : b.value W = 0
    · simp only [hz, if_true, d0 hz, Except.map, ofExcept]; rfl
    · obtain ⟨r, e, hc, hv⟩ := d1 hz
      simp only [hz, if_false, e, Except.map, ofExcept]
      exact ⟨scanon_pos W _ hc, by simpa using hv⟩
  | and i j =>
    simp only [hstep, hspec, getElem?_map_value]
    cases h : env[i]? <;> cases h' : env[j]? <;> try trivial
    rename_i a b
    have ⟨hv, hw⟩ := ibigAnd_spec W hW1 a b (henv a (mem_of_getElem? h)) (henv b (mem_of_getElem? h'))
    exact ⟨hw, hv⟩
  | or i j =>
    simp only [hstep, hspec, getElem?_map_value]
    cases h : env[i]? <;> cases h' : env[j]? <;> try trivial
    rename_i a b
    have ⟨hv, hw⟩ := ibigOr_spec W hW1 a b (henv a (mem_of_getElem? h)) (henv b (mem_of_getElem? h'))
    exact ⟨hw, hv⟩
  | xor i j =>
    simp only [hstep, hspec, getElem?_map_value]
    cases h : env[i]? <;> cases h' : env[j]? <;> try trivial
    rename_i a b
    have ⟨hv, hw⟩ := ibigXor_spec W hW1 a b (henv a (mem_of_getElem? h)) (henv b (mem_of_getElem? h'))
    exact ⟨hw, hv⟩

-- ================================================================== whole histories

theorem hrun_sound (W : Nat) (hW : 4 ≤ W) (ops : List HOp) (hok : ∀ op ∈ ops, op.Ok W) (env : List SRepr)
    (henv : ∀ r ∈ env, SCanon W r) :
    (∀ r ∈ (hrun W ops env).1, SCanon W r) ∧
    hrunSpec W ops (env.map (·.value W)) = ((hrun W ops env).1.map (·.value W), (hrun W ops env).2) := by
  induction ops generalizing env with
  | nil => exact ⟨henv, rfl⟩
  | cons op ops ih =>
    have hs := hstep_sound W hW env op (hok op (List.mem_cons_self ..)) henv
    have hok' : ∀ o ∈ ops, o.Ok W := fun o ho => hok o (List.mem_cons_of_mem _ ho)
    simp only [hrun, hrunSpec]
    cases h1 : hstep W env op <;> cases h2 : hspec W (env.map (·.value W)) op <;>
      simp only [h1, h2, HAgree] at hs ⊢
    · rename_i r v
      have henv' : ∀ x ∈ env ++ [r], SCanon W x := by
        intro x hx
        rcases List.mem_append.mp hx with h | h
        · exact henv x h
        · simp at h; rw [h]; exact hs.1
      have := ih hok' (env ++ [r]) henv'
      rw [List.map_append, List.map_cons, List.map_nil, hs.2] at this
      exact this
    · exact ⟨henv, trivial⟩
    · exact ⟨henv, trivial⟩

end Dashu.Model
