import Dashu.Proofs.Int.FloatFit
import Dashu.Model.Trans.PowiNeg
/-
  C05, float producers, round 4: the invariant `digits ≤ precision + 1` (hypothesis of `float_cmp`) and the
  canonical (normalised) representation for the producers that `float_results_fit` did not cover:
  `Context::div` (with its own pre-shrink of the dividend), `Context::inv`, `Context::sqrt`,
  `Context::powi` (non-negative and negative exponent; C11's mirrored loop `Model/Trans/Powi*.lean`),
  `Context::convert_int` / `From<IBig>` / `From<primitive>`, `FBig::from_parts`, and the parser
  (`Repr::from_str_native`: significand `int·B^fd + fract`, precision = number of digit characters).
-/
namespace Dashu.Model
open Dashu.Model.Float Dashu.Model.Trans

/-- `Context::div` (the dividend pre-shrunk BY REFERENCE to `rhs.digits + p` digits when the estimates say
    it is longer): at most `p + 1` digits, for operands of any length, given sound digit estimates -/
theorem ctxDiv_fits (B : Nat) (hB : 2 ≤ B) (m : Mode) (c : Coarse) (dub dlb : Int → Nat)
    (hdub : DubSound B dub) (hdlb : DlbSound B dlb) (p : Nat) (hp : 1 ≤ p) (x y : Float.FRepr)
    (hy : y.signif ≠ 0) :
    ∃ r, ctxDiv B m c dub dlb p x y = .ok r ∧ FitsP1 B p r.1 := by
  unfold ctxDiv
  have hfit : (if ¬ x.isZero ∧ dub x.signif > dlb y.signif + p then
      (reprRound B m c (y.digits B + p) x).1 else x).digits B ≤ y.digits B + p := by
    split
    · exact reprRound_digits_le B hB m c _ (by omega) x
    · rename_i h
      by_cases hz : x.isZero = true
      · have : x.signif = 0 := by
          simp only [Float.FRepr.isZero, Bool.and_eq_true, beq_iff_eq] at hz; exact hz.1
        simp [Float.FRepr.digits, this, digitsI_zero]
      · have h2 : ¬ dub x.signif > dlb y.signif + p := fun h' => h ⟨by simpa using hz, h'⟩
        have h3 := hdub x.signif
        have h4 := hdlb y.signif
        unfold Float.FRepr.digits; omega
  obtain ⟨r, hr, hd, _⟩ := reprDiv_digits_le B hB m p hp _ y hy hfit
  exact ⟨r, hr, hd⟩

/-- `Context::inv` -/
theorem ctxInv_fits (B : Nat) (hB : 2 ≤ B) (m : Mode) (p : Nat) (hp : 1 ≤ p) (y : Float.FRepr) (hy : y.signif ≠ 0) :
    ∃ r, ctxInv B m p y = .ok r ∧ FitsP1 B p r.1 := by
  unfold ctxInv
  have hfit : (⟨1, 0⟩ : Float.FRepr).digits B ≤ y.digits B + p := by
    have h1 : (⟨1, 0⟩ : Float.FRepr).digits B ≤ 1 := by
      show digits B (1 : Int).natAbs ≤ 1
      obtain ⟨_, hlo, _⟩ := digits_spec B hB 1 (by omega)
      by_contra hc
      have : B ^ 1 ≤ B ^ (digits B 1 - 1) := Nat.pow_le_pow_right (by omega) (by simp at hc ⊢; omega)
      rw [Nat.pow_one] at this
      omega
    omega
  obtain ⟨r, hr, hd, _⟩ := reprDiv_digits_le B hB m p hp _ y hy hfit
  exact ⟨r, hr, hd⟩

/-- `Context::sqrt` -/
theorem ctxSqrt_fits (B : Nat) (hB : 2 ≤ B) (m : Mode) (c : Coarse) (sr : Nat → Nat × Nat) (p : Nat) (hp : 1 ≤ p)
    (x : Float.FRepr) (hs : 0 ≤ x.signif) : ∃ r, ctxSqrt B m c sr p x = .ok r ∧ FitsP1 B p r.1 := by
  obtain ⟨r, hr, hd⟩ := ctxSqrt_digits_le B hB m c sr p hp x hs
  exact ⟨r, hr, Nat.le_succ_of_le hd⟩

/-- `Context::powi(base, n)`, `n ≥ 2` (binary exponentiation at the working precision, final `with_precision`) -/
theorem powiNonneg_fits (fixed : Bool) (B : Nat) (hB : 2 ≤ B) (m : Mode) (c : Coarse) (p : Nat) (hp : 1 ≤ p)
    (base : Float.FRepr) (bs : List Bool) : FitsP1 B p (powiNonneg fixed B m c p base bs).2.1 := by
  unfold powiNonneg
  exact Nat.le_succ_of_le (reprRound_digits_le B hB m c p hp _)

/-- `Context::powi(base, -n)`: whatever the reversed-context power and reciprocal were, the final `repr_round` fits -/
theorem powiNeg_fits (fixed : Bool) (B : Nat) (hB : 2 ≤ B) (m : Mode) (c : Coarse) (p : Nat) (hp : 1 ≤ p)
    (base : Float.FRepr) (n : Nat) (r : Float.FRepr × Float.FRepr × Rounded Float.FRepr)
    (h : powiNeg fixed B m c p base n = .ok r) : FitsP1 B p r.2.2.1 := by
  unfold powiNeg at h
  simp only at h
  split at h
  · cases h
  · cases h
    exact Nat.le_succ_of_le (reprRound_digits_le B hB m c p hp _)

/-- `Context::convert_int` (`From<IBig>/From<UBig>/From<primitive>` build `Repr::new(n, 0)` with the precision
    of the digit count, `convert_int` rounds it): fits, canonical -/
theorem convertInt_fits (B : Nat) (hB : 2 ≤ B) (m : Mode) (c : Coarse) (p : Nat) (hp : 1 ≤ p) (n : Int) :
    FitsP1 B p (reprRound B m c p (Float.FRepr.new B n 0)).1 ∧
    FCanon B (ofFloatRepr (reprRound B m c p (Float.FRepr.new B n 0)).1) :=
  ⟨Nat.le_succ_of_le (reprRound_digits_le B hB m c p hp _), reprRound_fcanon B hB m c p _ (new_fcanon B hB _ _)⟩

/-- `FBig::from_parts(s, e)` / `From<IBig>`: precision `max(digits(s), 1)`, representation `Repr::new(s, e)`:
    at most `precision` digits (trailing zero digits are stripped, never added), canonical -/
theorem fromParts_fits (B : Nat) (hB : 2 ≤ B) (s e : Int) :
    (Float.FRepr.new B s e).digits B ≤ max (digitsI B s) 1 ∧ FCanon B (ofFloatRepr (Float.FRepr.new B s e)) := by
  refine ⟨?_, new_fcanon B hB s e⟩
  apply new_digits_le_digits B hB s e _ (by omega)
  have h := digitsI_abs_lt B hB s
  have : ((B ^ digitsI B s : Nat) : Int) ≤ ((B ^ max (digitsI B s) 1 : Nat) : Int) := by
    exact_mod_cast Nat.pow_le_pow_right (by omega) (by omega)
  omega

/-- **the parser** (`Repr::from_str_native` + `FBig::from_str`): integral part `int` written with `di` digit
    characters, fractional part `fr` with `df` of them (so `int < B^di`, `fr < B^df`), significand
    `int` (fraction zero) or `int·B^df + fr`, any sign, any scale; the precision is `ndigits = di + df ≥ 1`.
    The parsed value has at most `ndigits` digits and is canonical. -/
theorem parse_fits (B : Nat) (hB : 2 ≤ B) (int fr di df : Nat) (neg : Bool) (e : Int)
    (hi : int < B ^ di) (hf : fr < B ^ df) (hn : 1 ≤ di + df) :
    let s : Int := (if neg then -1 else 1) * ((if fr = 0 then int else int * B ^ df + fr : Nat) : Int)
    (Float.FRepr.new B s e).digits B ≤ di + df ∧ FCanon B (ofFloatRepr (Float.FRepr.new B s e)) := by
  intro s
  refine ⟨?_, new_fcanon B hB s e⟩
  apply new_digits_le_digits B hB s e _ hn
  have hB0 : 0 < B := by omega
  have hlt : (if fr = 0 then int else int * B ^ df + fr) < B ^ (di + df) := by
    have h1 : int * B ^ df + fr < B ^ (di + df) := by
      rw [Nat.pow_add]
      have : (int + 1) * B ^ df ≤ B ^ di * B ^ df := Nat.mul_le_mul_right _ hi
      rw [Nat.add_mul, Nat.one_mul] at this
      omega
    split
    · have : int * B ^ df ≤ int * B ^ df + fr := Nat.le_add_right _ _
      have hp1 : 1 ≤ B ^ df := Nat.one_le_two_pow.trans (Nat.pow_le_pow_left hB df)
      have : int ≤ int * B ^ df := Nat.le_mul_of_pos_right _ hp1
      omega
    · exact h1
  have habs : |s| = (((if fr = 0 then int else int * B ^ df + fr) : Nat) : Int) := by
    show |(if neg then -1 else 1) * _| = _
    cases neg
    · simp only [Bool.false_eq_true, if_false, Int.one_mul]; exact abs_of_nonneg (Int.natCast_nonneg _)
    · simp only [if_true, Int.neg_mul, Int.one_mul, abs_neg]; exact abs_of_nonneg (Int.natCast_nonneg _)
  rw [habs]
  exact_mod_cast hlt


-- ================================================================== canonical representation of the same producers

theorem ctxDiv_fcanon (B : Nat) (hB : 2 ≤ B) (m : Mode) (c : Coarse) (dub dlb : Int → Nat) (p : Nat)
    (x y : Float.FRepr) (r : Rounded Float.FRepr) (h : ctxDiv B m c dub dlb p x y = .ok r) :
    FCanon B (ofFloatRepr r.1) := by
  unfold ctxDiv at h
  exact reprDiv_fcanon B hB m p _ y r h

theorem ctxInv_fcanon (B : Nat) (hB : 2 ≤ B) (m : Mode) (p : Nat) (y : Float.FRepr) (r : Rounded Float.FRepr)
    (h : ctxInv B m p y = .ok r) : FCanon B (ofFloatRepr r.1) := by
  unfold ctxInv at h
  exact reprDiv_fcanon B hB m p _ y r h

theorem ctxSqrt_fcanon (B : Nat) (hB : 2 ≤ B) (m : Mode) (c : Coarse) (sr : Nat → Nat × Nat) (p : Nat)
    (x : Float.FRepr) (r : Rounded Float.FRepr) (h : ctxSqrt B m c sr p x = .ok r) :
    FCanon B (ofFloatRepr r.1) := by
  unfold ctxSqrt at h
  split at h
  · cases h
  · split at h
    · cases h
    · cases h
      exact reprRound_fcanon B hB m c p _ (new_fcanon B hB _ _)

theorem ctxSqr_fcanon (fixed : Bool) (B : Nat) (hB : 2 ≤ B) (m : Mode) (c : Coarse) (p : Nat) (a : Float.FRepr) :
    FCanon B (ofFloatRepr (ctxSqr fixed B m c p a).1) := by
  unfold ctxSqr
  exact reprRound_fcanon B hB m c p _ (new_fcanon B hB _ _)

theorem powLoop_fcanon (fixed : Bool) (B : Nat) (hB : 2 ≤ B) (m : Mode) (c : Coarse) (q : Nat) (base : Float.FRepr)
    (bs : List Bool) (cur : Float.FRepr) (hc : FCanon B (ofFloatRepr cur)) :
    FCanon B (ofFloatRepr (powLoop fixed B m c q base bs cur)) := by
  induction bs generalizing cur with
  | nil => exact hc
  | cons b bs ih =>
    unfold powLoop
    apply ih
    cases b
    · exact ctxSqr_fcanon fixed B hB m c q cur
    · exact ctxMul_fcanon fixed B hB m c q _ base

/-- `powi` returns the canonical representation for a canonical base (for exponents ≥ 2 at least one
    `sqr` ran; the statement does not need that) -/
theorem powiNonneg_fcanon (fixed : Bool) (B : Nat) (hB : 2 ≤ B) (m : Mode) (c : Coarse) (p : Nat)
    (base : Float.FRepr) (hb : FCanon B (ofFloatRepr base)) (bs : List Bool) :
    FCanon B (ofFloatRepr (powiNonneg fixed B m c p base bs).2.1) := by
  unfold powiNonneg
  exact reprRound_fcanon B hB m c p _ (powLoop_fcanon fixed B hB m c _ base bs base hb)

theorem powiNeg_fcanon (fixed : Bool) (B : Nat) (hB : 2 ≤ B) (m : Mode) (c : Coarse) (p : Nat)
    (base : Float.FRepr) (n : Nat) (r : Float.FRepr × Float.FRepr × Rounded Float.FRepr)
    (h : powiNeg fixed B m c p base n = .ok r) : FCanon B (ofFloatRepr r.2.2.1) := by
  unfold powiNeg at h
  simp only at h
  split at h
  · cases h
  · rename_i inv hinv
    cases h
    exact reprRound_fcanon B hB m c p _ (reprDiv_fcanon B hB _ _ _ _ inv hinv)

end Dashu.Model
