import Dashu.Proofs.Int.Div
/-
  Composition of Toom-3 with the kernels of other properties.

  `toom_3::add_signed_mul_same_len` divides its interpolation buffers by
  `div::div_by_word_in_place(t1, 6)` and `shift::shr_in_place(t2, 1)`.  Those kernels are mirrored in
  `Model/Int/Div.lean` (C02), which itself calls the mirrored multiplication, so they live downstream
  of `Model/Int/Mul.lean`, where `toomScratch` writes the quotients as "the `2·n3 + 2` words of
  `val / 6`, `val / 2`".  Here: that text is *exactly* what the mirrored kernels return, for every input,
  and on the Toom-3 buffers both remainders are zero (`assert_eq!(t1_rem, 0)`, `assert_eq!(t2_rem, 0)`).
  So no step of `toom3SameLen` is left at its specification.
-/
namespace Dashu.Model

/-- fixed-length word lists are determined by their value -/
theorem val_inj (W : Nat) : ∀ (a b : List Nat), IsWords W a → IsWords W b → a.length = b.length →
    val W a = val W b → a = b := by
  intro a
  induction a with
  | nil =>
    intro b _ _ hl _
    cases b with
    | nil => rfl
    | cons y ys => simp at hl
  | cons x xs ih =>
    intro b ha hb hl hv
    cases b with
    | nil => simp at hl
    | cons y ys =>
      have hp : 0 < 2 ^ W := Nat.two_pow_pos W
      have hx := ha.head
      have hy := hb.head
      simp only [val_cons] at hv
      have hxy : x = y := by
        have h1 : (x + 2 ^ W * val W xs) % 2 ^ W = x := by
          rw [Nat.add_mul_mod_self_left]; exact Nat.mod_eq_of_lt hx
        have h2 : (y + 2 ^ W * val W ys) % 2 ^ W = y := by
          rw [Nat.add_mul_mod_self_left]; exact Nat.mod_eq_of_lt hy
        rw [← h1, ← h2, hv]
      subst hxy
      have hvs : val W xs = val W ys := by
        have : 2 ^ W * val W xs = 2 ^ W * val W ys := by omega
        exact Nat.eq_of_mul_eq_mul_left hp this
      rw [ih ys ha.tail hb.tail (by simpa using hl) hvs]

/-- a word list is the fixed-length expansion of its own value -/
theorem wordsOfLen_val (W : Nat) (qs : List Nat) (h : IsWords W qs) :
    wordsOfLen W qs.length (val W qs) = qs := by
  obtain ⟨w1, w2, w3⟩ := wordsOfLen_spec W qs.length (val W qs)
  rw [Nat.mod_eq_of_lt (val_lt W qs h)] at w1
  exact val_inj W _ _ w3 h w2 w1

/-- `div_by_word_in_place(t, 6)` returns exactly the words of `val t / 6` and the remainder `val t % 6` -/
theorem divByWord6_eq (W : Nat) (hW : 3 ≤ W) (t : List Nat) (ht : IsWords W t) :
    Div.divByWordInPlace W t 6 = .ok (wordsOfLen W t.length (val W t / 6), val W t % 6) := by
  have h6 : 6 < 2 ^ W := Nat.lt_of_lt_of_le (by decide) (Nat.pow_le_pow_right (by omega) hW : 2 ^ 3 ≤ 2 ^ W)
  obtain ⟨qs, r, e, hv, hr, hl, hw⟩ := Div.divByWordInPlace_spec W 6 t ht (by decide) h6
  have hq : val W t / 6 = val W qs := by
    rw [← hv]; omega
  have hm : val W t % 6 = r := by
    rw [← hv]; omega
  rw [e, hq, hm, ← hl, wordsOfLen_val W qs hw]

/-- `shr_in_place(t, 1)` returns exactly the words of `val t / 2`; the shifted-out bit comes back in the top
    bit of the returned word -/
theorem shrInPlace1_eq (W : Nat) (hW : 1 ≤ W) (t : List Nat) (ht : IsWords W t) :
    Div.shrInPlace W t 1 = (wordsOfLen W t.length (val W t / 2), (val W t % 2) * 2 ^ (W - 1)) := by
  obtain ⟨k', h2, hk, hv, hl, hw⟩ := Div.shrInPlace_spec W 1 hW t ht
  generalize Div.shrInPlace W t 1 = res at h2 hv hl hw
  obtain ⟨qs, c⟩ := res
  simp only at h2 hv hl hw
  have hq : val W t / 2 = val W qs := by
    rw [← hv]; simp only [Nat.pow_one] at hk ⊢; omega
  have hm : val W t % 2 = k' := by
    rw [← hv]; simp only [Nat.pow_one] at hk ⊢; omega
  rw [hq, hm, ← hl, wordsOfLen_val W qs hw, h2]

/-- **the two division steps of Toom-3 are the mirrored kernels, with remainder zero**: on the buffers
    `t1`, `t2` that `toom_3::add_signed_mul_same_len` has built, `div_by_word_in_place(t1, 6)` and
    `shr_in_place(t2, 1)` return exactly the `t1`, `t2` that `toomScratch` hands to the updates of `c`,
    and the remainders the code asserts to be zero are zero. -/
theorem toom3_division_steps (W : Nat) (hW : 4 ≤ W) (rec : MulKernel) (hrec : SameLenContract W rec)
    (a b : List Nat) (hab : a.length = b.length) (hn : 16 ≤ a.length) (ha : IsWords W a)
    (hb : IsWords W b) :
    Div.divByWordInPlace W (toomScratchPre W rec a b).t1 6 = .ok ((toomScratch W rec a b).t1, 0) ∧
    Div.shrInPlace W (toomScratchPre W rec a b).t2 1 = ((toomScratch W rec a b).t2, 0) := by
  obtain ⟨_, _, _, ⟨p1l, p1w, p1v⟩, ⟨p2l, p2w, p2v⟩⟩ := toomScratchPre_spec W hW rec hrec a b hab hn ha hb
    ((a.length + 2) / 3) rfl _ _ _ _ _ _ rfl rfl rfl rfl rfl rfl
  constructor
  · rw [divByWord6_eq W (by omega) _ p1w, p1l]
    have : val W (toomScratchPre W rec a b).t1 % 6 = 0 := by rw [p1v]; exact Nat.mul_mod_right 6 _
    rw [this]
    rfl
  · rw [shrInPlace1_eq W (by omega) _ p2w, p2l]
    have : val W (toomScratchPre W rec a b).t2 % 2 = 0 := by rw [p2v]; exact Nat.mul_mod_right 2 _
    rw [this, Nat.zero_mul]
    rfl

end Dashu.Model
