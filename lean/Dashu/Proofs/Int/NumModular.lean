import Dashu.Model.Int.NumModular
import Mathlib.Tactic.Ring
import Mathlib.Tactic.Linarith
import Mathlib.Tactic.LinearCombination
/-
  The mirrored `num-modular` dividers (Möller–Granlund) equal floor division under the crate's
  preconditions, for every word size `W ≥ 1`.
-/
namespace Dashu.Model.NumModular

-- ------------------------------------------------------------------ wrapping arithmetic helpers

/-- `(u − v) mod B` computed as `(u + B − v % B) % B`: if `u + j₁·B = v + ρ + j₂·B` with `ρ < B`
    then the result is `ρ` -/
theorem wrap_sub (B u v ρ j1 j2 : Nat) (hu : u < B) (hρ : ρ < B)
    (h : u + j1 * B = v + ρ + j2 * B) : (u + B - v % B) % B = ρ := by
  have hB : 0 < B := by omega
  have hdm := Nat.div_add_mod v B
  have hm := Nat.mod_lt v hB
  generalize v % B = m at *
  generalize v / B = c at *
  -- u + j1 B = B c + m + ρ + j2 B
  by_cases hum : m ≤ u
  · -- no borrow: u - m = ρ
    have : c + j2 = j1 := by
      rcases Nat.lt_trichotomy (c + j2) j1 with h1 | h1 | h1
      · have : (c + j2 + 1) * B ≤ j1 * B := Nat.mul_le_mul_right _ h1
        nlinarith
      · exact h1
      · have : (j1 + 1) * B ≤ (c + j2) * B := Nat.mul_le_mul_right _ h1
        nlinarith
    have h2 : u = m + ρ := by
      have : (c + j2) * B = j1 * B := by rw [this]
      nlinarith
    have : u + B - m = B + ρ := by omega
    rw [this, Nat.add_mod_left, Nat.mod_eq_of_lt hρ]
  · have : c + j2 + 1 = j1 := by
      rcases Nat.lt_trichotomy (c + j2 + 1) j1 with h1 | h1 | h1
      · have : (c + j2 + 1 + 1) * B ≤ j1 * B := Nat.mul_le_mul_right _ h1
        nlinarith
      · exact h1
      · have : j1 * B ≤ (c + j2) * B := Nat.mul_le_mul_right _ (by omega)
        nlinarith
    have h2 : u + B = m + ρ := by
      have : (c + j2 + 1) * B = j1 * B := by rw [this]
      nlinarith
    have : u + B - m = ρ := by omega
    rw [this, Nat.mod_eq_of_lt hρ]

-- ------------------------------------------------------------------ reciprocal of a word

/-- `invert_word`: the quotient `(B²−1)/d` of a normalised word has high word 1 (the crate's
    `debug_assert!(_hi == 1)`), so `m = ⌊(B²−1)/d⌋ − B` -/
theorem invertWord_spec (W d : Nat) (hW : 1 ≤ W) (hd1 : 2 ^ W ≤ 2 * d) (hd2 : d < 2 ^ W) :
    invertWord W d + 2 ^ W = (2 ^ (2 * W) - 1) / d ∧ invertWord W d < 2 ^ W ∧
    ((2 ^ (2 * W) - 1) / d) / 2 ^ W = 1 := by
  have hB : 0 < 2 ^ W := Nat.two_pow_pos W
  have hsq : 2 ^ (2 * W) = 2 ^ W * 2 ^ W := by rw [← Nat.pow_add]; congr 1; omega
  have hB2 : 2 ≤ 2 ^ W := by
    calc 2 = 2 ^ 1 := rfl
      _ ≤ 2 ^ W := Nat.pow_le_pow_right (by omega) hW
  have hdpos : 0 < d := by omega
  simp only [invertWord]
  rw [hsq]
  generalize 2 ^ W = B at *
  have hBB : B * B ≥ 1 := Nat.mul_pos hB hB
  have hlo : B ≤ (B * B - 1) / d := by
    rw [Nat.le_div_iff_mul_le hdpos]
    have h1 : B * d ≤ B * (B - 1) := Nat.mul_le_mul_left _ (by omega)
    have h2 : B * (B - 1) = B * B - B := by rw [Nat.mul_sub, Nat.mul_one]
    omega
  have hhi : (B * B - 1) / d < 2 * B := by
    rw [Nat.div_lt_iff_lt_mul hdpos]
    have h1 : B * B ≤ B * (2 * d) := Nat.mul_le_mul_left _ hd1
    have h2 : B * (2 * d) = 2 * B * d := by ring
    omega
  have hdiv : (B * B - 1) / d / B = 1 := by
    apply Nat.div_eq_of_lt_le <;> omega
  have hdm := Nat.div_add_mod ((B * B - 1) / d) B
  rw [hdiv] at hdm
  refine ⟨by omega, Nat.mod_lt _ hB, hdiv⟩

/-- the defining property of the reciprocal: `(m + B)·d + k = B²` with `1 ≤ k ≤ d` -/
theorem invertWord_key (W d : Nat) (hW : 1 ≤ W) (hd1 : 2 ^ W ≤ 2 * d) (hd2 : d < 2 ^ W) :
    ∃ k, (invertWord W d + 2 ^ W) * d + k = 2 ^ W * 2 ^ W ∧ 1 ≤ k ∧ k ≤ d := by
  obtain ⟨h1, _, _⟩ := invertWord_spec W d hW hd1 hd2
  have hsq : 2 ^ (2 * W) = 2 ^ W * 2 ^ W := by rw [← Nat.pow_add]; congr 1; omega
  have hdpos : 0 < d := by have := Nat.two_pow_pos W; omega
  have hdm := Nat.div_add_mod (2 ^ (2 * W) - 1) d
  have hml := Nat.mod_lt (2 ^ (2 * W) - 1) hdpos
  have hpos : 1 ≤ 2 ^ (2 * W) := Nat.two_pow_pos _
  rw [← h1] at hdm
  refine ⟨(2 ^ (2 * W) - 1) % d + 1, ?_, by omega, by omega⟩
  rw [← hsq]
  rw [Nat.mul_comm] at hdm
  omega

-- ------------------------------------------------------------------ 2-by-1 (Algorithm 4)

/-- the arithmetic core of Algorithm 4 (pure `Nat`): with `(v+B)d + k = B²`, `s = (v+B)·a_hi + a_lo
    = q1·B + q0`, the candidate `q̃ = q1 + 1` satisfies `B·a + B·d = B·q̃·d + T`,
    `T = a_hi·k + a_lo·(B−d) + q0·d` -/
theorem mg1_id (B d v k aHi aLo q1 q0 e : Nat) (hk : (v + B) * d + k = B * B)
    (hs : (v + B) * aHi + aLo = q1 * B + q0) (he : e + d = B) :
    B * (aHi * B + aLo) + B * d = B * ((q1 + 1) * d) + (aHi * k + aLo * e + q0 * d) := by
  have h1 : (B : Int) * (aHi * B + aLo) + B * d
      = B * ((q1 + 1) * d) + (aHi * k + aLo * e + q0 * d) := by
    have hk' : ((v : Int) + B) * d + k = B * B := by exact_mod_cast hk
    have hs' : ((v : Int) + B) * aHi + aLo = q1 * B + q0 := by exact_mod_cast hs
    have he' : (e : Int) + d = B := by exact_mod_cast he
    have : (e : Int) = B - d := by linarith
    rw [this]
    linear_combination (-(aHi : Int)) * hk' + (d : Int) * hs'
  exact_mod_cast h1

theorem mg1_T_bound (B d e k aHi aLo : Nat) (he : e + d = B) (hk2 : k ≤ d) (ha : aHi < d)
    (hlo : aLo < B) : aHi * k + aLo * e < e * e + B * d := by
  have h1 : aHi * k ≤ (d - 1) * d := Nat.mul_le_mul (by omega) hk2
  have h2 : aLo * e ≤ (B - 1) * e := Nat.mul_le_mul_right _ (by omega)
  have h3 : (d - 1) * d + d = d * d := by
    have : d - 1 + 1 = d := by omega
    nlinarith
  have h4 : (B - 1) * e + e = B * e := by
    have : B - 1 + 1 = B := by omega
    nlinarith
  subst he
  nlinarith

/-- candidate too large by one: the true difference `δ = q̃d − a` is at most `d` and the wrapped
    remainder `B − δ` exceeds `q0` -/
theorem mg1_caseA (B d e δ X q0 : Nat) (he : e + d = B) (he0 : 0 < e) (hq0 : q0 < B) (hδ : 0 < δ)
    (hT : B * d = B * δ + (X + q0 * d)) : δ ≤ d ∧ q0 < B - δ := by
  have hB : 0 < B := by omega
  have hδd : δ ≤ d := by
    have : B * δ ≤ B * d := by omega
    exact Nat.le_of_mul_le_mul_left this hB
  refine ⟨hδd, ?_⟩
  have h3 : B * q0 < B * (B - δ) := by
    have h5 : B * (B - δ) + B * δ = B * B := by rw [← Nat.mul_add]; congr 1; omega
    have h6 : B * B = B * e + B * d := by rw [← Nat.mul_add, he]
    have h8 : B * q0 = e * q0 + d * q0 := by rw [← he]; ring
    have h9 : e * q0 + e ≤ e * B := by
      have : e * (q0 + 1) ≤ e * B := Nat.mul_le_mul_left _ hq0
      nlinarith
    have h10 : e * B = B * e := Nat.mul_comm _ _
    have h11 : q0 * d = d * q0 := Nat.mul_comm _ _
    omega
  exact Nat.lt_of_mul_lt_mul_left h3

theorem mg1_R4 (B d e ρ q0 X : Nat) (he : e + d = B) (hT : B * ρ + B * d = X + q0 * d)
    (hX : X < e * e + B * d) (hgt : q0 < ρ) : ρ < e := by
  by_contra hcon
  have hge : e ≤ ρ := by omega
  have h1 : q0 * d ≤ ρ * d := Nat.mul_le_mul_right _ (by omega)
  have h2 : e * e ≤ ρ * e := Nat.mul_le_mul_right _ hge
  have h3 : B * ρ = ρ * e + ρ * d := by rw [← he]; ring
  nlinarith

theorem div_mod_of_eq' {a d q r : Nat} (hd : 0 < d) (h : q * d + r = a) (hr : r < d) :
    (q, r) = (a / d, a % d) := by
  have : a / d = q ∧ a % d = r := (Nat.div_mod_unique hd).mpr ⟨by rw [← h]; ring, hr⟩
  rw [this.1, this.2]

/-- Algorithm 4 on abstract words: all the wrapping steps, given the reciprocal identity -/
theorem div2by1_core (B d v k a aHi aLo q1 q0 : Nat) (hd1 : B ≤ 2 * d) (hd2 : d < B)
    (hk : (v + B) * d + k = B * B) (hk2 : k ≤ d) (ha : aHi < d) (hlo : aLo < B)
    (haeq : a = aHi * B + aLo) (hs : (v + B) * aHi + aLo = q1 * B + q0) (hq0 : q0 < B) (hq1 : q1 < B) :
    (let q := (q1 + 1) % B
     let r := (aLo + B - (q * d) % B) % B
     let q' := if r > q0 then (q + B - 1) % B else q
     let r' := if r > q0 then (r + d) % B else r
     (if r' ≥ d then (q' + 1, r' - d) else (q', r')) = (a / d, a % d)) := by
  have hBpos : 0 < B := by omega
  have hdpos : 0 < d := by omega
  obtain ⟨e, he⟩ : ∃ e, e + d = B := ⟨B - d, by omega⟩
  have hid := mg1_id B d v k aHi aLo q1 q0 e hk hs he
  rw [← haeq] at hid
  have hT1 := mg1_T_bound B d e k aHi aLo he hk2 ha hlo
  have halt : a < d * B := by
    have : (aHi + 1) * B ≤ d * B := Nat.mul_le_mul_right _ ha
    nlinarith
  clear hk hs
  simp only
  by_cases hcase : a < (q1 + 1) * d
  · obtain ⟨δ, hδ⟩ : ∃ δ, (q1 + 1) * d = a + δ := ⟨(q1 + 1) * d - a, by omega⟩
    have hδpos : 0 < δ := by omega
    rw [hδ] at hid
    have hT : B * d = B * δ + (aHi * k + aLo * e + q0 * d) := by
      have : B * (a + δ) = B * a + B * δ := by ring
      omega
    obtain ⟨hδd, hgt⟩ := mg1_caseA B d e δ (aHi * k + aLo * e) q0 he (by omega) hq0 hδpos hT
    have hr : (aLo + B - ((q1 + 1) % B * d) % B) % B = B - δ := by
      by_cases hq : q1 + 1 < B
      · rw [Nat.mod_eq_of_lt hq]
        apply wrap_sub B aLo ((q1 + 1) * d) (B - δ) (aHi + 1) 0 hlo (by omega)
        rw [hδ, haeq]
        have : B - δ + δ = B := by omega
        nlinarith
      · have hqe : q1 + 1 = B := by omega
        rw [hqe, Nat.mod_self, Nat.zero_mul]
        simp only [Nat.zero_mod, Nat.sub_zero, Nat.add_mod_right]
        rw [Nat.mod_eq_of_lt hlo]
        rw [hqe] at hδ
        obtain ⟨j, hj⟩ : ∃ j, d = aHi + j := ⟨d - aHi, by omega⟩
        have h2 : B * d = aHi * B + j * B := by rw [hj]; ring
        rcases Nat.lt_trichotomy j 1 with h | h | h
        · omega
        · subst h; omega
        · have : 2 * B ≤ j * B := Nat.mul_le_mul_right _ h
          omega
    rw [hr]
    simp only [hgt, if_true, gt_iff_lt]
    have hq' : ((q1 + 1) % B + B - 1) % B = q1 := by
      by_cases hq : q1 + 1 < B
      · rw [Nat.mod_eq_of_lt hq]
        have : q1 + 1 + B - 1 = q1 + B := by omega
        rw [this, Nat.add_mod_right, Nat.mod_eq_of_lt (by omega)]
      · have hqe : q1 + 1 = B := by omega
        rw [hqe, Nat.mod_self, Nat.zero_add, Nat.mod_eq_of_lt (by omega)]; omega
    have hr' : (B - δ + d) % B = d - δ := by
      have : B - δ + d = B + (d - δ) := by omega
      rw [this, Nat.add_mod_left, Nat.mod_eq_of_lt (by omega)]
    rw [hq', hr']
    have hnot : ¬ d - δ ≥ d := by omega
    simp only [hnot, if_false]
    apply div_mod_of_eq' hdpos
    · have : q1 * d + d = (q1 + 1) * d := by ring
      omega
    · omega
  · obtain ⟨ρ, hρ⟩ : ∃ ρ, a = (q1 + 1) * d + ρ := ⟨a - (q1 + 1) * d, by omega⟩
    have hqlt : q1 + 1 < B := by
      by_contra hcon
      have h1 : B * d ≤ (q1 + 1) * d := Nat.mul_le_mul_right _ (by omega)
      have h2 : B * d = d * B := Nat.mul_comm _ _
      omega
    rw [hρ] at hid
    have hT : B * ρ + B * d = (aHi * k + aLo * e) + q0 * d := by
      have : B * ((q1 + 1) * d + ρ) = B * ((q1 + 1) * d) + B * ρ := by ring
      omega
    have hR4 : q0 < ρ → ρ < e := mg1_R4 B d e ρ q0 _ he hT hT1
    have hρB : ρ < B := by
      by_cases hgt : q0 < ρ
      · have := hR4 hgt; omega
      · omega
    have hr : (aLo + B - ((q1 + 1) % B * d) % B) % B = ρ := by
      rw [Nat.mod_eq_of_lt hqlt]
      apply wrap_sub B aLo ((q1 + 1) * d) ρ aHi 0 hlo hρB
      rw [Nat.zero_mul, Nat.add_zero, ← hρ, haeq]; ring
    rw [hr, Nat.mod_eq_of_lt hqlt]
    by_cases hgt : ρ > q0
    · have hρe := hR4 hgt
      simp only [hgt, if_true]
      have hq' : (q1 + 1 + B - 1) % B = q1 := by
        have : q1 + 1 + B - 1 = q1 + B := by omega
        rw [this, Nat.add_mod_right, Nat.mod_eq_of_lt (by omega)]
      rw [hq', Nat.mod_eq_of_lt (by omega : ρ + d < B)]
      have hge : ρ + d ≥ d := by omega
      simp only [hge, if_true, Nat.add_sub_cancel]
      exact div_mod_of_eq' hdpos hρ.symm (by omega)
    · simp only [hgt, if_false]
      by_cases hge : ρ ≥ d
      · simp only [hge, if_true]
        apply div_mod_of_eq' hdpos
        · have : (q1 + 1 + 1) * d = (q1 + 1) * d + d := by ring
          omega
        · omega
      · simp only [hge, if_false]
        exact div_mod_of_eq' hdpos hρ.symm (by omega)

/-- `div_rem_2by1` (Möller–Granlund Algorithm 4) returns the floor quotient and remainder when
    the divisor is normalised, `m` is its reciprocal and the high word of `a` is below the divisor
    (the crate's `debug_assert!(a_hi < self.divisor)`) -/
theorem div2by1_spec (W d a : Nat) (hW : 1 ≤ W) (hd1 : 2 ^ W ≤ 2 * d) (hd2 : d < 2 ^ W)
    (ha : a / 2 ^ W < d) : div2by1 W d (invertWord W d) a = (a / d, a % d) := by
  obtain ⟨k, hk, hk1, hk2⟩ := invertWord_key W d hW hd1 hd2
  obtain ⟨_, hv, _⟩ := invertWord_spec W d hW hd1 hd2
  have hBpos : 0 < 2 ^ W := Nat.two_pow_pos W
  have hdm := Nat.div_add_mod a (2 ^ W)
  have hlo := Nat.mod_lt a hBpos
  simp only [div2by1]
  generalize invertWord W d = v at *
  generalize 2 ^ W = B at *
  have hs0 : v * (a / B) + a = (v + B) * (a / B) + a % B := by
    calc v * (a / B) + a = v * (a / B) + (B * (a / B) + a % B) := by rw [hdm]
      _ = (v + B) * (a / B) + a % B := by ring
  have hslt : (v + B) * (a / B) + a % B < B * B := by
    have : (v + B) * (a / B + 1) ≤ (v + B) * d := Nat.mul_le_mul_left _ ha
    nlinarith
  rw [hs0]
  have hsdm := Nat.div_add_mod ((v + B) * (a / B) + a % B) B
  have hq0 := Nat.mod_lt ((v + B) * (a / B) + a % B) hBpos
  have hq1 : ((v + B) * (a / B) + a % B) / B < B := (Nat.div_lt_iff_lt_mul hBpos).mpr hslt
  rw [Nat.mod_eq_of_lt hq1]
  have hs : (v + B) * (a / B) + a % B
      = ((v + B) * (a / B) + a % B) / B * B + ((v + B) * (a / B) + a % B) % B := by
    conv => lhs; rw [← hsdm]
    ring
  have haeq : a = a / B * B + a % B := by
    conv => lhs; rw [← hdm]
    ring
  exact div2by1_core B d v k a (a / B) (a % B) _ _ hd1 hd2 hk hk2 ha hlo haeq hs hq0 hq1

-- ------------------------------------------------------------------ reciprocal of a double word (Algorithm 6)

theorem mod_of_eq (M Y ρ j1 j2 : Nat) (hρ : ρ < M) (h : Y + j1 * M = ρ + j2 * M) : Y % M = ρ := by
  have hM : 0 < M := by omega
  have hdm := Nat.div_add_mod Y M
  have hm := Nat.mod_lt Y hM
  generalize Y % M = m at *
  generalize Y / M = c at *
  have : c + j1 = j2 := by
    rcases Nat.lt_trichotomy (c + j1) j2 with h1 | h1 | h1
    · have : (c + j1 + 1) * M ≤ j2 * M := Nat.mul_le_mul_right _ h1
      nlinarith
    · exact h1
    · have : (j2 + 1) * M ≤ (c + j1) * M := Nat.mul_le_mul_right _ h1
      nlinarith
  have : (c + j1) * M = j2 * M := by rw [this]
  nlinarith

/-- phase 1 of Algorithm 6: afterwards `T = (v+B)·d1 + d0 ∈ [B² − d1, B²)` and `p = T − (B² − B)` -/
theorem invDwPhase1_spec (B d0 d1 v0 k0 : Nat) (hB : 2 ≤ B) (hd0 : d0 < B) (hd1 : d1 < B)
    (hn : B ≤ 2 * d1) (hk : (v0 + B) * d1 + k0 = B * B) (hk1 : 1 ≤ k0) (hk2 : k0 ≤ d1) :
    let r := invDwPhase1 B d0 d1 v0
    r.1 ≤ v0 ∧ (r.1 + B) * d1 + d0 + B = B * B + r.2 ∧ r.2 < B ∧ B ≤ r.2 + d1 := by
  -- s0 = (v0+B) d1 = B² − k0 lies in (B² − B, B²): write it as (B−1)·B + x
  obtain ⟨x, hx⟩ : ∃ x, (v0 + B) * d1 + B = B * B + x := ⟨B - k0, by omega⟩
  have hx1 : x < B := by omega
  have hx0 : 1 ≤ x := by omega
  have hv0 : 1 ≤ v0 := by
    rcases Nat.eq_zero_or_pos v0 with h | h
    · subst h
      have : B * d1 ≤ B * (B - 1) := Nat.mul_le_mul_left _ (by omega)
      have : B * (B - 1) + B = B * B := by
        have : B - 1 + 1 = B := by omega
        nlinarith
      have h3 : (0 + B) * d1 = B * d1 := by ring
      omega
    · exact h
  -- (d1 * v0) % B = x
  have hmod : (d1 * v0) % B = x := by
    apply mod_of_eq B (d1 * v0) x (d1 + 1) B hx1
    have : (v0 + B) * d1 = d1 * v0 + d1 * B := by ring
    nlinarith
  simp only [invDwPhase1, hmod]
  by_cases hc : x + d0 < B
  · -- no carry
    have h1 : (x + d0) / B = 0 := Nat.div_eq_of_lt hc
    simp only [h1, ne_eq, not_true_eq_false, if_false, Nat.mod_eq_of_lt hc]
    refine ⟨Nat.le_refl _, by omega, hc, by omega⟩
  · have hge : B ≤ x + d0 := Nat.le_of_not_lt hc
    have h1 : (x + d0) / B = 1 := by
      apply Nat.div_eq_of_lt_le <;> omega
    have h2 : (x + d0) % B = x + d0 - B := by
      have := Nat.div_add_mod (x + d0) B
      rw [h1] at this; omega
    simp only [h1, ne_eq, Nat.one_ne_zero, not_false_eq_true, if_true, h2]
    have hvd : (v0 - 1 + B) * d1 + d1 = (v0 + B) * d1 := by
      have : v0 - 1 + B + 1 = v0 + B := by omega
      nlinarith
    by_cases hp : x + d0 - B ≥ d1
    · simp only [hp, if_true]
      -- second decrement: v0 ≥ 2
      have hv2 : 2 ≤ v0 := by
        by_contra hcon
        have hv1 : v0 = 1 := by omega
        subst hv1
        have h3 : (1 + B) * d1 = d1 + B * d1 := by ring
        have h4 : B * d1 ≤ B * (B - 1) := Nat.mul_le_mul_left _ (by omega)
        have h5 : B * (B - 1) + B = B * B := by
          have : B - 1 + 1 = B := by omega
          nlinarith
        omega
      have hvd2 : (v0 - 1 - 1 + B) * d1 + d1 = (v0 - 1 + B) * d1 := by
        have : v0 - 1 - 1 + B + 1 = v0 - 1 + B := by omega
        nlinarith
      have hlt : x + d0 - B - d1 + B - d1 < B := by omega
      rw [Nat.mod_eq_of_lt hlt]
      refine ⟨by omega, by omega, hlt, by omega⟩
    · simp only [hp, if_false]
      have hlt : x + d0 - B + B - d1 < B := by omega
      rw [Nat.mod_eq_of_lt hlt]
      refine ⟨by omega, by omega, hlt, by omega⟩

theorem dec_mul (v B d : Nat) (hv : 1 ≤ v) : (v - 1 + B) * d + d = (v + B) * d := by
  have h : v - 1 + B + 1 = v + B := by omega
  calc (v - 1 + B) * d + d = (v - 1 + B + 1) * d := by ring
    _ = (v + B) * d := by rw [h]

/-- phase 2 of Algorithm 6: the final `v` satisfies `B³ − d ≤ (v + B)·d < B³` -/
theorem invDwPhase2_spec (B d d0 d1 v p : Nat) (hB : 2 ≤ B) (hd : d = d0 + B * d1) (hd0 : d0 < B)
    (hd1 : d1 < B) (hn : B * B ≤ 2 * d) (hv : v < B)
    (hT : (v + B) * d1 + d0 + B = B * B + p) (hp : p < B) (hpd : B ≤ p + d1) :
    let vf := invDwPhase2 B d d0 v p
    vf ≤ v ∧ (vf + B) * d < B * B * B ∧ B * B * B ≤ (vf + B) * d + d := by
  have hBpos : 0 < B := by omega
  have htdm := Nat.div_add_mod (v * d0) B
  have ht0 := Nat.mod_lt (v * d0) hBpos
  have ht1 : v * d0 / B < B := by
    rw [Nat.div_lt_iff_lt_mul hBpos]
    have h1 : v * d0 ≤ v * B := Nat.mul_le_mul_left _ (Nat.le_of_lt hd0)
    have h2 : v * B < B * B := Nat.mul_lt_mul_of_pos_right hv hBpos
    omega
  simp only [invDwPhase2]
  generalize v * d0 % B = t0 at *
  generalize v * d0 / B = t1 at *
  -- atoms
  have e1 : B * (p + 1) = B * p + B := by ring
  have e2 : B * (t1 + 1) = B * t1 + B := by ring
  have e3 : B * (d1 + 1) = B * d1 + B := by ring
  have b1 : B * (p + 1) ≤ B * B := Nat.mul_le_mul_left _ hp
  have b2 : B * (t1 + 1) ≤ B * B := Nat.mul_le_mul_left _ ht1
  have b3 : B * (d1 + 1) ≤ B * B := Nat.mul_le_mul_left _ hd1
  have b4 : B * B ≤ B * (p + d1) := Nat.mul_le_mul_left _ hpd
  have e4 : B * (p + d1) = B * p + B * d1 := by ring
  have hdlt : d < B * B := by omega
  have e5 : B * (B * B) = B * B * B := by ring
  have b5 : B * d < B * (B * B) := Nat.mul_lt_mul_of_pos_left hdlt hBpos
  -- (v+B) d + B·B = B³ + B·p + B·t1 + t0
  have hid : (v + B) * d + B * B = B * B * B + B * p + B * t1 + t0 := by
    have h1 : (v + B) * d = v * d0 + B * d0 + B * ((v + B) * d1) := by rw [hd]; ring
    have h2 : B * ((v + B) * d1 + d0 + B) = B * (B * B + p) := by rw [hT]
    have h3 : B * ((v + B) * d1 + d0 + B) = B * ((v + B) * d1) + B * d0 + B * B := by ring
    have h4 : B * (B * B + p) = B * B * B + B * p := by ring
    omega
  by_cases hc : p + t1 < B
  · have h1 : (p + t1) / B = 0 := Nat.div_eq_of_lt hc
    simp only [h1, ne_eq, not_true_eq_false, if_false]
    have b6 : B * (p + t1 + 1) ≤ B * B := Nat.mul_le_mul_left _ hc
    have e6 : B * (p + t1 + 1) = B * p + B * t1 + B := by ring
    refine ⟨Nat.le_refl _, by omega, by omega⟩
  · have hge : B ≤ p + t1 := Nat.le_of_not_lt hc
    have h1 : (p + t1) / B = 1 := by
      apply Nat.div_eq_of_lt_le <;> omega
    have h2 : (p + t1) % B = p + t1 - B := by
      have := Nat.div_add_mod (p + t1) B
      rw [h1] at this; omega
    simp only [h1, ne_eq, Nat.one_ne_zero, not_false_eq_true, if_true, h2]
    have b7 : B * B ≤ B * (p + t1) := Nat.mul_le_mul_left _ hge
    have e7 : B * (p + t1) = B * p + B * t1 := by ring
    have e8 : B * (p + t1 - B) + B * B = B * (p + t1) := by
      rw [← Nat.mul_add]; congr 1; omega
    have hv1 : 1 ≤ v := by
      rcases Nat.eq_zero_or_pos v with h | h
      · subst h
        have : (0 + B) * d = B * d := by ring
        omega
      · exact h
    have hvd := dec_mul v B d hv1
    by_cases hEd : t0 + B * (p + t1 - B) ≥ d
    · simp only [hEd, if_true]
      have hv2 : 2 ≤ v := by
        by_contra hcon
        have : v = 1 := by omega
        subst this
        have h3 : (1 - 1 + B) * d = B * d := by simp
        omega
      have hvd2 := dec_mul (v - 1) B d (by omega)
      refine ⟨by omega, by omega, by omega⟩
    · simp only [hEd, if_false]
      refine ⟨by omega, by omega, by omega⟩

/-- `invert_double_word` = `⌊(B³−1)/d⌋ − B` for a normalised double word, with the defining
    identity `(m + B)·d + k = B³`, `1 ≤ k ≤ d` -/
theorem invertDoubleWord_spec (W d : Nat) (hW : 1 ≤ W) (hd1 : 2 ^ (2 * W) ≤ 2 * d) (hd2 : d < 2 ^ (2 * W)) :
    invertDoubleWord W d + 2 ^ W = (2 ^ (3 * W) - 1) / d ∧ invertDoubleWord W d < 2 ^ W ∧
    ∃ k, (invertDoubleWord W d + 2 ^ W) * d + k = 2 ^ W * 2 ^ W * 2 ^ W ∧ 1 ≤ k ∧ k ≤ d := by
  have hBpos : 0 < 2 ^ W := Nat.two_pow_pos W
  have hsq : 2 ^ (2 * W) = 2 ^ W * 2 ^ W := by rw [← Nat.pow_add]; congr 1; omega
  have hcu : 2 ^ (3 * W) = 2 ^ W * 2 ^ W * 2 ^ W := by
    rw [← Nat.pow_add, ← Nat.pow_add]; congr 1; omega
  have hB2 : 2 ≤ 2 ^ W := by
    calc 2 = 2 ^ 1 := rfl
      _ ≤ 2 ^ W := Nat.pow_le_pow_right (by omega) hW
  have heven : 2 ^ W = 2 * 2 ^ (W - 1) := by
    rw [← Nat.pow_succ']; congr 1; omega
  have hdm := Nat.div_add_mod d (2 ^ W)
  have hd0 := Nat.mod_lt d hBpos
  have hd1lt : d / 2 ^ W < 2 ^ W := by
    rw [Nat.div_lt_iff_lt_mul hBpos, ← hsq]; exact hd2
  -- the high word is normalised
  have hn1 : 2 ^ W ≤ 2 * (d / 2 ^ W) := by
    rw [hsq] at hd1
    by_contra hcon
    have h1 : 2 * (d / 2 ^ W) + 2 ≤ 2 ^ W := by omega
    have h2 : 2 ^ W * (2 * (d / 2 ^ W) + 2) ≤ 2 ^ W * 2 ^ W := Nat.mul_le_mul_left _ h1
    nlinarith
  obtain ⟨k0, hk0, hk01, hk02⟩ := invertWord_key W (d / 2 ^ W) hW hn1 hd1lt
  obtain ⟨_, hv0, _⟩ := invertWord_spec W (d / 2 ^ W) hW hn1 hd1lt
  have p1 := invDwPhase1_spec (2 ^ W) (d % 2 ^ W) (d / 2 ^ W) (invertWord W (d / 2 ^ W)) k0 hB2 hd0
    hd1lt hn1 hk0 hk01 hk02
  simp only at p1
  obtain ⟨a1, a2, a3, a4⟩ := p1
  have p2 := invDwPhase2_spec (2 ^ W) d (d % 2 ^ W) (d / 2 ^ W)
    (invDwPhase1 (2 ^ W) (d % 2 ^ W) (d / 2 ^ W) (invertWord W (d / 2 ^ W))).1
    (invDwPhase1 (2 ^ W) (d % 2 ^ W) (d / 2 ^ W) (invertWord W (d / 2 ^ W))).2 hB2 (by omega) hd0 hd1lt
    (by rw [← hsq]; exact hd1) (by omega) a2 a3 a4
  simp only at p2
  obtain ⟨b1, b2, b3⟩ := p2
  have hdef : invertDoubleWord W d = invDwPhase2 (2 ^ W) d (d % 2 ^ W)
      (invDwPhase1 (2 ^ W) (d % 2 ^ W) (d / 2 ^ W) (invertWord W (d / 2 ^ W))).1
      (invDwPhase1 (2 ^ W) (d % 2 ^ W) (d / 2 ^ W) (invertWord W (d / 2 ^ W))).2 := rfl
  rw [← hdef] at b1 b2 b3
  have hdpos : 0 < d := by
    have := Nat.two_pow_pos (2 * W); omega
  have hcpos : 1 ≤ 2 ^ W * 2 ^ W * 2 ^ W := Nat.mul_pos (Nat.mul_pos hBpos hBpos) hBpos
  refine ⟨?_, by omega, ⟨2 ^ W * 2 ^ W * 2 ^ W - (invertDoubleWord W d + 2 ^ W) * d, by omega, by omega,
    by omega⟩⟩
  rw [hcu]
  symm
  apply Nat.div_eq_of_lt_le
  · omega
  · have : (invertDoubleWord W d + 2 ^ W + 1) * d = (invertDoubleWord W d + 2 ^ W) * d + d := by ring
    omega

-- ------------------------------------------------------------------ 3-by-2 (Algorithm 5)

theorem wrap_sub_exists (B u v : Nat) (hu : u < B) :
    ∃ j, v + (u + B - v % B) % B = u + j * B ∧ (u + B - v % B) % B < B := by
  have hB : 0 < B := by omega
  have hdm := Nat.div_add_mod v B
  have hm := Nat.mod_lt v hB
  generalize v % B = m at *
  generalize v / B = c at *
  by_cases hum : m ≤ u
  · have : u + B - m = B + (u - m) := by omega
    rw [this, Nat.add_mod_left, Nat.mod_eq_of_lt (by omega)]
    exact ⟨c, by rw [← hdm]; have : c * B = B * c := Nat.mul_comm _ _; omega, by omega⟩
  · rw [Nat.mod_eq_of_lt (by omega)]
    exact ⟨c + 1, by rw [← hdm]; have : (c + 1) * B = B * c + B := by ring
                     omega, by omega⟩

/-- the arithmetic identity behind Algorithm 5 -/
theorem mg2_id (B d v k a0 a1 a2 q1 q0 e : Nat) (hk : (v + B) * d + k = B * B * B)
    (hs : (v + B) * a2 + a1 = q1 * B + q0) (he : e + d = B * B) :
    B * (a0 + B * (a1 + B * a2)) + B * d
      = B * ((q1 + 1) * d) + (a2 * k + a1 * e + a0 * B + q0 * d) := by
  have h1 : (B : Int) * (a0 + B * (a1 + B * a2)) + B * d
      = B * ((q1 + 1) * d) + (a2 * k + a1 * e + a0 * B + q0 * d) := by
    have hk' : ((v : Int) + B) * d + k = B * B * B := by exact_mod_cast hk
    have hs' : ((v : Int) + B) * a2 + a1 = q1 * B + q0 := by exact_mod_cast hs
    have he' : (e : Int) + d = B * B := by exact_mod_cast he
    have : (e : Int) = B * B - d := by linarith
    rw [this]
    linear_combination (-(a2 : Int)) * hk' + (d : Int) * hs'
  exact_mod_cast h1

/-- the inequality that makes the high-word test of Algorithm 5 sound; it needs both `k ≤ d` and
    `k ≤ B·e` (`e = B² − d`) -/
theorem mg2_ineq (B d e k a2 a1 a0 : Nat) (he : e + d = B * B) (hk2 : k ≤ d) (hk3 : k ≤ B * e)
    (hu : a2 * B + a1 + 1 ≤ d) (h1 : a1 < B) (h0 : a0 < B) :
    B * k * a2 + B * e * a1 + B * B * a0 < e * e + B * B * d := by
  have hB : 0 < B := by omega
  have c3 : B * B * (a0 + 1) ≤ B * B * B := Nat.mul_le_mul_left _ h0
  have c7 : B * d + B * e = B * B * B := by
    have : B * (e + d) = B * (B * B) := by rw [he]
    nlinarith
  by_cases hcase : B * e ≤ d
  · have he1 : e + 1 ≤ B := by
      by_contra hcon
      have : B * B ≤ B * e := Nat.mul_le_mul_left _ (by omega)
      nlinarith
    have c1 : B * k * a2 ≤ B * (B * e) * a2 := Nat.mul_le_mul_right _ (Nat.mul_le_mul_left _ hk3)
    have c2 : B * e * (a2 * B + a1 + 1) ≤ B * e * d := Nat.mul_le_mul_left _ hu
    have c6 : B * d * (e + 1) ≤ B * d * B := Nat.mul_le_mul_left _ he1
    nlinarith [Nat.zero_le (e * e)]
  · obtain ⟨g, hg⟩ : ∃ g, B * e = d + g := ⟨B * e - d, by omega⟩
    have c1 : B * k * a2 ≤ B * d * a2 := Nat.mul_le_mul_right _ (Nat.mul_le_mul_left _ hk2)
    have c2 : d * (a2 * B + a1 + 1) ≤ d * d := Nat.mul_le_mul_left _ hu
    have c4 : (a1 + 1) * g ≤ B * g := Nat.mul_le_mul_right _ h1
    have c5 : B * (B * e) = B * d + B * g := by rw [hg]; ring
    have c8 : B * B * e = (e + d) * e := by rw [he]
    have c9 : B * e * a1 = d * a1 + g * a1 := by rw [hg]; ring
    nlinarith

/-- candidate too large (3-by-2): the wrapped remainder `B² − δ` has high word ≥ `q0` -/
theorem mg2_caseA (B d e δ X q0 : Nat) (hB : 0 < B) (he : e + d = B * B) (hq0 : q0 < B)
    (hδ : δ ≤ B * B) (hT : B * d = B * δ + (X + q0 * d)) : q0 * B ≤ B * B - δ := by
  have e1 : B * (B * B - δ) + B * δ = B * (B * B) := by
    rw [← Nat.mul_add]; congr 1; omega
  have e2 : B * (q0 * B) = q0 * e + q0 * d := by
    have : q0 * (e + d) = q0 * (B * B) := by rw [he]
    calc B * (q0 * B) = q0 * (B * B) := by ring
      _ = q0 * (e + d) := this.symm
      _ = q0 * e + q0 * d := by ring
  have e3 : q0 * e ≤ B * e := Nat.mul_le_mul_right _ (Nat.le_of_lt hq0)
  have e4 : B * (B * B) = B * e + B * d := by rw [← Nat.mul_add, he]
  have h3 : B * (q0 * B) ≤ B * (B * B - δ) := by omega
  exact Nat.le_of_mul_le_mul_left h3 hB

/-- candidate not too large (3-by-2): if the high word of the remainder is ≥ `q0` then the
    remainder is below `e = B² − d` -/
theorem mg2_R4 (B d e ρ q0 X P : Nat) (he : e + d = B * B) (hT : B * ρ + B * d = X + q0 * d)
    (hBX : B * X = P) (hI : P < e * e + B * B * d) (hge : q0 * B ≤ ρ) : ρ < e := by
  by_contra hcon
  have hge2 : e ≤ ρ := by omega
  have f1 : B * (B * ρ + B * d) = B * (X + q0 * d) := by rw [hT]
  have f2 : q0 * B * d ≤ ρ * d := Nat.mul_le_mul_right _ hge
  have f3 : e * e ≤ ρ * e := Nat.mul_le_mul_right _ hge2
  have f4 : B * B * ρ = ρ * e + ρ * d := by
    calc B * B * ρ = (e + d) * ρ := by rw [he]
      _ = ρ * e + ρ * d := by ring
  have f5 : B * (B * ρ + B * d) = B * B * ρ + B * B * d := by ring
  have f6 : B * (X + q0 * d) = B * X + q0 * B * d := by ring
  omega

/-- Algorithm 5 on abstract words -/
theorem div3by2_core (B d d0 d1 v k a a0 a1 a2 q1 q0 : Nat) (hB : 2 ≤ B) (hd : d = d0 + B * d1)
    (hd0 : d0 < B) (hd1 : d1 < B) (hn : B * B ≤ 2 * d) (hk : (v + B) * d + k = B * B * B)
    (hk2 : k ≤ d) (h0 : a0 < B) (h1 : a1 < B) (hu : a1 + B * a2 < d)
    (haeq : a = a0 + B * (a1 + B * a2)) (hs : (v + B) * a2 + a1 = q1 * B + q0) (hq0 : q0 < B)
    (hq1 : q1 < B) :
    (let r1 := (a1 + B - (q1 * d1) % B) % B
     let t := d0 * q1
     let r := (a0 + B * r1 + 2 * (B * B) - t - d) % (B * B)
     let rh := r / B
     let q1' := if rh < q0 then (q1 + 1) % B else q1
     let r' := if rh < q0 then r else (r + d) % (B * B)
     (if r' ≥ d then (q1' + 1, r' - d) else (q1', r')) = (a / d, a % d)) := by
  have hBpos : 0 < B := by omega
  have hBB : 0 < B * B := Nat.mul_pos hBpos hBpos
  have hdlt : d < B * B := by
    have : B * (d1 + 1) ≤ B * B := Nat.mul_le_mul_left _ hd1
    have : B * (d1 + 1) = B * d1 + B := by ring
    omega
  have hdpos : 0 < d := by omega
  obtain ⟨e, he⟩ : ∃ e, e + d = B * B := ⟨B * B - d, by omega⟩
  have hepos : 0 < e := by omega
  have hed : e ≤ d := by omega
  have c7 : B * d + B * e = B * B * B := by
    have : B * (e + d) = B * (B * B) := by rw [he]
    nlinarith
  have hk3 : k ≤ B * e := by
    have : B * d ≤ (v + B) * d := Nat.mul_le_mul_right _ (by omega)
    omega
  have hid := mg2_id B d v k a0 a1 a2 q1 q0 e hk hs he
  rw [← haeq] at hid
  have hI := mg2_ineq B d e k a2 a1 a0 he hk2 hk3 (by rw [Nat.mul_comm a2 B]; omega) h1 h0
  -- r1 and the double-word wrap
  obtain ⟨j, hj, hr1⟩ := wrap_sub_exists B a1 (q1 * d1) h1
  simp only
  generalize (a1 + B - (q1 * d1) % B) % B = r1 at *
  have htlt : d0 * q1 < B * B := by
    have : d0 * q1 ≤ B * q1 := Nat.mul_le_mul_right _ (Nat.le_of_lt hd0)
    have : B * q1 < B * B := Nat.mul_lt_mul_of_pos_left hq1 hBpos
    omega
  -- Y + (q1+1)·d + a2·B² = a + (j+2)·B²
  have hY : a0 + B * r1 + 2 * (B * B) - d0 * q1 - d + (q1 + 1) * d + a2 * (B * B)
      = a + (j + 2) * (B * B) := by
    have e1 : (q1 + 1) * d = d0 * q1 + B * (q1 * d1) + d := by rw [hd]; ring
    have e2 : B * (q1 * d1 + r1) = B * (a1 + j * B) := by rw [hj]
    have e3 : B * (q1 * d1 + r1) = B * (q1 * d1) + B * r1 := by ring
    have e4 : B * (a1 + j * B) = B * a1 + j * (B * B) := by ring
    have e5 : a = a0 + B * a1 + a2 * (B * B) := by rw [haeq]; ring
    have e6 : (j + 2) * (B * B) = j * (B * B) + 2 * (B * B) := by ring
    omega
  have halt : a < d * B := by
    have : B * (a1 + B * a2 + 1) ≤ B * d := Nat.mul_le_mul_left _ hu
    have : B * (a1 + B * a2 + 1) = B * (a1 + B * a2) + B := by ring
    have : B * d = d * B := Nat.mul_comm _ _
    omega
  generalize hYdef : a0 + B * r1 + 2 * (B * B) - d0 * q1 - d = Y at *
  by_cases hcase : a < (q1 + 1) * d
  · -- candidate too large
    obtain ⟨δ, hδ⟩ : ∃ δ, (q1 + 1) * d = a + δ := ⟨(q1 + 1) * d - a, by omega⟩
    have hδpos : 0 < δ := by omega
    rw [hδ] at hid hY
    have hT : B * d = B * δ + (a2 * k + a1 * e + a0 * B + q0 * d) := by
      have : B * (a + δ) = B * a + B * δ := by ring
      omega
    have hδd : δ ≤ d := by
      have : B * δ ≤ B * d := by omega
      exact Nat.le_of_mul_le_mul_left this hBpos
    have hR : Y % (B * B) = B * B - δ := by
      apply mod_of_eq (B * B) Y (B * B - δ) a2 (j + 1) (by omega)
      have : (j + 2) * (B * B) = (j + 1) * (B * B) + B * B := by ring
      omega
    rw [hR]
    have hrh : ¬ (B * B - δ) / B < q0 := by
      rw [Nat.not_lt, Nat.le_div_iff_mul_le hBpos]
      exact mg2_caseA B d e δ (a2 * k + a1 * e + a0 * B) q0 hBpos he hq0 (by omega) hT
    simp only [hrh, if_false]
    have hr' : (B * B - δ + d) % (B * B) = d - δ := by
      have : B * B - δ + d = B * B + (d - δ) := by omega
      rw [this, Nat.add_mod_left, Nat.mod_eq_of_lt (by omega)]
    rw [hr']
    have hnot : ¬ d - δ ≥ d := by omega
    simp only [hnot, if_false]
    apply div_mod_of_eq' hdpos
    · have : q1 * d + d = (q1 + 1) * d := by ring
      omega
    · omega
  · obtain ⟨ρ, hρ⟩ : ∃ ρ, a = (q1 + 1) * d + ρ := ⟨a - (q1 + 1) * d, by omega⟩
    have hqlt : q1 + 1 < B := by
      by_contra hcon
      have h1 : B * d ≤ (q1 + 1) * d := Nat.mul_le_mul_right _ (by omega)
      have h2 : B * d = d * B := Nat.mul_comm _ _
      omega
    rw [hρ] at hid hY
    have hT : B * ρ + B * d = a2 * k + a1 * e + a0 * B + q0 * d := by
      have : B * ((q1 + 1) * d + ρ) = B * ((q1 + 1) * d) + B * ρ := by ring
      omega
    -- ρ ≥ q0·B → ρ < e
    have hR4 : q0 * B ≤ ρ → ρ < e := by
      intro hge
      exact mg2_R4 B d e ρ q0 (a2 * k + a1 * e + a0 * B) (B * k * a2 + B * e * a1 + B * B * a0) he hT
        (by ring) hI hge
    have hρBB : ρ < B * B := by
      by_cases hge : q0 * B ≤ ρ
      · have := hR4 hge; omega
      · have : q0 * B < B * B := Nat.mul_lt_mul_of_pos_right hq0 hBpos
        omega
    have hR : Y % (B * B) = ρ := by
      apply mod_of_eq (B * B) Y ρ a2 (j + 2) hρBB
      omega
    rw [hR]
    by_cases hlt : ρ / B < q0
    · simp only [hlt, if_true]
      rw [Nat.mod_eq_of_lt hqlt]
      by_cases hge : ρ ≥ d
      · simp only [hge, if_true]
        apply div_mod_of_eq' hdpos
        · have : (q1 + 1 + 1) * d = (q1 + 1) * d + d := by ring
          omega
        · omega
      · simp only [hge, if_false]
        exact div_mod_of_eq' hdpos hρ.symm (by omega)
    · simp only [hlt, if_false]
      have hge : q0 * B ≤ ρ := by
        rw [Nat.not_lt, Nat.le_div_iff_mul_le hBpos] at hlt; exact hlt
      have hρe := hR4 hge
      rw [Nat.mod_eq_of_lt (by omega : ρ + d < B * B)]
      have hge2 : ρ + d ≥ d := by omega
      simp only [hge2, if_true, Nat.add_sub_cancel]
      exact div_mod_of_eq' hdpos hρ.symm (by omega)

/-- `div_rem_3by2` (Möller–Granlund Algorithm 5) returns the floor quotient and remainder of the
    three-word `a = a_lo + B·a_hi` by the normalised double word `d`, when `a_hi < d`
    (the crate's `debug_assert!(a_hi < self.divisor)`) -/
theorem div3by2_spec (W d aLo aHi : Nat) (hW : 1 ≤ W) (hd1 : 2 ^ (2 * W) ≤ 2 * d)
    (hd2 : d < 2 ^ (2 * W)) (hlo : aLo < 2 ^ W) (hhi : aHi < d) :
    div3by2 W d (invertDoubleWord W d) aLo aHi
      = ((aLo + 2 ^ W * aHi) / d, (aLo + 2 ^ W * aHi) % d) := by
  obtain ⟨_, hv, k, hk, hk1, hk2⟩ := invertDoubleWord_spec W d hW hd1 hd2
  have hBpos : 0 < 2 ^ W := Nat.two_pow_pos W
  have hsq : 2 ^ (2 * W) = 2 ^ W * 2 ^ W := by rw [← Nat.pow_add]; congr 1; omega
  have hB2 : 2 ≤ 2 ^ W := by
    calc 2 = 2 ^ 1 := rfl
      _ ≤ 2 ^ W := Nat.pow_le_pow_right (by omega) hW
  rw [hsq] at hd1 hd2
  have hddm := Nat.div_add_mod d (2 ^ W)
  have hd0 := Nat.mod_lt d hBpos
  have hd1lt : d / 2 ^ W < 2 ^ W := by rw [Nat.div_lt_iff_lt_mul hBpos]; exact hd2
  have hadm := Nat.div_add_mod aHi (2 ^ W)
  have ha1 := Nat.mod_lt aHi hBpos
  simp only [div3by2]
  generalize invertDoubleWord W d = v at *
  generalize 2 ^ W = B at *
  have hs0 : v * (aHi / B) + aHi = (v + B) * (aHi / B) + aHi % B := by
    calc v * (aHi / B) + aHi = v * (aHi / B) + (B * (aHi / B) + aHi % B) := by rw [hadm]
      _ = (v + B) * (aHi / B) + aHi % B := by ring
  have hslt : (v + B) * (aHi / B) + aHi % B < B * B := by
    -- B·s ≤ (v+B)·aHi < (v+B)·d < B³
    have f1 : B * ((v + B) * (aHi / B) + aHi % B) ≤ (v + B) * (B * (aHi / B) + aHi % B) := by
      have : B * (aHi % B) ≤ (v + B) * (aHi % B) := Nat.mul_le_mul_right _ (by omega)
      nlinarith
    rw [hadm] at f1
    have f2 : (v + B) * (aHi + 1) ≤ (v + B) * d := Nat.mul_le_mul_left _ hhi
    have f3 : B * ((v + B) * (aHi / B) + aHi % B) < B * (B * B) := by nlinarith
    exact Nat.lt_of_mul_lt_mul_left f3
  rw [hs0]
  have hsdm := Nat.div_add_mod ((v + B) * (aHi / B) + aHi % B) B
  have hq0 := Nat.mod_lt ((v + B) * (aHi / B) + aHi % B) hBpos
  have hq1 : ((v + B) * (aHi / B) + aHi % B) / B < B := (Nat.div_lt_iff_lt_mul hBpos).mpr hslt
  rw [Nat.mod_eq_of_lt hq1]
  have hs : (v + B) * (aHi / B) + aHi % B
      = ((v + B) * (aHi / B) + aHi % B) / B * B + ((v + B) * (aHi / B) + aHi % B) % B := by
    conv => lhs; rw [← hsdm]
    ring
  have hu : aHi % B + B * (aHi / B) < d := by omega
  have haeq : aLo + B * aHi = aLo + B * (aHi % B + B * (aHi / B)) := by
    congr 2; omega
  exact div3by2_core B d (d % B) (d / B) v k (aLo + B * aHi) aLo (aHi % B) (aHi / B) _ _ hB2 (by omega)
    hd0 hd1lt hd1 hk hk2 hlo ha1 hu haeq hs hq0 hq1

/-- `div_rem_4by2`: two chained 3-by-2 steps give the floor division of a four-word value -/
theorem div4by2_spec (W d aLo aHi : Nat) (hW : 1 ≤ W) (hd1 : 2 ^ (2 * W) ≤ 2 * d)
    (hd2 : d < 2 ^ (2 * W)) (hlo : aLo < 2 ^ (2 * W)) (hhi : aHi < d) :
    div4by2 W d (invertDoubleWord W d) aLo aHi
      = ((aLo + 2 ^ (2 * W) * aHi) / d, (aLo + 2 ^ (2 * W) * aHi) % d) := by
  have hBpos : 0 < 2 ^ W := Nat.two_pow_pos W
  have hsq : 2 ^ (2 * W) = 2 ^ W * 2 ^ W := by rw [← Nat.pow_add]; congr 1; omega
  have hdpos : 0 < d := by omega
  have hldm := Nat.div_add_mod aLo (2 ^ W)
  have ha0 := Nat.mod_lt aLo hBpos
  have ha1 : aLo / 2 ^ W < 2 ^ W := by rw [Nat.div_lt_iff_lt_mul hBpos, ← hsq]; exact hlo
  have e1 := div3by2_spec W d (aLo / 2 ^ W) aHi hW hd1 hd2 ha1 hhi
  have hr1 : (aLo / 2 ^ W + 2 ^ W * aHi) % d < d := Nat.mod_lt _ hdpos
  have e2 := div3by2_spec W d (aLo % 2 ^ W) ((aLo / 2 ^ W + 2 ^ W * aHi) % d) hW hd1 hd2 ha0 hr1
  simp only [div4by2, e1, e2]
  rw [hsq]
  have h1 := Nat.div_add_mod (aLo / 2 ^ W + 2 ^ W * aHi) d
  have h2 := Nat.div_add_mod (aLo % 2 ^ W + 2 ^ W * ((aLo / 2 ^ W + 2 ^ W * aHi) % d)) d
  have h3 := Nat.mod_lt (aLo % 2 ^ W + 2 ^ W * ((aLo / 2 ^ W + 2 ^ W * aHi) % d)) hdpos
  generalize 2 ^ W = B at *
  generalize (aLo / B + B * aHi) / d = q1 at *
  generalize (aLo / B + B * aHi) % d = r1 at *
  generalize (aLo % B + B * r1) / d = q0 at *
  generalize (aLo % B + B * r1) % d = r0 at *
  apply div_mod_of_eq' hdpos
  · have e3 : B * (d * q1 + r1) = B * (aLo / B + B * aHi) := by rw [h1]
    have e4 : aLo = aLo % B + B * (aLo / B) := by omega
    nlinarith
  · exact h3

end Dashu.Model.NumModular
