import Dashu.Model.Int.Pow
import Dashu.Proofs.Int.Ops
/-
  Refinement of `integer/src/pow.rs` (as mirrored in `Model/Int/Pow.lean`) to `base ^ exp`.
-/
namespace Dashu.Model

-- ------------------------------------------------------------------ bit_len / trailing_zeros

theorem div_two_pow_log2 (n : Nat) (h : n ≠ 0) : n / 2 ^ Nat.log2 n = 1 := by
  have hle : 2 ^ n.log2 ≤ n := Nat.log2_self_le h
  have hlt : n < 2 ^ (n.log2 + 1) := Nat.lt_log2_self
  have hpk : 0 < 2 ^ n.log2 := Nat.two_pow_pos _
  have hlo : 1 ≤ n / 2 ^ n.log2 := (Nat.one_le_div_iff hpk).mpr hle
  have hhi : n / 2 ^ n.log2 < 2 := by
    rw [Nat.div_lt_iff_lt_mul hpk, Nat.mul_comm, ← Nat.pow_succ]; exact hlt
  omega

theorem bitLen_ge_two (n : Nat) (h : 2 ≤ n) : 2 ≤ bitLen n := by
  unfold bitLen
  rw [if_neg (by omega)]
  have : 1 ≤ Nat.log2 n := by
    rw [Nat.le_log2 (by omega)]; simpa using h
  omega

/-- the starting bit index of the binary loop: the bit just below the leading one -/
theorem bitLen_start (n : Nat) (h : 2 ≤ n) : n / 2 ^ (bitLen n - 2 + 1) = 1 := by
  have h2 := bitLen_ge_two n h
  have : bitLen n - 2 + 1 = Nat.log2 n := by
    unfold bitLen at h2 ⊢
    rw [if_neg (by omega)] at h2 ⊢
    omega
  rw [this]; exact div_two_pow_log2 n (by omega)

theorem trailingZeros_zero : trailingZeros 0 = 0 := by
  rw [trailingZeros]; simp

theorem trailingZeros_odd (n : Nat) (h : n % 2 = 1) : trailingZeros n = 0 := by
  rw [trailingZeros]
  have : n ≠ 0 := by intro e; subst e; simp at h
  simp [this, h]

theorem trailingZeros_even (n : Nat) (h0 : n ≠ 0) (h : n % 2 = 0) :
    trailingZeros n = 1 + trailingZeros (n / 2) := by
  rw [trailingZeros]
  have : ¬ n % 2 = 1 := by omega
  simp [h0, this]

/-- `2^(trailing_zeros n)` divides `n` exactly -/
theorem trailingZeros_spec (n : Nat) : n / 2 ^ trailingZeros n * 2 ^ trailingZeros n = n := by
  induction n using Nat.strongRecOn with
  | _ n ih =>
    by_cases h0 : n = 0
    · subst h0; simp
    · by_cases hodd : n % 2 = 1
      · rw [trailingZeros_odd n hodd]; simp
      · have hev : n % 2 = 0 := by omega
        rw [trailingZeros_even n h0 hev]
        have hlt : n / 2 < n := Nat.div_lt_self (Nat.pos_of_ne_zero h0) (by decide)
        have hi := ih (n / 2) hlt
        have h2 : n = 2 * (n / 2) := by omega
        rw [Nat.pow_add, Nat.pow_one, ← Nat.div_div_eq_div_mul]
        calc n / 2 / 2 ^ trailingZeros (n / 2) * (2 * 2 ^ trailingZeros (n / 2))
            = 2 * (n / 2 / 2 ^ trailingZeros (n / 2) * 2 ^ trailingZeros (n / 2)) := by ring
          _ = 2 * (n / 2) := by rw [hi]
          _ = n := h2.symm

theorem trailingZeros_two_pow (k : Nat) : trailingZeros (2 ^ k) = k := by
  induction k with
  | zero => exact trailingZeros_odd 1 (by decide)
  | succ k ih =>
    have hne : 2 ^ (k + 1) ≠ 0 := Nat.pos_iff_ne_zero.mp (Nat.two_pow_pos _)
    have hev : 2 ^ (k + 1) % 2 = 0 := by rw [Nat.pow_succ]; exact Nat.mul_mod_left _ _
    rw [trailingZeros_even _ hne hev]
    have : 2 ^ (k + 1) / 2 = 2 ^ k := by
      rw [Nat.pow_succ]; exact Nat.mul_div_cancel _ (by decide)
    rw [this, ih]; omega

-- ------------------------------------------------------------------ max_exp_in_word

theorem maxExpLoop_spec (W base : Nat) : ∀ (fuel e p : Nat), p = base ^ e → p < 2 ^ W →
    (maxExpLoop W base fuel e p).2 = base ^ (maxExpLoop W base fuel e p).1 ∧
    e ≤ (maxExpLoop W base fuel e p).1 ∧ (maxExpLoop W base fuel e p).2 < 2 ^ W := by
  intro fuel
  induction fuel with
  | zero => intro e p hp hlt; simp [maxExpLoop, hp, hlt]; rw [← hp]; exact hlt
  | succ fuel ih =>
    intro e p hp hlt
    simp only [maxExpLoop]
    split
    · rename_i hmul
      obtain ⟨i1, i2, i3⟩ := ih (e + 1) (p * base) (by rw [hp, Nat.pow_succ]) hmul
      exact ⟨i1, by omega, i3⟩
    · exact ⟨hp, Nat.le_refl _, hlt⟩

/-- `max_exp_in_word(base)` returns `(k, base^k)` with `k ≥ 1` and `base^k` a word -/
theorem maxExpInWord_spec (W base : Nat) (hb : 2 < base) (hlt : base < 2 ^ W) :
    (maxExpInWord W base).2 = base ^ (maxExpInWord W base).1 ∧ 1 ≤ (maxExpInWord W base).1 ∧
    (maxExpInWord W base).2 < 2 ^ W := by
  unfold maxExpInWord
  split
  · simp [hlt]
  · have hne : base ≠ 0 := by omega
    have hbl : bitLen base = Nat.log2 base + 1 := by unfold bitLen; rw [if_neg hne]
    have hlog : Nat.log2 base < W := (Nat.log2_lt hne).mpr hlt
    have hblW : bitLen base ≤ W := by omega
    have hblpos : 0 < bitLen base := by omega
    have he0 : 1 ≤ W / bitLen base := Nat.div_pos hblW hblpos
    have hbase : base < 2 ^ bitLen base := by rw [hbl]; exact Nat.lt_log2_self
    have hp0 : base ^ (W / bitLen base) < 2 ^ W := by
      calc base ^ (W / bitLen base) < (2 ^ bitLen base) ^ (W / bitLen base) :=
            Nat.pow_lt_pow_left hbase (by omega)
        _ = 2 ^ (bitLen base * (W / bitLen base)) := by rw [Nat.pow_mul]
        _ ≤ 2 ^ W := Nat.pow_le_pow_right (by omega) (Nat.mul_div_le _ _)
    obtain ⟨i1, i2, i3⟩ := maxExpLoop_spec W base W (W / bitLen base) _ rfl hp0
    exact ⟨i1, Nat.le_trans he0 i2, i3⟩

-- ------------------------------------------------------------------ the binary loop

theorem powLoop_spec {α : Type} (v : α → Nat) (Inv : α → Prop) (mulBase sqr : α → α) (b : Nat)
    (hm : ∀ r, Inv r → v (mulBase r) = v r * b ∧ Inv (mulBase r))
    (hs : ∀ r, Inv r → v (sqr r) = v r * v r ∧ Inv (sqr r)) (exp : Nat) :
    ∀ (p : Nat) (res : α), Inv res → v res = b ^ (2 * (exp / 2 ^ (p + 1))) →
      v (powLoop mulBase sqr exp p res) = b ^ exp ∧ Inv (powLoop mulBase sqr exp p res) := by
  intro p
  induction p with
  | zero =>
    intro res hi hv
    simp only [powLoop]
    have hdm := Nat.div_add_mod exp 2
    simp only [Nat.zero_add, Nat.pow_one] at hv
    split
    · rename_i hodd
      obtain ⟨m1, m2⟩ := hm res hi
      refine ⟨?_, m2⟩
      rw [m1, hv, ← Nat.pow_succ]; congr 1; omega
    · rename_i hodd
      refine ⟨?_, hi⟩
      rw [hv]; congr 1; omega
  | succ p ih =>
    intro res hi hv
    simp only [powLoop]
    have hdd : exp / 2 ^ (p + 1) / 2 = exp / 2 ^ (p + 1 + 1) := by
      rw [Nat.div_div_eq_div_mul, ← Nat.pow_succ]
    have hdm := Nat.div_add_mod (exp / 2 ^ (p + 1)) 2
    rw [hdd] at hdm
    -- after the conditional multiplication the accumulator is b^(exp >> (p+1))
    have hstep : ∀ r1, Inv r1 → v r1 = b ^ (exp / 2 ^ (p + 1)) →
        v (powLoop mulBase sqr exp p (sqr r1)) = b ^ exp ∧
        Inv (powLoop mulBase sqr exp p (sqr r1)) := by
      intro r1 h1 hv1
      obtain ⟨s1, s2⟩ := hs r1 h1
      apply ih (sqr r1) s2
      rw [s1, hv1, ← Nat.pow_add]; congr 1; omega
    split
    · rename_i hbit
      obtain ⟨m1, m2⟩ := hm res hi
      apply hstep _ m2
      rw [m1, hv, ← Nat.pow_succ]; congr 1; omega
    · rename_i hbit
      apply hstep _ hi
      rw [hv]; congr 1; omega

/-- the loop as started by the three `pow_*_base` functions: accumulator `b²`, bit `bit_len − 2` -/
theorem powLoop_start {α : Type} (v : α → Nat) (Inv : α → Prop) (mulBase sqr : α → α) (b : Nat)
    (hm : ∀ r, Inv r → v (mulBase r) = v r * b ∧ Inv (mulBase r))
    (hs : ∀ r, Inv r → v (sqr r) = v r * v r ∧ Inv (sqr r)) (exp : Nat) (hexp : 2 ≤ exp)
    (init : α) (hi : Inv init) (hv : v init = b * b) :
    v (powLoop mulBase sqr exp (bitLen exp - 2) init) = b ^ exp ∧
    Inv (powLoop mulBase sqr exp (bitLen exp - 2) init) := by
  apply powLoop_spec v Inv mulBase sqr b hm hs exp _ init hi
  rw [bitLen_start exp hexp, hv, Nat.mul_one, Nat.pow_two]

-- ------------------------------------------------------------------ pow_word_base / pow_dword_base

theorem powLoop_nat (b exp : Nat) (hexp : 2 ≤ exp) :
    powLoop (· * b) (fun x => x * x) exp (bitLen exp - 2) (b * b) = b ^ exp :=
  (powLoop_start (fun x => x) (fun _ => True) (· * b) (fun x => x * x) b
    (fun _ _ => ⟨rfl, trivial⟩) (fun _ _ => ⟨rfl, trivial⟩) exp hexp (b * b) trivial rfl).1

theorem powDwordBase_spec (base exp : Nat) (hexp : 2 ≤ exp) : powDwordBase base exp = base ^ exp :=
  powLoop_nat base exp hexp

theorem powWordBase_spec (W base exp : Nat) (hb : base < 2 ^ W) (hexp : exp ≠ 0) :
    powWordBase W base exp = base ^ exp := by
  unfold powWordBase
  split
  · rename_i h; subst h; exact (Nat.zero_pow (Nat.pos_of_ne_zero hexp)).symm
  · split
    · rename_i _ h; subst h; exact (Nat.one_pow _).symm
    · split
      · rename_i _ _ h; subst h; rfl
      · split
        · rename_i _ _ _ hp
          have he := isPow2_eq base hp
          have htz : trailingZeros base = Nat.log2 base := by
            conv => lhs; rw [he]
            exact trailingZeros_two_pow _
          rw [htz]
          conv => rhs; rw [he]
          rw [← Nat.pow_mul, Nat.mul_comm]
        · rename_i h0 h1 h2 _
          obtain ⟨m1, m2, m3⟩ := maxExpInWord_spec W base (by omega) hb
          generalize maxExpInWord W base = res at m1 m2 m3
          obtain ⟨wexp, wbase⟩ := res
          simp only at m1 m2 m3 ⊢
          split
          · rfl
          · split
            · rename_i hge hlt
              rw [m1, ← Nat.pow_add]; congr 1; omega
            · rename_i hge hge2
              have he2 : 2 ≤ exp / wexp := by
                rw [Nat.le_div_iff_mul_le (by omega)]; omega
              rw [powLoop_nat wbase (exp / wexp) he2, m1, ← Nat.pow_mul, ← Nat.pow_add]
              congr 1
              exact Nat.div_add_mod exp wexp

-- ------------------------------------------------------------------ pow_large_base / TypedReprRef::pow

theorem powLargeBase_spec (W : Nat) (hW : 4 ≤ W) (base : List Nat) (exp : Nat)
    (hb : (TRepr.large base).Canon W) (hexp : 2 ≤ exp) :
    (powLargeBase W base exp).value W = val W base ^ exp ∧ (powLargeBase W base exp).Canon W := by
  have hsq := TRepr.sqr_spec W hW (.large base) hb
  exact powLoop_start (TRepr.value W) (TRepr.Canon W) (fun r => r.mul W (.large base))
    (fun r => r.sqr W) (val W base)
    (fun r hr => TRepr.mul_spec W hW r (.large base) hr hb)
    (fun r hr => TRepr.sqr_spec W hW r hr) exp hexp _ hsq.2 hsq.1

theorem TRepr.pow_spec (W : Nat) (hW : 4 ≤ W) (a : TRepr) (exp : Nat) (ha : a.Canon W) :
    (a.pow W exp).value W = a.value W ^ exp ∧ (a.pow W exp).Canon W := by
  unfold TRepr.pow
  split
  · rename_i h; subst h
    refine ⟨by simp, ?_⟩
    show 1 < 2 ^ (2 * W)
    exact Nat.one_lt_two_pow (by omega)
  · split
    · rename_i _ h; subst h; exact ⟨by simp, ha⟩
    · split
      · rename_i _ _ h; subst h
        have hs := TRepr.sqr_spec W hW a ha
        exact ⟨by rw [hs.1, Nat.pow_two], hs.2⟩
      · rename_i h0 h1 h2
        have hexp : 2 ≤ exp := by omega
        cases a with
        | small d =>
          simp only [TRepr.value_small]
          split
          · rename_i hd
            rw [powWordBase_spec W d exp hd h0]
            exact ⟨ofNat_value W (by omega) _, ofNat_canon W (by omega) _⟩
          · rw [powDwordBase_spec d exp hexp]
            exact ⟨ofNat_value W (by omega) _, ofNat_canon W (by omega) _⟩
        | large ws => exact powLargeBase_spec W hW ws exp ha hexp

-- ------------------------------------------------------------------ UBig::pow / IBig::pow

theorem ubigPow_spec (W : Nat) (hW : 4 ≤ W) (a : TRepr) (exp : Nat) (ha : a.Canon W) :
    (ubigPow W a exp).value W = a.value W ^ exp ∧ (ubigPow W a exp).Canon W := by
  unfold ubigPow
  simp only
  split
  · refine ⟨?_, ofNat_canon W (by omega) _⟩
    have hodd := TRepr.pow_spec W hW (ofNat W (a.value W / 2 ^ trailingZeros (a.value W))) exp
      (ofNat_canon W (by omega) _)
    rw [ofNat_value W (by omega), hodd.1, ofNat_value W (by omega)]
    have hs := trailingZeros_spec (a.value W)
    generalize trailingZeros (a.value W) = s at *
    generalize a.value W = n at *
    rw [Nat.mul_comm exp s, Nat.pow_mul, ← Nat.mul_pow, hs]
  · exact TRepr.pow_spec W hW a exp ha

theorem neg_pow_int (m : Int) (exp : Nat) :
    (-m) ^ exp = if exp % 2 = 1 then -(m ^ exp) else m ^ exp := by
  have hdm := Nat.div_add_mod exp 2
  split
  · rename_i h
    have : exp = 2 * (exp / 2) + 1 := by omega
    rw [this, pow_succ, pow_succ, pow_mul, pow_mul, neg_sq]; ring
  · rename_i h
    have : exp = 2 * (exp / 2) := by omega
    rw [this, pow_mul, pow_mul, neg_sq]

theorem ibigPow_spec (W : Nat) (hW : 4 ≤ W) (a : SRepr) (exp : Nat) (ha : a.WF W) :
    (ibigPow W a exp).value W = a.value W ^ exp ∧ (ibigPow W a exp).WF W := by
  obtain ⟨an, am⟩ := a
  have hu := ubigPow_spec W hW am exp ha.1
  refine ⟨?_, withSign_wf W _ _ hu.2⟩
  simp only [ibigPow, SRepr.value_mk]
  rw [withSign_value, hu.1]
  cases an with
  | false => simp
  | true =>
    simp only [Bool.true_and, if_true]
    rw [neg_pow_int]
    by_cases h : exp % 2 = 1 <;> simp [h]

/-- the sign of `IBig::pow`: negative iff the base is negative and the exponent is odd -/
theorem ibigPow_neg_iff (W : Nat) (hW : 4 ≤ W) (a : SRepr) (exp : Nat) (ha : a.WF W) :
    (ibigPow W a exp).value W < 0 ↔ (a.value W < 0 ∧ exp % 2 = 1) := by
  obtain ⟨an, am⟩ := a
  have hu := ubigPow_spec W hW am exp ha.1
  simp only [ibigPow, SRepr.value_mk]
  rw [withSign_value, hu.1]
  cases an with
  | false =>
    simp only [Bool.false_and, Bool.false_eq_true, if_false]
    constructor
    · intro h; exfalso; have : (0 : Int) ≤ ((am.value W ^ exp : Nat) : Int) := Int.natCast_nonneg _; omega
    · intro h; exfalso; have : (0 : Int) ≤ ((am.value W : Nat) : Int) := Int.natCast_nonneg _; omega
  | true =>
    have hm : am.value W ≠ 0 := ha.2 rfl
    have hpos : 0 < am.value W ^ exp := Nat.pos_of_ne_zero (pow_ne_zero _ hm)
    generalize am.value W ^ exp = q at hpos
    generalize am.value W = m at hm
    by_cases h : exp % 2 = 1
    · simp [h]; omega
    · simp [h]

/-- when `exp * shift` does not fit `usize` the exact result has more than `2^64` bits -/
theorem powShiftOverflows_huge (n exp : Nat) (h : powShiftOverflows n exp = true) :
    2 ^ (2 ^ usizeBits) ≤ n ^ exp := by
  simp only [powShiftOverflows, Bool.and_eq_true, bne_iff_ne, ne_eq, decide_eq_true_eq] at h
  obtain ⟨hs, hov⟩ := h
  have hspec := trailingZeros_spec n
  have hn : n ≠ 0 := by
    intro e; subst e; exact hs trailingZeros_zero
  generalize trailingZeros n = s at *
  have hq : 1 ≤ n / 2 ^ s := by
    rcases Nat.eq_zero_or_pos (n / 2 ^ s) with h0 | h0
    · rw [h0, Nat.zero_mul] at hspec; exact absurd hspec.symm hn
    · exact h0
  have hge : 2 ^ s ≤ n := by
    calc 2 ^ s = 1 * 2 ^ s := (Nat.one_mul _).symm
      _ ≤ n / 2 ^ s * 2 ^ s := Nat.mul_le_mul_right _ hq
      _ = n := hspec
  calc 2 ^ (2 ^ usizeBits) ≤ 2 ^ (exp * s) := Nat.pow_le_pow_right (by omega) hov
    _ = (2 ^ s) ^ exp := by rw [Nat.mul_comm, Nat.pow_mul]
    _ ≤ n ^ exp := Nat.pow_le_pow_left hge _

theorem powShiftOverflows_witness : powShiftOverflows 4 (2 ^ 63) = true := by
  have h : trailingZeros 4 = 2 := trailingZeros_two_pow 2
  simp only [powShiftOverflows, h, usizeBits]
  decide

end Dashu.Model
