import Dashu.Model.Int.Ops
import Dashu.Proofs.Int.Repr
import Dashu.Proofs.Int.Mul
import Dashu.Proofs.Int.MulPrim
/-
  Refinement of the operator layer (`add_ops.rs` / `mul_ops.rs` sign tables composed with the
  dispatch layer) and of multiplication by a word / double word (`mul/mod.rs`, `shift.rs`,
  `mul_ops.rs mod repr`) to arithmetic on `Int` / `Nat`, for every word size `W ≥ 1`.
-/
namespace Dashu.Model

-- ------------------------------------------------------------------ into_sign_repr

theorem SRepr.ofInt_value (W : Nat) (hW : 1 ≤ W) (i : Int) : (SRepr.ofInt W i).value W = i := by
  unfold SRepr.ofInt SRepr.value
  simp only [ofNat_value W hW]
  by_cases h : i < 0
  · simp only [h, decide_true, if_true]; omega
  · simp only [h, decide_false]; simp <;> omega

theorem SRepr.ofInt_wf (W : Nat) (hW : 1 ≤ W) (i : Int) : (SRepr.ofInt W i).WF W := by
  refine ⟨ofNat_canon W hW _, ?_⟩
  intro h
  simp only [SRepr.ofInt, decide_eq_true_eq] at h
  simp only [SRepr.ofInt, ofNat_value W hW]
  omega

theorem SRepr.mk_ofNat_wf (W : Nat) (hW : 1 ≤ W) (n : Nat) : (SRepr.mk false (ofNat W n)).WF W :=
  ⟨ofNat_canon W hW n, by simp⟩

theorem SRepr.mk_ofNat_value (W : Nat) (hW : 1 ≤ W) (n : Nat) :
    (SRepr.mk false (ofNat W n)).value W = n := by
  simp only [SRepr.value, Dashu.Model.ofNat_value W hW]; simp

-- ------------------------------------------------------------------ impl_ibig_add / impl_ibig_sub

theorem SRepr.value_mk (W : Nat) (n : Bool) (m : TRepr) :
    (SRepr.mk n m).value W = if n then -(m.value W : Int) else (m.value W : Int) := rfl

theorem ibigAdd_spec (W : Nat) (hW : 1 ≤ W) (a b : SRepr) (form : Nat) (ha : a.WF W)
    (hb : b.WF W) :
    (ibigAdd W a b form).value W = a.value W + b.value W ∧ (ibigAdd W a b form).WF W := by
  obtain ⟨an, am⟩ := a
  obtain ⟨bn, bm⟩ := b
  have hac : am.Canon W := ha.1
  have hbc : bm.Canon W := hb.1
  have hadd := TRepr.add_spec W hW am bm form hac hbc
  have hs := TRepr.subSigned_spec W am bm form hac hbc
  have hs' := TRepr.subSigned_spec W bm am
    (if form = 1 then 2 else if form = 2 then 1 else 0) hbc hac
  cases an <;> cases bn <;> simp only [ibigAdd, SRepr.value_mk]
  · refine ⟨?_, withSign_wf W _ _ hadd.2⟩
    rw [withSign_value, hadd.1]; simp
  · refine ⟨?_, hs.2⟩
    rw [hs.1]; simp <;> omega
  · refine ⟨?_, hs'.2⟩
    rw [hs'.1]; simp <;> omega
  · refine ⟨?_, withSign_wf W _ _ hadd.2⟩
    rw [withSign_value, hadd.1]; simp <;> omega

theorem ibigSub_spec (W : Nat) (hW : 1 ≤ W) (a b : SRepr) (form : Nat) (ha : a.WF W)
    (hb : b.WF W) :
    (ibigSub W a b form).value W = a.value W - b.value W ∧ (ibigSub W a b form).WF W := by
  obtain ⟨an, am⟩ := a
  obtain ⟨bn, bm⟩ := b
  have hac : am.Canon W := ha.1
  have hbc : bm.Canon W := hb.1
  have hadd := TRepr.add_spec W hW am bm form hac hbc
  have hs := TRepr.subSigned_spec W am bm form hac hbc
  have hs' := TRepr.subSigned_spec W bm am
    (if form = 1 then 2 else if form = 2 then 1 else 0) hbc hac
  cases an <;> cases bn <;> simp only [ibigSub, SRepr.value_mk]
  · refine ⟨?_, hs.2⟩
    rw [hs.1]; simp
  · refine ⟨?_, withSign_wf W _ _ hadd.2⟩
    rw [withSign_value, hadd.1]; simp
  · refine ⟨?_, withSign_wf W _ _ hadd.2⟩
    rw [withSign_value, hadd.1]; simp <;> omega
  · refine ⟨?_, hs'.2⟩
    rw [hs'.1]; simp <;> omega

-- ------------------------------------------------------------------ shl_in_place

/-- one word shifted left: the low part is a multiple of `2^s`, so OR-ing a carry `< 2^s` adds it -/
theorem shl_word_step (W a s c : Nat) (hs : s ≤ W) (hc : c < 2 ^ s) :
    ((a * 2 ^ s) % 2 ^ W) ||| c = (a * 2 ^ s + c) % 2 ^ W ∧
    (a * 2 ^ s) / 2 ^ W = (a * 2 ^ s + c) / 2 ^ W := by
  have hps : 0 < 2 ^ s := Nat.two_pow_pos s
  have hsplit : 2 ^ W = 2 ^ s * 2 ^ (W - s) := by rw [← Nat.pow_add]; congr 1; omega
  have hpd : 0 < 2 ^ (W - s) := Nat.two_pow_pos _
  have hm : (a * 2 ^ s) % 2 ^ W = 2 ^ s * (a % 2 ^ (W - s)) := by
    rw [hsplit, Nat.mul_comm a, Nat.mul_mod_mul_left]
  have hk : a % 2 ^ (W - s) < 2 ^ (W - s) := Nat.mod_lt _ hpd
  have hlt : 2 ^ s * (a % 2 ^ (W - s)) + c < 2 ^ W := by
    rw [hsplit]
    have := Nat.mul_le_mul_left (2 ^ s) (show a % 2 ^ (W - s) + 1 ≤ 2 ^ (W - s) from hk)
    rw [Nat.mul_add, Nat.mul_one] at this
    omega
  have hdm := Nat.div_add_mod (a * 2 ^ s) (2 ^ W)
  -- a*2^s + c = 2^W * q + (2^s*k + c) with the remainder < 2^W
  have hdiv : (a * 2 ^ s + c) / 2 ^ W = (a * 2 ^ s) / 2 ^ W := by
    have : a * 2 ^ s + c = (2 ^ s * (a % 2 ^ (W - s)) + c) + 2 ^ W * ((a * 2 ^ s) / 2 ^ W) := by
      rw [← hm]; omega
    rw [this, Nat.add_mul_div_left _ _ (Nat.two_pow_pos W), Nat.div_eq_of_lt hlt, Nat.zero_add]
  have hmod : (a * 2 ^ s + c) % 2 ^ W = 2 ^ s * (a % 2 ^ (W - s)) + c := by
    have : a * 2 ^ s + c = (2 ^ s * (a % 2 ^ (W - s)) + c) + 2 ^ W * ((a * 2 ^ s) / 2 ^ W) := by
      rw [← hm]; omega
    rw [this, Nat.add_mul_mod_self_left, Nat.mod_eq_of_lt hlt]
  refine ⟨?_, hdiv.symm⟩
  rw [hmod, hm]
  exact (Nat.two_pow_add_eq_or_of_lt hc _).symm

theorem shlInPlace_eq_mulWord (W : Nat) (ws : List Nat) (s c : Nat) (hw : IsWords W ws)
    (hs : s ≤ W) (hc : c < 2 ^ s) :
    shlInPlace W ws s c = mulWordInPlace W ws (2 ^ s) c := by
  induction ws generalizing c with
  | nil => simp [shlInPlace, mulWordInPlace]
  | cons a as ih =>
    have hp : 0 < 2 ^ W := Nat.two_pow_pos W
    have ha := hw.head
    obtain ⟨h1, h2⟩ := shl_word_step W a s c hs hc
    have hq : (a * 2 ^ s) / 2 ^ W < 2 ^ s := by
      rw [Nat.div_lt_iff_lt_mul hp]
      exact Nat.mul_lt_mul_of_pos_right ha (Nat.two_pow_pos s) |>.trans_le (Nat.le_of_eq (Nat.mul_comm _ _))
    simp only [shlInPlace, mulWordInPlace]
    rw [h1, ih _ hw.tail hq, h2]

-- ------------------------------------------------------------------ is_power_of_two

theorem isPow2_eq (n : Nat) (h : isPow2 n = true) : n = 2 ^ Nat.log2 n := by
  simp only [isPow2, Bool.and_eq_true, decide_eq_true_eq, bne_iff_ne, ne_eq] at h
  obtain ⟨hn, hand⟩ := h
  have hle : 2 ^ n.log2 ≤ n := Nat.log2_self_le hn
  have hlt : n < 2 ^ (n.log2 + 1) := Nat.lt_log2_self
  rcases Nat.eq_or_lt_of_le hle with heq | hgt
  · exact heq.symm
  · exfalso
    have hpk : 0 < 2 ^ n.log2 := Nat.two_pow_pos _
    have hdiv : ∀ m, 2 ^ n.log2 ≤ m → m < 2 ^ (n.log2 + 1) → m.testBit n.log2 = true := by
      intro m h1 h2
      rw [Nat.testBit_eq_decide_div_mod_eq]
      have hq : m / 2 ^ n.log2 = 1 := by
        have hlo : 1 ≤ m / 2 ^ n.log2 := (Nat.one_le_div_iff hpk).mpr h1
        have hhi : m / 2 ^ n.log2 < 2 := by
          rw [Nat.div_lt_iff_lt_mul hpk, Nat.mul_comm, ← Nat.pow_succ]; exact h2
        omega
      simp [hq]
    have t1 := hdiv n hle hlt
    have t2 := hdiv (n - 1) (by omega) (by omega)
    have t3 : (n &&& (n - 1)).testBit n.log2 = true := by rw [Nat.testBit_and, t1, t2]; rfl
    rw [hand] at t3
    simp at t3

-- ------------------------------------------------------------------ mul_dword_in_place

theorem mul_add_lt_sq' {B a b c : Nat} (hB : 0 < B) (ha : a < B) (hb : b < B) (hc : c < B) :
    (a * b + c) / B < B := (Nat.div_lt_iff_lt_mul hB).mpr (mul_add_lt_sq ha hb hc)

theorem mulDwordInPlace_spec (W : Nat) (rhs : Nat) (hr : rhs < 2 ^ (2 * W)) :
    ∀ (n : Nat) (ws : List Nat) (c : Nat), ws.length = n → IsWords W ws → c < 2 ^ (2 * W) →
    val W (mulDwordInPlace W ws rhs c).1 + 2 ^ (W * ws.length) * (mulDwordInPlace W ws rhs c).2
      = val W ws * rhs + c ∧
    (mulDwordInPlace W ws rhs c).1.length = ws.length ∧ IsWords W (mulDwordInPlace W ws rhs c).1 ∧
    (mulDwordInPlace W ws rhs c).2 < 2 ^ (2 * W) := by
  have hp : 0 < 2 ^ W := Nat.two_pow_pos W
  have hsq := two_pow_two_mul W
  have hpp : 0 < 2 ^ (2 * W) := Nat.two_pow_pos _
  intro n
  induction n using Nat.strongRecOn with
  | _ n ih =>
    intro ws c hlen hw hc
    match ws, hlen, hw with
    | [], _, _ => simp [mulDwordInPlace, IsWords.nil, hc]
    | [r0], _, hw =>
      have hr0 := hw.head
      have hmlo : rhs % 2 ^ W < 2 ^ W := Nat.mod_lt _ hp
      have hmhi : rhs / 2 ^ W < 2 ^ W := by rw [Nat.div_lt_iff_lt_mul hp, ← hsq]; exact hr
      have hclo : c % 2 ^ W < 2 ^ W := Nat.mod_lt _ hp
      have hchi : c / 2 ^ W < 2 ^ W := by rw [Nat.div_lt_iff_lt_mul hp, ← hsq]; exact hc
      have hrhs := Nat.div_add_mod rhs (2 ^ W)
      have hcc := Nat.div_add_mod c (2 ^ W)
      simp only [mulDwordInPlace, val_cons, val_nil, List.length_cons, List.length_nil,
        Nat.mul_zero, Nat.add_zero, Nat.zero_add, Nat.mul_one]
      generalize rhs % 2 ^ W = mlo at *
      generalize rhs / 2 ^ W = mhi at *
      generalize c % 2 ^ W = clo at *
      generalize c / 2 ^ W = chi at *
      have hv0 : (r0 * mlo + clo) / 2 ^ W < 2 ^ W := mul_add_lt_sq' hp hr0 hmlo hclo
      have hdm0 := Nat.div_add_mod (r0 * mlo + clo) (2 ^ W)
      have hm0 : (r0 * mlo + clo) % 2 ^ W < 2 ^ W := Nat.mod_lt _ hp
      generalize (r0 * mlo + clo) / 2 ^ W = q0 at *
      generalize (r0 * mlo + clo) % 2 ^ W = m0 at *
      have hdm1 := Nat.div_add_mod (r0 * mhi + q0 + chi) (2 ^ W)
      have hv1 : r0 * mhi + q0 + chi < 2 ^ W * 2 ^ W := mul_add_add_lt_sq hr0 hmhi hv0 hchi
      have hcarry : (r0 * mhi + q0 + chi) % 2 ^ W + 2 ^ W * ((r0 * mhi + q0 + chi) / 2 ^ W)
          = r0 * mhi + q0 + chi := by omega
      rw [hcarry]
      refine ⟨?_, trivial, IsWords.cons hm0 (IsWords.nil W), by rw [hsq]; exact hv1⟩
      have e1 : r0 * rhs = r0 * (2 ^ W * mhi + mlo) := by rw [hrhs]
      have e2 : 2 ^ W * (r0 * mhi + q0 + chi) = 2 ^ W * (r0 * mhi) + 2 ^ W * q0 + 2 ^ W * chi := by
        ring
      have e3 : r0 * (2 ^ W * mhi + mlo) = 2 ^ W * (r0 * mhi) + r0 * mlo := by ring
      omega
    | lo :: hi :: rest, hlen, hw =>
      have hlo := hw.head
      have hhi := hw.tail.head
      have hd : lo + 2 ^ W * hi < 2 ^ (2 * W) := by
        rw [hsq]
        have := Nat.mul_le_mul_left (2 ^ W) (show hi + 1 ≤ 2 ^ W from hhi)
        rw [Nat.mul_add, Nat.mul_one] at this
        omega
      have hv : (lo + 2 ^ W * hi) * rhs + c < 2 ^ (2 * W) * 2 ^ (2 * W) := mul_add_lt_sq hd hr hc
      have hq : ((lo + 2 ^ W * hi) * rhs + c) / 2 ^ (2 * W) < 2 ^ (2 * W) :=
        (Nat.div_lt_iff_lt_mul hpp).mpr hv
      have hdm := Nat.div_add_mod ((lo + 2 ^ W * hi) * rhs + c) (2 ^ (2 * W))
      have hpm : ((lo + 2 ^ W * hi) * rhs + c) % 2 ^ (2 * W) < 2 ^ (2 * W) := Nat.mod_lt _ hpp
      have hlen' : rest.length < n := by simp at hlen; omega
      obtain ⟨i1, i2, i3, i4⟩ := ih rest.length hlen' rest
        (((lo + 2 ^ W * hi) * rhs + c) / 2 ^ (2 * W)) rfl hw.tail.tail hq
      simp only [mulDwordInPlace, val_cons, List.length_cons]
      generalize ((lo + 2 ^ W * hi) * rhs + c) / 2 ^ (2 * W) = q at *
      generalize ((lo + 2 ^ W * hi) * rhs + c) % 2 ^ (2 * W) = p at *
      generalize mulDwordInPlace W rest rhs q = res at i1 i2 i3 i4
      obtain ⟨r, c'⟩ := res
      simp only at i1 i2 i3 i4 ⊢
      have hp1 : p / 2 ^ W < 2 ^ W := by rw [Nat.div_lt_iff_lt_mul hp, ← hsq]; exact hpm
      have hpdm := Nat.div_add_mod p (2 ^ W)
      refine ⟨?_, by simp [i2], IsWords.cons (Nat.mod_lt _ hp) (IsWords.cons hp1 i3), i4⟩
      rw [pow_mul_succ, pow_mul_succ]
      have e : 2 ^ W * 2 ^ W * (val W r + 2 ^ (W * rest.length) * c')
          = 2 ^ W * 2 ^ W * (val W rest * rhs + q) := by rw [i1]
      rw [hsq] at hdm
      linarith

-- ------------------------------------------------------------------ mul_dword / mul_large_dword

theorem val_four (W a b c d : Nat) :
    val W [a, b, c, d] = a + 2 ^ W * b + 2 ^ W * 2 ^ W * (c + 2 ^ W * d) := by
  simp only [val_cons, val_nil]; ring

/-- the four words of a product of two double words (`mul_dword_spilled`, `square_dword_spilled`) -/
theorem spill_spec (W p : Nat) (hp4 : p < 2 ^ (2 * W) * 2 ^ (2 * W)) :
    val W [p % 2 ^ (2 * W) % 2 ^ W, p % 2 ^ (2 * W) / 2 ^ W,
           p / 2 ^ (2 * W) % 2 ^ W, p / 2 ^ (2 * W) / 2 ^ W] = p ∧
    IsWords W [p % 2 ^ (2 * W) % 2 ^ W, p % 2 ^ (2 * W) / 2 ^ W,
           p / 2 ^ (2 * W) % 2 ^ W, p / 2 ^ (2 * W) / 2 ^ W] := by
  have hp : 0 < 2 ^ W := Nat.two_pow_pos W
  have hpp : 0 < 2 ^ (2 * W) := Nat.two_pow_pos _
  have hsq := two_pow_two_mul W
  have hlo : p % 2 ^ (2 * W) < 2 ^ (2 * W) := Nat.mod_lt _ hpp
  have hhi : p / 2 ^ (2 * W) < 2 ^ (2 * W) := (Nat.div_lt_iff_lt_mul hpp).mpr hp4
  have h0 := Nat.div_add_mod p (2 ^ (2 * W))
  generalize p % 2 ^ (2 * W) = lo at *
  generalize p / 2 ^ (2 * W) = hi at *
  have h1 := Nat.div_add_mod lo (2 ^ W)
  have h2 := Nat.div_add_mod hi (2 ^ W)
  constructor
  · rw [val_four]
    rw [hsq] at h0
    have e : 2 ^ W * 2 ^ W * (2 ^ W * (hi / 2 ^ W) + hi % 2 ^ W) = 2 ^ W * 2 ^ W * hi := by rw [h2]
    linarith
  · refine IsWords.cons (Nat.mod_lt _ hp) (IsWords.cons ?_ (IsWords.cons (Nat.mod_lt _ hp)
      (IsWords.cons ?_ (IsWords.nil W))))
    · rw [Nat.div_lt_iff_lt_mul hp, ← hsq]; exact hlo
    · rw [Nat.div_lt_iff_lt_mul hp, ← hsq]; exact hhi

theorem mulDword_spec (W a b : Nat) (ha : a < 2 ^ (2 * W)) (hb : b < 2 ^ (2 * W)) :
    (mulDword W a b).value W = a * b ∧ (mulDword W a b).Canon W := by
  unfold mulDword
  split
  · rename_i h
    refine ⟨rfl, ?_⟩
    show a * b < 2 ^ (2 * W)
    rw [two_pow_two_mul]
    exact Nat.mul_lt_mul'' h.1 h.2
  · have hp4 : a * b < 2 ^ (2 * W) * 2 ^ (2 * W) := Nat.mul_lt_mul'' ha hb
    obtain ⟨h1, h2⟩ := spill_spec W (a * b) hp4
    simp only [mulAddCarryDword_eq, Nat.add_zero]
    exact ⟨by rw [fromBuffer_value]; exact h1, fromBuffer_canon W _ h2⟩

theorem mulLargeDword_spec (W : Nat) (buffer : List Nat) (rhs : Nat) (hw : IsWords W buffer)
    (hr : rhs < 2 ^ (2 * W)) :
    (mulLargeDword W buffer rhs).value W = val W buffer * rhs ∧
    (mulLargeDword W buffer rhs).Canon W := by
  have hp : 0 < 2 ^ W := Nat.two_pow_pos W
  have hsq := two_pow_two_mul W
  unfold mulLargeDword
  split
  · rename_i h0
    subst h0
    exact ⟨by simp, show 0 < 2 ^ (2 * W) from Nat.two_pow_pos _⟩
  · split
    · rename_i h1
      subst h1
      exact ⟨by rw [fromBuffer_value, Nat.mul_one], fromBuffer_canon W _ hw⟩
    · split
      · rename_i h0 h1 hlt
        -- single word: shift for powers of two, otherwise the multiply loop; both are the same map
        have hres : (if isPow2 rhs = true then shlInPlace W buffer (Nat.log2 rhs) 0
            else mulWordInPlace W buffer rhs 0) = mulWordInPlace W buffer rhs 0 := by
          split
          · rename_i hpow
            have he := isPow2_eq rhs hpow
            have hlog : Nat.log2 rhs < W := (Nat.log2_lt h0).mpr hlt
            rw [shlInPlace_eq_mulWord W buffer _ 0 hw (by omega) (Nat.two_pow_pos _), ← he]
          · rfl
        rw [hres]
        obtain ⟨s1, s2, s3, s4⟩ := mulWordInPlace_spec W buffer rhs 0 hw hlt hp
        generalize mulWordInPlace W buffer rhs 0 = res at s1 s2 s3 s4
        obtain ⟨r, carry⟩ := res
        simp only at s1 s2 s3 s4 ⊢
        refine ⟨?_, fromBuffer_canon W _ (s3.append (IsWords.cons s4 (IsWords.nil W)))⟩
        rw [fromBuffer_value, val_append, s2]
        simp only [val_cons, val_nil, Nat.mul_zero, Nat.add_zero] at s1 ⊢
        exact s1
      · obtain ⟨s1, s2, s3, s4⟩ := mulDwordInPlace_spec W rhs hr buffer.length buffer 0 rfl hw
          (Nat.two_pow_pos _)
        generalize mulDwordInPlace W buffer rhs 0 = res at s1 s2 s3 s4
        obtain ⟨r, carry⟩ := res
        simp only at s1 s2 s3 s4 ⊢
        split
        · rename_i hc0
          subst hc0
          refine ⟨?_, fromBuffer_canon W _ s3⟩
          rw [fromBuffer_value]; simpa using s1
        · have hcw := isWords_dword W carry s4
          refine ⟨?_, fromBuffer_canon W _ (s3.append hcw)⟩
          rw [fromBuffer_value, val_append, s2, val_dword]
          simpa using s1

-- ------------------------------------------------------------------ TypedRepr * TypedRepr, sqr

theorem mulLargeFrontier_spec (W : Nat) (hW : 1 ≤ W) (lhs rhs : List Nat) :
    (mulLargeFrontier W lhs rhs).value W = val W lhs * val W rhs ∧
    (mulLargeFrontier W lhs rhs).Canon W :=
  ⟨ofNat_value W hW _, ofNat_canon W hW _⟩


/-- `mul_large`: exact and canonical.  Unequal operands go through the mirrored `mul::add_signed_mul`
    (schoolbook, chunk splitting, Karatsuba refined; Toom-3 same-length kernel at the frontier) on a
    zero-filled buffer, whose `debug_assert_zero!` carry is zero; equal operands use the frontier
    squaring kernel. -/
theorem squareLarge_spec (W : Nat) (hW : 4 ≤ W) (ws : List Nat) (hw : IsWords W ws) (hne : ws ≠ []) :
    (squareLarge W ws).value W = val W ws * val W ws ∧ (squareLarge W ws).Canon W := by
  obtain ⟨h1, h2⟩ := sqrBuffer_spec W hW ws hw hne
  exact ⟨by unfold squareLarge; rw [fromBuffer_value, h1], fromBuffer_canon W _ h2⟩

theorem mulLarge_spec (W : Nat) (hW : 4 ≤ W) (lhs rhs : List Nat) (hl : IsWords W lhs)
    (hr : IsWords W rhs) :
    (mulLarge W lhs rhs).value W = val W lhs * val W rhs ∧ (mulLarge W lhs rhs).Canon W := by
  unfold mulLarge
  split
  · rename_i heq
    by_cases hnil : lhs = []
    · subst hnil; subst heq
      exact ⟨by simp [squareLarge, sqrBuffer, sqrSimple, sqrTriLoop, sqrDiagLoop, fromBuffer_value],
        fromBuffer_canon W _ (by simp [sqrBuffer, sqrSimple, sqrTriLoop, sqrDiagLoop]; exact IsWords.cons (Nat.two_pow_pos W) (IsWords.nil W))⟩
    · have := squareLarge_spec W hW lhs hl hnil
      rw [← heq]; exact this
  · have hc := addSignedMul_contract W hW (lhs.length + rhs.length)
      (List.replicate (lhs.length + rhs.length) 0) false lhs rhs (by simp)
      (isWords_replicate_zero W _) hl hr
    obtain ⟨_, h2, _, h4⟩ := upd_zero_product W (lhs.length + rhs.length) _ _ _ hc
      (mul_lt_pow_int W lhs rhs hl hr _ (Nat.le_refl _))
    exact ⟨by rw [fromBuffer_value, h2], fromBuffer_canon W _ h4⟩

/-- the carry that `mul::multiply` asserts to be zero is zero -/
theorem multiply_carry_zero (W : Nat) (hW : 4 ≤ W) (lhs rhs : List Nat) (hl : IsWords W lhs)
    (hr : IsWords W rhs) :
    (addSignedMul W (lhs.length + rhs.length) (List.replicate (lhs.length + rhs.length) 0) false
      lhs rhs).2 = 0 := by
  have hc := addSignedMul_contract W hW (lhs.length + rhs.length)
    (List.replicate (lhs.length + rhs.length) 0) false lhs rhs (by simp)
    (isWords_replicate_zero W _) hl hr
  exact (upd_zero_product W (lhs.length + rhs.length) _ _ _ hc
    (mul_lt_pow_int W lhs rhs hl hr _ (Nat.le_refl _))).1

theorem TRepr.mul_spec (W : Nat) (hW : 4 ≤ W) (a b : TRepr) (ha : a.Canon W) (hb : b.Canon W) :
    (a.mul W b).value W = a.value W * b.value W ∧ (a.mul W b).Canon W := by
  cases a with
  | small x =>
    cases b with
    | small y => exact mulDword_spec W x y ha hb
    | large ws =>
      have h := mulLargeDword_spec W ws x hb.large_words ha
      simp only [TRepr.mul, TRepr.value_small, TRepr.value_large]
      exact ⟨by rw [h.1, Nat.mul_comm], h.2⟩
  | large ws =>
    cases b with
    | small y => exact mulLargeDword_spec W ws y ha.large_words hb
    | large w1 => exact mulLarge_spec W hW ws w1 ha.large_words hb.large_words

theorem TRepr.sqr_spec (W : Nat) (hW : 4 ≤ W) (a : TRepr) (ha : a.Canon W) :
    (a.sqr W).value W = a.value W * a.value W ∧ (a.sqr W).Canon W := by
  cases a with
  | small d =>
    simp only [TRepr.sqr, TRepr.value_small]
    split
    · rename_i h
      refine ⟨rfl, ?_⟩
      show d * d < 2 ^ (2 * W)
      rw [two_pow_two_mul]; exact Nat.mul_lt_mul'' h h
    · obtain ⟨h1, h2⟩ := spill_spec W (d * d) (Nat.mul_lt_mul'' ha ha)
      simp only [mulAddCarryDword_eq, Nat.add_zero]
      exact ⟨by rw [fromBuffer_value]; exact h1, fromBuffer_canon W _ h2⟩
  | large ws => exact squareLarge_spec W hW ws ha.large_words ha.large_ne_nil

/-- `impl_ibig_mul`: sign rule on top of an exact magnitude product -/
theorem ibigMul_spec (W : Nat) (hW : 4 ≤ W) (a b : SRepr) (ha : a.WF W) (hb : b.WF W) :
    (ibigMul W a b).value W = a.value W * b.value W ∧ (ibigMul W a b).WF W := by
  obtain ⟨an, am⟩ := a
  obtain ⟨bn, bm⟩ := b
  have hm := TRepr.mul_spec W hW am bm ha.1 hb.1
  refine ⟨?_, withSign_wf W _ _ hm.2⟩
  simp only [ibigMul, SRepr.value_mk]
  rw [withSign_value, hm.1]
  cases an <;> cases bn <;> simp

end Dashu.Model
