import Dashu.Model.Int.BitsSpecFast
import Dashu.Proofs.Int.Bits
/-
  C09: the guarded evaluations of `Model/Int/BitsSpecFast.lean` equal the specifications they stand
  for, for all arguments.
-/
namespace Dashu.Model

theorem ltPow2_lt {x n : Nat} (h : ltPow2 x n = true) : x < 2 ^ n := by
  unfold ltPow2 at h
  by_cases hx : x = 0
  · subst hx; exact Nat.two_pow_pos n
  · have : Nat.log2 x < n := by simpa [hx] using h
    exact (Nat.log2_lt hx).1 this

theorem fastDivPow2_eq (x n : Nat) : fastDivPow2 x n = x / 2 ^ n := by
  unfold fastDivPow2
  split
  · next h => exact (Nat.div_eq_of_lt (ltPow2_lt h)).symm
  · rfl

theorem fastModPow2_eq (x n : Nat) : fastModPow2 x n = x % 2 ^ n := by
  unfold fastModPow2
  split
  · next h => exact (Nat.mod_eq_of_lt (ltPow2_lt h)).symm
  · rfl

/-- floor division of an integer of absolute value below the (positive) divisor: 0 or −1 -/
theorem int_ediv_small (x p : Int) (hp : 0 < p) (h1 : -p < x) (h2 : x < p) :
    x / p = if x < 0 then -1 else 0 := by
  split
  · next hx =>
    have := (Int.ediv_emod_unique (a := x) (b := p) (r := x + p) (q := -1) hp).2
      ⟨by omega, by omega, by omega⟩
    exact this.1
  · next hx => exact Int.ediv_eq_zero_of_lt (by omega) h2

theorem fastSpecShr_eq (x : Int) (n : Nat) : fastSpecShr x n = specShr x n := by
  unfold fastSpecShr
  split
  · next h =>
    have hlt := ltPow2_lt h
    have hp : (0 : Int) < (2 : Int) ^ n := Int.pow_pos (by decide)
    have hc : ((2 ^ n : Nat) : Int) = (2 : Int) ^ n := by simp
    unfold specShr
    rw [int_ediv_small x ((2 : Int) ^ n) hp (by omega) (by omega)]
  · rfl

theorem fastSpecBit_eq (x : Int) (n : Nat) : fastSpecBit x n = specBit x n := by
  unfold fastSpecBit
  split
  · next h =>
    have hlt := ltPow2_lt h
    have hp : (0 : Int) < (2 : Int) ^ n := Int.pow_pos (by decide)
    have hc : ((2 ^ n : Nat) : Int) = (2 : Int) ^ n := by simp
    unfold specBit
    rw [int_ediv_small x ((2 : Int) ^ n) hp (by omega) (by omega)]
    by_cases hx : x < 0 <;> simp [hx]
  · rfl

theorem fastClearBit_eq (x n : Nat) : fastClearBit x n = natAndNot x (2 ^ n) := by
  unfold fastClearBit
  split
  · next h =>
    have hlt := ltPow2_lt h
    unfold natAndNot
    have : x &&& 2 ^ n = 0 := by
      rw [Nat.and_two_pow, Nat.testBit_lt_two_pow hlt]; simp
    rw [this, Nat.xor_zero]
  · rfl

end Dashu.Model
