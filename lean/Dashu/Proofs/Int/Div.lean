import Dashu.Model.Int.Div
import Dashu.Proofs.Int.Repr
import Dashu.Proofs.Int.Mul
/-
  Refinement of the division layer (`Dashu/Model/Int/Div.lean`) to `/` and `%` on `Nat`/`Int`,
  for every word size `W ≥ 1` and every operand length.
-/
namespace Dashu.Model.Div
open Dashu.Model

-- ------------------------------------------------------------------ arithmetic helpers

theorem pow_split {W s : Nat} (h : s ≤ W) : 2 ^ W = 2 ^ (W - s) * 2 ^ s := by
  rw [← Nat.pow_add]; congr 1; omega

theorem two_mul_W (W : Nat) : 2 ^ (2 * W) = 2 ^ W * 2 ^ W := by
  rw [← Nat.pow_add]; congr 1; omega

theorem lor_eq_add (m s c : Nat) (hc : c < 2 ^ s) : m * 2 ^ s ||| c = m * 2 ^ s + c := by
  rw [← Nat.shiftLeft_eq]; exact (Nat.shiftLeft_add_eq_or_of_lt hc m).symm

theorem lor_eq_add' (m s c : Nat) (hc : c < 2 ^ s) : c ||| m * 2 ^ s = m * 2 ^ s + c := by
  rw [Nat.or_comm]; exact lor_eq_add m s c hc

theorem isPow2_eq {n : Nat} (h : isPow2 n = true) : n = 2 ^ Nat.log2 n := by
  simpa [isPow2] using h

theorem lz_spec {bits x : Nat} (hx : x ≠ 0) (hlt : x < 2 ^ bits) :
    lz bits x < bits ∧ 2 ^ (bits - 1) ≤ x * 2 ^ lz bits x ∧ x * 2 ^ lz bits x < 2 ^ bits := by
  have hk : Nat.log2 x < bits := (Nat.log2_lt hx).mpr hlt
  have h1 : 2 ^ Nat.log2 x ≤ x := Nat.log2_self_le hx
  have h2 : x < 2 ^ (Nat.log2 x + 1) := Nat.lt_log2_self
  simp only [lz, hx, if_false]
  refine ⟨by omega, ?_, ?_⟩
  · calc 2 ^ (bits - 1) = 2 ^ Nat.log2 x * 2 ^ (bits - 1 - Nat.log2 x) := by
          rw [← Nat.pow_add]; congr 1; omega
      _ ≤ x * 2 ^ (bits - 1 - Nat.log2 x) := Nat.mul_le_mul_right _ h1
  · calc x * 2 ^ (bits - 1 - Nat.log2 x)
          < 2 ^ (Nat.log2 x + 1) * 2 ^ (bits - 1 - Nat.log2 x) :=
            Nat.mul_lt_mul_of_pos_right h2 (Nat.two_pow_pos _)
      _ = 2 ^ bits := by rw [← Nat.pow_add]; congr 1; omega

/-- dividing a multiple of `2^s` plus a small part -/
theorem mul_pow_mod (a s W : Nat) (h : s ≤ W) : (a * 2 ^ s) % 2 ^ W = (a % 2 ^ (W - s)) * 2 ^ s := by
  rw [pow_split h]; exact Nat.mul_mod_mul_right _ _ _

theorem mul_pow_div (a s W : Nat) (h : s ≤ W) : (a * 2 ^ s) / 2 ^ W = a / 2 ^ (W - s) := by
  rw [pow_split h]; exact Nat.mul_div_mul_right _ _ (Nat.two_pow_pos s)

-- ------------------------------------------------------------------ shl_in_place

theorem shlLoop_spec (W shift : Nat) (hs : shift ≤ W) (ws : List Nat) (c : Nat)
    (h : IsWords W ws) (hc : c < 2 ^ shift) :
    let r := shlLoop W shift ws c
    val W r.1 + 2 ^ (W * ws.length) * r.2 = val W ws * 2 ^ shift + c ∧
    r.1.length = ws.length ∧ IsWords W r.1 ∧ r.2 < 2 ^ shift := by
  induction ws generalizing c with
  | nil => simp [shlLoop, IsWords.nil, hc]
  | cons w ws ih =>
    have hw := h.head
    have hp : 0 < 2 ^ W := Nat.two_pow_pos W
    have hps : 0 < 2 ^ shift := Nat.two_pow_pos shift
    have hcarry : (w * 2 ^ shift) / 2 ^ W < 2 ^ shift := by
      rw [Nat.div_lt_iff_lt_mul hp]
      calc w * 2 ^ shift < 2 ^ W * 2 ^ shift := Nat.mul_lt_mul_of_pos_right hw hps
        _ = 2 ^ shift * 2 ^ W := Nat.mul_comm _ _
    have ⟨i1, i2, i3, i4⟩ := ih ((w * 2 ^ shift) / 2 ^ W) h.tail hcarry
    simp only [shlLoop, val_cons, List.length_cons]
    have hor : (w * 2 ^ shift) % 2 ^ W ||| c = (w * 2 ^ shift) % 2 ^ W + c := by
      rw [mul_pow_mod _ _ _ hs]; exact lor_eq_add _ _ _ hc
    have hlt : (w * 2 ^ shift) % 2 ^ W + c < 2 ^ W := by
      rw [mul_pow_mod _ _ _ hs]
      have : w % 2 ^ (W - shift) < 2 ^ (W - shift) := Nat.mod_lt _ (Nat.two_pow_pos _)
      calc w % 2 ^ (W - shift) * 2 ^ shift + c < w % 2 ^ (W - shift) * 2 ^ shift + 2 ^ shift := by omega
        _ = (w % 2 ^ (W - shift) + 1) * 2 ^ shift := by ring
        _ ≤ 2 ^ (W - shift) * 2 ^ shift := Nat.mul_le_mul_right _ this
        _ = 2 ^ W := (pow_split hs).symm
    rw [hor]
    refine ⟨?_, by simp [i2], IsWords.cons hlt i3, i4⟩
    rw [Nat.mul_add, Nat.mul_one, Nat.pow_add]
    have hdm := Nat.div_add_mod (w * 2 ^ shift) (2 ^ W)
    generalize (w * 2 ^ shift) / 2 ^ W = q at *
    generalize (w * 2 ^ shift) % 2 ^ W = m at *
    have e : 2 ^ W * (val W (shlLoop W shift ws q).1 + 2 ^ (W * ws.length) * (shlLoop W shift ws q).2)
        = 2 ^ W * (val W ws * 2 ^ shift + q) := by rw [i1]
    nlinarith [e, hdm]

theorem shlInPlace_spec (W shift : Nat) (hs : shift ≤ W) (ws : List Nat) (h : IsWords W ws) :
    let r := shlInPlace W ws shift
    val W r.1 + 2 ^ (W * ws.length) * r.2 = val W ws * 2 ^ shift ∧
    r.1.length = ws.length ∧ IsWords W r.1 ∧ r.2 < 2 ^ shift := by
  unfold shlInPlace
  by_cases h0 : shift = 0
  · simp [h0, h]
  · simp only [h0, if_false]
    have := shlLoop_spec W shift hs ws 0 h (Nat.two_pow_pos _)
    simpa using this

-- ------------------------------------------------------------------ shr_word / shr_in_place / shl_dword

theorem shrWord_spec (W w s : Nat) (hs : s ≤ W) :
    shrWord W w s = (w / 2 ^ s, (w % 2 ^ s) * 2 ^ (W - s)) := by
  have hv : (w * 2 ^ W) / 2 ^ s = w * 2 ^ (W - s) := by
    rw [pow_split hs, ← Nat.mul_assoc]; exact Nat.mul_div_cancel _ (Nat.two_pow_pos s)
  have h1 := mul_pow_div w (W - s) W (by omega)
  have h2 := mul_pow_mod w (W - s) W (by omega)
  have e : W - (W - s) = s := by omega
  rw [e] at h1 h2
  simp only [shrWord, hv, h1, h2]

theorem shrLoop_spec (W s : Nat) (hs : s ≤ W) (ws : List Nat) (k : Nat)
    (h : IsWords W ws) (hk : k < 2 ^ s) :
    let r := shrLoop W s ws (k * 2 ^ (W - s))
    ∃ k', r.2 = k' * 2 ^ (W - s) ∧ k' < 2 ^ s ∧
      val W r.1 * 2 ^ s + k' = val W ws + k * 2 ^ (W * ws.length) ∧
      r.1.length = ws.length ∧ IsWords W r.1 := by
  induction ws with
  | nil => exact ⟨k, by simp [shrLoop, hk, IsWords.nil]⟩
  | cons w ws ih =>
    have hw := h.head
    obtain ⟨k1, e1, hk1, hv, hl, hws⟩ := ih h.tail
    have hps : 0 < 2 ^ s := Nat.two_pow_pos s
    have hq : w / 2 ^ s < 2 ^ (W - s) := by
      rw [Nat.div_lt_iff_lt_mul hps, ← pow_split hs]; exact hw
    refine ⟨w % 2 ^ s, ?_, Nat.mod_lt _ hps, ?_, ?_, ?_⟩
    · simp only [shrLoop, shrWord_spec W w s hs]
    · simp only [shrLoop, shrWord_spec W w s hs, e1, val_cons, List.length_cons]
      rw [lor_eq_add' _ _ _ hq, Nat.mul_add, Nat.mul_one, Nat.pow_add]
      have hdm := Nat.div_add_mod w (2 ^ s)
      have hsp := pow_split hs
      generalize w / 2 ^ s = a at *
      generalize w % 2 ^ s = b at *
      generalize 2 ^ (W - s) = X at *
      generalize 2 ^ (W * ws.length) = P at *
      generalize val W (shrLoop W s ws (k * X)).1 = V at *
      have e : 2 ^ W * (V * 2 ^ s + k1) = 2 ^ W * (val W ws + k * P) := by rw [hv]
      rw [hsp] at e ⊢
      nlinarith [e, hdm]
    · simp [shrLoop, hl]
    · simp only [shrLoop, shrWord_spec W w s hs, e1]
      rw [lor_eq_add' _ _ _ hq]
      refine IsWords.cons ?_ hws
      calc k1 * 2 ^ (W - s) + w / 2 ^ s < k1 * 2 ^ (W - s) + 2 ^ (W - s) := by omega
        _ = (k1 + 1) * 2 ^ (W - s) := by ring
        _ ≤ 2 ^ s * 2 ^ (W - s) := Nat.mul_le_mul_right _ hk1
        _ = 2 ^ W := by rw [Nat.mul_comm]; exact (pow_split hs).symm

theorem shrInPlaceOneWord_spec (W : Nat) (ws : List Nat) (h : IsWords W ws) :
    let r := shrInPlaceOneWord ws
    val W r.1 * 2 ^ W + r.2 = val W ws ∧ r.1.length = ws.length ∧ IsWords W r.1 ∧ r.2 < 2 ^ W := by
  cases ws with
  | nil => simp [shrInPlaceOneWord, IsWords.nil, Nat.two_pow_pos]
  | cons w ws =>
    simp only [shrInPlaceOneWord, val_append, val_cons, val_nil, List.length_append, List.length_cons,
      List.length_nil]
    refine ⟨by ring, trivial, IsWords.append h.tail (IsWords.cons (Nat.two_pow_pos W) (IsWords.nil W)), h.head⟩

/-- `shr_in_place(words, shift)`, `shift ≤ W`: quotient by `2^shift` in place, the shifted-out
    bits `k'` returned in the high bits of a word -/
theorem shrInPlace_spec (W s : Nat) (hs : s ≤ W) (ws : List Nat) (h : IsWords W ws) :
    let r := shrInPlace W ws s
    ∃ k', r.2 = k' * 2 ^ (W - s) ∧ k' < 2 ^ s ∧ val W r.1 * 2 ^ s + k' = val W ws ∧
      r.1.length = ws.length ∧ IsWords W r.1 := by
  unfold shrInPlace
  by_cases hW : s = W
  · subst hW
    have ⟨a, b, c, d⟩ := shrInPlaceOneWord_spec s ws h
    simp only [if_true]
    exact ⟨(shrInPlaceOneWord ws).2, by simp, d, a, b, c⟩
  · simp only [hW, if_false, shrInPlaceWithCarry]
    by_cases h0 : s = 0
    · subst h0; exact ⟨0, by simp [h]⟩
    · simp only [h0, if_false]
      have := shrLoop_spec W s hs ws 0 h (Nat.two_pow_pos s)
      simpa using this

theorem shlDword_spec (W dw s : Nat) (hs : s ≤ W) (hdw : dw < 2 ^ (2 * W)) :
    let r := shlDword W dw s
    r.1 + 2 ^ W * r.2.1 + 2 ^ (2 * W) * r.2.2 = dw * 2 ^ s ∧
    r.1 < 2 ^ W ∧ r.2.1 < 2 ^ W ∧ r.2.2 < 2 ^ s := by
  have hp : 0 < 2 ^ W := Nat.two_pow_pos W
  have hps : 0 < 2 ^ s := Nat.two_pow_pos s
  have hhi : dw / 2 ^ W < 2 ^ W := by
    rw [Nat.div_lt_iff_lt_mul hp, ← two_mul_W]; exact hdw
  have hlo : dw % 2 ^ W < 2 ^ W := Nat.mod_lt _ hp
  have hc : (dw % 2 ^ W * 2 ^ s) / 2 ^ W < 2 ^ s := by
    rw [Nat.div_lt_iff_lt_mul hp]
    calc dw % 2 ^ W * 2 ^ s < 2 ^ W * 2 ^ s := Nat.mul_lt_mul_of_pos_right hlo hps
      _ = 2 ^ s * 2 ^ W := Nat.mul_comm _ _
  simp only [shlDword]
  rw [lor_eq_add _ _ _ hc]
  have hdm := Nat.div_add_mod dw (2 ^ W)
  have ha := Nat.div_add_mod (dw % 2 ^ W * 2 ^ s) (2 ^ W)
  have hb := Nat.div_add_mod (dw / 2 ^ W * 2 ^ s + (dw % 2 ^ W * 2 ^ s) / 2 ^ W) (2 ^ W)
  have hblt : dw / 2 ^ W * 2 ^ s + (dw % 2 ^ W * 2 ^ s) / 2 ^ W < 2 ^ s * 2 ^ W := by
    calc dw / 2 ^ W * 2 ^ s + (dw % 2 ^ W * 2 ^ s) / 2 ^ W < dw / 2 ^ W * 2 ^ s + 2 ^ s := by omega
      _ = (dw / 2 ^ W + 1) * 2 ^ s := by ring
      _ ≤ 2 ^ W * 2 ^ s := Nat.mul_le_mul_right _ hhi
      _ = 2 ^ s * 2 ^ W := Nat.mul_comm _ _
  refine ⟨?_, Nat.mod_lt _ hp, Nat.mod_lt _ hp, (Nat.div_lt_iff_lt_mul hp).mpr hblt⟩
  rw [two_mul_W]
  generalize dw / 2 ^ W = hi at *
  generalize dw % 2 ^ W = lo at *
  generalize (lo * 2 ^ s) / 2 ^ W = c at *
  generalize (lo * 2 ^ s) % 2 ^ W = n0 at *
  generalize (hi * 2 ^ s + c) / 2 ^ W = n2 at *
  generalize (hi * 2 ^ s + c) % 2 ^ W = n1 at *
  nlinarith [hdm, ha, hb]

-- ------------------------------------------------------------------ primitive contracts

theorem div2by1_ok (W d a : Nat) (h : a / 2 ^ W < d) : div2by1 W d a = .ok (a / d, a % d) := by
  simp [div2by1, h]

theorem div3by2_ok (W d aLo aHi : Nat) (h : aHi < d) :
    div3by2 W d aLo aHi = .ok ((aLo + 2 ^ W * aHi) / d, (aLo + 2 ^ W * aHi) % d) := by
  simp [div3by2, h]

theorem div4by2_ok (W d aLo aHi : Nat) (h : aHi < d) :
    div4by2 W d aLo aHi = .ok ((aLo + 2 ^ (2 * W) * aHi) / d, (aLo + 2 ^ (2 * W) * aHi) % d) := by
  simp [div4by2, h]

theorem normNew_ok (bits d : Nat) (h : 2 ^ (bits - 1) ≤ d) : normNew bits d = .ok d := by
  simp [normNew, h]

/-- `(w + B·r) / B = r` for a word `w` -/
theorem add_mul_div_word (W w r : Nat) (hw : w < 2 ^ W) : (w + 2 ^ W * r) / 2 ^ W = r := by
  rw [Nat.add_mul_div_left _ _ (Nat.two_pow_pos W), Nat.div_eq_of_lt hw, Nat.zero_add]

-- ------------------------------------------------------------------ word divisor

theorem fastDivByWordLoop_spec (W d : Nat) (hd : 0 < d) (hdW : d ≤ 2 ^ W) (ws : List Nat) (rem : Nat)
    (h : IsWords W ws) (hr : rem < d) :
    ∃ qs r, fastDivByWordLoop W d ws rem = .ok (qs, r) ∧
      val W qs * d + r = val W ws + 2 ^ (W * ws.length) * rem ∧ r < d ∧
      qs.length = ws.length ∧ IsWords W qs := by
  induction ws with
  | nil => exact ⟨[], rem, by simp [fastDivByWordLoop, IsWords.nil, hr]⟩
  | cons w ws ih =>
    have hw := h.head
    obtain ⟨qs, r, e, hv, hrd, hl, hq⟩ := ih h.tail
    have hpre : (w + 2 ^ W * r) / 2 ^ W < d := by rw [add_mul_div_word W w r hw]; exact hrd
    refine ⟨(w + 2 ^ W * r) / d :: qs, (w + 2 ^ W * r) % d, ?_, ?_, Nat.mod_lt _ hd, by simp [hl], ?_⟩
    · simp only [fastDivByWordLoop, e, bind, Except.bind, div2by1_ok W d _ hpre, pure, Except.pure]
    · simp only [val_cons, List.length_cons]
      rw [Nat.mul_add, Nat.mul_one, Nat.pow_add]
      have hdm := Nat.div_add_mod (w + 2 ^ W * r) d
      generalize (w + 2 ^ W * r) / d = q at *
      generalize (w + 2 ^ W * r) % d = r' at *
      have e' : 2 ^ W * (val W qs * d + r) = 2 ^ W * (val W ws + 2 ^ (W * ws.length) * rem) := by rw [hv]
      nlinarith [e', hdm]
    · refine IsWords.cons ?_ hq
      rw [Nat.div_lt_iff_lt_mul hd]
      calc w + 2 ^ W * r < 2 ^ W + 2 ^ W * r := by omega
        _ = 2 ^ W * (r + 1) := by ring
        _ ≤ 2 ^ W * d := Nat.mul_le_mul_left _ hrd

/-- un-shift of quotient/remainder after dividing the shifted dividend by the shifted divisor -/
theorem unshift (Q R X rhs s : Nat) (h : Q * (rhs * 2 ^ s) + R = X * 2 ^ s) (hR : R < rhs * 2 ^ s) :
    Q * rhs + R / 2 ^ s = X ∧ R / 2 ^ s < rhs := by
  have hps : 0 < 2 ^ s := Nat.two_pow_pos s
  have hdvd : 2 ^ s ∣ R := by
    have h1 : 2 ^ s ∣ Q * (rhs * 2 ^ s) + R := by rw [h]; exact Nat.dvd_mul_left _ _
    have h2 : 2 ^ s ∣ Q * (rhs * 2 ^ s) := by
      rw [← Nat.mul_assoc]; exact Nat.dvd_mul_left _ _
    exact (Nat.dvd_add_right h2).mp h1
  obtain ⟨t, ht⟩ := hdvd
  have hdiv : R / 2 ^ s = t := by rw [ht]; exact Nat.mul_div_cancel_left _ hps
  rw [hdiv]
  constructor
  · apply Nat.eq_of_mul_eq_mul_right hps
    rw [← h, ht]; ring
  · apply Nat.lt_of_mul_lt_mul_right (a := 2 ^ s)
    rw [ht] at hR; rw [Nat.mul_comm t]; exact hR

theorem fastDivByWordInPlace_spec (W rhs shift : Nat) (ws : List Nat) (h : IsWords W ws)
    (hrhs : 0 < rhs) (hs : shift ≤ W) (hd : rhs * 2 ^ shift ≤ 2 ^ W) :
    ∃ qs r, fastDivByWordInPlace W ws shift (rhs * 2 ^ shift) = .ok (qs, r) ∧
      val W qs * rhs + r = val W ws ∧ r < rhs ∧ qs.length = ws.length ∧ IsWords W qs := by
  have hps : 0 < 2 ^ shift := Nat.two_pow_pos shift
  have ⟨s1, s2, s3, s4⟩ := shlInPlace_spec W shift hs ws h
  have hcd : (shlInPlace W ws shift).2 < rhs * 2 ^ shift :=
    Nat.lt_of_lt_of_le s4 (Nat.le_mul_of_pos_left _ hrhs)
  obtain ⟨qs, r, e, hv, hr, hl, hq⟩ :=
    fastDivByWordLoop_spec W (rhs * 2 ^ shift) (Nat.mul_pos hrhs hps) hd _ _ s3 hcd
  rw [s2] at hv hl
  have ⟨u1, u2⟩ := unshift (val W qs) r (val W ws) rhs shift (by rw [hv, s1]) hr
  refine ⟨qs, r / 2 ^ shift, ?_, u1, u2, hl, hq⟩
  simp only [fastDivByWordInPlace, e, bind, Except.bind, pure, Except.pure]

theorem isPow2_log_lt {n b : Nat} (h : isPow2 n = true) (hlt : n < 2 ^ b) : Nat.log2 n < b := by
  have e := isPow2_eq h
  have hn : n ≠ 0 := by
    intro h0; rw [h0] at e; simp at e
  exact (Nat.log2_lt hn).mpr hlt

/-- `div_by_word_in_place` = exact division of the slice by a non-zero word -/
theorem divByWordInPlace_spec (W rhs : Nat) (ws : List Nat) (h : IsWords W ws)
    (hrhs : 0 < rhs) (hlt : rhs < 2 ^ W) :
    ∃ qs r, divByWordInPlace W ws rhs = .ok (qs, r) ∧
      val W qs * rhs + r = val W ws ∧ r < rhs ∧ qs.length = ws.length ∧ IsWords W qs := by
  unfold divByWordInPlace
  by_cases h1 : rhs = 1
  · subst h1; exact ⟨ws, 0, by simp [h]⟩
  · simp only [h1, if_false]
    by_cases hp : isPow2 rhs = true
    · simp only [hp, if_true]
      have hk := isPow2_log_lt hp hlt
      have e := isPow2_eq hp
      obtain ⟨k', e1, hk', hv, hl, hw⟩ := shrInPlace_spec W (Nat.log2 rhs) (by omega) ws h
      refine ⟨_, _, rfl, ?_, ?_, hl, hw⟩
      · show val W (shrInPlace W ws (Nat.log2 rhs)).1 * rhs
            + (shrInPlace W ws (Nat.log2 rhs)).2 / 2 ^ (W - Nat.log2 rhs) = val W ws
        rw [e1, Nat.mul_div_cancel _ (Nat.two_pow_pos _)]
        generalize Nat.log2 rhs = k at *
        subst e
        exact hv
      · show (shrInPlace W ws (Nat.log2 rhs)).2 / 2 ^ (W - Nat.log2 rhs) < rhs
        rw [e1, Nat.mul_div_cancel _ (Nat.two_pow_pos _)]
        generalize Nat.log2 rhs = k at *
        subst e
        exact hk'
    · simp only [hp]
      have ⟨l1, l2, l3⟩ := lz_spec (bits := W) (Nat.pos_iff_ne_zero.mp hrhs) hlt
      have hmod : rhs * 2 ^ lz W rhs % 2 ^ W = rhs * 2 ^ lz W rhs := Nat.mod_eq_of_lt l3
      obtain ⟨qs, r, e, rest⟩ :=
        fastDivByWordInPlace_spec W rhs (lz W rhs) ws h hrhs (by omega) (Nat.le_of_lt l3)
      refine ⟨qs, r, ?_, rest⟩
      simp only [hmod, normNew_ok W _ l2, bind, Except.bind, e]
      rfl

theorem mod_step (a b m d : Nat) : (a + m * (b % d)) % d = (a + m * b) % d := by
  rw [Nat.add_mod, Nat.mul_mod, Nat.mod_mod, ← Nat.mul_mod, ← Nat.add_mod]

theorem div1by1_snd (W d a : Nat) (_hd : 0 < d) (hn : 2 ^ W ≤ 2 * d) (ha : a < 2 ^ W) :
    (div1by1 d a).2 = a % d := by
  unfold div1by1
  by_cases h : a < d
  · simp [h, Nat.mod_eq_of_lt h]
  · simp only [h, if_false]
    have h2 : a - d < d := by omega
    rw [Nat.mod_eq_sub_mod (by omega), Nat.mod_eq_of_lt h2]

/-- `fast_rem_by_normalized_word` = remainder of the slice by the normalised word `d` -/
theorem fastRemByNormalizedWord_spec (W d : Nat) (hd : 0 < d) (_hdW : d ≤ 2 ^ W) (hn : 2 ^ W ≤ 2 * d)
    (ws : List Nat) (h : IsWords W ws) (hne : ws ≠ []) :
    fastRemByNormalizedWord W d ws = .ok (val W ws % d) := by
  induction ws with
  | nil => exact absurd rfl hne
  | cons w ws ih =>
    cases ws with
    | nil =>
      simp only [fastRemByNormalizedWord, val_cons, val_nil, Nat.mul_zero, Nat.add_zero]
      rw [div1by1_snd W d w hd hn h.head]
    | cons w' ws' =>
      have e := ih h.tail (by simp)
      have hr : val W (w' :: ws') % d < d := Nat.mod_lt _ hd
      have hpre : (w + 2 ^ W * (val W (w' :: ws') % d)) / 2 ^ W < d := by
        rw [add_mul_div_word W w _ h.head]; exact hr
      simp only [fastRemByNormalizedWord, e, bind, Except.bind, div2by1_ok W d _ hpre, pure, Except.pure]
      rw [mod_step]
      rfl

theorem word_mod_pow (W k w v : Nat) (hk : k ≤ W) : (w + 2 ^ W * v) % 2 ^ k = w % 2 ^ k := by
  rw [pow_split hk, Nat.mul_comm (2 ^ (W - k)), Nat.mul_assoc]
  exact Nat.add_mul_mod_self_left _ _ _

/-- the final un-normalisation of `rem_by_word` / `rem_by_dword` -/
theorem rem_unshift (X rhs s : Nat) :
    ((X % (rhs * 2 ^ s)) * 2 ^ s % (rhs * 2 ^ s)) / 2 ^ s = X % rhs := by
  rw [Nat.mul_mod_mul_right, Nat.mod_mod_of_dvd _ (Nat.dvd_mul_right rhs (2 ^ s)),
    Nat.mul_div_cancel _ (Nat.two_pow_pos s)]

/-- `rem_by_word` = remainder of the slice by a non-zero word -/
theorem remByWord_spec (W rhs : Nat) (ws : List Nat) (h : IsWords W ws) (hne : ws ≠ [])
    (hrhs : 0 < rhs) (hlt : rhs < 2 ^ W) :
    remByWord W ws rhs = .ok (val W ws % rhs) := by
  unfold remByWord
  by_cases hp : isPow2 rhs = true
  · simp only [hp, if_true]
    have hk := isPow2_log_lt hp hlt
    have e := isPow2_eq hp
    cases ws with
    | nil => exact absurd rfl hne
    | cons w ws =>
      simp only [val_cons]
      generalize Nat.log2 rhs = k at *
      subst e
      rw [Nat.and_two_pow_sub_one_eq_mod, word_mod_pow W _ w _ (by omega)]
  · rw [if_neg hp]
    have ⟨l1, l2, l3⟩ := lz_spec (bits := W) (Nat.pos_iff_ne_zero.mp hrhs) hlt
    have hmod : rhs * 2 ^ lz W rhs % 2 ^ W = rhs * 2 ^ lz W rhs := Nat.mod_eq_of_lt l3
    have hps : 0 < 2 ^ lz W rhs := Nat.two_pow_pos _
    have hdpos : 0 < rhs * 2 ^ lz W rhs := Nat.mul_pos hrhs hps
    have hn : 2 ^ W ≤ 2 * (rhs * 2 ^ lz W rhs) := by
      have : 2 ^ W = 2 * 2 ^ (W - 1) := by
        rw [← Nat.pow_succ']; congr 1; omega
      omega
    have e := fastRemByNormalizedWord_spec W _ hdpos (Nat.le_of_lt l3) hn ws h hne
    have hr : val W ws % (rhs * 2 ^ lz W rhs) < rhs * 2 ^ lz W rhs := Nat.mod_lt _ hdpos
    have hpre : (val W ws % (rhs * 2 ^ lz W rhs) * 2 ^ lz W rhs) / 2 ^ W < rhs * 2 ^ lz W rhs := by
      rw [Nat.div_lt_iff_lt_mul (Nat.two_pow_pos W)]
      calc val W ws % (rhs * 2 ^ lz W rhs) * 2 ^ lz W rhs
            < 2 ^ W * 2 ^ lz W rhs := Nat.mul_lt_mul_of_pos_right (Nat.lt_trans hr l3) hps
        _ ≤ 2 ^ W * (rhs * 2 ^ lz W rhs) := Nat.mul_le_mul_left _ (Nat.le_mul_of_pos_left _ hrhs)
        _ = rhs * 2 ^ lz W rhs * 2 ^ W := Nat.mul_comm _ _
    simp only [hmod, normNew_ok W _ l2, bind, Except.bind, e, div2by1_ok W _ _ hpre, pure, Except.pure]
    rw [rem_unshift]

-- ------------------------------------------------------------------ double-word divisor

theorem split_last2 (l : List Nat) (h : 2 ≤ l.length) :
    ∃ lo a b, l.drop (l.length - 2) = [a, b] ∧ l.take (l.length - 2) = lo ∧ l = lo ++ [a, b] := by
  have hd : (l.drop (l.length - 2)).length = 2 := by simp only [List.length_drop]; omega
  have hs := (List.take_append_drop (l.length - 2) l).symm
  generalize l.drop (l.length - 2) = d at hd hs
  rcases d with _ | ⟨a, _ | ⟨b, _ | ⟨c, t⟩⟩⟩
  · simp at hd
  · simp at hd
  · exact ⟨_, a, b, rfl, rfl, hs⟩
  · simp at hd

theorem div4by2Loop_spec (W d : Nat) (hd : 0 < d) (hdW : d ≤ 2 ^ (2 * W)) (n : Nat) (lo : List Nat)
    (rem : Nat) (hl : lo.length = 2 * n) (h : IsWords W lo) (hr : rem < d) :
    ∃ qs r, div4by2Loop W d lo rem = .ok (qs, r) ∧
      val W qs * d + r = val W lo + 2 ^ (W * lo.length) * rem ∧ r < d ∧
      qs.length = lo.length ∧ IsWords W qs := by
  induction n generalizing lo with
  | zero =>
    have : lo = [] := List.eq_nil_of_length_eq_zero (by omega)
    subst this
    exact ⟨[], rem, by simp [div4by2Loop, IsWords.nil, hr]⟩
  | succ n ih =>
    rcases lo with _ | ⟨a, _ | ⟨b, rest⟩⟩
    · simp at hl
    · simp at hl; omega
    · have ha := h.head
      have hb := h.tail.head
      have hp : 0 < 2 ^ W := Nat.two_pow_pos W
      obtain ⟨qs, r, e, hv, hrd, hlq, hq⟩ := ih rest (by simp at hl; omega) h.tail.tail
      have hsq := two_mul_W W
      have hdm := Nat.div_add_mod (a + 2 ^ W * b + 2 ^ (2 * W) * r) d
      have hqlt : (a + 2 ^ W * b + 2 ^ (2 * W) * r) / d < 2 ^ (2 * W) := by
        rw [Nat.div_lt_iff_lt_mul hd]
        have : a + 2 ^ W * b < 2 ^ (2 * W) := by rw [hsq]; nlinarith
        calc a + 2 ^ W * b + 2 ^ (2 * W) * r < 2 ^ (2 * W) + 2 ^ (2 * W) * r := by omega
          _ = 2 ^ (2 * W) * (r + 1) := by ring
          _ ≤ 2 ^ (2 * W) * d := Nat.mul_le_mul_left _ hrd
      refine ⟨(a + 2 ^ W * b + 2 ^ (2 * W) * r) / d % 2 ^ W :: (a + 2 ^ W * b + 2 ^ (2 * W) * r) / d / 2 ^ W :: qs,
        (a + 2 ^ W * b + 2 ^ (2 * W) * r) % d, ?_, ?_, Nat.mod_lt _ hd, ?_, ?_⟩
      · simp only [div4by2Loop, e, bind, Except.bind, div4by2_ok W d _ _ hrd, pure, Except.pure]
      · simp only [val_cons, List.length_cons]
        have hP : 2 ^ (W * (rest.length + 1 + 1)) = 2 ^ (W * rest.length) * 2 ^ W * 2 ^ W := by
          rw [← Nat.pow_add, ← Nat.pow_add]; congr 1 <;> ring
        rw [hP]
        have hqq := Nat.div_add_mod ((a + 2 ^ W * b + 2 ^ (2 * W) * r) / d) (2 ^ W)
        generalize (a + 2 ^ W * b + 2 ^ (2 * W) * r) / d = q at *
        generalize (a + 2 ^ W * b + 2 ^ (2 * W) * r) % d = r' at *
        have hqd : (2 ^ W * (q / 2 ^ W) + q % 2 ^ W) * d = q * d := by rw [hqq]
        generalize q / 2 ^ W = q1 at *
        generalize q % 2 ^ W = q0 at *
        have e' : 2 ^ W * 2 ^ W * (val W qs * d + r)
            = 2 ^ W * 2 ^ W * (val W rest + 2 ^ (W * rest.length) * rem) := by rw [hv]
        rw [hsq] at hdm
        generalize 2 ^ (W * rest.length) = P at *
        generalize 2 ^ W = B at *
        nlinarith [e', hdm, hqd]
      · simp [hlq]
      · refine IsWords.cons (Nat.mod_lt _ hp) (IsWords.cons ?_ hq)
        rw [Nat.div_lt_iff_lt_mul hp, ← hsq]; exact hqlt

theorem val_append_two (W : Nat) (l : List Nat) (a b : Nat) :
    val W (l ++ [a, b]) = val W l + 2 ^ (W * l.length) * (a + 2 ^ W * b) := by
  rw [val_append]; simp

theorem fastDivByDwordCore_spec (W d : Nat) (hd : 0 < d) (hdW : d ≤ 2 ^ (2 * W)) (ws' : List Nat)
    (hi : Nat) (h : IsWords W ws') (hlen : 2 ≤ ws'.length) (hhi : 2 ^ W * (hi + 1) ≤ d) :
    ∃ qs r, fastDivByDwordCore W d ws' hi = .ok (qs, r) ∧
      val W qs * d + r = val W ws' + 2 ^ (W * ws'.length) * hi ∧ r < d ∧
      qs.length = ws'.length ∧ IsWords W qs := by
  have hp : 0 < 2 ^ W := Nat.two_pow_pos W
  obtain ⟨lo, topLo, topHi, hdrop, htake, hsplit⟩ := split_last2 ws' hlen
  have hlo : IsWords W lo := by rw [← htake]; exact h.take _
  have htl : topLo < 2 ^ W := h topLo (by rw [hsplit]; simp)
  have hth : topHi < 2 ^ W := h topHi (by rw [hsplit]; simp)
  have hahi : topHi + 2 ^ W * hi < d := by
    calc topHi + 2 ^ W * hi < 2 ^ W + 2 ^ W * hi := by omega
      _ = 2 ^ W * (hi + 1) := by ring
      _ ≤ d := hhi
  have hq3 := Nat.div_add_mod (topLo + 2 ^ W * (topHi + 2 ^ W * hi)) d
  have hr3 : (topLo + 2 ^ W * (topHi + 2 ^ W * hi)) % d < d := Nat.mod_lt _ hd
  have hqw : (topLo + 2 ^ W * (topHi + 2 ^ W * hi)) / d < 2 ^ W := by
    rw [Nat.div_lt_iff_lt_mul hd]
    calc topLo + 2 ^ W * (topHi + 2 ^ W * hi) < 2 ^ W + 2 ^ W * (topHi + 2 ^ W * hi) := by omega
      _ = 2 ^ W * (topHi + 2 ^ W * hi + 1) := by ring
      _ ≤ 2 ^ W * d := Nat.mul_le_mul_left _ hahi
  have hlen' : ws'.length = lo.length + 2 := by rw [hsplit]; simp
  have hvs : val W ws' = val W lo + 2 ^ (W * lo.length) * (topLo + 2 ^ W * topHi) := by
    rw [hsplit]; exact val_append_two W lo topLo topHi
  have hP : 2 ^ (W * ws'.length) = 2 ^ (W * lo.length) * 2 ^ W * 2 ^ W := by
    rw [hlen', ← Nat.pow_add, ← Nat.pow_add]; congr 1 <;> ring
  have hwq : IsWords W [(topLo + 2 ^ W * (topHi + 2 ^ W * hi)) / d, 0] :=
    IsWords.cons hqw (IsWords.cons hp (IsWords.nil W))
  by_cases hpar : lo.length % 2 = 0
  · obtain ⟨qs, r, e, hv, hrd, hlq, hq⟩ :=
      div4by2Loop_spec W d hd hdW (lo.length / 2) lo _ (by omega) hlo hr3
    refine ⟨qs ++ [_, 0], r, ?_, ?_, hrd, ?_, IsWords.append hq hwq⟩
    · simp only [fastDivByDwordCore, hdrop, htake, bind, Except.bind, div3by2_ok W d _ _ hahi, hpar,
        if_true, e, pure, Except.pure]
    · rw [val_append_two, hvs, hP, hlq]
      generalize (topLo + 2 ^ W * (topHi + 2 ^ W * hi)) / d = q at *
      generalize (topLo + 2 ^ W * (topHi + 2 ^ W * hi)) % d = r3 at *
      have e3 : 2 ^ (W * lo.length) * (d * q + r3)
          = 2 ^ (W * lo.length) * (topLo + 2 ^ W * (topHi + 2 ^ W * hi)) := by rw [hq3]
      generalize 2 ^ (W * lo.length) = P at *
      generalize 2 ^ W = B at *
      linarith [e3, hv]
    · simp [hlq, hlen']
  · rcases lo with _ | ⟨x, pairs⟩
    · simp at hpar
    · have hx := hlo.head
      obtain ⟨qs, r, e, hv, hrd, hlq, hq⟩ :=
        div4by2Loop_spec W d hd hdW (pairs.length / 2) pairs _ (by simp at hpar; omega) hlo.tail hr3
      have hq0 := Nat.div_add_mod (x + 2 ^ W * r) d
      have hq0w : (x + 2 ^ W * r) / d < 2 ^ W := by
        rw [Nat.div_lt_iff_lt_mul hd]
        calc x + 2 ^ W * r < 2 ^ W + 2 ^ W * r := by omega
          _ = 2 ^ W * (r + 1) := by ring
          _ ≤ 2 ^ W * d := Nat.mul_le_mul_left _ hrd
      refine ⟨(x + 2 ^ W * r) / d :: qs ++ [_, 0], (x + 2 ^ W * r) % d, ?_, ?_, Nat.mod_lt _ hd, ?_,
        IsWords.cons hq0w (IsWords.append hq hwq)⟩
      · simp only [fastDivByDwordCore, hdrop, htake, bind, Except.bind, div3by2_ok W d _ _ hahi, hpar,
          if_false, e, div3by2_ok W d _ _ hrd, pure, Except.pure, List.cons_append]
      · simp only [List.cons_append, val_cons]
        rw [val_append_two, hvs, hP, hlq]
        simp only [val_cons, List.length_cons]
        have hPP : 2 ^ (W * (pairs.length + 1)) = 2 ^ (W * pairs.length) * 2 ^ W := by
          rw [← Nat.pow_add]; congr 1
        rw [hPP]
        generalize (topLo + 2 ^ W * (topHi + 2 ^ W * hi)) / d = q at *
        generalize (topLo + 2 ^ W * (topHi + 2 ^ W * hi)) % d = r3 at *
        generalize (x + 2 ^ W * r) / d = q0 at *
        generalize (x + 2 ^ W * r) % d = r0 at *
        have e3 : 2 ^ (W * pairs.length) * 2 ^ W * (d * q + r3)
            = 2 ^ (W * pairs.length) * 2 ^ W * (topLo + 2 ^ W * (topHi + 2 ^ W * hi)) := by rw [hq3]
        have e4 : 2 ^ W * (val W qs * d + r) = 2 ^ W * (val W pairs + 2 ^ (W * pairs.length) * r3) := by
          rw [hv]
        generalize 2 ^ (W * pairs.length) = P at *
        generalize 2 ^ W = B at *
        linarith [e3, e4, hq0]
      · simp [hlq, hlen']

theorem pow_W_shift_le (W shift : Nat) (hs : shift + 1 ≤ W) : 2 ^ W * 2 ^ shift ≤ 2 ^ (2 * W - 1) := by
  rw [← Nat.pow_add]; exact Nat.pow_le_pow_right (by omega) (by omega)

theorem fastDivByDwordInPlace_spec (W rhs shift : Nat) (ws : List Nat) (h : IsWords W ws)
    (hlen : 2 ≤ ws.length) (hrhs : 0 < rhs) (hs : shift + 1 ≤ W)
    (hd1 : 2 ^ (2 * W - 1) ≤ rhs * 2 ^ shift) (hd2 : rhs * 2 ^ shift ≤ 2 ^ (2 * W)) :
    ∃ qs r, fastDivByDwordInPlace W ws shift (rhs * 2 ^ shift) = .ok (qs, r) ∧
      val W qs * rhs + r = val W ws ∧ r < rhs ∧ qs.length = ws.length ∧ IsWords W qs := by
  have hps : 0 < 2 ^ shift := Nat.two_pow_pos shift
  have hdpos : 0 < rhs * 2 ^ shift := Nat.mul_pos hrhs hps
  have ⟨s1, s2, s3, s4⟩ := shlInPlace_spec W shift (by omega) ws h
  have hhi : 2 ^ W * ((shlInPlace W ws shift).2 + 1) ≤ rhs * 2 ^ shift :=
    Nat.le_trans (Nat.le_trans (Nat.mul_le_mul_left _ s4) (pow_W_shift_le W shift hs)) hd1
  obtain ⟨qs, r, e, hv, hr, hl, hq⟩ :=
    fastDivByDwordCore_spec W (rhs * 2 ^ shift) hdpos hd2 _ _ s3 (by omega) hhi
  rw [s2] at hv hl
  have ⟨u1, u2⟩ := unshift (val W qs) r (val W ws) rhs shift (by rw [hv, s1]) hr
  refine ⟨qs, r / 2 ^ shift, ?_, u1, u2, hl, hq⟩
  simp only [fastDivByDwordInPlace, e, bind, Except.bind, pure, Except.pure]

theorem lz_dword_lt (W rhs : Nat) (hW : 1 ≤ W) (h : 2 ^ W ≤ rhs) : lz (2 * W) rhs + 1 ≤ W := by
  have hne : rhs ≠ 0 := by
    have := Nat.two_pow_pos W; omega
  have := (Nat.le_log2 hne).mpr h
  simp only [lz, hne, if_false]
  omega

/-- `div_by_dword_in_place` = exact division of the slice by a divisor in `[2^W, 2^(2W))` -/
theorem divByDwordInPlace_spec (W rhs : Nat) (hW : 1 ≤ W) (ws : List Nat) (h : IsWords W ws)
    (hlen : 2 ≤ ws.length) (hge : 2 ^ W ≤ rhs) (hlt : rhs < 2 ^ (2 * W)) :
    ∃ qs r, divByDwordInPlace W ws rhs = .ok (qs, r) ∧
      val W qs * rhs + r = val W ws ∧ r < rhs ∧ qs.length = ws.length ∧ IsWords W qs := by
  have hp : 0 < 2 ^ W := Nat.two_pow_pos W
  have hrhs : 0 < rhs := Nat.lt_of_lt_of_le hp hge
  unfold divByDwordInPlace
  by_cases hpw : isPow2 rhs = true
  · rw [if_pos hpw]
    have hk := isPow2_log_lt hpw hlt
    have e := isPow2_eq hpw
    have hkW : W ≤ Nat.log2 rhs := by
      rw [e] at hge
      exact (Nat.pow_le_pow_iff_right (by omega)).mp hge
    generalize Nat.log2 rhs = k at *
    subst e
    have ⟨a1, a2, a3, a4⟩ := shrInPlaceOneWord_spec W ws h
    by_cases h0 : k - W = 0
    · have : k = W := by omega
      subst this
      simp only [h0, if_true]
      exact ⟨_, _, rfl, a1, a4, a2, a3⟩
    · simp only [h0, if_false]
      obtain ⟨k', e1, hk', hv, hl, hw⟩ := shrInPlace_spec W (k - W) (by omega) _ a3
      refine ⟨_, _, rfl, ?_, ?_, by rw [hl, a2], hw⟩
      all_goals
        simp only [shrWord_spec W _ (k - W) (by omega), e1]
        have hq : (shrInPlaceOneWord ws).2 / 2 ^ (k - W) < 2 ^ (W - (k - W)) := by
          rw [Nat.div_lt_iff_lt_mul (Nat.two_pow_pos _), ← pow_split (by omega)]; exact a4
        rw [lor_eq_add' _ _ _ hq]
        have hk2 : 2 ^ k = 2 ^ W * 2 ^ (k - W) := by rw [← Nat.pow_add]; congr 1; omega
        have hsp : 2 ^ W = 2 ^ (W - (k - W)) * 2 ^ (k - W) := pow_split (by omega)
        have hdm := Nat.div_add_mod (shrInPlaceOneWord ws).2 (2 ^ (k - W))
        have hX : 0 < 2 ^ (W - (k - W)) := Nat.two_pow_pos _
        have hnum : (shrInPlaceOneWord ws).2 % 2 ^ (k - W) * 2 ^ (W - (k - W))
              + 2 ^ W * (k' * 2 ^ (W - (k - W)) + (shrInPlaceOneWord ws).2 / 2 ^ (k - W))
            = ((shrInPlaceOneWord ws).2 + 2 ^ W * k') * 2 ^ (W - (k - W)) := by
          generalize (shrInPlaceOneWord ws).2 / 2 ^ (k - W) = f1 at *
          generalize (shrInPlaceOneWord ws).2 % 2 ^ (k - W) = f0 at *
          generalize (shrInPlaceOneWord ws).2 = first at *
          rw [← hdm, hsp]
          ring
        rw [hnum, Nat.mul_div_cancel _ hX]
      · rw [hk2]
        generalize (shrInPlaceOneWord ws).2 = first at *
        generalize val W (shrInPlaceOneWord ws).1 = V1 at *
        generalize val W (shrInPlace W (shrInPlaceOneWord ws).1 (k - W)).1 = V2 at *
        have e2 : 2 ^ W * (V2 * 2 ^ (k - W) + k') = 2 ^ W * V1 := by rw [hv]
        linarith [e2, a1]
      · rw [hk2]
        calc (shrInPlaceOneWord ws).2 + 2 ^ W * k' < 2 ^ W + 2 ^ W * k' := by omega
          _ = 2 ^ W * (k' + 1) := by ring
          _ ≤ 2 ^ W * 2 ^ (k - W) := Nat.mul_le_mul_left _ hk'
  · rw [if_neg hpw]
    have ⟨l1, l2, l3⟩ := lz_spec (bits := 2 * W) (Nat.pos_iff_ne_zero.mp hrhs) hlt
    have l4 := lz_dword_lt W rhs hW hge
    have hmod : rhs * 2 ^ lz (2 * W) rhs % 2 ^ (2 * W) = rhs * 2 ^ lz (2 * W) rhs := Nat.mod_eq_of_lt l3
    obtain ⟨qs, r, e, rest⟩ :=
      fastDivByDwordInPlace_spec W rhs (lz (2 * W) rhs) ws h hlen hrhs l4 l2 (Nat.le_of_lt l3)
    refine ⟨qs, r, ?_, rest⟩
    simp only [hmod, normNew_ok (2 * W) _ l2, bind, Except.bind, e]

theorem div2by2_snd (W d a : Nat) (hn : 2 ^ (2 * W) ≤ 2 * d) (ha : a < 2 ^ (2 * W)) :
    (div2by2 d a).2 = a % d := by
  unfold div2by2
  by_cases h : a < d
  · simp [h, Nat.mod_eq_of_lt h]
  · simp only [h, if_false]
    have h2 : a - d < d := by omega
    rw [Nat.mod_eq_sub_mod (by omega), Nat.mod_eq_of_lt h2]

theorem dword_lt (W a b : Nat) (ha : a < 2 ^ W) (hb : b < 2 ^ W) : a + 2 ^ W * b < 2 ^ (2 * W) := by
  rw [two_mul_W]; nlinarith

theorem fastRemDwordPairs_spec (W d : Nat) (hd : 0 < d) (hn : 2 ^ (2 * W) ≤ 2 * d) (n : Nat)
    (ws : List Nat) (hl : ws.length = 2 * (n + 1)) (h : IsWords W ws) :
    fastRemDwordPairs W d ws = .ok (val W ws % d) := by
  induction n generalizing ws with
  | zero =>
    rcases ws with _ | ⟨a, _ | ⟨b, _ | ⟨c, t⟩⟩⟩
    · simp at hl
    · simp at hl
    · simp only [fastRemDwordPairs, val_cons, val_nil, Nat.mul_zero, Nat.add_zero]
      rw [div2by2_snd W d _ hn (dword_lt W a b h.head h.tail.head)]
    · simp at hl
  | succ n ih =>
    rcases ws with _ | ⟨a, _ | ⟨b, _ | ⟨c, t⟩⟩⟩
    · simp at hl
    · simp at hl; omega
    · simp at hl
    · have e := ih (c :: t) (by simp at hl ⊢; omega) h.tail.tail
      have hr : val W (c :: t) % d < d := Nat.mod_lt _ hd
      simp only [fastRemDwordPairs, e, bind, Except.bind, div4by2_ok W d _ _ hr, pure, Except.pure]
      rw [mod_step]
      congr 2
      simp only [val_cons]
      rw [two_mul_W]; ring

/-- `fast_rem_by_normalized_dword` = remainder of the slice by the normalised double word `d` -/
theorem fastRemByNormalizedDword_spec (W d : Nat) (hd : 0 < d) (hn : 2 ^ (2 * W) ≤ 2 * d)
    (ws : List Nat) (h : IsWords W ws) (hlen : 2 ≤ ws.length) :
    fastRemByNormalizedDword W d ws = .ok (val W ws % d) := by
  unfold fastRemByNormalizedDword
  by_cases hpar : ws.length % 2 = 0
  · rw [if_pos hpar]
    exact fastRemDwordPairs_spec W d hd hn (ws.length / 2 - 1) ws (by omega) h
  · rw [if_neg hpar]
    rcases ws with _ | ⟨x, rest⟩
    · simp at hlen
    · have e := fastRemDwordPairs_spec W d hd hn (rest.length / 2 - 1) rest
        (by simp at hpar hlen; omega) h.tail
      have hr : val W rest % d < d := Nat.mod_lt _ hd
      simp only [e, bind, Except.bind, div3by2_ok W d _ _ hr, pure, Except.pure]
      rw [mod_step]
      rfl

/-- `rem_by_dword` = remainder of the slice by a divisor in `[2^W, 2^(2W))` -/
theorem remByDword_spec (W rhs : Nat) (hW : 1 ≤ W) (ws : List Nat) (h : IsWords W ws)
    (hlen : 2 ≤ ws.length) (hge : 2 ^ W ≤ rhs) (hlt : rhs < 2 ^ (2 * W)) :
    remByDword W ws rhs = .ok (val W ws % rhs) := by
  have hp : 0 < 2 ^ W := Nat.two_pow_pos W
  have hrhs : 0 < rhs := Nat.lt_of_lt_of_le hp hge
  unfold remByDword
  by_cases hpw : isPow2 rhs = true
  · rw [if_pos hpw]
    have hk := isPow2_log_lt hpw hlt
    have e := isPow2_eq hpw
    rcases ws with _ | ⟨w0, _ | ⟨w1, t⟩⟩
    · simp at hlen
    · simp at hlen
    · simp only [val_cons]
      generalize Nat.log2 rhs = k at *
      subst e
      rw [Nat.and_two_pow_sub_one_eq_mod]
      have : w0 + 2 ^ W * (w1 + 2 ^ W * val W t) = (w0 + 2 ^ W * w1) + 2 ^ (2 * W) * val W t := by
        rw [two_mul_W]; ring
      rw [this, word_mod_pow (2 * W) k _ _ (by omega)]
  · rw [if_neg hpw]
    have ⟨l1, l2, l3⟩ := lz_spec (bits := 2 * W) (Nat.pos_iff_ne_zero.mp hrhs) hlt
    have l4 := lz_dword_lt W rhs hW hge
    have hmod : rhs * 2 ^ lz (2 * W) rhs % 2 ^ (2 * W) = rhs * 2 ^ lz (2 * W) rhs := Nat.mod_eq_of_lt l3
    have hps : 0 < 2 ^ lz (2 * W) rhs := Nat.two_pow_pos _
    have hdpos : 0 < rhs * 2 ^ lz (2 * W) rhs := Nat.mul_pos hrhs hps
    have hn : 2 ^ (2 * W) ≤ 2 * (rhs * 2 ^ lz (2 * W) rhs) := by
      have : 2 ^ (2 * W) = 2 * 2 ^ (2 * W - 1) := by
        rw [← Nat.pow_succ']; congr 1; omega
      omega
    have e := fastRemByNormalizedDword_spec W _ hdpos hn ws h hlen
    have hr : val W ws % (rhs * 2 ^ lz (2 * W) rhs) < rhs * 2 ^ lz (2 * W) rhs := Nat.mod_lt _ hdpos
    have ⟨d1, d2, d3, d4⟩ := shlDword_spec W (val W ws % (rhs * 2 ^ lz (2 * W) rhs)) (lz (2 * W) rhs)
      (by omega) (Nat.lt_trans hr l3)
    generalize hsd : shlDword W (val W ws % (rhs * 2 ^ lz (2 * W) rhs)) (lz (2 * W) rhs) = p at d1 d2 d3 d4
    obtain ⟨a0, a1, a2⟩ := p
    simp only at d1 d2 d3 d4
    have hpre : a1 + 2 ^ W * a2 < rhs * 2 ^ lz (2 * W) rhs := by
      calc a1 + 2 ^ W * a2 < 2 ^ W + 2 ^ W * a2 := by omega
        _ = 2 ^ W * (a2 + 1) := by ring
        _ ≤ 2 ^ W * 2 ^ lz (2 * W) rhs := Nat.mul_le_mul_left _ d4
        _ ≤ 2 ^ (2 * W - 1) := pow_W_shift_le W _ l4
        _ ≤ _ := l2
    simp only [hmod, normNew_ok (2 * W) _ l2, bind, Except.bind, e, hsd, div3by2_ok W _ _ _ hpre,
      pure, Except.pure]
    have : a0 + 2 ^ W * (a1 + 2 ^ W * a2) = val W ws % (rhs * 2 ^ lz (2 * W) rhs) * 2 ^ lz (2 * W) rhs := by
      rw [← d1, two_mul_W]; ring
    rw [this, rem_unshift]

-- ------------------------------------------------------------------ list helpers

theorem getD_eq_of_drop (l : List Nat) (i a : Nat) (t : List Nat) (h : l.drop i = a :: t) :
    l.getD i 0 = a := by
  have : l[i]? = some a := by
    have h2 : (l.drop i)[0]? = l[i + 0]? := List.getElem?_drop
    rw [h] at h2; simpa using h2.symm
  simp [List.getD_eq_getElem?_getD, this]

theorem split_last2_getD (l : List Nat) (h : 2 ≤ l.length) :
    ∃ lo a b, l = lo ++ [a, b] ∧ l.getD (l.length - 2) 0 = a ∧ l.getD (l.length - 1) 0 = b ∧
      lo.length = l.length - 2 := by
  obtain ⟨lo, a, b, hdrop, htake, hsplit⟩ := split_last2 l h
  refine ⟨lo, a, b, hsplit, getD_eq_of_drop l _ a [b] hdrop, ?_, by rw [← htake]; simp⟩
  have h1 : l.drop (l.length - 1) = [b] := by
    have : l.length - 1 = (l.length - 2) + 1 := by omega
    rw [this, ← List.drop_drop, hdrop]; rfl
  exact getD_eq_of_drop l _ b [] h1

theorem split_last1 (l : List Nat) (h : 1 ≤ l.length) :
    ∃ lo a, l = lo ++ [a] ∧ l.getD (l.length - 1) 0 = a ∧ l.take (l.length - 1) = lo ∧
      lo.length = l.length - 1 := by
  have hd : (l.drop (l.length - 1)).length = 1 := by simp only [List.length_drop]; omega
  have hs := (List.take_append_drop (l.length - 1) l).symm
  generalize hdr : l.drop (l.length - 1) = d at hd hs
  rcases d with _ | ⟨a, _ | ⟨c, t⟩⟩
  · simp at hd
  · exact ⟨_, a, hs, getD_eq_of_drop l _ a [] hdr, rfl, by simp⟩
  · simp at hd

theorem take_drop_val (W : Nat) (l : List Nat) (k : Nat) (hk : k ≤ l.length) :
    val W l = val W (l.take k) + 2 ^ (W * k) * val W (l.drop k) := by
  have := val_take_add_drop W l k
  rw [List.length_take, Nat.min_eq_left hk] at this
  exact this

-- ------------------------------------------------------------------ cmp_same_len

theorem cmpSameLen_spec (W : Nat) (as bs : List Nat) (hl : as.length = bs.length)
    (ha : IsWords W as) (hb : IsWords W bs) :
    cmpSameLen as bs = compare (val W as) (val W bs) := by
  induction as generalizing bs with
  | nil =>
    cases bs with
    | nil => simp [cmpSameLen]
    | cons b bs => simp at hl
  | cons a as ih =>
    cases bs with
    | nil => simp at hl
    | cons b bs =>
      have e := ih bs (by simpa using hl) ha.tail hb.tail
      have ha0 := ha.head
      have hb0 := hb.head
      simp only [cmpSameLen, e, val_cons]
      rcases Nat.lt_trichotomy (val W as) (val W bs) with hlt | heq | hgt
      · rw [Nat.compare_eq_lt.mpr hlt]
        symm; rw [Nat.compare_eq_lt]
        have : 2 ^ W * (val W as + 1) ≤ 2 ^ W * val W bs := Nat.mul_le_mul_left _ hlt
        nlinarith
      · rw [heq, Nat.compare_eq_eq.mpr rfl]
        simp only
        rcases Nat.lt_trichotomy a b with h1 | h1 | h1
        · rw [Nat.compare_eq_lt.mpr h1]; symm; rw [Nat.compare_eq_lt]; omega
        · subst h1; simp
        · rw [Nat.compare_eq_gt.mpr h1]; symm; rw [Nat.compare_eq_gt]; omega
      · rw [Nat.compare_eq_gt.mpr hgt]
        symm; rw [Nat.compare_eq_gt]
        have : 2 ^ W * (val W bs + 1) ≤ 2 ^ W * val W as := Nat.mul_le_mul_left _ hgt
        nlinarith

-- ------------------------------------------------------------------ sub_mul_word_same_len_in_place

/-- loop invariant in additive form: `cpm + bin = B − 1` (borrow-in), result borrow `bout` -/
theorem subMulLoop_spec (W mult : Nat) (hm : mult < 2 ^ W) (as bs : List Nat) (cpm bin : Nat)
    (hl : as.length = bs.length) (ha : IsWords W as) (hb : IsWords W bs)
    (hc : cpm + bin = 2 ^ W - 1) :
    let r := subMulLoop W mult as bs cpm
    ∃ bout, r.2 + bout = 2 ^ W - 1 ∧
      val W r.1 + mult * val W bs + bin = val W as + bout * 2 ^ (W * as.length) ∧
      r.1.length = as.length ∧ IsWords W r.1 := by
  induction as generalizing bs cpm bin with
  | nil =>
    cases bs with
    | nil => exact ⟨bin, by simp [subMulLoop, hc, IsWords.nil]⟩
    | cons b bs => simp at hl
  | cons a as ih =>
    cases bs with
    | nil => simp at hl
    | cons b bs =>
      have hp : 0 < 2 ^ W := Nat.two_pow_pos W
      have ha0 := ha.head
      have hb0 := hb.head
      -- no underflow, and the new carry is a word
      have hmb : mult * b ≤ (2 ^ W - 1) * (2 ^ W - 1) := Nat.mul_le_mul (by omega) (by omega)
      have hv : a + cpm + (2 ^ W - 1) * (2 ^ W - 1) - mult * b < 2 ^ W * 2 ^ W := by
        have : (2 ^ W - 1) * (2 ^ W - 1) + 2 * (2 ^ W - 1) + 1 = 2 ^ W * 2 ^ W := by
          have : 2 ^ W - 1 + 1 = 2 ^ W := by omega
          generalize 2 ^ W - 1 = M at *
          rw [← this]; ring
        omega
      have hc1 : (a + cpm + (2 ^ W - 1) * (2 ^ W - 1) - mult * b) / 2 ^ W ≤ 2 ^ W - 1 := by
        have := (Nat.div_lt_iff_lt_mul hp).mpr hv
        omega
      obtain ⟨bout, i1, i2, i3, i4⟩ := ih bs
        ((a + cpm + (2 ^ W - 1) * (2 ^ W - 1) - mult * b) / 2 ^ W)
        (2 ^ W - 1 - (a + cpm + (2 ^ W - 1) * (2 ^ W - 1) - mult * b) / 2 ^ W)
        (by simpa using hl) ha.tail hb.tail (by omega)
      refine ⟨bout, i1, ?_, by simp [subMulLoop, i3], IsWords.cons (Nat.mod_lt _ hp) i4⟩
      simp only [subMulLoop, val_cons, List.length_cons]
      have hP : 2 ^ (W * (as.length + 1)) = 2 ^ (W * as.length) * 2 ^ W := by
        rw [Nat.mul_add, Nat.mul_one, Nat.pow_add]
      rw [hP]
      have hdm := Nat.div_add_mod (a + cpm + (2 ^ W - 1) * (2 ^ W - 1) - mult * b) (2 ^ W)
      generalize hvv : a + cpm + (2 ^ W - 1) * (2 ^ W - 1) - mult * b = v at *
      have hv' : v + mult * b = a + cpm + (2 ^ W - 1) * (2 ^ W - 1) := by omega
      generalize v / 2 ^ W = c1 at *
      generalize v % 2 ^ W = d0 at *
      generalize hM : 2 ^ W - 1 = M at *
      have hB : 2 ^ W = M + 1 := by omega
      generalize 2 ^ (W * as.length) = P at *
      generalize val W (subMulLoop W mult as bs c1).1 = V at *
      have e : (M + 1) * (V + mult * val W bs + (M - c1)) = (M + 1) * (val W as + bout * P) := by rw [i2]
      have hc1' : c1 + (M - c1) = M := by omega
      generalize M - c1 = k at *
      rw [hB] at hdm ⊢
      have h5 : (M + 1) * (c1 + k) = (M + 1) * M := by rw [hc1']
      linarith [e, hdm, hv', hc, h5]

/-- `sub_mul_word_same_len_in_place`: words − mult·rhs, borrow out -/
theorem subMulWordSameLen_spec (W mult : Nat) (hm : mult < 2 ^ W) (ws rhs : List Nat)
    (hl : ws.length = rhs.length) (hw : IsWords W ws) (hr : IsWords W rhs) :
    let r := subMulWordSameLen W ws mult rhs
    val W r.1 + mult * val W rhs = val W ws + r.2 * 2 ^ (W * ws.length) ∧
    r.1.length = ws.length ∧ IsWords W r.1 := by
  unfold subMulWordSameLen
  by_cases h0 : mult = 0
  · simp [h0, hw]
  · simp only [h0, if_false]
    obtain ⟨bout, i1, i2, i3, i4⟩ := subMulLoop_spec W mult hm ws rhs (2 ^ W - 1) 0 hl hw hr (by omega)
    refine ⟨?_, i3, i4⟩
    have : 2 ^ W - 1 - (subMulLoop W mult ws rhs (2 ^ W - 1)).2 = bout := by omega
    simp only [this]
    simpa using i2

-- ------------------------------------------------------------------ Knuth D: one quotient word

/-- correction step of `div_rem_highest_word`: given an estimate `qh` that is never too small
    (`A < (qh+1)·b`) and too large by at most one (`qh·b ≤ A + b`), the subtract / add-back
    sequence leaves the exact quotient word and remainder; the `debug_assert!`s hold. -/
theorem correctStep_spec (W : Nat) (lhsTop qh : Nat) (lhsLo rhs : List Nat)
    (hL : rhs.length ≤ lhsLo.length) (hlo : IsWords W lhsLo) (hr : IsWords W rhs)
    (hqh : qh < 2 ^ W)
    (hF1 : val W (lhsLo.drop (lhsLo.length - rhs.length)) + lhsTop * 2 ^ (W * rhs.length)
        < (qh + 1) * val W rhs)
    (hF2 : qh * val W rhs
        ≤ val W (lhsLo.drop (lhsLo.length - rhs.length)) + lhsTop * 2 ^ (W * rhs.length) + val W rhs) :
    ∃ q win', correctStep W lhsTop lhsLo rhs qh
        = .ok (q, lhsLo.take (lhsLo.length - rhs.length) ++ win') ∧
      q ≤ qh ∧ win'.length = rhs.length ∧ IsWords W win' ∧ val W win' < val W rhs ∧
      q * val W rhs + val W win'
        = val W (lhsLo.drop (lhsLo.length - rhs.length)) + lhsTop * 2 ^ (W * rhs.length) := by
  have hwl : (lhsLo.drop (lhsLo.length - rhs.length)).length = rhs.length := by
    simp only [List.length_drop]; omega
  have hww : IsWords W (lhsLo.drop (lhsLo.length - rhs.length)) := hlo.drop _
  have sm := subMulWordSameLen_spec W qh hqh _ rhs hwl hww hr
  generalize hsm : subMulWordSameLen W (lhsLo.drop (lhsLo.length - rhs.length)) qh rhs = p at sm
  obtain ⟨win1, borrow⟩ := p
  simp only at sm
  obtain ⟨m1, m2, m3⟩ := sm
  rw [hwl] at m1 m2
  have hw1lt : val W win1 < 2 ^ (W * rhs.length) := by
    have := val_lt W win1 m3; rwa [m2] at this
  have hblt : val W rhs < 2 ^ (W * rhs.length) := val_lt W rhs hr
  generalize hwin : val W (lhsLo.drop (lhsLo.length - rhs.length)) = vwin at *
  generalize hP : 2 ^ (W * rhs.length) = P at *
  generalize hb : val W rhs = b at *
  by_cases hcase : qh * b ≤ vwin + lhsTop * P
  · -- estimate exact: borrow = lhs_top
    have hbor : borrow = lhsTop := by
      rcases Nat.lt_trichotomy borrow lhsTop with h | h | h
      · exfalso
        have : (borrow + 1) * P ≤ lhsTop * P := Nat.mul_le_mul_right _ h
        nlinarith
      · exact h
      · exfalso
        have : (lhsTop + 1) * P ≤ borrow * P := Nat.mul_le_mul_right _ h
        nlinarith
    subst hbor
    refine ⟨qh, win1, ?_, Nat.le_refl _, m2, m3, by nlinarith, by linarith⟩
    simp only [correctStep, hsm, Nat.lt_irrefl, if_false, ne_eq, not_true_eq_false]
  · -- estimate one too large: borrow = lhs_top + 1, add back
    have hcase' : vwin + lhsTop * P < qh * b := Nat.lt_of_not_le hcase
    have hbor : borrow = lhsTop + 1 := by
      rcases Nat.lt_trichotomy borrow (lhsTop + 1) with h | h | h
      · exfalso
        have : borrow * P ≤ lhsTop * P := Nat.mul_le_mul_right _ (by omega)
        nlinarith
      · exact h
      · exfalso
        have : (lhsTop + 2) * P ≤ borrow * P := Nat.mul_le_mul_right _ h
        nlinarith
    subst hbor
    have ad := addSameLen_spec W win1 rhs 0 m3 hr m2 (by omega)
    generalize had : addSameLen W win1 rhs 0 = p2 at ad
    obtain ⟨win2, carry⟩ := p2
    simp only at ad
    obtain ⟨d1, d2, d3, d4⟩ := ad
    rw [m2, hP, hb] at d1
    have hw2lt : val W win2 < P := by
      have := val_lt W win2 d3; rwa [d2, m2, hP] at this
    have hqpos : 1 ≤ qh := by
      rcases Nat.eq_zero_or_pos qh with h | h
      · subst h; simp at hcase'
      · exact h
    have hcarry : carry = 1 := by
      rcases Nat.lt_or_ge carry 1 with h | h
      · exfalso
        have : carry = 0 := by omega
        subst this
        nlinarith
      · omega
    subst hcarry
    obtain ⟨q', rfl⟩ : ∃ q', qh = q' + 1 := ⟨qh - 1, by omega⟩
    refine ⟨q', win2, ?_, by omega, by rw [d2, m2], d3, by nlinarith, by nlinarith⟩
    simp only [correctStep, hsm, had, Nat.lt_add_one, if_true, Nat.add_sub_cancel, ne_eq,
      not_true_eq_false, if_false, Nat.succ_ne_zero, Nat.add_one_ne_zero, one_ne_zero]

theorem pow_two_mul_half (W : Nat) (hW : 1 ≤ W) : 2 ^ W = 2 * 2 ^ (W - 1) := by
  rw [← Nat.pow_succ']; congr 1; omega

/-- a normalised divisor (`B^n ≤ 2b`) has the top bit of its top word set -/
theorem norm_top (B P2 vrlo r0 r1 h : Nat) (hB : B = 2 * h) (h1 : vrlo < P2) (h2 : r0 < B)
    (hn : P2 * B * B ≤ 2 * (vrlo + P2 * (r0 + B * r1))) : B ≤ 2 * r1 := by
  by_contra hcon
  have hlt : 2 * r1 + 2 ≤ B := by omega
  have e1 : P2 * B * (2 * r1 + 2) ≤ P2 * B * B := Nat.mul_le_mul_left _ hlt
  have e2 : P2 * (r0 + 1) ≤ P2 * B := Nat.mul_le_mul_left _ h2
  nlinarith

/-- Knuth's estimate with the 3-by-2 quotient: never too small, too large by at most one
    (pure arithmetic; `d = r0 + B·r1 ≥ B` is the top double word of the divisor) -/
theorem est_case1 (B P2 l1 l2 t r0 r1 vwlo vrlo : Nat) (hl1 : l1 < B) (hl2 : l2 < B)
    (ht : t < r1) (h1 : vwlo < P2) (h2 : vrlo < P2) :
    l1 + B * t < r0 + B * r1 ∧
    (l2 + B * (l1 + B * t)) / (r0 + B * r1) < B ∧
    vwlo + P2 * (l2 + B * l1) + t * (P2 * B * B)
      < ((l2 + B * (l1 + B * t)) / (r0 + B * r1) + 1) * (vrlo + P2 * (r0 + B * r1)) ∧
    (l2 + B * (l1 + B * t)) / (r0 + B * r1) * (vrlo + P2 * (r0 + B * r1))
      ≤ vwlo + P2 * (l2 + B * l1) + t * (P2 * B * B) + (vrlo + P2 * (r0 + B * r1)) := by
  have hpre : l1 + B * t < r0 + B * r1 := by
    have : B * (t + 1) ≤ B * r1 := Nat.mul_le_mul_left _ ht
    nlinarith
  have hdpos : 0 < r0 + B * r1 := by omega
  have hdm := Nat.div_add_mod (l2 + B * (l1 + B * t)) (r0 + B * r1)
  have hml := Nat.mod_lt (l2 + B * (l1 + B * t)) hdpos
  have hqlt : (l2 + B * (l1 + B * t)) / (r0 + B * r1) < B := by
    rw [Nat.div_lt_iff_lt_mul hdpos]
    have : B * (l1 + B * t + 1) ≤ B * (r0 + B * r1) := Nat.mul_le_mul_left _ hpre
    nlinarith
  refine ⟨hpre, hqlt, ?_, ?_⟩
  · generalize (l2 + B * (l1 + B * t)) / (r0 + B * r1) = q at *
    generalize (l2 + B * (l1 + B * t)) % (r0 + B * r1) = rr at *
    have e1 : P2 * (B * (l1 + B * t) + l2 + 1) ≤ P2 * ((r0 + B * r1) * (q + 1)) :=
      Nat.mul_le_mul_left _ (by nlinarith)
    nlinarith
  · generalize (l2 + B * (l1 + B * t)) / (r0 + B * r1) = q at *
    generalize (l2 + B * (l1 + B * t)) % (r0 + B * r1) = rr at *
    have e1 : P2 * ((r0 + B * r1) * q) ≤ P2 * (l2 + B * (l1 + B * t)) :=
      Nat.mul_le_mul_left _ (by omega)
    have e2 : q * vrlo ≤ B * P2 := Nat.mul_le_mul (by omega) (by omega)
    have e3 : P2 * B ≤ P2 * (r0 + B * r1) := Nat.mul_le_mul_left _ (by nlinarith)
    nlinarith

/-- the estimate `B − 1` (taken when `lhs_top ≥ rhs_top`) is too large by at most one -/
theorem est_case2 (M P2 l1 l2 t r0 r1 vwlo vrlo : Nat) (hr0 : r0 ≤ M) (ht : r1 ≤ t)
    (h2 : vrlo < P2) (hn : M + 1 ≤ 2 * r1) :
    M * (vrlo + P2 * (r0 + (M + 1) * r1))
      ≤ vwlo + P2 * (l2 + (M + 1) * l1) + t * (P2 * (M + 1) * (M + 1)) + (vrlo + P2 * (r0 + (M + 1) * r1)) := by
  have e1 : P2 * (M + 1) * (M + 1) * r1 ≤ P2 * (M + 1) * (M + 1) * t := Nat.mul_le_mul_left _ ht
  have e2 : M * vrlo ≤ M * P2 := Nat.mul_le_mul_left _ (by omega)
  have e3 : M * (P2 * r0) ≤ M * (P2 * M) := Nat.mul_le_mul_left _ (Nat.mul_le_mul_left _ hr0)
  have e4 : P2 * (M + 1) * (M + 1) ≤ P2 * (M + 1) * (2 * r1) := Nat.mul_le_mul_left _ hn
  have n1 := Nat.zero_le (P2 * M)
  have n2 := Nat.zero_le (P2 * l2)
  have n3 := Nat.zero_le (P2 * M * l1)
  have n4 := Nat.zero_le (P2 * l1)
  have n5 := Nat.zero_le (P2 * r0)
  linarith

/-- the estimate of `div_rem_highest_word` (3-by-2 quotient of the top words, or `B − 1`) is
    never too small and too large by at most one -/
theorem qEstimate_spec (W : Nat) (hW : 1 ≤ W) (lhsTop : Nat) (lhsLo rhs : List Nat)
    (hn : 2 ≤ rhs.length) (hL : rhs.length ≤ lhsLo.length)
    (hlo : IsWords W lhsLo) (hr : IsWords W rhs)
    (hnorm : 2 ^ (W * rhs.length) ≤ 2 * val W rhs)
    (hA : val W (lhsLo.drop (lhsLo.length - rhs.length)) + lhsTop * 2 ^ (W * rhs.length)
        < val W rhs * 2 ^ W) :
    ∃ qh, qEstimate W lhsTop lhsLo rhs (highestDword W rhs) = .ok qh ∧ qh < 2 ^ W ∧
      val W (lhsLo.drop (lhsLo.length - rhs.length)) + lhsTop * 2 ^ (W * rhs.length)
        < (qh + 1) * val W rhs ∧
      qh * val W rhs
        ≤ val W (lhsLo.drop (lhsLo.length - rhs.length)) + lhsTop * 2 ^ (W * rhs.length) + val W rhs := by
  have hp : 0 < 2 ^ W := Nat.two_pow_pos W
  -- decompose rhs and the window
  obtain ⟨rlo, r0, r1, hrs, hg0, hg1, hrl⟩ := split_last2_getD rhs hn
  obtain ⟨llo, l2, l1, hls, hh0, hh1, hll⟩ := split_last2_getD lhsLo (by omega)
  have hr0 : r0 < 2 ^ W := hr r0 (by rw [hrs]; simp)
  have hl2 : l2 < 2 ^ W := hlo l2 (by rw [hls]; simp)
  have hl1 : l1 < 2 ^ W := hlo l1 (by rw [hls]; simp)
  have hrlo : IsWords W rlo := fun x hx => hr x (by rw [hrs]; simp [hx])
  have hllo : IsWords W llo := fun x hx => hlo x (by rw [hls]; simp [hx])
  have hwin : lhsLo.drop (lhsLo.length - rhs.length)
      = llo.drop (lhsLo.length - rhs.length) ++ [l2, l1] :=
    (congrArg (List.drop _) hls).trans (List.drop_append_of_le_length (by omega))
  have hwlo : IsWords W (llo.drop (lhsLo.length - rhs.length)) := hllo.drop _
  have hwlen : (llo.drop (lhsLo.length - rhs.length)).length = rhs.length - 2 := by
    simp only [List.length_drop]; omega
  have hvb : val W rhs = val W rlo + 2 ^ (W * (rhs.length - 2)) * (r0 + 2 ^ W * r1) := by
    conv => lhs; rw [hrs]
    rw [val_append_two, hrl]
  have hvw : val W (lhsLo.drop (lhsLo.length - rhs.length))
      = val W (llo.drop (lhsLo.length - rhs.length)) + 2 ^ (W * (rhs.length - 2)) * (l2 + 2 ^ W * l1) := by
    rw [hwin, val_append_two, hwlen]
  have hrlolt : val W rlo < 2 ^ (W * (rhs.length - 2)) := by
    have := val_lt W rlo hrlo; rwa [hrl] at this
  have hwlolt : val W (llo.drop (lhsLo.length - rhs.length)) < 2 ^ (W * (rhs.length - 2)) := by
    have := val_lt W _ hwlo; rwa [hwlen] at this
  have hPn : 2 ^ (W * rhs.length) = 2 ^ (W * (rhs.length - 2)) * 2 ^ W * 2 ^ W := by
    rw [← Nat.pow_add, ← Nat.pow_add]; congr 1
    have : rhs.length = rhs.length - 2 + 2 := by omega
    conv => lhs; rw [this]
    ring
  have hdt : highestDword W rhs = r0 + 2 ^ W * r1 := by simp only [highestDword, hg0, hg1]
  have hhd : highestDword W lhsLo = l2 + 2 ^ W * l1 := by simp only [highestDword, hh0, hh1]
  have hhdm : (l2 + 2 ^ W * l1) % 2 ^ W = l2 := by
    rw [Nat.add_mul_mod_self_left]; exact Nat.mod_eq_of_lt hl2
  have hhdd : (l2 + 2 ^ W * l1) / 2 ^ W = l1 := add_mul_div_word W l2 l1 hl2
  have hhalf := pow_two_mul_half W hW
  have hr1n : 2 ^ W ≤ 2 * r1 := by
    apply norm_top (2 ^ W) (2 ^ (W * (rhs.length - 2))) (val W rlo) r0 r1 _ hhalf hrlolt hr0
    rw [← hPn, ← hvb]; exact hnorm
  simp only [qEstimate, hg1, hhd, hhdm, hhdd, hdt]
  rw [hvw, hvb, hPn]
  by_cases hc : lhsTop < r1
  · obtain ⟨c1, c2, c3, c4⟩ := est_case1 (2 ^ W) (2 ^ (W * (rhs.length - 2))) l1 l2 lhsTop r0 r1
      (val W (llo.drop (lhsLo.length - rhs.length))) (val W rlo) hl1 hl2 hc hwlolt hrlolt
    refine ⟨_, ?_, c2, c3, c4⟩
    simp only [hc, if_true, bind, Except.bind, div3by2_ok W _ _ _ c1, pure, Except.pure]
  · have hc' : r1 ≤ lhsTop := Nat.le_of_not_lt hc
    refine ⟨2 ^ W - 1, ?_, by omega, ?_, ?_⟩
    · simp only [hc, if_false, pure, Except.pure]
    · have : 2 ^ W - 1 + 1 = 2 ^ W := by omega
      rw [this]
      have hA' := hA
      rw [hvw, hvb, hPn] at hA'
      exact Nat.lt_of_lt_of_eq hA' (Nat.mul_comm _ _)
    · have hB : 2 ^ W = (2 ^ W - 1) + 1 := by omega
      have := est_case2 (2 ^ W - 1) (2 ^ (W * (rhs.length - 2))) l1 l2 lhsTop r0 r1
        (val W (llo.drop (lhsLo.length - rhs.length))) (val W rlo) (by omega) hc' hrlolt (by omega)
      rw [← hB] at this
      exact this

/-- `div_rem_highest_word`: one exact quotient word of the (n+1)-word window by the normalised
    divisor, remainder in the window -/
theorem divRemHighestWord_spec (W : Nat) (hW : 1 ≤ W) (lhsTop : Nat) (lhsLo rhs : List Nat)
    (hn : 2 ≤ rhs.length) (hL : rhs.length ≤ lhsLo.length)
    (hlo : IsWords W lhsLo) (hr : IsWords W rhs)
    (hnorm : 2 ^ (W * rhs.length) ≤ 2 * val W rhs)
    (hA : val W (lhsLo.drop (lhsLo.length - rhs.length)) + lhsTop * 2 ^ (W * rhs.length)
        < val W rhs * 2 ^ W) :
    ∃ q win', divRemHighestWord W lhsTop lhsLo rhs (highestDword W rhs)
        = .ok (q, lhsLo.take (lhsLo.length - rhs.length) ++ win') ∧
      q < 2 ^ W ∧ win'.length = rhs.length ∧ IsWords W win' ∧ val W win' < val W rhs ∧
      q * val W rhs + val W win'
        = val W (lhsLo.drop (lhsLo.length - rhs.length)) + lhsTop * 2 ^ (W * rhs.length) := by
  obtain ⟨qh, e, hq, f1, f2⟩ := qEstimate_spec W hW lhsTop lhsLo rhs hn hL hlo hr hnorm hA
  obtain ⟨q, win', e2, hle, r1, r2, r3, r4⟩ := correctStep_spec W lhsTop qh lhsLo rhs hL hlo hr hq f1 f2
  refine ⟨q, win', ?_, by omega, r1, r2, r3, r4⟩
  simp only [divRemHighestWord, e, bind, Except.bind, e2]

-- ------------------------------------------------------------------ Knuth D: the loop

theorem val_append_one (W : Nat) (l : List Nat) (a : Nat) :
    val W (l ++ [a]) = val W l + 2 ^ (W * l.length) * a := by
  rw [val_append]; simp

/-- the `while rem.len() > n` loop: exact quotient words and remainder -/
theorem simpleLoop_spec (W : Nat) (hW : 1 ≤ W) (rhs : List Nat) (hn : 2 ≤ rhs.length)
    (hr : IsWords W rhs) (hnorm : 2 ^ (W * rhs.length) ≤ 2 * val W rhs) (k : Nat) (lhs : List Nat)
    (hlen : lhs.length = rhs.length + k) (hl : IsWords W lhs)
    (hinv : val W (lhs.drop k) < val W rhs) :
    ∃ out, simpleLoop W rhs (highestDword W rhs) k lhs = .ok out ∧ out.length = lhs.length ∧
      IsWords W out ∧ val W (out.take rhs.length) < val W rhs ∧
      val W (out.drop rhs.length) * val W rhs + val W (out.take rhs.length) = val W lhs := by
  induction k generalizing lhs with
  | zero =>
    refine ⟨lhs, by simp [simpleLoop], rfl, hl, ?_, ?_⟩
    · rw [List.take_of_length_le (by omega)]; simpa using hinv
    · rw [List.take_of_length_le (by omega), List.drop_of_length_le (by omega)]; simp
  | succ k ih =>
    obtain ⟨lo, top, hsplit, hgd, htk, hlol⟩ := split_last1 lhs (by omega)
    have hlo : IsWords W lo := by rw [← htk]; exact hl.take _
    have htop : top < 2 ^ W := hl top (by rw [hsplit]; simp)
    have hlolen : lo.length = rhs.length + k := by omega
    have hk : lo.length - rhs.length = k := by omega
    -- the precondition of div_rem_highest_word
    have hdk : lo.drop k = lo[k]'(by omega) :: lo.drop (k + 1) := List.drop_eq_getElem_cons (by omega)
    have hwk : lo[k]'(by omega) < 2 ^ W := hlo _ (List.getElem_mem _)
    have hd1 : lhs.drop (k + 1) = lo.drop (k + 1) ++ [top] :=
      (congrArg (List.drop _) hsplit).trans (List.drop_append_of_le_length (by omega))
    have hl1 : (lo.drop (k + 1)).length = rhs.length - 1 := by simp only [List.length_drop]; omega
    rw [hd1, val_append_one, hl1] at hinv
    have hPn : 2 ^ (W * rhs.length) = 2 ^ W * 2 ^ (W * (rhs.length - 1)) := by
      rw [← Nat.pow_add]; congr 1
      have : rhs.length = 1 + (rhs.length - 1) := by omega
      conv => lhs; rw [this]
      ring
    have hA : val W (lo.drop (lo.length - rhs.length)) + top * 2 ^ (W * rhs.length)
        < val W rhs * 2 ^ W := by
      rw [hk, hdk, val_cons, hPn]
      generalize val W (lo.drop (k + 1)) = v at *
      generalize 2 ^ (W * (rhs.length - 1)) = P1 at *
      generalize lo[k]'(by omega) = w at *
      have : 2 ^ W * (v + P1 * top + 1) ≤ 2 ^ W * val W rhs := Nat.mul_le_mul_left _ hinv
      nlinarith
    obtain ⟨q, win', e, hq, hwl, hww, hwlt, hweq⟩ :=
      divRemHighestWord_spec W hW top lo rhs hn (by omega) hlo hr hnorm hA
    rw [hk] at e hweq
    -- recursion on the shrunk remainder
    have htkl : (lo.take k).length = k := by rw [List.length_take]; omega
    have hlo' : IsWords W (lo.take k ++ win') := IsWords.append (hlo.take _) hww
    have hdrop' : (lo.take k ++ win').drop k = win' := by
      have := List.drop_left' (l₁ := lo.take k) (l₂ := win') htkl
      exact this
    obtain ⟨out', e2, o1, o2, o3, o4⟩ := ih (lo.take k ++ win')
      (by rw [List.length_append, htkl, hwl]; omega) hlo' (by rw [hdrop']; exact hwlt)
    have ho1 : out'.length = rhs.length + k := by
      rw [o1, List.length_append, htkl, hwl]; omega
    refine ⟨out' ++ [q], ?_, ?_, IsWords.append o2 (IsWords.cons hq (IsWords.nil W)), ?_, ?_⟩
    · simp only [simpleLoop, hgd, htk, e, bind, Except.bind, e2, pure, Except.pure]
    · rw [List.length_append, ho1, hlen]; simp; omega
    · rw [List.take_append_of_le_length (by omega)]; exact o3
    · rw [List.take_append_of_le_length (by omega), List.drop_append_of_le_length (by omega),
        val_append_one]
      have hdl : (out'.drop rhs.length).length = k := by simp only [List.length_drop]; omega
      rw [hdl]
      have hvlo' : val W (lo.take k ++ win') = val W (lo.take k) + 2 ^ (W * k) * val W win' := by
        rw [val_append, htkl]
      have hvlo := take_drop_val W lo k (by omega)
      have hvl : val W lhs = val W lo + 2 ^ (W * (rhs.length + k)) * top := by
        conv => lhs; rw [hsplit]
        rw [val_append_one, hlolen]
      have hPk : 2 ^ (W * (rhs.length + k)) = 2 ^ (W * k) * 2 ^ (W * rhs.length) := by
        rw [← Nat.pow_add]; congr 1; ring
      rw [hvl, hvlo, hPk]
      rw [hvlo'] at o4
      generalize val W (out'.drop rhs.length) = Q at *
      generalize val W (out'.take rhs.length) = R at *
      generalize val W (lo.take k) = L at *
      generalize val W (lo.drop k) = Wn at *
      generalize 2 ^ (W * k) = Pk at *
      generalize 2 ^ (W * rhs.length) = Pn at *
      have e3 : Pk * (q * val W rhs + val W win') = Pk * (Wn + top * Pn) := by rw [hweq]
      linarith [e3, o4]

/-- `simple::div_rem_in_place`: lhs becomes [lhs % rhs, lhs / rhs], the quotient carry is the
    comparison of the top words with the divisor -/
theorem simpleDivRemInPlace_spec (W : Nat) (hW : 1 ≤ W) (lhs rhs : List Nat) (hn : 2 ≤ rhs.length)
    (hm : rhs.length ≤ lhs.length) (hl : IsWords W lhs) (hr : IsWords W rhs)
    (hnorm : 2 ^ (W * rhs.length) ≤ 2 * val W rhs) :
    ∃ out c, simpleDivRemInPlace W lhs rhs (highestDword W rhs) = .ok (out, c) ∧
      out.length = lhs.length ∧ IsWords W out ∧ c ≤ 1 ∧ val W (out.take rhs.length) < val W rhs ∧
      (val W (out.drop rhs.length) + c * 2 ^ (W * (lhs.length - rhs.length))) * val W rhs
        + val W (out.take rhs.length) = val W lhs := by
  have htl : (lhs.drop (lhs.length - rhs.length)).length = rhs.length := by
    simp only [List.length_drop]; omega
  have htw : IsWords W (lhs.drop (lhs.length - rhs.length)) := hl.drop _
  have hlw : IsWords W (lhs.take (lhs.length - rhs.length)) := hl.take _
  have hll : (lhs.take (lhs.length - rhs.length)).length = lhs.length - rhs.length := by
    rw [List.length_take]; omega
  have hcmp := cmpSameLen_spec W _ rhs htl htw hr
  have hvl := take_drop_val W lhs (lhs.length - rhs.length) (by omega)
  have htlt : val W (lhs.drop (lhs.length - rhs.length)) < 2 ^ (W * rhs.length) := by
    have := val_lt W _ htw; rwa [htl] at this
  by_cases hge : val W rhs ≤ val W (lhs.drop (lhs.length - rhs.length))
  · -- quotient carry: subtract rhs from the top words first
    have hc : (cmpSameLen (lhs.drop (lhs.length - rhs.length)) rhs != .lt) = true := by
      rw [hcmp]
      rcases Nat.lt_or_eq_of_le hge with h | h
      · rw [Nat.compare_eq_gt.mpr h]; rfl
      · rw [Nat.compare_eq_eq.mpr h.symm]; rfl
    have ⟨s1, s2, s3, s4⟩ := subSameLen_spec W _ rhs 0 htw hr htl (by omega)
    rw [htl] at s1 s2
    have hslt : val W (subSameLen W (lhs.drop (lhs.length - rhs.length)) rhs 0).1 < 2 ^ (W * rhs.length) := by
      have := val_lt W _ s3; rwa [s2] at this
    have hb0 : (subSameLen W (lhs.drop (lhs.length - rhs.length)) rhs 0).2 = 0 := by
      rcases Nat.eq_zero_or_pos (subSameLen W (lhs.drop (lhs.length - rhs.length)) rhs 0).2 with h | h
      · exact h
      · exfalso
        have : 2 ^ (W * rhs.length) * 1 ≤ 2 ^ (W * rhs.length) * (subSameLen W (lhs.drop (lhs.length - rhs.length)) rhs 0).2 :=
          Nat.mul_le_mul_left _ h
        omega
    rw [hb0] at s1
    obtain ⟨out, e, o1, o2, o3, o4⟩ := simpleLoop_spec W hW rhs hn hr hnorm (lhs.length - rhs.length)
      (lhs.take (lhs.length - rhs.length) ++ (subSameLen W (lhs.drop (lhs.length - rhs.length)) rhs 0).1)
      (by rw [List.length_append, hll, s2]; omega) (IsWords.append hlw s3)
      (by rw [List.drop_left' hll]; omega)
    refine ⟨out, 1, ?_, by rw [o1, List.length_append, hll, s2]; omega, o2, Nat.le_refl _, o3, ?_⟩
    · have h1 : ¬ rhs.length < 2 := by omega
      have h2 : ¬ lhs.length < rhs.length := by omega
      simp only [simpleDivRemInPlace, h1, h2, if_false, hc, if_true, e, bind, Except.bind, pure,
        Except.pure]
    · rw [val_append, hll] at o4
      rw [hvl]
      generalize val W (out.drop rhs.length) = Q at *
      generalize val W (out.take rhs.length) = R at *
      generalize val W (lhs.take (lhs.length - rhs.length)) = L at *
      generalize val W (lhs.drop (lhs.length - rhs.length)) = T at *
      generalize val W (subSameLen W _ rhs 0).1 = S at *
      generalize 2 ^ (W * (lhs.length - rhs.length)) = Pk at *
      have e3 : Pk * (S + val W rhs + 0) = Pk * (T + 2 ^ (W * rhs.length) * 0) := by rw [s1]
      linarith [e3, o4]
  · have hlt : val W (lhs.drop (lhs.length - rhs.length)) < val W rhs := Nat.lt_of_not_le hge
    have hc : (cmpSameLen (lhs.drop (lhs.length - rhs.length)) rhs != .lt) = false := by
      rw [hcmp, Nat.compare_eq_lt.mpr hlt]; rfl
    obtain ⟨out, e, o1, o2, o3, o4⟩ := simpleLoop_spec W hW rhs hn hr hnorm (lhs.length - rhs.length)
      (lhs.take (lhs.length - rhs.length) ++ lhs.drop (lhs.length - rhs.length))
      (by rw [List.length_append, hll, htl]; omega) (IsWords.append hlw htw)
      (by rw [List.drop_left' hll]; exact hlt)
    refine ⟨out, 0, ?_, by rw [o1, List.take_append_drop], o2, by omega, o3, ?_⟩
    · have h1 : ¬ rhs.length < 2 := by omega
      have h2 : ¬ lhs.length < rhs.length := by omega
      simp only [simpleDivRemInPlace, h1, h2, if_false, hc, Bool.false_eq_true, e, bind, Except.bind,
        pure, Except.pure]
    · rw [List.take_append_drop] at o4
      simpa using o4

-- ------------------------------------------------------------------ frontier kernel, algorithm choice

theorem toWords_spec (W n v : Nat) :
    (toWords W n v).length = n ∧ IsWords W (toWords W n v) ∧ val W (toWords W n v) = v % 2 ^ (W * n) := by
  induction n generalizing v with
  | zero => simp [toWords, IsWords.nil, Nat.mod_one]
  | succ n ih =>
    obtain ⟨i1, i2, i3⟩ := ih (v / 2 ^ W)
    refine ⟨by simp [toWords, i1], IsWords.cons (Nat.mod_lt _ (Nat.two_pow_pos W)) i2, ?_⟩
    simp only [toWords, val_cons, i3]
    have : 2 ^ (W * (n + 1)) = 2 ^ W * 2 ^ (W * n) := by rw [← Nat.pow_add]; congr 1; ring
    rw [this, Nat.mod_mul, Nat.add_comm]

/-- the frontier kernel meets the in-place division contract by definition -/
theorem divRemInPlaceDCFrontier_spec (W : Nat) (lhs rhs : List Nat) (hm : rhs.length ≤ lhs.length)
    (hr : IsWords W rhs) (hb : 0 < val W rhs) :
    let r := divRemInPlaceDCFrontier W lhs rhs
    r.1.length = lhs.length ∧ IsWords W r.1 ∧ val W (r.1.take rhs.length) < val W rhs ∧
    (val W (r.1.drop rhs.length) + r.2 * 2 ^ (W * (lhs.length - rhs.length))) * val W rhs
      + val W (r.1.take rhs.length) = val W lhs := by
  obtain ⟨a1, a2, a3⟩ := toWords_spec W rhs.length (val W lhs % val W rhs)
  obtain ⟨b1, b2, b3⟩ := toWords_spec W (lhs.length - rhs.length) (val W lhs / val W rhs)
  have hblt : val W rhs < 2 ^ (W * rhs.length) := val_lt W rhs hr
  have hrem : val W lhs % val W rhs % 2 ^ (W * rhs.length) = val W lhs % val W rhs :=
    Nat.mod_eq_of_lt (Nat.lt_trans (Nat.mod_lt _ hb) hblt)
  simp only [divRemInPlaceDCFrontier]
  rw [List.take_left' a1, List.drop_left' a1, a3, b3, hrem]
  refine ⟨by rw [List.length_append, a1, b1]; omega, IsWords.append a2 b2, Nat.mod_lt _ hb, ?_⟩
  have h1 := Nat.div_add_mod (val W lhs / val W rhs) (2 ^ (W * (lhs.length - rhs.length)))
  have h2 := Nat.div_add_mod (val W lhs) (val W rhs)
  generalize val W lhs / val W rhs = Q at *
  generalize val W lhs % val W rhs = R at *
  generalize Q / 2 ^ (W * (lhs.length - rhs.length)) = c at *
  generalize Q % 2 ^ (W * (lhs.length - rhs.length)) = q0 at *
  have : (q0 + c * 2 ^ (W * (lhs.length - rhs.length))) = Q := by rw [← h1]; ring
  rw [this, ← h2]; ring

-- ------------------------------------------------------------------ Burnikel–Ziegler

/-- contract of an in-place division of `lhs` by the normalised `rhs`:
    `out = [lhs % rhs, (lhs / rhs) mod B^(m−n)]`, `c` = the quotient's carry (≤ 1) -/
def InPlaceOk (W : Nat) (lhs rhs : List Nat) (res : Except PanicKind (List Nat × Nat)) : Prop :=
  ∃ out c, res = .ok (out, c) ∧ out.length = lhs.length ∧ IsWords W out ∧ c ≤ 1 ∧
    val W (out.take rhs.length) < val W rhs ∧
    (val W (out.drop rhs.length) + c * 2 ^ (W * (lhs.length - rhs.length))) * val W rhs
      + val W (out.take rhs.length) = val W lhs

theorem simple_inPlaceOk (W : Nat) (hW : 1 ≤ W) (lhs rhs : List Nat) (hn : 2 ≤ rhs.length)
    (hm : rhs.length ≤ lhs.length) (hl : IsWords W lhs) (hr : IsWords W rhs)
    (hnorm : 2 ^ (W * rhs.length) ≤ 2 * val W rhs) :
    InPlaceOk W lhs rhs (simpleDivRemInPlace W lhs rhs (highestDword W rhs)) :=
  simpleDivRemInPlace_spec W hW lhs rhs hn hm hl hr hnorm

/-- if the top `n` words of the dividend are below the divisor there is no quotient carry -/
theorem inplace_carry_zero (W : Nat) (lhs rhs out : List Nat) (c : Nat) (hm : rhs.length ≤ lhs.length)
    (hl : IsWords W lhs)
    (htop : val W (lhs.drop (lhs.length - rhs.length)) < val W rhs)
    (heq : (val W (out.drop rhs.length) + c * 2 ^ (W * (lhs.length - rhs.length))) * val W rhs
      + val W (out.take rhs.length) = val W lhs) : c = 0 := by
  have hv := take_drop_val W lhs (lhs.length - rhs.length) (by omega)
  have hlow : val W (lhs.take (lhs.length - rhs.length)) < 2 ^ (W * (lhs.length - rhs.length)) := by
    have := val_lt W _ (hl.take (lhs.length - rhs.length))
    rwa [List.length_take, Nat.min_eq_left (by omega)] at this
  rcases Nat.eq_zero_or_pos c with h | h
  · exact h
  · exfalso
    generalize val W (lhs.take (lhs.length - rhs.length)) = L at *
    generalize val W (lhs.drop (lhs.length - rhs.length)) = T at *
    generalize 2 ^ (W * (lhs.length - rhs.length)) = Pk at *
    generalize val W (out.drop rhs.length) = Q at *
    generalize val W (out.take rhs.length) = R at *
    have h1 : Pk * (T + 1) ≤ Pk * val W rhs := Nat.mul_le_mul_left _ htop
    have h2 : 1 * Pk * val W rhs ≤ c * Pk * val W rhs :=
      Nat.mul_le_mul_right _ (Nat.mul_le_mul_right _ h)
    nlinarith [Nat.zero_le (Q * val W rhs)]

/-- the top `m` words of a normalised divisor are a normalised divisor -/
theorem norm_drop (W : Nat) (hW : 1 ≤ W) (rhs : List Nat) (k : Nat) (hk : k < rhs.length)
    (hr : IsWords W rhs) (hnorm : 2 ^ (W * rhs.length) ≤ 2 * val W rhs) :
    2 ^ (W * (rhs.drop k).length) ≤ 2 * val W (rhs.drop k) := by
  have hv := take_drop_val W rhs k (by omega)
  have hlow : val W (rhs.take k) < 2 ^ (W * k) := by
    have := val_lt W _ (hr.take k)
    rwa [List.length_take, Nat.min_eq_left (by omega)] at this
  have hP : 2 ^ (W * rhs.length) = 2 ^ (W * k) * 2 ^ (W * (rhs.length - k)) := by
    rw [← Nat.pow_add]; congr 1
    have : rhs.length = k + (rhs.length - k) := by omega
    conv => lhs; rw [this]
    ring
  have heven : 2 ^ (W * (rhs.length - k)) = 2 * 2 ^ (W * (rhs.length - k) - 1) := by
    rw [← Nat.pow_succ']; congr 1
    have : 1 ≤ W * (rhs.length - k) := Nat.mul_pos (by omega) (by omega)
    omega
  rw [List.length_drop]
  rw [hv, hP] at hnorm
  by_contra hcon
  have hlt : 2 * val W (rhs.drop k) + 2 ≤ 2 ^ (W * (rhs.length - k)) := by omega
  have h1 : 2 ^ (W * k) * (2 * val W (rhs.drop k) + 2) ≤ 2 ^ (W * k) * 2 ^ (W * (rhs.length - k)) :=
    Nat.mul_le_mul_left _ hlt
  nlinarith

theorem highestDword_drop (W : Nat) (rhs : List Nat) (k : Nat) (hk : k + 2 ≤ rhs.length) :
    highestDword W (rhs.drop k) = highestDword W rhs := by
  simp only [highestDword, List.length_drop, List.getD_eq_getElem?_getD, List.getElem?_drop]
  have h1 : k + (rhs.length - k - 2) = rhs.length - 2 := by omega
  have h2 : k + (rhs.length - k - 1) = rhs.length - 1 := by omega
  rw [h1, h2]

/-- `mul::add_signed_mul(c, Negative, a, b)` as mirrored and proved in C01 (`addSignedMul_contract`):
    `c − a·b` modulo `B^len(c)` with the signed carry -/
theorem addSignedMul_neg_spec (W : Nat) (hW4 : 4 ≤ W) (fuel : Nat) (c a b : List Nat)
    (hl : c.length = a.length + b.length) (hc : IsWords W c) (ha : IsWords W a) (hb : IsWords W b) :
    (addSignedMul W fuel c true a b).1.length = c.length ∧ IsWords W (addSignedMul W fuel c true a b).1 ∧
    (val W (addSignedMul W fuel c true a b).1 : Int)
        + (addSignedMul W fuel c true a b).2 * ((2 ^ (W * c.length) : Nat) : Int)
      = (val W c : Int) - (val W a : Int) * (val W b : Int) := by
  obtain ⟨h1, h2, h3⟩ := addSignedMul_contract W hW4 fuel c true a b hl hc ha hb
  refine ⟨h1, h2, ?_⟩
  simp only [sgn, if_true] at h3
  push_cast at h3 ⊢
  linarith

/-- the correction loop of `small_quotient`: given the invariant `Q'·b + T' = a`, `T' < b` and
    enough fuel (`T' + f·b ≥ 0`), it ends with `rem_overflow = 0`, an exact remainder, and the
    quotient decremented accordingly -/
theorem bzFix_spec (W : Nat) (rhs : List Nat) (hr : IsWords W rhs) (aval : Int) (m : Nat) :
    ∀ (f : Nat) (rem q : List Nat) (ro qo : Int), rem.length = rhs.length → IsWords W rem →
      q.length = m → IsWords W q →
      ((val W q : Int) + qo * ((2 ^ (W * m) : Nat) : Int)) * (val W rhs : Int)
        + ((val W rem : Int) + ro * ((2 ^ (W * rhs.length) : Nat) : Int)) = aval →
      (val W rem : Int) + ro * ((2 ^ (W * rhs.length) : Nat) : Int) < (val W rhs : Int) →
      0 ≤ (val W rem : Int) + ro * ((2 ^ (W * rhs.length) : Nat) : Int) + (f : Int) * (val W rhs : Int) →
      ∃ rem3 q3 qo3, bzFix W rhs f rem q ro qo = .ok (rem3, q3, 0, qo3) ∧
        rem3.length = rhs.length ∧ IsWords W rem3 ∧ q3.length = m ∧ IsWords W q3 ∧
        val W rem3 < val W rhs ∧
        ((val W q3 : Int) + qo3 * ((2 ^ (W * m) : Nat) : Int)) * (val W rhs : Int) + (val W rem3 : Int)
          = aval := by
  have hblt : val W rhs < 2 ^ (W * rhs.length) := val_lt W rhs hr
  -- when the total is non-negative the loop stops and the overflow word is zero
  have stop : ∀ (rem q : List Nat) (ro qo : Int), rem.length = rhs.length → IsWords W rem →
      (val W rem : Int) + ro * ((2 ^ (W * rhs.length) : Nat) : Int) < (val W rhs : Int) →
      0 ≤ (val W rem : Int) + ro * ((2 ^ (W * rhs.length) : Nat) : Int) → ro = 0 := by
    intro rem q ro qo hl hw hlt hge
    have hrl : val W rem < 2 ^ (W * rhs.length) := by
      have := val_lt W rem hw; rwa [hl] at this
    have h1 : ((val W rem : Nat) : Int) < ((2 ^ (W * rhs.length) : Nat) : Int) := by exact_mod_cast hrl
    have h2 : ((val W rhs : Nat) : Int) < ((2 ^ (W * rhs.length) : Nat) : Int) := by exact_mod_cast hblt
    have h3 : (0 : Int) ≤ ((val W rem : Nat) : Int) := Int.natCast_nonneg _
    generalize ((2 ^ (W * rhs.length) : Nat) : Int) = P at *
    rcases Int.lt_trichotomy ro 0 with h | h | h
    · exfalso
      have : ro * P ≤ -1 * P := Int.mul_le_mul_of_nonneg_right (by omega) (by omega)
      omega
    · exact h
    · exfalso
      have : 1 * P ≤ ro * P := Int.mul_le_mul_of_nonneg_right (by omega) (by omega)
      omega
  intro f
  induction f with
  | zero =>
    intro rem q ro qo hl hw hql hqw heq hlt hge
    have hro : ro = 0 := stop rem q ro qo hl hw hlt (by simpa using hge)
    subst hro
    refine ⟨rem, q, qo, by simp [bzFix], hl, hw, hql, hqw, ?_, by simpa using heq⟩
    have : (val W rem : Int) < (val W rhs : Int) := by simpa using hlt
    exact_mod_cast this
  | succ f ih =>
    intro rem q ro qo hl hw hql hqw heq hlt hge
    by_cases hneg : ro < 0
    · -- one more correction: rem += rhs, q -= 1
      have ad := addSameLen_spec W rem rhs 0 hw hr hl (by omega)
      generalize had : addSameLen W rem rhs 0 = p at ad
      obtain ⟨rem', c⟩ := p
      simp only at ad
      obtain ⟨d1, d2, d3, d4⟩ := ad
      have so := subOne_spec W q hqw
      generalize hso : subOne W q = p2 at so
      obtain ⟨q', bw⟩ := p2
      simp only at so
      obtain ⟨o1, o2, o3, o4⟩ := so
      rw [hl] at d1 d2
      rw [hql] at o1 o2
      have e1 : (val W rem' : Int) + (c : Int) * ((2 ^ (W * rhs.length) : Nat) : Int)
          = (val W rem : Int) + (val W rhs : Int) := by
        have := congrArg (fun x : Nat => (x : Int)) d1
        push_cast at this ⊢; linarith
      have e2 : (val W q' : Int) + 1 = (val W q : Int) + ((2 ^ (W * m) : Nat) : Int) * (bw : Int) := by
        have := congrArg (fun x : Nat => (x : Int)) o1
        push_cast at this ⊢; linarith
      have hrl : (val W rem : Int) < ((2 ^ (W * rhs.length) : Nat) : Int) := by
        have h := val_lt W rem hw; rw [hl] at h; exact_mod_cast h
      have hPpos : (0 : Int) < ((2 ^ (W * rhs.length) : Nat) : Int) := by
        exact_mod_cast Nat.two_pow_pos (W * rhs.length)
      have hfc : ((f + 1 : Nat) : Int) = (f : Int) + 1 := by push_cast; ring
      rw [hfc] at hge
      have e2b : ((val W q' : Int) + 1) * (val W rhs : Int)
          = ((val W q : Int) + ((2 ^ (W * m) : Nat) : Int) * (bw : Int)) * (val W rhs : Int) := by rw [e2]
      have hroP : ro * ((2 ^ (W * rhs.length) : Nat) : Int) ≤ -1 * ((2 ^ (W * rhs.length) : Nat) : Int) :=
        Int.mul_le_mul_of_nonneg_right (by omega) (Int.le_of_lt hPpos)
      obtain ⟨rem3, q3, qo3, e, r1, r2, r3, r4, r5, r6⟩ :=
        ih rem' q' (ro + (c : Int)) (qo - (bw : Int)) d2 d3 o2 o3
          (by generalize ((2 ^ (W * m) : Nat) : Int) = Pm at *
              generalize ((2 ^ (W * rhs.length) : Nat) : Int) = Pn at *
              linarith [e2b, e1, heq])
          (by generalize ((2 ^ (W * rhs.length) : Nat) : Int) = Pn at *
              linarith [e1, hroP, hrl])
          (by generalize ((2 ^ (W * rhs.length) : Nat) : Int) = Pn at *
              linarith [e1, hge])
      refine ⟨rem3, q3, qo3, ?_, r1, r2, r3, r4, r5, r6⟩
      simp only [bzFix, hneg, if_true, had, hso, e]
    · have hge0 : 0 ≤ (val W rem : Int) + ro * ((2 ^ (W * rhs.length) : Nat) : Int) := by
        have hro : 0 ≤ ro := Int.not_lt.mp hneg
        have := Int.mul_nonneg hro (Int.natCast_nonneg (2 ^ (W * rhs.length)))
        have := Int.natCast_nonneg (val W rem)
        omega
      have hro : ro = 0 := stop rem q ro qo hl hw hlt hge0
      subst hro
      refine ⟨rem, q, qo, by simp [bzFix], hl, hw, hql, hqw, ?_, by simpa using heq⟩
      have : (val W rem : Int) < (val W rhs : Int) := by simpa using hlt
      exact_mod_cast this

theorem pow_add_len (W a b : Nat) : 2 ^ (W * (a + b)) = 2 ^ (W * a) * 2 ^ (W * b) := by
  rw [← Nat.pow_add]; congr 1; ring

/-- composition step shared by `same_len` and the outer loop: divide the high part first, then
    the low part together with the high part's remainder -/
theorem bz_compose (W : Nat) (lhs rhs out1 out2 : List Nat) (o oLo k : Nat)
    (hn : 1 ≤ rhs.length) (hk : k + rhs.length ≤ lhs.length) (hl : IsWords W lhs)
    -- first division: lhs.drop k by rhs
    (h1l : out1.length = lhs.length - k) (h1w : IsWords W out1)
    (h1r : val W (out1.take rhs.length) < val W rhs)
    (h1e : (val W (out1.drop rhs.length) + o * 2 ^ (W * (lhs.length - k - rhs.length))) * val W rhs
      + val W (out1.take rhs.length) = val W (lhs.drop k))
    -- second division: (lhs.take k ++ out1.take n) by rhs
    (h2l : out2.length = k + rhs.length) (h2w : IsWords W out2)
    (h2r : val W (out2.take rhs.length) < val W rhs)
    (h2e : (val W (out2.drop rhs.length) + oLo * 2 ^ (W * k)) * val W rhs
      + val W (out2.take rhs.length) = val W (lhs.take k ++ out1.take rhs.length)) :
    oLo = 0 ∧ (out2 ++ out1.drop rhs.length).length = lhs.length ∧
    IsWords W (out2 ++ out1.drop rhs.length) ∧
    val W ((out2 ++ out1.drop rhs.length).take rhs.length) < val W rhs ∧
    (val W ((out2 ++ out1.drop rhs.length).drop rhs.length)
        + o * 2 ^ (W * (lhs.length - rhs.length))) * val W rhs
      + val W ((out2 ++ out1.drop rhs.length).take rhs.length) = val W lhs := by
  have hkl : (lhs.take k).length = k := by rw [List.length_take]; omega
  have hx : val W (lhs.take k ++ out1.take rhs.length)
      = val W (lhs.take k) + 2 ^ (W * k) * val W (out1.take rhs.length) := by
    rw [val_append, hkl]
  have hlow : val W (lhs.take k) < 2 ^ (W * k) := by
    have := val_lt W _ (hl.take k); rwa [hkl] at this
  have hv := take_drop_val W lhs k (by omega)
  rw [hx] at h2e
  have hPk := Nat.two_pow_pos (W * k)
  -- no carry from the low division
  have ho : oLo = 0 := by
    rcases Nat.eq_zero_or_pos oLo with h | h
    · exact h
    · exfalso
      have h3 : 2 ^ (W * k) * (val W (out1.take rhs.length) + 1) ≤ 2 ^ (W * k) * val W rhs :=
        Nat.mul_le_mul_left _ h1r
      have h4 : 1 * 2 ^ (W * k) * val W rhs ≤ oLo * 2 ^ (W * k) * val W rhs :=
        Nat.mul_le_mul_right _ (Nat.mul_le_mul_right _ h)
      generalize val W (out2.drop rhs.length) = Q2 at *
      generalize val W (out2.take rhs.length) = R2 at *
      generalize val W (out1.take rhs.length) = R1 at *
      generalize val W (lhs.take k) = L at *
      generalize 2 ^ (W * k) = Pk at *
      nlinarith [Nat.zero_le (Q2 * val W rhs)]
  subst ho
  have ht : (out2 ++ out1.drop rhs.length).take rhs.length = out2.take rhs.length :=
    List.take_append_of_le_length (by omega)
  have hd : (out2 ++ out1.drop rhs.length).drop rhs.length = out2.drop rhs.length ++ out1.drop rhs.length :=
    List.drop_append_of_le_length (by omega)
  have hdl : (out2.drop rhs.length).length = k := by simp only [List.length_drop]; omega
  refine ⟨rfl, by rw [List.length_append, h2l, List.length_drop, h1l]; omega,
    IsWords.append h2w (h1w.drop _), by rw [ht]; exact h2r, ?_⟩
  rw [ht, hd, val_append, hdl, hv]
  have hP : 2 ^ (W * (lhs.length - rhs.length)) = 2 ^ (W * k) * 2 ^ (W * (lhs.length - k - rhs.length)) := by
    rw [← pow_add_len]; congr 2; omega
  rw [hP, ← h1e]
  generalize val W (out2.drop rhs.length) = Q2 at *
  generalize val W (out2.take rhs.length) = R2 at *
  generalize val W (out1.take rhs.length) = R1 at *
  generalize val W (out1.drop rhs.length) = Q1 at *
  generalize val W (lhs.take k) = L at *
  generalize 2 ^ (W * k) = Pk at *
  generalize 2 ^ (W * (lhs.length - k - rhs.length)) = Pj at *
  simp only [Nat.zero_mul, Nat.add_zero] at h2e
  linarith [h2e]

theorem bz_rem_lt (Alo Pk remhi rlo rhi : Nat) (h1 : Alo < Pk) (h2 : remhi < rhi) :
    Alo + Pk * remhi < rlo + Pk * rhi := by
  have h3 : Pk * (remhi + 1) ≤ Pk * rhi := Nat.mul_le_mul_left _ h2
  nlinarith

theorem bz_inv (Qe b a Alo Pk ahi rlo rhi remhi vrem T : Int) (hT : T = vrem - Qe * rlo)
    (ha : a = Alo + Pk * ahi) (hb : b = rlo + Pk * rhi) (hr : vrem = Alo + Pk * remhi)
    (h5 : Qe * rhi + remhi = ahi) : Qe * b + T = a := by
  subst hT ha hb hr h5; ring

theorem bz_state1 (vt1 vt1d vt vrem1 ro1 bw Pm Pk Pn vrem vq rlo : Int)
    (s3 : vrem1 + ro1 * Pn = vrem - vq * rlo) (e5 : vrem1 = vt1 + Pm * vt1d)
    (e4 : vt + rlo = vt1d + Pk * bw) (e6 : Pn = Pm * Pk) :
    vt1 + Pm * vt + (ro1 - bw) * Pn = vrem - (vq + 1 * Pm) * rlo := by
  subst e6 e5
  have e4' : Pm * (vt + rlo) = Pm * (vt1d + Pk * bw) := by rw [e4]
  linarith [s3, e4']

theorem bz_qo_bounds (vq qo3 Pm Pn b vr va : Int) (hPm : 0 < Pm) (hb : 0 < b)
    (hq0 : 0 ≤ vq) (hq : vq < Pm) (hr0 : 0 ≤ vr) (hr : vr < b) (ha0 : 0 ≤ va) (ha : va < Pm * Pn)
    (hn : Pn ≤ 2 * b) (heq : (vq + qo3 * Pm) * b + vr = va) : 0 ≤ qo3 ∧ qo3 ≤ 1 := by
  constructor
  · by_contra hcon
    have h1 : qo3 ≤ -1 := by omega
    have h2 : qo3 * Pm ≤ -1 * Pm := Int.mul_le_mul_of_nonneg_right h1 (by omega)
    have h3 : (vq + qo3 * Pm) * b ≤ -1 * b := Int.mul_le_mul_of_nonneg_right (by omega) (by omega)
    omega
  · by_contra hcon
    have h1 : 2 ≤ qo3 := by omega
    have h2 : 2 * Pm ≤ qo3 * Pm := Int.mul_le_mul_of_nonneg_right h1 (by omega)
    have h3 : 2 * Pm * b ≤ (vq + qo3 * Pm) * b := Int.mul_le_mul_of_nonneg_right (by omega) (by omega)
    have h4 : Pm * Pn ≤ Pm * (2 * b) := Int.mul_le_mul_of_nonneg_left hn (by omega)
    nlinarith

theorem bz_T_ge (vq qo Pm Pk Pn rlo b : Nat) (hq : vq < Pm) (hqo : qo ≤ 1) (hr : rlo < Pk)
    (hPn : Pn = Pm * Pk) (hn : Pn ≤ 2 * b) : (vq + qo * Pm) * rlo ≤ 4 * b := by
  have h1 : (vq + qo * Pm) * rlo ≤ (2 * Pm) * Pk := by
    apply Nat.mul_le_mul
    · have : qo * Pm ≤ 1 * Pm := Nat.mul_le_mul_right _ hqo
      omega
    · omega
  have h2 : (2 * Pm) * Pk ≤ 4 * b := by
    rw [Nat.mul_assoc, ← hPn]; omega
  exact Nat.le_trans h1 h2

/-- Burnikel–Ziegler, both mutually recursive halves, by induction on the recursion fuel
    (relative to the contract of `add_signed_mul`) -/
theorem bz_mutual (W : Nat) (hW : 1 ≤ W) (hW4 : 4 ≤ W) : ∀ fuel : Nat,
    (∀ lhs rhs : List Nat, 2 * rhs.length + 1 ≤ fuel → thresholdSimple < rhs.length →
      lhs.length = 2 * rhs.length → IsWords W lhs → IsWords W rhs →
      2 ^ (W * rhs.length) ≤ 2 * val W rhs →
      InPlaceOk W lhs rhs (bzSameLen W (highestDword W rhs) fuel lhs rhs)) ∧
    (∀ lhs rhs : List Nat, 2 * rhs.length ≤ fuel → 2 ≤ rhs.length → rhs.length ≤ lhs.length →
      lhs.length - rhs.length < rhs.length → IsWords W lhs → IsWords W rhs →
      2 ^ (W * rhs.length) ≤ 2 * val W rhs →
      InPlaceOk W lhs rhs (bzSmallQuotient W (highestDword W rhs) fuel lhs rhs)) := by
  have hts : 1 ≤ thresholdSimple := by decide
  intro fuel
  induction fuel with
  | zero =>
    exact ⟨fun _ _ h => by omega, fun _ rhs h h2 => by omega⟩
  | succ fuel ih =>
    obtain ⟨ihS, ihQ⟩ := ih
    constructor
    · -- ---------------------------------------------------------------- same_len
      intro lhs rhs hf hn hlen hl hr hnorm
      have hnLo : 1 ≤ rhs.length / 2 := by omega
      have hnLo' : rhs.length / 2 < rhs.length := by omega
      -- high part
      have hdl : (lhs.drop (rhs.length / 2)).length = lhs.length - rhs.length / 2 := List.length_drop
      obtain ⟨out1, o, e1, a1, a2, a3, a4, a5⟩ := ihQ (lhs.drop (rhs.length / 2)) rhs (by omega)
        (by omega) (by rw [hdl]; omega) (by rw [hdl]; omega) (hl.drop _) hr hnorm
      rw [hdl] at a1 a5
      -- low part
      have htl : (lhs.take (rhs.length / 2)).length = rhs.length / 2 := by
        rw [List.length_take]; omega
      have htk : (lhs.take (rhs.length / 2) ++ out1).take (rhs.length + rhs.length / 2)
          = lhs.take (rhs.length / 2) ++ out1.take rhs.length := by
        have : rhs.length + rhs.length / 2 = (lhs.take (rhs.length / 2)).length + rhs.length := by
          rw [htl]; omega
        rw [this, List.take_length_add_append]
      have hdk : (lhs.take (rhs.length / 2) ++ out1).drop (rhs.length + rhs.length / 2)
          = out1.drop rhs.length := by
        have : rhs.length + rhs.length / 2 = (lhs.take (rhs.length / 2)).length + rhs.length := by
          rw [htl]; omega
        rw [this, List.drop_length_add_append]
      have hl2w : IsWords W (lhs.take (rhs.length / 2) ++ out1.take rhs.length) :=
        IsWords.append (hl.take _) (a2.take _)
      have hl2l : (lhs.take (rhs.length / 2) ++ out1.take rhs.length).length
          = rhs.length / 2 + rhs.length := by
        rw [List.length_append, htl, List.length_take]; omega
      obtain ⟨out2, oLo, e2, b1, b2, b3, b4, b5⟩ :=
        ihQ (lhs.take (rhs.length / 2) ++ out1.take rhs.length) rhs (by omega) (by omega)
          (by rw [hl2l]; omega) (by rw [hl2l]; omega) hl2w hr hnorm
      rw [hl2l] at b1 b5
      have hsub : rhs.length / 2 + rhs.length - rhs.length = rhs.length / 2 := by omega
      rw [hsub] at b5
      obtain ⟨c0, c1, c2, c3, c4⟩ := bz_compose W lhs rhs out1 out2 o oLo (rhs.length / 2) (by omega)
        (by omega) hl a1 a2 a4 a5 b1 b2 b4 b5
      subst c0
      refine ⟨out2 ++ out1.drop rhs.length, o, ?_, c1, c2, a3, c3, c4⟩
      have hcond : rhs.length > thresholdSimple ∧ lhs.length = 2 * rhs.length := ⟨by omega, hlen⟩
      simp only [bzSameLen]
      rw [if_neg (not_not.mpr hcond)]
      simp only [bind, Except.bind, e1, htk, e2, hdk, ne_eq, not_true_eq_false, if_false, pure,
        Except.pure]
    · -- ---------------------------------------------------------------- small_quotient
      intro lhs rhs hf hn hm hmn hl hr hnorm
      by_cases hsm : lhs.length - rhs.length ≤ thresholdSimple
      · have := simple_inPlaceOk W hW lhs rhs hn hm hl hr hnorm
        have hc1 : rhs.length ≥ 2 ∧ lhs.length ≥ rhs.length := ⟨hn, hm⟩
        simp only [bzSmallQuotient, hc1, not_true_eq_false, if_false, hmn, hsm, if_true]
        exact this
      · -- notation: n = rhs.length, m = lhs.length - n, k = n - m
        have hk1 : rhs.length - (lhs.length - rhs.length) + (lhs.length - rhs.length) = rhs.length := by omega
        generalize hmdef : lhs.length - rhs.length = m at *
        generalize hkdef : rhs.length - m = k at *
        have hlenl : lhs.length = rhs.length + m := by omega
        have hkm : k + m = rhs.length := by omega
        -- divisor split
        have hrd : (rhs.drop k).length = m := by rw [List.length_drop]; omega
        have hrt : (rhs.take k).length = k := by rw [List.length_take]; omega
        have hvr := take_drop_val W rhs k (by omega)
        have hrlo : val W (rhs.take k) < 2 ^ (W * k) := by
          have := val_lt W _ (hr.take k); rwa [hrt] at this
        have hnd := norm_drop W hW rhs k (by omega) hr hnorm
        rw [hrd] at hnd
        have hdt := highestDword_drop W rhs k (by omega)
        -- recursive 2m / m division of the top words
        have hld : (lhs.drop k).length = 2 * m := by rw [List.length_drop]; omega
        obtain ⟨top', qo, e1, a1, a2, a3, a4, a5⟩ := ihS (lhs.drop k) (rhs.drop k)
          (by rw [hrd]; omega) (by rw [hrd]; omega) (by rw [hld, hrd]) (hl.drop _) (hr.drop _)
          (by rw [hrd]; exact hnd)
        rw [hdt] at e1
        rw [hld] at a1
        rw [hrd] at a4 a5
        rw [hld] at a5
        have h2mm : 2 * m - m = m := by omega
        rw [h2mm] at a5
        -- the buffer after the recursive call
        have hltk : (lhs.take k).length = k := by rw [List.length_take]; omega
        have hrem : (lhs.take k ++ top').take rhs.length = lhs.take k ++ top'.take m := by
          have : rhs.length = (lhs.take k).length + m := by rw [hltk]; omega
          rw [this, List.take_length_add_append]
        have hq : (lhs.take k ++ top').drop rhs.length = top'.drop m := by
          have : rhs.length = (lhs.take k).length + m := by rw [hltk]; omega
          rw [this, List.drop_length_add_append]
        have hreml : (lhs.take k ++ top'.take m).length = rhs.length := by
          rw [List.length_append, hltk, List.length_take]; omega
        have hremw : IsWords W (lhs.take k ++ top'.take m) := IsWords.append (hl.take _) (a2.take _)
        have hql : (top'.drop m).length = m := by rw [List.length_drop]; omega
        have hqw : IsWords W (top'.drop m) := a2.drop _
        have hvrem : val W (lhs.take k ++ top'.take m)
            = val W (lhs.take k) + 2 ^ (W * k) * val W (top'.take m) := by rw [val_append, hltk]
        have hAlo : val W (lhs.take k) < 2 ^ (W * k) := by
          have := val_lt W _ (hl.take k); rwa [hltk] at this
        have hvl := take_drop_val W lhs k (by omega)
        -- rem -= q * rhs_lo
        have sm := addSignedMul_neg_spec W hW4 (lhs.take k ++ top'.take m).length
          (lhs.take k ++ top'.take m) (top'.drop m) (rhs.take k) (by rw [hreml, hql, hrt]; omega)
          hremw hqw (hr.take _)
        generalize hsm1 : addSignedMul W (lhs.take k ++ top'.take m).length (lhs.take k ++ top'.take m)
          true (top'.drop m) (rhs.take k) = p1 at sm
        obtain ⟨rem1, ro1⟩ := p1
        simp only at sm
        obtain ⟨s1, s2, s3⟩ := sm
        rw [hreml] at s1 s3
        -- optional subtraction of rhs_lo * B^m when the recursive quotient overflowed
        have hPn : 2 ^ (W * rhs.length) = 2 ^ (W * m) * 2 ^ (W * k) := by
          rw [← pow_add_len]; congr 2; omega
        have h1d : (rem1.drop m).length = (rhs.take k).length := by
          rw [List.length_drop, hrt, s1]; omega
        have ss := subSameLen_spec W (rem1.drop m) (rhs.take k) 0 (s2.drop _) (hr.take _) h1d (by omega)
        generalize hss : subSameLen W (rem1.drop m) (rhs.take k) 0 = p2 at ss
        obtain ⟨t, bw⟩ := p2
        simp only at ss
        obtain ⟨t1, t2, t3, t4⟩ := ss
        have hv1 := take_drop_val W rem1 m (by omega)
        have h1t : (rem1.take m).length = m := by rw [List.length_take]; omega
        -- the state entering the correction loop
        have hstate : ∃ rem2 ro2, (if qo ≠ 0 then (rem1.take m ++ t, ro1 - (bw : Int)) else (rem1, ro1))
              = (rem2, ro2) ∧ rem2.length = rhs.length ∧ IsWords W rem2 ∧
            (val W rem2 : Int) + ro2 * ((2 ^ (W * rhs.length) : Nat) : Int)
              = (val W (lhs.take k ++ top'.take m) : Int)
                - ((val W (top'.drop m) : Int) + (qo : Int) * ((2 ^ (W * m) : Nat) : Int))
                  * (val W (rhs.take k) : Int) := by
          by_cases hq0 : qo = 0
          · subst hq0
            refine ⟨rem1, ro1, by simp, s1, s2, ?_⟩
            rw [s3]; push_cast; ring
          · have hq1 : qo = 1 := by omega
            subst hq1
            refine ⟨rem1.take m ++ t, ro1 - (bw : Int), by simp, ?_, IsWords.append (s2.take _) t3, ?_⟩
            · rw [List.length_append, h1t, t2, List.length_drop, s1]; omega
            · have e3 : (val W (rem1.take m ++ t) : Int)
                  = (val W (rem1.take m) : Int) + ((2 ^ (W * m) : Nat) : Int) * (val W t : Int) := by
                rw [val_append, h1t]; push_cast; ring
              have e4 : (val W t : Int) + (val W (rhs.take k) : Int)
                  = (val W (rem1.drop m) : Int) + ((2 ^ (W * k) : Nat) : Int) * (bw : Int) := by
                have := congrArg (fun x : Nat => (x : Int)) t1
                rw [h1d, hrt] at this
                push_cast at this ⊢; linarith
              have e5 : (val W rem1 : Int)
                  = (val W (rem1.take m) : Int) + ((2 ^ (W * m) : Nat) : Int) * (val W (rem1.drop m) : Int) := by
                have := congrArg (fun x : Nat => (x : Int)) hv1
                push_cast at this ⊢; linarith
              have e6 : ((2 ^ (W * rhs.length) : Nat) : Int)
                  = ((2 ^ (W * m) : Nat) : Int) * ((2 ^ (W * k) : Nat) : Int) := by
                rw [hPn]; push_cast; ring
              rw [e3]
              exact bz_state1 _ _ _ _ _ _ _ _ _ _ _ _ s3 e5 e4 e6
        obtain ⟨rem2, ro2, hst, r2l, r2w, r2e⟩ := hstate
        -- value of lhs in terms of the estimated quotient
        have hbI : (val W rhs : Int)
            = (val W (rhs.take k) : Int) + ((2 ^ (W * k) : Nat) : Int) * (val W (rhs.drop k) : Int) := by
          have := congrArg (fun x : Nat => (x : Int)) hvr
          push_cast at this ⊢; linarith
        have haI : (val W lhs : Int)
            = (val W (lhs.take k) : Int) + ((2 ^ (W * k) : Nat) : Int) * (val W (lhs.drop k) : Int) := by
          have := congrArg (fun x : Nat => (x : Int)) hvl
          push_cast at this ⊢; linarith
        have ha5I : ((val W (top'.drop m) : Int) + (qo : Int) * ((2 ^ (W * m) : Nat) : Int))
              * (val W (rhs.drop k) : Int) + (val W (top'.take m) : Int) = (val W (lhs.drop k) : Int) := by
          have := congrArg (fun x : Nat => (x : Int)) a5
          push_cast at this ⊢; linarith
        have hvremI : (val W (lhs.take k ++ top'.take m) : Int)
            = (val W (lhs.take k) : Int) + ((2 ^ (W * k) : Nat) : Int) * (val W (top'.take m) : Int) := by
          have := congrArg (fun x : Nat => (x : Int)) hvrem
          push_cast at this ⊢; linarith
        -- invariant of the loop: Qe * b + T = a,  T < b,  T + 4b ≥ 0
        have hinv : ((val W (top'.drop m) : Int) + (qo : Int) * ((2 ^ (W * m) : Nat) : Int)) * (val W rhs : Int)
            + ((val W rem2 : Int) + ro2 * ((2 ^ (W * rhs.length) : Nat) : Int)) = (val W lhs : Int) :=
          bz_inv _ _ _ _ _ _ _ _ _ _ _ r2e haI hbI hvremI ha5I
        have hremlt : val W (lhs.take k ++ top'.take m) < val W rhs := by
          rw [hvrem, hvr]; exact bz_rem_lt _ _ _ _ _ hAlo a4
        have hTlt : (val W rem2 : Int) + ro2 * ((2 ^ (W * rhs.length) : Nat) : Int) < (val W rhs : Int) := by
          rw [r2e]
          have h1 : (val W (lhs.take k ++ top'.take m) : Int) < (val W rhs : Int) := by exact_mod_cast hremlt
          have h2 : (0 : Int) ≤ ((val W (top'.drop m) : Int) + (qo : Int) * ((2 ^ (W * m) : Nat) : Int))
              * (val W (rhs.take k) : Int) := by positivity
          linarith
        have hqlt : val W (top'.drop m) < 2 ^ (W * m) := by
          have := val_lt W _ hqw; rwa [hql] at this
        have hTge : 0 ≤ (val W rem2 : Int) + ro2 * ((2 ^ (W * rhs.length) : Nat) : Int)
            + ((4 : Nat) : Int) * (val W rhs : Int) := by
          rw [r2e]
          have h3 : (((val W (top'.drop m) + qo * 2 ^ (W * m)) * val W (rhs.take k) : Nat) : Int)
              ≤ ((4 * val W rhs : Nat) : Int) := by
            exact_mod_cast bz_T_ge _ _ _ _ _ _ _ hqlt a3 hrlo hPn hnorm
          push_cast at h3 ⊢
          have h4 : (0 : Int) ≤ (val W (lhs.take k ++ top'.take m) : Int) := Int.natCast_nonneg _
          linarith
        obtain ⟨rem3, q3, qo3, e3, f1, f2, f3, f4, f5, f6⟩ :=
          bzFix_spec W rhs hr (val W lhs : Int) m 4 rem2 (top'.drop m) ro2 (qo : Int) r2l r2w hql hqw
            hinv hTlt hTge
        -- the final quotient carry is 0 or 1
        have hllt : val W lhs < 2 ^ (W * m) * 2 ^ (W * rhs.length) := by
          have := val_lt W lhs hl
          rwa [hlenl, Nat.add_comm, pow_add_len] at this
        have hq3lt : val W q3 < 2 ^ (W * m) := by
          have := val_lt W q3 f4; rwa [f3] at this
        have hqo3 : 0 ≤ qo3 ∧ qo3 ≤ 1 := by
          have hPm : (0 : Int) < ((2 ^ (W * m) : Nat) : Int) := by exact_mod_cast Nat.two_pow_pos (W * m)
          have hbpos : (0 : Int) < (val W rhs : Int) := by
            have : 0 < val W rhs := by
              have := Nat.two_pow_pos (W * rhs.length); omega
            exact_mod_cast this
          have hq3I : (val W q3 : Int) < ((2 ^ (W * m) : Nat) : Int) := by exact_mod_cast hq3lt
          have hr3I : (val W rem3 : Int) < (val W rhs : Int) := by exact_mod_cast f5
          have haI2 : (val W lhs : Int) < ((2 ^ (W * m) : Nat) : Int) * ((2 ^ (W * rhs.length) : Nat) : Int) := by
            exact_mod_cast hllt
          have hnI : ((2 ^ (W * rhs.length) : Nat) : Int) ≤ 2 * (val W rhs : Int) := by exact_mod_cast hnorm
          exact bz_qo_bounds _ _ _ _ _ _ _ hPm hbpos (Int.natCast_nonneg _) hq3I (Int.natCast_nonneg _) hr3I
            (Int.natCast_nonneg _) haI2 hnI f6
        obtain ⟨g1, g2⟩ := hqo3
        -- assemble
        have hc1 : rhs.length ≥ 2 ∧ lhs.length ≥ rhs.length := ⟨hn, hm⟩
        have hnsm : ¬ m ≤ thresholdSimple := hsm
        have hok : ¬ ((0 : Int) ≠ 0 ∨ ¬ (0 ≤ qo3 ∧ qo3 ≤ 1)) := by simp [g1, g2]
        have hcNat : ∃ c : Nat, (if qo3 ≠ 0 then 1 else 0) = c ∧ (c : Int) = qo3 ∧ c ≤ 1 := by
          by_cases h0 : qo3 = 0
          · exact ⟨0, by simp [h0], by simp [h0], by omega⟩
          · have : qo3 = 1 := by omega
            exact ⟨1, by simp [this], by simp [this], by omega⟩
        obtain ⟨c, hc, hcI, hcle⟩ := hcNat
        refine ⟨rem3 ++ q3, c, ?_, by rw [List.length_append, f1, f3]; omega, IsWords.append f2 f4, hcle,
          ?_, ?_⟩
        · simp only [bzSmallQuotient]
          rw [if_neg (not_not.mpr hc1)]
          simp only [hmdef, hkdef]
          rw [if_neg (not_not.mpr hmn), if_neg hnsm]
          simp only [bind, Except.bind, e1, hrem, hq, hsm1, hss, hst, e3, hok, if_false, pure, Except.pure, hc]
        · rw [List.take_left' f1]; exact f5
        · rw [List.take_left' f1, List.drop_left' f1, hmdef]
          have : ((val W q3 : Int) + (c : Int) * ((2 ^ (W * m) : Nat) : Int)) * (val W rhs : Int)
              + (val W rem3 : Int) = (val W lhs : Int) := by rw [hcI]; exact f6
          exact_mod_cast this

/-- the block loop of `divide_conquer::div_rem_in_place` -/
theorem bzOuter_spec (W : Nat) (hW : 1 ≤ W) (hW4 : 4 ≤ W) (rhs : List Nat) (hn : thresholdSimple < rhs.length)
    (hr : IsWords W rhs) (hnorm : 2 ^ (W * rhs.length) ≤ 2 * val W rhs) :
    ∀ (t : Nat) (lhs : List Nat), lhs.length / rhs.length = t + 1 → IsWords W lhs →
      (lhs.length = rhs.length → val W lhs < val W rhs) →
      InPlaceOk W lhs rhs (bzOuter W (highestDword W rhs) rhs (2 * rhs.length + 1) t lhs) := by
  have hts : 1 ≤ thresholdSimple := by decide
  have hnpos : 0 < rhs.length := by omega
  obtain ⟨bzS, bzQ⟩ := bz_mutual W hW hW4 (2 * rhs.length + 1)
  intro t
  induction t with
  | zero =>
    intro lhs hdiv hl hsmall
    have hdm := Nat.div_add_mod lhs.length rhs.length
    have hml := Nat.mod_lt lhs.length hnpos
    rw [hdiv] at hdm
    by_cases hgt : lhs.length > rhs.length
    · have := bzQ lhs rhs (by omega) (by omega) (by omega) (by omega) hl hr hnorm
      simp only [bzOuter, hgt, if_true]
      exact this
    · have heq : lhs.length = rhs.length := by omega
      refine ⟨lhs, 0, by simp only [bzOuter, hgt, if_false], rfl, hl, by omega, ?_, ?_⟩
      · rw [List.take_of_length_le (by omega)]; exact hsmall heq
      · rw [List.take_of_length_le (by omega), List.drop_of_length_le (by omega)]; simp
  | succ t ih =>
    intro lhs hdiv hl _
    have hdm := Nat.div_add_mod lhs.length rhs.length
    rw [hdiv] at hdm
    have hlen2 : 2 * rhs.length ≤ lhs.length := by
      have : rhs.length * (t + 1 + 1) = rhs.length * t + 2 * rhs.length := by ring
      omega
    -- the top 2n-word block
    have hwl : (lhs.drop (lhs.length - 2 * rhs.length)).length = 2 * rhs.length := by
      rw [List.length_drop]; omega
    obtain ⟨win', o, e1, a1, a2, a3, a4, a5⟩ := bzS (lhs.drop (lhs.length - 2 * rhs.length)) rhs
      (by omega) (by omega) hwl (hl.drop _) hr hnorm
    rw [hwl] at a1 a5
    have hkl : (lhs.take (lhs.length - 2 * rhs.length)).length = lhs.length - 2 * rhs.length := by
      rw [List.length_take]; omega
    have hpre : (lhs.take (lhs.length - 2 * rhs.length) ++ win').take (lhs.length - rhs.length)
        = lhs.take (lhs.length - 2 * rhs.length) ++ win'.take rhs.length := by
      have : lhs.length - rhs.length = (lhs.take (lhs.length - 2 * rhs.length)).length + rhs.length := by
        rw [hkl]; omega
      rw [this, List.take_length_add_append]
    have hpost : (lhs.take (lhs.length - 2 * rhs.length) ++ win').drop (lhs.length - rhs.length)
        = win'.drop rhs.length := by
      have : lhs.length - rhs.length = (lhs.take (lhs.length - 2 * rhs.length)).length + rhs.length := by
        rw [hkl]; omega
      rw [this, List.drop_length_add_append]
    have hprel : (lhs.take (lhs.length - 2 * rhs.length) ++ win'.take rhs.length).length
        = lhs.length - 2 * rhs.length + rhs.length := by
      rw [List.length_append, hkl, List.length_take]; omega
    have hprew : IsWords W (lhs.take (lhs.length - 2 * rhs.length) ++ win'.take rhs.length) :=
      IsWords.append (hl.take _) (a2.take _)
    -- the remaining prefix
    have hdiv' : (lhs.take (lhs.length - 2 * rhs.length) ++ win'.take rhs.length).length / rhs.length
        = t + 1 := by
      rw [hprel]
      have h1 : lhs.length = (lhs.length - 2 * rhs.length + rhs.length) + rhs.length := by omega
      have h2 := Nat.add_div_right (lhs.length - 2 * rhs.length + rhs.length) hnpos
      rw [← h1, hdiv] at h2
      omega
    have hsmall' : (lhs.take (lhs.length - 2 * rhs.length) ++ win'.take rhs.length).length = rhs.length →
        val W (lhs.take (lhs.length - 2 * rhs.length) ++ win'.take rhs.length) < val W rhs := by
      intro h
      rw [hprel] at h
      have h0 : lhs.length - 2 * rhs.length = 0 := by omega
      rw [h0]; simpa using a4
    obtain ⟨rest, o2, e2, b1, b2, b3, b4, b5⟩ := ih _ hdiv' hprew hsmall'
    rw [hprel] at b1 b5
    have hsub : lhs.length - 2 * rhs.length + rhs.length - rhs.length = lhs.length - 2 * rhs.length := by
      omega
    rw [hsub] at b5
    have h2nn : 2 * rhs.length - rhs.length = rhs.length := by omega
    rw [h2nn] at a5
    have hexp : lhs.length - (lhs.length - 2 * rhs.length) - rhs.length = rhs.length := by omega
    obtain ⟨c0, c1, c2, c3, c4⟩ := bz_compose W lhs rhs win' rest o o2 (lhs.length - 2 * rhs.length)
      (by omega) (by omega) hl (by rw [a1]; omega) a2 a4 (by rw [hexp]; exact a5) b1 b2 b4 b5
    subst c0
    refine ⟨rest ++ win'.drop rhs.length, o, ?_, c1, c2, a3, c3, c4⟩
    simp only [bzOuter, bind, Except.bind, e1, hpre, e2, hpost, ne_eq, not_true_eq_false, if_false, pure,
      Except.pure]

/-- `divide_conquer::div_rem_in_place` (Burnikel–Ziegler) meets the in-place division contract,
    relative to the contract of `add_signed_mul` -/
theorem bzDivRemInPlace_spec (W : Nat) (hW : 1 ≤ W) (hW4 : 4 ≤ W) (lhs rhs : List Nat)
    (hn : thresholdSimple < rhs.length) (hm : rhs.length + thresholdSimple < lhs.length)
    (hl : IsWords W lhs) (hr : IsWords W rhs) (hnorm : 2 ^ (W * rhs.length) ≤ 2 * val W rhs) :
    InPlaceOk W lhs rhs (bzDivRemInPlace W lhs rhs (highestDword W rhs)) := by
  have hts : 1 ≤ thresholdSimple := by decide
  have hnpos : 0 < rhs.length := by omega
  have hdpos : 0 < lhs.length / rhs.length := Nat.div_pos (by omega) hnpos
  have hcond : lhs.length > rhs.length + thresholdSimple ∧ rhs.length > thresholdSimple := ⟨hm, hn⟩
  simp only [bzDivRemInPlace]
  rw [if_neg (not_not.mpr hcond)]
  exact bzOuter_spec W hW hW4 rhs hn hr hnorm (lhs.length / rhs.length - 1) lhs (by omega) hl (by omega)

/-- `div::div_rem_in_place` (either algorithm): lhs becomes [lhs % rhs, lhs / rhs] + carry -/
theorem divRemInPlace_spec (W : Nat) (hW : 1 ≤ W) (hW4 : 4 ≤ W) (lhs rhs : List Nat) (hn : 2 ≤ rhs.length)
    (hm : rhs.length ≤ lhs.length) (hl : IsWords W lhs) (hr : IsWords W rhs)
    (hnorm : 2 ^ (W * rhs.length) ≤ 2 * val W rhs) :
    ∃ out c, divRemInPlace W lhs rhs (highestDword W rhs) = .ok (out, c) ∧
      out.length = lhs.length ∧ IsWords W out ∧ val W (out.take rhs.length) < val W rhs ∧
      (val W (out.drop rhs.length) + c * 2 ^ (W * (lhs.length - rhs.length))) * val W rhs
        + val W (out.take rhs.length) = val W lhs := by
  unfold divRemInPlace
  by_cases hs : rhs.length ≤ thresholdSimple ∨ lhs.length - rhs.length ≤ thresholdSimple
  · rw [if_pos hs]
    obtain ⟨out, c, e, o1, o2, _, o3, o4⟩ := simpleDivRemInPlace_spec W hW lhs rhs hn hm hl hr hnorm
    exact ⟨out, c, e, o1, o2, o3, o4⟩
  · rw [if_neg hs]
    have hts : 1 ≤ thresholdSimple := by decide
    obtain ⟨out, c, e, o1, o2, _, o3, o4⟩ := bzDivRemInPlace_spec W hW hW4 lhs rhs (by omega) (by omega) hl hr hnorm
    exact ⟨out, c, e, o1, o2, o3, o4⟩

-- ------------------------------------------------------------------ normalize / unshifted / in-lhs

theorem highestDword_append (W : Nat) (l : List Nat) (a b : Nat) :
    highestDword W (l ++ [a, b]) = a + 2 ^ W * b := by
  simp [highestDword, List.getD_eq_getElem?_getD, List.getElem?_append_right]

/-- `div::normalize`: shift so that the top bit is set; the top double word is a valid
    3-by-2 divisor; no bits are lost -/
theorem normalize_spec (W : Nat) (hW : 1 ≤ W) (ws : List Nat) (h : IsWords W ws) (hn : 2 ≤ ws.length)
    (htop : ws.getD (ws.length - 1) 0 ≠ 0) :
    ∃ ws' shift, normalize W ws = .ok (ws', shift, highestDword W ws') ∧ shift + 1 ≤ W ∧
      ws'.length = ws.length ∧ IsWords W ws' ∧ val W ws' = val W ws * 2 ^ shift ∧
      2 ^ (W * ws.length) ≤ 2 * val W ws' := by
  obtain ⟨lo, top, hsplit, hgd, _, hlol⟩ := split_last1 ws (by omega)
  rw [hgd] at htop
  have htw : top < 2 ^ W := h top (by rw [hsplit]; simp)
  have hlow : IsWords W lo := fun x hx => h x (by rw [hsplit]; simp [hx])
  obtain ⟨l1, l2, l3⟩ := lz_spec (bits := W) htop htw
  have sp := shlInPlace_spec W (lz W top) (by omega) ws h
  generalize hsh : shlInPlace W ws (lz W top) = p at sp
  obtain ⟨ws', c⟩ := p
  simp only at sp
  obtain ⟨s1, s2, s3, s4⟩ := sp
  have hvl : val W ws = val W lo + 2 ^ (W * (ws.length - 1)) * top := by
    conv => lhs; rw [hsplit]
    rw [val_append_one, hlol]
  have hlolt : val W lo < 2 ^ (W * (ws.length - 1)) := by
    have := val_lt W lo hlow; rwa [hlol] at this
  have hPn : 2 ^ (W * ws.length) = 2 ^ (W * (ws.length - 1)) * 2 ^ W := by
    rw [← Nat.pow_add]; congr 1
    have : ws.length = ws.length - 1 + 1 := by omega
    conv => lhs; rw [this]
    ring
  have hhalf := pow_two_mul_half W hW
  -- (top + 1) * 2^s ≤ B
  have htop1 : (top + 1) * 2 ^ lz W top ≤ 2 ^ W := by
    have hsp := pow_split (W := W) (s := lz W top) (by omega)
    have : top < 2 ^ (W - lz W top) := by
      apply Nat.lt_of_mul_lt_mul_right (a := 2 ^ lz W top)
      rw [← hsp]; exact l3
    rw [hsp]; exact Nat.mul_le_mul_right _ this
  have hc0 : c = 0 := by
    rcases Nat.eq_zero_or_pos c with hc | hc
    · exact hc
    · exfalso
      have h1 : 2 ^ (W * ws.length) * 1 ≤ 2 ^ (W * ws.length) * c := Nat.mul_le_mul_left _ hc
      have h2 : 2 ^ (W * (ws.length - 1)) * ((top + 1) * 2 ^ lz W top)
          ≤ 2 ^ (W * (ws.length - 1)) * 2 ^ W := Nat.mul_le_mul_left _ htop1
      rw [hvl, hPn] at s1
      rw [hPn] at h1
      nlinarith [Nat.two_pow_pos (lz W top)]
  subst hc0
  have hval : val W ws' = val W ws * 2 ^ lz W top := by simpa using s1
  have hnorm : 2 ^ (W * ws.length) ≤ 2 * val W ws' := by
    rw [hval, hvl, hPn, hhalf]
    have h1 : 2 ^ (W * (ws.length - 1)) * 2 ^ (W - 1) ≤ 2 ^ (W * (ws.length - 1)) * (top * 2 ^ lz W top) :=
      Nat.mul_le_mul_left _ l2
    nlinarith [Nat.zero_le (val W lo * 2 ^ lz W top)]
  -- the top double word is normalised
  obtain ⟨l, a, b, hs2, _, _, hll⟩ := split_last2_getD ws' (by omega)
  have hdw : highestDword W ws' = a + 2 ^ W * b := by
    conv => lhs; rw [hs2]
    exact highestDword_append W l a b
  have hlw : IsWords W l := fun x hx => s3 x (by rw [hs2]; simp [hx])
  have hllt : val W l < 2 ^ (W * (ws.length - 2)) := by
    have := val_lt W l hlw; rwa [hll, s2] at this
  have hv2 : val W ws' = val W l + 2 ^ (W * (ws.length - 2)) * (a + 2 ^ W * b) := by
    conv => lhs; rw [hs2]
    rw [val_append_two, hll, s2]
  have hPn2 : 2 ^ (W * ws.length) = 2 ^ (W * (ws.length - 2)) * 2 ^ (2 * W) := by
    rw [← Nat.pow_add]; congr 1
    have : ws.length = ws.length - 2 + 2 := by omega
    conv => lhs; rw [this]
    ring
  have hd : 2 ^ (2 * W - 1) ≤ a + 2 ^ W * b := by
    have h2 := pow_two_mul_half (2 * W) (by omega)
    rw [hv2, hPn2, h2] at hnorm
    by_contra hcon
    have hlt : a + 2 ^ W * b + 1 ≤ 2 ^ (2 * W - 1) := by omega
    have h3 : 2 ^ (W * (ws.length - 2)) * (a + 2 ^ W * b + 1) ≤ 2 ^ (W * (ws.length - 2)) * 2 ^ (2 * W - 1) :=
      Nat.mul_le_mul_left _ hlt
    nlinarith
  refine ⟨ws', lz W top, ?_, by omega, s2, s3, hval, hnorm⟩
  have hne : ¬ ws.length = 0 := by omega
  simp only [normalize, hne, if_false, hgd, hsh, ne_eq, not_true_eq_false, hdw, normNew_ok (2 * W) _ hd,
    bind, Except.bind, pure, Except.pure]

theorem qtop_lt (W s Q qTop Pk Pn b R X : Nat) (hs : s + 1 ≤ W) (hPk : 0 < Pk)
    (heq : (Q + qTop * Pk) * b + R = X * 2 ^ s) (hX : X < Pk * Pn) (hn : Pn ≤ 2 * b) :
    qTop < 2 ^ W := by
  have hle : 2 ^ (s + 1) ≤ 2 ^ W := Nat.pow_le_pow_right (by omega) hs
  have h2 : 2 ^ (s + 1) = 2 * 2 ^ s := by rw [Nat.pow_succ]; ring
  by_contra hcon
  have hq : 2 * 2 ^ s ≤ qTop := by omega
  have h3 : 2 * 2 ^ s * (Pk * b) ≤ qTop * (Pk * b) := Nat.mul_le_mul_right _ hq
  have h4 : 2 ^ s * (Pk * Pn) ≤ 2 ^ s * (Pk * (2 * b)) := Nat.mul_le_mul_left _ (Nat.mul_le_mul_left _ hn)
  have h5 : (X + 1) * 2 ^ s ≤ Pk * Pn * 2 ^ s := Nat.mul_le_mul_right _ hX
  have h6 := Nat.two_pow_pos s
  nlinarith [Nat.zero_le (Q * b)]

/-- `div_rem_unshifted_in_place`: shift the dividend, divide in place; `q_top` collects the shift
    carry's quotient word and the quotient carry -/
theorem divRemUnshiftedInPlace_spec (W : Nat) (hW : 1 ≤ W) (hW4 : 4 ≤ W) (lhs rhs : List Nat) (shift : Nat)
    (hn : 2 ≤ rhs.length) (hm : rhs.length ≤ lhs.length) (hl : IsWords W lhs) (hr : IsWords W rhs)
    (hs : shift + 1 ≤ W) (hnorm : 2 ^ (W * rhs.length) ≤ 2 * val W rhs) :
    ∃ out qTop, divRemUnshiftedInPlace W lhs rhs shift (highestDword W rhs) = .ok (out, qTop) ∧
      out.length = lhs.length ∧ IsWords W out ∧ qTop < 2 ^ W ∧
      val W (out.take rhs.length) < val W rhs ∧
      (val W (out.drop rhs.length) + qTop * 2 ^ (W * (lhs.length - rhs.length))) * val W rhs
        + val W (out.take rhs.length) = val W lhs * 2 ^ shift := by
  have sp := shlInPlace_spec W shift (by omega) lhs hl
  generalize hsh : shlInPlace W lhs shift = p at sp
  obtain ⟨lhs1, carry⟩ := p
  simp only at sp
  obtain ⟨s1, s2, s3, s4⟩ := sp
  have hPm : 2 ^ (W * lhs.length) = 2 ^ (W * (lhs.length - rhs.length)) * 2 ^ (W * rhs.length) := by
    rw [← Nat.pow_add]; congr 1
    have : lhs.length = (lhs.length - rhs.length) + rhs.length := by omega
    conv => lhs; rw [this]
    ring
  have hXlt : val W lhs < 2 ^ (W * (lhs.length - rhs.length)) * 2 ^ (W * rhs.length) := by
    rw [← hPm]; exact val_lt W lhs hl
  have hqt : ∀ Q qTop R, (Q + qTop * 2 ^ (W * (lhs.length - rhs.length))) * val W rhs + R
      = val W lhs * 2 ^ shift → qTop < 2 ^ W := fun Q qTop R heq =>
    qtop_lt W shift Q qTop _ _ _ R _ hs (Nat.two_pow_pos _) heq hXlt hnorm
  by_cases hc : carry > 0
  · -- the shift carry is divided first
    have hwl : (lhs1.drop (lhs1.length - rhs.length)).length = rhs.length := by
      simp only [List.length_drop]; omega
    have hwlt : val W (lhs1.drop (lhs1.length - rhs.length)) < 2 ^ (W * rhs.length) := by
      have := val_lt W _ (s3.drop (lhs1.length - rhs.length)); rwa [hwl] at this
    have hA : val W (lhs1.drop (lhs1.length - rhs.length)) + carry * 2 ^ (W * rhs.length)
        < val W rhs * 2 ^ W := by
      have hhalf := pow_two_mul_half W hW
      have h1 : 2 ^ shift ≤ 2 ^ (W - 1) := Nat.pow_le_pow_right (by omega) (by omega)
      have h2 : (carry + 1) * 2 ^ (W * rhs.length) ≤ 2 ^ (W - 1) * 2 ^ (W * rhs.length) :=
        Nat.mul_le_mul_right _ (by omega)
      have h3 : 2 ^ (W - 1) * 2 ^ (W * rhs.length) ≤ 2 ^ (W - 1) * (2 * val W rhs) :=
        Nat.mul_le_mul_left _ hnorm
      rw [hhalf]
      nlinarith
    obtain ⟨q, win', e, hq, hwl', hww, hwlt', hweq⟩ :=
      divRemHighestWord_spec W hW carry lhs1 rhs hn (by omega) s3 hr hnorm hA
    rw [s2] at e hweq
    have htkl : (lhs1.take (lhs.length - rhs.length)).length = lhs.length - rhs.length := by
      rw [List.length_take]; omega
    have hl2 : IsWords W (lhs1.take (lhs.length - rhs.length) ++ win') :=
      IsWords.append (s3.take _) hww
    have hl2len : (lhs1.take (lhs.length - rhs.length) ++ win').length = lhs.length := by
      rw [List.length_append, htkl, hwl']; omega
    obtain ⟨out, c, e2, o1, o2, o3, o4⟩ :=
      divRemInPlace_spec W hW hW4 _ rhs hn (by omega) hl2 hr hnorm
    rw [hl2len] at o1 o4
    have hv1 := take_drop_val W lhs1 (lhs.length - rhs.length) (by omega)
    rw [val_append, htkl] at o4
    have hfin : (val W (out.drop rhs.length) + (q + c) * 2 ^ (W * (lhs.length - rhs.length))) * val W rhs
        + val W (out.take rhs.length) = val W lhs * 2 ^ shift := by
      rw [← s1, hv1, hPm]
      generalize val W (out.drop rhs.length) = Q at *
      generalize val W (out.take rhs.length) = R at *
      generalize val W (lhs1.take (lhs.length - rhs.length)) = L at *
      generalize val W (lhs1.drop (lhs.length - rhs.length)) = Wn at *
      generalize 2 ^ (W * (lhs.length - rhs.length)) = Pk at *
      generalize 2 ^ (W * rhs.length) = Pn at *
      have e3 : Pk * (q * val W rhs + val W win') = Pk * (Wn + carry * Pn) := by rw [hweq]
      linarith [e3, o4]
    refine ⟨out, q + c, ?_, o1, o2, hqt _ _ _ hfin, o3, hfin⟩
    simp only [divRemUnshiftedInPlace, hsh, hc, if_true, e, bind, Except.bind, e2, pure, Except.pure]
  · have hc0 : carry = 0 := by omega
    subst hc0
    obtain ⟨out, c, e2, o1, o2, o3, o4⟩ := divRemInPlace_spec W hW hW4 lhs1 rhs hn (by omega) s3 hr hnorm
    rw [s2] at o1 o4
    have hfin : (val W (out.drop rhs.length) + (0 + c) * 2 ^ (W * (lhs.length - rhs.length))) * val W rhs
        + val W (out.take rhs.length) = val W lhs * 2 ^ shift := by
      rw [← s1]; simpa using o4
    refine ⟨out, 0 + c, ?_, o1, o2, hqt _ _ _ hfin, o3, hfin⟩
    simp only [divRemUnshiftedInPlace, hsh, Nat.lt_irrefl, if_false, bind, Except.bind, e2, pure,
      Except.pure, gt_iff_lt]

/-- un-shift of the remainder: exact, the `debug_assert_zero!` holds -/
theorem shrRemainder_spec (W s X : Nat) (hs : s ≤ W) (r : List Nat) (h : IsWords W r)
    (hv : val W r = X * 2 ^ s) :
    ∃ r', shrRemainder W r s = .ok r' ∧ val W r' = X ∧ r'.length = r.length ∧ IsWords W r' := by
  have sp := shrInPlace_spec W s hs r h
  generalize hsh : shrInPlace W r s = p at sp
  obtain ⟨r', c⟩ := p
  simp only at sp
  obtain ⟨k', e1, hk', hvv, hl, hw⟩ := sp
  have hps := Nat.two_pow_pos s
  rw [hv] at hvv
  have hk0 : k' = 0 := by
    rcases Nat.lt_or_ge (val W r') X with hlt | hge
    · exfalso
      have : (val W r' + 1) * 2 ^ s ≤ X * 2 ^ s := Nat.mul_le_mul_right _ hlt
      nlinarith
    · have : X * 2 ^ s ≤ val W r' * 2 ^ s := Nat.mul_le_mul_right _ hge
      omega
  subst hk0
  have hx : val W r' = X := by
    apply Nat.eq_of_mul_eq_mul_right hps; simpa using hvv
  refine ⟨r', ?_, hx, hl, hw⟩
  simp only [shrRemainder, hsh, e1, Nat.zero_mul, ne_eq, not_true_eq_false, if_false]

/-- `div_rem_in_lhs`: the buffer holds the exact quotient (incl. its top word) above the shifted
    exact remainder -/
theorem divRemInLhs_spec (W : Nat) (hW : 1 ≤ W) (hW4 : 4 ≤ W) (lhs rhs : List Nat) (hl : IsWords W lhs)
    (hr : IsWords W rhs) (hn : 2 ≤ rhs.length) (hm : rhs.length ≤ lhs.length)
    (htop : rhs.getD (rhs.length - 1) 0 ≠ 0) :
    ∃ buf rhs' shift, divRemInLhs W lhs rhs = .ok (buf, rhs', shift) ∧ rhs'.length = rhs.length ∧
      shift ≤ W ∧ IsWords W buf ∧ buf.length = lhs.length + 1 ∧
      val W (buf.drop rhs.length) = val W lhs / val W rhs ∧
      val W (buf.take rhs.length) = (val W lhs % val W rhs) * 2 ^ shift := by
  obtain ⟨rhs', shift, e, hs, n1, n2, n3, n4⟩ := normalize_spec W hW rhs hr hn htop
  rw [← n1] at n4
  obtain ⟨out, qTop, e2, o1, o2, o3, o4, o5⟩ :=
    divRemUnshiftedInPlace_spec W hW hW4 lhs rhs' shift (by omega) (by omega) hl n2 hs n4
  rw [n1] at o4 o5
  have hdl : (out.drop rhs.length).length = lhs.length - rhs.length := by
    simp only [List.length_drop]; omega
  have hbpos : 0 < val W rhs := by
    have h1 := Nat.two_pow_pos (W * rhs'.length)
    have h2 := Nat.two_pow_pos shift
    rw [n3] at n4
    rcases Nat.eq_zero_or_pos (val W rhs) with h | h
    · rw [h] at n4; omega
    · exact h
  refine ⟨out ++ [qTop], rhs', shift, ?_, n1, by omega,
    IsWords.append o2 (IsWords.cons o3 (IsWords.nil W)), by rw [List.length_append, o1]; simp, ?_, ?_⟩
  · simp only [divRemInLhs, e, bind, Except.bind, e2, pure, Except.pure]
  all_goals
    rw [n3] at o4 o5
    have hq : val W ((out ++ [qTop]).drop rhs.length)
        = val W (out.drop rhs.length) + qTop * 2 ^ (W * (lhs.length - rhs.length)) := by
      rw [List.drop_append_of_le_length (by omega), val_append_one, hdl]; ring
    have ht : (out ++ [qTop]).take rhs.length = out.take rhs.length :=
      List.take_append_of_le_length (by omega)
    first | rw [hq] | rw [ht]
    have ⟨u1, u2⟩ := unshift _ _ _ _ _ o5 o4
    have hu : val W lhs / val W rhs
          = val W (out.drop rhs.length) + qTop * 2 ^ (W * (lhs.length - rhs.length)) ∧
        val W lhs % val W rhs = val W (out.take rhs.length) / 2 ^ shift :=
      (Nat.div_mod_unique hbpos).mpr ⟨by rw [← u1]; ring, u2⟩
  · exact hu.1.symm
  · rw [hu.2]
    generalize val W (out.drop rhs.length) + qTop * 2 ^ (W * (lhs.length - rhs.length)) = Qt at *
    generalize val W (out.take rhs.length) = R' at *
    have h7 : (Qt * val W rhs + R' / 2 ^ shift) * 2 ^ shift = val W lhs * 2 ^ shift := by rw [u1]
    generalize R' / 2 ^ shift = t at *
    linarith [h7, o5]

/-- `div_rem_large` / `div_large` / `rem_large`: exact quotient and remainder, canonical results -/
theorem divRemLarge_spec (W : Nat) (hW : 1 ≤ W) (hW4 : 4 ≤ W) (lhs rhs : List Nat) (hl : IsWords W lhs)
    (hr : IsWords W rhs) (hn : 2 ≤ rhs.length) (hm : rhs.length ≤ lhs.length)
    (htop : rhs.getD (rhs.length - 1) 0 ≠ 0) :
    (∃ q r, divRemLarge W lhs rhs = .ok (q, r) ∧ q.value W = val W lhs / val W rhs ∧
      r.value W = val W lhs % val W rhs ∧ q.Canon W ∧ r.Canon W) ∧
    (∃ q, divLarge W lhs rhs = .ok q ∧ q.value W = val W lhs / val W rhs ∧ q.Canon W) ∧
    (∃ r, remLarge W lhs rhs = .ok r ∧ r.value W = val W lhs % val W rhs ∧ r.Canon W) := by
  obtain ⟨buf, rhs', shift, e, h1, h2, h3, h4, h5, h6⟩ := divRemInLhs_spec W hW hW4 lhs rhs hl hr hn hm htop
  obtain ⟨r', e2, r1, r2, r3⟩ := shrRemainder_spec W shift _ h2 (buf.take rhs.length) (h3.take _) h6
  refine ⟨⟨fromBuffer W (buf.drop rhs.length), fromBuffer W r', ?_, ?_, ?_,
      fromBuffer_canon W _ (h3.drop _), fromBuffer_canon W _ r3⟩,
    ⟨fromBuffer W (buf.drop rhs.length), ?_, ?_, fromBuffer_canon W _ (h3.drop _)⟩,
    ⟨fromBuffer W r', ?_, ?_, fromBuffer_canon W _ r3⟩⟩
  · simp only [divRemLarge, e, bind, Except.bind, h1, e2, pure, Except.pure]
  · rw [fromBuffer_value, h5]
  · rw [fromBuffer_value, r1]
  · simp only [divLarge, e, bind, Except.bind, h1, pure, Except.pure]
  · rw [fromBuffer_value, h5]
  · simp only [remLarge, e, bind, Except.bind, h1, e2, pure, Except.pure]
  · rw [fromBuffer_value, r1]

-- ------------------------------------------------------------------ dispatch (`div_ops.rs mod repr`)

theorem top_ne_zero_of_canon {W : Nat} {ws : List Nat} (h : (TRepr.large ws).Canon W) :
    ws.getD (ws.length - 1) 0 ≠ 0 := by
  obtain ⟨h3, _, hl⟩ := h
  obtain ⟨lo, a, hs, hg, _, _⟩ := split_last1 ws (by omega)
  rw [hg]
  intro h0
  apply hl
  rw [hs, h0]; simp

theorem small_canon_of_le {W x y : Nat} (hx : x < 2 ^ (2 * W)) (h : y ≤ x) : (TRepr.small y).Canon W :=
  Nat.lt_of_le_of_lt h hx

/-- quotient/remainder from the division identity -/
theorem div_mod_of_eq {a b q r : Nat} (hb : 0 < b) (h : q * b + r = a) (hr : r < b) :
    a / b = q ∧ a % b = r :=
  (Nat.div_mod_unique hb).mpr ⟨by rw [← h]; ring, hr⟩

/-- `div_rem_large_dword`: heap value by an inline divisor -/
theorem divRemLargeDword_spec (W : Nat) (hW : 1 ≤ W) (ws : List Nat) (rhs : Nat)
    (hc : (TRepr.large ws).Canon W) (hr : rhs < 2 ^ (2 * W)) :
    (rhs = 0 → divRemLargeDword W ws rhs = .error .divideByZero) ∧
    (rhs ≠ 0 → ∃ q r, divRemLargeDword W ws rhs = .ok (q, r) ∧ q.value W = val W ws / rhs ∧
      r.value W = val W ws % rhs ∧ q.Canon W ∧ r.Canon W) := by
  constructor
  · intro h0; simp [divRemLargeDword, h0]
  · intro hne
    have hpos : 0 < rhs := Nat.pos_of_ne_zero hne
    by_cases hw : rhs < 2 ^ W
    · obtain ⟨qs, r, e, hv, hrl, _, hq⟩ := divByWordInPlace_spec W rhs ws hc.large_words hpos hw
      have ⟨d1, d2⟩ := div_mod_of_eq hpos hv hrl
      refine ⟨fromBuffer W qs, .small r, ?_, by rw [fromBuffer_value, d1], by simp [d2],
        fromBuffer_canon W qs hq, Nat.lt_trans hrl hr⟩
      simp only [divRemLargeDword, hne, if_false, hw, if_true, e, bind, Except.bind, pure, Except.pure]
    · obtain ⟨qs, r, e, hv, hrl, _, hq⟩ := divByDwordInPlace_spec W rhs hW ws hc.large_words
        (by have := hc.large_len; omega) (Nat.le_of_not_lt hw) hr
      have ⟨d1, d2⟩ := div_mod_of_eq hpos hv hrl
      refine ⟨fromBuffer W qs, .small r, ?_, by rw [fromBuffer_value, d1], by simp [d2],
        fromBuffer_canon W qs hq, Nat.lt_trans hrl hr⟩
      simp only [divRemLargeDword, hne, if_false, hw, e, bind, Except.bind, pure, Except.pure]

/-- `rem_large_dword` (the `%` path uses `rem_by_word` / `rem_by_dword`) -/
theorem remLargeDword_spec (W : Nat) (hW : 1 ≤ W) (ws : List Nat) (rhs : Nat)
    (hc : (TRepr.large ws).Canon W) (hr : rhs < 2 ^ (2 * W)) :
    (rhs = 0 → remLargeDword W ws rhs = .error .divideByZero) ∧
    (rhs ≠ 0 → remLargeDword W ws rhs = .ok (.small (val W ws % rhs))) := by
  constructor
  · intro h0; simp [remLargeDword, h0]
  · intro hne
    have hpos : 0 < rhs := Nat.pos_of_ne_zero hne
    by_cases hw : rhs < 2 ^ W
    · have e := remByWord_spec W rhs ws hc.large_words hc.large_ne_nil hpos hw
      simp only [remLargeDword, hne, if_false, hw, if_true, e, bind, Except.bind, pure, Except.pure]
    · have e := remByDword_spec W rhs hW ws hc.large_words (by have := hc.large_len; omega)
        (Nat.le_of_not_lt hw) hr
      simp only [remLargeDword, hne, if_false, hw, e, bind, Except.bind, pure, Except.pure]

/-- `DivRem for TypedRepr`: exact `(a / b, a % b)` with canonical results; `b = 0` panics -/
theorem divRemRepr_spec (W : Nat) (hW : 1 ≤ W) (hW4 : 4 ≤ W) (a b : TRepr) (ha : a.Canon W) (hb : b.Canon W) :
    (b.value W = 0 → divRemRepr W a b = .error .divideByZero) ∧
    (b.value W ≠ 0 → ∃ q r, divRemRepr W a b = .ok (q, r) ∧ q.value W = a.value W / b.value W ∧
      r.value W = a.value W % b.value W ∧ q.Canon W ∧ r.Canon W) := by
  cases a with
  | small x =>
    cases b with
    | small y =>
      constructor
      · intro h0; simp only [TRepr.value_small] at h0; simp [divRemRepr, divRemDword, h0]
      · intro hne
        simp only [TRepr.value_small] at hne
        exact ⟨.small (x / y), .small (x % y), by simp [divRemRepr, divRemDword, hne], rfl, rfl,
          small_canon_of_le ha (Nat.div_le_self _ _), small_canon_of_le ha (Nat.mod_le _ _)⟩
    | large ws =>
      have hge := hb.large_ge
      have hx : x < val W ws := Nat.lt_of_lt_of_le ha hge
      constructor
      · intro h0; simp only [TRepr.value_large] at h0; omega
      · intro _
        exact ⟨.small 0, .small x, rfl, by simp [Nat.div_eq_of_lt hx], by simp [Nat.mod_eq_of_lt hx],
          Nat.two_pow_pos _, ha⟩
  | large ws =>
    cases b with
    | small y => exact divRemLargeDword_spec W hW ws y ha hb
    | large w1 =>
      have hge := hb.large_ge
      constructor
      · intro h0; simp only [TRepr.value_large] at h0
        have := Nat.two_pow_pos (2 * W); omega
      · intro _
        by_cases hl : ws.length ≥ w1.length
        · obtain ⟨⟨q, r, e, h1, h2, h3, h4⟩, _, _⟩ := divRemLarge_spec W hW hW4 ws w1 ha.large_words
            hb.large_words (by have := hb.large_len; omega) hl (top_ne_zero_of_canon (W := W) (ws := w1) hb)
          exact ⟨q, r, by simp only [divRemRepr, hl, if_true, e], h1, h2, h3, h4⟩
        · have hlt : val W ws < val W w1 :=
            val_lt_of_length_lt W ws w1 ha.large_words hb.large_ne_nil hb.2.2 (by omega)
          refine ⟨.small 0, fromBuffer W ws, by simp only [divRemRepr, hl, if_false], ?_, ?_,
            Nat.two_pow_pos _, fromBuffer_canon W ws ha.large_words⟩
          · simp [Nat.div_eq_of_lt hlt]
          · simp [fromBuffer_value, Nat.mod_eq_of_lt hlt]

/-- `Div for TypedRepr` -/
theorem divRepr_spec (W : Nat) (hW : 1 ≤ W) (hW4 : 4 ≤ W) (a b : TRepr) (ha : a.Canon W) (hb : b.Canon W) :
    (b.value W = 0 → divRepr W a b = .error .divideByZero) ∧
    (b.value W ≠ 0 → ∃ q, divRepr W a b = .ok q ∧ q.value W = a.value W / b.value W ∧ q.Canon W) := by
  cases a with
  | small x =>
    cases b with
    | small y =>
      constructor
      · intro h0; simp only [TRepr.value_small] at h0; simp [divRepr, h0]
      · intro hne
        simp only [TRepr.value_small] at hne
        exact ⟨.small (x / y), by simp [divRepr, hne], rfl, small_canon_of_le ha (Nat.div_le_self _ _)⟩
    | large ws =>
      have hge := hb.large_ge
      have hx : x < val W ws := Nat.lt_of_lt_of_le ha hge
      constructor
      · intro h0; simp only [TRepr.value_large] at h0; omega
      · intro _
        exact ⟨.small 0, rfl, by simp [Nat.div_eq_of_lt hx], Nat.two_pow_pos _⟩
  | large ws =>
    cases b with
    | small y =>
      have ⟨d0, d1⟩ := divRemLargeDword_spec W hW ws y ha hb
      constructor
      · intro h0; simp only [TRepr.value_small] at h0
        simp only [divRepr, d0 h0, bind, Except.bind]
      · intro hne
        simp only [TRepr.value_small] at hne
        obtain ⟨q, r, e, h1, _, h3, _⟩ := d1 hne
        exact ⟨q, by simp only [divRepr, e, bind, Except.bind, pure, Except.pure], h1, h3⟩
    | large w1 =>
      have hge := hb.large_ge
      constructor
      · intro h0; simp only [TRepr.value_large] at h0
        have := Nat.two_pow_pos (2 * W); omega
      · intro _
        by_cases hl : ws.length ≥ w1.length
        · obtain ⟨_, ⟨q, e, h1, h3⟩, _⟩ := divRemLarge_spec W hW hW4 ws w1 ha.large_words
            hb.large_words (by have := hb.large_len; omega) hl (top_ne_zero_of_canon (W := W) (ws := w1) hb)
          exact ⟨q, by simp only [divRepr, hl, if_true, e], h1, h3⟩
        · have hlt : val W ws < val W w1 :=
            val_lt_of_length_lt W ws w1 ha.large_words hb.large_ne_nil hb.2.2 (by omega)
          exact ⟨.small 0, by simp only [divRepr, hl, if_false], by simp [Nat.div_eq_of_lt hlt],
            Nat.two_pow_pos _⟩

/-- `Rem for TypedRepr` -/
theorem remRepr_spec (W : Nat) (hW : 1 ≤ W) (hW4 : 4 ≤ W) (a b : TRepr) (ha : a.Canon W) (hb : b.Canon W) :
    (b.value W = 0 → remRepr W a b = .error .divideByZero) ∧
    (b.value W ≠ 0 → ∃ r, remRepr W a b = .ok r ∧ r.value W = a.value W % b.value W ∧ r.Canon W) := by
  cases a with
  | small x =>
    cases b with
    | small y =>
      constructor
      · intro h0; simp only [TRepr.value_small] at h0; simp [remRepr, h0]
      · intro hne
        simp only [TRepr.value_small] at hne
        exact ⟨.small (x % y), by simp [remRepr, hne], rfl, small_canon_of_le ha (Nat.mod_le _ _)⟩
    | large ws =>
      have hge := hb.large_ge
      have hx : x < val W ws := Nat.lt_of_lt_of_le ha hge
      constructor
      · intro h0; simp only [TRepr.value_large] at h0; omega
      · intro _
        exact ⟨.small x, rfl, by simp [Nat.mod_eq_of_lt hx], ha⟩
  | large ws =>
    cases b with
    | small y =>
      have ⟨d0, d1⟩ := remLargeDword_spec W hW ws y ha hb
      constructor
      · intro h0; simp only [TRepr.value_small] at h0; simp only [remRepr, d0 h0]
      · intro hne
        simp only [TRepr.value_small] at hne
        have hpos : 0 < y := Nat.pos_of_ne_zero hne
        exact ⟨.small (val W ws % y), by simp only [remRepr, d1 hne], rfl,
          Nat.lt_trans (Nat.mod_lt _ hpos) hb⟩
    | large w1 =>
      have hge := hb.large_ge
      constructor
      · intro h0; simp only [TRepr.value_large] at h0
        have := Nat.two_pow_pos (2 * W); omega
      · intro _
        by_cases hl : ws.length ≥ w1.length
        · obtain ⟨_, _, ⟨r, e, h1, h3⟩⟩ := divRemLarge_spec W hW hW4 ws w1 ha.large_words
            hb.large_words (by have := hb.large_len; omega) hl (top_ne_zero_of_canon (W := W) (ws := w1) hb)
          exact ⟨r, by simp only [remRepr, hl, if_true, e], h1, h3⟩
        · have hlt : val W ws < val W w1 :=
            val_lt_of_length_lt W ws w1 ha.large_words hb.large_ne_nil hb.2.2 (by omega)
          exact ⟨fromBuffer W ws, by simp only [remRepr, hl, if_false],
            by simp [fromBuffer_value, Nat.mod_eq_of_lt hlt], fromBuffer_canon W ws ha.large_words⟩

/-- `TypedRepr::add_one` -/
theorem addOneRepr_spec (W : Nat) (hW : 1 ≤ W) (a : TRepr) (ha : a.Canon W) :
    (addOneRepr W a).value W = a.value W + 1 ∧ (addOneRepr W a).Canon W := by
  cases a with
  | small d =>
    have h1 : 1 < 2 ^ (2 * W) := Nat.one_lt_two_pow (by omega)
    exact ⟨addDword_value W d 1 ha h1, addDword_canon W d 1 ha h1⟩
  | large ws =>
    have ⟨s1, s2, s3, s4⟩ := addOne_spec W ws ha.large_words
    simp only [addOneRepr]
    generalize addOne W ws = p at *
    obtain ⟨r, c⟩ := p
    simp only at s1 s2 s3 s4 ⊢
    by_cases hc : c = 0
    · subst hc
      simp only [if_true]
      exact ⟨by rw [fromBuffer_value]; simpa using s1, fromBuffer_canon W r s3⟩
    · have hc1 : c = 1 := by omega
      subst hc1
      simp only [if_false, Nat.one_ne_zero]
      refine ⟨?_, fromBuffer_canon W _ (IsWords.append s3 (isWords_one W hW))⟩
      rw [fromBuffer_value, val_append_one, s2]
      simpa using s1

-- ------------------------------------------------------------------ ConstDivisor (`div_const.rs`)

/-- what `ConstDivisor::new(b)` establishes about its precomputed fields -/
def ConstDiv.Valid (W b : Nat) : ConstDiv → Prop
  | .single d shift => 0 < b ∧ b < 2 ^ W ∧ shift + 1 ≤ W ∧ d = b * 2 ^ shift ∧ 2 ^ (W - 1) ≤ d ∧ d < 2 ^ W
  | .double d shift => 2 ^ W ≤ b ∧ b < 2 ^ (2 * W) ∧ shift + 1 ≤ W ∧ d = b * 2 ^ shift ∧
      2 ^ (2 * W - 1) ≤ d ∧ d < 2 ^ (2 * W)
  | .large nd shift dtop => 3 ≤ nd.length ∧ IsWords W nd ∧ shift + 1 ≤ W ∧ val W nd = b * 2 ^ shift ∧
      2 ^ (W * nd.length) ≤ 2 * val W nd ∧ dtop = highestDword W nd ∧ 2 ^ (2 * W) ≤ b

theorem lz_word_lt (W x : Nat) (hW : 1 ≤ W) (hx : x ≠ 0) : lz W x + 1 ≤ W := by
  simp only [lz, hx, if_false]; omega

/-- `ConstDivisor::new`: zero panics with the documented message, otherwise the fields are valid -/
theorem ConstDiv.new_spec (W : Nat) (hW : 1 ≤ W) (n : TRepr) (hn : n.Canon W) :
    (n.value W = 0 → ConstDiv.new W n = .error .divideByZero) ∧
    (n.value W ≠ 0 → ∃ c, ConstDiv.new W n = .ok c ∧ c.Valid W (n.value W)) := by
  cases n with
  | small dw =>
    simp only [TRepr.value_small]
    constructor
    · intro h0; subst h0; rfl
    · intro hne
      obtain ⟨k, rfl⟩ : ∃ k, dw = k + 1 := ⟨dw - 1, by omega⟩
      by_cases hw : k + 1 < 2 ^ W
      · obtain ⟨l1, l2, l3⟩ := lz_spec (bits := W) hne hw
        refine ⟨.single ((k + 1) * 2 ^ lz W (k + 1)) (lz W (k + 1)), ?_,
          by omega, hw, lz_word_lt W _ hW hne, rfl, l2, l3⟩
        simp only [ConstDiv.new, hw, if_true, Nat.mod_eq_of_lt l3, normNew_ok W _ l2, bind, Except.bind,
          pure, Except.pure]
      · have hge : 2 ^ W ≤ k + 1 := Nat.le_of_not_lt hw
        obtain ⟨l1, l2, l3⟩ := lz_spec (bits := 2 * W) hne hn
        refine ⟨.double ((k + 1) * 2 ^ lz (2 * W) (k + 1)) (lz (2 * W) (k + 1)), ?_,
          hge, hn, lz_dword_lt W _ hW hge, rfl, l2, l3⟩
        simp only [ConstDiv.new, hw, if_false, Nat.mod_eq_of_lt l3, normNew_ok (2 * W) _ l2, bind,
          Except.bind, pure, Except.pure]
  | large ws =>
    simp only [TRepr.value_large]
    have hge := hn.large_ge
    constructor
    · intro h0; have := Nat.two_pow_pos (2 * W); omega
    · intro _
      obtain ⟨ws', shift, e, hs, n1, n2, n3, n4⟩ := normalize_spec W hW ws hn.large_words
        (by have := hn.large_len; omega) (top_ne_zero_of_canon hn)
      refine ⟨.large ws' shift (highestDword W ws'), ?_, by rw [n1]; exact hn.large_len, n2, hs, n3,
        by rw [n1]; exact n4, rfl, hge⟩
      simp only [ConstDiv.new, e, bind, Except.bind, pure, Except.pure]

/-- `ConstDivisor::value()` gives back the divisor -/
theorem ConstDiv.value_spec (W b : Nat) (c : ConstDiv) (hv : c.Valid W b) :
    ∃ r, c.value W = .ok r ∧ r.value W = b ∧ r.Canon W := by
  cases c with
  | single d shift =>
    obtain ⟨_, h2, _, h4, _, _⟩ := hv
    refine ⟨.small (d / 2 ^ shift), rfl, ?_, ?_⟩
    · simp [h4, Nat.mul_div_cancel _ (Nat.two_pow_pos shift)]
    · simp only [TRepr.Canon, h4, Nat.mul_div_cancel _ (Nat.two_pow_pos shift)]
      exact Nat.lt_of_lt_of_le h2 (Nat.pow_le_pow_right (by omega) (by omega))
  | double d shift =>
    obtain ⟨_, h2, _, h4, _, _⟩ := hv
    refine ⟨.small (d / 2 ^ shift), rfl, ?_, ?_⟩
    · simp [h4, Nat.mul_div_cancel _ (Nat.two_pow_pos shift)]
    · simp only [TRepr.Canon, h4, Nat.mul_div_cancel _ (Nat.two_pow_pos shift)]; exact h2
  | large nd shift dtop =>
    obtain ⟨_, h2, h3, h4, _, _, _⟩ := hv
    obtain ⟨r', e, r1, _, r3⟩ := shrRemainder_spec W shift b (by omega) nd h2 h4
    exact ⟨fromBuffer W r', by simp only [ConstDiv.value, e, bind, Except.bind, pure, Except.pure],
      by rw [fromBuffer_value, r1], fromBuffer_canon W r' r3⟩

theorem pow_shift_le_half (W shift : Nat) (hs : shift + 1 ≤ W) : 2 ^ shift ≤ 2 ^ (W - 1) :=
  Nat.pow_le_pow_right (by omega) (by omega)

/-- `div_rem_small_single`: inline dividend by a prepared one-word divisor -/
theorem divRemSmallSingle_spec (W dw b shift : Nat) (hdw : dw < 2 ^ (2 * W)) (hb : 0 < b)
    (hs : shift + 1 ≤ W) (hd1 : 2 ^ (W - 1) ≤ b * 2 ^ shift) (hd2 : b * 2 ^ shift < 2 ^ W) :
    ∃ q r, divRemSmallSingle W dw (b * 2 ^ shift) shift = .ok (q, r) ∧ q * b + r = dw ∧ r < b := by
  have hp : 0 < 2 ^ W := Nat.two_pow_pos W
  have ⟨d1, d2, d3, d4⟩ := shlDword_spec W dw shift (by omega) hdw
  generalize hsd : shlDword W dw shift = p at d1 d2 d3 d4
  obtain ⟨lo, mid, hi⟩ := p
  simp only at d1 d2 d3 d4
  have hdpos : 0 < b * 2 ^ shift := Nat.mul_pos hb (Nat.two_pow_pos _)
  have hhi : hi < b * 2 ^ shift :=
    Nat.lt_of_lt_of_le d4 (Nat.le_trans (pow_shift_le_half W shift hs) hd1)
  have hpre1 : (mid + 2 ^ W * hi) / 2 ^ W < b * 2 ^ shift := by
    rw [add_mul_div_word W mid hi d3]; exact hhi
  have hr1 : (mid + 2 ^ W * hi) % (b * 2 ^ shift) < b * 2 ^ shift := Nat.mod_lt _ hdpos
  have hpre0 : (lo + 2 ^ W * ((mid + 2 ^ W * hi) % (b * 2 ^ shift))) / 2 ^ W < b * 2 ^ shift := by
    rw [add_mul_div_word W lo _ d2]; exact hr1
  have h1 := Nat.div_add_mod (mid + 2 ^ W * hi) (b * 2 ^ shift)
  have h0 := Nat.div_add_mod (lo + 2 ^ W * ((mid + 2 ^ W * hi) % (b * 2 ^ shift))) (b * 2 ^ shift)
  have hr0 := Nat.mod_lt (lo + 2 ^ W * ((mid + 2 ^ W * hi) % (b * 2 ^ shift))) hdpos
  have heq : ((lo + 2 ^ W * ((mid + 2 ^ W * hi) % (b * 2 ^ shift))) / (b * 2 ^ shift)
        + 2 ^ W * ((mid + 2 ^ W * hi) / (b * 2 ^ shift))) * (b * 2 ^ shift)
      + (lo + 2 ^ W * ((mid + 2 ^ W * hi) % (b * 2 ^ shift))) % (b * 2 ^ shift) = dw * 2 ^ shift := by
    rw [← d1, two_mul_W]
    generalize (mid + 2 ^ W * hi) / (b * 2 ^ shift) = q1 at *
    generalize (mid + 2 ^ W * hi) % (b * 2 ^ shift) = r1 at *
    generalize (lo + 2 ^ W * r1) / (b * 2 ^ shift) = q0 at *
    generalize (lo + 2 ^ W * r1) % (b * 2 ^ shift) = r0 at *
    have e1 : 2 ^ W * (b * 2 ^ shift * q1 + r1) = 2 ^ W * (mid + 2 ^ W * hi) := by rw [h1]
    linarith [e1, h0]
  have ⟨u1, u2⟩ := unshift _ _ _ _ _ heq hr0
  refine ⟨_, _, ?_, u1, u2⟩
  simp only [divRemSmallSingle, hsd, bind, Except.bind, div2by1_ok W _ _ hpre1, div2by1_ok W _ _ hpre0,
    pure, Except.pure]

/-- the high two words of a shifted inline dividend are below a normalised double-word divisor -/
theorem shl_hi_lt (W dw shift lo mid hi d : Nat) (hs : shift + 1 ≤ W) (hdw : dw < 2 ^ (2 * W))
    (h1 : lo + 2 ^ W * mid + 2 ^ (2 * W) * hi = dw * 2 ^ shift) (hd : 2 ^ (2 * W - 1) ≤ d) :
    mid + 2 ^ W * hi < d := by
  have h2 := pow_W_shift_le W shift hs
  have h3 : (dw + 1) * 2 ^ shift ≤ 2 ^ (2 * W) * 2 ^ shift := Nat.mul_le_mul_right _ hdw
  rw [two_mul_W] at h1 h3
  have hp := Nat.two_pow_pos W
  have : 2 ^ W * (mid + 2 ^ W * hi) < 2 ^ W * (2 ^ W * 2 ^ shift) := by nlinarith [Nat.two_pow_pos shift]
  have := Nat.lt_of_mul_lt_mul_left this
  omega

/-- `div_rem_small_double`: inline dividend by a prepared double-word divisor -/
theorem divRemSmallDouble_spec (W dw b shift : Nat) (hdw : dw < 2 ^ (2 * W)) (hb : 0 < b)
    (hs : shift + 1 ≤ W) (hd1 : 2 ^ (2 * W - 1) ≤ b * 2 ^ shift) :
    ∃ q r, divRemSmallDouble W dw (b * 2 ^ shift) shift = .ok (q, r) ∧ q * b + r = dw ∧ r < b := by
  have ⟨d1, d2, d3, d4⟩ := shlDword_spec W dw shift (by omega) hdw
  generalize hsd : shlDword W dw shift = p at d1 d2 d3 d4
  obtain ⟨lo, mid, hi⟩ := p
  simp only at d1 d2 d3 d4
  have hdpos : 0 < b * 2 ^ shift := Nat.mul_pos hb (Nat.two_pow_pos _)
  have hpre := shl_hi_lt W dw shift lo mid hi _ hs hdw d1 hd1
  have h0 := Nat.div_add_mod (lo + 2 ^ W * (mid + 2 ^ W * hi)) (b * 2 ^ shift)
  have hr0 := Nat.mod_lt (lo + 2 ^ W * (mid + 2 ^ W * hi)) hdpos
  have heq : (lo + 2 ^ W * (mid + 2 ^ W * hi)) / (b * 2 ^ shift) * (b * 2 ^ shift)
      + (lo + 2 ^ W * (mid + 2 ^ W * hi)) % (b * 2 ^ shift) = dw * 2 ^ shift := by
    rw [← d1, two_mul_W, Nat.mul_comm, h0]; ring
  have ⟨u1, u2⟩ := unshift _ _ _ _ _ heq hr0
  refine ⟨_, _, ?_, u1, u2⟩
  simp only [divRemSmallDouble, hsd, bind, Except.bind, div3by2_ok W _ _ _ hpre, pure, Except.pure]

/-- remainder of a shifted value by the shifted divisor, un-shifted -/
theorem shifted_mod (X b s : Nat) : (X * 2 ^ s) % (b * 2 ^ s) / 2 ^ s = X % b := by
  rw [Nat.mul_mod_mul_right, Nat.mul_div_cancel _ (Nat.two_pow_pos s)]

/-- `ConstSingleDivisor::rem_dword` = (dword << shift) % d -/
theorem singleRemDword_spec (W dw b shift : Nat) (hW : 1 ≤ W) (hdw : dw < 2 ^ (2 * W)) (hb : 0 < b)
    (hs : shift + 1 ≤ W) (hd1 : 2 ^ (W - 1) ≤ b * 2 ^ shift) (hd2 : b * 2 ^ shift < 2 ^ W) :
    singleRemDword W (b * 2 ^ shift) shift dw = .ok ((dw * 2 ^ shift) % (b * 2 ^ shift)) := by
  have hp : 0 < 2 ^ W := Nat.two_pow_pos W
  have hdpos : 0 < b * 2 ^ shift := Nat.mul_pos hb (Nat.two_pow_pos _)
  have hn : 2 ^ W ≤ 2 * (b * 2 ^ shift) := by
    have := pow_two_mul_half W hW; omega
  unfold singleRemDword
  by_cases h0 : shift = 0
  · subst h0
    simp only [if_true, Nat.pow_zero, Nat.mul_one] at *
    have hhi : dw / 2 ^ W < 2 ^ W := by
      rw [Nat.div_lt_iff_lt_mul hp, ← two_mul_W]; exact hdw
    have hr1 : (div1by1 b (dw / 2 ^ W)).2 = dw / 2 ^ W % b := div1by1_snd W b _ hb hn hhi
    have hpre : (dw % 2 ^ W + 2 ^ W * (dw / 2 ^ W % b)) / 2 ^ W < b := by
      rw [add_mul_div_word W _ _ (Nat.mod_lt _ hp)]; exact Nat.mod_lt _ hb
    simp only [hr1, bind, Except.bind, div2by1_ok W _ _ hpre, pure, Except.pure]
    rw [mod_step, Nat.add_comm, Nat.div_add_mod]
  · rw [if_neg h0]
    have ⟨d1, d2, d3, d4⟩ := shlDword_spec W dw shift (by omega) hdw
    generalize hsd : shlDword W dw shift = p at d1 d2 d3 d4
    obtain ⟨n0, n1, n2⟩ := p
    simp only at d1 d2 d3 d4
    have hhi : n2 < b * 2 ^ shift :=
      Nat.lt_of_lt_of_le d4 (Nat.le_trans (pow_shift_le_half W shift hs) hd1)
    have hpre1 : (n1 + 2 ^ W * n2) / 2 ^ W < b * 2 ^ shift := by
      rw [add_mul_div_word W n1 n2 d3]; exact hhi
    have hpre0 : (n0 + 2 ^ W * ((n1 + 2 ^ W * n2) % (b * 2 ^ shift))) / 2 ^ W < b * 2 ^ shift := by
      rw [add_mul_div_word W n0 _ d2]; exact Nat.mod_lt _ hdpos
    simp only [bind, Except.bind, div2by1_ok W _ _ hpre1, div2by1_ok W _ _ hpre0, pure, Except.pure]
    rw [mod_step, ← d1, two_mul_W]
    congr 2; ring

/-- `ConstSingleDivisor::rem_large` = (words << shift) % d -/
theorem singleRemLarge_spec (W b shift : Nat) (hW : 1 ≤ W) (ws : List Nat) (h : IsWords W ws)
    (hne : ws ≠ []) (hb : 0 < b) (hs : shift + 1 ≤ W) (hd1 : 2 ^ (W - 1) ≤ b * 2 ^ shift)
    (hd2 : b * 2 ^ shift < 2 ^ W) :
    singleRemLarge W (b * 2 ^ shift) shift ws = .ok ((val W ws * 2 ^ shift) % (b * 2 ^ shift)) := by
  have hps : 0 < 2 ^ shift := Nat.two_pow_pos _
  have hdpos : 0 < b * 2 ^ shift := Nat.mul_pos hb hps
  have hn : 2 ^ W ≤ 2 * (b * 2 ^ shift) := by
    have := pow_two_mul_half W hW; omega
  have e := fastRemByNormalizedWord_spec W _ hdpos (Nat.le_of_lt hd2) hn ws h hne
  have hr : val W ws % (b * 2 ^ shift) < b * 2 ^ shift := Nat.mod_lt _ hdpos
  unfold singleRemLarge
  by_cases h0 : shift = 0
  · subst h0
    simp only [Nat.pow_zero, Nat.mul_one] at e ⊢
    simp [e, bind, Except.bind, pure, Except.pure]
  · have hpre : (val W ws % (b * 2 ^ shift) * 2 ^ shift) / 2 ^ W < b * 2 ^ shift := by
      rw [Nat.div_lt_iff_lt_mul (Nat.two_pow_pos W)]
      calc val W ws % (b * 2 ^ shift) * 2 ^ shift
            < 2 ^ W * 2 ^ shift := Nat.mul_lt_mul_of_pos_right (Nat.lt_trans hr hd2) hps
        _ ≤ 2 ^ W * (b * 2 ^ shift) := Nat.mul_le_mul_left _ (Nat.le_mul_of_pos_left _ hb)
        _ = b * 2 ^ shift * 2 ^ W := Nat.mul_comm _ _
    simp only [e, bind, Except.bind, ne_eq, h0, not_false_eq_true, if_true, div2by1_ok W _ _ hpre, pure,
      Except.pure]
    rw [Nat.mul_mod, Nat.mod_mod, ← Nat.mul_mod]

/-- `ConstDoubleDivisor::rem_dword` = (dword << shift) % d -/
theorem doubleRemDword_spec (W dw b shift : Nat) (hW : 1 ≤ W) (hdw : dw < 2 ^ (2 * W)) (hb : 0 < b)
    (hs : shift + 1 ≤ W) (hd1 : 2 ^ (2 * W - 1) ≤ b * 2 ^ shift) :
    doubleRemDword W (b * 2 ^ shift) shift dw = .ok ((dw * 2 ^ shift) % (b * 2 ^ shift)) := by
  have hn : 2 ^ (2 * W) ≤ 2 * (b * 2 ^ shift) := by
    have := pow_two_mul_half (2 * W) (by omega); omega
  unfold doubleRemDword
  by_cases h0 : shift = 0
  · subst h0
    simp only [if_true, Nat.pow_zero, Nat.mul_one] at *
    rw [div2by2_snd W b dw hn hdw]
  · rw [if_neg h0]
    have ⟨d1, d2, d3, d4⟩ := shlDword_spec W dw shift (by omega) hdw
    generalize hsd : shlDword W dw shift = p at d1 d2 d3 d4
    obtain ⟨n0, n1, n2⟩ := p
    simp only at d1 d2 d3 d4
    have hpre := shl_hi_lt W dw shift n0 n1 n2 _ hs hdw d1 hd1
    simp only [bind, Except.bind, div3by2_ok W _ _ _ hpre, pure, Except.pure]
    rw [← d1, two_mul_W]
    congr 2; ring

/-- `ConstDoubleDivisor::rem_large` = (words << shift) % d -/
theorem doubleRemLarge_spec (W b shift : Nat) (hW : 1 ≤ W) (ws : List Nat) (h : IsWords W ws)
    (hlen : 2 ≤ ws.length) (hb : 0 < b) (hs : shift + 1 ≤ W)
    (hd1 : 2 ^ (2 * W - 1) ≤ b * 2 ^ shift) (hd2 : b * 2 ^ shift < 2 ^ (2 * W)) :
    doubleRemLarge W (b * 2 ^ shift) shift ws = .ok ((val W ws * 2 ^ shift) % (b * 2 ^ shift)) := by
  have hps : 0 < 2 ^ shift := Nat.two_pow_pos _
  have hdpos : 0 < b * 2 ^ shift := Nat.mul_pos hb hps
  have hn : 2 ^ (2 * W) ≤ 2 * (b * 2 ^ shift) := by
    have := pow_two_mul_half (2 * W) (by omega); omega
  have e := fastRemByNormalizedDword_spec W _ hdpos hn ws h hlen
  have hr : val W ws % (b * 2 ^ shift) < b * 2 ^ shift := Nat.mod_lt _ hdpos
  unfold doubleRemLarge
  by_cases h0 : shift = 0
  · subst h0
    simp only [Nat.pow_zero, Nat.mul_one] at e ⊢
    simp [e, bind, Except.bind, pure, Except.pure]
  · have ⟨d1, d2, d3, d4⟩ := shlDword_spec W (val W ws % (b * 2 ^ shift)) shift (by omega)
      (Nat.lt_trans hr hd2)
    generalize hsd : shlDword W (val W ws % (b * 2 ^ shift)) shift = p at d1 d2 d3 d4
    obtain ⟨r0, r1, r2⟩ := p
    simp only at d1 d2 d3 d4
    have hpre := shl_hi_lt W _ shift r0 r1 r2 _ hs (Nat.lt_trans hr hd2) d1 hd1
    simp only [e, bind, Except.bind, ne_eq, h0, not_false_eq_true, if_true, hsd,
      div3by2_ok W _ _ _ hpre, pure, Except.pure]
    have : r0 + 2 ^ W * (r1 + 2 ^ W * r2) = val W ws % (b * 2 ^ shift) * 2 ^ shift := by
      rw [← d1, two_mul_W]; ring
    rw [this, Nat.mul_mod, Nat.mod_mod, ← Nat.mul_mod]

/-- from the contract of `div_rem_unshifted_in_place` to quotient and (shifted) remainder -/
theorem unshifted_to_divmod (W shift n m a b qTop : Nat) (out : List Nat) (hb : 0 < b) (hnm : n ≤ m)
    (o1 : out.length = m) (o4 : val W (out.take n) < b * 2 ^ shift)
    (o5 : (val W (out.drop n) + qTop * 2 ^ (W * (m - n))) * (b * 2 ^ shift) + val W (out.take n)
      = a * 2 ^ shift) :
    val W (out.drop n ++ [qTop]) = a / b ∧ val W (out.take n) = (a % b) * 2 ^ shift := by
  have hdl : (out.drop n).length = m - n := by simp only [List.length_drop]; omega
  have hq : val W (out.drop n ++ [qTop]) = val W (out.drop n) + qTop * 2 ^ (W * (m - n)) := by
    rw [val_append_one, hdl]; ring
  rw [hq]
  have ⟨u1, u2⟩ := unshift _ _ _ _ _ o5 o4
  have hu : a / b = val W (out.drop n) + qTop * 2 ^ (W * (m - n)) ∧ a % b = val W (out.take n) / 2 ^ shift :=
    (Nat.div_mod_unique hb).mpr ⟨by rw [← u1]; ring, u2⟩
  refine ⟨hu.1.symm, ?_⟩
  rw [hu.2]
  generalize val W (out.drop n) + qTop * 2 ^ (W * (m - n)) = Qt at *
  generalize val W (out.take n) = R' at *
  have h7 : (Qt * b + R' / 2 ^ shift) * 2 ^ shift = a * 2 ^ shift := by rw [u1]
  generalize R' / 2 ^ shift = t at *
  linarith [h7, o5]

/-- a normalised `n`-word divisor exceeds every shorter dividend -/
theorem short_lt_large (W b shift : Nat) (nd ws : List Nat) (hW : 1 ≤ W) (hs : shift + 1 ≤ W)
    (hv : val W nd = b * 2 ^ shift) (hnorm : 2 ^ (W * nd.length) ≤ 2 * val W nd)
    (hw : IsWords W ws) (hl : ws.length < nd.length) : val W ws < b := by
  have h1 := val_lt W ws hw
  have h2 : 2 ^ (W * ws.length) ≤ 2 ^ (W * (nd.length - 1)) :=
    Nat.pow_le_pow_right (by omega) (Nat.mul_le_mul_left _ (by omega))
  have h3 : 2 ^ (W * nd.length) = 2 ^ (W * (nd.length - 1)) * 2 ^ W := by
    rw [← Nat.pow_add]; congr 1
    have : nd.length = nd.length - 1 + 1 := by omega
    conv => lhs; rw [this]
    ring
  have h4 := pow_two_mul_half W hW
  have h5 := pow_shift_le_half W shift hs
  by_contra hcon
  have hle : b ≤ 2 ^ (W * (nd.length - 1)) - 1 := by omega
  have hpos := Nat.two_pow_pos (W * (nd.length - 1))
  have h6 : b * 2 ^ shift ≤ (2 ^ (W * (nd.length - 1)) - 1) * 2 ^ (W - 1) :=
    Nat.mul_le_mul hle h5
  rw [hv, h3, h4] at hnorm
  have h7 : (2 ^ (W * (nd.length - 1)) - 1) * 2 ^ (W - 1) + 2 ^ (W - 1)
      = 2 ^ (W * (nd.length - 1)) * 2 ^ (W - 1) := by
    have : 2 ^ (W * (nd.length - 1)) - 1 + 1 = 2 ^ (W * (nd.length - 1)) := by omega
    generalize 2 ^ (W * (nd.length - 1)) - 1 = M at *
    rw [← this]; ring
  have h8 := Nat.two_pow_pos (W - 1)
  nlinarith

/-- `DivRem<&ConstDivisor>`: the prepared divisor gives exactly `(a / b, a % b)` -/
theorem divRemConst_spec (W : Nat) (hW : 1 ≤ W) (hW4 : 4 ≤ W) (a : TRepr) (b : Nat) (c : ConstDiv)
    (ha : a.Canon W) (hv : c.Valid W b) :
    ∃ q r, divRemConst W a c = .ok (q, r) ∧ q.value W = a.value W / b ∧ r.value W = a.value W % b ∧
      q.Canon W ∧ r.Canon W := by
  cases c with
  | single d shift =>
    obtain ⟨h1, h2, h3, h4, h5, h6⟩ := hv
    subst h4
    have hbW : b < 2 ^ (2 * W) := Nat.lt_of_lt_of_le h2 (Nat.pow_le_pow_right (by omega) (by omega))
    cases a with
    | small dw =>
      obtain ⟨q, r, e, hq, hr⟩ := divRemSmallSingle_spec W dw b shift ha h1 h3 h5 h6
      have ⟨d1, d2⟩ := div_mod_of_eq h1 hq hr
      refine ⟨.small q, .small r, ?_, d1.symm, d2.symm, ?_, Nat.lt_trans hr hbW⟩
      · simp only [divRemConst, e, bind, Except.bind, pure, Except.pure]
      · exact small_canon_of_le ha (by rw [← d1]; exact Nat.div_le_self _ _)
    | large ws =>
      obtain ⟨qs, r, e, hq, hr, _, hw⟩ :=
        fastDivByWordInPlace_spec W b shift ws ha.large_words h1 (by omega) (Nat.le_of_lt h6)
      have ⟨d1, d2⟩ := div_mod_of_eq h1 hq hr
      refine ⟨fromBuffer W qs, .small r, ?_, by rw [fromBuffer_value]; exact d1.symm, d2.symm,
        fromBuffer_canon W qs hw, Nat.lt_trans hr hbW⟩
      simp only [divRemConst, e, bind, Except.bind, pure, Except.pure]
  | double d shift =>
    obtain ⟨h1, h2, h3, h4, h5, h6⟩ := hv
    subst h4
    have hbpos : 0 < b := Nat.lt_of_lt_of_le (Nat.two_pow_pos W) h1
    cases a with
    | small dw =>
      obtain ⟨q, r, e, hq, hr⟩ := divRemSmallDouble_spec W dw b shift ha hbpos h3 h5
      have ⟨d1, d2⟩ := div_mod_of_eq hbpos hq hr
      refine ⟨.small q, .small r, ?_, d1.symm, d2.symm, ?_, Nat.lt_trans hr h2⟩
      · simp only [divRemConst, e, bind, Except.bind, pure, Except.pure]
      · exact small_canon_of_le ha (by rw [← d1]; exact Nat.div_le_self _ _)
    | large ws =>
      obtain ⟨qs, r, e, hq, hr, _, hw⟩ :=
        fastDivByDwordInPlace_spec W b shift ws ha.large_words (by have := ha.large_len; omega)
          hbpos h3 h5 (Nat.le_of_lt h6)
      have ⟨d1, d2⟩ := div_mod_of_eq hbpos hq hr
      refine ⟨fromBuffer W qs, .small r, ?_, by rw [fromBuffer_value]; exact d1.symm, d2.symm,
        fromBuffer_canon W qs hw, Nat.lt_trans hr h2⟩
      simp only [divRemConst, e, bind, Except.bind, pure, Except.pure]
  | large nd shift dtop =>
    obtain ⟨h1, h2, h3, h4, h5, h6, h7⟩ := hv
    subst h6
    have hbpos : 0 < b := Nat.lt_of_lt_of_le (Nat.two_pow_pos (2 * W)) h7
    cases a with
    | small dw =>
      have hx : dw < b := Nat.lt_of_lt_of_le ha h7
      exact ⟨.small 0, .small dw, rfl, by simp [Nat.div_eq_of_lt hx], by simp [Nat.mod_eq_of_lt hx],
        Nat.two_pow_pos _, ha⟩
    | large ws =>
      by_cases hl : ws.length < nd.length
      · have hx := short_lt_large W b shift nd ws hW h3 h4 h5 ha.large_words hl
        refine ⟨.small 0, fromBuffer W ws, by simp only [divRemConst, hl, if_true], ?_, ?_,
          Nat.two_pow_pos _, fromBuffer_canon W ws ha.large_words⟩
        · simp [Nat.div_eq_of_lt hx]
        · simp [fromBuffer_value, Nat.mod_eq_of_lt hx]
      · obtain ⟨out, qTop, e, o1, o2, o3, o4, o5⟩ :=
          divRemUnshiftedInPlace_spec W hW hW4 ws nd shift (by omega) (by omega) ha.large_words h2 h3 h5
        rw [h4] at o4 o5
        have ⟨m1, m2⟩ := unshifted_to_divmod W shift nd.length ws.length (val W ws) b qTop out hbpos
          (by omega) o1 o4 o5
        obtain ⟨r', e2, r1, _, r3⟩ := shrRemainder_spec W shift _ (by omega) (out.take nd.length)
          (o2.take _) m2
        have hqw : IsWords W (out.drop nd.length ++ [qTop]) :=
          IsWords.append (o2.drop _) (IsWords.cons o3 (IsWords.nil W))
        refine ⟨fromBuffer W (out.drop nd.length ++ [qTop]), fromBuffer W r', ?_, ?_, ?_,
          fromBuffer_canon W _ hqw, fromBuffer_canon W _ r3⟩
        · simp only [divRemConst, hl, if_false, e, bind, Except.bind, e2, pure, Except.pure]
        · rw [fromBuffer_value, m1]; rfl
        · rw [fromBuffer_value, r1]; rfl

/-- `Div<&ConstDivisor>` -/
theorem divConst_spec (W : Nat) (hW : 1 ≤ W) (hW4 : 4 ≤ W) (a : TRepr) (b : Nat) (c : ConstDiv)
    (ha : a.Canon W) (hv : c.Valid W b) :
    ∃ q, divConst W a c = .ok q ∧ q.value W = a.value W / b ∧ q.Canon W := by
  cases c with
  | single d shift =>
    obtain ⟨h1, h2, h3, h4, h5, h6⟩ := hv
    subst h4
    cases a with
    | small dw =>
      obtain ⟨q, r, e, hq, hr⟩ := divRemSmallSingle_spec W dw b shift ha h1 h3 h5 h6
      have ⟨d1, d2⟩ := div_mod_of_eq h1 hq hr
      refine ⟨.small q, ?_, d1.symm, ?_⟩
      · simp only [divConst, e, bind, Except.bind, pure, Except.pure]
      · exact small_canon_of_le ha (by rw [← d1]; exact Nat.div_le_self _ _)
    | large ws =>
      obtain ⟨qs, r, e, hq, hr, _, hw⟩ :=
        fastDivByWordInPlace_spec W b shift ws ha.large_words h1 (by omega) (Nat.le_of_lt h6)
      have ⟨d1, d2⟩ := div_mod_of_eq h1 hq hr
      refine ⟨fromBuffer W qs, ?_, by rw [fromBuffer_value]; exact d1.symm, fromBuffer_canon W qs hw⟩
      simp only [divConst, e, bind, Except.bind, pure, Except.pure]
  | double d shift =>
    obtain ⟨h1, h2, h3, h4, h5, h6⟩ := hv
    subst h4
    have hbpos : 0 < b := Nat.lt_of_lt_of_le (Nat.two_pow_pos W) h1
    cases a with
    | small dw =>
      obtain ⟨q, r, e, hq, hr⟩ := divRemSmallDouble_spec W dw b shift ha hbpos h3 h5
      have ⟨d1, d2⟩ := div_mod_of_eq hbpos hq hr
      refine ⟨.small q, ?_, d1.symm, ?_⟩
      · simp only [divConst, e, bind, Except.bind, pure, Except.pure]
      · exact small_canon_of_le ha (by rw [← d1]; exact Nat.div_le_self _ _)
    | large ws =>
      obtain ⟨qs, r, e, hq, hr, _, hw⟩ :=
        fastDivByDwordInPlace_spec W b shift ws ha.large_words (by have := ha.large_len; omega)
          hbpos h3 h5 (Nat.le_of_lt h6)
      have ⟨d1, d2⟩ := div_mod_of_eq hbpos hq hr
      refine ⟨fromBuffer W qs, ?_, by rw [fromBuffer_value]; exact d1.symm, fromBuffer_canon W qs hw⟩
      simp only [divConst, e, bind, Except.bind, pure, Except.pure]
  | large nd shift dtop =>
    obtain ⟨h1, h2, h3, h4, h5, h6, h7⟩ := hv
    subst h6
    have hbpos : 0 < b := Nat.lt_of_lt_of_le (Nat.two_pow_pos (2 * W)) h7
    cases a with
    | small dw =>
      have hx : dw < b := Nat.lt_of_lt_of_le ha h7
      exact ⟨.small 0, rfl, by simp [Nat.div_eq_of_lt hx], Nat.two_pow_pos _⟩
    | large ws =>
      by_cases hl : ws.length < nd.length
      · have hx := short_lt_large W b shift nd ws hW h3 h4 h5 ha.large_words hl
        exact ⟨.small 0, by simp only [divConst, hl, if_true], by simp [Nat.div_eq_of_lt hx],
          Nat.two_pow_pos _⟩
      · obtain ⟨out, qTop, e, o1, o2, o3, o4, o5⟩ :=
          divRemUnshiftedInPlace_spec W hW hW4 ws nd shift (by omega) (by omega) ha.large_words h2 h3 h5
        rw [h4] at o4 o5
        have ⟨m1, _⟩ := unshifted_to_divmod W shift nd.length ws.length (val W ws) b qTop out hbpos
          (by omega) o1 o4 o5
        have hqw : IsWords W (out.drop nd.length ++ [qTop]) :=
          IsWords.append (o2.drop _) (IsWords.cons o3 (IsWords.nil W))
        refine ⟨fromBuffer W (out.drop nd.length ++ [qTop]), ?_, ?_, fromBuffer_canon W _ hqw⟩
        · simp only [divConst, hl, if_false, e, bind, Except.bind, pure, Except.pure]
        · rw [fromBuffer_value, m1]; rfl

/-- `Rem<&ConstDivisor>` (on the tree with /repo commit 2941615) -/
theorem remConst_spec (W : Nat) (hW : 1 ≤ W) (hW4 : 4 ≤ W) (a : TRepr) (b : Nat) (c : ConstDiv)
    (ha : a.Canon W) (hv : c.Valid W b) :
    ∃ r, remConst W a c = .ok r ∧ r.value W = a.value W % b ∧ r.Canon W := by
  cases c with
  | single d shift =>
    obtain ⟨h1, h2, h3, h4, h5, h6⟩ := hv
    subst h4
    have hbW : b < 2 ^ (2 * W) := Nat.lt_of_lt_of_le h2 (Nat.pow_le_pow_right (by omega) (by omega))
    cases a with
    | small dw =>
      have e := singleRemDword_spec W dw b shift hW ha h1 h3 h5 h6
      refine ⟨.small (dw % b), ?_, rfl, Nat.lt_trans (Nat.mod_lt _ h1) hbW⟩
      simp only [remConst, e, bind, Except.bind, pure, Except.pure, shifted_mod]
    | large ws =>
      have e := singleRemLarge_spec W b shift hW ws ha.large_words ha.large_ne_nil h1 h3 h5 h6
      refine ⟨.small (val W ws % b), ?_, rfl, Nat.lt_trans (Nat.mod_lt _ h1) hbW⟩
      simp only [remConst, e, bind, Except.bind, pure, Except.pure, shifted_mod]
  | double d shift =>
    obtain ⟨h1, h2, h3, h4, h5, h6⟩ := hv
    subst h4
    have hbpos : 0 < b := Nat.lt_of_lt_of_le (Nat.two_pow_pos W) h1
    cases a with
    | small dw =>
      have e := doubleRemDword_spec W dw b shift hW ha hbpos h3 h5
      refine ⟨.small (dw % b), ?_, rfl, Nat.lt_trans (Nat.mod_lt _ hbpos) h2⟩
      simp only [remConst, e, bind, Except.bind, pure, Except.pure, shifted_mod]
    | large ws =>
      have e := doubleRemLarge_spec W b shift hW ws ha.large_words (by have := ha.large_len; omega)
        hbpos h3 h5 h6
      refine ⟨.small (val W ws % b), ?_, rfl, Nat.lt_trans (Nat.mod_lt _ hbpos) h2⟩
      simp only [remConst, e, bind, Except.bind, pure, Except.pure, shifted_mod]
  | large nd shift dtop =>
    obtain ⟨h1, h2, h3, h4, h5, h6, h7⟩ := hv
    subst h6
    have hbpos : 0 < b := Nat.lt_of_lt_of_le (Nat.two_pow_pos (2 * W)) h7
    cases a with
    | small dw =>
      have hx : dw < b := Nat.lt_of_lt_of_le ha h7
      exact ⟨.small dw, rfl, by simp [Nat.mod_eq_of_lt hx], ha⟩
    | large ws =>
      by_cases hl : ws.length < nd.length
      · have hx := short_lt_large W b shift nd ws hW h3 h4 h5 ha.large_words hl
        exact ⟨fromBuffer W ws, by simp only [remConst, hl, if_true],
          by simp [fromBuffer_value, Nat.mod_eq_of_lt hx], fromBuffer_canon W ws ha.large_words⟩
      · obtain ⟨out, qTop, e, o1, o2, o3, o4, o5⟩ :=
          divRemUnshiftedInPlace_spec W hW hW4 ws nd shift (by omega) (by omega) ha.large_words h2 h3 h5
        rw [h4] at o4 o5
        have ⟨_, m2⟩ := unshifted_to_divmod W shift nd.length ws.length (val W ws) b qTop out hbpos
          (by omega) o1 o4 o5
        obtain ⟨r', e2, r1, _, r3⟩ := shrRemainder_spec W shift _ (by omega) (out.take nd.length)
          (o2.take _) m2
        refine ⟨fromBuffer W r', ?_, ?_, fromBuffer_canon W _ r3⟩
        · simp only [remConst, hl, if_false, e, bind, Except.bind, e2, pure, Except.pure]
        · rw [fromBuffer_value, r1]; rfl

end Dashu.Model.Div
