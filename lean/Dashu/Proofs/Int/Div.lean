import Dashu.Model.Int.Div
import Dashu.Proofs.Int.Repr
/-
  Refinement of the division layer (`Dashu/Model/Int/Div.lean`) to `/` and `%` on `Nat`/`Int`.
-/
namespace Dashu.Model.Div
open Dashu.Model

end Dashu.Model.Div
