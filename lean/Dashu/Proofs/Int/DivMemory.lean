import Dashu.Model.Int.DivMemory
import Dashu.Proofs.Int.Memory
/-
  `div::memory_requirement_exact` suffices for every scratch allocation made during a division, for
  all operand lengths: the "internal error: not enough memory allocated" branch of memory.rs is
  unreachable from `div_rem_in_place`.
-/
namespace Dashu.Model.Div
open Dashu.Model

/-- both halves of Burnikel–Ziegler stay within any chunk that covers multiplications whose shorter
    operand has at most `S` words, as long as the sizes they are called with respect `S` -/
theorem memBz_ok (S avail : Nat) (h : mulMemReq S ≤ avail) : ∀ fuel : Nat,
    (∀ n, n / 2 ≤ S → memBzSameLen fuel n avail = .ok ()) ∧
    (∀ n m, m ≤ n → min m (n - m) ≤ S → m / 2 ≤ S → memBzSmallQuotient fuel n m avail = .ok ()) := by
  intro fuel
  induction fuel with
  | zero => exact ⟨fun _ _ => by simp [memBzSameLen], fun _ _ _ _ _ => by simp [memBzSmallQuotient]⟩
  | succ fuel ih =>
    obtain ⟨ihS, ihQ⟩ := ih
    constructor
    · intro n hn
      have h1 := ihQ n (n - n / 2) (by omega) (by omega) (by omega)
      have h2 := ihQ n (n / 2) (by omega) (by omega) (by omega)
      simp only [memBzSameLen, h1, h2, bind, Except.bind]
    · intro n m hmn hmin hm2
      simp only [memBzSmallQuotient]
      split
      · rfl
      · have h1 := ihS m hm2
        have h2 := memAddSignedMul_ok n m (n - m) avail (Nat.le_trans (mulMemReq_mono hmin) h)
        simp only [h1, h2, bind, Except.bind]

theorem memBzOuter_ok (S avail n fuel r : Nat) (h : mulMemReq S ≤ avail) (hr : r < n)
    (hlast : r > 0 → min r (n - r) ≤ S ∧ r / 2 ≤ S) :
    ∀ t len, (1 ≤ t → n / 2 ≤ S) → len = (t + 1) * n + r →
      memBzOuter n fuel t len avail = .ok () := by
  obtain ⟨bS, bQ⟩ := memBz_ok S avail h fuel
  intro t
  induction t with
  | zero =>
    intro len _ hlen
    simp only [memBzOuter]
    split
    · have hr0 : r > 0 := by omega
      obtain ⟨a, b⟩ := hlast hr0
      have e : len - n = r := by omega
      rw [e]
      exact bQ n r (by omega) a b
    · rfl
  | succ t ih =>
    intro len hS hlen
    have hn2 := hS (by omega)
    simp only [memBzOuter, bS n hn2, bind, Except.bind]
    apply ih (len - n) (fun _ => hn2)
    have : (t + 1 + 1) * n = (t + 1) * n + n := by ring
    omega

/-- **division never hits "not enough memory allocated"**: for all operand lengths the chunk sized
    by `div::memory_requirement_exact(lhs_len, rhs_len)` covers every allocation made by
    `div::div_rem_in_place` (schoolbook: none; Burnikel–Ziegler: those of `mul::add_signed_mul`) -/
theorem memDivide_ok (lhsLen rhsLen : Nat) (h : rhsLen ≤ lhsLen) (h2 : 2 ≤ rhsLen) :
    memDivide lhsLen rhsLen = .ok () := by
  have hc : lhsLen ≥ rhsLen ∧ rhsLen ≥ 2 := ⟨h, h2⟩
  simp only [memDivide, divMemReq]
  rw [if_neg (not_not.mpr hc)]
  by_cases hs : rhsLen ≤ thresholdSimple ∨ lhsLen - rhsLen ≤ thresholdSimple
  · simp only [hs, if_true, bind, Except.bind, memDivRemInPlace]
  · simp only [hs, if_false, bind, Except.bind, memDivRemInPlace, dcMemReq]
    have hnpos : 0 < rhsLen := by omega
    have hdm := Nat.div_add_mod lhsLen rhsLen
    have hml := Nat.mod_lt lhsLen hnpos
    have hq1 : 1 ≤ lhsLen / rhsLen := Nat.div_pos h hnpos
    obtain ⟨t, ht⟩ : ∃ t, lhsLen / rhsLen = t + 1 := ⟨lhsLen / rhsLen - 1, by omega⟩
    have hlen : lhsLen = (t + 1) * rhsLen + lhsLen % rhsLen := by
      rw [← ht, Nat.mul_comm]; exact hdm.symm
    have ht' : lhsLen / rhsLen - 1 = t := by omega
    rw [ht']
    apply memBzOuter_ok (min (rhsLen / 2) (lhsLen - rhsLen)) _ rhsLen _ (lhsLen % rhsLen)
      (Nat.le_refl _) hml
    · intro hr0
      have h3 : (t + 1) * rhsLen = t * rhsLen + rhsLen := by ring
      have h4 : lhsLen - rhsLen ≥ lhsLen % rhsLen := by
        have := Nat.zero_le (t * rhsLen); omega
      constructor <;> omega
    · intro ht1
      have h3 : (t + 1) * rhsLen ≥ 2 * rhsLen := Nat.mul_le_mul_right _ (by omega)
      omega
    · exact hlen

end Dashu.Model.Div
