import Dashu.Model.Int.Mul
import Dashu.Proofs.Int.Repr
/-
  Refinement of the schoolbook kernels (`mul/mod.rs`, `mul/simple.rs`) to arithmetic on `Nat`/`Int`,
  for every word size and every operand length.
-/
namespace Dashu.Model

theorem mul_add_add_lt_sq' {B a b c d : Nat} (ha : a < B) (hb : b < B) (hc : c < B) (hd : d < B) :
    a * b + c + d < B * B := by
  obtain ⟨B', rfl⟩ : ∃ B', B = B' + 1 := ⟨B - 1, by omega⟩
  have h := Nat.mul_le_mul (show a ≤ B' by omega) (show b ≤ B' by omega)
  have e : (B' + 1) * (B' + 1) = B' * B' + 2 * B' + 1 := by ring
  omega

-- ------------------------------------------------------------------ add_mul_word_same_len_in_place

theorem addMulWordLoop_spec (W mult : Nat) (hm : mult < 2 ^ W) :
    ∀ (ws rhs : List Nat) (c : Nat), IsWords W ws → IsWords W rhs → ws.length = rhs.length →
    c < 2 ^ W →
    val W (addMulWordLoop W ws mult rhs c).1
        + 2 ^ (W * ws.length) * (addMulWordLoop W ws mult rhs c).2
      = val W ws + mult * val W rhs + c ∧
    (addMulWordLoop W ws mult rhs c).1.length = ws.length ∧
    IsWords W (addMulWordLoop W ws mult rhs c).1 ∧ (addMulWordLoop W ws mult rhs c).2 < 2 ^ W := by
  intro ws
  induction ws with
  | nil =>
    intro rhs c _ _ hl hc
    cases rhs with
    | nil => simp [addMulWordLoop, IsWords.nil, hc]
    | cons b bs => simp at hl
  | cons a as ih =>
    intro rhs c hw hr hl hc
    cases rhs with
    | nil => simp at hl
    | cons b bs =>
      have hp : 0 < 2 ^ W := Nat.two_pow_pos W
      have ha := hw.head
      have hb := hr.head
      have hv : mult * b + a + c < 2 ^ W * 2 ^ W := mul_add_add_lt_sq' hm hb ha hc
      have hq : (mult * b + a + c) / 2 ^ W < 2 ^ W := (Nat.div_lt_iff_lt_mul hp).mpr hv
      have hdm := Nat.div_add_mod (mult * b + a + c) (2 ^ W)
      obtain ⟨i1, i2, i3, i4⟩ := ih bs _ hw.tail hr.tail (by simpa using hl) hq
      simp only [addMulWordLoop, val_cons, List.length_cons]
      generalize addMulWordLoop W as mult bs ((mult * b + a + c) / 2 ^ W) = res at i1 i2 i3 i4
      obtain ⟨r, c'⟩ := res
      simp only at i1 i2 i3 i4 ⊢
      refine ⟨?_, by simp [i2], IsWords.cons (Nat.mod_lt _ hp) i3, i4⟩
      rw [pow_mul_succ]
      have e : 2 ^ W * (val W r + 2 ^ (W * as.length) * c')
          = 2 ^ W * (val W as + mult * val W bs + (mult * b + a + c) / 2 ^ W) := by rw [i1]
      linarith

/-- `add_mul_word_same_len_in_place`: digits + carry·B^n = words + mult·rhs -/
theorem addMulWordSameLen_spec (W : Nat) (ws : List Nat) (mult : Nat) (rhs : List Nat)
    (hw : IsWords W ws) (hr : IsWords W rhs) (hl : ws.length = rhs.length) (hm : mult < 2 ^ W) :
    val W (addMulWordSameLen W ws mult rhs).1
        + 2 ^ (W * ws.length) * (addMulWordSameLen W ws mult rhs).2
      = val W ws + mult * val W rhs ∧
    (addMulWordSameLen W ws mult rhs).1.length = ws.length ∧
    IsWords W (addMulWordSameLen W ws mult rhs).1 ∧ (addMulWordSameLen W ws mult rhs).2 < 2 ^ W := by
  unfold addMulWordSameLen
  split
  · rename_i h0; subst h0
    exact ⟨by simp, rfl, hw, Nat.two_pow_pos W⟩
  · have := addMulWordLoop_spec W mult hm ws rhs 0 hw hr hl (Nat.two_pow_pos W)
    simpa using this

/-- `add_mul_word_in_place` (`words.len() ≥ rhs.len()`): the carry is at most one bit when the high
    part is non-empty, a word otherwise -/
theorem addMulWordInPlace_spec (W : Nat) (ws : List Nat) (mult : Nat) (rhs : List Nat)
    (hw : IsWords W ws) (hr : IsWords W rhs) (hl : rhs.length ≤ ws.length) (hm : mult < 2 ^ W) :
    val W (addMulWordInPlace W ws mult rhs).1
        + 2 ^ (W * ws.length) * (addMulWordInPlace W ws mult rhs).2
      = val W ws + mult * val W rhs ∧
    (addMulWordInPlace W ws mult rhs).1.length = ws.length ∧
    IsWords W (addMulWordInPlace W ws mult rhs).1 ∧ (addMulWordInPlace W ws mult rhs).2 < 2 ^ W := by
  simp only [addMulWordInPlace]
  split
  · rename_i h0; subst h0
    exact ⟨by simp, rfl, hw, Nat.two_pow_pos W⟩
  · have htl : (ws.take rhs.length).length = rhs.length := length_take_of_le hl
    have hs := addMulWordSameLen_spec W (ws.take rhs.length) mult rhs (hw.take _) hr htl hm
    have hsplit := val_take_add_drop W ws rhs.length
    rw [htl] at hsplit hs
    generalize addMulWordSameLen W (ws.take rhs.length) mult rhs = res at hs ⊢
    obtain ⟨lo, carry⟩ := res
    obtain ⟨s1, s2, s3, s4⟩ := hs
    simp only at s1 s2 s3 s4 ⊢
    split
    · rename_i hgt
      have hne : ws.drop rhs.length ≠ [] := by
        intro e; have := congrArg List.length e; rw [List.length_drop] at this; simp at this; omega
      have ho := addWord_spec W (ws.drop rhs.length) carry (hw.drop _) s4 hne
      generalize addWord W (ws.drop rhs.length) carry = res2 at ho ⊢
      obtain ⟨hi, c⟩ := res2
      obtain ⟨o1, o2, o3, o4⟩ := ho
      simp only [List.length_drop] at o1 o2 o3 o4 ⊢
      refine ⟨?_, by rw [List.length_append, s2, o2]; omega, s3.append o3,
        Nat.lt_of_le_of_lt o4 (Nat.one_lt_two_pow (by
          intro hW0; subst hW0; simp at hm; subst hm; contradiction))⟩
      rw [val_append, s2, pow_mul_split W hl]
      have e : 2 ^ (W * rhs.length) * (val W hi + 2 ^ (W * (ws.length - rhs.length)) * c)
          = 2 ^ (W * rhs.length) * (val W (ws.drop rhs.length) + carry) := by rw [o1]
      linarith
    · rename_i hle
      have hlen : ws.length = rhs.length := by omega
      have hd : ws.drop rhs.length = [] := by rw [← hlen]; exact List.drop_length
      rw [hd] at hsplit
      simp only [val_nil, Nat.mul_zero, Nat.add_zero] at hsplit
      refine ⟨?_, by rw [s2, hlen], s3, s4⟩
      rw [hlen, hsplit]; exact s1

-- ------------------------------------------------------------------ sub_mul_word_same_len_in_place

/-- one step of the `carry_plus_max` trick.  With `K = double_word(0, MAX) − MAX`:
    the subtraction in `v = a + cpm + K − mult·b` never underflows, `v` fits a double word, and with
    the borrow `k = MAX − cpm` the step is `digit + mult·b + k = a + B·k'`. -/
theorem sub_mul_step (B a b mult cpm : Nat) (ha : a < B) (hb : b < B) (hm : mult < B)
    (hc : cpm < B) :
    mult * b ≤ a + cpm + ((B - 1) * B - (B - 1)) ∧
    a + cpm + ((B - 1) * B - (B - 1)) - mult * b < B * B ∧
    (a + cpm + ((B - 1) * B - (B - 1)) - mult * b) / B < B ∧
    (a + cpm + ((B - 1) * B - (B - 1)) - mult * b) % B + mult * b + (B - 1 - cpm)
      = a + B * (B - 1 - (a + cpm + ((B - 1) * B - (B - 1)) - mult * b) / B) := by
  obtain ⟨B', rfl⟩ : ∃ B', B = B' + 1 := ⟨B - 1, by omega⟩
  have hK : (B' + 1 - 1) * (B' + 1) - (B' + 1 - 1) = B' * B' := by
    simp only [Nat.add_sub_cancel]
    rw [Nat.mul_add, Nat.mul_one, Nat.add_sub_cancel]
  have hmb : mult * b ≤ B' * B' := Nat.mul_le_mul (by omega) (by omega)
  rw [hK]
  simp only [Nat.add_sub_cancel]
  have hsq : (B' + 1) * (B' + 1) = B' * B' + 2 * B' + 1 := by ring
  have hv : a + cpm + B' * B' - mult * b < (B' + 1) * (B' + 1) := by omega
  have hq : (a + cpm + B' * B' - mult * b) / (B' + 1) < B' + 1 :=
    (Nat.div_lt_iff_lt_mul (by omega)).mpr hv
  refine ⟨by omega, hv, hq, ?_⟩
  have hdm := Nat.div_add_mod (a + cpm + B' * B' - mult * b) (B' + 1)
  generalize (a + cpm + B' * B' - mult * b) / (B' + 1) = q at *
  generalize (a + cpm + B' * B' - mult * b) % (B' + 1) = m0 at *
  have e : (B' + 1) * (B' - q) + (B' + 1) * q = (B' + 1) * B' := by
    rw [← Nat.mul_add, Nat.sub_add_cancel (by omega)]
  have e2 : (B' + 1) * B' = B' * B' + B' := by ring
  omega

theorem subMulWordLoop_spec (W mult : Nat) (hm : mult < 2 ^ W) :
    ∀ (ws rhs : List Nat) (cpm : Nat), IsWords W ws → IsWords W rhs → ws.length = rhs.length →
    cpm < 2 ^ W →
    val W (subMulWordLoop W ws mult rhs cpm).1 + mult * val W rhs + (2 ^ W - 1 - cpm)
      = val W ws + 2 ^ (W * ws.length) * (2 ^ W - 1 - (subMulWordLoop W ws mult rhs cpm).2) ∧
    (subMulWordLoop W ws mult rhs cpm).1.length = ws.length ∧
    IsWords W (subMulWordLoop W ws mult rhs cpm).1 ∧
    (subMulWordLoop W ws mult rhs cpm).2 < 2 ^ W := by
  intro ws
  induction ws with
  | nil =>
    intro rhs cpm _ _ hl hc
    cases rhs with
    | nil => simp [subMulWordLoop, IsWords.nil, hc]
    | cons b bs => simp at hl
  | cons a as ih =>
    intro rhs cpm hw hr hl hc
    cases rhs with
    | nil => simp at hl
    | cons b bs =>
      have hp : 0 < 2 ^ W := Nat.two_pow_pos W
      obtain ⟨_, _, hq, hstep⟩ := sub_mul_step (2 ^ W) a b mult cpm hw.head hr.head hm hc
      obtain ⟨i1, i2, i3, i4⟩ := ih bs _ hw.tail hr.tail (by simpa using hl) hq
      have hm0 := Nat.mod_lt (a + cpm + ((2 ^ W - 1) * 2 ^ W - (2 ^ W - 1)) - mult * b) hp
      simp only [subMulWordLoop, val_cons, List.length_cons]
      generalize (a + cpm + ((2 ^ W - 1) * 2 ^ W - (2 ^ W - 1)) - mult * b) / 2 ^ W = q at *
      generalize (a + cpm + ((2 ^ W - 1) * 2 ^ W - (2 ^ W - 1)) - mult * b) % 2 ^ W = m0 at *
      generalize subMulWordLoop W as mult bs q = res at i1 i2 i3 i4
      obtain ⟨r, c'⟩ := res
      simp only at i1 i2 i3 i4 ⊢
      refine ⟨?_, by simp [i2], IsWords.cons hm0 i3, i4⟩
      rw [pow_mul_succ]
      generalize 2 ^ W - 1 - q = kq at *
      generalize 2 ^ W - 1 - c' = kc at *
      generalize 2 ^ W - 1 - cpm = k0 at *
      have e : 2 ^ W * (val W r + mult * val W bs + kq)
          = 2 ^ W * (val W as + 2 ^ (W * as.length) * kc) := by rw [i1]
      linarith

/-- `sub_mul_word_same_len_in_place`: digits + mult·rhs = words + borrow·B^n -/
theorem subMulWordSameLen_spec (W : Nat) (ws : List Nat) (mult : Nat) (rhs : List Nat)
    (hw : IsWords W ws) (hr : IsWords W rhs) (hl : ws.length = rhs.length) (hm : mult < 2 ^ W) :
    val W (subMulWordSameLen W ws mult rhs).1 + mult * val W rhs
      = val W ws + 2 ^ (W * ws.length) * (subMulWordSameLen W ws mult rhs).2 ∧
    (subMulWordSameLen W ws mult rhs).1.length = ws.length ∧
    IsWords W (subMulWordSameLen W ws mult rhs).1 ∧ (subMulWordSameLen W ws mult rhs).2 < 2 ^ W := by
  unfold subMulWordSameLen
  have hp : 0 < 2 ^ W := Nat.two_pow_pos W
  split
  · rename_i h0; subst h0
    exact ⟨by simp, rfl, hw, hp⟩
  · have hs := subMulWordLoop_spec W mult hm ws rhs (2 ^ W - 1) hw hr hl (by omega)
    generalize subMulWordLoop W ws mult rhs (2 ^ W - 1) = res at hs
    obtain ⟨r, cpm⟩ := res
    obtain ⟨s1, s2, s3, s4⟩ := hs
    simp only [Nat.sub_self, Nat.add_zero] at s1 s2 s3 s4 ⊢
    exact ⟨s1, s2, s3, by omega⟩

-- ------------------------------------------------------------------ add_mul_chunk / sub_mul_chunk

theorem drop_eq_getD_cons (l : List Nat) (n : Nat) (h : n < l.length) :
    l.drop n = l.getD n 0 :: l.drop (n + 1) := (set_take_drop l n 0 h).2.2

theorem exists_cons_of_append_cons (w : List Nat) (x : Nat) (t : List Nat) :
    ∃ w0 rest, w ++ x :: t = w0 :: rest ∧ rest.length = w.length + t.length := by
  cases w with
  | nil => exact ⟨x, t, rfl, by simp⟩
  | cons y ys => exact ⟨y, ys ++ x :: t, rfl, by simp; omega⟩

/-- `add_mul_chunk`: with `c.len() = a.len() + b.len()`, digits + carry·B^|c| = c + a·b (+ the
    pending carry bit at `c[a.len()]`) -/
theorem addMulChunk_spec (W : Nat) (a : List Nat) (ha : IsWords W a) :
    ∀ (bs c : List Nat) (carry : Nat), c.length = a.length + bs.length → IsWords W c →
    IsWords W bs → carry ≤ 1 →
    val W (addMulChunk W a c bs carry).1 + 2 ^ (W * c.length) * (addMulChunk W a c bs carry).2
      = val W c + val W a * val W bs + 2 ^ (W * a.length) * carry ∧
    (addMulChunk W a c bs carry).1.length = c.length ∧ IsWords W (addMulChunk W a c bs carry).1 ∧
    (addMulChunk W a c bs carry).2 ≤ 1 := by
  intro bs
  induction bs with
  | nil =>
    intro c carry hl hc _ hcar
    simp only [addMulChunk, val_nil, Nat.mul_zero, Nat.add_zero]
    simp only [List.length_nil, Nat.add_zero] at hl
    rw [hl]
    exact ⟨rfl, trivial, hc, hcar⟩
  | cons m bs ih =>
    intro c carry hl hc hb hcar
    have hp : 0 < 2 ^ W := Nat.two_pow_pos W
    have hn : a.length < c.length := by simp at hl; omega
    have htl : (c.take a.length).length = a.length := length_take_of_le (by omega)
    have hwin := addMulWordSameLen_spec W (c.take a.length) m a (hc.take _) ha htl hb.head
    have hsplit := val_take_add_drop W c a.length
    rw [htl, drop_eq_getD_cons c a.length hn, val_cons] at hsplit
    have htop := hc.getD a.length
    simp only [addMulChunk]
    generalize addMulWordSameLen W (c.take a.length) m a = res at hwin
    obtain ⟨win, cw⟩ := res
    obtain ⟨w1, w2, w3, w4⟩ := hwin
    simp only [htl] at w1 w2 w3 w4 ⊢
    generalize c.getD a.length 0 = top at *
    have hs2 : (top + cw + carry) / 2 ^ W ≤ 1 := by
      have : top + cw + carry < 2 * 2 ^ W := by omega
      have := (Nat.div_lt_iff_lt_mul hp).mpr this
      omega
    have hdm := Nat.div_add_mod (top + cw + carry) (2 ^ W)
    have hsm : (top + cw + carry) % 2 ^ W < 2 ^ W := Nat.mod_lt _ hp
    generalize (top + cw + carry) / 2 ^ W = q at *
    generalize (top + cw + carry) % 2 ^ W = sm at *
    have hc1w : IsWords W (win ++ sm :: c.drop (a.length + 1)) :=
      w3.append (IsWords.cons hsm (hc.drop _))
    have hc1v : val W (win ++ sm :: c.drop (a.length + 1))
        = val W win + 2 ^ (W * a.length) * (sm + 2 ^ W * val W (c.drop (a.length + 1))) := by
      rw [val_append, w2, val_cons]
    obtain ⟨w0, rest, hc1, hrl⟩ := exists_cons_of_append_cons win sm (c.drop (a.length + 1))
    rw [hc1] at hc1w hc1v ⊢
    simp only
    rw [w2, List.length_drop] at hrl
    have hrest : rest.length = a.length + bs.length := by simp at hl; omega
    obtain ⟨i1, i2, i3, i4⟩ := ih rest q hrest hc1w.tail hb.tail hs2
    generalize addMulChunk W a rest bs q = res2 at i1 i2 i3 i4
    obtain ⟨r, carry'⟩ := res2
    simp only at i1 i2 i3 i4 ⊢
    have hcl : c.length = rest.length + 1 := by simp at hl; omega
    refine ⟨?_, by simp [i2, hcl], IsWords.cons hc1w.head i3, i4⟩
    rw [hcl, pow_mul_succ]
    simp only [val_cons] at hc1v ⊢
    have e1 : 2 ^ W * (val W r + 2 ^ (W * rest.length) * carry')
        = 2 ^ W * (val W rest + val W a * val W bs + 2 ^ (W * a.length) * q) := by rw [i1]
    have e2 : 2 ^ (W * a.length) * (2 ^ W * q + sm) = 2 ^ (W * a.length) * (top + cw + carry) := by
      rw [hdm]
    linarith

/-- `sub_mul_chunk`: digits + a·b (+ pending borrow) = c + borrow·B^|c| -/
theorem subMulChunk_spec (W : Nat) (a : List Nat) (ha : IsWords W a) :
    ∀ (bs c : List Nat) (borrow : Nat), c.length = a.length + bs.length → IsWords W c →
    IsWords W bs → borrow ≤ 1 →
    val W (subMulChunk W a c bs borrow).1 + val W a * val W bs + 2 ^ (W * a.length) * borrow
      = val W c + 2 ^ (W * c.length) * (subMulChunk W a c bs borrow).2 ∧
    (subMulChunk W a c bs borrow).1.length = c.length ∧ IsWords W (subMulChunk W a c bs borrow).1 ∧
    (subMulChunk W a c bs borrow).2 ≤ 1 := by
  intro bs
  induction bs with
  | nil =>
    intro c borrow hl hc _ hbor
    simp only [subMulChunk, val_nil, Nat.mul_zero, Nat.add_zero, Nat.zero_add]
    simp only [List.length_nil, Nat.add_zero] at hl
    rw [hl]
    exact ⟨rfl, trivial, hc, hbor⟩
  | cons m bs ih =>
    intro c borrow hl hc hb hbor
    have hp : 0 < 2 ^ W := Nat.two_pow_pos W
    have hn : a.length < c.length := by simp at hl; omega
    have htl : (c.take a.length).length = a.length := length_take_of_le (by omega)
    have hwin := subMulWordSameLen_spec W (c.take a.length) m a (hc.take _) ha htl hb.head
    have hsplit := val_take_add_drop W c a.length
    rw [htl, drop_eq_getD_cons c a.length hn, val_cons] at hsplit
    have htop := hc.getD a.length
    simp only [subMulChunk]
    generalize subMulWordSameLen W (c.take a.length) m a = res at hwin
    obtain ⟨win, bw⟩ := res
    obtain ⟨w1, w2, w3, w4⟩ := hwin
    simp only [htl] at w1 w2 w3 w4 ⊢
    generalize c.getD a.length 0 = top at *
    have hd2 : (top + 2 ^ W - bw - borrow) / 2 ^ W ≤ 1 := by
      have : top + 2 ^ W - bw - borrow < 2 * 2 ^ W := by omega
      have := (Nat.div_lt_iff_lt_mul hp).mpr this
      omega
    have hdm := Nat.div_add_mod (top + 2 ^ W - bw - borrow) (2 ^ W)
    have hsm : (top + 2 ^ W - bw - borrow) % 2 ^ W < 2 ^ W := Nat.mod_lt _ hp
    have hdsum : top + 2 ^ W - bw - borrow + bw + borrow = top + 2 ^ W := by omega
    generalize top + 2 ^ W - bw - borrow = d at *
    generalize hq : d / 2 ^ W = q at *
    generalize d % 2 ^ W = sm at *
    have hk : 1 - q ≤ 1 := Nat.sub_le _ _
    have hkq : (1 - q) + q = 1 := by omega
    generalize 1 - q = k at *
    have hc1w : IsWords W (win ++ sm :: c.drop (a.length + 1)) :=
      w3.append (IsWords.cons hsm (hc.drop _))
    have hc1v : val W (win ++ sm :: c.drop (a.length + 1))
        = val W win + 2 ^ (W * a.length) * (sm + 2 ^ W * val W (c.drop (a.length + 1))) := by
      rw [val_append, w2, val_cons]
    obtain ⟨w0, rest, hc1, hrl⟩ := exists_cons_of_append_cons win sm (c.drop (a.length + 1))
    rw [hc1] at hc1w hc1v ⊢
    simp only
    rw [w2, List.length_drop] at hrl
    have hrest : rest.length = a.length + bs.length := by simp at hl; omega
    obtain ⟨i1, i2, i3, i4⟩ := ih rest k hrest hc1w.tail hb.tail hk
    generalize subMulChunk W a rest bs k = res2 at i1 i2 i3 i4
    obtain ⟨r, borrow'⟩ := res2
    simp only at i1 i2 i3 i4 ⊢
    have hcl : c.length = rest.length + 1 := by simp at hl; omega
    refine ⟨?_, by simp [i2, hcl], IsWords.cons hc1w.head i3, i4⟩
    rw [hcl, pow_mul_succ]
    simp only [val_cons] at hc1v ⊢
    have e1 : 2 ^ W * (val W r + val W a * val W bs + 2 ^ (W * a.length) * k)
        = 2 ^ W * (val W rest + 2 ^ (W * rest.length) * borrow') := by rw [i1]
    have e2 : 2 ^ (W * a.length) * (2 ^ W * q + sm + bw + borrow)
        = 2 ^ (W * a.length) * (top + 2 ^ W) := by rw [hdm, hdsum]
    have e3 : 2 ^ (W * a.length) * (2 ^ W * (k + q)) = 2 ^ (W * a.length) * 2 ^ W := by
      rw [hkq, Nat.mul_one]
    linarith

/-- `simple::add_signed_mul_chunk` = "c += sign·a·b, returns the signed carry" -/
theorem addSignedMulChunk_spec (W : Nat) (c : List Nat) (neg : Bool) (a b : List Nat)
    (hl : c.length = a.length + b.length) (hc : IsWords W c) (ha : IsWords W a)
    (hb : IsWords W b) :
    (val W (addSignedMulChunk W c neg a b).1 : Int)
        + 2 ^ (W * c.length) * (addSignedMulChunk W c neg a b).2
      = (val W c : Int) + (if neg then -1 else 1) * (val W a * val W b) ∧
    (addSignedMulChunk W c neg a b).1.length = c.length ∧
    IsWords W (addSignedMulChunk W c neg a b).1 ∧
    (if neg then -1 ≤ (addSignedMulChunk W c neg a b).2 ∧ (addSignedMulChunk W c neg a b).2 ≤ 0
     else 0 ≤ (addSignedMulChunk W c neg a b).2 ∧ (addSignedMulChunk W c neg a b).2 ≤ 1) := by
  unfold addSignedMulChunk
  cases neg with
  | true =>
    obtain ⟨s1, s2, s3, s4⟩ := subMulChunk_spec W a ha b c 0 hl hc hb (by omega)
    generalize subMulChunk W a c b 0 = res at s1 s2 s3 s4
    obtain ⟨r, borrow⟩ := res
    simp only [Nat.mul_zero, Nat.add_zero] at s1 s2 s3 s4
    simp only [if_true]
    refine ⟨?_, s2, s3, by omega, by omega⟩
    have := congrArg (Nat.cast : Nat → Int) s1
    push_cast at this ⊢
    linarith
  | false =>
    obtain ⟨s1, s2, s3, s4⟩ := addMulChunk_spec W a ha b c 0 hl hc hb (by omega)
    generalize addMulChunk W a c b 0 = res at s1 s2 s3 s4
    obtain ⟨r, carry⟩ := res
    simp only [Nat.mul_zero, Nat.add_zero] at s1 s2 s3 s4
    simp only [Bool.false_eq_true, if_false]
    refine ⟨?_, s2, s3, by omega, by omega⟩
    have := congrArg (Nat.cast : Nat → Int) s1
    push_cast at this ⊢
    linarith

/-- `mul::multiply` through the simple path: on a zero-filled `c` the carry is zero
    (`debug_assert_zero!`) and the buffer holds the product -/
theorem addMulChunk_zero (W : Nat) (a b : List Nat) (ha : IsWords W a) (hb : IsWords W b) :
    (addMulChunk W a (List.replicate (a.length + b.length) 0) b 0).2 = 0 ∧
    val W (addMulChunk W a (List.replicate (a.length + b.length) 0) b 0).1 = val W a * val W b ∧
    IsWords W (addMulChunk W a (List.replicate (a.length + b.length) 0) b 0).1 := by
  have hz : ∀ n, val W (List.replicate n 0) = 0 := by
    intro n; induction n with
    | zero => rfl
    | succ n ih => simp [List.replicate_succ, ih]
  have hzw : IsWords W (List.replicate (a.length + b.length) 0) := by
    intro x hx; rw [List.eq_of_mem_replicate hx]; exact Nat.two_pow_pos W
  obtain ⟨s1, s2, s3, s4⟩ := addMulChunk_spec W a ha b (List.replicate (a.length + b.length) 0) 0
    (by simp) hzw hb (by omega)
  generalize addMulChunk W a (List.replicate (a.length + b.length) 0) b 0 = res at s1 s2 s3 s4
  obtain ⟨r, carry⟩ := res
  simp only [hz, List.length_replicate, Nat.mul_zero, Nat.add_zero, Nat.zero_add] at s1 s2 s3 s4 ⊢
  have hlt : val W a * val W b < 2 ^ (W * (a.length + b.length)) := by
    rw [Nat.mul_add, Nat.pow_add]
    exact Nat.mul_lt_mul'' (val_lt W a ha) (val_lt W b hb)
  have hc0 : carry = 0 := by
    rcases (by omega : carry = 0 ∨ carry = 1) with h | h
    · exact h
    · subst h; simp only [Nat.mul_one] at s1; omega
  subst hc0
  simp only [Nat.mul_zero, Nat.add_zero] at s1
  exact ⟨rfl, s1, s3⟩

end Dashu.Model
