import Dashu.Model.Int.Mul
import Dashu.Proofs.Int.Repr
import Mathlib.Tactic.LinearCombination
import Mathlib.Tactic.Positivity
/-
  Refinement of the schoolbook kernels (`mul/mod.rs`, `mul/simple.rs`) to arithmetic on `Nat`/`Int`,
  for every word size and every operand length.
-/
namespace Dashu.Model

theorem mul_add_add_lt_sq' {B a b c d : Nat} (ha : a < B) (hb : b < B) (hc : c < B) (hd : d < B) :
    a * b + c + d < B * B := by
  obtain ⟨B', rfl⟩ : ∃ B', B = B' + 1 := ⟨B - 1, by omega⟩
  have h := Nat.mul_le_mul (show a ≤ B' by omega) (show b ≤ B' by omega)
  have e : (B' + 1) * (B' + 1) = B' * B' + 2 * B' + 1 := by ring
  omega

-- ------------------------------------------------------------------ mul_word_in_place_with_carry

theorem mul_add_add_lt_sq {B a b c d : Nat} (ha : a < B) (hb : b < B) (hc : c < B) (hd : d < B) :
    a * b + c + d < B * B := by
  obtain ⟨B', rfl⟩ : ∃ B', B = B' + 1 := ⟨B - 1, by omega⟩
  have h := Nat.mul_le_mul (show a ≤ B' by omega) (show b ≤ B' by omega)
  have e : (B' + 1) * (B' + 1) = B' * B' + 2 * B' + 1 := by ring
  omega

theorem mul_add_lt_sq {B a b c : Nat} (ha : a < B) (hb : b < B) (hc : c < B) :
    a * b + c < B * B := by
  have := mul_add_add_lt_sq ha hb hc (show 0 < B by omega)
  omega

theorem mulWordInPlace_spec (W : Nat) (ws : List Nat) (rhs c : Nat) (hw : IsWords W ws)
    (hr : rhs < 2 ^ W) (hc : c < 2 ^ W) :
    val W (mulWordInPlace W ws rhs c).1 + 2 ^ (W * ws.length) * (mulWordInPlace W ws rhs c).2
      = val W ws * rhs + c ∧
    (mulWordInPlace W ws rhs c).1.length = ws.length ∧ IsWords W (mulWordInPlace W ws rhs c).1 ∧
    (mulWordInPlace W ws rhs c).2 < 2 ^ W := by
  induction ws generalizing c with
  | nil => simp [mulWordInPlace, IsWords.nil, hc]
  | cons a as ih =>
    have hp : 0 < 2 ^ W := Nat.two_pow_pos W
    have ha := hw.head
    have hv : a * rhs + c < 2 ^ W * 2 ^ W := mul_add_lt_sq ha hr hc
    have hq : (a * rhs + c) / 2 ^ W < 2 ^ W := (Nat.div_lt_iff_lt_mul hp).mpr hv
    have hdm := Nat.div_add_mod (a * rhs + c) (2 ^ W)
    obtain ⟨i1, i2, i3, i4⟩ := ih ((a * rhs + c) / 2 ^ W) hw.tail hq
    simp only [mulWordInPlace, val_cons, List.length_cons]
    refine ⟨?_, by simp [i2], IsWords.cons (Nat.mod_lt _ hp) i3, i4⟩
    rw [pow_mul_succ]
    generalize mulWordInPlace W as rhs ((a * rhs + c) / 2 ^ W) = res at i1
    obtain ⟨r, c'⟩ := res
    simp only at i1 ⊢
    have e : 2 ^ W * (val W r + 2 ^ (W * as.length) * c')
        = 2 ^ W * (val W as * rhs + (a * rhs + c) / 2 ^ W) := by rw [i1]
    linarith

-- ------------------------------------------------------------------ add_mul_word_same_len_in_place

theorem addMulWordLoop_spec (W mult : Nat) (hm : mult < 2 ^ W) :
    ∀ (ws rhs : List Nat) (c : Nat), IsWords W ws → IsWords W rhs → ws.length = rhs.length →
    c < 2 ^ W →
    val W (addMulWordLoop W ws mult rhs c).1
        + 2 ^ (W * ws.length) * (addMulWordLoop W ws mult rhs c).2
      = val W ws + mult * val W rhs + c ∧
    (addMulWordLoop W ws mult rhs c).1.length = ws.length ∧
    IsWords W (addMulWordLoop W ws mult rhs c).1 ∧ (addMulWordLoop W ws mult rhs c).2 < 2 ^ W := by
  intro ws
  induction ws with
  | nil =>
    intro rhs c _ _ hl hc
    cases rhs with
    | nil => simp [addMulWordLoop, IsWords.nil, hc]
    | cons b bs => simp at hl
  | cons a as ih =>
    intro rhs c hw hr hl hc
    cases rhs with
    | nil => simp at hl
    | cons b bs =>
      have hp : 0 < 2 ^ W := Nat.two_pow_pos W
      have ha := hw.head
      have hb := hr.head
      have hv : mult * b + a + c < 2 ^ W * 2 ^ W := mul_add_add_lt_sq' hm hb ha hc
      have hq : (mult * b + a + c) / 2 ^ W < 2 ^ W := (Nat.div_lt_iff_lt_mul hp).mpr hv
      have hdm := Nat.div_add_mod (mult * b + a + c) (2 ^ W)
      obtain ⟨i1, i2, i3, i4⟩ := ih bs _ hw.tail hr.tail (by simpa using hl) hq
      simp only [addMulWordLoop, val_cons, List.length_cons]
      generalize addMulWordLoop W as mult bs ((mult * b + a + c) / 2 ^ W) = res at i1 i2 i3 i4
      obtain ⟨r, c'⟩ := res
      simp only at i1 i2 i3 i4 ⊢
      refine ⟨?_, by simp [i2], IsWords.cons (Nat.mod_lt _ hp) i3, i4⟩
      rw [pow_mul_succ]
      have e : 2 ^ W * (val W r + 2 ^ (W * as.length) * c')
          = 2 ^ W * (val W as + mult * val W bs + (mult * b + a + c) / 2 ^ W) := by rw [i1]
      linarith

/-- `add_mul_word_same_len_in_place`: digits + carry·B^n = words + mult·rhs -/
theorem addMulWordSameLen_spec (W : Nat) (ws : List Nat) (mult : Nat) (rhs : List Nat)
    (hw : IsWords W ws) (hr : IsWords W rhs) (hl : ws.length = rhs.length) (hm : mult < 2 ^ W) :
    val W (addMulWordSameLen W ws mult rhs).1
        + 2 ^ (W * ws.length) * (addMulWordSameLen W ws mult rhs).2
      = val W ws + mult * val W rhs ∧
    (addMulWordSameLen W ws mult rhs).1.length = ws.length ∧
    IsWords W (addMulWordSameLen W ws mult rhs).1 ∧ (addMulWordSameLen W ws mult rhs).2 < 2 ^ W := by
  unfold addMulWordSameLen
  split
  · rename_i h0; subst h0
    exact ⟨by simp, rfl, hw, Nat.two_pow_pos W⟩
  · have := addMulWordLoop_spec W mult hm ws rhs 0 hw hr hl (Nat.two_pow_pos W)
    simpa using this

/-- `add_mul_word_in_place` (`words.len() ≥ rhs.len()`): the carry is at most one bit when the high
    part is non-empty, a word otherwise -/
theorem addMulWordInPlace_spec (W : Nat) (ws : List Nat) (mult : Nat) (rhs : List Nat)
    (hw : IsWords W ws) (hr : IsWords W rhs) (hl : rhs.length ≤ ws.length) (hm : mult < 2 ^ W) :
    val W (addMulWordInPlace W ws mult rhs).1
        + 2 ^ (W * ws.length) * (addMulWordInPlace W ws mult rhs).2
      = val W ws + mult * val W rhs ∧
    (addMulWordInPlace W ws mult rhs).1.length = ws.length ∧
    IsWords W (addMulWordInPlace W ws mult rhs).1 ∧ (addMulWordInPlace W ws mult rhs).2 < 2 ^ W := by
  simp only [addMulWordInPlace]
  split
  · rename_i h0; subst h0
    exact ⟨by simp, rfl, hw, Nat.two_pow_pos W⟩
  · have htl : (ws.take rhs.length).length = rhs.length := length_take_of_le hl
    have hs := addMulWordSameLen_spec W (ws.take rhs.length) mult rhs (hw.take _) hr htl hm
    have hsplit := val_take_add_drop W ws rhs.length
    rw [htl] at hsplit hs
    generalize addMulWordSameLen W (ws.take rhs.length) mult rhs = res at hs ⊢
    obtain ⟨lo, carry⟩ := res
    obtain ⟨s1, s2, s3, s4⟩ := hs
    simp only at s1 s2 s3 s4 ⊢
    split
    · rename_i hgt
      have hne : ws.drop rhs.length ≠ [] := by
        intro e; have := congrArg List.length e; rw [List.length_drop] at this; simp at this; omega
      have ho := addWord_spec W (ws.drop rhs.length) carry (hw.drop _) s4 hne
      generalize addWord W (ws.drop rhs.length) carry = res2 at ho ⊢
      obtain ⟨hi, c⟩ := res2
      obtain ⟨o1, o2, o3, o4⟩ := ho
      simp only [List.length_drop] at o1 o2 o3 o4 ⊢
      refine ⟨?_, by rw [List.length_append, s2, o2]; omega, s3.append o3,
        Nat.lt_of_le_of_lt o4 (Nat.one_lt_two_pow (by
          intro hW0; subst hW0; simp at hm; subst hm; contradiction))⟩
      rw [val_append, s2, pow_mul_split W hl]
      have e : 2 ^ (W * rhs.length) * (val W hi + 2 ^ (W * (ws.length - rhs.length)) * c)
          = 2 ^ (W * rhs.length) * (val W (ws.drop rhs.length) + carry) := by rw [o1]
      linarith
    · rename_i hle
      have hlen : ws.length = rhs.length := by omega
      have hd : ws.drop rhs.length = [] := by rw [← hlen]; exact List.drop_length
      rw [hd] at hsplit
      simp only [val_nil, Nat.mul_zero, Nat.add_zero] at hsplit
      refine ⟨?_, by rw [s2, hlen], s3, s4⟩
      rw [hlen, hsplit]; exact s1

-- ------------------------------------------------------------------ sub_mul_word_same_len_in_place

/-- one step of the `carry_plus_max` trick.  With `K = double_word(0, MAX) − MAX`:
    the subtraction in `v = a + cpm + K − mult·b` never underflows, `v` fits a double word, and with
    the borrow `k = MAX − cpm` the step is `digit + mult·b + k = a + B·k'`. -/
theorem sub_mul_step (B a b mult cpm : Nat) (ha : a < B) (hb : b < B) (hm : mult < B)
    (hc : cpm < B) :
    mult * b ≤ a + cpm + ((B - 1) * B - (B - 1)) ∧
    a + cpm + ((B - 1) * B - (B - 1)) - mult * b < B * B ∧
    (a + cpm + ((B - 1) * B - (B - 1)) - mult * b) / B < B ∧
    (a + cpm + ((B - 1) * B - (B - 1)) - mult * b) % B + mult * b + (B - 1 - cpm)
      = a + B * (B - 1 - (a + cpm + ((B - 1) * B - (B - 1)) - mult * b) / B) := by
  obtain ⟨B', rfl⟩ : ∃ B', B = B' + 1 := ⟨B - 1, by omega⟩
  have hK : (B' + 1 - 1) * (B' + 1) - (B' + 1 - 1) = B' * B' := by
    simp only [Nat.add_sub_cancel]
    rw [Nat.mul_add, Nat.mul_one, Nat.add_sub_cancel]
  have hmb : mult * b ≤ B' * B' := Nat.mul_le_mul (by omega) (by omega)
  rw [hK]
  simp only [Nat.add_sub_cancel]
  have hsq : (B' + 1) * (B' + 1) = B' * B' + 2 * B' + 1 := by ring
  have hv : a + cpm + B' * B' - mult * b < (B' + 1) * (B' + 1) := by omega
  have hq : (a + cpm + B' * B' - mult * b) / (B' + 1) < B' + 1 :=
    (Nat.div_lt_iff_lt_mul (by omega)).mpr hv
  refine ⟨by omega, hv, hq, ?_⟩
  have hdm := Nat.div_add_mod (a + cpm + B' * B' - mult * b) (B' + 1)
  generalize (a + cpm + B' * B' - mult * b) / (B' + 1) = q at *
  generalize (a + cpm + B' * B' - mult * b) % (B' + 1) = m0 at *
  have e : (B' + 1) * (B' - q) + (B' + 1) * q = (B' + 1) * B' := by
    rw [← Nat.mul_add, Nat.sub_add_cancel (by omega)]
  have e2 : (B' + 1) * B' = B' * B' + B' := by ring
  omega

theorem subMulWordLoop_spec (W mult : Nat) (hm : mult < 2 ^ W) :
    ∀ (ws rhs : List Nat) (cpm : Nat), IsWords W ws → IsWords W rhs → ws.length = rhs.length →
    cpm < 2 ^ W →
    val W (subMulWordLoop W ws mult rhs cpm).1 + mult * val W rhs + (2 ^ W - 1 - cpm)
      = val W ws + 2 ^ (W * ws.length) * (2 ^ W - 1 - (subMulWordLoop W ws mult rhs cpm).2) ∧
    (subMulWordLoop W ws mult rhs cpm).1.length = ws.length ∧
    IsWords W (subMulWordLoop W ws mult rhs cpm).1 ∧
    (subMulWordLoop W ws mult rhs cpm).2 < 2 ^ W := by
  intro ws
  induction ws with
  | nil =>
    intro rhs cpm _ _ hl hc
    cases rhs with
    | nil => simp [subMulWordLoop, IsWords.nil, hc]
    | cons b bs => simp at hl
  | cons a as ih =>
    intro rhs cpm hw hr hl hc
    cases rhs with
    | nil => simp at hl
    | cons b bs =>
      have hp : 0 < 2 ^ W := Nat.two_pow_pos W
      obtain ⟨_, _, hq, hstep⟩ := sub_mul_step (2 ^ W) a b mult cpm hw.head hr.head hm hc
      obtain ⟨i1, i2, i3, i4⟩ := ih bs _ hw.tail hr.tail (by simpa using hl) hq
      have hm0 := Nat.mod_lt (a + cpm + ((2 ^ W - 1) * 2 ^ W - (2 ^ W - 1)) - mult * b) hp
      simp only [subMulWordLoop, val_cons, List.length_cons]
      generalize (a + cpm + ((2 ^ W - 1) * 2 ^ W - (2 ^ W - 1)) - mult * b) / 2 ^ W = q at *
      generalize (a + cpm + ((2 ^ W - 1) * 2 ^ W - (2 ^ W - 1)) - mult * b) % 2 ^ W = m0 at *
      generalize subMulWordLoop W as mult bs q = res at i1 i2 i3 i4
      obtain ⟨r, c'⟩ := res
      simp only at i1 i2 i3 i4 ⊢
      refine ⟨?_, by simp [i2], IsWords.cons hm0 i3, i4⟩
      rw [pow_mul_succ]
      generalize 2 ^ W - 1 - q = kq at *
      generalize 2 ^ W - 1 - c' = kc at *
      generalize 2 ^ W - 1 - cpm = k0 at *
      have e : 2 ^ W * (val W r + mult * val W bs + kq)
          = 2 ^ W * (val W as + 2 ^ (W * as.length) * kc) := by rw [i1]
      linarith

/-- `sub_mul_word_same_len_in_place`: digits + mult·rhs = words + borrow·B^n -/
theorem subMulWordSameLen_spec (W : Nat) (ws : List Nat) (mult : Nat) (rhs : List Nat)
    (hw : IsWords W ws) (hr : IsWords W rhs) (hl : ws.length = rhs.length) (hm : mult < 2 ^ W) :
    val W (subMulWordSameLen W ws mult rhs).1 + mult * val W rhs
      = val W ws + 2 ^ (W * ws.length) * (subMulWordSameLen W ws mult rhs).2 ∧
    (subMulWordSameLen W ws mult rhs).1.length = ws.length ∧
    IsWords W (subMulWordSameLen W ws mult rhs).1 ∧ (subMulWordSameLen W ws mult rhs).2 < 2 ^ W := by
  unfold subMulWordSameLen
  have hp : 0 < 2 ^ W := Nat.two_pow_pos W
  split
  · rename_i h0; subst h0
    exact ⟨by simp, rfl, hw, hp⟩
  · have hs := subMulWordLoop_spec W mult hm ws rhs (2 ^ W - 1) hw hr hl (by omega)
    generalize subMulWordLoop W ws mult rhs (2 ^ W - 1) = res at hs
    obtain ⟨r, cpm⟩ := res
    obtain ⟨s1, s2, s3, s4⟩ := hs
    simp only [Nat.sub_self, Nat.add_zero] at s1 s2 s3 s4 ⊢
    exact ⟨s1, s2, s3, by omega⟩

-- ------------------------------------------------------------------ add_mul_chunk / sub_mul_chunk

theorem drop_eq_getD_cons (l : List Nat) (n : Nat) (h : n < l.length) :
    l.drop n = l.getD n 0 :: l.drop (n + 1) := (set_take_drop l n 0 h).2.2

theorem exists_cons_of_append_cons (w : List Nat) (x : Nat) (t : List Nat) :
    ∃ w0 rest, w ++ x :: t = w0 :: rest ∧ rest.length = w.length + t.length := by
  cases w with
  | nil => exact ⟨x, t, rfl, by simp⟩
  | cons y ys => exact ⟨y, ys ++ x :: t, rfl, by simp; omega⟩

/-- `add_mul_chunk`: with `c.len() = a.len() + b.len()`, digits + carry·B^|c| = c + a·b (+ the
    pending carry bit at `c[a.len()]`) -/
theorem addMulChunk_spec (W : Nat) (a : List Nat) (ha : IsWords W a) :
    ∀ (bs c : List Nat) (carry : Nat), c.length = a.length + bs.length → IsWords W c →
    IsWords W bs → carry ≤ 1 →
    val W (addMulChunk W a c bs carry).1 + 2 ^ (W * c.length) * (addMulChunk W a c bs carry).2
      = val W c + val W a * val W bs + 2 ^ (W * a.length) * carry ∧
    (addMulChunk W a c bs carry).1.length = c.length ∧ IsWords W (addMulChunk W a c bs carry).1 ∧
    (addMulChunk W a c bs carry).2 ≤ 1 := by
  intro bs
  induction bs with
  | nil =>
    intro c carry hl hc _ hcar
    simp only [addMulChunk, val_nil, Nat.mul_zero, Nat.add_zero]
    simp only [List.length_nil, Nat.add_zero] at hl
    rw [hl]
    exact ⟨rfl, trivial, hc, hcar⟩
  | cons m bs ih =>
    intro c carry hl hc hb hcar
    have hp : 0 < 2 ^ W := Nat.two_pow_pos W
    have hn : a.length < c.length := by simp at hl; omega
    have htl : (c.take a.length).length = a.length := length_take_of_le (by omega)
    have hwin := addMulWordSameLen_spec W (c.take a.length) m a (hc.take _) ha htl hb.head
    have hsplit := val_take_add_drop W c a.length
    rw [htl, drop_eq_getD_cons c a.length hn, val_cons] at hsplit
    have htop := hc.getD a.length
    simp only [addMulChunk]
    generalize addMulWordSameLen W (c.take a.length) m a = res at hwin
    obtain ⟨win, cw⟩ := res
    obtain ⟨w1, w2, w3, w4⟩ := hwin
    simp only [htl] at w1 w2 w3 w4 ⊢
    generalize c.getD a.length 0 = top at *
    have hs2 : (top + cw + carry) / 2 ^ W ≤ 1 := by
      have : top + cw + carry < 2 * 2 ^ W := by omega
      have := (Nat.div_lt_iff_lt_mul hp).mpr this
      omega
    have hdm := Nat.div_add_mod (top + cw + carry) (2 ^ W)
    have hsm : (top + cw + carry) % 2 ^ W < 2 ^ W := Nat.mod_lt _ hp
    generalize (top + cw + carry) / 2 ^ W = q at *
    generalize (top + cw + carry) % 2 ^ W = sm at *
    have hc1w : IsWords W (win ++ sm :: c.drop (a.length + 1)) :=
      w3.append (IsWords.cons hsm (hc.drop _))
    have hc1v : val W (win ++ sm :: c.drop (a.length + 1))
        = val W win + 2 ^ (W * a.length) * (sm + 2 ^ W * val W (c.drop (a.length + 1))) := by
      rw [val_append, w2, val_cons]
    obtain ⟨w0, rest, hc1, hrl⟩ := exists_cons_of_append_cons win sm (c.drop (a.length + 1))
    rw [hc1] at hc1w hc1v ⊢
    simp only
    rw [w2, List.length_drop] at hrl
    have hrest : rest.length = a.length + bs.length := by simp at hl; omega
    obtain ⟨i1, i2, i3, i4⟩ := ih rest q hrest hc1w.tail hb.tail hs2
    generalize addMulChunk W a rest bs q = res2 at i1 i2 i3 i4
    obtain ⟨r, carry'⟩ := res2
    simp only at i1 i2 i3 i4 ⊢
    have hcl : c.length = rest.length + 1 := by simp at hl; omega
    refine ⟨?_, by simp [i2, hcl], IsWords.cons hc1w.head i3, i4⟩
    rw [hcl, pow_mul_succ]
    simp only [val_cons] at hc1v ⊢
    have e1 : 2 ^ W * (val W r + 2 ^ (W * rest.length) * carry')
        = 2 ^ W * (val W rest + val W a * val W bs + 2 ^ (W * a.length) * q) := by rw [i1]
    have e2 : 2 ^ (W * a.length) * (2 ^ W * q + sm) = 2 ^ (W * a.length) * (top + cw + carry) := by
      rw [hdm]
    linarith

/-- `sub_mul_chunk`: digits + a·b (+ pending borrow) = c + borrow·B^|c| -/
theorem subMulChunk_spec (W : Nat) (a : List Nat) (ha : IsWords W a) :
    ∀ (bs c : List Nat) (borrow : Nat), c.length = a.length + bs.length → IsWords W c →
    IsWords W bs → borrow ≤ 1 →
    val W (subMulChunk W a c bs borrow).1 + val W a * val W bs + 2 ^ (W * a.length) * borrow
      = val W c + 2 ^ (W * c.length) * (subMulChunk W a c bs borrow).2 ∧
    (subMulChunk W a c bs borrow).1.length = c.length ∧ IsWords W (subMulChunk W a c bs borrow).1 ∧
    (subMulChunk W a c bs borrow).2 ≤ 1 := by
  intro bs
  induction bs with
  | nil =>
    intro c borrow hl hc _ hbor
    simp only [subMulChunk, val_nil, Nat.mul_zero, Nat.add_zero, Nat.zero_add]
    simp only [List.length_nil, Nat.add_zero] at hl
    rw [hl]
    exact ⟨rfl, trivial, hc, hbor⟩
  | cons m bs ih =>
    intro c borrow hl hc hb hbor
    have hp : 0 < 2 ^ W := Nat.two_pow_pos W
    have hn : a.length < c.length := by simp at hl; omega
    have htl : (c.take a.length).length = a.length := length_take_of_le (by omega)
    have hwin := subMulWordSameLen_spec W (c.take a.length) m a (hc.take _) ha htl hb.head
    have hsplit := val_take_add_drop W c a.length
    rw [htl, drop_eq_getD_cons c a.length hn, val_cons] at hsplit
    have htop := hc.getD a.length
    simp only [subMulChunk]
    generalize subMulWordSameLen W (c.take a.length) m a = res at hwin
    obtain ⟨win, bw⟩ := res
    obtain ⟨w1, w2, w3, w4⟩ := hwin
    simp only [htl] at w1 w2 w3 w4 ⊢
    generalize c.getD a.length 0 = top at *
    have hd2 : (top + 2 ^ W - bw - borrow) / 2 ^ W ≤ 1 := by
      have : top + 2 ^ W - bw - borrow < 2 * 2 ^ W := by omega
      have := (Nat.div_lt_iff_lt_mul hp).mpr this
      omega
    have hdm := Nat.div_add_mod (top + 2 ^ W - bw - borrow) (2 ^ W)
    have hsm : (top + 2 ^ W - bw - borrow) % 2 ^ W < 2 ^ W := Nat.mod_lt _ hp
    have hdsum : top + 2 ^ W - bw - borrow + bw + borrow = top + 2 ^ W := by omega
    generalize top + 2 ^ W - bw - borrow = d at *
    generalize hq : d / 2 ^ W = q at *
    generalize d % 2 ^ W = sm at *
    have hk : 1 - q ≤ 1 := Nat.sub_le _ _
    have hkq : (1 - q) + q = 1 := by omega
    generalize 1 - q = k at *
    have hc1w : IsWords W (win ++ sm :: c.drop (a.length + 1)) :=
      w3.append (IsWords.cons hsm (hc.drop _))
    have hc1v : val W (win ++ sm :: c.drop (a.length + 1))
        = val W win + 2 ^ (W * a.length) * (sm + 2 ^ W * val W (c.drop (a.length + 1))) := by
      rw [val_append, w2, val_cons]
    obtain ⟨w0, rest, hc1, hrl⟩ := exists_cons_of_append_cons win sm (c.drop (a.length + 1))
    rw [hc1] at hc1w hc1v ⊢
    simp only
    rw [w2, List.length_drop] at hrl
    have hrest : rest.length = a.length + bs.length := by simp at hl; omega
    obtain ⟨i1, i2, i3, i4⟩ := ih rest k hrest hc1w.tail hb.tail hk
    generalize subMulChunk W a rest bs k = res2 at i1 i2 i3 i4
    obtain ⟨r, borrow'⟩ := res2
    simp only at i1 i2 i3 i4 ⊢
    have hcl : c.length = rest.length + 1 := by simp at hl; omega
    refine ⟨?_, by simp [i2, hcl], IsWords.cons hc1w.head i3, i4⟩
    rw [hcl, pow_mul_succ]
    simp only [val_cons] at hc1v ⊢
    have e1 : 2 ^ W * (val W r + val W a * val W bs + 2 ^ (W * a.length) * k)
        = 2 ^ W * (val W rest + 2 ^ (W * rest.length) * borrow') := by rw [i1]
    have e2 : 2 ^ (W * a.length) * (2 ^ W * q + sm + bw + borrow)
        = 2 ^ (W * a.length) * (top + 2 ^ W) := by rw [hdm, hdsum]
    have e3 : 2 ^ (W * a.length) * (2 ^ W * (k + q)) = 2 ^ (W * a.length) * 2 ^ W := by
      rw [hkq, Nat.mul_one]
    linarith

/-- `simple::add_signed_mul_chunk` = "c += sign·a·b, returns the signed carry" -/
theorem addSignedMulChunk_spec (W : Nat) (c : List Nat) (neg : Bool) (a b : List Nat)
    (hl : c.length = a.length + b.length) (hc : IsWords W c) (ha : IsWords W a)
    (hb : IsWords W b) :
    (val W (addSignedMulChunk W c neg a b).1 : Int)
        + 2 ^ (W * c.length) * (addSignedMulChunk W c neg a b).2
      = (val W c : Int) + (if neg then -1 else 1) * (val W a * val W b) ∧
    (addSignedMulChunk W c neg a b).1.length = c.length ∧
    IsWords W (addSignedMulChunk W c neg a b).1 ∧
    (if neg then -1 ≤ (addSignedMulChunk W c neg a b).2 ∧ (addSignedMulChunk W c neg a b).2 ≤ 0
     else 0 ≤ (addSignedMulChunk W c neg a b).2 ∧ (addSignedMulChunk W c neg a b).2 ≤ 1) := by
  unfold addSignedMulChunk
  cases neg with
  | true =>
    obtain ⟨s1, s2, s3, s4⟩ := subMulChunk_spec W a ha b c 0 hl hc hb (by omega)
    generalize subMulChunk W a c b 0 = res at s1 s2 s3 s4
    obtain ⟨r, borrow⟩ := res
    simp only [Nat.mul_zero, Nat.add_zero] at s1 s2 s3 s4
    simp only [if_true]
    refine ⟨?_, s2, s3, by omega, by omega⟩
    have := congrArg (Nat.cast : Nat → Int) s1
    push_cast at this ⊢
    linarith
  | false =>
    obtain ⟨s1, s2, s3, s4⟩ := addMulChunk_spec W a ha b c 0 hl hc hb (by omega)
    generalize addMulChunk W a c b 0 = res at s1 s2 s3 s4
    obtain ⟨r, carry⟩ := res
    simp only [Nat.mul_zero, Nat.add_zero] at s1 s2 s3 s4
    simp only [Bool.false_eq_true, if_false]
    refine ⟨?_, s2, s3, by omega, by omega⟩
    have := congrArg (Nat.cast : Nat → Int) s1
    push_cast at this ⊢
    linarith

/-- `mul::multiply` through the simple path: on a zero-filled `c` the carry is zero
    (`debug_assert_zero!`) and the buffer holds the product -/
theorem addMulChunk_zero (W : Nat) (a b : List Nat) (ha : IsWords W a) (hb : IsWords W b) :
    (addMulChunk W a (List.replicate (a.length + b.length) 0) b 0).2 = 0 ∧
    val W (addMulChunk W a (List.replicate (a.length + b.length) 0) b 0).1 = val W a * val W b ∧
    IsWords W (addMulChunk W a (List.replicate (a.length + b.length) 0) b 0).1 := by
  have hz : ∀ n, val W (List.replicate n 0) = 0 := by
    intro n; induction n with
    | zero => rfl
    | succ n ih => simp [List.replicate_succ, ih]
  have hzw : IsWords W (List.replicate (a.length + b.length) 0) := by
    intro x hx; rw [List.eq_of_mem_replicate hx]; exact Nat.two_pow_pos W
  obtain ⟨s1, s2, s3, s4⟩ := addMulChunk_spec W a ha b (List.replicate (a.length + b.length) 0) 0
    (by simp) hzw hb (by omega)
  generalize addMulChunk W a (List.replicate (a.length + b.length) 0) b 0 = res at s1 s2 s3 s4
  obtain ⟨r, carry⟩ := res
  simp only [hz, List.length_replicate, Nat.mul_zero, Nat.add_zero, Nat.zero_add] at s1 s2 s3 s4 ⊢
  have hlt : val W a * val W b < 2 ^ (W * (a.length + b.length)) := by
    rw [Nat.mul_add, Nat.pow_add]
    exact Nat.mul_lt_mul'' (val_lt W a ha) (val_lt W b hb)
  have hc0 : carry = 0 := by
    rcases (by omega : carry = 0 ∨ carry = 1) with h | h
    · exact h
    · subst h; simp only [Nat.mul_one] at s1; omega
  subst hc0
  simp only [Nat.mul_zero, Nat.add_zero] at s1
  exact ⟨rfl, s1, s3⟩

-- ====================================================================== signed window updates

/-- the sign factor of a `Sign` modelled as "is negative" -/
def sgn (neg : Bool) : Int := if neg then -1 else 1

/-- contract of an in-place update of a fixed-length slice: "c += δ, returns the signed carry k" -/
def Upd (W : Nat) (c c' : List Nat) (k δ : Int) : Prop :=
  c'.length = c.length ∧ IsWords W c' ∧
  (val W c' : Int) + (2 : Int) ^ (W * c.length) * k = (val W c : Int) + δ

theorem val_lt_int (W : Nat) (c : List Nat) (h : IsWords W c) :
    (val W c : Int) < (2 : Int) ^ (W * c.length) := by
  have := val_lt W c h
  exact_mod_cast this

/-- a carry out of a window whose increment is smaller than the window modulus is −1, 0 or 1 -/
theorem Upd.carry_bound {W : Nat} {c c' : List Nat} {k δ : Int} (h : Upd W c c' k δ)
    (hc : IsWords W c) (hδ : |δ| < (2 : Int) ^ (W * c.length)) : -1 ≤ k ∧ k ≤ 1 := by
  obtain ⟨h1, h2, h3⟩ := h
  have l1 := val_lt_int W c hc
  have l2 := val_lt_int W c' h2
  rw [h1] at l2
  have n1 : (0 : Int) ≤ val W c := Int.natCast_nonneg _
  have n2 : (0 : Int) ≤ val W c' := Int.natCast_nonneg _
  have hP : (0 : Int) < (2 : Int) ^ (W * c.length) := by positivity
  obtain ⟨d1, d2⟩ := abs_lt.mp hδ
  constructor
  · by_contra hcon
    have : k ≤ -2 := by omega
    nlinarith
  · by_contra hcon
    have : 2 ≤ k := by omega
    nlinarith

theorem addSignedSameLen_upd (W : Nat) (ws : List Nat) (neg : Bool) (rhs : List Nat)
    (hw : IsWords W ws) (hr : IsWords W rhs) (hl : ws.length = rhs.length) :
    Upd W ws (addSignedSameLen W ws neg rhs).1 (addSignedSameLen W ws neg rhs).2
      (sgn neg * val W rhs) := by
  unfold addSignedSameLen
  cases neg with
  | true =>
    obtain ⟨s1, s2, s3, _⟩ := subSameLen_spec W ws rhs 0 hw hr hl (by omega)
    generalize subSameLen W ws rhs 0 = res at s1 s2 s3
    obtain ⟨r, c⟩ := res
    simp only [if_true, sgn]
    refine ⟨s2, s3, ?_⟩
    have := congrArg (Nat.cast : Nat → Int) s1
    push_cast at this ⊢
    linarith
  | false =>
    obtain ⟨s1, s2, s3, _⟩ := addSameLen_spec W ws rhs 0 hw hr hl (by omega)
    generalize addSameLen W ws rhs 0 = res at s1 s2 s3
    obtain ⟨r, c⟩ := res
    simp only [Bool.false_eq_true, if_false, sgn]
    refine ⟨s2, s3, ?_⟩
    have := congrArg (Nat.cast : Nat → Int) s1
    push_cast at this ⊢
    linarith

theorem addSignedInPlace_upd (W : Nat) (ws : List Nat) (neg : Bool) (rhs : List Nat)
    (hw : IsWords W ws) (hr : IsWords W rhs) (hl : rhs.length ≤ ws.length) :
    Upd W ws (addSignedInPlace W ws neg rhs).1 (addSignedInPlace W ws neg rhs).2
      (sgn neg * val W rhs) := by
  unfold addSignedInPlace
  cases neg with
  | true =>
    obtain ⟨s1, s2, s3, _⟩ := subInPlace_spec W ws rhs hw hr hl
    generalize subInPlace W ws rhs = res at s1 s2 s3
    obtain ⟨r, c⟩ := res
    simp only [if_true, sgn]
    refine ⟨s2, s3, ?_⟩
    have := congrArg (Nat.cast : Nat → Int) s1
    push_cast at this ⊢
    linarith
  | false =>
    obtain ⟨s1, s2, s3, _⟩ := addInPlace_spec W ws rhs hw hr hl
    generalize addInPlace W ws rhs = res at s1 s2 s3
    obtain ⟨r, c⟩ := res
    simp only [Bool.false_eq_true, if_false, sgn]
    refine ⟨s2, s3, ?_⟩
    have := congrArg (Nat.cast : Nat → Int) s1
    push_cast at this ⊢
    linarith

/-- `add_signed_word_in_place` for a signed word of magnitude `< 2^W` -/
theorem addSignedWord_upd (W : Nat) (ws : List Nat) (rhs : Int) (hw : IsWords W ws)
    (hr : |rhs| < (2 : Int) ^ W) :
    Upd W ws (addSignedWord W ws rhs).1 (addSignedWord W ws rhs).2 rhs := by
  unfold addSignedWord
  obtain ⟨r1, r2⟩ := abs_lt.mp hr
  split
  · rename_i h
    rcases h with h | h
    · subst h; exact ⟨rfl, hw, by simp⟩
    · subst h; exact ⟨rfl, hw, by simp⟩
  · rename_i h
    have hne : ws ≠ [] := fun e => h (Or.inr e)
    split
    · rename_i hpos
      have hlt : rhs.toNat < 2 ^ W := by
        have : ((rhs.toNat : Nat) : Int) < ((2 ^ W : Nat) : Int) := by
          rw [Int.toNat_of_nonneg (by omega)]; push_cast; exact r2
        exact_mod_cast this
      obtain ⟨o1, o2, o3, _⟩ := addWord_spec W ws rhs.toNat hw hlt hne
      generalize addWord W ws rhs.toNat = res at o1 o2 o3
      obtain ⟨r, c⟩ := res
      refine ⟨o2, o3, ?_⟩
      have := congrArg (Nat.cast : Nat → Int) o1
      push_cast at this ⊢
      rw [Int.toNat_of_nonneg (by omega)] at this
      linarith
    · rename_i hpos
      have hlt : (-rhs).toNat < 2 ^ W := by
        have : (((-rhs).toNat : Nat) : Int) < ((2 ^ W : Nat) : Int) := by
          rw [Int.toNat_of_nonneg (by omega)]; push_cast; omega
        exact_mod_cast this
      obtain ⟨o1, o2, o3, _⟩ := subWord_spec W ws (-rhs).toNat hw hlt hne
      generalize subWord W ws (-rhs).toNat = res at o1 o2 o3
      obtain ⟨r, c⟩ := res
      refine ⟨o2, o3, ?_⟩
      have := congrArg (Nat.cast : Nat → Int) o1
      push_cast at this ⊢
      rw [Int.toNat_of_nonneg (by omega)] at this
      linarith

-- ------------------------------------------------------------------ windows

theorem window_length (c : List Nat) (i j : Nat) (hj : j ≤ c.length) :
    (window c i j).length = j - i := by
  unfold window; rw [List.length_drop, length_take_of_le hj]

theorem window_words {W : Nat} {c : List Nat} (h : IsWords W c) (i j : Nat) :
    IsWords W (window c i j) := (h.take j).drop i

/-- replacing the window `c[i..j]` by the result of an update with increment `δ` and carry `k`:
    the whole slice changes by `B^i·δ − B^j·k` (the carry is still to be applied at position `j`) -/
theorem setWindow_upd (W : Nat) (c : List Nat) (i j : Nat) (hij : i ≤ j) (hj : j ≤ c.length)
    (hc : IsWords W c) (w' : List Nat) (k δ : Int) (h : Upd W (window c i j) w' k δ) :
    (setWindow c i w').length = c.length ∧ IsWords W (setWindow c i w') ∧
    (val W (setWindow c i w') : Int)
      = (val W c : Int) + (2 : Int) ^ (W * i) * δ - (2 : Int) ^ (W * j) * k := by
  obtain ⟨h1, h2, h3⟩ := h
  have hwl := window_length c i j hj
  rw [hwl] at h1 h3
  have hti : (c.take i).length = i := length_take_of_le (by omega)
  have hdecomp : c = c.take i ++ (window c i j ++ c.drop j) := by
    unfold window
    have e1 : c.take j = (c.take j).take i ++ (c.take j).drop i := (List.take_append_drop i _).symm
    have e2 : (c.take j).take i = c.take i := by rw [List.take_take]; congr 1; omega
    calc c = c.take j ++ c.drop j := (List.take_append_drop j c).symm
      _ = ((c.take j).take i ++ (c.take j).drop i) ++ c.drop j := by rw [← e1]
      _ = c.take i ++ ((c.take j).drop i ++ c.drop j) := by rw [e2, List.append_assoc]
  have hv : (val W c : Int) = val W (c.take i)
      + (2 : Int) ^ (W * i) * (val W (window c i j) + (2 : Int) ^ (W * (j - i)) * val W (c.drop j)) := by
    conv => lhs; rw [hdecomp]
    rw [val_append, val_append, hti, hwl]; push_cast; ring
  have hsw : setWindow c i w' = c.take i ++ (w' ++ c.drop j) := by
    unfold setWindow; rw [h1, List.append_assoc]; congr 3; omega
  have hpow : (2 : Int) ^ (W * j) = (2 : Int) ^ (W * i) * (2 : Int) ^ (W * (j - i)) := by
    rw [← pow_add, ← Nat.mul_add]; congr 2; omega
  refine ⟨?_, ?_, ?_⟩
  · rw [hsw, List.length_append, List.length_append, hti, h1, List.length_drop]; omega
  · rw [hsw]; exact (hc.take i).append (h2.append (hc.drop j))
  · rw [hsw, val_append, val_append, hti, h1, hv, hpow]
    push_cast
    linear_combination (2 : Int) ^ (W * i) * h3

-- ------------------------------------------------------------------ the frontier kernel meets the contract

theorem wordsOfLen_spec (W : Nat) : ∀ (len n : Nat),
    val W (wordsOfLen W len n) = n % 2 ^ (W * len) ∧ (wordsOfLen W len n).length = len ∧
    IsWords W (wordsOfLen W len n) := by
  intro len
  induction len with
  | zero => intro n; simp [wordsOfLen, IsWords.nil, Nat.mod_one]
  | succ len ih =>
    intro n
    obtain ⟨i1, i2, i3⟩ := ih (n / 2 ^ W)
    have hp : 0 < 2 ^ W := Nat.two_pow_pos W
    simp only [wordsOfLen, val_cons, List.length_cons]
    refine ⟨?_, by rw [i2], IsWords.cons (Nat.mod_lt _ hp) i3⟩
    rw [i1, pow_mul_succ, Nat.mod_mul, Nat.add_comm]

/-- the signed-multiply contract every kernel must meet: c += sign·a·b with the signed carry out -/
def MulContract (W : Nat) (K : MulKernel) (c : List Nat) (neg : Bool) (a b : List Nat) : Prop :=
  Upd W c (K c neg a b).1 (K c neg a b).2 (sgn neg * ((val W a * val W b : Nat) : Int))

theorem addSignedMulFrontier_contract (W : Nat) (c : List Nat) (neg : Bool) (a b : List Nat) :
    MulContract W (addSignedMulFrontier W) c neg a b := by
  unfold MulContract addSignedMulFrontier Upd sgn
  simp only
  have hP : (0 : Int) < ((2 ^ (W * c.length) : Nat) : Int) := by positivity
  generalize ((val W c : Int) + (if neg = true then -1 else 1) * ((val W a * val W b : Nat) : Int)) = t
  obtain ⟨w1, w2, w3⟩ := wordsOfLen_spec W c.length (t % ((2 ^ (W * c.length) : Nat) : Int)).toNat
  have hm0 := Int.emod_nonneg t (ne_of_gt hP)
  have hm1 := Int.emod_lt_of_pos t hP
  have hlt : (t % ((2 ^ (W * c.length) : Nat) : Int)).toNat < 2 ^ (W * c.length) := by
    have : (((t % ((2 ^ (W * c.length) : Nat) : Int)).toNat : Nat) : Int)
        < ((2 ^ (W * c.length) : Nat) : Int) := by
      rw [Int.toNat_of_nonneg hm0]; exact hm1
    exact_mod_cast this
  refine ⟨w2, w3, ?_⟩
  rw [w1, Nat.mod_eq_of_lt hlt, Int.toNat_of_nonneg hm0]
  have := Int.emod_add_mul_ediv t ((2 ^ (W * c.length) : Nat) : Int)
  push_cast at this ⊢
  linarith

theorem addSignedMulChunk_contract (W : Nat) (c : List Nat) (neg : Bool) (a b : List Nat)
    (hl : c.length = a.length + b.length) (hc : IsWords W c) (ha : IsWords W a)
    (hb : IsWords W b) : MulContract W (addSignedMulChunk W) c neg a b := by
  obtain ⟨s1, s2, s3, _⟩ := addSignedMulChunk_spec W c neg a b hl hc ha hb
  refine ⟨s2, s3, ?_⟩
  rw [s1]; unfold sgn; push_cast; ring


-- ====================================================================== Karatsuba, chunk splitting, dispatch

/- `karatsubaSameLen` as a chain of one-step functions (definitionally the same program, see
   `karatsubaSameLen_eq`); each step is proved separately against the window-update contract. -/

def kara7 (W mid : Nat) (c : List Nat) (carry carryC1 : Int) : List Nat × Int :=
  let (w6, k6) := addSignedWord W (c.drop (3 * mid)) carryC1
  let c := setWindow c (3 * mid) w6
  (c, carry + k6)

def kara6 (W mid : Nat) (c : List Nat) (carry carryC0 carryC1 : Int) : List Nat × Int :=
  let (w5, k5) := addSignedWord W (window c (2 * mid) (3 * mid)) carryC0
  let c := setWindow c (2 * mid) w5
  kara7 W mid c carry (carryC1 + k5)

def kara5 (W : Nat) (rec : MulKernel) (mid : Nat) (c : List Nat) (neg' : Bool)
    (aDiff bDiff : List Nat) (carry carryC0 carryC1 : Int) : List Nat × Int :=
  let (w4, k4) := rec (window c mid (3 * mid)) neg' aDiff bDiff
  let c := setWindow c mid w4
  kara6 W mid c carry carryC0 (carryC1 + k4)

def kara4 (W : Nat) (rec : MulKernel) (mid : Nat) (c : List Nat) (neg : Bool) (cHi : List Nat)
    (neg' : Bool) (aDiff bDiff : List Nat) (carry carryC0 carryC1 : Int) : List Nat × Int :=
  let (w3, k3) := addSignedInPlace W (window c mid (3 * mid)) neg cHi
  let c := setWindow c mid w3
  kara5 W rec mid c neg' aDiff bDiff carry carryC0 (carryC1 + k3)

def kara3 (W : Nat) (rec : MulKernel) (mid : Nat) (c : List Nat) (neg : Bool) (cHi : List Nat)
    (neg' : Bool) (aDiff bDiff : List Nat) (carryC0 carryC1 : Int) : List Nat × Int :=
  let (w2, k2) := addSignedSameLen W (c.drop (2 * mid)) neg cHi
  let c := setWindow c (2 * mid) w2
  kara4 W rec mid c neg cHi neg' aDiff bDiff k2 carryC0 carryC1

def kara2 (W : Nat) (rec : MulKernel) (mid : Nat) (c : List Nat) (neg : Bool) (cLo cHi : List Nat)
    (neg' : Bool) (aDiff bDiff : List Nat) (carryC0 : Int) : List Nat × Int :=
  let (w1, k1) := addSignedSameLen W (window c mid (3 * mid)) neg cLo
  let c := setWindow c mid w1
  kara3 W rec mid c neg cHi neg' aDiff bDiff carryC0 k1

def kara1 (W : Nat) (rec : MulKernel) (mid : Nat) (c : List Nat) (neg : Bool) (cLo cHi : List Nat)
    (neg' : Bool) (aDiff bDiff : List Nat) : List Nat × Int :=
  let (w0, k0) := addSignedSameLen W (window c 0 (2 * mid)) neg cLo
  let c := setWindow c 0 w0
  kara2 W rec mid c neg cLo cHi neg' aDiff bDiff k0

theorem karatsubaSameLen_eq (W : Nat) (rec : MulKernel) (c : List Nat) (neg : Bool) (a b : List Nat) :
    karatsubaSameLen W rec c neg a b =
      kara1 W rec ((a.length + 1) / 2) c neg
        (rec (List.replicate (2 * ((a.length + 1) / 2)) 0) false (a.take ((a.length + 1) / 2))
          (b.take ((a.length + 1) / 2))).1
        (rec (List.replicate (2 * (a.length - (a.length + 1) / 2)) 0) false
          (a.drop ((a.length + 1) / 2)) (b.drop ((a.length + 1) / 2))).1
        (!(neg != ((subInPlaceWithSign W (a.take ((a.length + 1) / 2)) (a.drop ((a.length + 1) / 2))).1
            != (subInPlaceWithSign W (b.take ((a.length + 1) / 2)) (b.drop ((a.length + 1) / 2))).1)))
        (subInPlaceWithSign W (a.take ((a.length + 1) / 2)) (a.drop ((a.length + 1) / 2))).2
        (subInPlaceWithSign W (b.take ((a.length + 1) / 2)) (b.drop ((a.length + 1) / 2))).2 := by
  rfl

-- ------------------------------------------------------------------ generic chaining

theorem drop_eq_window (c : List Nat) (i : Nat) : c.drop i = window c i c.length := by
  unfold window; rw [List.take_length]

theorem abs_sgn_mul (neg : Bool) (x : Nat) : |sgn neg * (x : Int)| = (x : Int) := by
  cases neg <;> simp [sgn]

theorem two_le_pow_int (W : Nat) (n : Nat) (hW : 1 ≤ W) (hn : 1 ≤ n) : (1 : Int) < (2 : Int) ^ (W * n) := by
  have : (1 : Nat) < 2 ^ (W * n) := Nat.one_lt_two_pow (Nat.mul_ne_zero (by omega) (by omega))
  exact_mod_cast this

theorem eight_le_pow_int (W : Nat) (hW : 3 ≤ W) : (8 : Int) ≤ (2 : Int) ^ W := by
  have : 2 ^ 3 ≤ 2 ^ W := Nat.pow_le_pow_right (by omega) hW
  exact_mod_cast this

/-- chain an update of the window `c[i..j]` with a contract for the rest of the computation -/
theorem upd_step (W : Nat) (c : List Nat) (i j : Nat) (hij : i ≤ j) (hj : j ≤ c.length)
    (hc : IsWords W c) (w' : List Nat) (k δ : Int) (h : Upd W (window c i j) w' k δ)
    (r : List Nat × Int) (X : Int) (hr : Upd W (setWindow c i w') r.1 r.2 X) :
    Upd W c r.1 r.2 (X + (2 : Int) ^ (W * i) * δ - (2 : Int) ^ (W * j) * k) := by
  obtain ⟨s1, s2, s3⟩ := setWindow_upd W c i j hij hj hc w' k δ h
  obtain ⟨r1, r2, r3⟩ := hr
  refine ⟨by rw [r1, s1], r2, ?_⟩
  rw [s1] at r3
  rw [r3, s3]; ring

-- ------------------------------------------------------------------ Karatsuba, step by step

theorem kara7_spec (W mid : Nat) (hW : 3 ≤ W) (c : List Nat) (carry carryC1 : Int) (hc : IsWords W c)
    (h3 : 3 * mid ≤ c.length) (hk1 : -4 ≤ carryC1) (hk2 : carryC1 ≤ 4) :
    Upd W c (kara7 W mid c carry carryC1).1 (kara7 W mid c carry carryC1).2
      ((2 : Int) ^ (W * (3 * mid)) * carryC1 + (2 : Int) ^ (W * c.length) * carry) := by
  have h8 := eight_le_pow_int W hW
  have hu := addSignedWord_upd W (c.drop (3 * mid)) carryC1 (hc.drop _)
    (abs_lt.mpr ⟨by linarith, by linarith⟩)
  simp only [kara7]
  generalize addSignedWord W (c.drop (3 * mid)) carryC1 = res at hu
  obtain ⟨w6, k6⟩ := res
  rw [drop_eq_window] at hu
  obtain ⟨s1, s2, s3⟩ := setWindow_upd W c (3 * mid) c.length h3 (Nat.le_refl _) hc w6 k6 carryC1 hu
  refine ⟨s1, s2, ?_⟩
  simp only
  rw [s3]; ring

theorem kara6_spec (W mid : Nat) (hW : 3 ≤ W) (hmid : 1 ≤ mid) (c : List Nat)
    (carry carryC0 carryC1 : Int) (hc : IsWords W c) (h3 : 3 * mid ≤ c.length)
    (h01 : -1 ≤ carryC0) (h02 : carryC0 ≤ 1) (hk1 : -3 ≤ carryC1) (hk2 : carryC1 ≤ 3) :
    Upd W c (kara6 W mid c carry carryC0 carryC1).1 (kara6 W mid c carry carryC0 carryC1).2
      ((2 : Int) ^ (W * (2 * mid)) * carryC0 + (2 : Int) ^ (W * (3 * mid)) * carryC1
        + (2 : Int) ^ (W * c.length) * carry) := by
  have h8 := eight_le_pow_int W hW
  have hwl := window_length c (2 * mid) (3 * mid) h3
  have hww := window_words hc (2 * mid) (3 * mid)
  have hu := addSignedWord_upd W (window c (2 * mid) (3 * mid)) carryC0 hww
    (abs_lt.mpr ⟨by linarith, by linarith⟩)
  have hp := two_le_pow_int W (3 * mid - 2 * mid) (by omega) (by omega)
  have hb := hu.carry_bound hww (by rw [hwl]; exact abs_lt.mpr ⟨by linarith, by linarith⟩)
  simp only [kara6]
  generalize addSignedWord W (window c (2 * mid) (3 * mid)) carryC0 = res at hu hb
  obtain ⟨w5, k5⟩ := res
  simp only at hu hb ⊢
  obtain ⟨s1, s2, _⟩ := setWindow_upd W c (2 * mid) (3 * mid) (by omega) h3 hc w5 k5 carryC0 hu
  have h7 := kara7_spec W mid hW (setWindow c (2 * mid) w5) carry (carryC1 + k5) s2 (by rw [s1]; exact h3)
    (by linarith [hb.1]) (by linarith [hb.2])
  have := upd_step W c (2 * mid) (3 * mid) (by omega) h3 hc w5 k5 carryC0 hu _ _ h7
  rw [s1] at this
  refine ⟨this.1, this.2.1, ?_⟩
  rw [this.2.2]; ring


/-- same-length contract of a recursive callee -/
def SameLenContract (W : Nat) (K : MulKernel) : Prop :=
  ∀ c neg a b, a.length = b.length → c.length = a.length + b.length → IsWords W c →
    IsWords W a → IsWords W b → MulContract W K c neg a b

theorem mul_lt_pow_int (W : Nat) (x y : List Nat) (hx : IsWords W x) (hy : IsWords W y) (n : Nat)
    (hn : x.length + y.length ≤ n) :
    ((val W x * val W y : Nat) : Int) < (2 : Int) ^ (W * n) := by
  have h1 := val_lt W x hx
  have h2 := val_lt W y hy
  have h3 : val W x * val W y < 2 ^ (W * x.length) * 2 ^ (W * y.length) := Nat.mul_lt_mul'' h1 h2
  rw [← Nat.pow_add, ← Nat.mul_add] at h3
  have h4 : 2 ^ (W * (x.length + y.length)) ≤ 2 ^ (W * n) :=
    Nat.pow_le_pow_right (by omega) (Nat.mul_le_mul_left _ hn)
  have : val W x * val W y < 2 ^ (W * n) := Nat.lt_of_lt_of_le h3 h4
  exact_mod_cast this

theorem kara5_spec (W : Nat) (rec : MulKernel) (hrec : SameLenContract W rec) (mid : Nat) (hW : 3 ≤ W)
    (hmid : 1 ≤ mid) (c : List Nat) (neg' : Bool) (aDiff bDiff : List Nat)
    (carry carryC0 carryC1 : Int) (hc : IsWords W c) (h3 : 3 * mid ≤ c.length)
    (hda : aDiff.length = mid) (hdb : bDiff.length = mid) (hwa : IsWords W aDiff)
    (hwb : IsWords W bDiff)
    (h01 : -1 ≤ carryC0) (h02 : carryC0 ≤ 1) (hk1 : -2 ≤ carryC1) (hk2 : carryC1 ≤ 2) :
    Upd W c (kara5 W rec mid c neg' aDiff bDiff carry carryC0 carryC1).1
      (kara5 W rec mid c neg' aDiff bDiff carry carryC0 carryC1).2
      ((2 : Int) ^ (W * mid) * (sgn neg' * ((val W aDiff * val W bDiff : Nat) : Int))
        + (2 : Int) ^ (W * (2 * mid)) * carryC0 + (2 : Int) ^ (W * (3 * mid)) * carryC1
        + (2 : Int) ^ (W * c.length) * carry) := by
  have hwl := window_length c mid (3 * mid) h3
  have hww := window_words hc mid (3 * mid)
  have hu : Upd W (window c mid (3 * mid)) _ _ _ := hrec (window c mid (3 * mid)) neg' aDiff bDiff
    (by rw [hda, hdb]) (by rw [hwl, hda, hdb]; omega) hww hwa hwb
  have hb := hu.carry_bound hww (by
    rw [abs_sgn_mul]; exact mul_lt_pow_int W aDiff bDiff hwa hwb _ (by rw [hwl, hda, hdb]; omega))
  simp only [kara5]
  generalize rec (window c mid (3 * mid)) neg' aDiff bDiff = res at hu hb
  obtain ⟨w4, k4⟩ := res
  simp only at hu hb ⊢
  obtain ⟨s1, s2, _⟩ := setWindow_upd W c mid (3 * mid) (by omega) h3 hc w4 k4 _ hu
  have h6 := kara6_spec W mid hW hmid (setWindow c mid w4) carry carryC0 (carryC1 + k4) s2
    (by rw [s1]; exact h3) h01 h02 (by linarith [hb.1]) (by linarith [hb.2])
  have := upd_step W c mid (3 * mid) (by omega) h3 hc w4 k4 _ hu _ _ h6
  rw [s1] at this
  refine ⟨this.1, this.2.1, ?_⟩
  rw [this.2.2]; ring

theorem kara4_spec (W : Nat) (rec : MulKernel) (hrec : SameLenContract W rec) (mid : Nat) (hW : 3 ≤ W)
    (hmid : 1 ≤ mid) (c : List Nat) (neg : Bool) (cHi : List Nat) (neg' : Bool)
    (aDiff bDiff : List Nat) (carry carryC0 carryC1 : Int) (hc : IsWords W c)
    (h3 : 3 * mid ≤ c.length) (hhi : cHi.length ≤ 2 * mid) (hwhi : IsWords W cHi)
    (hda : aDiff.length = mid) (hdb : bDiff.length = mid) (hwa : IsWords W aDiff)
    (hwb : IsWords W bDiff)
    (h01 : -1 ≤ carryC0) (h02 : carryC0 ≤ 1) (hk1 : -1 ≤ carryC1) (hk2 : carryC1 ≤ 1) :
    Upd W c (kara4 W rec mid c neg cHi neg' aDiff bDiff carry carryC0 carryC1).1
      (kara4 W rec mid c neg cHi neg' aDiff bDiff carry carryC0 carryC1).2
      ((2 : Int) ^ (W * mid) * (sgn neg * (val W cHi : Int)
          + sgn neg' * ((val W aDiff * val W bDiff : Nat) : Int))
        + (2 : Int) ^ (W * (2 * mid)) * carryC0 + (2 : Int) ^ (W * (3 * mid)) * carryC1
        + (2 : Int) ^ (W * c.length) * carry) := by
  have hwl := window_length c mid (3 * mid) h3
  have hww := window_words hc mid (3 * mid)
  have hu := addSignedInPlace_upd W (window c mid (3 * mid)) neg cHi hww hwhi (by rw [hwl]; omega)
  have hb := hu.carry_bound hww (by
    rw [abs_sgn_mul, hwl]
    have h1 := val_lt W cHi hwhi
    have h2 : 2 ^ (W * cHi.length) ≤ 2 ^ (W * (3 * mid - mid)) :=
      Nat.pow_le_pow_right (by omega) (Nat.mul_le_mul_left _ (by omega))
    have : val W cHi < 2 ^ (W * (3 * mid - mid)) := Nat.lt_of_lt_of_le h1 h2
    exact_mod_cast this)
  simp only [kara4]
  generalize addSignedInPlace W (window c mid (3 * mid)) neg cHi = res at hu hb
  obtain ⟨w3, k3⟩ := res
  simp only at hu hb ⊢
  obtain ⟨s1, s2, _⟩ := setWindow_upd W c mid (3 * mid) (by omega) h3 hc w3 k3 _ hu
  have h5 := kara5_spec W rec hrec mid hW hmid (setWindow c mid w3) neg' aDiff bDiff carry carryC0
    (carryC1 + k3) s2 (by rw [s1]; exact h3) hda hdb hwa hwb h01 h02 (by linarith [hb.1])
    (by linarith [hb.2])
  have := upd_step W c mid (3 * mid) (by omega) h3 hc w3 k3 _ hu _ _ h5
  rw [s1] at this
  refine ⟨this.1, this.2.1, ?_⟩
  rw [this.2.2]; ring

theorem kara3_spec (W : Nat) (rec : MulKernel) (hrec : SameLenContract W rec) (mid : Nat) (hW : 3 ≤ W)
    (hmid : 1 ≤ mid) (c : List Nat) (neg : Bool) (cHi : List Nat) (neg' : Bool)
    (aDiff bDiff : List Nat) (carryC0 carryC1 : Int) (hc : IsWords W c)
    (h3 : 3 * mid ≤ c.length) (h4 : c.length ≤ 4 * mid) (hhi : cHi.length + 2 * mid = c.length) (hwhi : IsWords W cHi)
    (hda : aDiff.length = mid) (hdb : bDiff.length = mid) (hwa : IsWords W aDiff)
    (hwb : IsWords W bDiff)
    (h01 : -1 ≤ carryC0) (h02 : carryC0 ≤ 1) (hk1 : -1 ≤ carryC1) (hk2 : carryC1 ≤ 1) :
    Upd W c (kara3 W rec mid c neg cHi neg' aDiff bDiff carryC0 carryC1).1
      (kara3 W rec mid c neg cHi neg' aDiff bDiff carryC0 carryC1).2
      ((2 : Int) ^ (W * mid) * (sgn neg * (val W cHi : Int)
          + sgn neg' * ((val W aDiff * val W bDiff : Nat) : Int))
        + (2 : Int) ^ (W * (2 * mid)) * (sgn neg * (val W cHi : Int) + carryC0)
        + (2 : Int) ^ (W * (3 * mid)) * carryC1) := by
  have hwl := window_length c (2 * mid) c.length (Nat.le_refl _)
  have hww := window_words hc (2 * mid) c.length
  have hu := addSignedSameLen_upd W (c.drop (2 * mid)) neg cHi (hc.drop _) hwhi
    (by rw [List.length_drop]; omega)
  simp only [kara3]
  generalize addSignedSameLen W (c.drop (2 * mid)) neg cHi = res at hu
  obtain ⟨w2, k2⟩ := res
  rw [drop_eq_window] at hu
  simp only at hu ⊢
  obtain ⟨s1, s2, _⟩ := setWindow_upd W c (2 * mid) c.length (by omega) (Nat.le_refl _) hc w2 k2 _ hu
  have h4 := kara4_spec W rec hrec mid hW hmid (setWindow c (2 * mid) w2) neg cHi neg' aDiff bDiff k2
    carryC0 carryC1 s2 (by rw [s1]; exact h3) (by omega) hwhi hda hdb hwa hwb h01 h02 hk1 hk2
  have := upd_step W c (2 * mid) c.length (by omega) (Nat.le_refl _) hc w2 k2 _ hu _ _ h4
  rw [s1] at this
  refine ⟨this.1, this.2.1, ?_⟩
  rw [this.2.2]; ring

theorem kara2_spec (W : Nat) (rec : MulKernel) (hrec : SameLenContract W rec) (mid : Nat) (hW : 3 ≤ W)
    (hmid : 1 ≤ mid) (c : List Nat) (neg : Bool) (cLo cHi : List Nat) (neg' : Bool)
    (aDiff bDiff : List Nat) (carryC0 : Int) (hc : IsWords W c)
    (h3 : 3 * mid ≤ c.length) (h4 : c.length ≤ 4 * mid) (hlo : cLo.length = 2 * mid) (hwlo : IsWords W cLo)
    (hhi : cHi.length + 2 * mid = c.length) (hwhi : IsWords W cHi)
    (hda : aDiff.length = mid) (hdb : bDiff.length = mid) (hwa : IsWords W aDiff)
    (hwb : IsWords W bDiff) (h01 : -1 ≤ carryC0) (h02 : carryC0 ≤ 1) :
    Upd W c (kara2 W rec mid c neg cLo cHi neg' aDiff bDiff carryC0).1
      (kara2 W rec mid c neg cLo cHi neg' aDiff bDiff carryC0).2
      ((2 : Int) ^ (W * mid) * (sgn neg * (val W cLo : Int) + sgn neg * (val W cHi : Int)
          + sgn neg' * ((val W aDiff * val W bDiff : Nat) : Int))
        + (2 : Int) ^ (W * (2 * mid)) * (sgn neg * (val W cHi : Int) + carryC0)) := by
  have hwl := window_length c mid (3 * mid) h3
  have hww := window_words hc mid (3 * mid)
  have hu := addSignedSameLen_upd W (window c mid (3 * mid)) neg cLo hww hwlo (by rw [hwl, hlo]; omega)
  have hb := hu.carry_bound hww (by
    rw [abs_sgn_mul, hwl]
    have h1 := val_lt W cLo hwlo
    rw [hlo] at h1
    have : 3 * mid - mid = 2 * mid := by omega
    rw [this]
    exact_mod_cast h1)
  simp only [kara2]
  generalize addSignedSameLen W (window c mid (3 * mid)) neg cLo = res at hu hb
  obtain ⟨w1, k1⟩ := res
  simp only at hu hb ⊢
  obtain ⟨s1, s2, _⟩ := setWindow_upd W c mid (3 * mid) (by omega) h3 hc w1 k1 _ hu
  have h3' := kara3_spec W rec hrec mid hW hmid (setWindow c mid w1) neg cHi neg' aDiff bDiff carryC0 k1
    s2 (by rw [s1]; exact h3) (by rw [s1]; exact h4) (by rw [s1]; exact hhi) hwhi hda hdb hwa hwb h01 h02 hb.1 hb.2
  have := upd_step W c mid (3 * mid) (by omega) h3 hc w1 k1 _ hu _ _ h3'
  refine ⟨this.1, this.2.1, ?_⟩
  rw [this.2.2]; ring

theorem kara1_spec (W : Nat) (rec : MulKernel) (hrec : SameLenContract W rec) (mid : Nat) (hW : 3 ≤ W)
    (hmid : 1 ≤ mid) (c : List Nat) (neg : Bool) (cLo cHi : List Nat) (neg' : Bool)
    (aDiff bDiff : List Nat) (hc : IsWords W c)
    (h3 : 3 * mid ≤ c.length) (h4 : c.length ≤ 4 * mid) (hlo : cLo.length = 2 * mid) (hwlo : IsWords W cLo)
    (hhi : cHi.length + 2 * mid = c.length) (hwhi : IsWords W cHi)
    (hda : aDiff.length = mid) (hdb : bDiff.length = mid) (hwa : IsWords W aDiff)
    (hwb : IsWords W bDiff) :
    Upd W c (kara1 W rec mid c neg cLo cHi neg' aDiff bDiff).1
      (kara1 W rec mid c neg cLo cHi neg' aDiff bDiff).2
      (sgn neg * (val W cLo : Int)
        + (2 : Int) ^ (W * mid) * (sgn neg * (val W cLo : Int) + sgn neg * (val W cHi : Int)
          + sgn neg' * ((val W aDiff * val W bDiff : Nat) : Int))
        + (2 : Int) ^ (W * (2 * mid)) * (sgn neg * (val W cHi : Int))) := by
  have hwl := window_length c 0 (2 * mid) (by omega)
  have hww := window_words hc 0 (2 * mid)
  have hu := addSignedSameLen_upd W (window c 0 (2 * mid)) neg cLo hww hwlo (by rw [hwl, hlo]; omega)
  have hb := hu.carry_bound hww (by
    rw [abs_sgn_mul, hwl]
    have h1 := val_lt W cLo hwlo
    rw [hlo] at h1
    exact_mod_cast h1)
  simp only [kara1]
  generalize addSignedSameLen W (window c 0 (2 * mid)) neg cLo = res at hu hb
  obtain ⟨w0, k0⟩ := res
  simp only at hu hb ⊢
  obtain ⟨s1, s2, _⟩ := setWindow_upd W c 0 (2 * mid) (by omega) (by omega) hc w0 k0 _ hu
  have h2 := kara2_spec W rec hrec mid hW hmid (setWindow c 0 w0) neg cLo cHi neg' aDiff bDiff k0
    s2 (by rw [s1]; exact h3) (by rw [s1]; exact h4) hlo hwlo (by rw [s1]; exact hhi) hwhi hda hdb hwa hwb hb.1 hb.2
  have := upd_step W c 0 (2 * mid) (by omega) (by omega) hc w0 k0 _ hu _ _ h2
  refine ⟨this.1, this.2.1, ?_⟩
  rw [this.2.2]; simp only [Nat.mul_zero, pow_zero]; ring


theorem val_replicate_zero (W n : Nat) : val W (List.replicate n 0) = 0 := by
  induction n with
  | zero => rfl
  | succ n ih => simp [List.replicate_succ, ih]

theorem isWords_replicate_zero (W n : Nat) : IsWords W (List.replicate n 0) := by
  intro x hx; rw [List.eq_of_mem_replicate hx]; exact Nat.two_pow_pos W

/-- a product accumulated into a zero-filled scratch buffer of sufficient length: the carry is zero
    (`debug_assert_zero!`) and the buffer holds the product -/
theorem upd_zero_product (W n : Nat) (r : List Nat) (k : Int) (x : Nat)
    (h : Upd W (List.replicate n 0) r k (sgn false * (x : Int)))
    (hx : (x : Int) < (2 : Int) ^ (W * n)) : k = 0 ∧ val W r = x ∧ r.length = n ∧ IsWords W r := by
  obtain ⟨h1, h2, h3⟩ := h
  simp only [List.length_replicate, val_replicate_zero, sgn, Bool.false_eq_true, if_false,
    Nat.cast_zero, zero_add, one_mul] at h1 h3
  have l2 := val_lt_int W r h2
  rw [h1] at l2
  have n2 : (0 : Int) ≤ val W r := Int.natCast_nonneg _
  have n3 : (0 : Int) ≤ (x : Int) := Int.natCast_nonneg _
  have hk : k = 0 := by
    by_contra hne
    rcases lt_or_gt_of_ne hne with hlt | hgt
    · have : k ≤ -1 := by omega
      nlinarith
    · have : 1 ≤ k := by omega
      nlinarith
  subst hk
  refine ⟨rfl, ?_, h1, h2⟩
  have : (val W r : Int) = x := by linarith
  exact_mod_cast this

theorem sgn_diff (W : Nat) (x y : List Nat) (hx : IsWords W x) (hy : IsWords W y)
    (hl : y.length ≤ x.length) :
    (subInPlaceWithSign W x y).2.length = x.length ∧ IsWords W (subInPlaceWithSign W x y).2 ∧
    sgn (subInPlaceWithSign W x y).1 * (val W (subInPlaceWithSign W x y).2 : Int)
      = (val W x : Int) - val W y := by
  obtain ⟨s1, s2, s3, s4⟩ := subInPlaceWithSign_spec W x y hx hy hl
  refine ⟨s1, s2, ?_⟩
  generalize subInPlaceWithSign W x y = res at s3 s4
  obtain ⟨sg, d⟩ := res
  cases sg with
  | false => have := s3 rfl; simp only [sgn] at *; simp; omega
  | true => have := (s4 rfl).1; simp only [sgn] at *; simp; omega

theorem sgn_karatsuba (neg sa sb : Bool) :
    sgn (!(neg != (sa != sb))) = -(sgn neg * sgn sa * sgn sb) := by
  cases neg <;> cases sa <;> cases sb <;> simp [sgn]

/-- **Karatsuba** (`karatsuba::add_signed_mul_same_len`): if the recursive callee meets the
    same-length contract then so does one Karatsuba level, for every `n ≥ 2` -/
theorem karatsubaSameLen_contract (W : Nat) (hW : 3 ≤ W) (rec : MulKernel)
    (hrec : SameLenContract W rec) (c : List Nat) (neg : Bool) (a b : List Nat)
    (hab : a.length = b.length) (hn : 2 ≤ a.length) (hcl : c.length = a.length + b.length)
    (hc : IsWords W c) (ha : IsWords W a) (hb : IsWords W b) :
    MulContract W (karatsubaSameLen W rec) c neg a b := by
  unfold MulContract
  rw [karatsubaSameLen_eq]
  generalize hmid : (a.length + 1) / 2 = mid
  have hm1 : 1 ≤ mid := by omega
  have hm2 : mid ≤ a.length := by omega
  have hm3 : 3 * mid ≤ c.length := by omega
  have hm4 : c.length ≤ 4 * mid := by omega
  have hal : (a.take mid).length = mid := length_take_of_le hm2
  have hbl : (b.take mid).length = mid := length_take_of_le (by omega)
  have had : (a.drop mid).length = a.length - mid := List.length_drop ..
  have hbd : (b.drop mid).length = a.length - mid := by rw [List.length_drop]; omega
  -- c_lo = a_lo * b_lo
  have hlo := hrec (List.replicate (2 * mid) 0) false (a.take mid) (b.take mid) (by rw [hal, hbl])
    (by rw [List.length_replicate, hal, hbl]; omega) (isWords_replicate_zero W _) (ha.take _) (hb.take _)
  obtain ⟨_, vlo, llo, wlo⟩ := upd_zero_product W (2 * mid) _ _ _ hlo
    (mul_lt_pow_int W _ _ (ha.take _) (hb.take _) _ (by rw [hal, hbl]; omega))
  -- c_hi = a_hi * b_hi
  have hhi := hrec (List.replicate (2 * (a.length - mid)) 0) false (a.drop mid) (b.drop mid)
    (by rw [had, hbd]) (by rw [List.length_replicate, had, hbd]; omega) (isWords_replicate_zero W _)
    (ha.drop _) (hb.drop _)
  obtain ⟨_, vhi, lhi, whi⟩ := upd_zero_product W (2 * (a.length - mid)) _ _ _ hhi
    (mul_lt_pow_int W _ _ (ha.drop _) (hb.drop _) _ (by rw [had, hbd]; omega))
  -- the differences
  obtain ⟨dal, daw, dav⟩ := sgn_diff W (a.take mid) (a.drop mid) (ha.take _) (ha.drop _)
    (by rw [hal, had]; omega)
  obtain ⟨dbl, dbw, dbv⟩ := sgn_diff W (b.take mid) (b.drop mid) (hb.take _) (hb.drop _)
    (by rw [hbl, hbd]; omega)
  have h1 := kara1_spec W rec hrec mid hW hm1 c neg _ _
    (!(neg != ((subInPlaceWithSign W (a.take mid) (a.drop mid)).1
      != (subInPlaceWithSign W (b.take mid) (b.drop mid)).1)))
    _ _ hc hm3 hm4 llo wlo (by rw [lhi]; omega) whi (by rw [dal, hal]) (by rw [dbl, hbl]) daw dbw
  refine ⟨h1.1, h1.2.1, ?_⟩
  rw [h1.2.2, vlo, vhi, sgn_karatsuba]
  have hva := val_take_add_drop W a mid
  have hvb := val_take_add_drop W b mid
  rw [hal] at hva
  rw [hbl] at hvb
  have hpow : (2 : Int) ^ (W * (2 * mid)) = (2 : Int) ^ (W * mid) * (2 : Int) ^ (W * mid) := by
    rw [← pow_add]; congr 1; ring
  rw [hva, hvb, hpow]
  push_cast
  generalize (val W (a.take mid) : Int) = aLo at *
  generalize (val W (a.drop mid) : Int) = aHi at *
  generalize (val W (b.take mid) : Int) = bLo at *
  generalize (val W (b.drop mid) : Int) = bHi at *
  generalize sgn (subInPlaceWithSign W (a.take mid) (a.drop mid)).1 = sa at *
  generalize sgn (subInPlaceWithSign W (b.take mid) (b.drop mid)).1 = sb at *
  generalize (val W (subInPlaceWithSign W (a.take mid) (a.drop mid)).2 : Int) = dA at *
  generalize (val W (subInPlaceWithSign W (b.take mid) (b.drop mid)).2 : Int) = dB at *
  generalize (2 : Int) ^ (W * mid) = Bm
  generalize sgn neg = s
  have e : sa * sb * (dA * dB) = (aLo - aHi) * (bLo - bHi) := by rw [← dav, ← dbv]; ring
  linear_combination (-(s * Bm)) * e


-- ====================================================================== Toom-3: scratch values

/-- an update whose exact result fits the window has carry zero -/
theorem upd_exact (W : Nat) (c r : List Nat) (k δ : Int) (h : Upd W c r k δ)
    (h0 : 0 ≤ (val W c : Int) + δ) (h1 : (val W c : Int) + δ < (2 : Int) ^ (W * c.length)) :
    k = 0 ∧ (val W r : Int) = val W c + δ ∧ r.length = c.length ∧ IsWords W r := by
  obtain ⟨l1, l2, l3⟩ := h
  have b2 := val_lt_int W r l2
  rw [l1] at b2
  have n2 : (0 : Int) ≤ val W r := Int.natCast_nonneg _
  have hk : k = 0 := by
    by_contra hne
    rcases lt_or_gt_of_ne hne with hlt | hgt
    · have : k ≤ -1 := by omega
      nlinarith
    · have : 1 ≤ k := by omega
      nlinarith
  subst hk
  exact ⟨rfl, by linarith, l1, l2⟩

/-- `t = v·m` extended by the carry word and `extra` zero words (`t1[2n3] = mul_word_in_place(t1_short, 3);
    t1[2n3+1] = 0`, `c_eval[2·n3_short] = mul_word_in_place(c_short, 12)`) -/
theorem mulWord_extend (W : Nat) (v : List Nat) (m : Nat) (hv : IsWords W v) (hm : m < 2 ^ W) :
    val W ((mulWordInPlace W v m 0).1 ++ [(mulWordInPlace W v m 0).2]) = val W v * m ∧
    ((mulWordInPlace W v m 0).1 ++ [(mulWordInPlace W v m 0).2]).length = v.length + 1 ∧
    IsWords W ((mulWordInPlace W v m 0).1 ++ [(mulWordInPlace W v m 0).2]) ∧
    val W ((mulWordInPlace W v m 0).1 ++ [(mulWordInPlace W v m 0).2, 0]) = val W v * m ∧
    ((mulWordInPlace W v m 0).1 ++ [(mulWordInPlace W v m 0).2, 0]).length = v.length + 2 ∧
    IsWords W ((mulWordInPlace W v m 0).1 ++ [(mulWordInPlace W v m 0).2, 0]) := by
  obtain ⟨s1, s2, s3, s4⟩ := mulWordInPlace_spec W v m 0 hv hm (Nat.two_pow_pos W)
  generalize mulWordInPlace W v m 0 = res at s1 s2 s3 s4
  obtain ⟨r, c⟩ := res
  simp only at s1 s2 s3 s4 ⊢
  have hz : (0 : Nat) < 2 ^ W := Nat.two_pow_pos W
  refine ⟨?_, by simp [s2], s3.append (IsWords.cons s4 (IsWords.nil W)), ?_, by simp [s2],
    s3.append (IsWords.cons s4 (IsWords.cons hz (IsWords.nil W)))⟩
  · rw [val_append, s2]; simp only [val_cons, val_nil, Nat.mul_zero, Nat.add_zero]; omega
  · rw [val_append, s2]; simp only [val_cons, val_nil, Nat.mul_zero, Nat.add_zero]; omega

theorem toomEval2_spec (W : Nat) (hW : 3 ≤ W) (a0 a1 a2 : List Nat) (h0 : IsWords W a0)
    (h1 : IsWords W a1) (h2 : IsWords W a2) (hl1 : a0.length = a1.length)
    (hl2 : a2.length ≤ a0.length) :
    val W (toomEval2 W a0 a1 a2) = val W a0 + 2 * val W a1 + 4 * val W a2 ∧
    (toomEval2 W a0 a1 a2).length = a0.length + 1 ∧ IsWords W (toomEval2 W a0 a1 a2) := by
  have h8 : 2 ^ 3 ≤ 2 ^ W := Nat.pow_le_pow_right (by omega) hW
  obtain ⟨s1, s2, s3, s4⟩ := addMulWordSameLen_spec W a0 2 a1 h0 h1 hl1 (by omega)
  simp only [toomEval2]
  generalize addMulWordSameLen W a0 2 a1 = res at s1 s2 s3 s4
  obtain ⟨e1, k1⟩ := res
  simp only at s1 s2 s3 s4 ⊢
  obtain ⟨t1, t2, t3, t4⟩ := addMulWordInPlace_spec W e1 4 a2 s3 h2 (by omega) (by omega)
  generalize addMulWordInPlace W e1 4 a2 = res2 at t1 t2 t3 t4
  obtain ⟨e2, k2⟩ := res2
  simp only at t1 t2 t3 t4 ⊢
  have b0 := val_lt W a0 h0
  have b1 := val_lt W a1 h1
  have b2 := val_lt W a2 h2
  have be1 := val_lt W e1 s3
  have hx : 2 ^ (W * a2.length) ≤ 2 ^ (W * a0.length) :=
    Nat.pow_le_pow_right (by omega) (Nat.mul_le_mul_left _ hl2)
  rw [s2] at t1 be1
  rw [← hl1] at b1
  have hk1 : k1 ≤ 2 := by
    by_contra hc
    have : 2 ^ (W * a0.length) * 3 ≤ 2 ^ (W * a0.length) * k1 := Nat.mul_le_mul_left _ (by omega)
    omega
  have hk2 : k2 ≤ 4 := by
    by_contra hc
    have : 2 ^ (W * a0.length) * 5 ≤ 2 ^ (W * a0.length) * k2 := Nat.mul_le_mul_left _ (by omega)
    omega
  refine ⟨?_, by simp [t2, s2], t3.append (IsWords.cons (by omega) (IsWords.nil W))⟩
  rw [val_append, t2, s2]
  simp only [val_cons, val_nil, Nat.mul_zero, Nat.add_zero]
  rw [Nat.mul_add]
  omega

theorem toomEval02_spec (W : Nat) (hW : 1 ≤ W) (a0 a2 : List Nat) (h0 : IsWords W a0)
    (h2 : IsWords W a2) (hl : a2.length ≤ a0.length) :
    val W (toomEval02 W a0 a2) = val W a0 + val W a2 ∧
    (toomEval02 W a0 a2).length = a0.length + 1 ∧ IsWords W (toomEval02 W a0 a2) := by
  obtain ⟨s1, s2, s3, s4⟩ := addInPlace_spec W a0 a2 h0 h2 hl
  simp only [toomEval02]
  generalize addInPlace W a0 a2 = res at s1 s2 s3 s4
  obtain ⟨s, k⟩ := res
  simp only at s1 s2 s3 s4 ⊢
  have h1 : (1 : Nat) < 2 ^ W := Nat.one_lt_two_pow (by omega)
  refine ⟨?_, by simp [s2], s3.append (IsWords.cons (by omega) (IsWords.nil W))⟩
  rw [val_append, s2]
  simp only [val_cons, val_nil, Nat.mul_zero, Nat.add_zero]
  exact s1

theorem val_snoc_split (W : Nat) (l : List Nat) (n : Nat) (h : l.length = n + 1) :
    val W l = val W (l.take n) + 2 ^ (W * n) * l.getD n 0 := by
  have h1 := val_take_add_drop W l n
  rw [length_take_of_le (by omega), drop_eq_getD_cons l n (by omega)] at h1
  have : l.drop (n + 1) = [] := List.drop_eq_nil_of_le (by omega)
  rw [this] at h1
  simpa using h1

theorem toomEval1_spec (W : Nat) (hW : 2 ≤ W) (a02 a1 : List Nat) (h02 : IsWords W a02)
    (h1 : IsWords W a1) (hl : a02.length = a1.length + 1) (htop : a02.getD a1.length 0 ≤ 1) :
    val W (toomEval1 W a02 a1) = val W a02 + val W a1 ∧
    (toomEval1 W a02 a1).length = a1.length + 1 ∧ IsWords W (toomEval1 W a02 a1) := by
  have hsp := val_snoc_split W a02 a1.length hl
  have htl : (a02.take a1.length).length = a1.length := length_take_of_le (by omega)
  obtain ⟨s1, s2, s3, s4⟩ := addSameLen_spec W (a02.take a1.length) a1 0 (h02.take _) h1 htl (by omega)
  simp only [toomEval1]
  generalize addSameLen W (a02.take a1.length) a1 0 = res at s1 s2 s3 s4
  obtain ⟨s, k⟩ := res
  simp only at s1 s2 s3 s4 ⊢
  rw [htl] at s1 s2
  have h4 : 2 ^ 2 ≤ 2 ^ W := Nat.pow_le_pow_right (by omega) hW
  refine ⟨?_, by simp [s2], s3.append (IsWords.cons (by omega) (IsWords.nil W))⟩
  rw [val_append, s2, hsp]
  simp only [val_cons, val_nil, Nat.mul_zero, Nat.add_zero]
  rw [Nat.mul_add]
  omega

/-- the top word of `a02 = a0 + a2` is the carry bit -/
theorem toomEval02_top (W : Nat) (a0 a2 : List Nat) (h0 : IsWords W a0) (h2 : IsWords W a2)
    (hl : a2.length ≤ a0.length) : (toomEval02 W a0 a2).getD a0.length 0 ≤ 1 := by
  obtain ⟨_, s2, _, s4⟩ := addInPlace_spec W a0 a2 h0 h2 hl
  simp only [toomEval02]
  generalize addInPlace W a0 a2 = res at s2 s4
  obtain ⟨s, k⟩ := res
  simp only at s2 s4 ⊢
  rw [List.getD_eq_getElem?_getD, List.getElem?_append_right (by omega)]
  simp [s2]; exact s4


theorem sgn_bne (sa sb : Bool) : sgn (sa != sb) = sgn sa * sgn sb := by
  cases sa <;> cases sb <;> simp [sgn]

theorem pow_two_succ_succ (W n3 : Nat) (hW : 3 ≤ W) :
    64 * (2 ^ (W * n3) * 2 ^ (W * n3)) ≤ 2 ^ (W * (2 * n3 + 2)) := by
  have h1 : 2 ^ (W * (2 * n3 + 2)) = 2 ^ (W * n3) * 2 ^ (W * n3) * (2 ^ W * 2 ^ W) := by
    rw [← Nat.pow_add, ← Nat.pow_add, ← Nat.pow_add]; congr 1; ring
  have h8 : 2 ^ 3 ≤ 2 ^ W := Nat.pow_le_pow_right (by omega) hW
  have h64 : 64 ≤ 2 ^ W * 2 ^ W := by
    have := Nat.mul_le_mul h8 h8
    simpa using this
  rw [h1, Nat.mul_comm 64]
  exact Nat.mul_le_mul_left _ h64

set_option maxHeartbeats 1000000 in
/-- every scratch buffer of Toom-3 (before the two exact divisions) holds the value the interpolation formulas
    promise; all the asserted-zero carries / borrows / remainders are zero on the way -/
theorem toomScratchPre_spec (W : Nat) (hW : 4 ≤ W) (rec : MulKernel) (hrec : SameLenContract W rec)
    (a b : List Nat) (hab : a.length = b.length) (hn : 16 ≤ a.length) (ha : IsWords W a)
    (hb : IsWords W b) (n3 : Nat) (hn3 : n3 = (a.length + 2) / 3)
    (A0 A1 A2 B0 B1 B2 : Nat)
    (hA0 : A0 = val W (a.take n3)) (hA1 : A1 = val W ((a.drop n3).take n3))
    (hA2 : A2 = val W (a.drop (2 * n3)))
    (hB0 : B0 = val W (b.take n3)) (hB1 : B1 = val W ((b.drop n3).take n3))
    (hB2 : B2 = val W (b.drop (2 * n3))) :
    ((toomScratchPre W rec a b).v0.length = 2 * n3 ∧ IsWords W (toomScratchPre W rec a b).v0 ∧
      val W (toomScratchPre W rec a b).v0 = A0 * B0) ∧
    ((toomScratchPre W rec a b).vinf.length = 2 * (a.length - 2 * n3) ∧
      IsWords W (toomScratchPre W rec a b).vinf ∧ val W (toomScratchPre W rec a b).vinf = A2 * B2) ∧
    ((toomScratchPre W rec a b).t2a.length = 2 * n3 + 2 ∧ IsWords W (toomScratchPre W rec a b).t2a ∧
      val W (toomScratchPre W rec a b).t2a = (A0 + A1 + A2) * (B0 + B1 + B2)) ∧
    ((toomScratchPre W rec a b).t1.length = 2 * n3 + 2 ∧ IsWords W (toomScratchPre W rec a b).t1 ∧
      val W (toomScratchPre W rec a b).t1
        = 6 * (A0 * B0 + (A0 * B2 + A1 * B1 + A2 * B0) + (A1 * B2 + A2 * B1) + A2 * B2)) ∧
    ((toomScratchPre W rec a b).t2.length = 2 * n3 + 2 ∧ IsWords W (toomScratchPre W rec a b).t2 ∧
      val W (toomScratchPre W rec a b).t2 = 2 * (A0 * B0 + (A0 * B2 + A1 * B1 + A2 * B0) + A2 * B2)) := by
  -- lengths of the six parts
  have g1 : 2 * n3 ≤ a.length := by omega
  have g2 : a.length - 2 * n3 ≤ n3 := by omega
  have g3 : 1 ≤ n3 := by omega
  have la0 : (a.take n3).length = n3 := length_take_of_le (by omega)
  have lb0 : (b.take n3).length = n3 := length_take_of_le (by omega)
  have la1 : ((a.drop n3).take n3).length = n3 := length_take_of_le (by rw [List.length_drop]; omega)
  have lb1 : ((b.drop n3).take n3).length = n3 := length_take_of_le (by rw [List.length_drop]; omega)
  have la2 : (a.drop (2 * n3)).length = a.length - 2 * n3 := List.length_drop ..
  have lb2 : (b.drop (2 * n3)).length = a.length - 2 * n3 := by rw [List.length_drop, hab]
  have wa0 := ha.take n3
  have wb0 := hb.take n3
  have wa1 := (ha.drop n3).take n3
  have wb1 := (hb.drop n3).take n3
  have wa2 := ha.drop (2 * n3)
  have wb2 := hb.drop (2 * n3)
  -- size bounds: every part is below x = B^n3
  have xa0 := val_lt W _ wa0
  have xb0 := val_lt W _ wb0
  have xa1 := val_lt W _ wa1
  have xb1 := val_lt W _ wb1
  have xa2 := val_lt W _ wa2
  have xb2 := val_lt W _ wb2
  have hx2 : 2 ^ (W * (a.length - 2 * n3)) ≤ 2 ^ (W * n3) :=
    Nat.pow_le_pow_right (by omega) (Nat.mul_le_mul_left _ g2)
  rw [la0, ← hA0] at xa0
  rw [lb0, ← hB0] at xb0
  rw [la1, ← hA1] at xa1
  rw [lb1, ← hB1] at xb1
  rw [la2, ← hA2] at xa2
  rw [lb2, ← hB2] at xb2
  have xa2' : A2 < 2 ^ (W * n3) := Nat.lt_of_lt_of_le xa2 hx2
  have xb2' : B2 < 2 ^ (W * n3) := Nat.lt_of_lt_of_le xb2 hx2
  have h64 := pow_two_succ_succ W n3 (by omega)
  have hP : ((2 : Int) ^ (W * (2 * n3 + 2))) = ((2 ^ (W * (2 * n3 + 2)) : Nat) : Int) := by push_cast; rfl
  -- products of parts are below x²
  have p00 := Nat.mul_lt_mul'' xa0 xb0
  have p01 := Nat.mul_lt_mul'' xa0 xb1
  have p02 := Nat.mul_lt_mul'' xa0 xb2'
  have p10 := Nat.mul_lt_mul'' xa1 xb0
  have p11 := Nat.mul_lt_mul'' xa1 xb1
  have p12 := Nat.mul_lt_mul'' xa1 xb2'
  have p20 := Nat.mul_lt_mul'' xa2' xb0
  have p21 := Nat.mul_lt_mul'' xa2' xb1
  have p22 := Nat.mul_lt_mul'' xa2' xb2'
  generalize hX : 2 ^ (W * n3) * 2 ^ (W * n3) = X at *
  simp only [toomScratchPre, ← hn3]
  -- V(0)
  have c0 := hrec (List.replicate (2 * n3) 0) false (a.take n3) (b.take n3) (by rw [la0, lb0])
    (by rw [List.length_replicate, la0, lb0]; omega) (isWords_replicate_zero W _) wa0 wb0
  obtain ⟨_, v0v, v0l, v0w⟩ := upd_zero_product W (2 * n3) _ _ _ c0
    (mul_lt_pow_int W _ _ wa0 wb0 _ (by rw [la0, lb0]; omega))
  rw [← hA0, ← hB0] at v0v
  generalize (rec (List.replicate (2 * n3) 0) false (a.take n3) (b.take n3)).1 = v0 at v0v v0l v0w ⊢
  -- t1 = 3 V(0)
  obtain ⟨_, _, _, t1av, t1al, t1aw⟩ := mulWord_extend W v0 3 v0w
    (Nat.lt_of_lt_of_le (by decide) (Nat.pow_le_pow_right (by omega) (by omega) : 2 ^ 3 ≤ 2 ^ W))
  rw [v0v] at t1av
  rw [v0l] at t1al
  generalize (mulWordInPlace W v0 3 0).1 ++ [(mulWordInPlace W v0 3 0).2, 0] = t1a at t1av t1al t1aw ⊢
  -- evaluation at 2
  obtain ⟨e2av, e2al, e2aw⟩ := toomEval2_spec W (by omega) (a.take n3) ((a.drop n3).take n3) (a.drop (2 * n3))
    wa0 wa1 wa2 (by rw [la0, la1]) (by rw [la0, la2]; exact g2)
  obtain ⟨e2bv, e2bl, e2bw⟩ := toomEval2_spec W (by omega) (b.take n3) ((b.drop n3).take n3) (b.drop (2 * n3))
    wb0 wb1 wb2 (by rw [lb0, lb1]) (by rw [lb0, lb2]; exact g2)
  rw [← hA0, ← hA1, ← hA2] at e2av
  rw [la0] at e2al
  rw [← hB0, ← hB1, ← hB2] at e2bv
  rw [lb0] at e2bl
  generalize toomEval2 W (a.take n3) ((a.drop n3).take n3) (a.drop (2 * n3)) = e2a at e2av e2al e2aw ⊢
  generalize toomEval2 W (b.take n3) ((b.drop n3).take n3) (b.drop (2 * n3)) = e2b at e2bv e2bl e2bw ⊢
  -- t1 += V(2)
  have hV2 : (A0 + 2 * A1 + 4 * A2) * (B0 + 2 * B1 + 4 * B2)
      = A0 * B0 + 2 * (A0 * B1) + 4 * (A0 * B2) + 2 * (A1 * B0) + 4 * (A1 * B1) + 8 * (A1 * B2)
        + 4 * (A2 * B0) + 8 * (A2 * B1) + 16 * (A2 * B2) := by ring
  have c1 := hrec t1a false e2a e2b (by rw [e2al, e2bl]) (by rw [t1al, e2al, e2bl]; omega) t1aw e2aw e2bw
  obtain ⟨_, t1bv, t1bl, t1bw⟩ := upd_exact W t1a _ _ _ c1
    (by rw [t1av]; simp only [sgn, Bool.false_eq_true, if_false, one_mul]; positivity)
    (by rw [t1av, t1al, hP]; simp only [sgn, Bool.false_eq_true, if_false, one_mul]
        rw [e2av, e2bv, hV2]; norm_cast; omega)
  rw [t1av, e2av, e2bv] at t1bv
  rw [t1al] at t1bl
  simp only [sgn, Bool.false_eq_true, if_false, one_mul] at t1bv
  generalize (rec t1a false e2a e2b).1 = t1b at t1bv t1bl t1bw ⊢
  -- V(inf)
  have c2 := hrec (List.replicate (2 * (a.length - 2 * n3)) 0) false (a.drop (2 * n3)) (b.drop (2 * n3))
    (by rw [la2, lb2]) (by rw [List.length_replicate, la2, lb2]; omega) (isWords_replicate_zero W _) wa2 wb2
  obtain ⟨_, viv, vil, viw⟩ := upd_zero_product W (2 * (a.length - 2 * n3)) _ _ _ c2
    (mul_lt_pow_int W _ _ wa2 wb2 _ (by rw [la2, lb2]; omega))
  rw [← hA2, ← hB2] at viv
  generalize (rec (List.replicate (2 * (a.length - 2 * n3)) 0) false (a.drop (2 * n3))
    (b.drop (2 * n3))).1 = vinf at viv vil viw ⊢
  -- 12 V(inf), subtracted from t1
  obtain ⟨c12v, c12l, c12w, _, _, _⟩ := mulWord_extend W vinf 12 viw
    (Nat.lt_of_lt_of_le (by decide) (Nat.pow_le_pow_right (by omega) (by omega) : 2 ^ 4 ≤ 2 ^ W))
  rw [viv] at c12v
  rw [vil] at c12l
  generalize (mulWordInPlace W vinf 12 0).1 ++ [(mulWordInPlace W vinf 12 0).2] = c12 at c12v c12l c12w ⊢
  have hle12 : val W c12 ≤ val W t1b := by
    have h4a : 4 * A2 ≤ A0 + 2 * A1 + 4 * A2 := by omega
    have h4b : 4 * B2 ≤ B0 + 2 * B1 + 4 * B2 := by omega
    have := Nat.mul_le_mul h4a h4b
    have e : 4 * A2 * (4 * B2) = 16 * (A2 * B2) := by ring
    have t1bv' : val W t1b = A0 * B0 * 3 + (A0 + 2 * A1 + 4 * A2) * (B0 + 2 * B1 + 4 * B2) := by
      exact_mod_cast t1bv
    rw [c12v, t1bv']; omega
  have hsl : c12.length ≤ t1b.length := by rw [c12l, t1bl]; omega
  obtain ⟨sb1, sb2, sb3, _⟩ := subInPlace_spec W t1b c12 t1bw c12w hsl
  have sb0 := (subInPlace_borrow_iff W t1b c12 t1bw c12w hsl).mpr hle12
  rw [sb0, Nat.mul_zero, Nat.add_zero, c12v] at sb1
  rw [t1bl] at sb2
  generalize (subInPlace W t1b c12).1 = t1c at sb1 sb2 sb3 ⊢
  -- evaluation at 1
  obtain ⟨a02v, a02l, a02w⟩ := toomEval02_spec W (by omega) (a.take n3) (a.drop (2 * n3)) wa0 wa2
    (by rw [la0, la2]; exact g2)
  obtain ⟨b02v, b02l, b02w⟩ := toomEval02_spec W (by omega) (b.take n3) (b.drop (2 * n3)) wb0 wb2
    (by rw [lb0, lb2]; exact g2)
  have a02t := toomEval02_top W (a.take n3) (a.drop (2 * n3)) wa0 wa2 (by rw [la0, la2]; exact g2)
  have b02t := toomEval02_top W (b.take n3) (b.drop (2 * n3)) wb0 wb2 (by rw [lb0, lb2]; exact g2)
  rw [← hA0, ← hA2] at a02v
  rw [← hB0, ← hB2] at b02v
  rw [la0] at a02l a02t
  rw [lb0] at b02l b02t
  generalize toomEval02 W (a.take n3) (a.drop (2 * n3)) = a02 at a02v a02l a02w a02t ⊢
  generalize toomEval02 W (b.take n3) (b.drop (2 * n3)) = b02 at b02v b02l b02w b02t ⊢
  obtain ⟨e1av, e1al, e1aw⟩ := toomEval1_spec W (by omega) a02 ((a.drop n3).take n3) a02w wa1
    (by rw [a02l, la1]) (by rw [la1]; exact a02t)
  obtain ⟨e1bv, e1bl, e1bw⟩ := toomEval1_spec W (by omega) b02 ((b.drop n3).take n3) b02w wb1
    (by rw [b02l, lb1]) (by rw [lb1]; exact b02t)
  rw [a02v, ← hA1] at e1av
  rw [b02v, ← hB1] at e1bv
  rw [la1] at e1al
  rw [lb1] at e1bl
  generalize toomEval1 W a02 ((a.drop n3).take n3) = e1a at e1av e1al e1aw ⊢
  generalize toomEval1 W b02 ((b.drop n3).take n3) = e1b at e1bv e1bl e1bw ⊢
  -- t2 = V(1)
  have c3 := hrec (List.replicate (2 * n3 + 2) 0) false e1a e1b (by rw [e1al, e1bl])
    (by rw [List.length_replicate, e1al, e1bl]; omega) (isWords_replicate_zero W _) e1aw e1bw
  obtain ⟨_, t2av, t2al, t2aw⟩ := upd_zero_product W (2 * n3 + 2) _ _ _ c3
    (mul_lt_pow_int W _ _ e1aw e1bw _ (by rw [e1al, e1bl]; omega))
  rw [e1av, e1bv] at t2av
  generalize (rec (List.replicate (2 * n3 + 2) 0) false e1a e1b).1 = t2a at t2av t2al t2aw ⊢
  -- V(-1)
  obtain ⟨aml, amw, amv⟩ := sgn_diff W a02 ((a.drop n3).take n3) a02w wa1 (by rw [a02l, la1]; omega)
  obtain ⟨bml, bmw, bmv⟩ := sgn_diff W b02 ((b.drop n3).take n3) b02w wb1 (by rw [b02l, lb1]; omega)
  rw [a02v, ← hA1] at amv
  rw [b02v, ← hB1] at bmv
  rw [a02l] at aml
  rw [b02l] at bml
  generalize subInPlaceWithSign W a02 ((a.drop n3).take n3) = am at aml amw amv ⊢
  generalize subInPlaceWithSign W b02 ((b.drop n3).take n3) = bm at bml bmw bmv ⊢
  have c4 := hrec (List.replicate (2 * (n3 + 1)) 0) false am.2 bm.2 (by rw [aml, bml])
    (by rw [List.length_replicate, aml, bml]; omega) (isWords_replicate_zero W _) amw bmw
  obtain ⟨_, cev, cel, cew⟩ := upd_zero_product W (2 * (n3 + 1)) _ _ _ c4
    (mul_lt_pow_int W _ _ amw bmw _ (by rw [aml, bml]; omega))
  generalize (rec (List.replicate (2 * (n3 + 1)) 0) false am.2 bm.2).1 = cEval at cev cel cew ⊢
  -- the signed value of V(-1)
  have hvm : sgn (am.1 != bm.1) * (val W cEval : Int)
      = ((A0 : Int) + A2 - A1) * ((B0 : Int) + B2 - B1) := by
    rw [sgn_bne, cev]; push_cast
    push_cast at amv bmv
    rw [← amv, ← bmv]; ring
  -- the two interpolation identities
  have id1 : (3 : Int) * (A0 * B0) + ((A0 : Int) + 2 * A1 + 4 * A2) * ((B0 : Int) + 2 * B1 + 4 * B2)
      - 12 * (A2 * B2) + 2 * (((A0 : Int) + A2 - A1) * ((B0 : Int) + B2 - B1))
      = 6 * ((A0 * B0 + (A0 * B2 + A1 * B1 + A2 * B0) + (A1 * B2 + A2 * B1) + A2 * B2 : Nat) : Int) := by
    push_cast; ring
  have id2 : ((A0 : Int) + A2 + A1) * ((B0 : Int) + B2 + B1)
      + ((A0 : Int) + A2 - A1) * ((B0 : Int) + B2 - B1)
      = 2 * ((A0 * B0 + (A0 * B2 + A1 * B1 + A2 * B0) + A2 * B2 : Nat) : Int) := by
    push_cast; ring
  -- t2 += V(-1)
  have u5 := addSignedSameLen_upd W t2a (am.1 != bm.1) cEval t2aw cew (by rw [t2al, cel]; omega)
  obtain ⟨_, t2bv, t2bl, t2bw⟩ := upd_exact W t2a _ _ _ u5
    (by rw [t2av, hvm]; push_cast; rw [id2]; positivity)
    (by rw [t2av, hvm, t2al, hP]; push_cast; rw [id2]; norm_cast; omega)
  rw [t2av, hvm] at t2bv
  push_cast at t2bv
  rw [id2] at t2bv
  rw [t2al] at t2bl
  generalize (addSignedSameLen W t2a (am.1 != bm.1) cEval).1 = t2b at t2bv t2bl t2bw ⊢
  -- t1 += 2 V(-1)
  have t1cv : (val W t1c : Int) = 3 * (A0 * B0)
      + ((A0 : Int) + 2 * A1 + 4 * A2) * ((B0 : Int) + 2 * B1 + 4 * B2) - 12 * (A2 * B2) := by
    have := congrArg (Nat.cast : Nat → Int) sb1
    have h2 := t1bv
    push_cast at this h2
    linarith
  have h2w : 2 < 2 ^ W :=
    Nat.lt_of_lt_of_le (by decide) (Nat.pow_le_pow_right (by omega) (by omega) : 2 ^ 2 ≤ 2 ^ W)
  have t1dv : ∃ t1d, (if (am.1 != bm.1) = true then (subMulWordSameLen W t1c 2 cEval).1
        else (addMulWordSameLen W t1c 2 cEval).1) = t1d ∧ t1d.length = 2 * n3 + 2 ∧ IsWords W t1d ∧
      val W t1d = 6 * (A0 * B0 + (A0 * B2 + A1 * B1 + A2 * B0) + (A1 * B2 + A2 * B1) + A2 * B2) := by
    have hT : A0 * B0 + (A0 * B2 + A1 * B1 + A2 * B0) + (A1 * B2 + A2 * B1) + A2 * B2 < 7 * X := by omega
    by_cases hv : (am.1 != bm.1) = true
    · rw [if_pos hv]
      rw [hv] at hvm
      obtain ⟨q1, q2, q3, q4⟩ := subMulWordSameLen_spec W t1c 2 cEval sb3 cew (by rw [sb2, cel]; omega) h2w
      refine ⟨_, rfl, by rw [q2, sb2], q3, ?_⟩
      have blt := val_lt W _ q3
      rw [q2, sb2] at blt
      rw [sb2] at q1
      generalize (subMulWordSameLen W t1c 2 cEval).1 = r at q1 blt ⊢
      generalize (subMulWordSameLen W t1c 2 cEval).2 = bw at q1 ⊢
      have q1' := congrArg (Nat.cast : Nat → Int) q1
      push_cast at q1'
      simp only [sgn, if_true] at hvm
      have key : (val W r : Int) + 0 = 6 * ((A0 * B0 + (A0 * B2 + A1 * B1 + A2 * B0)
          + (A1 * B2 + A2 * B1) + A2 * B2 : Nat) : Int)
          + ((2 ^ (W * (2 * n3 + 2)) : Nat) : Int) * bw := by
        rw [← id1]; push_cast; linarith
      have hbw : bw = 0 := by
        rcases Nat.eq_zero_or_pos bw with h | h
        · exact h
        · exfalso
          have : 2 ^ (W * (2 * n3 + 2)) ≤ 2 ^ (W * (2 * n3 + 2)) * bw := Nat.le_mul_of_pos_right _ h
          have key' : val W r = 6 * (A0 * B0 + (A0 * B2 + A1 * B1 + A2 * B0)
              + (A1 * B2 + A2 * B1) + A2 * B2) + 2 ^ (W * (2 * n3 + 2)) * bw := by
            have := key; simp only [add_zero] at this; exact_mod_cast this
          omega
      subst hbw
      simp only [Nat.cast_zero, mul_zero, add_zero] at key
      exact_mod_cast key
    · rw [if_neg hv]
      have hv' : (am.1 != bm.1) = false := by simpa using hv
      rw [hv'] at hvm
      obtain ⟨q1, q2, q3, q4⟩ := addMulWordSameLen_spec W t1c 2 cEval sb3 cew (by rw [sb2, cel]; omega) h2w
      refine ⟨_, rfl, by rw [q2, sb2], q3, ?_⟩
      rw [sb2] at q1
      generalize (addMulWordSameLen W t1c 2 cEval).1 = r at q1 ⊢
      generalize (addMulWordSameLen W t1c 2 cEval).2 = cw at q1 ⊢
      have q1' := congrArg (Nat.cast : Nat → Int) q1
      push_cast at q1'
      simp only [sgn, Bool.false_eq_true, if_false, one_mul] at hvm
      have key : (val W r : Int) + ((2 ^ (W * (2 * n3 + 2)) : Nat) : Int) * cw
          = 6 * ((A0 * B0 + (A0 * B2 + A1 * B1 + A2 * B0) + (A1 * B2 + A2 * B1) + A2 * B2 : Nat) : Int) := by
        rw [← id1]; push_cast; linarith
      have key' : val W r + 2 ^ (W * (2 * n3 + 2)) * cw = 6 * (A0 * B0 + (A0 * B2 + A1 * B1 + A2 * B0)
          + (A1 * B2 + A2 * B1) + A2 * B2) := by exact_mod_cast key
      have hcw : cw = 0 := by
        rcases Nat.eq_zero_or_pos cw with h | h
        · exact h
        · exfalso
          have : 2 ^ (W * (2 * n3 + 2)) ≤ 2 ^ (W * (2 * n3 + 2)) * cw := Nat.le_mul_of_pos_right _ h
          omega
      subst hcw
      simpa using key'
  obtain ⟨t1d, t1de, t1dl, t1dw, t1dv'⟩ := t1dv
  rw [t1de]
  have t2bv' : val W t2b = 2 * (A0 * B0 + (A0 * B2 + A1 * B1 + A2 * B0) + A2 * B2) := by
    exact_mod_cast t2bv
  exact ⟨⟨v0l, v0w, v0v⟩, ⟨vil, viw, viv⟩, ⟨t2al, t2aw, by rw [t2av]; ring⟩, ⟨t1dl, t1dw, t1dv'⟩,
    ⟨t2bl, t2bw, t2bv'⟩⟩

/-- every scratch buffer of Toom-3 that is added into `c` holds the value the interpolation formulas
    promise -/
theorem toomScratch_spec (W : Nat) (hW : 4 ≤ W) (rec : MulKernel) (hrec : SameLenContract W rec)
    (a b : List Nat) (hab : a.length = b.length) (hn : 16 ≤ a.length) (ha : IsWords W a)
    (hb : IsWords W b) (n3 : Nat) (hn3 : n3 = (a.length + 2) / 3)
    (A0 A1 A2 B0 B1 B2 : Nat)
    (hA0 : A0 = val W (a.take n3)) (hA1 : A1 = val W ((a.drop n3).take n3))
    (hA2 : A2 = val W (a.drop (2 * n3)))
    (hB0 : B0 = val W (b.take n3)) (hB1 : B1 = val W ((b.drop n3).take n3))
    (hB2 : B2 = val W (b.drop (2 * n3))) :
    ((toomScratch W rec a b).v0.length = 2 * n3 ∧ IsWords W (toomScratch W rec a b).v0 ∧
      val W (toomScratch W rec a b).v0 = A0 * B0) ∧
    ((toomScratch W rec a b).vinf.length = 2 * (a.length - 2 * n3) ∧
      IsWords W (toomScratch W rec a b).vinf ∧ val W (toomScratch W rec a b).vinf = A2 * B2) ∧
    ((toomScratch W rec a b).t2a.length = 2 * n3 + 2 ∧ IsWords W (toomScratch W rec a b).t2a ∧
      val W (toomScratch W rec a b).t2a = (A0 + A1 + A2) * (B0 + B1 + B2)) ∧
    ((toomScratch W rec a b).t1.length = 2 * n3 + 2 ∧ IsWords W (toomScratch W rec a b).t1 ∧
      val W (toomScratch W rec a b).t1
        = A0 * B0 + (A0 * B2 + A1 * B1 + A2 * B0) + (A1 * B2 + A2 * B1) + A2 * B2) ∧
    ((toomScratch W rec a b).t2.length = 2 * n3 + 2 ∧ IsWords W (toomScratch W rec a b).t2 ∧
      val W (toomScratch W rec a b).t2 = A0 * B0 + (A0 * B2 + A1 * B1 + A2 * B0) + A2 * B2) := by
  obtain ⟨h0, hi, ha1, ⟨p1l, p1w, p1v⟩, ⟨p2l, p2w, p2v⟩⟩ := toomScratchPre_spec W hW rec hrec a b hab hn ha hb
    n3 hn3 A0 A1 A2 B0 B1 B2 hA0 hA1 hA2 hB0 hB1 hB2
  -- bounds: both quotients fit the 2·n3 + 2 words
  have lt1 := val_lt W _ p1w
  have lt2 := val_lt W _ p2w
  rw [p1l, p1v] at lt1
  rw [p2l, p2v] at lt2
  simp only [toomScratch, ← hn3]
  rw [p1v, p2v, Nat.mul_div_cancel_left _ (by decide : 0 < 6), Nat.mul_div_cancel_left _ (by decide : 0 < 2)]
  obtain ⟨f1v, f1l, f1w⟩ := wordsOfLen_spec W (2 * n3 + 2)
    (A0 * B0 + (A0 * B2 + A1 * B1 + A2 * B0) + (A1 * B2 + A2 * B1) + A2 * B2)
  obtain ⟨f2v, f2l, f2w⟩ := wordsOfLen_spec W (2 * n3 + 2)
    (A0 * B0 + (A0 * B2 + A1 * B1 + A2 * B0) + A2 * B2)
  rw [Nat.mod_eq_of_lt (by omega)] at f1v f2v
  exact ⟨h0, hi, ha1, ⟨f1l, f1w, f1v⟩, ⟨f2l, f2w, f2v⟩⟩

-- ====================================================================== Toom-3: the updates of c, step by step
-- (generated text: thirteen window updates of `toomApply`, each chained with `upd_step`)

def toomK13 (W n3 : Nat) (c : List Nat) (neg : Bool) (cC3 carry : Int) : List Nat × Int :=
  let (w, k) := addSignedWord W (c.drop (5 * n3 + 2)) cC3
  (setWindow c (5 * n3 + 2) w, carry + k)

def toomK12 (W n3 : Nat) (c : List Nat) (neg : Bool) (cC2 cC3 carry : Int) : List Nat × Int :=
  let (w, k) := addSignedWord W (window c (4 * n3 + 2) (5 * n3 + 2)) cC2
  toomK13 W n3 (setWindow c (4 * n3 + 2) w) neg (cC3 + k) carry

def toomK11 (W n3 : Nat) (c : List Nat) (neg : Bool) (cC1 cC2 cC3 carry : Int) : List Nat × Int :=
  let (w, k) := addSignedWord W (window c (3 * n3 + 2) (4 * n3 + 2)) cC1
  toomK12 W n3 (setWindow c (3 * n3 + 2) w) neg (cC2 + k) cC3 carry

def toomK10 (W n3 : Nat) (c : List Nat) (neg : Bool) (cC0 cC1 cC2 cC3 carry : Int) : List Nat × Int :=
  let (w, k) := addSignedWord W (window c (2 * n3) (3 * n3 + 2)) cC0
  toomK11 W n3 (setWindow c (2 * n3) w) neg (cC1 + k) cC2 cC3 carry

def toomK9 (W n3 : Nat) (c : List Nat) (neg : Bool) (t2 : List Nat) (cC0 cC1 cC2 cC3 carry : Int) : List Nat × Int :=
  let (w, k) := addSignedSameLen W (window c (3 * n3) (5 * n3 + 2)) (!neg) t2
  toomK10 W n3 (setWindow c (3 * n3) w) neg cC0 cC1 cC2 (cC3 + k) carry

def toomK8 (W n3 : Nat) (c : List Nat) (neg : Bool) (t2 : List Nat) (cC0 cC1 cC2 cC3 carry : Int) : List Nat × Int :=
  let (w, k) := addSignedSameLen W (window c (2 * n3) (4 * n3 + 2)) neg t2
  toomK9 W n3 (setWindow c (2 * n3) w) neg t2 cC0 cC1 (cC2 + k) cC3 carry

def toomK7 (W n3 : Nat) (c : List Nat) (neg : Bool) (t1 t2 : List Nat) (cC0 cC1 cC2 carry : Int) : List Nat × Int :=
  let (w, k) := addSignedSameLen W (window c (3 * n3) (5 * n3 + 2)) neg t1
  toomK8 W n3 (setWindow c (3 * n3) w) neg t2 cC0 cC1 cC2 k carry

def toomK6 (W n3 : Nat) (c : List Nat) (neg : Bool) (t1 t2 : List Nat) (cC0 cC1 cC2 carry : Int) : List Nat × Int :=
  let (w, k) := addSignedSameLen W (window c (n3) (3 * n3 + 2)) (!neg) t1
  toomK7 W n3 (setWindow c (n3) w) neg t1 t2 cC0 (cC1 + k) cC2 carry

def toomK5 (W n3 : Nat) (c : List Nat) (neg : Bool) (t2a t1 t2 : List Nat) (cC0 cC2 carry : Int) : List Nat × Int :=
  let (w, k) := addSignedInPlace W (window c (n3) (3 * n3 + 2)) neg t2a
  toomK6 W n3 (setWindow c (n3) w) neg t1 t2 cC0 k cC2 carry

def toomK4 (W n3 : Nat) (c : List Nat) (neg : Bool) (vinf t2a t1 t2 : List Nat) (cC0 cC2 : Int) : List Nat × Int :=
  let (w, k) := addSignedSameLen W (c.drop (4 * n3)) neg vinf
  toomK5 W n3 (setWindow c (4 * n3) w) neg t2a t1 t2 cC0 cC2 k

def toomK3 (W n3 : Nat) (c : List Nat) (neg : Bool) (vinf t2a t1 t2 : List Nat) (cC0 cC2 : Int) : List Nat × Int :=
  let (w, k) := addSignedInPlace W (window c (2 * n3) (4 * n3 + 2)) (!neg) vinf
  toomK4 W n3 (setWindow c (2 * n3) w) neg vinf t2a t1 t2 cC0 (cC2 + k)

def toomK2 (W n3 : Nat) (c : List Nat) (neg : Bool) (v0 vinf t2a t1 t2 : List Nat) (cC0 : Int) : List Nat × Int :=
  let (w, k) := addSignedInPlace W (window c (2 * n3) (4 * n3 + 2)) (!neg) v0
  toomK3 W n3 (setWindow c (2 * n3) w) neg vinf t2a t1 t2 cC0 k

def toomK1 (W n3 : Nat) (c : List Nat) (neg : Bool) (v0 vinf t2a t1 t2 : List Nat) : List Nat × Int :=
  let (w, k) := addSignedSameLen W (window c (0) (2 * n3)) neg v0
  toomK2 W n3 (setWindow c (0) w) neg v0 vinf t2a t1 t2 k

theorem toomApply_eq (W n3 : Nat) (c : List Nat) (neg : Bool) (v0 vinf t2a t1 t2 : List Nat) :
    toomApply W n3 c neg v0 vinf t2a t1 t2 = toomK1 W n3 c neg v0 vinf t2a t1 t2 := rfl

theorem list_delta_bound (W : Nat) (neg : Bool) (l : List Nat) (hl : IsWords W l) (m : Nat)
    (h : l.length ≤ m) : |sgn neg * (val W l : Int)| < (2 : Int) ^ (W * m) := by
  rw [abs_sgn_mul]
  have h1 := val_lt W l hl
  have h2 : 2 ^ (W * l.length) ≤ 2 ^ (W * m) := Nat.pow_le_pow_right (by omega) (Nat.mul_le_mul_left _ h)
  have : val W l < 2 ^ (W * m) := Nat.lt_of_lt_of_le h1 h2
  exact_mod_cast this

theorem small_carry_bound (W : Nat) (hW : 4 ≤ W) (x : Int) (h1 : -15 ≤ x) (h2 : x ≤ 15) (m : Nat)
    (hm : 1 ≤ m) : |x| < (2 : Int) ^ (W * m) := by
  have : 2 ^ 4 ≤ 2 ^ (W * m) := Nat.pow_le_pow_right (by omega) (by
    have : W * 1 ≤ W * m := Nat.mul_le_mul_left _ hm
    omega)
  have h16 : (16 : Int) ≤ (2 : Int) ^ (W * m) := by exact_mod_cast this
  exact abs_lt.mpr ⟨by linarith, by linarith⟩

theorem toomK13_spec (W n3 : Nat) (hW : 4 ≤ W) (hn3 : 1 ≤ n3) (c : List Nat) (neg : Bool) (cC3 carry : Int)
    (hc : IsWords W c) (hL : 5 * n3 + 2 ≤ c.length) (hL2 : c.length ≤ 6 * n3) (hb_cC3 : -3 ≤ cC3 ∧ cC3 ≤ 3) :
    Upd W c (toomK13 W n3 c neg cC3 carry).1 (toomK13 W n3 c neg cC3 carry).2
      ((2 : Int) ^ (W * (5 * n3 + 2)) * cC3
        + (2 : Int) ^ (W * (c.length)) * carry) := by
  have hwl := window_length c (5 * n3 + 2) (c.length) (by omega)
  have hww := window_words hc (5 * n3 + 2) (c.length)
  have hu := addSignedWord_upd W (window c (5 * n3 + 2) (c.length)) cC3 hww (by
    have := small_carry_bound W hW cC3 (by omega) (by omega) 1 (by omega)
    simpa using this)
  simp only [toomK13]
  rw [drop_eq_window c (5 * n3 + 2)]
  generalize addSignedWord W (window c (5 * n3 + 2) (c.length)) cC3 = res at hu
  obtain ⟨w, k⟩ := res
  simp only at hu ⊢
  obtain ⟨s1, s2, s3⟩ := setWindow_upd W c (5 * n3 + 2) (c.length) (by omega) (by omega) hc w k _ hu
  refine ⟨s1, s2, ?_⟩
  rw [s3]; ring

theorem toomK12_spec (W n3 : Nat) (hW : 4 ≤ W) (hn3 : 1 ≤ n3) (c : List Nat) (neg : Bool) (cC2 cC3 carry : Int)
    (hc : IsWords W c) (hL : 5 * n3 + 2 ≤ c.length) (hL2 : c.length ≤ 6 * n3) (hb_cC2 : -4 ≤ cC2 ∧ cC2 ≤ 4) (hb_cC3 : -2 ≤ cC3 ∧ cC3 ≤ 2) :
    Upd W c (toomK12 W n3 c neg cC2 cC3 carry).1 (toomK12 W n3 c neg cC2 cC3 carry).2
      ((2 : Int) ^ (W * (4 * n3 + 2)) * cC2
        + (2 : Int) ^ (W * (5 * n3 + 2)) * cC3
        + (2 : Int) ^ (W * (c.length)) * carry) := by
  have hwl := window_length c (4 * n3 + 2) (5 * n3 + 2) (by omega)
  have hww := window_words hc (4 * n3 + 2) (5 * n3 + 2)
  have hu := addSignedWord_upd W (window c (4 * n3 + 2) (5 * n3 + 2)) cC2 hww (by
    have := small_carry_bound W hW cC2 (by omega) (by omega) 1 (by omega)
    simpa using this)
  have hb := hu.carry_bound hww (small_carry_bound W hW cC2 (by omega) (by omega) _ (by rw [hwl]; omega))
  simp only [toomK12]
  generalize addSignedWord W (window c (4 * n3 + 2) (5 * n3 + 2)) cC2 = res at hu hb
  obtain ⟨w, k⟩ := res
  simp only at hu hb ⊢
  obtain ⟨s1, s2, s3⟩ := setWindow_upd W c (4 * n3 + 2) (5 * n3 + 2) (by omega) (by omega) hc w k _ hu
  have hnext := toomK13_spec W n3 hW hn3 (setWindow c (4 * n3 + 2) w) neg (cC3 + k) carry s2 (by rw [s1]; exact hL) (by rw [s1]; exact hL2) ⟨by linarith [hb.1, hb_cC3.1], by linarith [hb.2, hb_cC3.2]⟩
  have := upd_step W c (4 * n3 + 2) (5 * n3 + 2) (by omega) (by omega) hc w k _ hu _ _ hnext
  try simp only [s1] at this
  refine ⟨this.1, this.2.1, ?_⟩
  rw [this.2.2]; ring

theorem toomK11_spec (W n3 : Nat) (hW : 4 ≤ W) (hn3 : 1 ≤ n3) (c : List Nat) (neg : Bool) (cC1 cC2 cC3 carry : Int)
    (hc : IsWords W c) (hL : 5 * n3 + 2 ≤ c.length) (hL2 : c.length ≤ 6 * n3) (hb_cC2 : -3 ≤ cC2 ∧ cC2 ≤ 3) (hb_cC1 : -3 ≤ cC1 ∧ cC1 ≤ 3) (hb_cC3 : -2 ≤ cC3 ∧ cC3 ≤ 2) :
    Upd W c (toomK11 W n3 c neg cC1 cC2 cC3 carry).1 (toomK11 W n3 c neg cC1 cC2 cC3 carry).2
      ((2 : Int) ^ (W * (3 * n3 + 2)) * cC1
        + (2 : Int) ^ (W * (4 * n3 + 2)) * cC2
        + (2 : Int) ^ (W * (5 * n3 + 2)) * cC3
        + (2 : Int) ^ (W * (c.length)) * carry) := by
  have hwl := window_length c (3 * n3 + 2) (4 * n3 + 2) (by omega)
  have hww := window_words hc (3 * n3 + 2) (4 * n3 + 2)
  have hu := addSignedWord_upd W (window c (3 * n3 + 2) (4 * n3 + 2)) cC1 hww (by
    have := small_carry_bound W hW cC1 (by omega) (by omega) 1 (by omega)
    simpa using this)
  have hb := hu.carry_bound hww (small_carry_bound W hW cC1 (by omega) (by omega) _ (by rw [hwl]; omega))
  simp only [toomK11]
  generalize addSignedWord W (window c (3 * n3 + 2) (4 * n3 + 2)) cC1 = res at hu hb
  obtain ⟨w, k⟩ := res
  simp only at hu hb ⊢
  obtain ⟨s1, s2, s3⟩ := setWindow_upd W c (3 * n3 + 2) (4 * n3 + 2) (by omega) (by omega) hc w k _ hu
  have hnext := toomK12_spec W n3 hW hn3 (setWindow c (3 * n3 + 2) w) neg (cC2 + k) cC3 carry s2 (by rw [s1]; exact hL) (by rw [s1]; exact hL2) ⟨by linarith [hb.1, hb_cC2.1], by linarith [hb.2, hb_cC2.2]⟩ hb_cC3
  have := upd_step W c (3 * n3 + 2) (4 * n3 + 2) (by omega) (by omega) hc w k _ hu _ _ hnext
  try simp only [s1] at this
  refine ⟨this.1, this.2.1, ?_⟩
  rw [this.2.2]; ring

theorem toomK10_spec (W n3 : Nat) (hW : 4 ≤ W) (hn3 : 1 ≤ n3) (c : List Nat) (neg : Bool) (cC0 cC1 cC2 cC3 carry : Int)
    (hc : IsWords W c) (hL : 5 * n3 + 2 ≤ c.length) (hL2 : c.length ≤ 6 * n3) (hb_cC0 : -1 ≤ cC0 ∧ cC0 ≤ 1) (hb_cC2 : -3 ≤ cC2 ∧ cC2 ≤ 3) (hb_cC1 : -2 ≤ cC1 ∧ cC1 ≤ 2) (hb_cC3 : -2 ≤ cC3 ∧ cC3 ≤ 2) :
    Upd W c (toomK10 W n3 c neg cC0 cC1 cC2 cC3 carry).1 (toomK10 W n3 c neg cC0 cC1 cC2 cC3 carry).2
      ((2 : Int) ^ (W * (2 * n3)) * cC0
        + (2 : Int) ^ (W * (3 * n3 + 2)) * cC1
        + (2 : Int) ^ (W * (4 * n3 + 2)) * cC2
        + (2 : Int) ^ (W * (5 * n3 + 2)) * cC3
        + (2 : Int) ^ (W * (c.length)) * carry) := by
  have hwl := window_length c (2 * n3) (3 * n3 + 2) (by omega)
  have hww := window_words hc (2 * n3) (3 * n3 + 2)
  have hu := addSignedWord_upd W (window c (2 * n3) (3 * n3 + 2)) cC0 hww (by
    have := small_carry_bound W hW cC0 (by omega) (by omega) 1 (by omega)
    simpa using this)
  have hb := hu.carry_bound hww (small_carry_bound W hW cC0 (by omega) (by omega) _ (by rw [hwl]; omega))
  simp only [toomK10]
  generalize addSignedWord W (window c (2 * n3) (3 * n3 + 2)) cC0 = res at hu hb
  obtain ⟨w, k⟩ := res
  simp only at hu hb ⊢
  obtain ⟨s1, s2, s3⟩ := setWindow_upd W c (2 * n3) (3 * n3 + 2) (by omega) (by omega) hc w k _ hu
  have hnext := toomK11_spec W n3 hW hn3 (setWindow c (2 * n3) w) neg (cC1 + k) cC2 cC3 carry s2 (by rw [s1]; exact hL) (by rw [s1]; exact hL2) hb_cC2 ⟨by linarith [hb.1, hb_cC1.1], by linarith [hb.2, hb_cC1.2]⟩ hb_cC3
  have := upd_step W c (2 * n3) (3 * n3 + 2) (by omega) (by omega) hc w k _ hu _ _ hnext
  try simp only [s1] at this
  refine ⟨this.1, this.2.1, ?_⟩
  rw [this.2.2]; ring

theorem toomK9_spec (W n3 : Nat) (hW : 4 ≤ W) (hn3 : 1 ≤ n3) (c : List Nat) (neg : Bool) (t2 : List Nat) (cC0 cC1 cC2 cC3 carry : Int)
    (hc : IsWords W c) (hL : 5 * n3 + 2 ≤ c.length) (hL2 : c.length ≤ 6 * n3) (hw_t2 : IsWords W t2) (hl_t2 : t2.length = 2 * n3 + 2) (hb_cC0 : -1 ≤ cC0 ∧ cC0 ≤ 1) (hb_cC2 : -3 ≤ cC2 ∧ cC2 ≤ 3) (hb_cC1 : -2 ≤ cC1 ∧ cC1 ≤ 2) (hb_cC3 : -1 ≤ cC3 ∧ cC3 ≤ 1) :
    Upd W c (toomK9 W n3 c neg t2 cC0 cC1 cC2 cC3 carry).1 (toomK9 W n3 c neg t2 cC0 cC1 cC2 cC3 carry).2
      ((2 : Int) ^ (W * (3 * n3)) * (sgn (!neg) * (val W t2 : Int))
        + (2 : Int) ^ (W * (2 * n3)) * cC0
        + (2 : Int) ^ (W * (3 * n3 + 2)) * cC1
        + (2 : Int) ^ (W * (4 * n3 + 2)) * cC2
        + (2 : Int) ^ (W * (5 * n3 + 2)) * cC3
        + (2 : Int) ^ (W * (c.length)) * carry) := by
  have hwl := window_length c (3 * n3) (5 * n3 + 2) (by omega)
  have hww := window_words hc (3 * n3) (5 * n3 + 2)
  have hu := addSignedSameLen_upd W (window c (3 * n3) (5 * n3 + 2)) (!neg) t2 hww hw_t2 (by rw [hwl]; omega)
  have hb := hu.carry_bound hww (list_delta_bound W _ t2 hw_t2 _ (by rw [hwl]; omega))
  simp only [toomK9]
  generalize addSignedSameLen W (window c (3 * n3) (5 * n3 + 2)) (!neg) t2 = res at hu hb
  obtain ⟨w, k⟩ := res
  simp only at hu hb ⊢
  obtain ⟨s1, s2, s3⟩ := setWindow_upd W c (3 * n3) (5 * n3 + 2) (by omega) (by omega) hc w k _ hu
  have hnext := toomK10_spec W n3 hW hn3 (setWindow c (3 * n3) w) neg cC0 cC1 cC2 (cC3 + k) carry s2 (by rw [s1]; exact hL) (by rw [s1]; exact hL2) hb_cC0 hb_cC2 hb_cC1 ⟨by linarith [hb.1, hb_cC3.1], by linarith [hb.2, hb_cC3.2]⟩
  have := upd_step W c (3 * n3) (5 * n3 + 2) (by omega) (by omega) hc w k _ hu _ _ hnext
  try simp only [s1] at this
  refine ⟨this.1, this.2.1, ?_⟩
  rw [this.2.2]; ring

theorem toomK8_spec (W n3 : Nat) (hW : 4 ≤ W) (hn3 : 1 ≤ n3) (c : List Nat) (neg : Bool) (t2 : List Nat) (cC0 cC1 cC2 cC3 carry : Int)
    (hc : IsWords W c) (hL : 5 * n3 + 2 ≤ c.length) (hL2 : c.length ≤ 6 * n3) (hw_t2 : IsWords W t2) (hl_t2 : t2.length = 2 * n3 + 2) (hb_cC0 : -1 ≤ cC0 ∧ cC0 ≤ 1) (hb_cC2 : -2 ≤ cC2 ∧ cC2 ≤ 2) (hb_cC1 : -2 ≤ cC1 ∧ cC1 ≤ 2) (hb_cC3 : -1 ≤ cC3 ∧ cC3 ≤ 1) :
    Upd W c (toomK8 W n3 c neg t2 cC0 cC1 cC2 cC3 carry).1 (toomK8 W n3 c neg t2 cC0 cC1 cC2 cC3 carry).2
      ((2 : Int) ^ (W * (2 * n3)) * (sgn neg * (val W t2 : Int))
        + (2 : Int) ^ (W * (3 * n3)) * (sgn (!neg) * (val W t2 : Int))
        + (2 : Int) ^ (W * (2 * n3)) * cC0
        + (2 : Int) ^ (W * (3 * n3 + 2)) * cC1
        + (2 : Int) ^ (W * (4 * n3 + 2)) * cC2
        + (2 : Int) ^ (W * (5 * n3 + 2)) * cC3
        + (2 : Int) ^ (W * (c.length)) * carry) := by
  have hwl := window_length c (2 * n3) (4 * n3 + 2) (by omega)
  have hww := window_words hc (2 * n3) (4 * n3 + 2)
  have hu := addSignedSameLen_upd W (window c (2 * n3) (4 * n3 + 2)) neg t2 hww hw_t2 (by rw [hwl]; omega)
  have hb := hu.carry_bound hww (list_delta_bound W _ t2 hw_t2 _ (by rw [hwl]; omega))
  simp only [toomK8]
  generalize addSignedSameLen W (window c (2 * n3) (4 * n3 + 2)) neg t2 = res at hu hb
  obtain ⟨w, k⟩ := res
  simp only at hu hb ⊢
  obtain ⟨s1, s2, s3⟩ := setWindow_upd W c (2 * n3) (4 * n3 + 2) (by omega) (by omega) hc w k _ hu
  have hnext := toomK9_spec W n3 hW hn3 (setWindow c (2 * n3) w) neg t2 cC0 cC1 (cC2 + k) cC3 carry s2 (by rw [s1]; exact hL) (by rw [s1]; exact hL2) hw_t2 hl_t2 hb_cC0 ⟨by linarith [hb.1, hb_cC2.1], by linarith [hb.2, hb_cC2.2]⟩ hb_cC1 hb_cC3
  have := upd_step W c (2 * n3) (4 * n3 + 2) (by omega) (by omega) hc w k _ hu _ _ hnext
  try simp only [s1] at this
  refine ⟨this.1, this.2.1, ?_⟩
  rw [this.2.2]; ring

theorem toomK7_spec (W n3 : Nat) (hW : 4 ≤ W) (hn3 : 1 ≤ n3) (c : List Nat) (neg : Bool) (t1 t2 : List Nat) (cC0 cC1 cC2 carry : Int)
    (hc : IsWords W c) (hL : 5 * n3 + 2 ≤ c.length) (hL2 : c.length ≤ 6 * n3) (hw_t1 : IsWords W t1) (hw_t2 : IsWords W t2) (hl_t1 : t1.length = 2 * n3 + 2) (hl_t2 : t2.length = 2 * n3 + 2) (hb_cC0 : -1 ≤ cC0 ∧ cC0 ≤ 1) (hb_cC2 : -2 ≤ cC2 ∧ cC2 ≤ 2) (hb_cC1 : -2 ≤ cC1 ∧ cC1 ≤ 2) :
    Upd W c (toomK7 W n3 c neg t1 t2 cC0 cC1 cC2 carry).1 (toomK7 W n3 c neg t1 t2 cC0 cC1 cC2 carry).2
      ((2 : Int) ^ (W * (3 * n3)) * (sgn neg * (val W t1 : Int))
        + (2 : Int) ^ (W * (2 * n3)) * (sgn neg * (val W t2 : Int))
        + (2 : Int) ^ (W * (3 * n3)) * (sgn (!neg) * (val W t2 : Int))
        + (2 : Int) ^ (W * (2 * n3)) * cC0
        + (2 : Int) ^ (W * (3 * n3 + 2)) * cC1
        + (2 : Int) ^ (W * (4 * n3 + 2)) * cC2
        + (2 : Int) ^ (W * (c.length)) * carry) := by
  have hwl := window_length c (3 * n3) (5 * n3 + 2) (by omega)
  have hww := window_words hc (3 * n3) (5 * n3 + 2)
  have hu := addSignedSameLen_upd W (window c (3 * n3) (5 * n3 + 2)) neg t1 hww hw_t1 (by rw [hwl]; omega)
  have hb := hu.carry_bound hww (list_delta_bound W _ t1 hw_t1 _ (by rw [hwl]; omega))
  simp only [toomK7]
  generalize addSignedSameLen W (window c (3 * n3) (5 * n3 + 2)) neg t1 = res at hu hb
  obtain ⟨w, k⟩ := res
  simp only at hu hb ⊢
  obtain ⟨s1, s2, s3⟩ := setWindow_upd W c (3 * n3) (5 * n3 + 2) (by omega) (by omega) hc w k _ hu
  have hnext := toomK8_spec W n3 hW hn3 (setWindow c (3 * n3) w) neg t2 cC0 cC1 cC2 k carry s2 (by rw [s1]; exact hL) (by rw [s1]; exact hL2) hw_t2 hl_t2 hb_cC0 hb_cC2 hb_cC1 ⟨hb.1, hb.2⟩
  have := upd_step W c (3 * n3) (5 * n3 + 2) (by omega) (by omega) hc w k _ hu _ _ hnext
  try simp only [s1] at this
  refine ⟨this.1, this.2.1, ?_⟩
  rw [this.2.2]; ring

theorem toomK6_spec (W n3 : Nat) (hW : 4 ≤ W) (hn3 : 1 ≤ n3) (c : List Nat) (neg : Bool) (t1 t2 : List Nat) (cC0 cC1 cC2 carry : Int)
    (hc : IsWords W c) (hL : 5 * n3 + 2 ≤ c.length) (hL2 : c.length ≤ 6 * n3) (hw_t1 : IsWords W t1) (hw_t2 : IsWords W t2) (hl_t1 : t1.length = 2 * n3 + 2) (hl_t2 : t2.length = 2 * n3 + 2) (hb_cC0 : -1 ≤ cC0 ∧ cC0 ≤ 1) (hb_cC2 : -2 ≤ cC2 ∧ cC2 ≤ 2) (hb_cC1 : -1 ≤ cC1 ∧ cC1 ≤ 1) :
    Upd W c (toomK6 W n3 c neg t1 t2 cC0 cC1 cC2 carry).1 (toomK6 W n3 c neg t1 t2 cC0 cC1 cC2 carry).2
      ((2 : Int) ^ (W * (n3)) * (sgn (!neg) * (val W t1 : Int))
        + (2 : Int) ^ (W * (3 * n3)) * (sgn neg * (val W t1 : Int))
        + (2 : Int) ^ (W * (2 * n3)) * (sgn neg * (val W t2 : Int))
        + (2 : Int) ^ (W * (3 * n3)) * (sgn (!neg) * (val W t2 : Int))
        + (2 : Int) ^ (W * (2 * n3)) * cC0
        + (2 : Int) ^ (W * (3 * n3 + 2)) * cC1
        + (2 : Int) ^ (W * (4 * n3 + 2)) * cC2
        + (2 : Int) ^ (W * (c.length)) * carry) := by
  have hwl := window_length c (n3) (3 * n3 + 2) (by omega)
  have hww := window_words hc (n3) (3 * n3 + 2)
  have hu := addSignedSameLen_upd W (window c (n3) (3 * n3 + 2)) (!neg) t1 hww hw_t1 (by rw [hwl]; omega)
  have hb := hu.carry_bound hww (list_delta_bound W _ t1 hw_t1 _ (by rw [hwl]; omega))
  simp only [toomK6]
  generalize addSignedSameLen W (window c (n3) (3 * n3 + 2)) (!neg) t1 = res at hu hb
  obtain ⟨w, k⟩ := res
  simp only at hu hb ⊢
  obtain ⟨s1, s2, s3⟩ := setWindow_upd W c (n3) (3 * n3 + 2) (by omega) (by omega) hc w k _ hu
  have hnext := toomK7_spec W n3 hW hn3 (setWindow c (n3) w) neg t1 t2 cC0 (cC1 + k) cC2 carry s2 (by rw [s1]; exact hL) (by rw [s1]; exact hL2) hw_t1 hw_t2 hl_t1 hl_t2 hb_cC0 hb_cC2 ⟨by linarith [hb.1, hb_cC1.1], by linarith [hb.2, hb_cC1.2]⟩
  have := upd_step W c (n3) (3 * n3 + 2) (by omega) (by omega) hc w k _ hu _ _ hnext
  try simp only [s1] at this
  refine ⟨this.1, this.2.1, ?_⟩
  rw [this.2.2]; ring

theorem toomK5_spec (W n3 : Nat) (hW : 4 ≤ W) (hn3 : 1 ≤ n3) (c : List Nat) (neg : Bool) (t2a t1 t2 : List Nat) (cC0 cC2 carry : Int)
    (hc : IsWords W c) (hL : 5 * n3 + 2 ≤ c.length) (hL2 : c.length ≤ 6 * n3) (hw_t2a : IsWords W t2a) (hw_t1 : IsWords W t1) (hw_t2 : IsWords W t2) (hl_t2a : t2a.length = 2 * n3 + 2) (hl_t1 : t1.length = 2 * n3 + 2) (hl_t2 : t2.length = 2 * n3 + 2) (hb_cC0 : -1 ≤ cC0 ∧ cC0 ≤ 1) (hb_cC2 : -2 ≤ cC2 ∧ cC2 ≤ 2) :
    Upd W c (toomK5 W n3 c neg t2a t1 t2 cC0 cC2 carry).1 (toomK5 W n3 c neg t2a t1 t2 cC0 cC2 carry).2
      ((2 : Int) ^ (W * (n3)) * (sgn neg * (val W t2a : Int))
        + (2 : Int) ^ (W * (n3)) * (sgn (!neg) * (val W t1 : Int))
        + (2 : Int) ^ (W * (3 * n3)) * (sgn neg * (val W t1 : Int))
        + (2 : Int) ^ (W * (2 * n3)) * (sgn neg * (val W t2 : Int))
        + (2 : Int) ^ (W * (3 * n3)) * (sgn (!neg) * (val W t2 : Int))
        + (2 : Int) ^ (W * (2 * n3)) * cC0
        + (2 : Int) ^ (W * (4 * n3 + 2)) * cC2
        + (2 : Int) ^ (W * (c.length)) * carry) := by
  have hwl := window_length c (n3) (3 * n3 + 2) (by omega)
  have hww := window_words hc (n3) (3 * n3 + 2)
  have hu := addSignedInPlace_upd W (window c (n3) (3 * n3 + 2)) neg t2a hww hw_t2a (by rw [hwl]; omega)
  have hb := hu.carry_bound hww (list_delta_bound W _ t2a hw_t2a _ (by rw [hwl]; omega))
  simp only [toomK5]
  generalize addSignedInPlace W (window c (n3) (3 * n3 + 2)) neg t2a = res at hu hb
  obtain ⟨w, k⟩ := res
  simp only at hu hb ⊢
  obtain ⟨s1, s2, s3⟩ := setWindow_upd W c (n3) (3 * n3 + 2) (by omega) (by omega) hc w k _ hu
  have hnext := toomK6_spec W n3 hW hn3 (setWindow c (n3) w) neg t1 t2 cC0 k cC2 carry s2 (by rw [s1]; exact hL) (by rw [s1]; exact hL2) hw_t1 hw_t2 hl_t1 hl_t2 hb_cC0 hb_cC2 ⟨hb.1, hb.2⟩
  have := upd_step W c (n3) (3 * n3 + 2) (by omega) (by omega) hc w k _ hu _ _ hnext
  try simp only [s1] at this
  refine ⟨this.1, this.2.1, ?_⟩
  rw [this.2.2]; ring

theorem toomK4_spec (W n3 : Nat) (hW : 4 ≤ W) (hn3 : 1 ≤ n3) (c : List Nat) (neg : Bool) (vinf t2a t1 t2 : List Nat) (cC0 cC2 : Int)
    (hc : IsWords W c) (hL : 5 * n3 + 2 ≤ c.length) (hL2 : c.length ≤ 6 * n3) (hw_vinf : IsWords W vinf) (hw_t2a : IsWords W t2a) (hw_t1 : IsWords W t1) (hw_t2 : IsWords W t2) (hl_vinf : vinf.length + 4 * n3 = c.length) (hl_t2a : t2a.length = 2 * n3 + 2) (hl_t1 : t1.length = 2 * n3 + 2) (hl_t2 : t2.length = 2 * n3 + 2) (hb_cC0 : -1 ≤ cC0 ∧ cC0 ≤ 1) (hb_cC2 : -2 ≤ cC2 ∧ cC2 ≤ 2) :
    Upd W c (toomK4 W n3 c neg vinf t2a t1 t2 cC0 cC2).1 (toomK4 W n3 c neg vinf t2a t1 t2 cC0 cC2).2
      ((2 : Int) ^ (W * (4 * n3)) * (sgn neg * (val W vinf : Int))
        + (2 : Int) ^ (W * (n3)) * (sgn neg * (val W t2a : Int))
        + (2 : Int) ^ (W * (n3)) * (sgn (!neg) * (val W t1 : Int))
        + (2 : Int) ^ (W * (3 * n3)) * (sgn neg * (val W t1 : Int))
        + (2 : Int) ^ (W * (2 * n3)) * (sgn neg * (val W t2 : Int))
        + (2 : Int) ^ (W * (3 * n3)) * (sgn (!neg) * (val W t2 : Int))
        + (2 : Int) ^ (W * (2 * n3)) * cC0
        + (2 : Int) ^ (W * (4 * n3 + 2)) * cC2) := by
  have hwl := window_length c (4 * n3) (c.length) (by omega)
  have hww := window_words hc (4 * n3) (c.length)
  have hu := addSignedSameLen_upd W (window c (4 * n3) (c.length)) neg vinf hww hw_vinf (by rw [hwl]; omega)
  have hb := hu.carry_bound hww (list_delta_bound W _ vinf hw_vinf _ (by rw [hwl]; omega))
  simp only [toomK4]
  rw [drop_eq_window c (4 * n3)]
  generalize addSignedSameLen W (window c (4 * n3) (c.length)) neg vinf = res at hu hb
  obtain ⟨w, k⟩ := res
  simp only at hu hb ⊢
  obtain ⟨s1, s2, s3⟩ := setWindow_upd W c (4 * n3) (c.length) (by omega) (by omega) hc w k _ hu
  have hnext := toomK5_spec W n3 hW hn3 (setWindow c (4 * n3) w) neg t2a t1 t2 cC0 cC2 k s2 (by rw [s1]; exact hL) (by rw [s1]; exact hL2) hw_t2a hw_t1 hw_t2 hl_t2a hl_t1 hl_t2 hb_cC0 hb_cC2
  have := upd_step W c (4 * n3) (c.length) (by omega) (by omega) hc w k _ hu _ _ hnext
  try simp only [s1] at this
  refine ⟨this.1, this.2.1, ?_⟩
  rw [this.2.2]; ring

theorem toomK3_spec (W n3 : Nat) (hW : 4 ≤ W) (hn3 : 1 ≤ n3) (c : List Nat) (neg : Bool) (vinf t2a t1 t2 : List Nat) (cC0 cC2 : Int)
    (hc : IsWords W c) (hL : 5 * n3 + 2 ≤ c.length) (hL2 : c.length ≤ 6 * n3) (hw_vinf : IsWords W vinf) (hw_t2a : IsWords W t2a) (hw_t1 : IsWords W t1) (hw_t2 : IsWords W t2) (hl_vinf : vinf.length + 4 * n3 = c.length) (hl_t2a : t2a.length = 2 * n3 + 2) (hl_t1 : t1.length = 2 * n3 + 2) (hl_t2 : t2.length = 2 * n3 + 2) (hb_cC0 : -1 ≤ cC0 ∧ cC0 ≤ 1) (hb_cC2 : -1 ≤ cC2 ∧ cC2 ≤ 1) :
    Upd W c (toomK3 W n3 c neg vinf t2a t1 t2 cC0 cC2).1 (toomK3 W n3 c neg vinf t2a t1 t2 cC0 cC2).2
      ((2 : Int) ^ (W * (2 * n3)) * (sgn (!neg) * (val W vinf : Int))
        + (2 : Int) ^ (W * (4 * n3)) * (sgn neg * (val W vinf : Int))
        + (2 : Int) ^ (W * (n3)) * (sgn neg * (val W t2a : Int))
        + (2 : Int) ^ (W * (n3)) * (sgn (!neg) * (val W t1 : Int))
        + (2 : Int) ^ (W * (3 * n3)) * (sgn neg * (val W t1 : Int))
        + (2 : Int) ^ (W * (2 * n3)) * (sgn neg * (val W t2 : Int))
        + (2 : Int) ^ (W * (3 * n3)) * (sgn (!neg) * (val W t2 : Int))
        + (2 : Int) ^ (W * (2 * n3)) * cC0
        + (2 : Int) ^ (W * (4 * n3 + 2)) * cC2) := by
  have hwl := window_length c (2 * n3) (4 * n3 + 2) (by omega)
  have hww := window_words hc (2 * n3) (4 * n3 + 2)
  have hu := addSignedInPlace_upd W (window c (2 * n3) (4 * n3 + 2)) (!neg) vinf hww hw_vinf (by rw [hwl]; omega)
  have hb := hu.carry_bound hww (list_delta_bound W _ vinf hw_vinf _ (by rw [hwl]; omega))
  simp only [toomK3]
  generalize addSignedInPlace W (window c (2 * n3) (4 * n3 + 2)) (!neg) vinf = res at hu hb
  obtain ⟨w, k⟩ := res
  simp only at hu hb ⊢
  obtain ⟨s1, s2, s3⟩ := setWindow_upd W c (2 * n3) (4 * n3 + 2) (by omega) (by omega) hc w k _ hu
  have hnext := toomK4_spec W n3 hW hn3 (setWindow c (2 * n3) w) neg vinf t2a t1 t2 cC0 (cC2 + k) s2 (by rw [s1]; exact hL) (by rw [s1]; exact hL2) hw_vinf hw_t2a hw_t1 hw_t2 (by rw [s1]; exact hl_vinf) hl_t2a hl_t1 hl_t2 hb_cC0 ⟨by linarith [hb.1, hb_cC2.1], by linarith [hb.2, hb_cC2.2]⟩
  have := upd_step W c (2 * n3) (4 * n3 + 2) (by omega) (by omega) hc w k _ hu _ _ hnext
  try simp only [s1] at this
  refine ⟨this.1, this.2.1, ?_⟩
  rw [this.2.2]; ring

theorem toomK2_spec (W n3 : Nat) (hW : 4 ≤ W) (hn3 : 1 ≤ n3) (c : List Nat) (neg : Bool) (v0 vinf t2a t1 t2 : List Nat) (cC0 : Int)
    (hc : IsWords W c) (hL : 5 * n3 + 2 ≤ c.length) (hL2 : c.length ≤ 6 * n3) (hw_v0 : IsWords W v0) (hw_vinf : IsWords W vinf) (hw_t2a : IsWords W t2a) (hw_t1 : IsWords W t1) (hw_t2 : IsWords W t2) (hl_v0 : v0.length = 2 * n3) (hl_vinf : vinf.length + 4 * n3 = c.length) (hl_t2a : t2a.length = 2 * n3 + 2) (hl_t1 : t1.length = 2 * n3 + 2) (hl_t2 : t2.length = 2 * n3 + 2) (hb_cC0 : -1 ≤ cC0 ∧ cC0 ≤ 1) :
    Upd W c (toomK2 W n3 c neg v0 vinf t2a t1 t2 cC0).1 (toomK2 W n3 c neg v0 vinf t2a t1 t2 cC0).2
      ((2 : Int) ^ (W * (2 * n3)) * (sgn (!neg) * (val W v0 : Int))
        + (2 : Int) ^ (W * (2 * n3)) * (sgn (!neg) * (val W vinf : Int))
        + (2 : Int) ^ (W * (4 * n3)) * (sgn neg * (val W vinf : Int))
        + (2 : Int) ^ (W * (n3)) * (sgn neg * (val W t2a : Int))
        + (2 : Int) ^ (W * (n3)) * (sgn (!neg) * (val W t1 : Int))
        + (2 : Int) ^ (W * (3 * n3)) * (sgn neg * (val W t1 : Int))
        + (2 : Int) ^ (W * (2 * n3)) * (sgn neg * (val W t2 : Int))
        + (2 : Int) ^ (W * (3 * n3)) * (sgn (!neg) * (val W t2 : Int))
        + (2 : Int) ^ (W * (2 * n3)) * cC0) := by
  have hwl := window_length c (2 * n3) (4 * n3 + 2) (by omega)
  have hww := window_words hc (2 * n3) (4 * n3 + 2)
  have hu := addSignedInPlace_upd W (window c (2 * n3) (4 * n3 + 2)) (!neg) v0 hww hw_v0 (by rw [hwl]; omega)
  have hb := hu.carry_bound hww (list_delta_bound W _ v0 hw_v0 _ (by rw [hwl]; omega))
  simp only [toomK2]
  generalize addSignedInPlace W (window c (2 * n3) (4 * n3 + 2)) (!neg) v0 = res at hu hb
  obtain ⟨w, k⟩ := res
  simp only at hu hb ⊢
  obtain ⟨s1, s2, s3⟩ := setWindow_upd W c (2 * n3) (4 * n3 + 2) (by omega) (by omega) hc w k _ hu
  have hnext := toomK3_spec W n3 hW hn3 (setWindow c (2 * n3) w) neg vinf t2a t1 t2 cC0 k s2 (by rw [s1]; exact hL) (by rw [s1]; exact hL2) hw_vinf hw_t2a hw_t1 hw_t2 (by rw [s1]; exact hl_vinf) hl_t2a hl_t1 hl_t2 hb_cC0 ⟨hb.1, hb.2⟩
  have := upd_step W c (2 * n3) (4 * n3 + 2) (by omega) (by omega) hc w k _ hu _ _ hnext
  try simp only [s1] at this
  refine ⟨this.1, this.2.1, ?_⟩
  rw [this.2.2]; ring

theorem toomK1_spec (W n3 : Nat) (hW : 4 ≤ W) (hn3 : 1 ≤ n3) (c : List Nat) (neg : Bool) (v0 vinf t2a t1 t2 : List Nat)
    (hc : IsWords W c) (hL : 5 * n3 + 2 ≤ c.length) (hL2 : c.length ≤ 6 * n3) (hw_v0 : IsWords W v0) (hw_vinf : IsWords W vinf) (hw_t2a : IsWords W t2a) (hw_t1 : IsWords W t1) (hw_t2 : IsWords W t2) (hl_v0 : v0.length = 2 * n3) (hl_vinf : vinf.length + 4 * n3 = c.length) (hl_t2a : t2a.length = 2 * n3 + 2) (hl_t1 : t1.length = 2 * n3 + 2) (hl_t2 : t2.length = 2 * n3 + 2) :
    Upd W c (toomK1 W n3 c neg v0 vinf t2a t1 t2).1 (toomK1 W n3 c neg v0 vinf t2a t1 t2).2
      ((2 : Int) ^ (W * (0)) * (sgn neg * (val W v0 : Int))
        + (2 : Int) ^ (W * (2 * n3)) * (sgn (!neg) * (val W v0 : Int))
        + (2 : Int) ^ (W * (2 * n3)) * (sgn (!neg) * (val W vinf : Int))
        + (2 : Int) ^ (W * (4 * n3)) * (sgn neg * (val W vinf : Int))
        + (2 : Int) ^ (W * (n3)) * (sgn neg * (val W t2a : Int))
        + (2 : Int) ^ (W * (n3)) * (sgn (!neg) * (val W t1 : Int))
        + (2 : Int) ^ (W * (3 * n3)) * (sgn neg * (val W t1 : Int))
        + (2 : Int) ^ (W * (2 * n3)) * (sgn neg * (val W t2 : Int))
        + (2 : Int) ^ (W * (3 * n3)) * (sgn (!neg) * (val W t2 : Int))) := by
  have hwl := window_length c (0) (2 * n3) (by omega)
  have hww := window_words hc (0) (2 * n3)
  have hu := addSignedSameLen_upd W (window c (0) (2 * n3)) neg v0 hww hw_v0 (by rw [hwl]; omega)
  have hb := hu.carry_bound hww (list_delta_bound W _ v0 hw_v0 _ (by rw [hwl]; omega))
  simp only [toomK1]
  generalize addSignedSameLen W (window c (0) (2 * n3)) neg v0 = res at hu hb
  obtain ⟨w, k⟩ := res
  simp only at hu hb ⊢
  obtain ⟨s1, s2, s3⟩ := setWindow_upd W c (0) (2 * n3) (by omega) (by omega) hc w k _ hu
  have hnext := toomK2_spec W n3 hW hn3 (setWindow c (0) w) neg v0 vinf t2a t1 t2 k s2 (by rw [s1]; exact hL) (by rw [s1]; exact hL2) hw_v0 hw_vinf hw_t2a hw_t1 hw_t2 hl_v0 (by rw [s1]; exact hl_vinf) hl_t2a hl_t1 hl_t2 ⟨hb.1, hb.2⟩
  have := upd_step W c (0) (2 * n3) (by omega) (by omega) hc w k _ hu _ _ hnext
  try simp only [s1] at this
  refine ⟨this.1, this.2.1, ?_⟩
  rw [this.2.2]; ring



theorem sgn_not (neg : Bool) : sgn (!neg) = -sgn neg := by cases neg <;> simp [sgn]

theorem val_three_parts (W : Nat) (a : List Nat) (n3 : Nat) (h : 2 * n3 ≤ a.length) :
    val W a = val W (a.take n3)
      + 2 ^ (W * n3) * (val W ((a.drop n3).take n3) + 2 ^ (W * n3) * val W (a.drop (2 * n3))) := by
  have h1 := val_take_add_drop W a n3
  have h2 := val_take_add_drop W (a.drop n3) n3
  rw [length_take_of_le (by omega)] at h1
  rw [length_take_of_le (by rw [List.length_drop]; omega), List.drop_drop] at h2
  have : n3 + n3 = 2 * n3 := by omega
  rw [this] at h2
  rw [h1, h2]

/-- **Toom-3** (`toom_3::add_signed_mul_same_len`), one level: if the recursive callee meets the
    same-length contract then so does this level, for every `n ≥ MIN_LEN = 16` -/
theorem toom3SameLen_contract (W : Nat) (hW : 4 ≤ W) (rec : MulKernel)
    (hrec : SameLenContract W rec) (c : List Nat) (neg : Bool) (a b : List Nat)
    (hab : a.length = b.length) (hn : 16 ≤ a.length) (hcl : c.length = a.length + b.length)
    (hc : IsWords W c) (ha : IsWords W a) (hb : IsWords W b) :
    MulContract W (toom3SameLen W rec) c neg a b := by
  unfold MulContract
  simp only [toom3SameLen]
  rw [toomApply_eq]
  generalize hn3 : (a.length + 2) / 3 = n3
  have g1 : 2 * n3 ≤ a.length := by omega
  obtain ⟨⟨h0l, h0w, h0v⟩, ⟨hil, hiw, hiv⟩, ⟨hal, haw, hav⟩, ⟨h1l, h1w, h1v⟩, ⟨h2l, h2w, h2v⟩⟩ :=
    toomScratch_spec W hW rec hrec a b hab hn ha hb n3 hn3.symm _ _ _ _ _ _ rfl rfl rfl rfl rfl rfl
  have hk := toomK1_spec W n3 hW (by omega) c neg _ _ _ _ _ hc (by omega) (by omega)
    h0w hiw haw h1w h2w h0l (by rw [hil]; omega) hal h1l h2l
  refine ⟨hk.1, hk.2.1, ?_⟩
  rw [hk.2.2, h0v, hiv, hav, h1v, h2v, sgn_not, val_three_parts W a n3 g1,
    val_three_parts W b n3 (by omega)]
  have e0 : (2 : Int) ^ (W * 0) = 1 := by simp
  have e2 : (2 : Int) ^ (W * (2 * n3)) = (2 : Int) ^ (W * n3) * (2 : Int) ^ (W * n3) := by
    rw [← pow_add]; congr 1; ring
  have e3 : (2 : Int) ^ (W * (3 * n3))
      = (2 : Int) ^ (W * n3) * (2 : Int) ^ (W * n3) * (2 : Int) ^ (W * n3) := by
    rw [← pow_add, ← pow_add]; congr 1; ring
  have e4 : (2 : Int) ^ (W * (4 * n3))
      = (2 : Int) ^ (W * n3) * (2 : Int) ^ (W * n3) * ((2 : Int) ^ (W * n3) * (2 : Int) ^ (W * n3)) := by
    rw [← pow_add, ← pow_add]; congr 1; ring
  rw [e0, e2, e3, e4]
  push_cast
  ring

-- ------------------------------------------------------------------ mul::add_signed_mul_same_len

/-- side conditions on the regenerated thresholds (checked on their current values) -/
theorem threshold_simple_pos : 1 ≤ Dashu.Gen.mul_THRESHOLD_SIMPLE := by decide
theorem chunk_len_pos : 1 ≤ Dashu.Gen.mul_simple_CHUNK_LEN := by decide

theorem threshold_karatsuba_ge : 15 ≤ Dashu.Gen.mul_THRESHOLD_KARATSUBA := by decide

theorem addSignedMulSameLen_contract (W : Nat) (hW : 4 ≤ W) :
    ∀ fuel, SameLenContract W (addSignedMulSameLen W fuel) := by
  intro fuel
  induction fuel with
  | zero =>
    intro c neg a b _ hcl hc ha hb
    exact addSignedMulChunk_contract W c neg a b hcl hc ha hb
  | succ fuel ih =>
    intro c neg a b hab hcl hc ha hb
    unfold MulContract
    simp only [addSignedMulSameLen]
    split
    · exact addSignedMulChunk_contract W c neg a b hcl hc ha hb
    · rename_i h1
      split
      · have h2 := threshold_simple_pos
        exact karatsubaSameLen_contract W (by omega) _ ih c neg a b hab (by omega) hcl hc ha hb
      · have h3 := threshold_karatsuba_ge
        exact toom3SameLen_contract W hW _ ih c neg a b hab (by omega) hcl hc ha hb

-- ------------------------------------------------------------------ helpers::add_signed_mul_split_into_chunks

/-- general contract: any operand lengths with `c.len() = a.len() + b.len()` -/
def GenContract (W : Nat) (K : MulKernel) : Prop :=
  ∀ c neg a b, c.length = a.length + b.length → IsWords W c → IsWords W a → IsWords W b →
    MulContract W K c neg a b

theorem take_append_eq_setWindow (c : List Nat) (i : Nat) (w : List Nat)
    (h : i + w.length = c.length) : c.take i ++ w = setWindow c i w := by
  unfold setWindow
  rw [h, List.drop_length, List.append_nil]

theorem splitFinish_spec (W : Nat) (hW : 3 ≤ W) (tail : MulKernel) (htail : GenContract W tail)
    (c : List Nat) (neg : Bool) (a b : List Nat) (carryN : Int)
    (hcl : c.length = a.length + b.length) (hc : IsWords W c) (ha : IsWords W a) (hb : IsWords W b)
    (hk1 : -2 ≤ carryN) (hk2 : carryN ≤ 2) :
    Upd W c (splitFinish W tail c neg a b carryN).1 (splitFinish W tail c neg a b carryN).2
      (sgn neg * ((val W a * val W b : Nat) : Int) + (2 : Int) ^ (W * b.length) * carryN) := by
  have h8 := eight_le_pow_int W hW
  have hu := addSignedWord_upd W (c.drop b.length) carryN (hc.drop _)
    (abs_lt.mpr ⟨by linarith, by linarith⟩)
  simp only [splitFinish]
  generalize addSignedWord W (c.drop b.length) carryN = res at hu
  obtain ⟨w, carry0⟩ := res
  rw [drop_eq_window] at hu
  have hwl : w.length = c.length - b.length := by
    rw [hu.1, window_length c _ _ (Nat.le_refl _)]
  simp only
  rw [take_append_eq_setWindow c b.length w (by omega)]
  obtain ⟨s1, s2, s3⟩ := setWindow_upd W c b.length c.length (by omega) (Nat.le_refl _) hc w carry0 _ hu
  split
  · rename_i hge
    have ht := htail (setWindow c b.length w) neg a b (by rw [s1]; exact hcl) s2 ha hb
    unfold MulContract at ht
    generalize tail (setWindow c b.length w) neg a b = res2 at ht ⊢
    obtain ⟨r, k⟩ := res2
    obtain ⟨t1, t2, t3⟩ := ht
    simp only at t1 t2 t3 ⊢
    rw [s1] at t1 t3
    refine ⟨t1, t2, ?_⟩
    linear_combination t3 + s3
  · split
    · rename_i hlt hne
      have ht := htail (setWindow c b.length w) neg b a (by rw [s1]; omega) s2 hb ha
      unfold MulContract at ht
      generalize tail (setWindow c b.length w) neg b a = res2 at ht ⊢
      obtain ⟨r, k⟩ := res2
      obtain ⟨t1, t2, t3⟩ := ht
      simp only at t1 t2 t3 ⊢
      rw [s1] at t1 t3
      refine ⟨t1, t2, ?_⟩
      rw [Nat.mul_comm (val W a) (val W b)]
      linear_combination t3 + s3
    · rename_i hlt hnil
      have hnil' : a = [] := by
        by_contra hcon; exact hnil hcon
      subst hnil'
      refine ⟨s1, s2, ?_⟩
      simp only [val_nil, Nat.zero_mul, Nat.cast_zero, mul_zero, zero_add]
      linear_combination s3

theorem splitLoop_spec (W : Nat) (hW : 3 ≤ W) (chunkLen : Nat) (hL : 1 ≤ chunkLen)
    (f tail : MulKernel) (b : List Nat) (hb : IsWords W b)
    (hf : ∀ c' neg a', a'.length = chunkLen → c'.length = chunkLen + b.length → IsWords W c' →
      IsWords W a' → MulContract W f c' neg a' b)
    (htail : GenContract W tail) :
    ∀ (k : Nat) (c : List Nat) (neg : Bool) (a : List Nat) (carryN : Int),
      c.length = a.length + b.length → IsWords W c → IsWords W a → -2 ≤ carryN → carryN ≤ 2 →
      Upd W c (splitLoop W chunkLen f tail k c neg a b carryN).1
        (splitLoop W chunkLen f tail k c neg a b carryN).2
        (sgn neg * ((val W a * val W b : Nat) : Int) + (2 : Int) ^ (W * b.length) * carryN) := by
  intro k
  induction k with
  | zero =>
    intro c neg a carryN hcl hc ha hk1 hk2
    simp only [splitLoop]
    exact splitFinish_spec W hW tail htail c neg a b carryN hcl hc ha hb hk1 hk2
  | succ k ih =>
    intro c neg a carryN hcl hc ha hk1 hk2
    simp only [splitLoop]
    split
    · rename_i hge
      have h8 := eight_le_pow_int W hW
      -- propagate the pending carry into c[n..chunkLen+n]
      have hj1 : chunkLen + b.length ≤ c.length := by omega
      have hwl1 := window_length c b.length (chunkLen + b.length) hj1
      have hww1 := window_words hc b.length (chunkLen + b.length)
      have hu1 := addSignedWord_upd W (window c b.length (chunkLen + b.length)) carryN hww1
        (abs_lt.mpr ⟨by linarith, by linarith⟩)
      have hpL : (8 : Int) ≤ (2 : Int) ^ (W * (chunkLen + b.length - b.length)) := by
        have : 2 ^ 3 ≤ 2 ^ (W * (chunkLen + b.length - b.length)) :=
          Nat.pow_le_pow_right (by omega) (by
            have : W * 1 ≤ W * (chunkLen + b.length - b.length) := Nat.mul_le_mul_left _ (by omega)
            omega)
        exact_mod_cast this
      have hb1 := hu1.carry_bound hww1 (by rw [hwl1]; exact abs_lt.mpr ⟨by linarith, by linarith⟩)
      generalize addSignedWord W (window c b.length (chunkLen + b.length)) carryN = res1 at hu1 hb1
      obtain ⟨w1, k1⟩ := res1
      simp only at hu1 hb1 ⊢
      obtain ⟨s1, s2, s3⟩ := setWindow_upd W c b.length (chunkLen + b.length) (by omega) hj1 hc w1 k1 _ hu1
      -- the chunk product into c[..chunkLen+n]
      have htk : (a.take chunkLen).length = chunkLen := length_take_of_le hge
      have hw0 : (setWindow c b.length w1).take (chunkLen + b.length)
          = window (setWindow c b.length w1) 0 (chunkLen + b.length) := by
        unfold window; rfl
      have hj2 : chunkLen + b.length ≤ (setWindow c b.length w1).length := by rw [s1]; exact hj1
      have hwl2 := window_length (setWindow c b.length w1) 0 (chunkLen + b.length) hj2
      have hww2 := window_words s2 0 (chunkLen + b.length)
      have hu2 := hf ((setWindow c b.length w1).take (chunkLen + b.length)) neg (a.take chunkLen) htk
        (by rw [hw0, hwl2]; omega) (by rw [hw0]; exact hww2) (ha.take _)
      unfold MulContract at hu2
      have hb2 := hu2.carry_bound (by rw [hw0]; exact hww2) (by
        rw [abs_sgn_mul]
        exact mul_lt_pow_int W _ _ (ha.take _) hb _ (by rw [hw0, hwl2, htk]; omega))
      generalize f ((setWindow c b.length w1).take (chunkLen + b.length)) neg (a.take chunkLen) b
        = res2 at hu2 hb2
      obtain ⟨w2, k2⟩ := res2
      simp only at hu2 hb2 ⊢
      rw [hw0] at hu2
      obtain ⟨u1, u2, u3⟩ := setWindow_upd W (setWindow c b.length w1) 0 (chunkLen + b.length)
        (by omega) hj2 s2 w2 k2 _ hu2
      -- the rest
      generalize hc2 : setWindow (setWindow c b.length w1) 0 w2 = c2 at u1 u2 u3 ⊢
      have hc2l : c2.length = c.length := by rw [u1, s1]
      have hrest := ih (c2.drop chunkLen) neg (a.drop chunkLen) (k1 + k2)
        (by rw [List.length_drop, List.length_drop, hc2l]; omega) (u2.drop _) (ha.drop _)
        (by linarith [hb1.1, hb2.1]) (by linarith [hb1.2, hb2.2])
      generalize splitLoop W chunkLen f tail k (c2.drop chunkLen) neg (a.drop chunkLen) b (k1 + k2)
        = res3 at hrest
      obtain ⟨r, carry⟩ := res3
      simp only at hrest ⊢
      rw [drop_eq_window] at hrest
      have hrl : r.length = c2.length - chunkLen := by
        rw [hrest.1, window_length c2 _ _ (Nat.le_refl _)]
      rw [take_append_eq_setWindow c2 chunkLen r (by omega)]
      obtain ⟨v1, v2, v3⟩ := setWindow_upd W c2 chunkLen c2.length (by omega) (Nat.le_refl _) u2 r carry _
        hrest
      refine ⟨by rw [v1, hc2l], v2, ?_⟩
      have hva := val_take_add_drop W a chunkLen
      rw [htk] at hva
      rw [v3, u3, s3, hc2l, hva]
      have hp : (2 : Int) ^ (W * (chunkLen + b.length))
          = (2 : Int) ^ (W * chunkLen) * (2 : Int) ^ (W * b.length) := by
        rw [← pow_add, ← Nat.mul_add]
      rw [hp]
      push_cast
      simp only [Nat.mul_zero, pow_zero]
      ring
    · exact splitFinish_spec W hW tail htail c neg a b carryN hcl hc ha hb hk1 hk2

-- ------------------------------------------------------------------ mul::add_signed_mul

theorem addSignedMul_contract (W : Nat) (hW : 4 ≤ W) : ∀ fuel, GenContract W (addSignedMul W fuel) := by
  intro fuel
  induction fuel with
  | zero =>
    intro c neg a b hcl hc ha hb
    unfold MulContract
    simp only [addSignedMul]
    split
    · have := addSignedMulChunk_contract W c neg b a (by omega) hc hb ha
      unfold MulContract at this
      rw [Nat.mul_comm (val W a) (val W b)]; exact this
    · exact addSignedMulChunk_contract W c neg a b hcl hc ha hb
  | succ fuel ih =>
    -- the ordered case: `a` is the longer operand
    have ordered : ∀ c neg a b, b.length ≤ a.length → c.length = a.length + b.length → IsWords W c →
        IsWords W a → IsWords W b →
        Upd W c
          (if b.length ≤ Dashu.Gen.mul_THRESHOLD_SIMPLE then
            if a.length ≤ Dashu.Gen.mul_simple_CHUNK_LEN then addSignedMulChunk W c neg a b
            else splitLoop W Dashu.Gen.mul_simple_CHUNK_LEN (addSignedMulChunk W) (addSignedMul W fuel)
              a.length c neg a b 0
          else if b.length ≤ Dashu.Gen.mul_THRESHOLD_KARATSUBA then
            splitLoop W b.length (karatsubaSameLen W (addSignedMulSameLen W b.length))
              (addSignedMul W fuel) a.length c neg a b 0
          else splitLoop W b.length (toom3SameLen W (addSignedMulSameLen W b.length)) (addSignedMul W fuel)
            a.length c neg a b 0).1
          (if b.length ≤ Dashu.Gen.mul_THRESHOLD_SIMPLE then
            if a.length ≤ Dashu.Gen.mul_simple_CHUNK_LEN then addSignedMulChunk W c neg a b
            else splitLoop W Dashu.Gen.mul_simple_CHUNK_LEN (addSignedMulChunk W) (addSignedMul W fuel)
              a.length c neg a b 0
          else if b.length ≤ Dashu.Gen.mul_THRESHOLD_KARATSUBA then
            splitLoop W b.length (karatsubaSameLen W (addSignedMulSameLen W b.length))
              (addSignedMul W fuel) a.length c neg a b 0
          else splitLoop W b.length (toom3SameLen W (addSignedMulSameLen W b.length)) (addSignedMul W fuel)
            a.length c neg a b 0).2
          (sgn neg * ((val W a * val W b : Nat) : Int)) := by
      intro c neg a b hle hcl hc ha hb
      have hts := threshold_simple_pos
      have htk := threshold_karatsuba_ge
      split
      · split
        · exact addSignedMulChunk_contract W c neg a b hcl hc ha hb
        · have := splitLoop_spec W (by omega) _ chunk_len_pos (addSignedMulChunk W) (addSignedMul W fuel) b hb
            (fun c' neg' a' h1 h2 h3 h4 => addSignedMulChunk_contract W c' neg' a' b (by omega) h3 h4 hb)
            ih a.length c neg a 0 hcl hc ha (by omega) (by omega)
          simpa using this
      · rename_i hnot
        split
        · have := splitLoop_spec W (by omega) b.length (by omega)
            (karatsubaSameLen W (addSignedMulSameLen W b.length)) (addSignedMul W fuel) b hb
            (fun c' neg' a' h1 h2 h3 h4 => karatsubaSameLen_contract W (by omega) _
              (addSignedMulSameLen_contract W hW b.length) c' neg' a' b h1 (by omega) (by omega) h3 h4 hb)
            ih a.length c neg a 0 hcl hc ha (by omega) (by omega)
          simpa using this
        · have := splitLoop_spec W (by omega) b.length (by omega)
            (toom3SameLen W (addSignedMulSameLen W b.length)) (addSignedMul W fuel) b hb
            (fun c' neg' a' h1 h2 h3 h4 => toom3SameLen_contract W hW _
              (addSignedMulSameLen_contract W hW b.length) c' neg' a' b h1 (by omega) (by omega) h3 h4 hb)
            ih a.length c neg a 0 hcl hc ha (by omega) (by omega)
          simpa using this
    intro c neg a b hcl hc ha hb
    unfold MulContract
    simp only [addSignedMul]
    by_cases hlt : a.length < b.length
    · simp only [hlt, if_true]
      have := ordered c neg b a (by omega) (by omega) hc hb ha
      rw [Nat.mul_comm (val W a) (val W b)]; exact this
    · simp only [hlt, if_false]
      exact ordered c neg a b (by omega) hcl hc ha hb


-- ====================================================================== sqr::simple::square, sqr::sqr

/-- triangular and diagonal parts of a square -/
def tri (W : Nat) : List Nat → Nat
  | [] => 0
  | m :: as => 2 ^ W * (m * val W as) + 2 ^ W * 2 ^ W * tri W as
def diag (W : Nat) : List Nat → Nat
  | [] => 0
  | m :: as => m * m + 2 ^ W * 2 ^ W * diag W as

theorem sq_eq_tri_diag (W : Nat) (a : List Nat) : val W a * val W a = 2 * tri W a + diag W a := by
  induction a with
  | nil => simp [tri, diag]
  | cons m as ih =>
    simp only [val_cons, tri, diag]
    have : (m + 2 ^ W * val W as) * (m + 2 ^ W * val W as)
        = m * m + 2 * (2 ^ W * (m * val W as)) + 2 ^ W * 2 ^ W * (val W as * val W as) := by ring
    rw [this, ih]; ring

theorem window_single (c : List Nat) (i : Nat) (h : i < c.length) :
    window c i (i + 1) = [c.getD i 0] := by
  unfold window
  rw [take_succ_getD c i h, List.drop_append_of_le_length (by rw [length_take_of_le (by omega)])]
  rw [List.drop_eq_nil_of_le (by rw [length_take_of_le (by omega)])]
  rfl

theorem sqrTriLoop_spec (W : Nat) : ∀ (aCur s : List Nat) (c0 : Nat), s.length = 2 * aCur.length →
    IsWords W s → IsWords W aCur → c0 ≤ 1 →
    Upd W s (sqrTriLoop W s aCur c0).1 ((sqrTriLoop W s aCur c0).2 : Int)
      ((tri W aCur : Int) + (2 : Int) ^ (W * aCur.length) * c0) ∧ (sqrTriLoop W s aCur c0).2 ≤ 1 := by
  intro aCur
  induction aCur with
  | nil =>
    intro s c0 hl hs _ hc
    simp only [List.length_nil, Nat.mul_zero] at hl
    have : s = [] := List.eq_nil_of_length_eq_zero hl
    subst this
    simp only [sqrTriLoop]
    exact ⟨⟨rfl, hs, by simp [tri]⟩, hc⟩
  | cons m aRest ih =>
    intro s c0 hl hs ha hc
    have hp : 0 < 2 ^ W := Nat.two_pow_pos W
    simp only [List.length_cons] at hl
    have hj1 : 1 + aRest.length ≤ s.length := by omega
    have hwl := window_length s 1 (1 + aRest.length) hj1
    have hww := window_words hs 1 (1 + aRest.length)
    obtain ⟨w1, w2, w3, w4⟩ := addMulWordSameLen_spec W (window s 1 (1 + aRest.length)) m aRest hww
      ha.tail (by rw [hwl]; omega) ha.head
    simp only [sqrTriLoop]
    generalize addMulWordSameLen W (window s 1 (1 + aRest.length)) m aRest = res at w1 w2 w3 w4
    obtain ⟨win, cw⟩ := res
    simp only at w1 w2 w3 w4 ⊢
    have hu1 : Upd W (window s 1 (1 + aRest.length)) win (cw : Int) ((m * val W aRest : Nat) : Int) := by
      refine ⟨w2, w3, ?_⟩
      have := congrArg (Nat.cast : Nat → Int) w1
      push_cast at this ⊢
      linarith
    obtain ⟨s1, s2, s3⟩ := setWindow_upd W s 1 (1 + aRest.length) (by omega) hj1 hs win cw _ hu1
    generalize setWindow s 1 win = sA at s1 s2 s3 ⊢
    -- the top word
    have hjt : 1 + aRest.length < sA.length := by omega
    have htop := s2.getD (1 + aRest.length)
    have hws := window_single sA (1 + aRest.length) hjt
    generalize sA.getD (1 + aRest.length) 0 = top at htop hws ⊢
    have hq : (top + cw + c0) / 2 ^ W ≤ 1 := by
      have : top + cw + c0 < 2 * 2 ^ W := by omega
      have := (Nat.div_lt_iff_lt_mul hp).mpr this
      omega
    have hdm := Nat.div_add_mod (top + cw + c0) (2 ^ W)
    have hmd : (top + cw + c0) % 2 ^ W < 2 ^ W := Nat.mod_lt _ hp
    generalize (top + cw + c0) / 2 ^ W = q at hq hdm ⊢
    generalize (top + cw + c0) % 2 ^ W = tm at hmd hdm ⊢
    have hu2 : Upd W (window sA (1 + aRest.length) (1 + aRest.length + 1)) [tm] (q : Int)
        ((cw : Int) + c0) := by
      rw [hws]
      refine ⟨rfl, IsWords.cons hmd (IsWords.nil W), ?_⟩
      simp only [val_cons, val_nil, List.length_cons, List.length_nil, Nat.zero_add, Nat.mul_one,
        Nat.mul_zero, Nat.add_zero]
      have := congrArg (Nat.cast : Nat → Int) hdm
      push_cast at this ⊢
      linarith
    obtain ⟨t1, t2, t3⟩ := setWindow_upd W sA (1 + aRest.length) (1 + aRest.length + 1) (by omega)
      (by omega) s2 [tm] q _ hu2
    generalize setWindow sA (1 + aRest.length) [tm] = sB at t1 t2 t3 ⊢
    -- the remaining rows
    obtain ⟨⟨i1, i2, i3⟩, i4⟩ := ih (sB.drop 2) q (by rw [List.length_drop]; omega) (t2.drop _) ha.tail hq
    generalize sqrTriLoop W (sB.drop 2) aRest q = res2 at i1 i2 i3 i4
    obtain ⟨r, c0'⟩ := res2
    simp only at i1 i2 i3 i4 ⊢
    have hiu : Upd W (window sB 2 sB.length) r (c0' : Int)
        ((tri W aRest : Int) + (2 : Int) ^ (W * aRest.length) * q) := by
      rw [← drop_eq_window]; exact ⟨i1, i2, i3⟩
    have hrl : r.length = sB.length - 2 := by rw [i1, List.length_drop]
    rw [take_append_eq_setWindow sB 2 r (by omega)]
    obtain ⟨v1, v2, v3⟩ := setWindow_upd W sB 2 sB.length (by omega) (Nat.le_refl _) t2 r c0' _ hiu
    refine ⟨⟨by rw [v1, t1, s1], v2, ?_⟩, i4⟩
    rw [v3, t3, s3, t1, s1]
    simp only [tri, List.length_cons]
    have e1 : (2 : Int) ^ (W * (1 + aRest.length)) = (2 : Int) ^ W * (2 : Int) ^ (W * aRest.length) := by
      rw [← pow_add]; congr 1; ring
    have e2 : (2 : Int) ^ (W * (1 + aRest.length + 1))
        = (2 : Int) ^ W * (2 : Int) ^ W * (2 : Int) ^ (W * aRest.length) := by
      rw [← pow_add, ← pow_add]; congr 1; ring
    have e3 : (2 : Int) ^ (W * (aRest.length + 1)) = (2 : Int) ^ W * (2 : Int) ^ (W * aRest.length) := by
      rw [← pow_add]; congr 1; ring
    have e4 : (2 : Int) ^ (W * 2) = (2 : Int) ^ W * (2 : Int) ^ W := by
      rw [← pow_add]; congr 1; ring
    have e5 : (2 : Int) ^ (W * 1) = (2 : Int) ^ W := by rw [Nat.mul_one]
    rw [e1, e2, e3, e4, e5]
    push_cast
    ring


theorem sqrDiagLoop_spec (W : Nat) : ∀ (a s : List Nat) (c1 c2 : Nat), s.length = 2 * a.length →
    IsWords W s → IsWords W a → c1 ≤ 1 → c2 ≤ 1 →
    val W (sqrDiagLoop W s a c1 c2).1
        + 2 ^ (W * s.length) * ((sqrDiagLoop W s a c1 c2).2.1 + (sqrDiagLoop W s a c1 c2).2.2)
      = 2 * val W s + diag W a + c1 + c2 ∧
    (sqrDiagLoop W s a c1 c2).1.length = s.length ∧ IsWords W (sqrDiagLoop W s a c1 c2).1 ∧
    (sqrDiagLoop W s a c1 c2).2.1 ≤ 1 ∧ (sqrDiagLoop W s a c1 c2).2.2 ≤ 1 := by
  intro a
  induction a with
  | nil =>
    intro s c1 c2 hl hs _ h1 h2
    simp only [List.length_nil, Nat.mul_zero] at hl
    have : s = [] := List.eq_nil_of_length_eq_zero hl
    subst this
    simp [sqrDiagLoop, diag, IsWords.nil, h1, h2]
  | cons m as ih =>
    intro s c1 c2 hl hs ha h1 h2
    simp only [List.length_cons] at hl
    obtain ⟨b0, b1, rest, rfl⟩ := exists_cons_cons (show 2 ≤ s.length by omega)
    have hp : 0 < 2 ^ W := Nat.two_pow_pos W
    have hpp : 0 < 2 ^ (2 * W) := Nat.two_pow_pos _
    have hsq := two_pow_two_mul W
    have hb0 := hs.head
    have hb1 := hs.tail.head
    have hm := ha.head
    have hrl : rest.length = 2 * as.length := by simp at hl; omega
    -- sizes
    have hs0 : m * m + b0 + b0 < 2 ^ W * 2 ^ W := mul_add_add_lt_sq' hm hm hb0 hb0
    have hwb : b1 * 2 ^ W + 1 ≤ 2 ^ W * 2 ^ W := by
      have := Nat.mul_le_mul_right (2 ^ W) (show b1 + 1 ≤ 2 ^ W from hb1)
      rw [Nat.add_mul, Nat.one_mul] at this
      omega
    simp only [sqrDiagLoop]
    rw [hsq]
    have hd1 := Nat.div_add_mod (m * m + b0 + b0 + (b1 * 2 ^ W + c1)) (2 ^ W * 2 ^ W)
    have hq1 : (m * m + b0 + b0 + (b1 * 2 ^ W + c1)) / (2 ^ W * 2 ^ W) ≤ 1 := by
      have : m * m + b0 + b0 + (b1 * 2 ^ W + c1) < 2 * (2 ^ W * 2 ^ W) := by omega
      have := (Nat.div_lt_iff_lt_mul (by rw [← hsq]; exact hpp)).mpr this
      omega
    have hm1 : (m * m + b0 + b0 + (b1 * 2 ^ W + c1)) % (2 ^ W * 2 ^ W) < 2 ^ W * 2 ^ W :=
      Nat.mod_lt _ (by rw [← hsq]; exact hpp)
    generalize (m * m + b0 + b0 + (b1 * 2 ^ W + c1)) / (2 ^ W * 2 ^ W) = oc1 at *
    generalize (m * m + b0 + b0 + (b1 * 2 ^ W + c1)) % (2 ^ W * 2 ^ W) = r1 at *
    have hd2 := Nat.div_add_mod (r1 + (b1 * 2 ^ W + c2)) (2 ^ W * 2 ^ W)
    have hq2 : (r1 + (b1 * 2 ^ W + c2)) / (2 ^ W * 2 ^ W) ≤ 1 := by
      have : r1 + (b1 * 2 ^ W + c2) < 2 * (2 ^ W * 2 ^ W) := by omega
      have := (Nat.div_lt_iff_lt_mul (by rw [← hsq]; exact hpp)).mpr this
      omega
    have hm2 : (r1 + (b1 * 2 ^ W + c2)) % (2 ^ W * 2 ^ W) < 2 ^ W * 2 ^ W :=
      Nat.mod_lt _ (by rw [← hsq]; exact hpp)
    generalize (r1 + (b1 * 2 ^ W + c2)) / (2 ^ W * 2 ^ W) = oc2 at *
    generalize (r1 + (b1 * 2 ^ W + c2)) % (2 ^ W * 2 ^ W) = o at *
    obtain ⟨i1, i2, i3, i4, i5⟩ := ih rest oc1 oc2 hrl hs.tail.tail ha.tail hq1 hq2
    generalize sqrDiagLoop W rest as oc1 oc2 = res at i1 i2 i3 i4 i5
    obtain ⟨r, cc⟩ := res
    simp only at i1 i2 i3 i4 i5 ⊢
    have ho1 : o / 2 ^ W < 2 ^ W := (Nat.div_lt_iff_lt_mul hp).mpr hm2
    have hod := Nat.div_add_mod o (2 ^ W)
    refine ⟨?_, by simp [i2], IsWords.cons (Nat.mod_lt _ hp) (IsWords.cons ho1 i3), i4, i5⟩
    simp only [val_cons, diag, List.length_cons]
    rw [pow_mul_succ, pow_mul_succ]
    have e : 2 ^ W * 2 ^ W * (val W r + 2 ^ (W * rest.length) * (cc.1 + cc.2))
        = 2 ^ W * 2 ^ W * (2 * val W rest + diag W as + oc1 + oc2) := by rw [i1]
    linarith [e, hd1, hd2, hod]

theorem dropLast_append_getLast (l : List Nat) (h : l ≠ []) : l.dropLast ++ [l.getLastD 0] = l := by
  rw [List.getLastD_eq_getLast?, List.getLast?_eq_some_getLast h]
  exact List.dropLast_append_getLast h

/-- `sqr::simple::square`: on a zero-filled buffer the three carry bits are zero and the buffer holds `a²` -/
theorem sqrSimple_spec (W : Nat) (a : List Nat) (ha : IsWords W a) (hne : a ≠ []) :
    val W (sqrSimple W a) = val W a * val W a ∧ (sqrSimple W a).length = 2 * a.length ∧
    IsWords W (sqrSimple W a) := by
  have hsq := sq_eq_tri_diag W a
  have hlt : val W a * val W a < 2 ^ (W * (2 * a.length)) := by
    have h := val_lt W a ha
    have : 2 ^ (W * (2 * a.length)) = 2 ^ (W * a.length) * 2 ^ (W * a.length) := by
      rw [← Nat.pow_add]; congr 1; ring
    rw [this]; exact Nat.mul_lt_mul'' h h
  obtain ⟨⟨t1, t2, t3⟩, t4⟩ := sqrTriLoop_spec W a (List.replicate (2 * a.length) 0) 0 (by simp)
    (isWords_replicate_zero W _) ha (by omega)
  simp only [sqrSimple]
  generalize sqrTriLoop W (List.replicate (2 * a.length) 0) a 0 = res1 at t1 t2 t3 t4
  obtain ⟨bA, c0⟩ := res1
  simp only [List.length_replicate, val_replicate_zero, Nat.cast_zero, mul_zero, add_zero, zero_add]
    at t1 t2 t3 t4 ⊢
  have t3' : val W bA + 2 ^ (W * (2 * a.length)) * c0 = tri W a := by exact_mod_cast t3
  have hc0 : c0 = 0 := by
    rcases (by omega : c0 = 0 ∨ c0 = 1) with h | h
    · exact h
    · subst h; omega
  subst hc0
  simp only [Nat.mul_zero, Nat.add_zero] at t3'
  obtain ⟨d1, d2, d3, d4, d5⟩ := sqrDiagLoop_spec W a bA 0 0 t1 t2 ha (by omega) (by omega)
  generalize sqrDiagLoop W bA a 0 0 = res2 at d1 d2 d3 d4 d5
  obtain ⟨bB, cc⟩ := res2
  simp only [Nat.add_zero] at d1 d2 d3 d4 d5 ⊢
  rw [t1, t3'] at d1
  have hbB := val_lt W bB d3
  rw [d2, t1] at hbB
  have hcc : cc.1 + cc.2 = 0 := by
    rcases Nat.eq_zero_or_pos (cc.1 + cc.2) with h | h
    · exact h
    · have : 2 ^ (W * (2 * a.length)) ≤ 2 ^ (W * (2 * a.length)) * (cc.1 + cc.2) :=
        Nat.le_mul_of_pos_right _ h
      omega
  have hcc1 : cc.1 = 0 := by omega
  have hcc2 : cc.2 = 0 := by omega
  rw [hcc, Nat.mul_zero, Nat.add_zero] at d1
  have hbne : bB ≠ [] := by
    intro e; subst e
    simp at d2
    have : a.length = 0 := by omega
    exact hne (List.eq_nil_of_length_eq_zero this)
  simp only [hcc1, hcc2, Nat.add_zero]
  rw [dropLast_append_getLast bB hbne]
  exact ⟨by rw [d1, hsq], by rw [d2, t1], d3⟩


/-- `sqr::sqr`: both arms produce `a²` in `2·a.len()` words -/
theorem sqrBuffer_spec (W : Nat) (hW : 4 ≤ W) (a : List Nat) (ha : IsWords W a) (hne : a ≠ []) :
    val W (sqrBuffer W a) = val W a * val W a ∧ IsWords W (sqrBuffer W a) := by
  unfold sqrBuffer
  split
  · obtain ⟨h1, _, h3⟩ := sqrSimple_spec W a ha hne
    exact ⟨h1, h3⟩
  · have hc := addSignedMulSameLen_contract W hW a.length (List.replicate (2 * a.length) 0) false a a
      rfl (by simp; omega) (isWords_replicate_zero W _) ha ha
    obtain ⟨_, h2, _, h4⟩ := upd_zero_product W (2 * a.length) _ _ _ hc
      (mul_lt_pow_int W a a ha ha _ (by omega))
    exact ⟨h2, h4⟩

end Dashu.Model
