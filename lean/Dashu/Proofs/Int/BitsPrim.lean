import Dashu.Model.Int.BitsPrim
import Dashu.Proofs.Int.Bits
import Dashu.Proofs.Conv.Prim
/-
  C09 round 2: (a) the driver's trailing-zero search `specTz` is total; (b) bit operators with a
  primitive operand equal the two's-complement operator on the converted values, and the
  `try_into().unwrap()` of the `& -> uN` forms never fails — using the conversion theorems of C06.
-/
namespace Dashu.Model
open Dashu.Model.Conv

-- ================================================================== specTz is total

theorem exists_isTz (n : Nat) (hn : n ≠ 0) : ∃ z, IsTz n z :=
  ⟨_, tzWord_spec n n hn Nat.lt_two_pow_self⟩

theorem testBit_of_isTz {n z : Nat} (h : IsTz n z) (i : Nat) :
    n.testBit i = if i < z then false else if i = z then true else n.testBit i := by
  obtain ⟨h1, h2⟩ := h
  have hdm := Nat.div_add_mod n (2 ^ z)
  rw [h1, Nat.add_zero] at hdm
  by_cases hlt : i < z
  · simp only [hlt, if_true]
    rw [← hdm, Nat.testBit_two_pow_mul]; simp; omega
  · simp only [hlt, if_false]
    by_cases he : i = z
    · subst he
      simp only [if_true]
      rw [← hdm, Nat.testBit_two_pow_mul]
      simp [Nat.testBit_zero, h2]
    · simp [he]

theorem xor_pred_eq (n z : Nat) (h : IsTz n z) : n ^^^ (n - 1) = 2 ^ (z + 1) - 1 := by
  apply Nat.eq_of_testBit_eq; intro i
  rw [Nat.testBit_xor, testBit_pred n z i h, testBit_of_isTz h i, Nat.testBit_two_pow_sub_one]
  by_cases h1 : i < z
  · have : i < z + 1 := by omega
    simp [h1, this]
  · by_cases h2 : i = z
    · subst h2; simp
    · have : ¬ i < z + 1 := by omega
      simp [h1, h2, this]

/-- the lowest-set-bit candidate of `specTz` is always right: `specTz` never fails on `n ≠ 0` -/
theorem specTz_total (n : Nat) (hn : n ≠ 0) : ∃ k, specTz n = some k ∧ IsTz n k := by
  obtain ⟨z, hz⟩ := exists_isTz n hn
  have hx := xor_pred_eq n z hz
  have hlog : Nat.log2 (n ^^^ (n - 1)) = z := by
    rw [hx]
    have hp := Nat.two_pow_pos z
    have hne : 2 ^ (z + 1) - 1 ≠ 0 := by rw [Nat.pow_succ]; omega
    rw [Nat.log2_eq_iff hne]
    constructor
    · rw [Nat.pow_succ]; omega
    · have := Nat.two_pow_pos (z + 1); omega
  refine ⟨z, ?_, hz⟩
  unfold specTz
  simp only [hlog, hz, if_true]

-- ================================================================== primitive operands

theorem fromUnsigned_canon (W x : Nat) (hW : 1 ≤ W) : (fromUnsigned W x).Canon W := by
  unfold fromUnsigned
  split
  · assumption
  · exact fromBuffer_canon W _ (natWords_spec W hW x).2.1

theorem fromUnsigned_value (W x : Nat) (hW : 1 ≤ W) : (fromUnsigned W x).value W = x :=
  (fromUnsigned_spec W x hW).1

theorem fromSigned_spec (W bits : Nat) (hW : 1 ≤ W) (hb : 1 ≤ bits) (x : Int)
    (hx : -(2 ^ (bits - 1) : Int) ≤ x ∧ x ≤ 2 ^ (bits - 1) - 1) :
    SCanon W (fromSigned W bits x) ∧ (fromSigned W bits x).value W = x := by
  unfold fromSigned
  rw [toSignMagnitude_spec bits hb x hx]
  simp only
  refine ⟨withSign_wf W _ _ (fromUnsigned_canon W _ hW), ?_⟩
  rw [withSign_value, fromUnsigned_value W _ hW]
  by_cases h : x < 0
  · simp only [h, decide_true, if_true]; omega
  · simp only [h, decide_false, Bool.false_eq_true, if_false]; omega

theorem BitOp.onU_spec (W : Nat) (o : BitOp) (a b : TRepr) (ha : a.Canon W) (hb : b.Canon W) :
    ((o.onU W a b).value W : Int) = o.spec (a.value W) (b.value W) ∧ (o.onU W a b).Canon W := by
  cases o
  · have ⟨e, c⟩ := TRepr.bitand_spec W a b ha hb
    exact ⟨by simp only [BitOp.onU, BitOp.spec, e, specAnd_pp], c⟩
  · have ⟨e, c⟩ := TRepr.bitor_spec W a b ha hb
    exact ⟨by simp only [BitOp.onU, BitOp.spec, e, specOr_pp], c⟩
  · have ⟨e, c⟩ := TRepr.bitxor_spec W a b ha hb
    exact ⟨by simp only [BitOp.onU, BitOp.spec, e, specXor_pp], c⟩

theorem BitOp.onI_spec (W : Nat) (hW : 1 ≤ W) (o : BitOp) (a b : SRepr) (ha : SCanon W a) (hb : SCanon W b) :
    (o.onI W a b).value W = o.spec (a.value W) (b.value W) ∧ SCanon W (o.onI W a b) := by
  cases o
  · exact ibigAnd_spec W hW a b ha hb
  · exact ibigOr_spec W hW a b ha hb
  · exact ibigXor_spec W hW a b ha hb

theorem BitOp.spec_comm (o : BitOp) (x y : Int) : o.spec x y = o.spec y x := by
  apply int_eq_of_specBit_eq; intro i
  cases o <;> simp only [BitOp.spec, specBit_specAnd, specBit_specOr, specBit_specXor]
  · exact Bool.and_comm _ _
  · exact Bool.or_comm _ _
  · exact Bool.xor_comm _ _

/-- word-size / type-size side conditions of the conversion theorems: `W` and the primitive width
    are multiples of 8 and one divides the other (all of `u8 … u128`, `usize` at `W ∈ {16,32,64}`) -/
structure PrimOk (W bits : Nat) : Prop where
  hW : 8 ≤ W
  hW8 : W % 8 = 0
  hb8 : bits % 8 = 0
  hfit : bits ≤ W ∨ bits % W = 0
  hb : 1 ≤ bits

/-- `UBig & uN -> uN` and `uN & UBig -> uN`: never panics, returns `x & v` -/
theorem ubigAndPrim_spec (W bits : Nat) (hp : PrimOk W bits) (a : TRepr) (v : Nat) (swap : Bool)
    (ha : a.Canon W) (hv : v < 2 ^ bits) :
    ubigAndPrim W bits a v swap = .ok (a.value W &&& v) := by
  have hW1 : 1 ≤ W := by have := hp.hW; omega
  have hc := fromUnsigned_canon W v hW1
  have hval := fromUnsigned_value W v hW1
  unfold ubigAndPrim
  simp only
  cases swap
  · have ⟨e, c⟩ := TRepr.bitand_spec W a _ ha hc
    simp only [Bool.false_eq_true, if_false]
    rw [tryToUnsigned_spec W bits hp.hW hp.hW8 hp.hb8 hp.hfit _ c, e, hval]
    have : a.value W &&& v < 2 ^ bits := Nat.lt_of_le_of_lt Nat.and_le_right hv
    simp [this, unwrapConv]
  · have ⟨e, c⟩ := TRepr.bitand_spec W _ a hc ha
    simp only [if_true]
    rw [tryToUnsigned_spec W bits hp.hW hp.hW8 hp.hb8 hp.hfit _ c, e, hval, Nat.and_comm]
    have : a.value W &&& v < 2 ^ bits := Nat.lt_of_le_of_lt Nat.and_le_right hv
    simp [this, unwrapConv]

/-- `UBig | uN`, `UBig ^ uN` (and `&=`, `|=`, `^=`): the operator on the converted operand -/
theorem ubigOpPrim_spec (W : Nat) (hW : 1 ≤ W) (o : BitOp) (a : TRepr) (v : Nat) (swap : Bool)
    (ha : a.Canon W) :
    ((ubigOpPrim W o a v swap).value W : Int) = o.spec (a.value W) v ∧ (ubigOpPrim W o a v swap).Canon W := by
  have hc := fromUnsigned_canon W v hW
  have hval := fromUnsigned_value W v hW
  unfold ubigOpPrim
  simp only
  cases swap
  · have ⟨e, c⟩ := BitOp.onU_spec W o a _ ha hc
    simp only [Bool.false_eq_true, if_false]
    exact ⟨by rw [e, hval], c⟩
  · have ⟨e, c⟩ := BitOp.onU_spec W o _ a hc ha
    simp only [if_true]
    exact ⟨by rw [e, hval, BitOp.spec_comm], c⟩

/-- `IBig & uN -> uN` and `uN & IBig -> uN`: never panics (the signed AND with a non-negative operand
    lies in `[0, v]`), returns the two's-complement `x & v` -/
theorem ibigAndPrimU_spec (W bits : Nat) (hp : PrimOk W bits) (a : SRepr) (v : Nat) (swap : Bool)
    (ha : SCanon W a) (hv : v < 2 ^ bits) :
    ∃ r : Nat, ibigAndPrimU W bits a v swap = .ok r ∧ (r : Int) = specAnd (a.value W) v := by
  have hW1 : 1 ≤ W := by have := hp.hW; omega
  have hc : SCanon W ⟨false, fromUnsigned W v⟩ := ⟨fromUnsigned_canon W v hW1, by simp⟩
  have hval : (SRepr.mk false (fromUnsigned W v)).value W = (v : Int) := by
    simp [fromUnsigned_value W v hW1]
  -- range of the result
  have hrange : 0 ≤ specAnd (a.value W) v ∧ specAnd (a.value W) v ≤ v := by
    rcases Int.lt_or_le (a.value W) 0 with hx | hx
    · obtain ⟨m, hm⟩ : ∃ m : Nat, a.value W = -(m : Int) := ⟨(a.value W).natAbs, by omega⟩
      rw [hm, specAnd_np m v (by omega)]
      have := natAndNot_le v (m - 1); omega
    · obtain ⟨m, hm⟩ : ∃ m : Nat, a.value W = (m : Int) := ⟨(a.value W).toNat, by omega⟩
      rw [hm, specAnd_pp]
      have := @Nat.and_le_right m v; omega
  have key : ∀ r : SRepr, SCanon W r → r.value W = specAnd (a.value W) v →
      ∃ n : Nat, unwrapConv (ibigTryToUnsigned W bits r) = .ok n ∧ (n : Int) = specAnd (a.value W) v := by
    intro r hr hrv
    obtain ⟨rn, rm⟩ := r
    have hnn : rn = false := by
      cases rn with
      | false => rfl
      | true =>
        have hz : rm.value W ≠ 0 := hr.2 rfl
        simp only [SRepr.value_mk_true] at hrv
        omega
    subst hnn
    simp only [SRepr.value_mk_false] at hrv
    simp only [ibigTryToUnsigned, Bool.false_eq_true, if_false]
    rw [tryToUnsigned_spec W bits hp.hW hp.hW8 hp.hb8 hp.hfit _ hr.1]
    have : rm.value W < 2 ^ bits := by
      have : (rm.value W : Int) ≤ v := by rw [hrv]; exact hrange.2
      omega
    exact ⟨rm.value W, by simp [this, unwrapConv], hrv⟩
  unfold ibigAndPrimU
  simp only
  cases swap
  · have ⟨e, c⟩ := ibigAnd_spec W hW1 a _ ha hc
    simp only [Bool.false_eq_true, if_false]
    exact key _ c (by rw [e, hval])
  · have ⟨e, c⟩ := ibigAnd_spec W hW1 _ a hc ha
    simp only [if_true]
    exact key _ c (by rw [e, hval]; exact BitOp.spec_comm .and _ _)

/-- `IBig | uN`, `IBig ^ uN` (and the assign forms) -/
theorem ibigOpPrimU_spec (W : Nat) (hW : 1 ≤ W) (o : BitOp) (a : SRepr) (v : Nat) (swap : Bool)
    (ha : SCanon W a) :
    (ibigOpPrimU W o a v swap).value W = o.spec (a.value W) v ∧ SCanon W (ibigOpPrimU W o a v swap) := by
  have hc : SCanon W ⟨false, fromUnsigned W v⟩ := ⟨fromUnsigned_canon W v hW, by simp⟩
  have hval : (SRepr.mk false (fromUnsigned W v)).value W = (v : Int) := by
    simp [fromUnsigned_value W v hW]
  unfold ibigOpPrimU
  simp only
  cases swap
  · have ⟨e, c⟩ := BitOp.onI_spec W hW o a _ ha hc
    simp only [Bool.false_eq_true, if_false]
    exact ⟨by rw [e, hval], c⟩
  · have ⟨e, c⟩ := BitOp.onI_spec W hW o _ a hc ha
    simp only [if_true]
    exact ⟨by rw [e, hval, BitOp.spec_comm], c⟩

/-- `IBig & iN`, `IBig | iN`, `IBig ^ iN` (all forms): the operator on the converted operand -/
theorem ibigOpPrimS_spec (W bits : Nat) (hW : 1 ≤ W) (hb : 1 ≤ bits) (o : BitOp) (a : SRepr) (v : Int)
    (swap : Bool) (ha : SCanon W a) (hv : -(2 ^ (bits - 1) : Int) ≤ v ∧ v ≤ 2 ^ (bits - 1) - 1) :
    (ibigOpPrimS W bits o a v swap).value W = o.spec (a.value W) v ∧
      SCanon W (ibigOpPrimS W bits o a v swap) := by
  have ⟨hc, hval⟩ := fromSigned_spec W bits hW hb v hv
  unfold ibigOpPrimS
  simp only
  cases swap
  · have ⟨e, c⟩ := BitOp.onI_spec W hW o a _ ha hc
    simp only [Bool.false_eq_true, if_false]
    exact ⟨by rw [e, hval], c⟩
  · have ⟨e, c⟩ := BitOp.onI_spec W hW o _ a hc ha
    simp only [if_true]
    exact ⟨by rw [e, hval, BitOp.spec_comm], c⟩

end Dashu.Model
