import Dashu.Model.Int.Bits
import Dashu.Proofs.Int.Repr
import Mathlib.Data.Int.Bitwise
import Mathlib.Data.Nat.Bitwise
/-
  Refinement of the bit-operation layer (`integer/src/bits.rs`, `shift_ops.rs`, `shift.rs`) to the
  two's-complement specification, for every word size `W ≥ 1` and every operand length.
  Method: bit extensionality (`Nat.eq_of_testBit_eq`, `Nat.testBit_two_pow_mul_add`) for the word
  loops, case analysis on signs for the `IBig` tables, Mathlib's `Int.testBit` for the relational
  statement of the specification.
-/
namespace Dashu.Model

-- ================================================================== bits of `a + 2^W * x`

theorem testBit_cons (W a x i : Nat) (ha : a < 2 ^ W) :
    (a + 2 ^ W * x).testBit i = if i < W then a.testBit i else x.testBit (i - W) := by
  rw [Nat.add_comm]; exact Nat.testBit_two_pow_mul_add x ha i

theorem testBit_natAndNot (a b i : Nat) :
    (natAndNot a b).testBit i = (a.testBit i && !b.testBit i) := by
  unfold natAndNot
  rw [Nat.testBit_xor, Nat.testBit_and]
  cases a.testBit i <;> cases b.testBit i <;> rfl

theorem natAndNot_eq_ldiff (a b : Nat) : natAndNot a b = Nat.ldiff a b := by
  apply Nat.eq_of_testBit_eq; intro i
  rw [testBit_natAndNot, Nat.testBit_ldiff]

theorem natAndNot_le (a b : Nat) : natAndNot a b ≤ a := by
  rcases Nat.lt_or_ge a (natAndNot a b) with h | h
  · exfalso
    -- some bit of the result is set where `a` has none
    have hlt : a < 2 ^ a := Nat.lt_two_pow_self
    have : natAndNot a b < 2 ^ a := by
      apply Nat.lt_pow_two_of_testBit
      intro i hi
      rw [testBit_natAndNot]
      have : a.testBit i = false :=
        Nat.testBit_lt_two_pow (Nat.lt_of_lt_of_le hlt (Nat.pow_le_pow_right (by omega) hi))
      simp [this]
    -- compare bitwise: result ⊆ a
    have hsub : natAndNot a b &&& a = natAndNot a b := by
      apply Nat.eq_of_testBit_eq; intro i
      rw [Nat.testBit_and, testBit_natAndNot]
      cases a.testBit i <;> cases b.testBit i <;> rfl
    have := @Nat.and_le_right (natAndNot a b) a
    omega
  · exact h

theorem wnot_lt (W b : Nat) : wnot W b < 2 ^ W := by
  have := Nat.two_pow_pos W; unfold wnot; omega

theorem testBit_wnot (W b i : Nat) (hb : b < 2 ^ W) :
    (wnot W b).testBit i = (decide (i < W) && !b.testBit i) := by
  have : wnot W b = 2 ^ W - (b + 1) := by unfold wnot; omega
  rw [this]; exact Nat.testBit_two_pow_sub_succ hb i

theorem and_cons (W a b x y : Nat) (ha : a < 2 ^ W) (hb : b < 2 ^ W) :
    (a + 2 ^ W * x) &&& (b + 2 ^ W * y) = (a &&& b) + 2 ^ W * (x &&& y) := by
  apply Nat.eq_of_testBit_eq; intro i
  have hab : a &&& b < 2 ^ W := Nat.and_lt_two_pow a hb
  rw [Nat.testBit_and, testBit_cons W a x i ha, testBit_cons W b y i hb, testBit_cons W _ _ i hab]
  split <;> simp [Nat.testBit_and]

theorem or_cons (W a b x y : Nat) (ha : a < 2 ^ W) (hb : b < 2 ^ W) :
    (a + 2 ^ W * x) ||| (b + 2 ^ W * y) = (a ||| b) + 2 ^ W * (x ||| y) := by
  apply Nat.eq_of_testBit_eq; intro i
  have hab : a ||| b < 2 ^ W := Nat.or_lt_two_pow ha hb
  rw [Nat.testBit_or, testBit_cons W a x i ha, testBit_cons W b y i hb, testBit_cons W _ _ i hab]
  split <;> simp [Nat.testBit_or]

theorem xor_cons (W a b x y : Nat) (ha : a < 2 ^ W) (hb : b < 2 ^ W) :
    (a + 2 ^ W * x) ^^^ (b + 2 ^ W * y) = (a ^^^ b) + 2 ^ W * (x ^^^ y) := by
  apply Nat.eq_of_testBit_eq; intro i
  have hab : a ^^^ b < 2 ^ W := Nat.xor_lt_two_pow ha hb
  rw [Nat.testBit_xor, testBit_cons W a x i ha, testBit_cons W b y i hb, testBit_cons W _ _ i hab]
  split <;> simp [Nat.testBit_xor]

theorem andNot_cons (W a b x y : Nat) (ha : a < 2 ^ W) (hb : b < 2 ^ W) :
    natAndNot (a + 2 ^ W * x) (b + 2 ^ W * y) = (a &&& wnot W b) + 2 ^ W * natAndNot x y := by
  apply Nat.eq_of_testBit_eq; intro i
  have hab : a &&& wnot W b < 2 ^ W := Nat.and_lt_two_pow a (wnot_lt W b)
  rw [testBit_natAndNot, testBit_cons W a x i ha, testBit_cons W b y i hb, testBit_cons W _ _ i hab]
  split
  · rename_i h; simp [Nat.testBit_and, testBit_wnot W b i hb, h]
  · simp [testBit_natAndNot]

-- ================================================================== word loops

theorem val_zipAnd (W : Nat) (a b : List Nat) (ha : IsWords W a) (hb : IsWords W b) :
    val W (zipAnd a b) = val W a &&& val W b ∧ IsWords W (zipAnd a b) := by
  induction a generalizing b with
  | nil => cases b <;> simp [zipAnd, IsWords.nil]
  | cons x xs ih =>
    cases b with
    | nil => simp [zipAnd, IsWords.nil]
    | cons y ys =>
      have ⟨e, w⟩ := ih ys ha.tail hb.tail
      simp only [zipAnd, val_cons]
      rw [and_cons W x y _ _ ha.head hb.head, e]
      exact ⟨rfl, IsWords.cons (Nat.and_lt_two_pow x hb.head) w⟩

theorem val_zipOr (W : Nat) (a b : List Nat) (ha : IsWords W a) (hb : IsWords W b) :
    val W (zipOr a b) = val W a ||| val W b ∧ IsWords W (zipOr a b) := by
  induction a generalizing b with
  | nil => cases b <;> simp [zipOr, IsWords.nil, hb]
  | cons x xs ih =>
    cases b with
    | nil => simp [zipOr, ha]
    | cons y ys =>
      have ⟨e, w⟩ := ih ys ha.tail hb.tail
      simp only [zipOr, val_cons]
      rw [or_cons W x y _ _ ha.head hb.head, e]
      exact ⟨rfl, IsWords.cons (Nat.or_lt_two_pow ha.head hb.head) w⟩

theorem val_zipXor (W : Nat) (a b : List Nat) (ha : IsWords W a) (hb : IsWords W b) :
    val W (zipXor a b) = val W a ^^^ val W b ∧ IsWords W (zipXor a b) := by
  induction a generalizing b with
  | nil => cases b <;> simp [zipXor, IsWords.nil, hb]
  | cons x xs ih =>
    cases b with
    | nil => simp [zipXor, ha]
    | cons y ys =>
      have ⟨e, w⟩ := ih ys ha.tail hb.tail
      simp only [zipXor, val_cons]
      rw [xor_cons W x y _ _ ha.head hb.head, e]
      exact ⟨rfl, IsWords.cons (Nat.xor_lt_two_pow ha.head hb.head) w⟩

theorem natAndNot_zero_left (b : Nat) : natAndNot 0 b = 0 := by simp [natAndNot]
theorem natAndNot_zero_right (a : Nat) : natAndNot a 0 = a := by simp [natAndNot]

theorem val_zipAndNot (W : Nat) (a b : List Nat) (ha : IsWords W a) (hb : IsWords W b) :
    val W (zipAndNot W a b) = natAndNot (val W a) (val W b) ∧ IsWords W (zipAndNot W a b) := by
  induction a generalizing b with
  | nil => cases b <;> simp [zipAndNot, IsWords.nil, natAndNot_zero_left]
  | cons x xs ih =>
    cases b with
    | nil => simp [zipAndNot, ha, natAndNot_zero_right]
    | cons y ys =>
      have ⟨e, w⟩ := ih ys ha.tail hb.tail
      simp only [zipAndNot, val_cons]
      rw [andNot_cons W x y _ _ ha.head hb.head, e]
      exact ⟨rfl, IsWords.cons (Nat.and_lt_two_pow x (wnot_lt W y)) w⟩


-- ================================================================== dispatch layer (TypedRepr)

theorem testBit_false_of_lt {x n i : Nat} (hx : x < 2 ^ n) (hi : n ≤ i) : x.testBit i = false :=
  Nat.testBit_lt_two_pow (Nat.lt_of_lt_of_le hx (Nat.pow_le_pow_right (by omega) hi))

theorem lowestDword_eq (W : Nat) (ws : List Nat) (hw : IsWords W ws) (hl : 2 ≤ ws.length) :
    val W ws % 2 ^ (2 * W) = lowestDword W ws := by
  obtain ⟨a, b, t, rfl⟩ := exists_cons_cons hl
  have ha := hw.head
  have hb := hw.tail.head
  have hp : 0 < 2 ^ W := Nat.two_pow_pos W
  simp only [lowestDword, val_cons, List.getD_cons_zero, List.getD_cons_succ]
  have e : a + 2 ^ W * (b + 2 ^ W * val W t) = (a + 2 ^ W * b) + 2 ^ (2 * W) * val W t := by
    rw [two_pow_two_mul]; ring
  rw [e, Nat.add_mul_mod_self_left]
  apply Nat.mod_eq_of_lt
  rw [two_pow_two_mul]
  nlinarith

theorem and_mod_of_lt (x v n : Nat) (hx : x < 2 ^ n) : x &&& v = x &&& (v % 2 ^ n) := by
  apply Nat.eq_of_testBit_eq; intro i
  rw [Nat.testBit_and, Nat.testBit_and, Nat.testBit_mod_two_pow]
  by_cases h : i < n
  · simp [h]
  · simp [testBit_false_of_lt hx (Nat.le_of_not_lt h)]

theorem natAndNot_mod_of_lt (x v n : Nat) (hx : x < 2 ^ n) :
    natAndNot x v = x &&& (2 ^ n - 1 - v % 2 ^ n) := by
  apply Nat.eq_of_testBit_eq; intro i
  have hv : v % 2 ^ n < 2 ^ n := Nat.mod_lt _ (Nat.two_pow_pos n)
  have := testBit_wnot n (v % 2 ^ n) i hv
  unfold wnot at this
  rw [testBit_natAndNot, Nat.testBit_and, this, Nat.testBit_mod_two_pow]
  by_cases h : i < n
  · simp [h]
  · simp [testBit_false_of_lt hx (Nat.le_of_not_lt h)]

theorem val_opLargeDword (W : Nat) (f F : Nat → Nat → Nat)
    (hcons : ∀ a b x y, a < 2 ^ W → b < 2 ^ W →
      F (a + 2 ^ W * x) (b + 2 ^ W * y) = f a b + 2 ^ W * F x y)
    (hlt : ∀ a b, a < 2 ^ W → b < 2 ^ W → f a b < 2 ^ W)
    (hz : ∀ x, F x 0 = x)
    (ws : List Nat) (d : Nat) (hw : IsWords W ws) (hl : 2 ≤ ws.length) (hd : d < 2 ^ (2 * W)) :
    val W (opLargeDword W f ws d) = F (val W ws) d ∧ IsWords W (opLargeDword W f ws d) := by
  obtain ⟨w0, w1, t, rfl⟩ := exists_cons_cons hl
  have h0 := hw.head
  have h1 := hw.tail.head
  have hp : 0 < 2 ^ W := Nat.two_pow_pos W
  have hd0 : d % 2 ^ W < 2 ^ W := Nat.mod_lt _ hp
  have hd1 : d / 2 ^ W < 2 ^ W := by
    rw [Nat.div_lt_iff_lt_mul hp, ← two_pow_two_mul]; exact hd
  have hdd : d = d % 2 ^ W + 2 ^ W * (d / 2 ^ W + 2 ^ W * 0) := by
    simp [Nat.mod_add_div]
  simp only [opLargeDword, val_cons]
  refine ⟨?_, IsWords.cons (hlt _ _ h0 hd0) (IsWords.cons (hlt _ _ h1 hd1) hw.tail.tail)⟩
  conv => rhs; rw [hdd]
  rw [hcons _ _ _ _ h0 hd0, hcons _ _ _ _ h1 hd1, hz]

theorem TRepr.bitand_spec (W : Nat) (a b : TRepr) (ha : a.Canon W) (hb : b.Canon W) :
    (a.bitand W b).value W = a.value W &&& b.value W ∧ (a.bitand W b).Canon W := by
  cases a with
  | small x =>
    have hx : x < 2 ^ (2 * W) := ha
    cases b with
    | small y =>
      exact ⟨rfl, Nat.lt_of_le_of_lt Nat.and_le_left hx⟩
    | large ws =>
      simp only [TRepr.bitand, TRepr.value_small, TRepr.value_large]
      refine ⟨?_, Nat.lt_of_le_of_lt Nat.and_le_left hx⟩
      rw [and_mod_of_lt x (val W ws) _ hx, lowestDword_eq W ws hb.large_words (by have := hb.large_len; omega)]
  | large ws =>
    cases b with
    | small y =>
      have hy : y < 2 ^ (2 * W) := hb
      simp only [TRepr.bitand, TRepr.value_small, TRepr.value_large]
      refine ⟨?_, Nat.lt_of_le_of_lt Nat.and_le_right hy⟩
      rw [Nat.and_comm (val W ws) y, and_mod_of_lt y (val W ws) _ hy,
        lowestDword_eq W ws ha.large_words (by have := ha.large_len; omega), Nat.and_comm]
    | large vs =>
      have ⟨e, w⟩ := val_zipAnd W ws vs ha.large_words hb.large_words
      simp only [TRepr.bitand, TRepr.value_large]
      exact ⟨by rw [fromBuffer_value, e], fromBuffer_canon W _ w⟩

theorem TRepr.bitor_spec (W : Nat) (a b : TRepr) (ha : a.Canon W) (hb : b.Canon W) :
    (a.bitor W b).value W = a.value W ||| b.value W ∧ (a.bitor W b).Canon W := by
  have hop := val_opLargeDword W (· ||| ·) (· ||| ·) (fun a b x y h1 h2 => or_cons W a b x y h1 h2)
    (fun a b h1 h2 => Nat.or_lt_two_pow h1 h2) (fun x => Nat.or_zero x)
  cases a with
  | small x =>
    have hx : x < 2 ^ (2 * W) := ha
    cases b with
    | small y => exact ⟨rfl, Nat.or_lt_two_pow hx hb⟩
    | large ws =>
      have ⟨e, w⟩ := hop ws x hb.large_words (by have := hb.large_len; omega) hx
      simp only [TRepr.bitor, TRepr.value_small, TRepr.value_large]
      exact ⟨by rw [fromBuffer_value, e, Nat.or_comm], fromBuffer_canon W _ w⟩
  | large ws =>
    cases b with
    | small y =>
      have ⟨e, w⟩ := hop ws y ha.large_words (by have := ha.large_len; omega) hb
      simp only [TRepr.bitor, TRepr.value_small, TRepr.value_large]
      exact ⟨by rw [fromBuffer_value, e], fromBuffer_canon W _ w⟩
    | large vs =>
      have ⟨e, w⟩ := val_zipOr W ws vs ha.large_words hb.large_words
      simp only [TRepr.bitor, TRepr.value_large]
      exact ⟨by rw [fromBuffer_value, e], fromBuffer_canon W _ w⟩

theorem TRepr.bitxor_spec (W : Nat) (a b : TRepr) (ha : a.Canon W) (hb : b.Canon W) :
    (a.bitxor W b).value W = a.value W ^^^ b.value W ∧ (a.bitxor W b).Canon W := by
  have hop := val_opLargeDword W (· ^^^ ·) (· ^^^ ·) (fun a b x y h1 h2 => xor_cons W a b x y h1 h2)
    (fun a b h1 h2 => Nat.xor_lt_two_pow h1 h2) (fun x => Nat.xor_zero x)
  cases a with
  | small x =>
    have hx : x < 2 ^ (2 * W) := ha
    cases b with
    | small y => exact ⟨rfl, Nat.xor_lt_two_pow hx hb⟩
    | large ws =>
      have ⟨e, w⟩ := hop ws x hb.large_words (by have := hb.large_len; omega) hx
      simp only [TRepr.bitxor, TRepr.value_small, TRepr.value_large]
      exact ⟨by rw [fromBuffer_value, e, Nat.xor_comm], fromBuffer_canon W _ w⟩
  | large ws =>
    cases b with
    | small y =>
      have ⟨e, w⟩ := hop ws y ha.large_words (by have := ha.large_len; omega) hb
      simp only [TRepr.bitxor, TRepr.value_small, TRepr.value_large]
      exact ⟨by rw [fromBuffer_value, e], fromBuffer_canon W _ w⟩
    | large vs =>
      have ⟨e, w⟩ := val_zipXor W ws vs ha.large_words hb.large_words
      simp only [TRepr.bitxor, TRepr.value_large]
      exact ⟨by rw [fromBuffer_value, e], fromBuffer_canon W _ w⟩

theorem TRepr.andNot_spec (W : Nat) (a b : TRepr) (ha : a.Canon W) (hb : b.Canon W) :
    (a.andNot W b).value W = natAndNot (a.value W) (b.value W) ∧ (a.andNot W b).Canon W := by
  have hop := val_opLargeDword W (fun p q => p &&& wnot W q) natAndNot
    (fun a b x y h1 h2 => andNot_cons W a b x y h1 h2)
    (fun a b _ _ => Nat.and_lt_two_pow a (wnot_lt W b)) natAndNot_zero_right
  cases a with
  | small x =>
    have hx : x < 2 ^ (2 * W) := ha
    cases b with
    | small y =>
      have hy : y < 2 ^ (2 * W) := hb
      simp only [TRepr.andNot, TRepr.value_small]
      refine ⟨?_, Nat.lt_of_le_of_lt Nat.and_le_left hx⟩
      rw [natAndNot_mod_of_lt x y _ hx, Nat.mod_eq_of_lt hy]
    | large ws =>
      simp only [TRepr.andNot, TRepr.value_small, TRepr.value_large]
      refine ⟨?_, Nat.lt_of_le_of_lt Nat.and_le_left hx⟩
      rw [natAndNot_mod_of_lt x (val W ws) _ hx,
        lowestDword_eq W ws hb.large_words (by have := hb.large_len; omega)]
  | large ws =>
    cases b with
    | small y =>
      have ⟨e, w⟩ := hop ws y ha.large_words (by have := ha.large_len; omega) hb
      simp only [TRepr.andNot, TRepr.value_small, TRepr.value_large]
      exact ⟨by rw [fromBuffer_value, e], fromBuffer_canon W _ w⟩
    | large vs =>
      have ⟨e, w⟩ := val_zipAndNot W ws vs ha.large_words hb.large_words
      simp only [TRepr.andNot, TRepr.value_large]
      exact ⟨by rw [fromBuffer_value, e], fromBuffer_canon W _ w⟩

-- ================================================================== add_one / sub_one

theorem magAddOne_spec (W : Nat) (hW : 1 ≤ W) (m : TRepr) (hm : m.Canon W) :
    (magAddOne W m).value W = m.value W + 1 ∧ (magAddOne W m).Canon W := by
  cases m with
  | small d =>
    have h1 : 1 < 2 ^ (2 * W) := Nat.one_lt_two_pow (by omega)
    exact ⟨addDword_value W d 1 hm h1, addDword_canon W d 1 hm h1⟩
  | large ws =>
    have ⟨e, l, w, c⟩ := addOne_spec W ws hm.large_words
    simp only [magAddOne, TRepr.value_large]
    by_cases hc : (addOne W ws).2 = 0
    · simp only [hc, if_true, Nat.mul_zero, Nat.add_zero] at e ⊢
      exact ⟨by rw [fromBuffer_value, e], fromBuffer_canon W _ w⟩
    · have hc1 : (addOne W ws).2 = 1 := by omega
      simp only [hc, if_false]
      refine ⟨?_, fromBuffer_canon W _ (IsWords.append w (isWords_one W hW))⟩
      rw [fromBuffer_value, val_append, l, ← e, hc1]; simp

theorem magSubOne_spec (W : Nat) (m : TRepr) (hm : m.Canon W) (hz : m.value W ≠ 0) :
    (magSubOne W m).value W = m.value W - 1 ∧ (magSubOne W m).Canon W := by
  cases m with
  | small d =>
    have hd : d < 2 ^ (2 * W) := hm
    exact ⟨rfl, show d - 1 < 2 ^ (2 * W) by omega⟩
  | large ws =>
    have ⟨e, l, w, c⟩ := subOne_spec W ws hm.large_words
    simp only [magSubOne, TRepr.value_large] at hz ⊢
    refine ⟨?_, fromBuffer_canon W _ w⟩
    rw [fromBuffer_value]
    have hlt := val_lt W _ w
    rw [l] at hlt
    have hc0 : (subOne W ws).2 = 0 := by
      rcases Nat.eq_zero_or_pos (subOne W ws).2 with h | h
      · exact h
      · have h1 : (subOne W ws).2 = 1 := by omega
        rw [h1] at e; omega
    rw [hc0] at e; omega


-- ================================================================== the specification on sign cases

theorem specAnd_pp (x y : Nat) : specAnd (x : Int) (y : Int) = ((x &&& y : Nat) : Int) := by
  have h1 : (0 : Int) ≤ (x : Int) := Int.natCast_nonneg x
  have h2 : (0 : Int) ≤ (y : Int) := Int.natCast_nonneg y
  simp only [specAnd, h1, h2, if_true, Int.toNat_natCast]

theorem specAnd_pn (x y : Nat) (hy : y ≠ 0) :
    specAnd (x : Int) (-(y : Int)) = ((natAndNot x (y - 1) : Nat) : Int) := by
  have h1 : (0 : Int) ≤ (x : Int) := Int.natCast_nonneg x
  have h2 : ¬ (0 : Int) ≤ -(y : Int) := by omega
  have h3 : (compl (-(y : Int))).toNat = y - 1 := by unfold compl; omega
  simp only [specAnd, h1, h2, if_true, if_false, Int.toNat_natCast, h3]

theorem specAnd_np (x y : Nat) (hx : x ≠ 0) :
    specAnd (-(x : Int)) (y : Int) = ((natAndNot y (x - 1) : Nat) : Int) := by
  have h1 : (0 : Int) ≤ (y : Int) := Int.natCast_nonneg y
  have h2 : ¬ (0 : Int) ≤ -(x : Int) := by omega
  have h3 : (compl (-(x : Int))).toNat = x - 1 := by unfold compl; omega
  simp only [specAnd, h1, h2, if_true, if_false, Int.toNat_natCast, h3]

theorem specAnd_nn (x y : Nat) (hx : x ≠ 0) (hy : y ≠ 0) :
    specAnd (-(x : Int)) (-(y : Int)) = compl (((x - 1) ||| (y - 1) : Nat) : Int) := by
  have h1 : ¬ (0 : Int) ≤ -(x : Int) := by omega
  have h2 : ¬ (0 : Int) ≤ -(y : Int) := by omega
  have h3 : (compl (-(x : Int))).toNat = x - 1 := by unfold compl; omega
  have h4 : (compl (-(y : Int))).toNat = y - 1 := by unfold compl; omega
  simp only [specAnd, h1, h2, if_false, h3, h4]

theorem specOr_pp (x y : Nat) : specOr (x : Int) (y : Int) = ((x ||| y : Nat) : Int) := by
  have h1 : (0 : Int) ≤ (x : Int) := Int.natCast_nonneg x
  have h2 : (0 : Int) ≤ (y : Int) := Int.natCast_nonneg y
  simp only [specOr, h1, h2, if_true, Int.toNat_natCast]

theorem specOr_pn (x y : Nat) (hy : y ≠ 0) :
    specOr (x : Int) (-(y : Int)) = compl ((natAndNot (y - 1) x : Nat) : Int) := by
  have h1 : (0 : Int) ≤ (x : Int) := Int.natCast_nonneg x
  have h2 : ¬ (0 : Int) ≤ -(y : Int) := by omega
  have h3 : (compl (-(y : Int))).toNat = y - 1 := by unfold compl; omega
  simp only [specOr, h1, h2, if_true, if_false, Int.toNat_natCast, h3]

theorem specOr_np (x y : Nat) (hx : x ≠ 0) :
    specOr (-(x : Int)) (y : Int) = compl ((natAndNot (x - 1) y : Nat) : Int) := by
  have h1 : (0 : Int) ≤ (y : Int) := Int.natCast_nonneg y
  have h2 : ¬ (0 : Int) ≤ -(x : Int) := by omega
  have h3 : (compl (-(x : Int))).toNat = x - 1 := by unfold compl; omega
  simp only [specOr, h1, h2, if_true, if_false, Int.toNat_natCast, h3]

theorem specOr_nn (x y : Nat) (hx : x ≠ 0) (hy : y ≠ 0) :
    specOr (-(x : Int)) (-(y : Int)) = compl (((x - 1) &&& (y - 1) : Nat) : Int) := by
  have h1 : ¬ (0 : Int) ≤ -(x : Int) := by omega
  have h2 : ¬ (0 : Int) ≤ -(y : Int) := by omega
  have h3 : (compl (-(x : Int))).toNat = x - 1 := by unfold compl; omega
  have h4 : (compl (-(y : Int))).toNat = y - 1 := by unfold compl; omega
  simp only [specOr, h1, h2, if_false, h3, h4]

theorem specXor_pp (x y : Nat) : specXor (x : Int) (y : Int) = ((x ^^^ y : Nat) : Int) := by
  have h1 : (0 : Int) ≤ (x : Int) := Int.natCast_nonneg x
  have h2 : (0 : Int) ≤ (y : Int) := Int.natCast_nonneg y
  simp only [specXor, h1, h2, if_true, Int.toNat_natCast]

theorem specXor_pn (x y : Nat) (hy : y ≠ 0) :
    specXor (x : Int) (-(y : Int)) = compl ((x ^^^ (y - 1) : Nat) : Int) := by
  have h1 : (0 : Int) ≤ (x : Int) := Int.natCast_nonneg x
  have h2 : ¬ (0 : Int) ≤ -(y : Int) := by omega
  have h3 : (compl (-(y : Int))).toNat = y - 1 := by unfold compl; omega
  simp only [specXor, h1, h2, if_true, if_false, Int.toNat_natCast, h3]

theorem specXor_np (x y : Nat) (hx : x ≠ 0) :
    specXor (-(x : Int)) (y : Int) = compl (((x - 1) ^^^ y : Nat) : Int) := by
  have h1 : (0 : Int) ≤ (y : Int) := Int.natCast_nonneg y
  have h2 : ¬ (0 : Int) ≤ -(x : Int) := by omega
  have h3 : (compl (-(x : Int))).toNat = x - 1 := by unfold compl; omega
  simp only [specXor, h1, h2, if_true, if_false, Int.toNat_natCast, h3]

theorem specXor_nn (x y : Nat) (hx : x ≠ 0) (hy : y ≠ 0) :
    specXor (-(x : Int)) (-(y : Int)) = (((x - 1) ^^^ (y - 1) : Nat) : Int) := by
  have h1 : ¬ (0 : Int) ≤ -(x : Int) := by omega
  have h2 : ¬ (0 : Int) ≤ -(y : Int) := by omega
  have h3 : (compl (-(x : Int))).toNat = x - 1 := by unfold compl; omega
  have h4 : (compl (-(y : Int))).toNat = y - 1 := by unfold compl; omega
  simp only [specXor, h1, h2, if_false, h3, h4]

-- ================================================================== IBig sign tables

theorem SCanon_iff_WF (W : Nat) (r : SRepr) : SCanon W r ↔ r.WF W := Iff.rfl

@[simp] theorem SRepr.value_mk_false (W : Nat) (m : TRepr) :
    (SRepr.mk false m).value W = (m.value W : Int) := by simp [SRepr.value]

@[simp] theorem SRepr.value_mk_true (W : Nat) (m : TRepr) :
    (SRepr.mk true m).value W = -(m.value W : Int) := by simp [SRepr.value]

theorem posRepr_value (W : Nat) (m : TRepr) : (posRepr m).value W = (m.value W : Int) := by
  simp [posRepr]

theorem posRepr_canon (W : Nat) (m : TRepr) (h : m.Canon W) : SCanon W (posRepr m) :=
  ⟨h, by simp [posRepr]⟩

theorem ibigNot_spec (W : Nat) (hW : 1 ≤ W) (a : SRepr) (ha : SCanon W a) :
    (ibigNot W a).value W = compl (a.value W) ∧ SCanon W (ibigNot W a) := by
  obtain ⟨an, am⟩ := a
  obtain ⟨hc, hz⟩ := ha
  cases an with
  | true =>
    have hz' : am.value W ≠ 0 := hz rfl
    have ⟨e, c⟩ := magSubOne_spec W am hc hz'
    simp only [ibigNot, if_true]
    refine ⟨?_, withSign_wf W _ _ c⟩
    rw [withSign_value, e]
    simp only [SRepr.value_mk_true, compl, Bool.false_eq_true, ↓reduceIte]
    omega
  | false =>
    have ⟨e, c⟩ := magAddOne_spec W hW am hc
    simp only [ibigNot, Bool.false_eq_true, if_false]
    refine ⟨?_, withSign_wf W _ _ c⟩
    rw [withSign_value, e]
    simp only [SRepr.value_mk_false, compl, ↓reduceIte]
    omega

theorem ibigAnd_spec (W : Nat) (hW : 1 ≤ W) (a b : SRepr) (ha : SCanon W a) (hb : SCanon W b) :
    (ibigAnd W a b).value W = specAnd (a.value W) (b.value W) ∧ SCanon W (ibigAnd W a b) := by
  obtain ⟨an, am⟩ := a
  obtain ⟨bn, bm⟩ := b
  obtain ⟨hca, hza⟩ := ha
  obtain ⟨hcb, hzb⟩ := hb
  cases an <;> cases bn <;> simp only [ibigAnd, SRepr.value_mk_false, SRepr.value_mk_true]
  · have ⟨e, c⟩ := TRepr.bitand_spec W am bm hca hcb
    exact ⟨by rw [posRepr_value, e, specAnd_pp], posRepr_canon W _ c⟩
  · have hz : bm.value W ≠ 0 := hzb rfl
    have ⟨e1, c1⟩ := magSubOne_spec W bm hcb hz
    have ⟨e, c⟩ := TRepr.andNot_spec W am _ hca c1
    exact ⟨by rw [posRepr_value, e, e1, specAnd_pn _ _ hz], posRepr_canon W _ c⟩
  · have hz : am.value W ≠ 0 := hza rfl
    have ⟨e1, c1⟩ := magSubOne_spec W am hca hz
    have ⟨e, c⟩ := TRepr.andNot_spec W bm _ hcb c1
    exact ⟨by rw [posRepr_value, e, e1, specAnd_np _ _ hz], posRepr_canon W _ c⟩
  · have hz0 : am.value W ≠ 0 := hza rfl
    have hz1 : bm.value W ≠ 0 := hzb rfl
    have ⟨e0, c0⟩ := magSubOne_spec W am hca hz0
    have ⟨e1, c1⟩ := magSubOne_spec W bm hcb hz1
    have ⟨e, c⟩ := TRepr.bitor_spec W _ _ c0 c1
    have ⟨en, cn⟩ := ibigNot_spec W hW _ (posRepr_canon W _ c)
    exact ⟨by rw [en, posRepr_value, e, e0, e1, specAnd_nn _ _ hz0 hz1], cn⟩

theorem ibigOr_spec (W : Nat) (hW : 1 ≤ W) (a b : SRepr) (ha : SCanon W a) (hb : SCanon W b) :
    (ibigOr W a b).value W = specOr (a.value W) (b.value W) ∧ SCanon W (ibigOr W a b) := by
  obtain ⟨an, am⟩ := a
  obtain ⟨bn, bm⟩ := b
  obtain ⟨hca, hza⟩ := ha
  obtain ⟨hcb, hzb⟩ := hb
  cases an <;> cases bn <;> simp only [ibigOr, SRepr.value_mk_false, SRepr.value_mk_true]
  · have ⟨e, c⟩ := TRepr.bitor_spec W am bm hca hcb
    exact ⟨by rw [posRepr_value, e, specOr_pp], posRepr_canon W _ c⟩
  · have hz : bm.value W ≠ 0 := hzb rfl
    have ⟨e1, c1⟩ := magSubOne_spec W bm hcb hz
    have ⟨e, c⟩ := TRepr.andNot_spec W _ am c1 hca
    have ⟨en, cn⟩ := ibigNot_spec W hW _ (posRepr_canon W _ c)
    exact ⟨by rw [en, posRepr_value, e, e1, specOr_pn _ _ hz], cn⟩
  · have hz : am.value W ≠ 0 := hza rfl
    have ⟨e1, c1⟩ := magSubOne_spec W am hca hz
    have ⟨e, c⟩ := TRepr.andNot_spec W _ bm c1 hcb
    have ⟨en, cn⟩ := ibigNot_spec W hW _ (posRepr_canon W _ c)
    exact ⟨by rw [en, posRepr_value, e, e1, specOr_np _ _ hz], cn⟩
  · have hz0 : am.value W ≠ 0 := hza rfl
    have hz1 : bm.value W ≠ 0 := hzb rfl
    have ⟨e0, c0⟩ := magSubOne_spec W am hca hz0
    have ⟨e1, c1⟩ := magSubOne_spec W bm hcb hz1
    have ⟨e, c⟩ := TRepr.bitand_spec W _ _ c0 c1
    have ⟨en, cn⟩ := ibigNot_spec W hW _ (posRepr_canon W _ c)
    exact ⟨by rw [en, posRepr_value, e, e0, e1, specOr_nn _ _ hz0 hz1], cn⟩

theorem ibigXor_spec (W : Nat) (hW : 1 ≤ W) (a b : SRepr) (ha : SCanon W a) (hb : SCanon W b) :
    (ibigXor W a b).value W = specXor (a.value W) (b.value W) ∧ SCanon W (ibigXor W a b) := by
  obtain ⟨an, am⟩ := a
  obtain ⟨bn, bm⟩ := b
  obtain ⟨hca, hza⟩ := ha
  obtain ⟨hcb, hzb⟩ := hb
  cases an <;> cases bn <;> simp only [ibigXor, SRepr.value_mk_false, SRepr.value_mk_true]
  · have ⟨e, c⟩ := TRepr.bitxor_spec W am bm hca hcb
    exact ⟨by rw [posRepr_value, e, specXor_pp], posRepr_canon W _ c⟩
  · have hz : bm.value W ≠ 0 := hzb rfl
    have ⟨e1, c1⟩ := magSubOne_spec W bm hcb hz
    have ⟨e, c⟩ := TRepr.bitxor_spec W am _ hca c1
    have ⟨en, cn⟩ := ibigNot_spec W hW _ (posRepr_canon W _ c)
    exact ⟨by rw [en, posRepr_value, e, e1, specXor_pn _ _ hz], cn⟩
  · have hz : am.value W ≠ 0 := hza rfl
    have ⟨e1, c1⟩ := magSubOne_spec W am hca hz
    have ⟨e, c⟩ := TRepr.bitxor_spec W _ bm c1 hcb
    have ⟨en, cn⟩ := ibigNot_spec W hW _ (posRepr_canon W _ c)
    exact ⟨by rw [en, posRepr_value, e, e1, specXor_np _ _ hz], cn⟩
  · have hz0 : am.value W ≠ 0 := hza rfl
    have hz1 : bm.value W ≠ 0 := hzb rfl
    have ⟨e0, c0⟩ := magSubOne_spec W am hca hz0
    have ⟨e1, c1⟩ := magSubOne_spec W bm hcb hz1
    have ⟨e, c⟩ := TRepr.bitxor_spec W _ _ c0 c1
    exact ⟨by rw [posRepr_value, e, e0, e1, specXor_nn _ _ hz0 hz1], posRepr_canon W _ c⟩

/-- `UBig & IBig -> UBig` -/
theorem ubigIbigAnd_spec (W : Nat) (a : TRepr) (b : SRepr) (ha : a.Canon W) (hb : SCanon W b) :
    ((ubigIbigAnd W a b).value W : Int) = specAnd (a.value W) (b.value W) ∧
      (ubigIbigAnd W a b).Canon W := by
  obtain ⟨bn, bm⟩ := b
  obtain ⟨hcb, hzb⟩ := hb
  cases bn <;> simp only [ubigIbigAnd, SRepr.value_mk_false, SRepr.value_mk_true, if_true,
    Bool.false_eq_true, if_false]
  · have ⟨e, c⟩ := TRepr.bitand_spec W a bm ha hcb
    exact ⟨by rw [e, specAnd_pp], c⟩
  · have hz : bm.value W ≠ 0 := hzb rfl
    have ⟨e1, c1⟩ := magSubOne_spec W bm hcb hz
    have ⟨e, c⟩ := TRepr.andNot_spec W a _ ha c1
    exact ⟨by rw [e, e1, specAnd_pn _ _ hz], c⟩

/-- `IBig & UBig -> UBig` -/
theorem ibigUbigAnd_spec (W : Nat) (a : SRepr) (b : TRepr) (ha : SCanon W a) (hb : b.Canon W) :
    ((ibigUbigAnd W a b).value W : Int) = specAnd (a.value W) (b.value W) ∧
      (ibigUbigAnd W a b).Canon W := by
  obtain ⟨an, am⟩ := a
  obtain ⟨hca, hza⟩ := ha
  cases an <;> simp only [ibigUbigAnd, SRepr.value_mk_false, SRepr.value_mk_true, if_true,
    Bool.false_eq_true, if_false]
  · have ⟨e, c⟩ := TRepr.bitand_spec W b am hb hca
    exact ⟨by rw [e, specAnd_pp, Nat.and_comm], c⟩
  · have hz : am.value W ≠ 0 := hza rfl
    have ⟨e1, c1⟩ := magSubOne_spec W am hca hz
    have ⟨e, c⟩ := TRepr.andNot_spec W b _ hb c1
    exact ⟨by rw [e, e1, specAnd_np _ _ hz], c⟩

-- ================================================================== the specification is two's complement

theorem specBit_natCast (n i : Nat) : specBit (n : Int) i = n.testBit i := by
  unfold specBit
  rw [Nat.testBit_eq_decide_div_mod_eq]
  have h : ((n : Int) / (2 : Int) ^ i) % 2 = (((n / 2 ^ i) % 2 : Nat) : Int) := by
    push_cast; rfl
  rw [h]
  by_cases hb : n / 2 ^ i % 2 = 1
  · simp [hb]
  · have : n / 2 ^ i % 2 = 0 := by omega
    simp [this]

theorem specBit_negSucc (n i : Nat) : specBit (Int.negSucc n) i = !n.testBit i := by
  unfold specBit
  have hpos : (0 : Int) < (2 : Int) ^ i := by positivity
  rw [Int.negSucc_ediv n hpos, Nat.testBit_eq_decide_div_mod_eq]
  have h : (Int.ediv (n : Int) ((2 : Int) ^ i)) = (((n / 2 ^ i) : Nat) : Int) := by
    show (n : Int) / (2 : Int) ^ i = _
    push_cast; rfl
  rw [h]
  generalize n / 2 ^ i = q
  have key : ((-(((q : Nat) : Int) + 1)) % 2 = 1) ↔ ¬ (q % 2 = 1) := by omega
  simp only [key, decide_not]

/-- the specification's bit function is Mathlib's `Int.testBit` -/
theorem specBit_eq_testBit (x : Int) (i : Nat) : specBit x i = Int.testBit x i := by
  cases x with
  | ofNat n => exact specBit_natCast n i
  | negSucc n => exact specBit_negSucc n i

/-- an integer is determined by its (infinitely many) two's-complement bits -/
theorem int_eq_of_testBit_eq (a b : Int) (h : ∀ i, Int.testBit a i = Int.testBit b i) : a = b := by
  have big : ∀ m n : Nat, m.testBit (m + n) = false ∧ n.testBit (m + n) = false := fun m n =>
    ⟨testBit_false_of_lt Nat.lt_two_pow_self (by omega), testBit_false_of_lt Nat.lt_two_pow_self (by omega)⟩
  cases a with
  | ofNat m =>
    cases b with
    | ofNat n => exact congrArg Int.ofNat (Nat.eq_of_testBit_eq h)
    | negSucc n =>
      have := h (m + n); simp only [Int.testBit] at this
      rw [(big m n).1, (big m n).2] at this; simp at this
  | negSucc m =>
    cases b with
    | ofNat n =>
      have := h (m + n); simp only [Int.testBit] at this
      rw [(big m n).1, (big m n).2] at this; simp at this
    | negSucc n =>
      refine congrArg Int.negSucc (Nat.eq_of_testBit_eq fun i => ?_)
      have := h i; simp only [Int.testBit] at this
      cases hm : m.testBit i <;> cases hn : n.testBit i <;> simp_all

theorem int_eq_of_specBit_eq (a b : Int) (h : ∀ i, specBit a i = specBit b i) : a = b :=
  int_eq_of_testBit_eq a b fun i => by rw [← specBit_eq_testBit, ← specBit_eq_testBit]; exact h i

theorem compl_eq_lnot (x : Int) : compl x = Int.lnot x := by
  cases x with
  | ofNat n =>
    show -((n : Nat) : Int) - 1 = Int.negSucc n
    omega
  | negSucc n =>
    show -(Int.negSucc n) - 1 = ((n : Nat) : Int)
    omega

theorem specAnd_eq_land (x y : Int) : specAnd x y = Int.land x y := by
  cases x with
  | ofNat m =>
    cases y with
    | ofNat n => exact specAnd_pp m n
    | negSucc n =>
      have : Int.negSucc n = -((n + 1 : Nat) : Int) := by omega
      rw [this]
      show specAnd ((m : Nat) : Int) _ = _
      rw [specAnd_pn m (n + 1) (by omega), natAndNot_eq_ldiff]; rfl
  | negSucc m =>
    have hm : Int.negSucc m = -((m + 1 : Nat) : Int) := by omega
    cases y with
    | ofNat n =>
      rw [hm]
      show specAnd _ ((n : Nat) : Int) = _
      rw [specAnd_np (m + 1) n (by omega), natAndNot_eq_ldiff]; rfl
    | negSucc n =>
      have hn : Int.negSucc n = -((n + 1 : Nat) : Int) := by omega
      rw [hm, hn, specAnd_nn (m + 1) (n + 1) (by omega) (by omega), compl_eq_lnot]; rfl

theorem specOr_eq_lor (x y : Int) : specOr x y = Int.lor x y := by
  cases x with
  | ofNat m =>
    cases y with
    | ofNat n => exact specOr_pp m n
    | negSucc n =>
      have : Int.negSucc n = -((n + 1 : Nat) : Int) := by omega
      rw [this]
      show specOr ((m : Nat) : Int) _ = _
      rw [specOr_pn m (n + 1) (by omega), natAndNot_eq_ldiff, compl_eq_lnot]; rfl
  | negSucc m =>
    have hm : Int.negSucc m = -((m + 1 : Nat) : Int) := by omega
    cases y with
    | ofNat n =>
      rw [hm]
      show specOr _ ((n : Nat) : Int) = _
      rw [specOr_np (m + 1) n (by omega), natAndNot_eq_ldiff, compl_eq_lnot]; rfl
    | negSucc n =>
      have hn : Int.negSucc n = -((n + 1 : Nat) : Int) := by omega
      rw [hm, hn, specOr_nn (m + 1) (n + 1) (by omega) (by omega), compl_eq_lnot]; rfl

theorem specXor_eq_xor (x y : Int) : specXor x y = Int.xor x y := by
  cases x with
  | ofNat m =>
    cases y with
    | ofNat n => exact specXor_pp m n
    | negSucc n =>
      have : Int.negSucc n = -((n + 1 : Nat) : Int) := by omega
      rw [this]
      show specXor ((m : Nat) : Int) _ = _
      rw [specXor_pn m (n + 1) (by omega), compl_eq_lnot]; rfl
  | negSucc m =>
    have hm : Int.negSucc m = -((m + 1 : Nat) : Int) := by omega
    cases y with
    | ofNat n =>
      rw [hm]
      show specXor _ ((n : Nat) : Int) = _
      rw [specXor_np (m + 1) n (by omega), compl_eq_lnot]; rfl
    | negSucc n =>
      have hn : Int.negSucc n = -((n + 1 : Nat) : Int) := by omega
      rw [hm, hn, specXor_nn (m + 1) (n + 1) (by omega) (by omega)]; rfl

theorem specBit_specAnd (x y : Int) (i : Nat) :
    specBit (specAnd x y) i = (specBit x i && specBit y i) := by
  simp only [specBit_eq_testBit, specAnd_eq_land, Int.testBit_land]

theorem specBit_specOr (x y : Int) (i : Nat) :
    specBit (specOr x y) i = (specBit x i || specBit y i) := by
  simp only [specBit_eq_testBit, specOr_eq_lor, Int.testBit_lor]

theorem specBit_specXor (x y : Int) (i : Nat) :
    specBit (specXor x y) i = (specBit x i ^^ specBit y i) := by
  simp only [specBit_eq_testBit, specXor_eq_xor, Int.testBit_lxor]

theorem specBit_compl (x : Int) (i : Nat) : specBit (compl x) i = !specBit x i := by
  simp only [specBit_eq_testBit, compl_eq_lnot, Int.testBit_lnot]


-- ================================================================== shifts (shift.rs / shift_ops.rs)

theorem pow_split (W s : Nat) (hs : s ≤ W) : 2 ^ W = 2 ^ s * 2 ^ (W - s) := by
  rw [← Nat.pow_add]; congr 1; omega

theorem or_eq_add_of_mul (i k c : Nat) (hc : c < 2 ^ i) : (2 ^ i * k) ||| c = 2 ^ i * k + c :=
  (Nat.two_pow_add_eq_or_of_lt hc k).symm

theorem val_replicate_zero (W n : Nat) : val W (List.replicate n 0) = 0 := by
  induction n with
  | zero => rfl
  | succ n ih => simp [List.replicate_succ, ih]

theorem isWords_replicate (W n x : Nat) (hx : x < 2 ^ W) : IsWords W (List.replicate n x) := by
  intro w hw; rw [List.eq_of_mem_replicate hw]; exact hx

theorem isWords_singleton (W x : Nat) (hx : x < 2 ^ W) : IsWords W [x] :=
  IsWords.cons hx (IsWords.nil W)

theorem val_replicate_append (W z : Nat) (l : List Nat) :
    val W (List.replicate z 0 ++ l) = 2 ^ (W * z) * val W l := by
  rw [val_append, val_replicate_zero, List.length_replicate]; simp

theorem pow_div_mod (W n : Nat) : 2 ^ (W * (n / W)) * 2 ^ (n % W) = 2 ^ n := by
  rw [← Nat.pow_add, Nat.div_add_mod]

theorem shlBits_spec (W : Nat) (ws : List Nat) (s c : Nat) (hw : IsWords W ws) (hs : s ≤ W)
    (hc : c < 2 ^ s) :
    let r := shlBits W ws s c
    val W r.1 + 2 ^ (W * ws.length) * r.2 = val W ws * 2 ^ s + c ∧
    r.1.length = ws.length ∧ IsWords W r.1 ∧ r.2 < 2 ^ s := by
  induction ws generalizing c with
  | nil => simp [shlBits, IsWords.nil, hc]
  | cons a as ih =>
    have ha := hw.head
    have hp : 0 < 2 ^ W := Nat.two_pow_pos W
    have hps : 0 < 2 ^ s := Nat.two_pow_pos s
    have hsplit := pow_split W s hs
    have hcarry : a * 2 ^ s / 2 ^ W < 2 ^ s := by
      rw [Nat.div_lt_iff_lt_mul hp]
      calc a * 2 ^ s < 2 ^ W * 2 ^ s := Nat.mul_lt_mul_of_pos_right ha hps
        _ = 2 ^ s * 2 ^ W := Nat.mul_comm _ _
    have ⟨i1, i2, i3, i4⟩ := ih (a * 2 ^ s / 2 ^ W) hw.tail hcarry
    have hmod : a * 2 ^ s % 2 ^ W = 2 ^ s * (a % 2 ^ (W - s)) := by
      rw [hsplit, Nat.mul_comm (2 ^ s) (2 ^ (W - s)), Nat.mul_mod_mul_right, Nat.mul_comm]
    have hor : (a * 2 ^ s % 2 ^ W) ||| c = a * 2 ^ s % 2 ^ W + c := by
      rw [hmod]; exact or_eq_add_of_mul s _ c hc
    have hword : a * 2 ^ s % 2 ^ W + c < 2 ^ W := by
      rw [hmod]
      have h1 : a % 2 ^ (W - s) < 2 ^ (W - s) := Nat.mod_lt _ (Nat.two_pow_pos _)
      rw [hsplit]
      generalize 2 ^ (W - s) = Q at *
      generalize a % Q = k at *
      generalize 2 ^ s = P at *
      nlinarith
    simp only [shlBits, val_cons, List.length_cons, hor]
    refine ⟨?_, by simp [i2], IsWords.cons hword i3, i4⟩
    rw [Nat.mul_add, Nat.mul_one, Nat.pow_add]
    have hdm := Nat.mod_add_div (a * 2 ^ s) (2 ^ W)
    generalize a * 2 ^ s / 2 ^ W = q at *
    generalize a * 2 ^ s % 2 ^ W = m at *
    generalize (shlBits W as s q).1 = r1 at *
    generalize (shlBits W as s q).2 = r2 at *
    have e : 2 ^ W * (val W r1 + 2 ^ (W * as.length) * r2) = 2 ^ W * (val W as * 2 ^ s + q) := by
      rw [i1]
    nlinarith [e, hdm]

theorem mathShlDword_spec (W d s : Nat) (hd : d < 2 ^ (2 * W)) (hs : s ≤ W) :
    let r := mathShlDword W d s
    r.1 + 2 ^ W * (r.2.1 + 2 ^ W * r.2.2) = d * 2 ^ s ∧ r.1 < 2 ^ W ∧ r.2.1 < 2 ^ W ∧ r.2.2 < 2 ^ W := by
  have hp : 0 < 2 ^ W := Nat.two_pow_pos W
  have hps : 0 < 2 ^ s := Nat.two_pow_pos s
  have hle : 2 ^ s ≤ 2 ^ W := Nat.pow_le_pow_right (by omega) hs
  have hlo : d % 2 ^ W < 2 ^ W := Nat.mod_lt _ hp
  have hhi : d / 2 ^ W < 2 ^ W := by
    rw [Nat.div_lt_iff_lt_mul hp, ← two_pow_two_mul]; exact hd
  have hcarry : d % 2 ^ W * 2 ^ s / 2 ^ W < 2 ^ s := by
    rw [Nat.div_lt_iff_lt_mul hp]
    calc d % 2 ^ W * 2 ^ s < 2 ^ W * 2 ^ s := Nat.mul_lt_mul_of_pos_right hlo hps
      _ = 2 ^ s * 2 ^ W := Nat.mul_comm _ _
  have hor : (d / 2 ^ W * 2 ^ s) ||| (d % 2 ^ W * 2 ^ s / 2 ^ W)
      = d / 2 ^ W * 2 ^ s + d % 2 ^ W * 2 ^ s / 2 ^ W := by
    rw [Nat.mul_comm (d / 2 ^ W) (2 ^ s)]; exact or_eq_add_of_mul s _ _ hcarry
  simp only [mathShlDword, hor]
  have hdm := Nat.mod_add_div d (2 ^ W)
  have h0 := Nat.mod_add_div (d % 2 ^ W * 2 ^ s) (2 ^ W)
  have h1 := Nat.mod_add_div (d / 2 ^ W * 2 ^ s + d % 2 ^ W * 2 ^ s / 2 ^ W) (2 ^ W)
  have hv1 : (d / 2 ^ W * 2 ^ s + d % 2 ^ W * 2 ^ s / 2 ^ W) / 2 ^ W < 2 ^ W := by
    rw [Nat.div_lt_iff_lt_mul hp]
    generalize d / 2 ^ W = hi at *
    generalize d % 2 ^ W * 2 ^ s / 2 ^ W = cy at *
    nlinarith
  refine ⟨?_, Nat.mod_lt _ hp, Nat.mod_lt _ hp, hv1⟩
  generalize d / 2 ^ W = hi at *
  generalize d % 2 ^ W = lo at *
  generalize lo * 2 ^ s / 2 ^ W = cy at *
  generalize lo * 2 ^ s % 2 ^ W = n0 at *
  generalize (hi * 2 ^ s + cy) / 2 ^ W = n2 at *
  generalize (hi * 2 ^ s + cy) % 2 ^ W = n1 at *
  nlinarith [h0, h1, hdm]

theorem shlLarge_spec (W : Nat) (hW : 1 ≤ W) (ws : List Nat) (n : Nat) (hw : IsWords W ws) :
    (shlLarge W ws n).value W = val W ws * 2 ^ n ∧ (shlLarge W ws n).Canon W := by
  have hs : n % W < W := Nat.mod_lt _ (by omega)
  have ⟨e, l, w, c⟩ := shlBits_spec W ws (n % W) 0 hw (Nat.le_of_lt hs) (Nat.two_pow_pos _)
  have hc : (shlBits W ws (n % W) 0).2 < 2 ^ W :=
    Nat.lt_of_lt_of_le c (Nat.pow_le_pow_right (by omega) (Nat.le_of_lt hs))
  simp only [shlLarge]
  refine ⟨?_, fromBuffer_canon W _ (IsWords.append (IsWords.append
    (isWords_replicate W _ 0 (Nat.two_pow_pos W)) w) (isWords_singleton W _ hc))⟩
  rw [fromBuffer_value, List.append_assoc, val_replicate_append, val_append, l]
  simp only [val_cons, val_nil, Nat.mul_zero, Nat.add_zero]
  rw [e, Nat.add_zero, ← pow_div_mod W n]
  ring

theorem bitLenNat_spec (d : Nat) : d < 2 ^ bitLenNat d ∧ (d ≠ 0 → 2 ^ (bitLenNat d - 1) ≤ d) := by
  unfold bitLenNat
  split
  · rename_i h; subst h; simp
  · rename_i h
    exact ⟨Nat.lt_log2_self, fun _ => by simpa using Nat.log2_self_le h⟩

theorem bitLenNat_le (d k : Nat) (hd : d < 2 ^ k) : bitLenNat d ≤ k := by
  unfold bitLenNat
  split
  · omega
  · rename_i h
    have := (Nat.log2_lt h).mpr hd
    omega

theorem shlDword_spec (W : Nat) (hW : 1 ≤ W) (d n : Nat) (hd : d < 2 ^ (2 * W)) :
    (shlDword W d n).value W = d * 2 ^ n ∧ (shlDword W d n).Canon W := by
  have hs : n % W < W := Nat.mod_lt _ (by omega)
  unfold shlDword
  split
  · rename_i h
    refine ⟨rfl, ?_⟩
    show d * 2 ^ n < 2 ^ (2 * W)
    have hb := bitLenNat_le d _ hd
    have h1 := (bitLenNat_spec d).1
    calc d * 2 ^ n < 2 ^ bitLenNat d * 2 ^ n := Nat.mul_lt_mul_of_pos_right h1 (Nat.two_pow_pos n)
      _ = 2 ^ (bitLenNat d + n) := (Nat.pow_add _ _ _).symm
      _ ≤ 2 ^ (2 * W) := Nat.pow_le_pow_right (by omega) (by omega)
  · split
    · rename_i h1; subst h1
      have hx : 2 ^ (n % W) < 2 ^ W := Nat.pow_lt_pow_right (by omega) hs
      refine ⟨?_, fromBuffer_canon W _ (IsWords.append (isWords_replicate W _ 0 (Nat.two_pow_pos W))
        (isWords_singleton W _ hx))⟩
      rw [fromBuffer_value, val_replicate_append]
      simp only [val_cons, val_nil, Nat.mul_zero, Nat.add_zero, Nat.one_mul]
      exact pow_div_mod W n
    · have ⟨e, w0, w1, w2⟩ := mathShlDword_spec W d (n % W) hd (Nat.le_of_lt hs)
      refine ⟨?_, fromBuffer_canon W _ (IsWords.append (isWords_replicate W _ 0 (Nat.two_pow_pos W))
        (IsWords.cons w0 (IsWords.cons w1 (isWords_singleton W _ w2))))⟩
      rw [fromBuffer_value, val_replicate_append]
      simp only [val_cons, val_nil, Nat.mul_zero, Nat.add_zero]
      rw [e, ← pow_div_mod W n]
      ring

theorem TRepr.shl_spec (W : Nat) (hW : 1 ≤ W) (m : TRepr) (n : Nat) (hm : m.Canon W) :
    (m.shl W n).value W = m.value W * 2 ^ n ∧ (m.shl W n).Canon W := by
  cases m with
  | small d =>
    simp only [TRepr.shl]
    split
    · rename_i h; subst h
      exact ⟨by simp, Nat.two_pow_pos _⟩
    · exact shlDword_spec W hW d n hm
  | large ws => exact shlLarge_spec W hW ws n hm.large_words

theorem shrBits_spec (W s : Nat) (ws : List Nat) (hw : IsWords W ws) (hs : s ≤ W) :
    let r := shrBits W s ws
    val W r.1 = val W ws / 2 ^ s ∧ r.2 = (val W ws % 2 ^ s) * 2 ^ (W - s) ∧
    r.1.length = ws.length ∧ IsWords W r.1 := by
  induction ws with
  | nil => simp [shrBits, IsWords.nil]
  | cons a as ih =>
    have ha := hw.head
    have ⟨i1, i2, i3, i4⟩ := ih hw.tail
    have hsplit := pow_split W s hs
    have hP : 0 < 2 ^ s := Nat.two_pow_pos s
    have hQ : 0 < 2 ^ (W - s) := Nat.two_pow_pos _
    have hq : a / 2 ^ s < 2 ^ (W - s) := by
      rw [Nat.div_lt_iff_lt_mul hP, Nat.mul_comm, ← hsplit]; exact ha
    have ht : val W as % 2 ^ s < 2 ^ s := Nat.mod_lt _ hP
    have hor : (a / 2 ^ s) ||| (val W as % 2 ^ s * 2 ^ (W - s))
        = a / 2 ^ s + val W as % 2 ^ s * 2 ^ (W - s) := by
      rw [Nat.or_comm, Nat.mul_comm, or_eq_add_of_mul _ _ _ hq, Nat.add_comm]
    have hdiv : (a + 2 ^ W * val W as) / 2 ^ s = a / 2 ^ s + 2 ^ (W - s) * val W as := by
      rw [hsplit, Nat.mul_assoc, Nat.add_mul_div_left _ _ hP]
    have hmod : (a + 2 ^ W * val W as) % 2 ^ s = a % 2 ^ s := by
      rw [hsplit, Nat.mul_assoc, Nat.add_mul_mod_self_left]
    simp only [shrBits, val_cons, List.length_cons, i2, hor, hdiv, hmod]
    have hdm := Nat.div_add_mod (val W as) (2 ^ s)
    refine ⟨?_, trivial, by simp [i3], IsWords.cons ?_ i4⟩
    · rw [i1, hsplit]
      generalize val W as / 2 ^ s = q at *
      generalize val W as % 2 ^ s = t at *
      generalize 2 ^ (W - s) = Q at *
      generalize 2 ^ s = P at *
      generalize a / P = x at *
      rw [← hdm]
      ring
    · rw [hsplit]
      generalize val W as % 2 ^ s = t at *
      generalize 2 ^ (W - s) = Q at *
      generalize 2 ^ s = P at *
      generalize a / P = x at *
      nlinarith

theorem val_drop (W : Nat) (ws : List Nat) (k : Nat) (hw : IsWords W ws) :
    val W (ws.drop k) = val W ws / 2 ^ (W * k) := by
  have h := val_take_add_drop W ws k
  have hlt := val_lt W _ (hw.take k)
  rcases Nat.lt_or_ge k ws.length with hk | hk
  · have hl : (ws.take k).length = k := by simp [List.length_take, Nat.min_eq_left (Nat.le_of_lt hk)]
    rw [hl] at h hlt
    rw [h, Nat.add_mul_div_left _ _ (Nat.two_pow_pos _), Nat.div_eq_of_lt hlt, Nat.zero_add]
  · rw [List.drop_eq_nil_of_le hk]
    have hl := val_lt W ws hw
    have : 2 ^ (W * ws.length) ≤ 2 ^ (W * k) :=
      Nat.pow_le_pow_right (by omega) (Nat.mul_le_mul_left _ hk)
    rw [Nat.div_eq_of_lt (by omega)]; rfl

theorem div_pow_div_mod (v W n : Nat) : v / 2 ^ (W * (n / W)) / 2 ^ (n % W) = v / 2 ^ n := by
  rw [Nat.div_div_eq_div_mul, pow_div_mod]

theorem shrLarge_spec (W : Nat) (hW : 1 ≤ W) (ws : List Nat) (n : Nat) (hw : IsWords W ws) :
    (shrLarge W ws n).value W = val W ws / 2 ^ n ∧ (shrLarge W ws n).Canon W := by
  have hs : n % W < W := Nat.mod_lt _ (by omega)
  unfold shrLarge
  split
  · rename_i h
    refine ⟨?_, Nat.two_pow_pos _⟩
    have hl := val_lt W ws hw
    have : 2 ^ (W * ws.length) ≤ 2 ^ n := by
      apply Nat.pow_le_pow_right (by omega)
      calc W * ws.length ≤ W * (n / W) := Nat.mul_le_mul_left _ h
        _ ≤ n := Nat.mul_div_le n W
    rw [Nat.div_eq_of_lt (by omega)]; rfl
  · have ⟨e, _, _, w⟩ := shrBits_spec W (n % W) (ws.drop (n / W)) (hw.drop _) (Nat.le_of_lt hs)
    refine ⟨?_, fromBuffer_canon W _ w⟩
    rw [fromBuffer_value, e, val_drop W ws _ hw, div_pow_div_mod]

theorem shrLargeRef_spec (W : Nat) (hW : 1 ≤ W) (ws : List Nat) (n : Nat) (hw : IsWords W ws) :
    (shrLargeRef W ws n).value W = val W ws / 2 ^ n ∧ (shrLargeRef W ws n).Canon W := by
  have hs : n % W < W := Nat.mod_lt _ (by omega)
  have hle : 2 ^ W ≤ 2 ^ (2 * W) := Nat.pow_le_pow_right (by omega) (by omega)
  have hd : val W (ws.drop (min (n / W) ws.length)) / 2 ^ (n % W) = val W ws / 2 ^ n := by
    rcases Nat.lt_or_ge (n / W) ws.length with hk | hk
    · rw [Nat.min_eq_left (Nat.le_of_lt hk), val_drop W ws _ hw, div_pow_div_mod]
    · rw [Nat.min_eq_right hk, List.drop_length]
      have hl := val_lt W ws hw
      have : 2 ^ (W * ws.length) ≤ 2 ^ n := by
        apply Nat.pow_le_pow_right (by omega)
        calc W * ws.length ≤ W * (n / W) := Nat.mul_le_mul_left _ hk
          _ ≤ n := Nat.mul_div_le n W
      have h0 : val W ws / 2 ^ n = 0 := Nat.div_eq_of_lt (by omega)
      rw [h0]; simp
  have hdw := hw.drop (min (n / W) ws.length)
  unfold shrLargeRef
  split
  · rename_i h; rw [h] at hd
    exact ⟨by simpa using hd, Nat.two_pow_pos _⟩
  · rename_i w h; rw [h] at hd hdw
    refine ⟨by simpa using hd, ?_⟩
    show w / 2 ^ (n % W) < 2 ^ (2 * W)
    exact Nat.lt_of_le_of_lt (Nat.div_le_self _ _) (Nat.lt_of_lt_of_le hdw.head hle)
  · rename_i lo hi h; rw [h] at hd hdw
    refine ⟨by simpa using hd, ?_⟩
    show (lo + 2 ^ W * hi) / 2 ^ (n % W) < 2 ^ (2 * W)
    have := val_lt W _ hdw
    simp only [val_cons, val_nil, List.length_cons, List.length_nil] at this
    exact Nat.lt_of_le_of_lt (Nat.div_le_self _ _) (by rw [Nat.mul_comm 2 W]; simpa using this)
  · have ⟨e, _, _, w⟩ := shrBits_spec W (n % W) _ hdw (Nat.le_of_lt hs)
    exact ⟨by rw [fromBuffer_value, e, hd], fromBuffer_canon W _ w⟩

theorem TRepr.shr_spec (W : Nat) (hW : 1 ≤ W) (m : TRepr) (n : Nat) (byRef : Bool) (hm : m.Canon W) :
    (m.shr W n byRef).value W = m.value W / 2 ^ n ∧ (m.shr W n byRef).Canon W := by
  cases m with
  | small d =>
    have hd : d < 2 ^ (2 * W) := hm
    simp only [TRepr.shr, shrDword]
    split
    · exact ⟨rfl, Nat.lt_of_le_of_lt (Nat.div_le_self _ _) hd⟩
    · rename_i h
      refine ⟨?_, Nat.two_pow_pos _⟩
      have : 2 ^ (2 * W) ≤ 2 ^ n := Nat.pow_le_pow_right (by omega) (by omega)
      rw [TRepr.value_small, TRepr.value_small, Nat.div_eq_of_lt (by omega)]
  | large ws =>
    simp only [TRepr.shr]
    cases byRef
    · exact shrLarge_spec W hW ws n hm.large_words
    · exact shrLargeRef_spec W hW ws n hm.large_words


-- ================================================================== IBig >> n = floor division

theorem onesN_and (x n : Nat) : x &&& onesN n = x % 2 ^ n := Nat.and_two_pow_sub_one_eq_mod x n

theorem mod_pow_min (d n K : Nat) (hd : d < 2 ^ K) : d % 2 ^ (min n K) = d % 2 ^ n := by
  rcases Nat.le_total n K with h | h
  · rw [Nat.min_eq_left h]
  · rw [Nat.min_eq_right h, Nat.mod_eq_of_lt hd,
      Nat.mod_eq_of_lt (Nat.lt_of_lt_of_le hd (Nat.pow_le_pow_right (by omega) h))]

theorem areDwordLowBitsNonzero_fixed (W d n : Nat) (hd : d < 2 ^ (2 * W)) :
    areDwordLowBitsNonzero W true d n = decide (d % 2 ^ n ≠ 0) := by
  simp only [areDwordLowBitsNonzero, if_true, onesN_and, mod_pow_min d n _ hd]
  cases h : decide (d % 2 ^ n ≠ 0) <;> simp_all

theorem areDwordLowBitsNonzero_asis (W d n : Nat) :
    areDwordLowBitsNonzero W false d n = decide (d % 2 ^ (min n W) ≠ 0) := by
  simp only [areDwordLowBitsNonzero, Bool.false_eq_true, if_false, onesN_and]
  cases h : decide (d % 2 ^ (min n W) ≠ 0) <;> simp_all

theorem any_ne_zero (W : Nat) (l : List Nat) : l.any (· != 0) = decide (val W l ≠ 0) := by
  induction l with
  | nil => simp
  | cons a as ih =>
    simp only [List.any_cons, ih, val_cons]
    have hp : 0 < 2 ^ W := Nat.two_pow_pos W
    by_cases ha : a = 0
    · subst ha
      by_cases hv : val W as = 0
      · simp [hv]
      · have : 2 ^ W * val W as ≠ 0 := Nat.mul_ne_zero (by omega) hv
        simp [hv, this]
    · have : a + 2 ^ W * val W as ≠ 0 := by omega
      simp [ha, this]

theorem areSliceLowBitsNonzero_spec (W : Nat) (hW : 1 ≤ W) (ws : List Nat) (n : Nat)
    (hw : IsWords W ws) (hnz : val W ws ≠ 0) :
    areSliceLowBitsNonzero W ws n = decide (val W ws % 2 ^ n ≠ 0) := by
  have hs : n % W < W := Nat.mod_lt _ (by omega)
  unfold areSliceLowBitsNonzero
  split
  · rename_i h
    have hl := val_lt W ws hw
    have : 2 ^ (W * ws.length) ≤ 2 ^ n := by
      apply Nat.pow_le_pow_right (by omega)
      calc W * ws.length ≤ W * (n / W) := Nat.mul_le_mul_left _ h
        _ ≤ n := Nat.mul_div_le n W
    rw [Nat.mod_eq_of_lt (by omega)]; simp [hnz]
  · rename_i h
    have hk : n / W < ws.length := by omega
    rw [any_ne_zero W, onesN_and]
    -- decompose the value at word index k = n / W
    have hsplit := val_take_add_drop W ws (n / W)
    have hl : (ws.take (n / W)).length = n / W := by
      simp [List.length_take, Nat.min_eq_left (Nat.le_of_lt hk)]
    have hlt := val_lt W _ (hw.take (n / W))
    rw [hl] at hsplit hlt
    have hdrop : ws.drop (n / W) = ws.getD (n / W) 0 :: ws.drop (n / W + 1) := by
      rw [List.getD_eq_getElem?_getD, List.getElem?_eq_getElem hk]
      simp
    rw [hdrop, val_cons] at hsplit
    have hmod : val W ws % 2 ^ n
        = val W (ws.take (n / W)) + 2 ^ (W * (n / W)) * (ws.getD (n / W) 0 % 2 ^ (n % W)) := by
      conv => lhs; rw [← pow_div_mod W n]
      rw [Nat.mod_mul, hsplit, Nat.add_mul_mod_self_left, Nat.mod_eq_of_lt hlt,
        Nat.add_mul_div_left _ _ (Nat.two_pow_pos _), Nat.div_eq_of_lt hlt, Nat.zero_add]
      congr 2
      rw [pow_split W (n % W) (Nat.le_of_lt hs), Nat.mul_assoc, Nat.add_mul_mod_self_left]
    rw [hmod]
    generalize val W (List.take (n / W) ws) = t
    generalize ws.getD (n / W) 0 % 2 ^ (n % W) = u
    have hp : 0 < 2 ^ (W * (n / W)) := Nat.two_pow_pos _
    by_cases ht : t = 0
    · by_cases hu : u = 0
      · simp [ht, hu]
      · have : 2 ^ (W * (n / W)) * u ≠ 0 := Nat.mul_ne_zero (by omega) hu
        simp [ht, hu, this]
    · have : t + 2 ^ (W * (n / W)) * u ≠ 0 := by omega
      simp [ht, this]

theorem neg_ediv_two_pow (m n : Nat) :
    (-(m : Int)) / (2 : Int) ^ n
      = -((m / 2 ^ n : Nat) : Int) - (if m % 2 ^ n ≠ 0 then 1 else 0) := by
  have hc : ((2 : Int) ^ n) = ((2 ^ n : Nat) : Int) := by push_cast; rfl
  have hdm := Nat.div_add_mod m (2 ^ n)
  have hlt := Nat.mod_lt m (Nat.two_pow_pos n)
  have hpos := Nat.two_pow_pos n
  rw [hc]
  generalize m / 2 ^ n = q at *
  generalize m % 2 ^ n = r at *
  generalize 2 ^ n = P at *
  have hP : (0 : Int) < (P : Int) := by exact_mod_cast hpos
  have hm : (m : Int) = (P : Int) * q + r := by exact_mod_cast hdm.symm
  by_cases hr : r = 0
  · subst hr
    simp only [ne_eq, not_true_eq_false, if_false, Int.sub_zero]
    refine ((Int.ediv_emod_unique (r := 0) hP).mpr ⟨?_, Int.le_refl _, hP⟩).1
    rw [hm]; push_cast; ring
  · simp only [ne_eq, hr, not_false_eq_true, if_true]
    refine ((Int.ediv_emod_unique (r := (P : Int) - r) hP).mpr ⟨?_, by omega, by omega⟩).1
    rw [hm]; ring

theorem TRepr.areLowBitsNonzero_fixed (W : Nat) (hW : 1 ≤ W) (m : TRepr) (n : Nat) (hm : m.Canon W)
    (hz : m.value W ≠ 0) :
    m.areLowBitsNonzero W true n = decide (m.value W % 2 ^ n ≠ 0) := by
  cases m with
  | small d => exact areDwordLowBitsNonzero_fixed W d n hm
  | large ws => exact areSliceLowBitsNonzero_spec W hW ws n hm.large_words hz

/-- `IBig >> n` with the repaired `are_dword_low_bits_nonzero` is floor division by `2^n` -/
theorem ibigShr_fixed (W : Nat) (hW : 1 ≤ W) (a : SRepr) (n : Nat) (byRef : Bool) (ha : SCanon W a) :
    ibigShr W true a n byRef = specShr (a.value W) n := by
  obtain ⟨an, am⟩ := a
  obtain ⟨hc, hz⟩ := ha
  have ⟨e, _⟩ := TRepr.shr_spec W hW am n byRef hc
  cases an with
  | false =>
    simp only [ibigShr, Bool.false_eq_true, if_false, e, specShr, SRepr.value_mk_false]
    push_cast; rfl
  | true =>
    have hz' : am.value W ≠ 0 := hz rfl
    simp only [ibigShr, if_true, e, specShr, SRepr.value_mk_true,
      TRepr.areLowBitsNonzero_fixed W hW am n hc hz', neg_ediv_two_pow]
    by_cases h : am.value W % 2 ^ n = 0 <;> simp [h]

/-- `IBig >> n` of the code AS IS is floor division outside the defect class `shrDefect` -/
theorem ibigShr_asis (W : Nat) (hW : 1 ≤ W) (a : SRepr) (n : Nat) (byRef : Bool) (ha : SCanon W a)
    (hnd : shrDefect W a n = false) :
    ibigShr W false a n byRef = specShr (a.value W) n := by
  rw [← ibigShr_fixed W hW a n byRef ha]
  obtain ⟨an, am⟩ := a
  cases an with
  | false => simp [ibigShr]
  | true =>
    cases am with
    | large ws => rfl
    | small d =>
      have hd : d < 2 ^ (2 * W) := ha.1
      simp only [ibigShr, if_true, TRepr.areLowBitsNonzero, areDwordLowBitsNonzero_asis,
        areDwordLowBitsNonzero_fixed W d n hd]
      have key : (d % 2 ^ (min n W) ≠ 0) ↔ (d % 2 ^ n ≠ 0) := by
        rcases Nat.lt_or_ge W n with h | h
        · rw [Nat.min_eq_right (Nat.le_of_lt h)]
          have hdvd : 2 ^ W ∣ 2 ^ n := Nat.pow_dvd_pow 2 (Nat.le_of_lt h)
          have hmm := Nat.mod_mod_of_dvd d hdvd
          constructor
          · intro h1 h2; rw [h2] at hmm; simp at hmm; exact h1 hmm.symm
          · intro h1 h2
            have hdef : shrDefect W ⟨true, .small d⟩ n = true := by
              simp [shrDefect, h, h2, mod_pow_min d n _ hd, h1]
            rw [hnd] at hdef; exact absurd hdef (by simp)
        · rw [Nat.min_eq_left h]
      simp only [key]


-- ================================================================== trailing zeros / ones

theorem IsTz.zero_of_odd {n : Nat} (h : n % 2 = 1) : IsTz n 0 :=
  ⟨by simp [Nat.mod_one], by simpa using h⟩

theorem IsTz.double {j k : Nat} (h : IsTz j k) : IsTz (2 * j) (k + 1) := by
  obtain ⟨h1, h2⟩ := h
  refine ⟨?_, ?_⟩
  · rw [Nat.pow_succ, Nat.mul_comm (2 ^ k) 2, Nat.mul_mod_mul_left, h1]
  · rw [Nat.pow_succ, Nat.mul_comm (2 ^ k) 2, Nat.mul_div_mul_left _ _ (by omega : 0 < 2)]; exact h2

theorem IsTz.ne_zero {n k : Nat} (h : IsTz n k) : n ≠ 0 := by
  intro h0; subst h0; simp [IsTz] at h

theorem IsTz.pow_le {n k : Nat} (h : IsTz n k) : 2 ^ k ≤ n := by
  obtain ⟨h1, h2⟩ := h
  have hdm := Nat.div_add_mod n (2 ^ k)
  rw [h1, Nat.add_zero] at hdm
  generalize n / 2 ^ k = q at *
  calc 2 ^ k = 2 ^ k * 1 := by simp
    _ ≤ 2 ^ k * q := Nat.mul_le_mul_left _ (by omega)
    _ = n := hdm

/-- the number of trailing zeros is unique -/
theorem IsTz.unique {n k k' : Nat} (h : IsTz n k) (h' : IsTz n k') : k = k' := by
  have key : ∀ {a b : Nat}, IsTz n a → IsTz n b → a < b → False := by
    intro a b ha hb hab
    obtain ⟨d, rfl⟩ : ∃ d, b = a + d + 1 := ⟨b - a - 1, by omega⟩
    obtain ⟨j, hj⟩ : 2 ^ (a + d + 1) ∣ n := Nat.dvd_of_mod_eq_zero hb.1
    have : n / 2 ^ a = 2 * (2 ^ d * j) := by
      rw [hj, show 2 ^ (a + d + 1) * j = 2 ^ a * (2 * (2 ^ d * j)) by
        rw [Nat.pow_succ, Nat.pow_add]; ring]
      exact Nat.mul_div_cancel_left _ (Nat.two_pow_pos a)
    have h2 := ha.2
    rw [this] at h2; omega
  rcases Nat.lt_trichotomy k k' with hlt | heq | hgt
  · exact (key h h' hlt).elim
  · exact heq
  · exact (key h' h hgt).elim

theorem tzAux_spec (f n : Nat) (hn : n ≠ 0) (hlt : n < 2 ^ f) : IsTz n (tzAux f n) := by
  induction f generalizing n with
  | zero => simp at hlt; omega
  | succ f ih =>
    simp only [tzAux]
    split
    · rename_i h; exact IsTz.zero_of_odd h
    · rename_i h
      have he : n = 2 * (n / 2) := by omega
      have := ih (n / 2) (by omega) (by rw [Nat.pow_succ] at hlt; omega)
      rw [he]; rw [← he]
      have h2 := this.double
      rwa [← he] at h2

theorem tzWord_spec (bits n : Nat) (hn : n ≠ 0) (hlt : n < 2 ^ bits) : IsTz n (tzWord bits n) := by
  simp only [tzWord, hn, if_false]; exact tzAux_spec bits n hn hlt

/-- adding a multiple of a higher power of two does not change the trailing zeros -/
theorem IsTz.add_high {w k W : Nat} (h : IsTz w k) (hw : w < 2 ^ W) (v : Nat) :
    IsTz (w + 2 ^ W * v) k := by
  have hkW : k < W := by
    have := h.pow_le
    exact (Nat.pow_lt_pow_iff_right (by omega : 1 < 2)).mp (Nat.lt_of_le_of_lt this hw)
  have hs : 2 ^ W = 2 ^ k * (2 * 2 ^ (W - k - 1)) := by
    rw [← Nat.pow_succ', ← Nat.pow_add]; congr 1; omega
  obtain ⟨h1, h2⟩ := h
  refine ⟨?_, ?_⟩
  · rw [hs, Nat.mul_assoc, Nat.add_mul_mod_self_left]; exact h1
  · rw [hs, Nat.mul_assoc, Nat.add_mul_div_left _ _ (Nat.two_pow_pos k), Nat.mul_assoc,
      Nat.add_mul_mod_self_left]
    exact h2

theorem IsTz.shift {v k : Nat} (h : IsTz v k) (W : Nat) : IsTz (2 ^ W * v) (k + W) := by
  obtain ⟨h1, h2⟩ := h
  refine ⟨?_, ?_⟩
  · rw [Nat.add_comm, Nat.pow_add, Nat.mul_mod_mul_left, h1, Nat.mul_zero]
  · rw [Nat.add_comm, Nat.pow_add, Nat.mul_div_mul_left _ _ (Nat.two_pow_pos W)]; exact h2

theorem tzLarge_spec (W : Nat) (ws : List Nat) (hw : IsWords W ws) (hnz : val W ws ≠ 0) :
    ∃ k, tzLarge W ws = .ok k ∧ IsTz (val W ws) k := by
  induction ws with
  | nil => simp at hnz
  | cons w ws ih =>
    simp only [tzLarge]
    split
    · rename_i h
      exact ⟨_, rfl, (tzWord_spec W w h hw.head).add_high hw.head _⟩
    · rename_i h
      have hw0 : w = 0 := by omega
      subst hw0
      simp only [val_cons, Nat.zero_add] at hnz ⊢
      have hv : val W ws ≠ 0 := by intro h0; rw [h0] at hnz; simp at hnz
      obtain ⟨k, hk, ht⟩ := ih hw.tail hv
      exact ⟨k + W, by rw [hk]; rfl, ht.shift W⟩

theorem toWord_spec (f n : Nat) (hlt : n < 2 ^ f) : IsTz (n + 1) (toWord f n) := by
  induction f generalizing n with
  | zero =>
    have : n = 0 := by simpa using hlt
    subst this; simp [toWord, IsTz]
  | succ f ih =>
    simp only [toWord]
    split
    · rename_i h; exact IsTz.zero_of_odd (by omega)
    · rename_i h
      have := (ih (n / 2) (by rw [Nat.pow_succ] at hlt; omega)).double
      have he : 2 * (n / 2 + 1) = n + 1 := by omega
      rwa [he] at this

theorem toScanFixed_spec (W : Nat) (ws : List Nat) (hw : IsWords W ws) :
    IsTz (val W ws + 1) (toScanFixed W ws) := by
  induction ws with
  | nil => simp [toScanFixed, IsTz]
  | cons w ws ih =>
    have hw0 := hw.head
    simp only [toScanFixed, val_cons]
    split
    · rename_i h
      have h1 : w + 1 < 2 ^ W := by omega
      have := (toWord_spec W w hw0).add_high h1 (val W ws)
      rwa [show w + 1 + 2 ^ W * val W ws = w + 2 ^ W * val W ws + 1 by omega] at this
    · rename_i h
      have hmax : w = 2 ^ W - 1 := by omega
      have hp := Nat.two_pow_pos W
      have := (ih hw.tail).shift W
      rwa [show 2 ^ W * (val W ws + 1) = w + 2 ^ W * val W ws + 1 by rw [hmax, Nat.mul_add]; omega] at this

/-- where not every scanned word is `MAX`, the panicking scan agrees with the total one -/
theorem toScan_eq_fixed (W : Nat) (ws : List Nat) (h : ws.all (· == 2 ^ W - 1) = false) :
    toScan W ws = .ok (toScanFixed W ws) := by
  induction ws with
  | nil => simp at h
  | cons w ws ih =>
    simp only [toScan, toScanFixed]
    split
    · rfl
    · rename_i hw
      have hmax : w = 2 ^ W - 1 := by omega
      have : ws.all (· == 2 ^ W - 1) = false := by
        simp only [List.all_cons, hmax, beq_self_eq_true, Bool.true_and] at h; exact h
      rw [ih this]; rfl

/-- `trailing_ones` with the repaired scan: the count `k` satisfies `2^k ∣ x+1`, `(x+1)/2^k` odd -/
theorem TRepr.trailingOnes_fixed (W : Nat) (m : TRepr) (hm : m.Canon W) :
    ∃ k, m.trailingOnes W true = .ok k ∧ IsTz (m.value W + 1) k := by
  cases m with
  | small d => exact ⟨_, rfl, toWord_spec (2 * W) d hm⟩
  | large ws => exact ⟨_, rfl, toScanFixed_spec W ws hm.large_words⟩

/-- the code AS IS agrees with the repaired scan outside the defect class `toDefect` -/
theorem TRepr.trailingOnes_asis (W : Nat) (m : TRepr) (hm : m.Canon W) (hnd : toDefect W m = false) :
    m.trailingOnes W false = m.trailingOnes W true := by
  cases m with
  | small d => rfl
  | large ws =>
    have hl := hm.large_len
    obtain ⟨w0, w1, t, rfl⟩ := exists_cons_cons (show 2 ≤ ws.length by omega)
    simp only [toDefect, List.getD_cons_zero, List.drop_succ_cons, List.drop_zero, Bool.or_eq_false_iff,
      bne_eq_false_iff_eq] at hnd
    obtain ⟨h0, h1⟩ := hnd
    simp only [TRepr.trailingOnes, toLarge, Bool.false_eq_true, if_false, if_true, List.drop_succ_cons,
      List.drop_zero]
    rw [toScan_eq_fixed W _ h1]
    simp only [toScanFixed, h0, ne_eq, not_true_eq_false, if_false]
    rfl

-- ================================================================== Repr::ones

theorem val_replicate_max (W n : Nat) : val W (List.replicate n (2 ^ W - 1)) + 1 = 2 ^ (W * n) := by
  induction n with
  | zero => simp
  | succ n ih =>
    have hp := Nat.two_pow_pos W
    simp only [List.replicate_succ, val_cons]
    rw [Nat.mul_succ, Nat.pow_add, ← ih]
    generalize val W (List.replicate n (2 ^ W - 1)) = V
    generalize 2 ^ W = B at *
    rw [Nat.add_mul, Nat.one_mul, Nat.mul_comm V B]; omega

theorem reprOnes_value (W : Nat) (fx : Bool) (n : Nat) :
    (reprOnes W fx n).value W = 2 ^ n - 1 := by
  unfold reprOnes
  split
  · rfl
  · split
    · rfl
    · have hmax := val_replicate_max W (n / W)
      have hp := Nat.two_pow_pos (W * (n / W))
      simp only [TRepr.value_large]
      split
      · rw [val_append, List.length_replicate]
        simp only [val_cons, val_nil, Nat.mul_zero, Nat.add_zero, onesN]
        have h2 := Nat.two_pow_pos (n % W)
        have : 2 ^ n = 2 ^ (W * (n / W)) * 2 ^ (n % W) := (pow_div_mod W n).symm
        rw [this, Nat.mul_sub, Nat.mul_one]
        generalize 2 ^ (W * (n / W)) = A at *
        generalize 2 ^ (n % W) = B at *
        have : A ≤ A * B := Nat.le_mul_of_pos_right A h2
        omega
      · rename_i h
        have h0 : n % W = 0 := by omega
        have : 2 ^ n = 2 ^ (W * (n / W)) := by rw [← pow_div_mod W n, h0]; simp
        simp only [List.append_nil]
        omega

/-- the repaired `Repr::ones` is canonical for every `n` -/
theorem reprOnes_canon_fixed (W : Nat) (hW : 1 ≤ W) (n : Nat) : (reprOnes W true n).Canon W := by
  have hpn := Nat.two_pow_pos n
  unfold reprOnes
  split
  · rename_i h
    show onesN n < 2 ^ (2 * W)
    have : 2 ^ n ≤ 2 ^ (2 * W) := Nat.pow_le_pow_right (by omega) (by omega)
    unfold onesN; omega
  · split
    · rename_i h
      show onesN n < 2 ^ (2 * W)
      have : 2 ^ n ≤ 2 ^ (2 * W) := Nat.pow_le_pow_right (by omega) (by omega)
      unfold onesN; omega
    · rename_i h1 h2
      have hn : 2 * W < n := by
        rcases Nat.lt_or_ge (2 * W) n with h | h
        · exact h
        · exfalso; apply h2
          rcases Nat.lt_or_ge n (2 * W) with h' | h'
          · exact Or.inl h'
          · exact Or.inr ⟨rfl, by omega⟩
      have hq : 2 ≤ n / W := by
        rw [Nat.le_div_iff_mul_le (by omega)]; omega
      have hmaxw : 2 ^ W - 1 < 2 ^ W := by have := Nat.two_pow_pos W; omega
      refine ⟨?_, ?_, ?_⟩
      · simp only [List.length_append, List.length_replicate]
        split
        · simp; omega
        · rename_i h
          have h0 : n % W = 0 := by omega
          have hn' : n = W * (n / W) := by have := Nat.div_add_mod n W; omega
          have hlt : W * 2 < W * (n / W) := by omega
          have := Nat.lt_of_mul_lt_mul_left hlt
          simp; omega
      · apply IsWords.append (isWords_replicate W _ _ hmaxw)
        split
        · apply isWords_singleton
          unfold onesN
          have : 2 ^ (n % W) ≤ 2 ^ W :=
            Nat.pow_le_pow_right (by omega) (Nat.le_of_lt (Nat.mod_lt _ (by omega)))
          have := Nat.two_pow_pos (n % W); omega
        · exact IsWords.nil W
      · split
        · rename_i h
          rw [List.getLast?_append]; simp [onesN]
          have : 2 ≤ 2 ^ (n % W) := by
            calc 2 = 2 ^ 1 := rfl
              _ ≤ 2 ^ (n % W) := Nat.pow_le_pow_right (by omega) (by omega)
          omega
        · simp only [List.append_nil]
          rw [show n / W = (n / W - 1) + 1 by omega, List.replicate_succ']
          rw [List.getLast?_append]; simp
          have : 2 ≤ 2 ^ W := by
            calc 2 = 2 ^ 1 := rfl
              _ ≤ 2 ^ W := Nat.pow_le_pow_right (by omega) hW
          omega


-- ================================================================== bit tests

theorem testBit_val (W : Nat) (hW : 1 ≤ W) (ws : List Nat) (n : Nat) (hw : IsWords W ws) :
    (val W ws).testBit n = (decide (n / W < ws.length) && (ws.getD (n / W) 0).testBit (n % W)) := by
  induction ws generalizing n with
  | nil => simp
  | cons w ws ih =>
    rw [val_cons, testBit_cons W w _ n hw.head]
    by_cases h : n < W
    · have h0 : n / W = 0 := Nat.div_eq_of_lt h
      have h1 : n % W = n := Nat.mod_eq_of_lt h
      simp [h, h0, h1]
    · have hge : W ≤ n := Nat.le_of_not_lt h
      have hd : n / W = (n - W) / W + 1 := by
        rw [Nat.div_eq n W]; simp [hge]; omega
      have hm : n % W = (n - W) % W := Nat.mod_eq_sub_mod hge
      simp [h, ih (n - W) hw.tail, hd, hm]

/-- `TypedReprRef::bit` is the bit of the value -/
theorem TRepr.bit_spec (W : Nat) (hW : 1 ≤ W) (m : TRepr) (n : Nat) (hm : m.Canon W) :
    m.bit W n = (m.value W).testBit n := by
  cases m with
  | small d =>
    simp only [TRepr.bit, TRepr.value_small]
    by_cases h : n < 2 * W
    · simp [h]
    · simp [h, testBit_false_of_lt (show d < 2 ^ (2 * W) from hm) (Nat.le_of_not_lt h)]
  | large ws =>
    simp only [TRepr.bit, TRepr.value_large]
    exact (testBit_val W hW ws n hm.large_words).symm

/-- bits of `v - 1` around the lowest set bit of `v` -/
theorem testBit_pred (v z n : Nat) (h : IsTz v z) :
    (v - 1).testBit n = if n < z then true else if n = z then false else v.testBit n := by
  obtain ⟨h1, h2⟩ := h
  have hdm := Nat.div_add_mod v (2 ^ z)
  rw [h1, Nat.add_zero] at hdm
  generalize hq : v / 2 ^ z = q at *
  have hp := Nat.two_pow_pos z
  obtain ⟨j, rfl⟩ : ∃ j, q = 2 * j + 1 := ⟨q / 2, by omega⟩
  have hv1 : v - 1 = 2 ^ z * (2 * j) + (2 ^ z - 1) := by
    rw [← hdm, Nat.mul_add, Nat.mul_one]; omega
  rw [hv1, Nat.testBit_two_pow_mul_add _ (by omega : 2 ^ z - 1 < 2 ^ z), ← hdm]
  by_cases hlt : n < z
  · simp [hlt, Nat.testBit_two_pow_sub_one]
  · simp only [hlt, if_false]
    by_cases heq : n = z
    · subst heq; simp [Nat.testBit_zero]
    · obtain ⟨i, hi⟩ : ∃ i, n - z = i + 1 := ⟨n - z - 1, by omega⟩
      have hge : n ≥ z := by omega
      simp only [heq, if_false, Nat.testBit_two_pow_mul, hge, decide_true, Bool.true_and, hi,
        Nat.testBit_succ]
      congr 1; omega

theorem TRepr.trailingZeros_spec (W : Nat) (m : TRepr) (hm : m.Canon W) :
    (m.value W = 0 → m.trailingZeros W = .ok none) ∧
    (m.value W ≠ 0 → ∃ k, m.trailingZeros W = .ok (some k) ∧ IsTz (m.value W) k) := by
  cases m with
  | small d =>
    simp only [TRepr.trailingZeros, TRepr.value_small]
    refine ⟨fun h => by simp [h], fun h => ⟨_, by simp [h], tzWord_spec (2 * W) d h hm⟩⟩
  | large ws =>
    have hpos : val W ws ≠ 0 := by
      have := hm.large_ge; have := Nat.two_pow_pos (2 * W); omega
    simp only [TRepr.trailingZeros, TRepr.value_large]
    refine ⟨fun h => absurd h hpos, fun _ => ?_⟩
    obtain ⟨k, hk, ht⟩ := tzLarge_spec W ws hm.large_words hpos
    exact ⟨k, by rw [hk]; rfl, ht⟩

/-- `BitTest::bit for IBig`: the two's-complement bit, for every sign -/
theorem ibigBit_spec (W : Nat) (hW : 1 ≤ W) (a : SRepr) (n : Nat) (ha : SCanon W a) :
    ibigBit W a n = .ok (specBit (a.value W) n) := by
  obtain ⟨an, am⟩ := a
  obtain ⟨hc, hz⟩ := ha
  cases an with
  | false =>
    simp only [ibigBit, Bool.false_eq_true, if_false, SRepr.value_mk_false, specBit_natCast,
      TRepr.bit_spec W hW am n hc]
  | true =>
    have hz' : am.value W ≠ 0 := hz rfl
    obtain ⟨z, hk, ht⟩ := (TRepr.trailingZeros_spec W am hc).2 hz'
    have hneg : -((am.value W : Nat) : Int) = Int.negSucc (am.value W - 1) := by omega
    simp only [ibigBit, if_true, hk, SRepr.value_mk_true, hneg, specBit_negSucc,
      testBit_pred _ z n ht, TRepr.bit_spec W hW am n hc]
    by_cases h1 : n = z
    · subst h1; simp
    · by_cases h2 : n > z
      · have : ¬ n < z := by omega
        simp [h1, h2, this]
      · have : n < z := by omega
        simp [h1, h2, this]

-- ================================================================== clear_high_bits / split_bits

/-- value modulo `2^n` in terms of the word at index `n / W` -/
theorem val_mod_two_pow (W : Nat) (hW : 1 ≤ W) (ws : List Nat) (n : Nat) (hw : IsWords W ws)
    (hk : n / W < ws.length) :
    val W ws % 2 ^ n
      = val W (ws.take (n / W)) + 2 ^ (W * (n / W)) * (ws.getD (n / W) 0 % 2 ^ (n % W)) := by
  have hs : n % W < W := Nat.mod_lt _ (by omega)
  have hsplit := val_take_add_drop W ws (n / W)
  have hl : (ws.take (n / W)).length = n / W := by
    simp [List.length_take, Nat.min_eq_left (Nat.le_of_lt hk)]
  have hlt := val_lt W _ (hw.take (n / W))
  rw [hl] at hsplit hlt
  have hdrop : ws.drop (n / W) = ws.getD (n / W) 0 :: ws.drop (n / W + 1) :=
    (set_take_drop ws (n / W) 0 hk).2.2
  rw [hdrop, val_cons] at hsplit
  conv => lhs; rw [← pow_div_mod W n]
  rw [Nat.mod_mul, hsplit, Nat.add_mul_mod_self_left, Nat.mod_eq_of_lt hlt,
    Nat.add_mul_div_left _ _ (Nat.two_pow_pos _), Nat.div_eq_of_lt hlt, Nat.zero_add]
  congr 2
  rw [pow_split W (n % W) (Nat.le_of_lt hs), Nat.mul_assoc, Nat.add_mul_mod_self_left]

theorem clearHighBitsLarge_spec (W : Nat) (hW : 1 ≤ W) (ws : List Nat) (n : Nat) (hw : IsWords W ws) :
    (clearHighBitsLarge W ws n).value W = val W ws % 2 ^ n ∧ (clearHighBitsLarge W ws n).Canon W := by
  have hs : n % W < W := Nat.mod_lt _ (by omega)
  have hl := val_lt W ws hw
  unfold clearHighBitsLarge ceilDiv
  by_cases hn0 : n = 0
  · subst hn0
    simp only [if_true, Nat.not_lt_zero, if_false, List.take_zero, Nat.zero_mod, ne_eq,
      not_true_eq_false, Nat.pow_zero, Nat.mod_one]
    exact ⟨by simp [fromBuffer_value], fromBuffer_canon W _ (IsWords.nil W)⟩
  · simp only [hn0, if_false]
    have hdm := Nat.div_add_mod n W
    have hdm1 := Nat.div_add_mod (n - 1) W
    split
    · rename_i h
      refine ⟨?_, fromBuffer_canon W _ hw⟩
      have hge : W * ws.length ≤ n - 1 := by
        calc W * ws.length ≤ W * ((n - 1) / W) := Nat.mul_le_mul_left _ (by omega)
          _ ≤ n - 1 := Nat.mul_div_le _ _
      have : 2 ^ (W * ws.length) ≤ 2 ^ n := Nat.pow_le_pow_right (by omega) (by omega)
      rw [fromBuffer_value, Nat.mod_eq_of_lt (by omega)]
    · rename_i h
      split
      · rename_i hr
        -- n % W ≠ 0: ceil = n / W + 1
        have hc : (n - 1) / W + 1 = n / W + 1 := by
          congr 1
          apply Nat.div_eq_of_lt_le
          · rw [Nat.mul_comm]; omega
          · rw [Nat.succ_mul, Nat.mul_comm]; omega
        rw [hc] at h ⊢
        have hk : n / W < ws.length := by omega
        rw [take_succ_getD ws _ hk, List.dropLast_concat, List.getLastD_concat, onesN_and]
        have hx : ws.getD (n / W) 0 % 2 ^ (n % W) < 2 ^ W :=
          Nat.lt_of_le_of_lt (Nat.mod_le _ _) (hw.getD _)
        refine ⟨?_, fromBuffer_canon W _ (IsWords.append (hw.take _) (isWords_singleton W _ hx))⟩
        rw [fromBuffer_value, val_append, val_mod_two_pow W hW ws n hw hk]
        simp [List.length_take, Nat.min_eq_left (Nat.le_of_lt hk)]
      · rename_i hr
        have h0 : n % W = 0 := by omega
        have hc : (n - 1) / W + 1 = n / W := by
          have hq : 1 ≤ n / W := by
            rcases Nat.eq_zero_or_pos (n / W) with hz | hz
            · rw [hz] at hdm; omega
            · exact hz
          have hWle : W ≤ W * (n / W) := Nat.le_mul_of_pos_right W hq
          have : (n - 1) / W = n / W - 1 := by
            apply Nat.div_eq_of_lt_le
            · rw [Nat.mul_comm, Nat.mul_sub, Nat.mul_one]; omega
            · rw [Nat.succ_mul, Nat.mul_comm, Nat.mul_sub, Nat.mul_one]; omega
          omega
        rw [hc] at h ⊢
        refine ⟨?_, fromBuffer_canon W _ (hw.take _)⟩
        rw [fromBuffer_value]
        have hsplit := val_take_add_drop W ws (n / W)
        have hlen : (ws.take (n / W)).length = n / W := by
          simp [List.length_take, Nat.min_eq_left (by omega : n / W ≤ ws.length)]
        have hlt := val_lt W _ (hw.take (n / W))
        rw [hlen] at hsplit hlt
        have hn : n = W * (n / W) := by omega
        conv => rhs; rw [hn, hsplit, Nat.add_mul_mod_self_left, Nat.mod_eq_of_lt hlt]

theorem TRepr.clearHighBits_spec (W : Nat) (hW : 1 ≤ W) (m : TRepr) (n : Nat) (hm : m.Canon W) :
    (m.clearHighBits W n).value W = m.value W % 2 ^ n ∧ (m.clearHighBits W n).Canon W := by
  cases m with
  | small d =>
    have hd : d < 2 ^ (2 * W) := hm
    simp only [TRepr.clearHighBits]
    split
    · exact ⟨onesN_and d n, by rw [onesN_and]; exact Nat.lt_of_le_of_lt (Nat.mod_le _ _) hd⟩
    · rename_i h
      have : 2 ^ (2 * W) ≤ 2 ^ n := Nat.pow_le_pow_right (by omega) (by omega)
      refine ⟨?_, hd⟩
      show d = d % 2 ^ n
      rw [Nat.mod_eq_of_lt (by omega)]
  | large ws => exact clearHighBitsLarge_spec W hW ws n hm.large_words

/-- `split_bits(n)` = (`x mod 2^n`, `x div 2^n`), both canonical -/
theorem TRepr.splitBits_spec (W : Nat) (hW : 1 ≤ W) (m : TRepr) (n : Nat) (hm : m.Canon W) :
    ((m.splitBits W n).1.value W = m.value W % 2 ^ n ∧ (m.splitBits W n).1.Canon W) ∧
    ((m.splitBits W n).2.value W = m.value W / 2 ^ n ∧ (m.splitBits W n).2.Canon W) := by
  cases m with
  | small d =>
    have hd : d < 2 ^ (2 * W) := hm
    simp only [TRepr.splitBits]
    split
    · exact ⟨⟨onesN_and d n, by rw [onesN_and]; exact Nat.lt_of_le_of_lt (Nat.mod_le _ _) hd⟩,
        rfl, Nat.lt_of_le_of_lt (Nat.div_le_self _ _) hd⟩
    · rename_i h
      have : 2 ^ (2 * W) ≤ 2 ^ n := Nat.pow_le_pow_right (by omega) (by omega)
      refine ⟨⟨?_, hd⟩, ?_, Nat.two_pow_pos _⟩
      · show d = d % 2 ^ n
        rw [Nat.mod_eq_of_lt (by omega)]
      · show 0 = d / 2 ^ n
        rw [Nat.div_eq_of_lt (by omega)]
  | large ws =>
    simp only [TRepr.splitBits]
    split
    · rename_i h; subst h
      exact ⟨⟨by simp [Nat.mod_one], Nat.two_pow_pos _⟩,
        by simp [fromBuffer_value], fromBuffer_canon W _ hm.large_words⟩
    · exact ⟨clearHighBitsLarge_spec W hW ws n hm.large_words,
        shrLargeRef_spec W hW ws n hm.large_words⟩

-- ================================================================== bit_len

theorem bitLenNat_eq {v k : Nat} (h1 : 2 ^ k ≤ v) (h2 : v < 2 ^ (k + 1)) : bitLenNat v = k + 1 := by
  have hv : v ≠ 0 := by have := Nat.two_pow_pos k; omega
  simp only [bitLenNat, hv, if_false]
  rw [(Nat.log2_eq_iff hv).mpr ⟨h1, h2⟩]

theorem val_dropLast_getLast (W : Nat) (ws : List Nat) (hne : ws ≠ []) :
    val W ws = val W ws.dropLast + 2 ^ (W * (ws.length - 1)) * ws.getLastD 0 := by
  have hcat := (List.dropLast_concat_getLast hne).symm
  have hlast : ws.getLastD 0 = ws.getLast hne := by
    rw [List.getLastD_eq_getLast?, List.getLast?_eq_some_getLast hne]; rfl
  rw [hlast]
  conv => lhs; rw [hcat]
  rw [val_append]; simp [List.length_dropLast]

/-- `bit_len` = position of the top set bit + 1 (0 for 0) -/
theorem TRepr.bitLen_spec (W : Nat) (m : TRepr) (hm : m.Canon W) :
    m.bitLen W = bitLenNat (m.value W) := by
  cases m with
  | small d => rfl
  | large ws =>
    obtain ⟨h3, hw, hlast⟩ := hm
    have hne : ws ≠ [] := by intro e; subst e; simp at h3
    have hsplit := val_dropLast_getLast W ws hne
    have hlow : val W ws.dropLast < 2 ^ (W * (ws.length - 1)) := by
      have := val_lt W _ (show IsWords W ws.dropLast from fun x hx => hw x (List.dropLast_subset ws hx))
      simpa [List.length_dropLast] using this
    have htop : ws.getLastD 0 ≠ 0 := by
      rw [List.getLastD_eq_getLast?]
      rw [List.getLast?_eq_some_getLast hne] at hlast ⊢
      simpa using hlast
    have htopw : ws.getLastD 0 < 2 ^ W := by
      rw [List.getLastD_eq_getLast?, List.getLast?_eq_some_getLast hne]
      exact hw _ (List.getLast_mem hne)
    simp only [TRepr.bitLen, TRepr.value_large]
    generalize ws.getLastD 0 = t at *
    have ⟨hb1, hb2⟩ := bitLenNat_spec t
    have hb2 := hb2 htop
    have hbl : 1 ≤ bitLenNat t := by
      unfold bitLenNat; simp [htop]
    have hblW : bitLenNat t ≤ W := bitLenNat_le t W htopw
    -- bounds of the whole value
    have hp := Nat.two_pow_pos (W * (ws.length - 1))
    have hlo : 2 ^ (W * (ws.length - 1) + (bitLenNat t - 1)) ≤ val W ws := by
      rw [hsplit, Nat.pow_add]
      calc 2 ^ (W * (ws.length - 1)) * 2 ^ (bitLenNat t - 1)
          ≤ 2 ^ (W * (ws.length - 1)) * t := Nat.mul_le_mul_left _ hb2
        _ ≤ _ := Nat.le_add_left _ _
    have hhi : val W ws < 2 ^ (W * (ws.length - 1) + (bitLenNat t - 1) + 1) := by
      rw [hsplit, show W * (ws.length - 1) + (bitLenNat t - 1) + 1
        = W * (ws.length - 1) + bitLenNat t by omega, Nat.pow_add]
      have : t + 1 ≤ 2 ^ bitLenNat t := hb1
      calc val W ws.dropLast + 2 ^ (W * (ws.length - 1)) * t
          < 2 ^ (W * (ws.length - 1)) + 2 ^ (W * (ws.length - 1)) * t := by omega
        _ = 2 ^ (W * (ws.length - 1)) * (t + 1) := by ring
        _ ≤ _ := Nat.mul_le_mul_left _ this
    rw [bitLenNat_eq hlo hhi]
    have : ws.length * W = W * (ws.length - 1) + W := by
      rw [Nat.mul_comm, ← Nat.mul_succ]; congr 1; omega
    omega


-- ================================================================== set_bit / clear_bit

theorem or_two_pow_of_lt (v n : Nat) (h : v < 2 ^ n) : v ||| 2 ^ n = v + 2 ^ n := by
  have := Nat.two_pow_add_eq_or_of_lt h 1
  rw [Nat.mul_one] at this
  rw [Nat.or_comm, ← this, Nat.add_comm]

theorem natAndNot_two_pow_of_lt (v n : Nat) (h : v < 2 ^ n) : natAndNot v (2 ^ n) = v := by
  apply Nat.eq_of_testBit_eq; intro i
  rw [testBit_natAndNot, Nat.testBit_two_pow]
  by_cases hi : n = i
  · subst hi; simp [Nat.testBit_lt_two_pow h]
  · simp [hi]

/-- value of a list with one word replaced, relative to the split at that word -/
theorem val_set (W : Nat) (ws : List Nat) (k x : Nat) (hk : k < ws.length) :
    val W (ws.set k x) = val W (ws.take k) + 2 ^ (W * k) * (x + 2 ^ W * val W (ws.drop (k + 1))) ∧
    val W ws = val W (ws.take k) + 2 ^ (W * k) * (ws.getD k 0 + 2 ^ W * val W (ws.drop (k + 1))) := by
  have ⟨h1, h2, h3⟩ := set_take_drop ws k x hk
  have hl : (ws.take k).length = k := by simp [List.length_take, Nat.min_eq_left (Nat.le_of_lt hk)]
  constructor
  · have := val_take_add_drop W (ws.set k x) k
    rw [h1, h2, hl, val_cons] at this
    exact this
  · have := val_take_add_drop W ws k
    rw [h3, hl, val_cons] at this
    exact this

theorem two_pow_split (W n : Nat) : 2 ^ n = 0 + 2 ^ (W * (n / W)) * (2 ^ (n % W) + 2 ^ W * 0) := by
  rw [Nat.zero_add, Nat.mul_zero, Nat.add_zero, pow_div_mod]

/-- `set_bit(n)`: the result is `x | 2^n`, i.e. bit `n` set and all other bits unchanged -/
theorem TRepr.setBit_spec (W : Nat) (hW : 1 ≤ W) (m : TRepr) (n : Nat) (hm : m.Canon W) :
    (m.setBit W n).value W = m.value W ||| 2 ^ n ∧ (m.setBit W n).Canon W := by
  have hs : n % W < W := Nat.mod_lt _ (by omega)
  have hbit : 2 ^ (n % W) < 2 ^ W := Nat.pow_lt_pow_right (by omega) hs
  cases m with
  | small d =>
    have hd : d < 2 ^ (2 * W) := hm
    simp only [TRepr.setBit]
    split
    · rename_i h
      exact ⟨rfl, Nat.or_lt_two_pow hd (Nat.pow_lt_pow_right (by omega) h)⟩
    · rename_i h
      have hq : 2 ≤ n / W := by rw [Nat.le_div_iff_mul_le (by omega)]; omega
      have hle : 2 ^ (2 * W) ≤ 2 ^ n := Nat.pow_le_pow_right (by omega) (by omega)
      refine ⟨?_, fromBuffer_canon W _ (IsWords.append (IsWords.append (isWords_dword W d hd)
        (isWords_replicate W _ 0 (Nat.two_pow_pos W))) (isWords_singleton W _ hbit))⟩
      rw [fromBuffer_value, List.append_assoc, val_append, val_dword, val_replicate_append]
      simp only [List.length_cons, List.length_nil, val_cons, val_nil, Nat.mul_zero, Nat.add_zero,
        TRepr.value_small]
      rw [or_two_pow_of_lt d n (by omega), ← pow_div_mod W n]
      have : W * (n / W) = W * (0 + 1 + 1) + W * (n / W - 2) := by
        rw [← Nat.mul_add]; congr 1; omega
      rw [this, Nat.pow_add]; ring
  | large ws =>
    have hw := hm.large_words
    simp only [TRepr.setBit, TRepr.value_large]
    split
    · rename_i hk
      have hx : ws.getD (n / W) 0 ||| 2 ^ (n % W) < 2 ^ W := Nat.or_lt_two_pow (hw.getD _) hbit
      refine ⟨?_, fromBuffer_canon W _ (hw.set _ _ hx)⟩
      have ⟨e1, e2⟩ := val_set W ws (n / W) (ws.getD (n / W) 0 ||| 2 ^ (n % W)) hk
      have hlt := val_lt W _ (hw.take (n / W))
      have hl : (ws.take (n / W)).length = n / W := by
        simp [List.length_take, Nat.min_eq_left (Nat.le_of_lt hk)]
      rw [hl] at hlt
      rw [fromBuffer_value, e1]
      conv => rhs; rw [e2, two_pow_split W n]
      rw [or_cons (W * (n / W)) _ 0 _ _ hlt (Nat.two_pow_pos _), or_cons W _ _ _ 0 (hw.getD _) hbit]
      simp
    · rename_i hk
      have hge : ws.length ≤ n / W := Nat.le_of_not_lt hk
      refine ⟨?_, fromBuffer_canon W _ (IsWords.append (IsWords.append hw
        (isWords_replicate W _ 0 (Nat.two_pow_pos W))) (isWords_singleton W _ hbit))⟩
      have hlt := val_lt W ws hw
      have hle : 2 ^ (W * ws.length) ≤ 2 ^ n := by
        apply Nat.pow_le_pow_right (by omega)
        calc W * ws.length ≤ W * (n / W) := Nat.mul_le_mul_left _ hge
          _ ≤ n := Nat.mul_div_le n W
      rw [fromBuffer_value, List.append_assoc, val_append, val_replicate_append]
      simp only [val_cons, val_nil, Nat.mul_zero, Nat.add_zero]
      rw [or_two_pow_of_lt _ n (by omega), ← pow_div_mod W n]
      have : W * (n / W) = W * ws.length + W * (n / W - ws.length) := by
        rw [← Nat.mul_add]; congr 1; omega
      rw [this, Nat.pow_add]; ring

/-- `clear_bit(n)`: the result is `x & !2^n` -/
theorem TRepr.clearBit_spec (W : Nat) (hW : 1 ≤ W) (m : TRepr) (n : Nat) (hm : m.Canon W) :
    (m.clearBit W n).value W = natAndNot (m.value W) (2 ^ n) ∧ (m.clearBit W n).Canon W := by
  have hs : n % W < W := Nat.mod_lt _ (by omega)
  have hbit : 2 ^ (n % W) < 2 ^ W := Nat.pow_lt_pow_right (by omega) hs
  cases m with
  | small d =>
    have hd : d < 2 ^ (2 * W) := hm
    simp only [TRepr.clearBit]
    split
    · rename_i h
      have h2 : 2 ^ n < 2 ^ (2 * W) := Nat.pow_lt_pow_right (by omega) h
      refine ⟨?_, Nat.lt_of_le_of_lt Nat.and_le_left hd⟩
      simp only [TRepr.value_small]
      rw [natAndNot_mod_of_lt d (2 ^ n) _ hd, Nat.mod_eq_of_lt h2]
    · rename_i h
      have hle : 2 ^ (2 * W) ≤ 2 ^ n := Nat.pow_le_pow_right (by omega) (by omega)
      exact ⟨(natAndNot_two_pow_of_lt d n (by omega)).symm, hd⟩
  | large ws =>
    have hw := hm.large_words
    simp only [TRepr.clearBit, TRepr.value_large]
    split
    · rename_i hk
      have hx : ws.getD (n / W) 0 &&& wnot W (2 ^ (n % W)) < 2 ^ W :=
        Nat.lt_of_le_of_lt Nat.and_le_left (hw.getD _)
      refine ⟨?_, fromBuffer_canon W _ (hw.set _ _ hx)⟩
      have ⟨e1, e2⟩ := val_set W ws (n / W) (ws.getD (n / W) 0 &&& wnot W (2 ^ (n % W))) hk
      have hlt := val_lt W _ (hw.take (n / W))
      have hl : (ws.take (n / W)).length = n / W := by
        simp [List.length_take, Nat.min_eq_left (Nat.le_of_lt hk)]
      rw [hl] at hlt
      rw [fromBuffer_value, e1]
      conv => rhs; rw [e2, two_pow_split W n]
      rw [andNot_cons (W * (n / W)) _ 0 _ _ hlt (Nat.two_pow_pos _), andNot_cons W _ _ _ 0 (hw.getD _) hbit]
      have hz : wnot (W * (n / W)) 0 = 2 ^ (W * (n / W)) - 1 := by simp [wnot]
      rw [hz, Nat.and_two_pow_sub_one_eq_mod, Nat.mod_eq_of_lt hlt, natAndNot_zero_right]
    · rename_i hk
      have hge : ws.length ≤ n / W := Nat.le_of_not_lt hk
      refine ⟨?_, fromBuffer_canon W _ hw⟩
      have hlt := val_lt W ws hw
      have hle : 2 ^ (W * ws.length) ≤ 2 ^ n := by
        apply Nat.pow_le_pow_right (by omega)
        calc W * ws.length ≤ W * (n / W) := Nat.mul_le_mul_left _ hge
          _ ≤ n := Nat.mul_div_le n W
      rw [fromBuffer_value, natAndNot_two_pow_of_lt _ n (by omega)]

-- ================================================================== is_power_of_two

theorem isPow2Nat_iff (n : Nat) : isPow2Nat n = true ↔ ∃ k, n = 2 ^ k := by
  unfold isPow2Nat
  by_cases h0 : n = 0
  · subst h0
    simp
    intro k hk
    have := Nat.two_pow_pos k; omega
  · have := Nat.and_sub_one_eq_zero_iff_isPowerOfTwo h0
    simp only [Nat.isPowerOfTwo] at this
    simp [h0, this]

theorem all_zero_iff (W : Nat) (l : List Nat) : l.all (· == 0) = true ↔ val W l = 0 := by
  have := any_ne_zero W l
  constructor
  · intro h
    by_contra hc
    have hany : l.any (· != 0) = true := by rw [this]; simpa using hc
    rw [List.any_eq_true] at hany
    obtain ⟨x, hx, hne⟩ := hany
    rw [List.all_eq_true] at h
    have := h x hx
    simp_all
  · intro h
    rw [List.all_eq_true]
    intro x hx
    by_contra hc
    have hany : l.any (· != 0) = true := by
      rw [List.any_eq_true]; exact ⟨x, hx, by simpa using hc⟩
    rw [this, h] at hany
    simp at hany

/-- `is_power_of_two` holds exactly for the powers of two -/
theorem TRepr.isPow2_spec (W : Nat) (m : TRepr) (hm : m.Canon W) :
    m.isPow2 W = true ↔ ∃ k, m.value W = 2 ^ k := by
  cases m with
  | small d => exact isPow2Nat_iff d
  | large ws =>
    obtain ⟨h3, hw, hlast⟩ := hm
    have hne : ws ≠ [] := by intro e; subst e; simp at h3
    have hsplit := val_dropLast_getLast W ws hne
    have hlow : val W ws.dropLast < 2 ^ (W * (ws.length - 1)) := by
      have := val_lt W _ (show IsWords W ws.dropLast from fun x hx => hw x (List.dropLast_subset ws hx))
      simpa [List.length_dropLast] using this
    have htop : ws.getLastD 0 ≠ 0 := by
      rw [List.getLastD_eq_getLast?]
      rw [List.getLast?_eq_some_getLast hne] at hlast ⊢
      simpa using hlast
    simp only [TRepr.isPow2, TRepr.value_large, Bool.and_eq_true, all_zero_iff W, isPow2Nat_iff]
    generalize ws.getLastD 0 = t at *
    generalize val W ws.dropLast = lo at *
    generalize W * (ws.length - 1) = K at *
    constructor
    · rintro ⟨h0, k, hk⟩
      exact ⟨K + k, by rw [hsplit, h0, hk, Nat.pow_add]; simp⟩
    · rintro ⟨k, hk⟩
      have hp := Nat.two_pow_pos K
      have hge : 2 ^ K ≤ val W ws := by
        rw [hsplit]
        calc 2 ^ K = 2 ^ K * 1 := by simp
          _ ≤ 2 ^ K * t := Nat.mul_le_mul_left _ (by omega)
          _ ≤ _ := Nat.le_add_left _ _
      have hKk : K ≤ k := by
        rw [hk] at hge
        exact (Nat.pow_le_pow_iff_right (by omega : 1 < 2)).mp hge
      have hmod : val W ws % 2 ^ K = lo := by
        rw [hsplit, Nat.add_mul_mod_self_left, Nat.mod_eq_of_lt hlow]
      have hk' : (2 : Nat) ^ k = 2 ^ K * 2 ^ (k - K) := by
        rw [← Nat.pow_add]; congr 1; omega
      have hlo0 : lo = 0 := by
        rw [← hmod, hk, hk', Nat.mul_mod_right]
      refine ⟨hlo0, k - K, ?_⟩
      rw [hlo0, Nat.zero_add, hk, hk'] at hsplit
      exact (Nat.eq_of_mul_eq_mul_left hp hsplit).symm

theorem specIsPow2_iff (n : Nat) : specIsPow2 n = true ↔ ∃ k, n = 2 ^ k := by
  unfold specIsPow2
  constructor
  · intro h; exact ⟨_, by simpa using h⟩
  · rintro ⟨k, rfl⟩; simp [Nat.log2_two_pow]


-- ================================================================== count_ones / count_zeros

theorem popWord_zero (f : Nat) : popWord f 0 = 0 := by
  induction f with
  | zero => rfl
  | succ f ih => simp [popWord, ih]

theorem popWord_le (f n : Nat) : popWord f n ≤ f := by
  induction f generalizing n with
  | zero => simp [popWord]
  | succ f ih =>
    simp only [popWord]
    have := ih (n / 2)
    omega

theorem popWord_add (f g a x : Nat) (ha : a < 2 ^ f) :
    popWord (f + g) (a + 2 ^ f * x) = popWord f a + popWord g x := by
  induction f generalizing a with
  | zero =>
    have : a = 0 := by simpa using ha
    subst this; simp [popWord]
  | succ f ih =>
    have hfg : f + 1 + g = (f + g) + 1 := by omega
    rw [hfg]
    simp only [popWord]
    have h2 : 2 ^ (f + 1) * x = 2 * (2 ^ f * x) := by rw [Nat.pow_succ]; ring
    have hmod : (a + 2 ^ (f + 1) * x) % 2 = a % 2 := by rw [h2]; omega
    have hdiv : (a + 2 ^ (f + 1) * x) / 2 = a / 2 + 2 ^ f * x := by rw [h2]; omega
    rw [hmod, hdiv, ih (a / 2) (by rw [Nat.pow_succ] at ha; omega)]
    omega

theorem popWord_stable (f g n : Nat) (h : n < 2 ^ f) : popWord (f + g) n = popWord f n := by
  have := popWord_add f g n 0 h
  simpa [popWord_zero] using this

theorem popWord_eq_popNat (f n : Nat) (h : n < 2 ^ f) : popWord f n = popNat n := by
  unfold popNat
  have hb := bitLenNat_le n f h
  have h1 := (bitLenNat_spec n).1
  have := popWord_stable (bitLenNat n) (f - bitLenNat n) n h1
  rw [show bitLenNat n + (f - bitLenNat n) = f by omega] at this
  exact this

theorem popNat_le_bitLen (n : Nat) : popNat n ≤ bitLenNat n := popWord_le _ _

theorem sum_popWord (W : Nat) (ws : List Nat) (hw : IsWords W ws) :
    (ws.map (popWord W)).sum = popWord (W * ws.length) (val W ws) := by
  induction ws with
  | nil => simp [popWord]
  | cons w ws ih =>
    simp only [List.map_cons, List.sum_cons, List.length_cons, val_cons, ih hw.tail]
    rw [show W * (ws.length + 1) = W + W * ws.length by ring, popWord_add W _ w _ hw.head]

/-- `count_ones` = number of one bits of the value -/
theorem TRepr.countOnes_spec (W : Nat) (m : TRepr) (hm : m.Canon W) :
    m.countOnes W = popNat (m.value W) := by
  cases m with
  | small d => exact popWord_eq_popNat (2 * W) d hm
  | large ws =>
    simp only [TRepr.countOnes, TRepr.value_large]
    rw [sum_popWord W ws hm.large_words]
    exact popWord_eq_popNat _ _ (val_lt W ws hm.large_words)

theorem sum_sub_popWord (W : Nat) (ws : List Nat) :
    (ws.map (fun w => W - popWord W w)).sum + (ws.map (popWord W)).sum = W * ws.length := by
  induction ws with
  | nil => simp
  | cons w ws ih =>
    simp only [List.map_cons, List.sum_cons, List.length_cons]
    have := popWord_le W w
    rw [Nat.mul_succ]; omega

/-- `count_zeros` = `bit_len - count_ones` (`None` for 0) -/
theorem TRepr.countZeros_spec (W : Nat) (m : TRepr) (hm : m.Canon W) :
    m.countZeros W = if m.value W = 0 then none else some (bitLenNat (m.value W) - popNat (m.value W)) := by
  cases m with
  | small d =>
    have hd : d < 2 ^ (2 * W) := hm
    simp only [TRepr.countZeros, TRepr.value_small]
    split
    · rename_i h0; simp [h0]
    · rename_i h0
      have h1 := popWord_eq_popNat (2 * W) d hd
      have h2 := popNat_le_bitLen d
      have h3 := bitLenNat_le d _ hd
      have h4 := popWord_le (2 * W) d
      rw [h1] at h4 ⊢
      simp only [h0, if_false]
      congr 1; omega
  | large ws =>
    have hpos : val W ws ≠ 0 := by
      have := hm.large_ge; have := Nat.two_pow_pos (2 * W); omega
    have hbl := TRepr.bitLen_spec W (.large ws) hm
    have hco := TRepr.countOnes_spec W (.large ws) hm
    simp only [TRepr.bitLen, TRepr.countOnes, TRepr.value_large] at hbl hco
    simp only [TRepr.countZeros, TRepr.value_large, hpos, if_false]
    have hsum := sum_sub_popWord W ws
    have hle := popNat_le_bitLen (val W ws)
    rw [hco] at hsum
    rw [← hbl] at hle ⊢
    have hbw : bitLenNat (ws.getLastD 0) ≤ W := by
      have hne : ws ≠ [] := by intro e; subst e; have := hm.large_len; simp at this
      apply bitLenNat_le
      rw [List.getLastD_eq_getLast?, List.getLast?_eq_some_getLast hne]
      exact hm.large_words _ (List.getLast_mem hne)
    rw [Nat.mul_comm] at hsum
    congr 1; omega

-- ================================================================== trailing ones of a negative number

theorem IsTz.compl {N y k : Nat} (hy : 0 < y) (hlt : y < 2 ^ N) (h : IsTz (2 ^ N - y) k) : IsTz y k := by
  have hkN : k < N := by
    have := h.pow_le
    exact (Nat.pow_lt_pow_iff_right (by omega : 1 < 2)).mp (by omega)
  obtain ⟨h1, h2⟩ := h
  have hdm := Nat.div_add_mod (2 ^ N - y) (2 ^ k)
  rw [h1, Nat.add_zero] at hdm
  generalize (2 ^ N - y) / 2 ^ k = q at *
  have hs : 2 ^ N = 2 ^ k * (2 * 2 ^ (N - k - 1)) := by
    rw [← Nat.pow_succ', ← Nat.pow_add]; congr 1; omega
  have hp := Nat.two_pow_pos k
  have hy' : y = 2 ^ k * (2 * 2 ^ (N - k - 1) - q) := by
    rw [Nat.mul_sub, ← hs, hdm]; omega
  have hq : q < 2 * 2 ^ (N - k - 1) := by
    have : 2 ^ k * q < 2 ^ k * (2 * 2 ^ (N - k - 1)) := by rw [← hs, hdm]; omega
    exact Nat.lt_of_mul_lt_mul_left this
  refine ⟨?_, ?_⟩
  · rw [hy']; exact Nat.mul_mod_right _ _
  · rw [hy', Nat.mul_div_cancel_left _ hp]; omega

theorem val_mod_two (W : Nat) (hW : 1 ≤ W) (w : Nat) (ws : List Nat) :
    val W (w :: ws) % 2 = w % 2 ∧ val W (w :: ws) / 2 = w / 2 + 2 ^ (W - 1) * val W ws := by
  have : 2 ^ W = 2 * 2 ^ (W - 1) := by rw [← Nat.pow_succ']; congr 1; omega
  simp only [val_cons]
  rw [this, Nat.mul_assoc]
  constructor <;> omega

theorem tzLargeShiftedByOne_spec (W : Nat) (hW : 1 ≤ W) (w : Nat) (ws : List Nat)
    (hw : IsWords W (w :: ws)) (hrest : val W ws ≠ 0) :
    ∃ t, tzLargeShiftedByOne W (w :: ws) = .ok t ∧ IsTz (val W (w :: ws) / 2) t := by
  have hw0 := hw.head
  have h2 : 2 ^ W = 2 * 2 ^ (W - 1) := by rw [← Nat.pow_succ']; congr 1; omega
  have hhalf : w / 2 < 2 ^ (W - 1) := by omega
  rw [(val_mod_two W hW w ws).2]
  simp only [tzLargeShiftedByOne, List.getD_cons_zero, List.drop_succ_cons, List.drop_zero]
  by_cases hz : w / 2 = 0
  · -- the low word contributes W - 1 zero bits, continue in the higher words
    have hzb : tzWord W (w / 2) = W := by simp [tzWord, hz]
    obtain ⟨t', ht', hI⟩ := tzLarge_spec W ws hw.tail hrest
    rw [hzb, hz, Nat.zero_add]
    have hnot : ¬ W < W - 1 := by omega
    simp only [hnot, if_false, ht']
    refine ⟨t' + W - 1, rfl, ?_⟩
    have := hI.shift (W - 1)
    rwa [show t' + (W - 1) = t' + W - 1 by omega] at this
  · have hI := tzWord_spec W (w / 2) hz (by omega)
    have hlt : tzWord W (w / 2) < W - 1 := by
      have := hI.pow_le
      exact (Nat.pow_lt_pow_iff_right (by omega : 1 < 2)).mp (by omega)
    simp only [hlt, if_true]
    exact ⟨_, rfl, hI.add_high hhalf _⟩

/-- `trailing_ones_neg`: trailing ones of `-v` in two's complement: `None` for `v = 1` (−1 is all
    ones), otherwise the number of trailing zeros of `v - 1` (`-v = !(v-1)`) -/
theorem TRepr.trailingOnesNeg_spec (W : Nat) (hW : 1 ≤ W) (m : TRepr) (hm : m.Canon W)
    (hz : m.value W ≠ 0) :
    (m.value W = 1 → m.trailingOnesNeg W = .ok none) ∧
    (2 ≤ m.value W → ∃ k, m.trailingOnesNeg W = .ok (some k) ∧ IsTz (m.value W - 1) k) := by
  cases m with
  | small d =>
    have hd : d < 2 ^ (2 * W) := hm
    simp only [TRepr.value_small] at hz ⊢
    simp only [TRepr.trailingOnesNeg, hz, if_false]
    refine ⟨fun h => by simp [h], fun h => ?_⟩
    have h1 : d ≠ 1 := by omega
    simp only [h1, if_false]
    refine ⟨_, rfl, ?_⟩
    have hp := Nat.two_pow_pos (2 * W)
    have := toWord_spec (2 * W) (2 ^ (2 * W) - d) (by omega)
    rw [show 2 ^ (2 * W) - d + 1 = 2 ^ (2 * W) - (d - 1) by omega] at this
    exact this.compl (by omega) (by omega)
  | large ws =>
    have hge := hm.large_ge
    have hbig : 2 ≤ val W ws := by
      have : 2 ≤ 2 ^ (2 * W) := by
        calc 2 = 2 ^ 1 := rfl
          _ ≤ 2 ^ (2 * W) := Nat.pow_le_pow_right (by omega) (by omega)
      omega
    simp only [TRepr.value_large] at hz ⊢
    refine ⟨fun h => by omega, fun _ => ?_⟩
    obtain ⟨w, rest, rfl⟩ : ∃ w rest, ws = w :: rest := by
      cases ws with
      | nil => have := hm.large_len; simp at this
      | cons w rest => exact ⟨w, rest, rfl⟩
    have hw := hm.large_words
    have ⟨hmod, hdiv⟩ := val_mod_two W hW w rest
    simp only [TRepr.trailingOnesNeg, List.getD_cons_zero]
    split
    · rename_i hev
      exact ⟨0, rfl, IsTz.zero_of_odd (by omega)⟩
    · rename_i hodd
      have hrest : val W rest ≠ 0 := by
        intro h0
        have hw0 := hw.head
        simp only [val_cons, h0, Nat.mul_zero, Nat.add_zero] at hge
        have : 2 ^ W ≤ 2 ^ (2 * W) := Nat.pow_le_pow_right (by omega) (by omega)
        omega
      obtain ⟨t, ht, hI⟩ := tzLargeShiftedByOne_spec W hW w rest hw hrest
      rw [ht]
      refine ⟨t + 1, rfl, ?_⟩
      have := hI.double
      rwa [show 2 * (val W (w :: rest) / 2) = val W (w :: rest) - 1 by omega] at this


-- ================================================================== next_power_of_two

/-- `r` is the least power of two that is `≥ v` -/
def IsNextPow2 (v r : Nat) : Prop := (∃ k, r = 2 ^ k) ∧ v ≤ r ∧ ∀ j, v ≤ 2 ^ j → r ≤ 2 ^ j

theorem IsNextPow2.unique {v r r' : Nat} (h : IsNextPow2 v r) (h' : IsNextPow2 v r') : r = r' := by
  obtain ⟨⟨k, hk⟩, h1, h2⟩ := h
  obtain ⟨⟨k', hk'⟩, h1', h2'⟩ := h'
  have a := h2 k' (hk' ▸ h1')
  have b := h2' k (hk ▸ h1)
  omega

/-- the closed form used by `checked_next_power_of_two` -/
def np2 (v : Nat) : Nat := if v ≤ 1 then 1 else 2 ^ bitLenNat (v - 1)

theorem np2_spec (v : Nat) : IsNextPow2 v (np2 v) := by
  unfold np2
  split
  · rename_i h
    exact ⟨⟨0, rfl⟩, h, fun j _ => Nat.one_le_two_pow⟩
  · rename_i h
    have h1 := (bitLenNat_spec (v - 1)).1
    refine ⟨⟨_, rfl⟩, by omega, fun j hj => ?_⟩
    exact Nat.pow_le_pow_right (by omega) (bitLenNat_le (v - 1) j (by
      have := Nat.two_pow_pos j; omega))

theorem specNextPow2_eq (v : Nat) : specNextPow2 v = np2 v := by
  unfold specNextPow2 np2 bitLenNat
  split
  · rfl
  · rename_i h
    have : v - 1 ≠ 0 := by omega
    simp [this]

theorem checkedNextPow2_eq (bits n : Nat) :
    checkedNextPow2 bits n = if np2 n < 2 ^ bits then some (np2 n) else none := by
  unfold checkedNextPow2 np2; rfl

/-- next power of two of `lo + 2^K * top` with `lo < 2^K`, `top ≥ 1` -/
theorem np2_split (K lo top : Nat) (hlo : lo < 2 ^ K) (htop : 1 ≤ top) :
    IsNextPow2 (lo + 2 ^ K * top) (2 ^ K * np2 (top + (if lo = 0 then 0 else 1))) := by
  have hp := Nat.two_pow_pos K
  generalize hx : top + (if lo = 0 then 0 else 1) = x
  obtain ⟨⟨k, hk⟩, hx1, hx2⟩ := np2_spec x
  refine ⟨⟨K + k, by rw [hk, Nat.pow_add]⟩, ?_, fun j hj => ?_⟩
  · -- upper bound
    have : lo + 2 ^ K * top ≤ 2 ^ K * x := by
      rw [← hx]
      by_cases h0 : lo = 0
      · simp [h0]
      · simp only [h0, if_false, Nat.mul_add, Nat.mul_one]; omega
    exact Nat.le_trans this (Nat.mul_le_mul_left _ hx1)
  · -- minimality
    have hge : 2 ^ K ≤ lo + 2 ^ K * top := by
      calc 2 ^ K = 2 ^ K * 1 := by simp
        _ ≤ 2 ^ K * top := Nat.mul_le_mul_left _ htop
        _ ≤ _ := Nat.le_add_left _ _
    have hKj : K ≤ j := (Nat.pow_le_pow_iff_right (by omega : 1 < 2)).mp (Nat.le_trans hge hj)
    have hj' : (2 : Nat) ^ j = 2 ^ K * 2 ^ (j - K) := by rw [← Nat.pow_add]; congr 1; omega
    rw [hj'] at hj ⊢
    apply Nat.mul_le_mul_left
    apply hx2
    rw [← hx]
    by_cases h0 : lo = 0
    · simp only [h0, if_true, Nat.add_zero, Nat.zero_add] at hj ⊢
      exact Nat.le_of_mul_le_mul_left hj hp
    · simp only [h0, if_false]
      have : 2 ^ K * top < 2 ^ K * 2 ^ (j - K) := by omega
      have := Nat.lt_of_mul_lt_mul_left this
      omega

theorem np2_le_of_le (v j : Nat) (h : v ≤ 2 ^ j) : np2 v ≤ 2 ^ j := (np2_spec v).2.2 j h

/-- `next_power_of_two`: the least power of two `≥ x`, canonical -/
theorem TRepr.nextPow2_spec (W : Nat) (hW : 1 ≤ W) (m : TRepr) (hm : m.Canon W) :
    (m.nextPow2 W).value W = np2 (m.value W) ∧ (m.nextPow2 W).Canon W := by
  have hpW := Nat.two_pow_pos W
  cases m with
  | small d =>
    have hd : d < 2 ^ (2 * W) := hm
    simp only [TRepr.nextPow2, checkedNextPow2_eq, TRepr.value_small]
    split
    · rename_i p hp
      split at hp
      · rename_i hlt; cases hp; exact ⟨rfl, hlt⟩
      · cases hp
    · rename_i hp
      split at hp
      · cases hp
      · rename_i hge
        have hle := np2_le_of_le d (2 * W) (Nat.le_of_lt hd)
        have h1 : (1 : Nat) < 2 ^ W := Nat.one_lt_two_pow (by omega)
        refine ⟨?_, fromBuffer_canon W _ (IsWords.cons hpW (IsWords.cons hpW (isWords_singleton W 1 h1)))⟩
        rw [fromBuffer_value]
        simp only [val_cons, val_nil, Nat.mul_zero, Nat.add_zero, Nat.zero_add, Nat.mul_one]
        rw [← two_pow_two_mul]; omega
  | large ws =>
    obtain ⟨h3, hw, hlast⟩ := hm
    have hne : ws ≠ [] := by intro e; subst e; simp at h3
    have hsplit := val_dropLast_getLast W ws hne
    have hlow : val W ws.dropLast < 2 ^ (W * (ws.length - 1)) := by
      have := val_lt W _ (show IsWords W ws.dropLast from fun x hx => hw x (List.dropLast_subset ws hx))
      simpa [List.length_dropLast] using this
    have htop : ws.getLastD 0 ≠ 0 := by
      rw [List.getLastD_eq_getLast?]
      rw [List.getLast?_eq_some_getLast hne] at hlast ⊢
      simpa using hlast
    have htopw : ws.getLastD 0 < 2 ^ W := by
      rw [List.getLastD_eq_getLast?, List.getLast?_eq_some_getLast hne]
      exact hw _ (List.getLast_mem hne)
    have hcarry : (if ws.dropLast.all (· == 0) = true then 0 else 1)
        = (if val W ws.dropLast = 0 then 0 else 1) := by
      by_cases h : val W ws.dropLast = 0
      · simp [(all_zero_iff W _).mpr h, h]
      · have : ¬ ws.dropLast.all (· == 0) = true := fun h' => h ((all_zero_iff W _).mp h')
        simp [this, h]
    have hspl := np2_split (W * (ws.length - 1)) (val W ws.dropLast) (ws.getLastD 0) hlow (by omega)
    rw [← hsplit] at hspl
    have huniq := (np2_spec (val W ws)).unique hspl
    have hxle : ws.getLastD 0 + (if val W ws.dropLast = 0 then 0 else 1) ≤ 2 ^ W := by
      split <;> omega
    simp only [TRepr.nextPow2, nextPow2Large, TRepr.value_large, hcarry, List.length_dropLast,
      checkedNextPow2_eq]
    rw [huniq]
    generalize ws.getLastD 0 + (if val W ws.dropLast = 0 then 0 else 1) = x at *
    have hnle := np2_le_of_le x W hxle
    have hxn := (np2_spec x).2.1
    have hz := isWords_replicate W (ws.length - 1) 0 hpW
    by_cases hA : x < 2 ^ W ∧ np2 x < 2 ^ W
    · simp only [hA.1, hA.2, if_true]
      refine ⟨?_, fromBuffer_canon W _ (IsWords.append hz (isWords_singleton W _ hA.2))⟩
      rw [fromBuffer_value, val_replicate_append]; simp
    · have hnp : np2 x = 2 ^ W := by
        by_cases h1 : x < 2 ^ W
        · have : ¬ np2 x < 2 ^ W := fun h => hA ⟨h1, h⟩
          omega
        · omega
      have h1 : (1 : Nat) < 2 ^ W := Nat.one_lt_two_pow (by omega)
      have hnone : (if x < 2 ^ W then (if np2 x < 2 ^ W then some (np2 x) else none) else none) = none := by
        by_cases h1 : x < 2 ^ W
        · have : ¬ np2 x < 2 ^ W := fun h => hA ⟨h1, h⟩
          simp [h1, this]
        · simp [h1]
      rw [hnone]
      refine ⟨?_, fromBuffer_canon W _ (IsWords.append hz (IsWords.cons hpW (isWords_singleton W 1 h1)))⟩
      rw [fromBuffer_value, val_replicate_append, hnp]; simp

end Dashu.Model
