import Dashu.Model.Int.Repr
import Dashu.Proofs.Int.Word
/-
  Refinement of the dispatch layer (`repr.rs` from_buffer/from_dword, `add_ops.rs mod repr`) to
  arithmetic on `Nat`, for every word size `W ≥ 1`.
-/
namespace Dashu.Model

-- ------------------------------------------------------------------ trimLen / popZeros

theorem trimLen_le (ws : List Nat) : trimLen ws ≤ ws.length := by
  induction ws with
  | nil => simp [trimLen]
  | cons w ws ih =>
    simp only [trimLen, List.length_cons]
    split <;> (try split) <;> omega

theorem val_zero_of_trimLen_zero (W : Nat) (ws : List Nat) (h : trimLen ws = 0) : val W ws = 0 := by
  induction ws with
  | nil => rfl
  | cons w ws ih =>
    simp only [trimLen] at h
    split at h
    · rename_i h0
      split at h
      · rename_i hw; simp [ih h0, hw]
      · omega
    · omega

theorem val_popZeros (W : Nat) (ws : List Nat) : val W (popZeros ws) = val W ws := by
  unfold popZeros
  induction ws with
  | nil => simp [trimLen]
  | cons w ws ih =>
    simp only [trimLen]
    split
    · rename_i h0
      have hz := val_zero_of_trimLen_zero W ws h0
      split
      · rename_i hw; simp [hw, hz]
      · simp [hz]
    · simp only [List.take_succ_cons, val_cons, ih]

theorem popZeros_isWords {W : Nat} {ws : List Nat} (h : IsWords W ws) : IsWords W (popZeros ws) :=
  h.take _

theorem popZeros_length (ws : List Nat) : (popZeros ws).length = trimLen ws := by
  unfold popZeros; simp [List.length_take, Nat.min_eq_left (trimLen_le ws)]

theorem popZeros_getLast (ws : List Nat) : (popZeros ws).getLast? ≠ some 0 := by
  unfold popZeros
  induction ws with
  | nil => simp [trimLen]
  | cons w ws ih =>
    simp only [trimLen]
    split
    · rename_i h0
      split
      · simp
      · rename_i hw; simp [hw]
    · rename_i h0
      rw [List.take_succ_cons]
      have hne : List.take (trimLen ws) ws ≠ [] := by
        intro hnil
        have := congrArg List.length hnil
        simp [List.length_take, Nat.min_eq_left (trimLen_le ws)] at this
        exact h0 this
      rw [List.getLast?_cons_of_ne_nil hne] <;> exact ih

-- ------------------------------------------------------------------ fromBuffer

theorem fromBuffer_value (W : Nat) (ws : List Nat) : (fromBuffer W ws).value W = val W ws := by
  rw [← val_popZeros W ws]
  unfold fromBuffer
  split <;> simp_all [TRepr.value]

theorem fromBuffer_canon (W : Nat) (ws : List Nat) (h : IsWords W ws) :
    (fromBuffer W ws).Canon W := by
  have hw := popZeros_isWords h
  have hl := popZeros_getLast ws
  unfold fromBuffer
  split
  · simp [TRepr.Canon, Nat.two_pow_pos]
  · rename_i a he
    rw [he] at hw
    have := hw.head
    simp only [TRepr.Canon]
    calc a < 2 ^ W := this
      _ ≤ 2 ^ (2 * W) := Nat.pow_le_pow_right (by omega) (by omega)
  · rename_i a b he
    rw [he] at hw
    have ha := hw.head
    have hb := hw.tail.head
    simp only [TRepr.Canon]
    have : 2 ^ (2 * W) = 2 ^ W * 2 ^ W := by rw [← Nat.pow_add]; congr 1; omega
    rw [this]
    nlinarith [Nat.two_pow_pos W]
  · rename_i l h0 h1 h2
    refine ⟨?_, hw, hl⟩
    match hp : popZeros ws with
    | [] => exact absurd hp h0
    | [a] => exact absurd hp (h1 a)
    | [a, b] => exact absurd hp (h2 a b)
    | _ :: _ :: _ :: _ => simp

-- ------------------------------------------------------------------ addDword / addLargeDword / addLarge

theorem addDword_value (W a b : Nat) (ha : a < 2 ^ (2 * W)) (hb : b < 2 ^ (2 * W)) :
    (addDword W a b).value W = a + b := by
  unfold addDword
  have hp : 0 < 2 ^ (2 * W) := Nat.two_pow_pos _
  have hpw : 0 < 2 ^ W := Nat.two_pow_pos _
  have hsq : 2 ^ (2 * W) = 2 ^ W * 2 ^ W := by rw [← Nat.pow_add]; congr 1; omega
  by_cases h : (a + b) / 2 ^ (2 * W) = 0
  · simp [h, TRepr.value]
  · simp only [h, if_false, fromBuffer_value, val_cons, val_nil]
    have hq : (a + b) / 2 ^ (2 * W) = 1 := by
      have hlt : a + b < 2 * 2 ^ (2 * W) := by
        have := ha; have := hb; clear hsq; omega
      have : (a + b) / 2 ^ (2 * W) < 2 := (Nat.div_lt_iff_lt_mul hp).mpr hlt
      generalize (a + b) / 2 ^ (2 * W) = q at *
      omega
    have h1 := Nat.div_add_mod (a + b) (2 ^ (2 * W))
    have h2 := Nat.div_add_mod ((a + b) % 2 ^ (2 * W)) (2 ^ W)
    rw [hq] at h1
    rw [hsq] at h1 h2 ⊢
    nlinarith [h1, h2]

theorem addDword_canon (W a b : Nat) (ha : a < 2 ^ (2 * W)) (hb : b < 2 ^ (2 * W)) :
    (addDword W a b).Canon W := by
  unfold addDword
  have hp : 0 < 2 ^ (2 * W) := Nat.two_pow_pos _
  have hpw : 0 < 2 ^ W := Nat.two_pow_pos _
  have hsq : 2 ^ (2 * W) = 2 ^ W * 2 ^ W := by rw [← Nat.pow_add]; congr 1; omega
  by_cases h : (a + b) / 2 ^ (2 * W) = 0
  · simp only [h, if_true, TRepr.Canon]
    exact (Nat.div_eq_zero_iff_lt hp).mp h
  · simp only [h, if_false]
    apply fromBuffer_canon
    have hr : (a + b) % 2 ^ (2 * W) < 2 ^ W * 2 ^ W := by rw [← hsq]; exact Nat.mod_lt _ hp
    refine IsWords.cons (Nat.mod_lt _ hpw) (IsWords.cons ?_ (IsWords.cons ?_ (IsWords.nil W)))
    · exact (Nat.div_lt_iff_lt_mul hpw).mpr hr
    · exact Nat.one_lt_two_pow (by
        intro hW; subst hW; simp at ha hb; subst ha; subst hb; simp at h)

end Dashu.Model
